import YataDriver.Util
import YataDriver.Window
import YataDriver.Methods
import YataDriver.SpecEval
import YataDriver.Action
import YataDriver.Candle
import YataDriver.Renko
import YataDriver.Indicators
