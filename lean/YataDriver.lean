import YataDriver.Util
import YataDriver.Window
import YataDriver.Methods
