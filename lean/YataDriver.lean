import YataDriver.Util
import YataDriver.Window
