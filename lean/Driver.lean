/-
  Driver: replays harness transcripts through the executable model and reports every
  disagreement.  Line protocol (see /verif/harness/src/main.rs):
    P <max of PeriodType>
    C <case id> <component> <params…>
    <op tokens> ; <rust result tokens>
    E
-/
import YataModel
import YataDriver
open Yata Yata.Drv

inductive CaseState where
  | idle
  | window (w : Window Nat)

structure Drv where
  P : Nat := 255
  cs : CaseState := .idle
  caseId : String := ""
  comp : String := ""
  lineNo : Nat := 0
  cases : Nat := 0
  ops : Nat := 0
  mism : Nat := 0
  caseBad : Bool := false
  badCases : Nat := 0

def reportLimit : Nat := 20000

def step (d : Drv) (line : String) : Drv × Option String :=
  let d := { d with lineNo := d.lineNo + 1 }
  let (op, res) := splitLine line
  match op with
  | [] => (d, none)
  | ["P", p] => ({ d with P := p.toNat! }, none)
  | "C" :: id :: comp :: _params =>
    let cs := match comp with
      | "window" => CaseState.window Window.empty
      | _ => CaseState.idle
    ({ d with cs := cs, caseId := id, comp := comp, cases := d.cases + 1, caseBad := false },
      if comp == "window" then none else some s!"UNKNOWN-COMPONENT case={id} comp={comp}")
  | ["E"] => ({ d with cs := .idle }, none)
  | _ =>
    match d.cs with
    | .idle => (d, none)
    | .window w =>
      let (w', model) := windowOp d.P w op
      let rust := unwords res
      let d := { d with cs := .window w', ops := d.ops + 1 }
      if model == rust then (d, none)
      else
        let d := { d with mism := d.mism + 1,
                          badCases := if d.caseBad then d.badCases else d.badCases + 1,
                          caseBad := true }
        (d, some s!"MISMATCH case={d.caseId} comp={d.comp} line={d.lineNo} op=\"{unwords op}\" rust=\"{rust}\" model=\"{model}\"")

partial def loop (h : IO.FS.Stream) (d : Drv) : IO Drv := do
  let line ← h.getLine
  if line.isEmpty then return d
  let (d', msg) := step d (line.trimAscii.toString)
  match msg with
  | some m => if d'.mism ≤ reportLimit then IO.println m
  | none => pure ()
  loop h d'

def main (args : List String) : IO UInt32 := do
  let h ← match args with
    | [path] => do
      let hd ← IO.FS.Handle.mk path .read
      pure (IO.FS.Stream.ofHandle hd)
    | _ => IO.getStdin
  let d ← loop h {}
  IO.println s!"SUMMARY cases={d.cases} ops={d.ops} mismatches={d.mism} bad_cases={d.badCases}"
  return (if d.mism == 0 then 0 else 1)
