/-
  Driver: replays harness transcripts through the executable model and reports every
  disagreement.  Line protocol (see /verif/harness/src/main.rs):
    P <max of PeriodType>
    C <case id> <component> <params…>
    <op tokens> ; <rust result tokens>
    E
-/
import YataModel
import YataDriver
open Yata Yata.Drv Yata.Ind

/-- running indicator case -/
structure IndCase where
  name : String
  kinds : List String
  srcs : List Source
  st : Option IState            -- `none`: no model for this indicator
  ctx : Ctx
  first : Candle Rat
  flat : Bool := true           -- every candle so far equals the first
  zeroVol : Bool := false       -- a zero-volume candle has been seen
  cmpVals : Bool := true
  cmpSigs : Bool := true
  cmpRange : Bool := true
  cmpDoc : Bool := true
  sigHold : Nat := 0            -- steps during which the detector states resynchronise after a non-finite value
  nVals : Nat := 0              -- values actually compared (not exempt)
  nSigs : Nat := 0              -- signals actually compared
  nSteps : Nat := 0
  docRangeSeen : Bool := false  -- a formula-level doc-range excess was already reported for this case (reported once; range checks go on)
  nExV : Nat := 0               -- steps with at least one value slot legitimately exempt (comparison on, nothing to compare)

inductive CaseState where
  | idle
  | skip                                   -- after a mismatch: ignore the rest of the case
  | window (w : Window Nat)
  | action
  | candle
  | flags
  | renkoNew (brick : String) (src : Nat)
  | renko (st : Renko)
  | methodNew (name : String) (params : List String) (t0 : Nat) (m0 : Rat)
  | method (name : String) (params : List String) (st : MState) (ctx : Ctx) (prevLeaves : List String)
      (lstepOnly : Bool) (spec : SpecSt)
  | indNew (name : String) (cfg : List String)
  | ind (i : IndCase)

structure Drv where
  P : Nat := 255
  f32 : Bool := false
  cs : CaseState := .idle
  caseId : String := ""
  comp : String := ""
  sub : String := ""
  lineNo : Nat := 0
  cases : Nat := 0
  ops : Nat := 0
  mism : Nat := 0
  caseBad : Bool := false
  badCases : Nat := 0
  exempt : Nat := 0
  lsteps : Nat := 0
  specs : Nat := 0

def reportLimit : Nat := 20000

def split3 (line : String) : List String × List String × List String :=
  match line.splitOn ";" with
  | [a] => (words a, [], [])
  | [a, b] => (words a, words b, [])
  | a :: b :: c :: _ => (words a, words b, words c)
  | [] => ([], [], [])

def fzOf (tok : String) : Option FZ :=
  match parseF tok with
  | some (.fin neg q) => some { q := q, negZero := neg && q == 0 }
  | _ => none

def bump (c : Ctx) (name : String) (inp : List FZ) : Ctx :=
  let a := inp.map (fun z => ratAbs z.q)
  let mx := a.foldl ratMax 0
  match name, a with
  | "vwma", [p, v] => { c with M := ratMax c.M p, Mv := ratMax c.Mv v }
  | _, [o, h, l, cl, v] => { c with M := ratMax c.M (ratMax (ratMax o h) (ratMax l cl)), Mv := ratMax c.Mv v }
  | _, _ => { c with M := ratMax c.M mx, Mv := ratMax c.Mv mx }

def resStr : Res MState → String
  | .ok _ => "ok"
  | .err e => s!"err:{e}"
  | .panic _ => "P"

def mismatch (d : Drv) (what : String) (line : String) (cls : String := "semantic") (next : CaseState := .skip) :
    Drv × Option String :=
  let d := { d with mism := d.mism + 1, badCases := if d.caseBad then d.badCases else d.badCases + 1,
                    caseBad := true, cs := next }
  (d, some s!"MISMATCH case={d.caseId} comp={d.comp} sub={d.sub} class={cls} line={d.lineNo} op=\"{line.take 160}\" what=\"{what}\"")

/-- tight per-step context for the L-step layer: one step, no window term -/
def lstepCtx (c : Ctx) : Ctx := { c with t := 1, n := 0 }

/-- L-step: from Rust's own pre-state, one exact model step must reproduce Rust's output and
    post-state up to one step's rounding.  `none` = holds, `some msg` = broken. -/
def lstepCheck (ctx : Ctx) (st : MState) (prev : List String) (inp : List FZ)
    (res leaves : List String) : Option (Option String) :=
  if prev.isEmpty then none else
  match mLoad st prev with
  | none => none
  | some stL =>
    let c := lstepCtx ctx
    match mNext c stL inp with
    | .error e => some (some s!"L-step: model panics ({e}) from the implementation's own state")
    | .ok (outs, stL') =>
      -- widen the numeric tolerance by the size of the value itself (one step of relative rounding)
      let outs := outs.map fun o => match o with
        | .num q tol => Out.num q (tol + 1024 * c.eps * ratAbs q)
        | o => o
      let (bad, _) := cmpAll (cmpOut c) outs res "L-step output"
      match bad with
      | some m => some (some m)
      | none =>
        if leaves.isEmpty then some none else
        let (bad2, _) := cmpAll (cmpLeaf c (c.allow (stateScale c stL'))) (mLeaves stL') leaves "L-step state"
        some bad2

def stepMethod (d : Drv) (line : String) : Drv × Option String :=
  let (op, res, leaves) := split3 line
  match d.cs, op with
  | .methodNew name params t0 m0, "S" :: stToks =>
    -- C07 late positions: adopt the implementation's serialized state and continue with the per-step tie only
    let x0 : List FZ := [default, default, default, default, default]
    match mNew d.P name params x0 with
    | .ok st0 =>
      match mLoad st0 stToks with
      | some st =>
        let ctx0 : Ctx := if d.f32 then { P := d.P, n := st.winLen, eps := pow2 (-23), C := 64 } else { P := d.P, n := st.winLen }
        ({ d with cs := .method name params st { ctx0 with t := t0, M := m0, Mv := m0 } stToks true default }, none)
      | none => ({ d with cs := .skip }, some s!"NOTE case={d.caseId} no state loader for {name}")
    | _ => ({ d with cs := .skip }, none)
  | .methodNew name params t0 m0, "N" :: inToks =>
    match inToks.mapM fzOf with
    | none => ({ d with cs := .skip }, some s!"NOTE case={d.caseId} non-finite construction input skipped")
    | some inp =>
      let r := mNew d.P name params inp
      let rust := unwords res
      if resStr r != rust then mismatch d s!"constructor: rust={rust} model={resStr r}" line "constructor"
      else match r with
        | .ok st =>
          let ctx0 : Ctx := if d.f32 then { P := d.P, n := st.winLen, eps := pow2 (-23), C := 64 } else { P := d.P, n := st.winLen }
          let ctx1 : Ctx := bump ctx0 name inp
          let ctx : Ctx := { ctx1 with t := t0, M := ratMax ctx1.M m0, Mv := ratMax ctx1.Mv m0 }
          let (bad, _) := if leaves.isEmpty then (none, 0)
            else cmpAll (cmpLeaf ctx (ctx.allow (stateScale ctx st))) (mLeaves st) leaves "state after new"
          let d := { d with ops := d.ops + 1, cs := .method name params st ctx leaves false (specInit name (inp.map (·.q))) }
          (match bad with
           | some m => mismatch d m line "constructor-state"
           | none => (d, none))
        | _ => ({ d with ops := d.ops + 1, cs := .skip }, none)
  | .method name params st ctx _ lonly spec, "T" :: preToks =>
    -- late-position case (C07): the implementation's own state right before the sampled step, for the per-step tie;
    -- the marker keeps the fresh model's state from being compared with the long-run state (ring phase differs)
    ({ d with cs := .method name params st ctx ("T" :: preToks) lonly spec }, none)
  | .method name params st ctx prev0 lonly spec, "X" :: inToks =>
    let isLocal := prev0.head? == some "T"
    let prev := if isLocal then prev0.drop 1 else prev0
    -- a late-position case stays one: every later step is tied through the implementation's own pre-state
    let keep (l : List String) : List String := if isLocal then "T" :: l else l
    match inToks.mapM fzOf with
    | none => ({ d with cs := .skip }, some s!"NOTE case={d.caseId} non-finite input skipped")
    | some inp =>
      let ctx := bump { ctx with t := ctx.t + 1 } name inp
      let ls := if res == ["P"] then none else lstepCheck ctx st prev inp res leaves
      if lonly then
        -- after a numeric (residue) finding the exact chain is no longer comparable:
        -- keep only the per-step tie, resynchronised on the implementation's state
        let st' := (mLoad st leaves).getD st
        let d := { d with ops := d.ops + 1, lsteps := d.lsteps + (if ls.isSome then 1 else 0),
                          cs := .method name params st' ctx (keep leaves) true spec }
        match ls with
        | some (some m) => mismatch d m line "semantic"
        | _ => (d, none)
      else
      match mNext ctx st inp, res with
      | .error _, ["P"] => ({ d with ops := d.ops + 1, cs := .skip }, none)
      | .error e, _ => mismatch d s!"model panics ({e}) but rust returned {unwords res}" line "panic"
      | .ok _, ["P"] => mismatch d "rust panicked, model does not" line "panic"
      | .ok (_, st'), ["?"] =>
        let (_, spec') := specStep name params spec (inp.map (·.q))
        ({ d with cs := .method name params st' ctx (keep leaves) false spec' }, none)
      | .ok (outs, st'), _ =>
        -- C12: dispersion measures are never negative (strict, on the implementation's own output)
        if ["stdev", "mad", "medad", "linvol", "tr"].contains name &&
            (match parseRat (res.headD "") with
             | some y => y < -(ctx.allow (ctx.M * ((ctx.n + 1 : Nat) : Rat)))   -- "up to the rounding allowance" (sum scale n·M)
             | none => false) then
          mismatch d s!"range: dispersion output {res.headD ""} is negative" line "range"
        else
        let (sv, spec') := specStep name params spec (inp.map (·.q))
        let mv := outExact (outs.headD .exempt)
        if !specAgrees mv sv then
          mismatch d s!"model output {specValStr mv} ≠ from-scratch spec {specValStr sv}" line "model-vs-spec"
        else
        let (bad, ex) := cmpAll (cmpOut ctx) outs res "output"
        let d := { d with ops := d.ops + 1, exempt := d.exempt + ex,
                          lsteps := d.lsteps + (if ls.isSome then 1 else 0),
                          specs := d.specs + (match sv with | .none => 0 | _ => 1),
                          cs := .method name params st' ctx (keep leaves) false spec' }
        let bad2 := if leaves.isEmpty || isLocal then none
          else (cmpAll (cmpLeaf ctx (ctx.allow (stateScale ctx st'))) (mLeaves st') leaves "state").1
        match bad, bad2, ls with
        | none, none, some (some m) => mismatch d m line "lstep"
        | none, none, _ => (d, none)
        | some m, _, some none =>
          -- the step is right, the accumulated value is not: numeric failure.
          -- `residue-amplification` when every accumulator is still inside its allowance
          let accOk := leaves.isEmpty ||
            (cmpAll (cmpLeaf ctx (ctx.allow (stateScale ctx st'))) (mLeavesAcc st') leaves "acc").1.isNone
          let cls := if isLocal then "numeric-drift" else if accOk then "residue-amplification" else "numeric-drift"
          let stR := (mLoad st' leaves).getD st'
          mismatch d m line cls (.method name params stR ctx (keep leaves) true spec')
        | some m, _, some (some m2) => mismatch d (m ++ " || " ++ m2) line "semantic"
        -- no per-step tie for this kind: for a late-position case the fresh exact model primed with the last window
        -- disagrees with the long-running instance, i.e. accumulated drift
        | some m, _, none => mismatch d m line (if isLocal then "numeric-drift" else "unclassified")
        | none, some m, some none => mismatch d m line "numeric-drift" (.method name params ((mLoad st' leaves).getD st') ctx (keep leaves) true spec')
        | none, some m, _ => mismatch d m line "semantic"
  | _, _ => (d, none)

def imismatch (d : Drv) (cls sub what line : String) (next : CaseState) : Drv × Option String :=
  let d := { d with mism := d.mism + 1, badCases := if d.caseBad then d.badCases else d.badCases + 1,
                    caseBad := true, cs := next }
  (d, some s!"MISMATCH case={d.caseId} comp={d.comp} sub={sub} class={cls} line={d.lineNo} op=\"{line.take 160}\" what=\"{what}\"")

/-- split `v<k> … s<m> …` -/
def splitRes (res : List String) : Option (List String × List String) :=
  match res with
  | h :: r =>
    if h.startsWith "v" then
      match (h.drop 1).toString.toNat? with
      | some k =>
        let vals := r.take k
        match r.drop k with
        | sh :: sr => if sh.startsWith "s" then some (vals, sr) else none
        | [] => none
      | none => none
    else none
  | [] => none

def kindTag (i : IndCase) : String :=
  if i.kinds.isEmpty then i.name else i.name ++ "/" ++ "+".intercalate i.kinds

def stepIndicator (d : Drv) (line : String) : Drv × Option String :=
  let (op, res, _) := split3 line
  match d.cs, op with
  | .indNew name cfg, "J" :: js =>
    -- the configuration as JSON: the kinds of the moving averages and the sources, unambiguously
    let j := unwords js
    let has (k : String) : Bool := (j.splitOn ("\"" ++ k ++ "\"")).length > 1
    let kinds := ["sma", "wma", "hma", "rma", "ema", "dma", "dema", "tma", "tema", "wsma", "smm", "swma", "trima", "lin_reg", "vidya"].filter has
    let srcs := ["close", "open", "high", "low", "hl2", "tp", "volume", "volumed_price"].filter fun n =>
      (j.splitOn (":\"" ++ n ++ "\"")).length > 1
    ({ d with cs := .indNew name (cfg ++ kinds.map ("K:" ++ ·) ++ srcs.map ("S:" ++ ·)) }, none)
  | .indNew name cfg, "N" :: inToks =>
    match candleOfToks inToks with
    | none => ({ d with cs := .skip }, some s!"NOTE case={d.caseId} non-finite first candle skipped")
    | some k =>
      let rust := res.headD "?"
      let tagged (p : String) : List String := (cfg.filter (·.startsWith p)).map fun t => (t.drop 2).toString
      let hasJ := cfg.any fun t => t.startsWith "K:" || t.startsWith "S:"
      let kinds := if hasJ then (tagged "K:").map (fun k => if k == "lin_reg" then "linreg" else k) else maKinds cfg
      let srcs := if hasJ then (tagged "S:").filterMap (fun n => Source.all.find? (fun s => s.toStr == n)) else cfgSources cfg
      let cfg := cfg.filter fun t => !(t.startsWith "K:" || t.startsWith "S:")
      let ctx0 : Ctx := { P := d.P }
      match iNew d.P name cfg k with
      | none =>
        let d := { d with ops := d.ops + 1 }
        if rust == "ok" then
          ({ d with cs := .ind { name := name, kinds := kinds, srcs := srcs, st := none, ctx := bumpCandle ctx0 srcs k, first := k } }, none)
        else ({ d with cs := .skip }, none)
      | some r =>
        let ms := match r with | .ok _ => "ok" | .err e => s!"err:{e}" | .panic _ => "P"
        let d := { d with ops := d.ops + 1 }
        if ms != rust then imismatch d "ind-init" name s!"init: rust={rust} model={ms}" line .skip
        else match r with
          | .ok st =>
            ({ d with cs := .ind { name := name, kinds := kinds, srcs := srcs, st := some st,
                                   ctx := bumpCandle { ctx0 with n := st.winLen } srcs k, first := k } }, none)
          | _ => ({ d with cs := .skip }, none)
  | .ind i, "X" :: inToks =>
    match candleOfToks inToks with
    | none => ({ d with cs := .skip }, some s!"NOTE case={d.caseId} non-finite candle skipped")
    | some k =>
      let d := { d with ops := d.ops + 1 }
      if res.headD "" == "P" then
        -- a panic where the model says the formula has just become undefined (relative change of a zero quantity: the
        -- deliberate NaN assertion of SMM/Highest/Lowest) belongs to C10's finding, not to the value comparison
        let undef := match i.st with
          | some ist => (match iStep d.P i.ctx ist k [] with | .ok so => so.borderline | .error _ => false)
          | none => false
        if undef then ({ d with cs := .skip, exempt := d.exempt + 1 }, none)
        else imismatch d "ind-panic" (kindTag i) s!"next panicked on a valid candle: {unwords (res.drop 1)}" line .skip
      else
      match splitRes res with
      | none => imismatch d "ind-shape" (kindTag i) "unparsable result" line .skip
      | some (vt, st) =>
        let ctx := bumpCandle { i.ctx with t := i.ctx.t + 1 } i.srcs k
        let flat := i.flat && k == i.first
        let zeroVol := i.zeroVol || k.volume == 0
        let i := { i with ctx := ctx, flat := flat, zeroVol := zeroVol }
        let rvo := vt.map parseRat
        let finite := rvo.all Option.isSome
        let rv := rvo.map (·.getD 0)
        -- C12: ranges and orderings, on the implementation's own values, no exemption
        let rbad : Option String :=
          if !i.cmpRange then none
          else if finite then rangeCheck ctx i.name i.kinds k rv i.srcs
          else
            -- a non-finite value in a slot with a documented interval is outside that interval
            (rangeSpec i.name i.kinds).intervals.findSome? fun (j, lo, hi) =>
              match rvo[j]? with
              | some none => some s!"v{j}:range-nonfinite value {vt.getD j "?"} (non-finite) outside [{ratStr lo}, {ratStr hi}]"
              | _ => none
        match i.st with
        | none =>
          -- unmodelled indicator: finiteness only (where no zero volume can make a quotient undefined)
          -- unmodelled indicator: only the (empty) range table applies; where its formula is defined is not known here
          let i := { i with cmpRange := i.cmpRange && rbad.isNone }
          match rbad with
            | some m => imismatch d "ind-range" (kindTag i ++ ":" ++ (m.splitOn " ").headD "") m line (.ind i)
            | none => ({ d with cs := .ind i }, none)
        | some ist =>
          match iStep d.P ctx ist k rv st flat with
          | .error e => imismatch d "ind-panic" (kindTag i) s!"model panics ({e}), rust returned values" line .skip
          | .ok so =>
            let i := { i with st := some so.st }
            -- C05
            let (vbad, vex) : Option String × Nat :=
              if !i.cmpVals then (none, 0)
              else if so.vals.length ≠ vt.length then (some s!"v:shape model has {so.vals.length} values, rust {vt.length}", 0)
              else
                ((so.vals.zip vt).zipIdx).foldl (fun (acc : Option String × Nat) (p : (VExp × String) × Nat) =>
                  match acc.1 with
                  | some _ => acc
                  | none => match cmpV ctx flat p.1.1 p.1.2 rv with
                    | .ok => acc
                    | .exempt => (none, acc.2 + 1)
                    | .bad m => (some s!"v{p.2}:value {m}", acc.2)) (none, 0)
            -- C06
            let (sbad, sex) : Option String × Nat :=
              if !i.cmpSigs || !finite || i.sigHold > 0 then (none, if finite && i.sigHold > 0 then 1 else 0)
              else if so.sigs.length ≠ st.length then (some s!"s:shape model has {so.sigs.length} signals, rust {st.length}", 0)
              else
                ((so.sigs.zip st).zipIdx).foldl (fun (acc : Option String × Nat) (p : (SigExp × String) × Nat) =>
                  match acc.1 with
                  | some _ => acc
                  | none => match cmpS p.1.1 p.1.2 with
                    | .ok => acc
                    | .exempt => (none, acc.2 + 1)
                    | .bad m => (some s!"s{p.2}:signal {m}", acc.2)) (none, 0)
            let nv := if i.cmpVals && !so.borderline then so.vals.length - vex else 0
            let ns := if i.cmpSigs && finite && i.sigHold == 0 && !so.borderline then so.sigs.length - sex else 0
            let exv := if i.cmpVals && !so.borderline && vex > 0 then 1 else 0
            let i := { i with nVals := i.nVals + nv, nSigs := i.nSigs + ns, nSteps := i.nSteps + 1, nExV := i.nExV + exv }
            let d := { d with exempt := d.exempt + vex + sex, specs := d.specs + nv, lsteps := d.lsteps + ns }
            -- a borderline model decision (SAR flip within rounding) ends the value/signal comparison of the case
            -- a non-finite value enters the signal state (crossing deltas; for TrendStrengthIndex the 4-element reversal window)
            let hold := if i.name == "TrendStrengthIndex" then 8 else 1
            let i := { i with sigHold := if !finite then hold else i.sigHold - 1 }
            let i := if so.borderline then { i with cmpVals := false, cmpSigs := false } else i
            let tag (m : String) := kindTag i ++ ":" ++ (m.splitOn " ").headD ""
            -- a `p/√q` value whose excess over its interval is inside the hull its own allowances permit (it agrees with the
            -- exact value, which is in range by C12_trend_strength_range) respects the range "up to the rounding allowance"
            let rbad : Option String := match rbad with
              | some m =>
                let slot := ((m.drop 1).toString.takeWhile Char.isDigit).toString.toNat?.getD 0
                (match so.vals[slot]?, vt[slot]? with
                 | some (VExp.sqrtQuot num den κn κd), some tok =>
                   let aD := ctx.allow (κd * ctx.M * ctx.M)
                   if den > 2 * aD && (match cmpV ctx flat (VExp.sqrtQuot num den κn κd) tok rv with | .ok => true | _ => false)
                   then none else some m
                 | _, _ => some m)
              | none => none
            if so.borderline then
              -- ADX while the exact averaged true range is zero (prices have stopped moving): the values cannot be compared,
              -- but whatever leaves its range there is a quotient of rounding residue behind the exact `true_range == 0.0` guard
              match rbad with
              | some m =>
                if i.name == "AverageDirectionalIndex" && i.cmpRange then
                  imismatch d "ind-range" (i.name ++ ":" ++ (m.splitOn " ").headD "" ++ "-residue") m line (.ind { i with cmpRange := false })
                else ({ d with cs := .ind i, exempt := d.exempt + 1 }, none)
              | none => ({ d with cs := .ind i, exempt := d.exempt + 1 }, none)
            else match rbad, vbad, sbad with
            | some m, _, _ =>
              -- a range violation at a slot whose exact denominator (or guard) is zero up to the allowance is the
              -- rounding-residue quotient; anything else is a different violation
              let slot := ((m.drop 1).toString.takeWhile Char.isDigit).toString.toNat?.getD 0
              let (residue, undefined) := match so.vals[slot]? with
                | some (.quot _ den _ κd sc guards alt) =>
                  let aD := ctx.allow (κd * scaleOf ctx sc)
                  let r := ratAbs den ≤ aD || guards.any (fun g => ratAbs g ≤ aD)
                  (r, r && alt.isNone)
                | some (.cquot _ den _ κd sc guards alt _ _) =>
                  let aD := ctx.allow (κd * scaleOf ctx sc)
                  let r := ratAbs den ≤ aD || guards.any (fun g => ratAbs g ≤ aD)
                  (r, r && alt.isNone)
                | some (.sqrtQuot _ den _ κd) =>
                  -- p/√q with the exact radicand zero up to the allowance (the code returns 0 when its own radicand is not positive)
                  let aD := ctx.allow (κd * ctx.M * ctx.M)
                  (den ≤ 2 * aD, false)
                | some (.approx _ _ _) =>
                  -- ADX: |+DI − −DI| / (+DI + −DI) behind `s == 0.`: when both exact directional averages vanish up to the
                  -- allowance the quotient is one of rounding residues
                  if i.name == "AverageDirectionalIndex" && slot == 0 then
                    let tiny (e : Option VExp) : Bool := match e with
                      | some (.quot num _ κn _ sc _ _) => ratAbs num ≤ ctx.allow (κn * scaleOf ctx sc)
                      | some (.exact q) => q == 0
                      | _ => false
                    (tiny so.vals[1]? && tiny so.vals[2]?, false)
                  else (false, false)
                | _ => (false, false)
              -- no guard in the code and a zero exact denominator: the formula is not defined there (zero total volume)
              if undefined then ({ d with cs := .ind i, exempt := d.exempt + 1 }, none)
              else if ((m.splitOn " ").headD "").endsWith "doc-range" then
                -- a documented range the formula does not imply (DESIGN §7.1) — but a value that leaves it where the exact
                -- denominator vanishes is the quotient of rounding residue, a different defect with its own signature
                if residue then
                  imismatch d "ind-range" (i.name ++ ":" ++ (m.splitOn " ").headD "" ++ "-residue") m line (.ind { i with cmpRange := false })
                else if i.docRangeSeen then ({ d with cs := .ind i, exempt := d.exempt + 1 }, none)
                else imismatch d "ind-range" (i.name ++ ":" ++ (m.splitOn " ").headD "") m line (.ind { i with docRangeSeen := true })
              else if residue then
                imismatch d "ind-range" (i.name ++ ":" ++ (m.splitOn " ").headD "" ++ "-residue") m line (.ind { i with cmpRange := false })
              else imismatch d "ind-range" (tag m) m line (.ind { i with cmpRange := false })
            | none, some m, _ =>
              let cls := if (m.splitOn "non-finite").length > 1 then "ind-finite" else "ind-value"
              -- Vidya's running sums amplify rounding residue (known finding of C03/C15): cases configured with it are
              -- reported under their own signature
              let sub := if i.kinds.contains "vidya" then "vidya" else tag m
              imismatch d cls sub m line (.ind { i with cmpVals := false })
            | none, none, some m => imismatch d "ind-signal" (tag m) m line (.ind { i with cmpSigs := false })
            | none, none, none =>
              -- everything agrees with the model of the code; does the code agree with its documentation?
              match (if i.cmpDoc && finite then docCheck i.name so rv st else none) with
              | some (cls, sub, m) => imismatch d cls sub m line (.ind { i with cmpDoc := false })
              | none => ({ d with cs := .ind i }, none)
  | _, _ => (d, none)

def step (d : Drv) (line : String) : Drv × Option String :=
  let d := { d with lineNo := d.lineNo + 1 }
  let (op, res) := splitLine line
  match op with
  | [] => (d, none)
  | ["P", p] => ({ d with P := p.toNat! }, none)
  | ["V", b] => ({ d with f32 := b == "32" }, none)
  | "C" :: id :: comp :: _params =>
    let cs := match comp, _params with
      | "window", _ => CaseState.window Window.empty
      | "action", _ => CaseState.action
      | "candle", _ => CaseState.candle
      | "flags", _ => CaseState.flags
      | "renko", [b, s] => CaseState.renkoNew b s.toNat!
      | "method", name :: ps =>
        let t0 := ((ps.find? (·.startsWith "t0=")).map fun t => (t.drop 3).toString.toNat!).getD 0
        let m0 := ((ps.find? (·.startsWith "M=")).bind fun t => parseRat (t.drop 2).toString).getD 0
        CaseState.methodNew name (ps.filter fun t => !(t.startsWith "t0=") && !(t.startsWith "M=")) t0 m0
      | "indicator", name :: cfg => CaseState.indNew name cfg
      | _, _ => CaseState.idle
    ({ d with cs := cs, caseId := id, comp := comp, sub := _params.headD "", cases := d.cases + 1, caseBad := false },
      if comp == "window" || comp == "method" || comp == "action" || comp == "candle" || comp == "renko" || comp == "flags" || comp == "indicator" then none else some s!"UNKNOWN-COMPONENT case={id} comp={comp}")
  | ["E"] =>
    -- per-case coverage of the indicator comparisons (aggregated into the evidence: a comparison that is silently
    -- switched off shows as a zero count)
    let msg := match d.cs with
      | .ind i => if i.st.isSome then some s!"ISTAT name={i.name} steps={i.nSteps} vals={i.nVals} sigs={i.nSigs} exv={i.nExV}" else none
      | _ => none
    ({ d with cs := .idle }, msg)
  | _ =>
    match d.cs with
    | .idle => (d, none)
    | .skip => (d, none)
    | .methodNew _ _ _ _ => stepMethod d line
    | .method _ _ _ _ _ _ _ => stepMethod d line
    | .indNew _ _ => stepIndicator d line
    | .ind _ => stepIndicator d line
    | .renkoNew brick src =>
      let parts := (line.splitOn ";").map words
      let rust := unwords (parts.getD 1 [])
      let d := { d with ops := d.ops + 1 }
      (match op, (parseF brick) with
       | "N" :: ins, some bf =>
         match candleOfToks ins with
         | none => ({ d with cs := .skip }, none)
         | some c =>
           let eps := if d.f32 then pow2 (-23) else pow2 (-52)
           let r : Res Renko := match bf with
             | .fin _ b => Renko.new eps b (Source.all.getD src .close) c
             | _ => .err .wrongMethodParameters
           let ms := match r with | .ok _ => "ok" | .err e => s!"err:{e}" | .panic _ => "P"
           if ms != rust then mismatch d s!"constructor: rust={rust} model={ms}" line "constructor"
           else match r, loadRenko (parts.getD 2 []) with
             | .ok m, some rs =>
               let ok := relOk eps rs.last_block_upper m.last_block_upper ∧ relOk eps rs.last_block_lower m.last_block_lower ∧
                 relOk eps rs.next_block_upper m.next_block_upper ∧ relOk eps rs.next_block_lower m.next_block_lower ∧
                 rs.brick_size == m.brick_size ∧ rs.volume == 0 ∧ rs.src == m.src
               if ok then ({ d with cs := .renko rs }, none) else mismatch d "state after new differs from the model" line "constructor-state"
             | .ok _, none => mismatch d "state after new not finite" line "constructor-state"
             | _, _ => ({ d with cs := .skip }, none)
       | _, _ => ({ d with cs := .skip }, none))
    | .renko st =>
      let parts := (line.splitOn ";").map words
      let d := { d with ops := d.ops + 1, lsteps := d.lsteps + 1 }
      (match op with
       | "X" :: ins =>
         if parts.getD 1 [] == ["P"] then mismatch d "Renko::next panicked" line "panic"
         else match candleOfToks (ins.take 5), (ins.getD 5 "").toList.isEmpty, parseRat (ins.getD 5 "") with
           | some c, false, some value =>
             match renkoStep (if d.f32 then pow2 (-23) else pow2 (-52)) st c value (parts.getD 1 []) (parts.getD 2 []) (parts.getD 3 []) (parts.getD 4 []) with
             | some m => mismatch d m line "semantic"
             | none => ({ d with cs := match loadRenko (parts.getD 4 []) with | some s => .renko s | none => .skip }, none)
           | _, _, _ => ({ d with cs := .skip }, none)
       | _ => (d, none))
    | .flags =>
      -- Rust-vs-Rust (or Rust-vs-definition) comparisons made inside the harness: every flag must be set
      let d := { d with ops := d.ops + 1 }
      if res.any (· == "ok=i1") then (d, none)
      else
        let d := { d with mism := d.mism + 1, badCases := if d.caseBad then d.badCases else d.badCases + 1, caseBad := true }
        (d, some s!"MISMATCH case={d.caseId} comp={d.comp} sub={d.sub}:{op.getD 1 ""}:{op.getD 2 ""} class=rust-vs-rust line={d.lineNo} op=\"{(unwords op).take 200}\" what=\"{unwords res}\"")
    | .candle =>
      let parts := (line.splitOn ";").map words
      let bad : Option String := match op with
        | "ohlcv" :: ins => candleOhlcv ins (parts.getD 1 []) (parts.getD 2 [])
        | "add" :: ins =>
          if parts.getD 1 [] == ["P"] then some "Candle + panicked"
          else candleAdd ins (parts.getD 1 []) (parts.getD 2 []) (parts.getD 3 [])
        | _ => candleText d.P op res
      let d := { d with ops := d.ops + 1 }
      match bad with
      | none => (d, none)
      | some m =>
        let d := { d with mism := d.mism + 1, badCases := if d.caseBad then d.badCases else d.badCases + 1, caseBad := true }
        (d, some s!"MISMATCH case={d.caseId} comp={d.comp} sub={op.headD ""} class=exact line={d.lineNo} op=\"{(unwords op).take 200}\" what=\"{m}\"")
    | .action =>
      let rust := unwords res
      let (ok, model) := actionAgree op rust
      let d := { d with ops := d.ops + 1 }
      if ok then
        match actionLaw op res with
        | none => (d, none)
        | some law =>
          let d := { d with mism := d.mism + 1, badCases := if d.caseBad then d.badCases else d.badCases + 1, caseBad := true }
          (d, some s!"MISMATCH case={d.caseId} comp={d.comp} sub={law} class=law line={d.lineNo} op=\"{unwords op}\" rust=\"{rust}\" model=\"(law violated by the implementation's own results)\"")
      else
        let d := { d with mism := d.mism + 1, badCases := if d.caseBad then d.badCases else d.badCases + 1, caseBad := true }
        (d, some s!"MISMATCH case={d.caseId} comp={d.comp} sub={op.headD ""} class=exact line={d.lineNo} op=\"{unwords op}\" rust=\"{rust}\" model=\"{model}\"")
    | .window w =>
      let (w', model) := windowOp d.P w op
      let rust := unwords res
      let d := { d with cs := .window w', ops := d.ops + 1 }
      if model == rust then (d, none)
      else
        let d := { d with mism := d.mism + 1,
                          badCases := if d.caseBad then d.badCases else d.badCases + 1,
                          caseBad := true }
        (d, some s!"MISMATCH case={d.caseId} comp={d.comp} class=exact line={d.lineNo} op=\"{unwords op}\" rust=\"{rust}\" model=\"{model}\"")

partial def loop (h : IO.FS.Stream) (d : Drv) : IO Drv := do
  let line ← h.getLine
  if line.isEmpty then return d
  let (d', msg) := step d (line.trimAscii.toString)
  match msg with
  | some m => if d'.mism ≤ reportLimit then IO.println m
  | none => pure ()
  loop h d'

def main (args : List String) : IO UInt32 := do
  let h ← match args with
    | [path] => do
      let hd ← IO.FS.Handle.mk path .read
      pure (IO.FS.Stream.ofHandle hd)
    | _ => IO.getStdin
  let d ← loop h {}
  IO.println s!"SUMMARY cases={d.cases} ops={d.ops} mismatches={d.mism} bad_cases={d.badCases} exempt={d.exempt} lsteps={d.lsteps} spec_evals={d.specs}"
  return (if d.mism == 0 then 0 else 1)
