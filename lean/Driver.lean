/-
  Driver: replays harness transcripts through the executable model and reports every
  disagreement.  Line protocol (see /verif/harness/src/main.rs):
    P <max of PeriodType>
    C <case id> <component> <params…>
    <op tokens> ; <rust result tokens>
    E
-/
import YataModel
import YataDriver
open Yata Yata.Drv

inductive CaseState where
  | idle
  | skip                                   -- after a mismatch: ignore the rest of the case
  | window (w : Window Nat)
  | action
  | candle
  | flags
  | renkoNew (brick : String) (src : Nat)
  | renko (st : Renko)
  | methodNew (name : String) (params : List String) (t0 : Nat) (m0 : Rat)
  | method (name : String) (params : List String) (st : MState) (ctx : Ctx) (prevLeaves : List String)
      (lstepOnly : Bool) (spec : SpecSt)

structure Drv where
  P : Nat := 255
  f32 : Bool := false
  cs : CaseState := .idle
  caseId : String := ""
  comp : String := ""
  sub : String := ""
  lineNo : Nat := 0
  cases : Nat := 0
  ops : Nat := 0
  mism : Nat := 0
  caseBad : Bool := false
  badCases : Nat := 0
  exempt : Nat := 0
  lsteps : Nat := 0
  specs : Nat := 0

def reportLimit : Nat := 20000

def split3 (line : String) : List String × List String × List String :=
  match line.splitOn ";" with
  | [a] => (words a, [], [])
  | [a, b] => (words a, words b, [])
  | a :: b :: c :: _ => (words a, words b, words c)
  | [] => ([], [], [])

def fzOf (tok : String) : Option FZ :=
  match parseF tok with
  | some (.fin neg q) => some { q := q, negZero := neg && q == 0 }
  | _ => none

def bump (c : Ctx) (name : String) (inp : List FZ) : Ctx :=
  let a := inp.map (fun z => ratAbs z.q)
  let mx := a.foldl ratMax 0
  match name, a with
  | "vwma", [p, v] => { c with M := ratMax c.M p, Mv := ratMax c.Mv v }
  | _, [o, h, l, cl, v] => { c with M := ratMax c.M (ratMax (ratMax o h) (ratMax l cl)), Mv := ratMax c.Mv v }
  | _, _ => { c with M := ratMax c.M mx, Mv := ratMax c.Mv mx }

def resStr : Res MState → String
  | .ok _ => "ok"
  | .err e => s!"err:{e}"
  | .panic _ => "P"

def mismatch (d : Drv) (what : String) (line : String) (cls : String := "semantic") (next : CaseState := .skip) :
    Drv × Option String :=
  let d := { d with mism := d.mism + 1, badCases := if d.caseBad then d.badCases else d.badCases + 1,
                    caseBad := true, cs := next }
  (d, some s!"MISMATCH case={d.caseId} comp={d.comp} sub={d.sub} class={cls} line={d.lineNo} op=\"{line.take 160}\" what=\"{what}\"")

/-- tight per-step context for the L-step layer: one step, no window term -/
def lstepCtx (c : Ctx) : Ctx := { c with t := 1, n := 0 }

/-- L-step: from Rust's own pre-state, one exact model step must reproduce Rust's output and
    post-state up to one step's rounding.  `none` = holds, `some msg` = broken. -/
def lstepCheck (ctx : Ctx) (st : MState) (prev : List String) (inp : List FZ)
    (res leaves : List String) : Option (Option String) :=
  if prev.isEmpty then none else
  match mLoad st prev with
  | none => none
  | some stL =>
    let c := lstepCtx ctx
    match mNext c stL inp with
    | .error e => some (some s!"L-step: model panics ({e}) from the implementation's own state")
    | .ok (outs, stL') =>
      -- widen the numeric tolerance by the size of the value itself (one step of relative rounding)
      let outs := outs.map fun o => match o with
        | .num q tol => Out.num q (tol + 1024 * c.eps * ratAbs q)
        | o => o
      let (bad, _) := cmpAll (cmpOut c) outs res "L-step output"
      match bad with
      | some m => some (some m)
      | none =>
        if leaves.isEmpty then some none else
        let (bad2, _) := cmpAll (cmpLeaf c (c.allow (stateScale c stL'))) (mLeaves stL') leaves "L-step state"
        some bad2

def stepMethod (d : Drv) (line : String) : Drv × Option String :=
  let (op, res, leaves) := split3 line
  match d.cs, op with
  | .methodNew name params t0 m0, "S" :: stToks =>
    -- C07 late positions: adopt the implementation's serialized state and continue with the per-step tie only
    let x0 : List FZ := [default, default, default, default, default]
    match mNew d.P name params x0 with
    | .ok st0 =>
      match mLoad st0 stToks with
      | some st =>
        let ctx0 : Ctx := if d.f32 then { P := d.P, n := st.winLen, eps := pow2 (-23), C := 64 } else { P := d.P, n := st.winLen }
        ({ d with cs := .method name params st { ctx0 with t := t0, M := m0, Mv := m0 } stToks true default }, none)
      | none => ({ d with cs := .skip }, some s!"NOTE case={d.caseId} no state loader for {name}")
    | _ => ({ d with cs := .skip }, none)
  | .methodNew name params t0 m0, "N" :: inToks =>
    match inToks.mapM fzOf with
    | none => ({ d with cs := .skip }, some s!"NOTE case={d.caseId} non-finite construction input skipped")
    | some inp =>
      let r := mNew d.P name params inp
      let rust := unwords res
      if resStr r != rust then mismatch d s!"constructor: rust={rust} model={resStr r}" line "constructor"
      else match r with
        | .ok st =>
          let ctx0 : Ctx := if d.f32 then { P := d.P, n := st.winLen, eps := pow2 (-23), C := 64 } else { P := d.P, n := st.winLen }
          let ctx1 : Ctx := bump ctx0 name inp
          let ctx : Ctx := { ctx1 with t := t0, M := ratMax ctx1.M m0, Mv := ratMax ctx1.Mv m0 }
          let (bad, _) := if leaves.isEmpty then (none, 0)
            else cmpAll (cmpLeaf ctx (ctx.allow (stateScale ctx st))) (mLeaves st) leaves "state after new"
          let d := { d with ops := d.ops + 1, cs := .method name params st ctx leaves false (specInit name (inp.map (·.q))) }
          (match bad with
           | some m => mismatch d m line "constructor-state"
           | none => (d, none))
        | _ => ({ d with ops := d.ops + 1, cs := .skip }, none)
  | .method name params st ctx prev lonly spec, "X" :: inToks =>
    match inToks.mapM fzOf with
    | none => ({ d with cs := .skip }, some s!"NOTE case={d.caseId} non-finite input skipped")
    | some inp =>
      let ctx := bump { ctx with t := ctx.t + 1 } name inp
      let ls := if res == ["P"] then none else lstepCheck ctx st prev inp res leaves
      if lonly then
        -- after a numeric (residue) finding the exact chain is no longer comparable:
        -- keep only the per-step tie, resynchronised on the implementation's state
        let st' := (mLoad st leaves).getD st
        let d := { d with ops := d.ops + 1, lsteps := d.lsteps + (if ls.isSome then 1 else 0),
                          cs := .method name params st' ctx leaves true spec }
        match ls with
        | some (some m) => mismatch d m line "semantic"
        | _ => (d, none)
      else
      match mNext ctx st inp, res with
      | .error _, ["P"] => ({ d with ops := d.ops + 1, cs := .skip }, none)
      | .error e, _ => mismatch d s!"model panics ({e}) but rust returned {unwords res}" line "panic"
      | .ok _, ["P"] => mismatch d "rust panicked, model does not" line "panic"
      | .ok (_, st'), ["?"] =>
        let (_, spec') := specStep name params spec (inp.map (·.q))
        ({ d with cs := .method name params st' ctx leaves false spec' }, none)
      | .ok (outs, st'), _ =>
        let (sv, spec') := specStep name params spec (inp.map (·.q))
        let mv := outExact (outs.headD .exempt)
        if !specAgrees mv sv then
          mismatch d s!"model output {specValStr mv} ≠ from-scratch spec {specValStr sv}" line "model-vs-spec"
        else
        let (bad, ex) := cmpAll (cmpOut ctx) outs res "output"
        let d := { d with ops := d.ops + 1, exempt := d.exempt + ex,
                          lsteps := d.lsteps + (if ls.isSome then 1 else 0),
                          specs := d.specs + (match sv with | .none => 0 | _ => 1),
                          cs := .method name params st' ctx leaves false spec' }
        let bad2 := if leaves.isEmpty then none
          else (cmpAll (cmpLeaf ctx (ctx.allow (stateScale ctx st'))) (mLeaves st') leaves "state").1
        match bad, bad2, ls with
        | none, none, some (some m) => mismatch d m line "lstep"
        | none, none, _ => (d, none)
        | some m, _, some none =>
          -- the step is right, the accumulated value is not: numeric failure.
          -- `residue-amplification` when every accumulator is still inside its allowance
          let accOk := leaves.isEmpty ||
            (cmpAll (cmpLeaf ctx (ctx.allow (stateScale ctx st'))) (mLeavesAcc st') leaves "acc").1.isNone
          let cls := if accOk then "residue-amplification" else "numeric-drift"
          let stR := (mLoad st' leaves).getD st'
          mismatch d m line cls (.method name params stR ctx leaves true spec')
        | some m, _, some (some m2) => mismatch d (m ++ " || " ++ m2) line "semantic"
        | some m, _, none => mismatch d m line "unclassified"
        | none, some m, some none => mismatch d m line "numeric-drift" (.method name params ((mLoad st' leaves).getD st') ctx leaves true spec')
        | none, some m, _ => mismatch d m line "semantic"
  | _, _ => (d, none)

def step (d : Drv) (line : String) : Drv × Option String :=
  let d := { d with lineNo := d.lineNo + 1 }
  let (op, res) := splitLine line
  match op with
  | [] => (d, none)
  | ["P", p] => ({ d with P := p.toNat! }, none)
  | ["V", b] => ({ d with f32 := b == "32" }, none)
  | "C" :: id :: comp :: _params =>
    let cs := match comp, _params with
      | "window", _ => CaseState.window Window.empty
      | "action", _ => CaseState.action
      | "candle", _ => CaseState.candle
      | "flags", _ => CaseState.flags
      | "renko", [b, s] => CaseState.renkoNew b s.toNat!
      | "method", name :: ps =>
        let t0 := ((ps.find? (·.startsWith "t0=")).map fun t => (t.drop 3).toString.toNat!).getD 0
        let m0 := ((ps.find? (·.startsWith "M=")).bind fun t => parseRat (t.drop 2).toString).getD 0
        CaseState.methodNew name (ps.filter fun t => !(t.startsWith "t0=") && !(t.startsWith "M=")) t0 m0
      | _, _ => CaseState.idle
    ({ d with cs := cs, caseId := id, comp := comp, sub := _params.headD "", cases := d.cases + 1, caseBad := false },
      if comp == "window" || comp == "method" || comp == "action" || comp == "candle" || comp == "renko" || comp == "flags" then none else some s!"UNKNOWN-COMPONENT case={id} comp={comp}")
  | ["E"] => ({ d with cs := .idle }, none)
  | _ =>
    match d.cs with
    | .idle => (d, none)
    | .skip => (d, none)
    | .methodNew _ _ _ _ => stepMethod d line
    | .method _ _ _ _ _ _ _ => stepMethod d line
    | .renkoNew brick src =>
      let parts := (line.splitOn ";").map words
      let rust := unwords (parts.getD 1 [])
      let d := { d with ops := d.ops + 1 }
      (match op, (parseF brick) with
       | "N" :: ins, some bf =>
         match candleOfToks ins with
         | none => ({ d with cs := .skip }, none)
         | some c =>
           let eps := pow2 (-52)
           let r : Res Renko := match bf with
             | .fin _ b => Renko.new eps b (Source.all.getD src .close) c
             | _ => .err .wrongMethodParameters
           let ms := match r with | .ok _ => "ok" | .err e => s!"err:{e}" | .panic _ => "P"
           if ms != rust then mismatch d s!"constructor: rust={rust} model={ms}" line "constructor"
           else match r, loadRenko (parts.getD 2 []) with
             | .ok m, some rs =>
               let ok := relOk eps rs.last_block_upper m.last_block_upper ∧ relOk eps rs.last_block_lower m.last_block_lower ∧
                 relOk eps rs.next_block_upper m.next_block_upper ∧ relOk eps rs.next_block_lower m.next_block_lower ∧
                 rs.brick_size == m.brick_size ∧ rs.volume == 0 ∧ rs.src == m.src
               if ok then ({ d with cs := .renko rs }, none) else mismatch d "state after new differs from the model" line "constructor-state"
             | .ok _, none => mismatch d "state after new not finite" line "constructor-state"
             | _, _ => ({ d with cs := .skip }, none)
       | _, _ => ({ d with cs := .skip }, none))
    | .renko st =>
      let parts := (line.splitOn ";").map words
      let d := { d with ops := d.ops + 1, lsteps := d.lsteps + 1 }
      (match op with
       | "X" :: ins =>
         if parts.getD 1 [] == ["P"] then mismatch d "Renko::next panicked" line "panic"
         else match candleOfToks (ins.take 5), (ins.getD 5 "").toList.isEmpty, parseRat (ins.getD 5 "") with
           | some c, false, some value =>
             match renkoStep (pow2 (-52)) st c value (parts.getD 1 []) (parts.getD 2 []) (parts.getD 3 []) (parts.getD 4 []) with
             | some m => mismatch d m line "semantic"
             | none => ({ d with cs := match loadRenko (parts.getD 4 []) with | some s => .renko s | none => .skip }, none)
           | _, _, _ => ({ d with cs := .skip }, none)
       | _ => (d, none))
    | .flags =>
      -- Rust-vs-Rust (or Rust-vs-definition) comparisons made inside the harness: every flag must be set
      let d := { d with ops := d.ops + 1 }
      if res.any (· == "ok=i1") then (d, none)
      else
        let d := { d with mism := d.mism + 1, badCases := if d.caseBad then d.badCases else d.badCases + 1, caseBad := true }
        (d, some s!"MISMATCH case={d.caseId} comp={d.comp} sub={d.sub}:{op.getD 1 ""}:{op.getD 2 ""} class=rust-vs-rust line={d.lineNo} op=\"{(unwords op).take 200}\" what=\"{unwords res}\"")
    | .candle =>
      let parts := (line.splitOn ";").map words
      let bad : Option String := match op with
        | "ohlcv" :: ins => candleOhlcv ins (parts.getD 1 []) (parts.getD 2 [])
        | "add" :: ins =>
          if parts.getD 1 [] == ["P"] then some "Candle + panicked"
          else candleAdd ins (parts.getD 1 []) (parts.getD 2 []) (parts.getD 3 [])
        | _ => candleText d.P op res
      let d := { d with ops := d.ops + 1 }
      match bad with
      | none => (d, none)
      | some m =>
        let d := { d with mism := d.mism + 1, badCases := if d.caseBad then d.badCases else d.badCases + 1, caseBad := true }
        (d, some s!"MISMATCH case={d.caseId} comp={d.comp} sub={op.headD ""} class=exact line={d.lineNo} op=\"{(unwords op).take 200}\" what=\"{m}\"")
    | .action =>
      let rust := unwords res
      let (ok, model) := actionAgree op rust
      let d := { d with ops := d.ops + 1 }
      if ok then
        match actionLaw op res with
        | none => (d, none)
        | some law =>
          let d := { d with mism := d.mism + 1, badCases := if d.caseBad then d.badCases else d.badCases + 1, caseBad := true }
          (d, some s!"MISMATCH case={d.caseId} comp={d.comp} sub={law} class=law line={d.lineNo} op=\"{unwords op}\" rust=\"{rust}\" model=\"(law violated by the implementation's own results)\"")
      else
        let d := { d with mism := d.mism + 1, badCases := if d.caseBad then d.badCases else d.badCases + 1, caseBad := true }
        (d, some s!"MISMATCH case={d.caseId} comp={d.comp} sub={op.headD ""} class=exact line={d.lineNo} op=\"{unwords op}\" rust=\"{rust}\" model=\"{model}\"")
    | .window w =>
      let (w', model) := windowOp d.P w op
      let rust := unwords res
      let d := { d with cs := .window w', ops := d.ops + 1 }
      if model == rust then (d, none)
      else
        let d := { d with mism := d.mism + 1,
                          badCases := if d.caseBad then d.badCases else d.badCases + 1,
                          caseBad := true }
        (d, some s!"MISMATCH case={d.caseId} comp={d.comp} class=exact line={d.lineNo} op=\"{unwords op}\" rust=\"{rust}\" model=\"{model}\"")

partial def loop (h : IO.FS.Stream) (d : Drv) : IO Drv := do
  let line ← h.getLine
  if line.isEmpty then return d
  let (d', msg) := step d (line.trimAscii.toString)
  match msg with
  | some m => if d'.mism ≤ reportLimit then IO.println m
  | none => pure ()
  loop h d'

def main (args : List String) : IO UInt32 := do
  let h ← match args with
    | [path] => do
      let hd ← IO.FS.Handle.mk path .read
      pure (IO.FS.Stream.ofHandle hd)
    | _ => IO.getStdin
  let d ← loop h {}
  IO.println s!"SUMMARY cases={d.cases} ops={d.ops} mismatches={d.mism} bad_cases={d.badCases} exempt={d.exempt} lsteps={d.lsteps} spec_evals={d.specs}"
  return (if d.mism == 0 then 0 else 1)
