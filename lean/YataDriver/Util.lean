/-
  Driver utilities: token parsing, exact conversion of IEEE-754 binary64 bit patterns to `Rat`.
  The driver executes model definitions; it proves nothing.
-/
import YataModel.Basic
namespace Yata.Drv

def words (s : String) : List String :=
  (s.splitOn " ").filter (· ≠ "")

/-- split a transcript line at the first " ; " into (op tokens, result tokens) -/
def splitLine (line : String) : List String × List String :=
  match line.splitOn ";" with
  | [] => ([], [])
  | [a] => (words a, [])
  | a :: rest => (words a, words (";".intercalate rest))

def unwords (l : List String) : String := " ".intercalate l

def hexDigit (c : Char) : Option Nat :=
  if '0' ≤ c ∧ c ≤ '9' then some (c.toNat - '0'.toNat)
  else if 'a' ≤ c ∧ c ≤ 'f' then some (c.toNat - 'a'.toNat + 10)
  else if 'A' ≤ c ∧ c ≤ 'F' then some (c.toNat - 'A'.toNat + 10)
  else none

def parseHex (s : String) : Option Nat :=
  s.toList.foldl (fun acc c => match acc, hexDigit c with
    | some a, some d => some (a * 16 + d)
    | _, _ => none) (some 0)

/-- classification of a binary64 bit pattern -/
inductive F64 where
  | nan
  | inf (neg : Bool)
  | fin (neg : Bool) (q : Rat)   -- `neg` keeps the sign of zero
  deriving Repr, Inhabited

def pow2 (e : Int) : Rat :=
  if e ≥ 0 then ((2 ^ e.toNat : Nat) : Rat) else 1 / ((2 ^ (-e).toNat : Nat) : Rat)

def f64OfBits (b : Nat) : F64 :=
  let neg := b / 2 ^ 63 % 2 == 1
  let e : Nat := b / 2 ^ 52 % 2048
  let m : Nat := b % 2 ^ 52
  if e == 2047 then (if m == 0 then .inf neg else .nan)
  else
    let mag : Rat :=
      if e == 0 then (m : Rat) * pow2 (-1074)
      else (((2 ^ 52 + m : Nat) : Nat) : Rat) * pow2 ((e : Int) - 1075)
    .fin neg (if neg then -mag else mag)

def F64.toRat? : F64 → Option Rat
  | .fin _ q => some q
  | _ => none

/-- parse a hex bit pattern token (optionally prefixed by `f`) as an exact rational -/
def parseF (tok : String) : Option F64 :=
  let t := if tok.startsWith "f" then (tok.drop 1).toString else tok
  (parseHex t).map f64OfBits

def parseRat (tok : String) : Option Rat := (parseF tok).bind F64.toRat?

def ratAbs (q : Rat) : Rat := if q < 0 then -q else q
def ratMax (a b : Rat) : Rat := if a < b then b else a
def ratMin (a b : Rat) : Rat := if a < b then a else b

/-- short decimal rendering for messages -/
def ratStr (q : Rat) : String :=
  let neg := q < 0
  let a := ratAbs q
  let scaled : Nat := (a * 1000000000000).floor.toNat
  let ip := scaled / 1000000000000
  let fp := scaled % 1000000000000
  let fs := toString fp
  let fs := String.ofList (List.replicate (12 - fs.length) '0') ++ fs
  (if neg then "-" else "") ++ toString ip ++ "." ++ fs

/-- ⌊log₂ a⌋ of a positive rational -/
def ratLog2 (a : Rat) : Int :=
  let e0 : Int := (Nat.log2 a.num.natAbs : Int) - (Nat.log2 a.den : Int)
  if pow2 e0 ≤ a then (if pow2 (e0 + 1) ≤ a then e0 + 1 else e0) else e0 - 1

/-- round-to-nearest-even of a rational to a binary float with `p` significand bits
    (normal range only: no subnormals, no overflow) -/
def rneP (p : Nat) (q : Rat) : Rat :=
  if q == 0 then 0 else
  let a := ratAbs q
  let e := ratLog2 a
  let scale := pow2 ((p : Int) - 1 - e)
  let m := a * scale
  let f : Int := m.floor
  let r := m - (f : Rat)
  let n : Int := if r < 1 / 2 then f else if 1 / 2 < r then f + 1 else (if f % 2 == 0 then f else f + 1)
  let v := (n : Rat) / scale
  if q < 0 then -v else v

def rne53 : Rat → Rat := rneP 53

end Yata.Drv
