/-
  Incremental evaluation of the from-scratch specs (`YataModel/Spec.lean`) along a stream.
  The specs are functions of the whole history; the driver evaluates them on the suffix they
  actually read (window locality) and carries recursive specs (EMA-type) forward one step at a
  time.  The model's exact output must equal the spec value exactly (both are rationals).
-/
import YataModel
import YataDriver.Util
import YataDriver.Methods
namespace Yata.Drv
open Yata

structure SpecSt where
  v : Rat := 0
  v2 : Rat := 0
  xs : Array Rat := #[]
  ys : Array Rat := #[]
  s1 : Array Rat := #[]
  s2 : Array Rat := #[]
  r : List Rat := []
  deriving Inhabited

def tailOf (a : Array Rat) (k : Nat) : List Rat := (a.extract (a.size - k) a.size).toList

inductive SpecVal where
  | num (q : Rat)
  | int (n : Int)
  | none
  deriving Repr, Inhabited

def emaStep (a e x : Rat) : Rat := (x - e) * a + e

def ratMaxL (l : List Rat) : Rat := l.tail.foldl ratMax (l.headD 0)
def ratMinL (l : List Rat) : Rat := l.tail.foldl ratMin (l.headD 0)

/-- initial spec state -/
def specInit (name : String) (inp : List Rat) : SpecSt :=
  let v := inp.headD 0
  let v2 := (inp.drop 1).headD 0
  let r := match name with
    | "ema" | "rma" | "wsma" => [v]
    | "dma" | "dema" => [v, v]
    | "tma" | "tema" => [v, v, v]
    | "tsi" => [0, 0, 0, 0, v]
    | "vidya" => [v, v]       -- [out, last_input]
    | "integral0" => [0]
    | _ => []
  { v := v, v2 := v2, r := r }

/-- advance the spec by one input and return the spec's value for the new prefix -/
def specStep (name : String) (params : List String) (st : SpecSt) (inp : List Rat) : SpecVal × SpecSt :=
  let x := inp.headD 0
  let n := nat! (params.headD "0")
  let v := st.v
  let st := { st with xs := st.xs.push x }
  let xs := st.xs
  let w := fun (k : Nat) => tailOf xs k
  let two : Rat := 2
  match name with
  | "sma" => (.num (Spec.sma n v (w n)), st)
  | "wma" => (.num (Spec.wma n v (w n)), st)
  | "swma" => (.num (Spec.swma n v (w n)), st)
  | "linreg" => (.num (Spec.linreg n v (w n)), st)
  | "integral" =>
    if n = 0 then
      let acc := (st.r.headD 0) + x
      (.num acc, { st with r := [acc] })
    else (.num (Spec.integral n v (w n)), st)
  | "momentum" => (.num (Spec.momentum n v (w (n + 1))), st)
  | "derivative" => (.num (Spec.derivative n v (w (n + 1))), st)
  | "roc" =>
    let p := Spec.past n v (w (n + 1))
    if p == 0 then (.none, st) else (.num (Spec.roc n v (w (n + 1))), st)
  | "past" => (.num (Spec.past n v (w (n + 1))), st)
  | "stdev" => (.num (Spec.variance n v (w n)), st)
  | "mad" => (.num (Spec.meanAbsDev n v (w n)), st)
  | "medad" => (.num (Spec.medianAbsDev n v (w n)), st)
  | "cci" => (.num (Spec.cci n v (w n)), st)
  | "linvol" =>
    if xs.size > n + 1 then
      let p := xs[xs.size - n - 1]!
      (.num (Spec.linearVolatility n p (w n)), st)
    else (.num (Spec.linearVolatility n v xs.toList), st)
  | "trima" =>
    let inner := Spec.sma n v (w n)
    let st := { st with s1 := st.s1.push inner }
    (.num (Spec.sma n v (tailOf st.s1 n)), st)
  | "hma" =>
    let inner := two * Spec.wma (n / 2) v (w (n / 2)) - Spec.wma n v (w n)
    let st := { st with s1 := st.s1.push inner }
    let m := Nat.sqrt n
    (.num (Spec.wma m v (tailOf st.s1 m)), st)
  | "conv" =>
    let ws := params.filterMap parseRat
    (.num (Spec.conv ws v (w ws.length)), st)
  | "vwma" =>
    let y := (inp.drop 1).headD 0
    let st := { st with ys := st.ys.push y }
    let pairs := (w n).zip (tailOf st.ys n)
    let l := lastN n (history n (v, st.v2) pairs)
    let den := (l.map fun p => p.2).sum
    if den == 0 then (.none, st) else (.num ((l.map fun p => p.1 * p.2).sum / den), st)
  | "highest" => (.num (ratMaxL (Spec.win n v (w n))), st)
  | "lowest" => (.num (ratMinL (Spec.win n v (w n))), st)
  | "hldelta" => let l := Spec.win n v (w n); (.num (ratMaxL l - ratMinL l), st)
  | "hindex" => (.int (Spec.highestIndex n v (w n)), st)
  | "lindex" => (.int (Spec.lowestIndex n v (w n)), st)
  | "smm" => (.num (Spec.smm n v (w n)), st)
  | "ema" | "rma" | "wsma" =>
    let a : Rat := if name == "ema" then two / ((n + 1 : Nat) : Rat) else 1 / (n : Rat)
    let e := emaStep a (st.r.headD v) x
    (.num e, { st with r := [e] })
  | "dma" | "dema" =>
    let a : Rat := two / ((n + 1 : Nat) : Rat)
    let e1 := emaStep a (st.r.headD v) x
    let e2 := emaStep a ((st.r.drop 1).headD v) e1
    (.num (if name == "dma" then e2 else two * e1 - e2), { st with r := [e1, e2] })
  | "tma" | "tema" =>
    let a : Rat := two / ((n + 1 : Nat) : Rat)
    let e1 := emaStep a (st.r.headD v) x
    let e2 := emaStep a ((st.r.drop 1).headD v) e1
    let e3 := emaStep a ((st.r.drop 2).headD v) e2
    (.num (if name == "tma" then e3 else 3 * (e1 - e2) + e3), { st with r := [e1, e2, e3] })
  | "tsi" =>
    let short := n
    let long := nat! ((params.drop 1).headD "0")
    let al : Rat := two / ((long + 1 : Nat) : Rat)
    let as : Rat := two / ((short + 1 : Nat) : Rat)
    match st.r with
    | [e11, e12, e21, e22, last] =>
      let m := x - last
      let e11 := emaStep al e11 m
      let e12 := emaStep as e12 e11
      let e21 := emaStep al e21 (ratAbs m)
      let e22 := emaStep as e22 e21
      (.num (if 0 < e22 then e12 / e22 else 0), { st with r := [e11, e12, e21, e22, x] })
    | _ => (.none, st)
  | "vidya" =>
    match st.r with
    | [out, last] =>
      let ch := x - last
      let st := { st with s1 := st.s1.push ch }
      let win := lastN n (List.replicate n 0 ++ tailOf st.s1 n)
      let up := (win.map (Spec.posPart)).sum
      let dn := (win.map (Spec.negPart)).sum
      let f : Rat := two / ((n + 1 : Nat) : Rat)
      let o := if up + dn == 0 then x
        else
          let cmo := ratAbs ((up - dn) / (up + dn))
          x * (f * cmo) + (1 - f * cmo) * out
      (.num o, { st with r := [o, x] })
    | _ => (.none, st)
  | _ => (.none, st)

/-- the model's exact value of an output slot, for comparison with the spec -/
def outExact : Out → SpecVal
  | .num q _ => .num q
  | .sqr v _ => .num v
  | .quot n _ d _ z => if d == 0 then (if z then .num 0 else .none) else if z ∧ d < 0 then .num 0 else .num (n / d)
  | .int n => .int n
  | _ => .none

def specAgrees (m : SpecVal) (s : SpecVal) : Bool :=
  match m, s with
  | .num a, .num b => a == b
  | .int a, .int b => a == b
  | _, .none => true
  | .none, _ => true
  | _, _ => false

def specValStr : SpecVal → String
  | .num q => ratStr q
  | .int n => toString n
  | .none => "-"

end Yata.Drv
