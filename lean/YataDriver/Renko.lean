/-
  Driver glue for the `renko` component (C17).  Renko compounds its boundaries multiplicatively in
  floating point, so the tie is per step: from the implementation's own serialized pre-state the
  exact model step must reproduce decision, brick count (up to a quotient that is within rounding of
  an integer), base line, new boundaries and volume; the emitted blocks are checked against the
  property itself (contiguous, equal relative size, one direction, total volume).
-/
import YataModel.Methods.Renko
import YataDriver.Util
import YataDriver.Methods
import YataDriver.Candle
namespace Yata.Drv
open Yata

def kv (toks : List String) (key : String) : Option String :=
  (toks.find? (·.startsWith (key ++ "="))).map fun t => (t.drop (key.length + 1)).toString

def relOk (eps : Rat) (y q : Rat) (k : Rat := 16) : Bool := ratAbs (y - q) ≤ k * eps * (ratAbs q + ratAbs y)

def loadRenko (ts : List String) : Option Renko :=
  match ts with
  | [a, b, c, d, e, v, vol] =>
    match parseRat a, parseRat b, parseRat c, parseRat d, parseRat e, parseRat vol with
    | some a, some b, some c, some d, some e, some vol =>
      let src := if v.startsWith "v" then srcOfIdxDecl ((v.drop 1).toString.toNat?.getD 0) else Source.close
      some { last_block_upper := a, last_block_lower := b, next_block_upper := c, next_block_lower := d,
             brick_size := e, src := src, volume := vol }
    | _, _, _, _, _, _ => none
  | _ => none
where
  /-- serde variant index = declaration order of `enum Source` -/
  srcOfIdxDecl (i : Nat) : Source := Source.all.getD i .close

def candleRat (ts : List String) : Option (Candle Rat) := candleOfToks ts

/-- check one `X` line; `none` = agrees -/
def renkoStep (eps : Rat) (pre : Renko) (c : Candle Rat) (value : Rat) (obs agg blocks post : List String) : Option String :=
  let vol := pre.volume + c.volume
  -- prices that have decayed towards the subnormal range (brick sizes close to 1 shrink the base line by orders of
  -- magnitude per brick) or grown towards the overflow threshold: the relative-error model of DESIGN §3 does not apply there
  let tiny : Rat := if eps > 1 / ((2 ^ 30 : Nat) : Rat) then 1 / ((2 ^ 110 : Nat) : Rat) else 1 / ((2 ^ 900 : Nat) : Rat)
  if ratAbs value < tiny || ratAbs pre.last_block_lower < tiny || ratAbs value * tiny > 1 || ratAbs pre.last_block_upper * tiny > 1 then none else
  let lenTok := (kv obs "len").getD "?"
  let L : Nat := ((lenTok.drop 1).toString.toNat?).getD 0
  let up := pre.next_block_upper ≤ value
  let down := !up && value ≤ pre.next_block_lower
  let emits := up || down
  -- (1) emits at least one brick exactly when the price has reached the next boundary
  if emits && L == 0 then some s!"price reached the boundary but no brick was emitted (len=0)"
  else if !emits && L != 0 then some s!"{L} bricks emitted although no boundary was reached"
  else if obs.find? (·.startsWith "hint=") != some s!"hint=i{L}/i{L}" then some "size_hint ≠ len"
  else if kv obs "count" != some s!"i{L}" then some "count ≠ len"
  else if kv agg "empty" != some (if L == 0 then "i1" else "i0") then some "is_empty"
  else
  match loadRenko post with
  | none => some "post-state not finite"
  | some ps =>
  if !emits then
    if relOk eps ps.volume vol ∧ ps.last_block_upper == pre.last_block_upper ∧ ps.next_block_upper == pre.next_block_upper
        ∧ ps.last_block_lower == pre.last_block_lower ∧ ps.next_block_lower == pre.next_block_lower
    then none else some "state changed / volume not accumulated on a step without emission"
  else
    let b := pre.brick_size
    let base := if up then pre.last_block_upper else pre.last_block_lower
    let q := if up then (value - base) / base / b else (base - value) / base / b
    -- (2) brick count = max(trunc q, 1), up to a quotient within rounding of an integer
    let delta := 64 * eps * (ratAbs q + 1)
    let lo := max (Renko.truncNat (q - delta)) 1
    let hi := max (Renko.truncNat (q + delta)) 1
    if L < lo ∨ L > hi then some s!"brick count {L} but the quotient is {ratStr q}"
    else
    let sgn : Rat := if up then 1 else -1
    let Lq : Rat := (L : Rat)
    let lu := if up then base * (1 + b * Lq) else base * (1 - b * (Lq - 1))
    let ll := if up then base * (1 + b * (Lq - 1)) else base * (1 - b * Lq)
    let dir := if up then "i1" else "i-1"
    -- (3) new boundaries, volume reset
    -- `1 ± b·L` is formed with a rounded product: the error is absolute in units of the base line (it is not small
    -- relative to the result when b·L is close to 1)
    let sc := ratAbs base * (1 + b * Lq)
    let absOk (y q : Rat) : Bool := ratAbs (y - q) ≤ 32 * eps * sc
    if !(absOk ps.last_block_upper lu ∧ absOk ps.last_block_lower ll ∧
         absOk ps.next_block_upper (lu * (1 + b)) ∧ absOk ps.next_block_lower (ll * (1 - b))) then
      some "new boundaries differ from the model step"
    else if ps.volume != 0 then some "volume not reset after emission"
    else if kv agg "sign" != some dir then some "direction flag"
    else if kv agg "rising" != some (if up then "i1" else "i0") ∨ kv agg "falling" != some (if up then "i0" else "i1") then some "rising/falling"
    else
    -- (4) blocks: count, direction, contiguity (bit-identical), relative size, equal volume, total volume
    let bl := (unwords blocks).splitOn " | " |>.map words |>.filter (· ≠ [])
    if bl.length != L then some s!"{bl.length} blocks iterated, len = {L}" else
    let bad := (bl.zipIdx).foldl (fun (acc : Option String) (p : List String × Nat) =>
      match acc with
      | some _ => acc
      | none =>
        match p.1 with
        | [o, cl, v, sg] =>
          match parseRat o, parseRat cl, parseRat v with
          | some o, some cl, some v =>
            let j : Rat := (p.2 : Rat)
            if sg != dir then some s!"block {p.2}: direction"
            else if !relOk eps o ((sgn * b * j + 1) * base) then some s!"block {p.2}: open {ratStr o}"
            else if !relOk eps cl ((sgn * b * (j + 1) + 1) * base) then some s!"block {p.2}: close {ratStr cl}"
            else if !relOk eps v (vol / Lq) then some s!"block {p.2}: volume {ratStr v} ≠ {ratStr (vol / Lq)}"
            else none
          | _, _, _ => some s!"block {p.2}: non-finite"
        | _ => some s!"block {p.2}: malformed") none
    match bad with
    | some m => some m
    | none =>
      -- contiguity: close of block j is bit-identical to open of block j+1
      let opens := bl.map (·.headD "")
      let closes := bl.map (fun t => t.getD 1 "")
      if (closes.dropLast != opens.drop 1) then some "blocks are not contiguous (close_j ≠ open_{j+1})"
      else
      -- (5) aggregate view
      match (kv agg "gap").bind parseRat, (kv agg "open").bind parseRat, (kv agg "close").bind parseRat,
            (kv agg "volume").bind parseRat with
      | some g, some ao, some ac, some av =>
        if !relOk eps g (sgn * b * Lq) then some "gap"
        else if ao != base then some "aggregate open ≠ base line"
        -- the aggregate is the candle of the emitted bricks: it closes where the last brick closes
        else if !relOk eps ac ((sgn * b * Lq + 1) * base) then some "aggregate close"
        else if !relOk eps av vol then some s!"total volume {ratStr av} ≠ consumed volume {ratStr vol}"
        else none
      | _, _, _, _ => some "aggregate view not finite"

end Yata.Drv
