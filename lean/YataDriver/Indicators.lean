/-
  YataDriver.Indicators — ties the indicator models (YataModel/Indicators.lean) to the `ind`
  transcripts of the harness:

    C <id> indicator <Name> <flattened config leaves>
    N <candle> ; ok|err:<Kind>|P valid=i<0|1> ; <state leaves (not compared)>
    X <candle> ; v<k> <values…> s<m> <signals…> ;

  Three independent comparisons per step:
    C05  the returned values against the exact model's values under the allowance (`cmpV`);
    C06  the returned signals against the documented rule applied to the values the
         implementation itself returned (exact rationals of those floats; thresholds that the code
         forms arithmetically are rounded the same way with `rne53`), proportional strengths with a
         tolerance on the argument of the 255-step quantiser;
    C12  the strict range / ordering test on the returned values.
-/
import YataModel
import YataDriver.Util
import YataDriver.Methods
import YataDriver.Candle
import YataDriver.Action
namespace Yata.Drv
open Yata Yata.Ind

inductive IState where
  | macd (s : MACD) | bb (s : BB) | aroon (s : Aroon) | rsi (s : RSI) | stoch (s : Stoch)
  | donchian (s : Channel) | pchannel (s : Channel) | keltner (s : Keltner) | env (s : Env)
  | ichi (s : Ichi) | cmf (s : CMF) | mfi (s : MFI) | cmo (s : CMO) | tsi (s : TSIx) | smi (s : TSIx)
  | sar (s : SAR)
  | ao (s : AO) | chaikinOsc (s : ChaikinOsc) | cciInd (s : CCIInd) | woodies (s : Woodies) | coppock (s : Coppock)
  | dpo (s : DPO) | eom (s : EoM) | efi (s : EFI) | hull (s : HullInd) | kaufman (s : Kaufman) | momIdx (s : MomIdx)
  | trix (s : Trix) | klinger (s : Klinger) | kst (s : KST) | rvi (s : RVI) | pivot (s : PivotRS) | cks (s : CKS) | adx (s : ADX)
  | tsind (s : TSInd) | fisher (s : Fisher)

/-- expectation for one signal slot -/
inductive SigExp where
  | exact (a : Action)
  | prop (arg δ : Rat)        -- `Action::from(arg)`, `arg` known up to ±δ
  | exempt
  deriving Repr, Inhabited

/-! ### configuration leaves -/
def takeV : Toks → Option (Nat × Toks)
  | t :: r => if t.startsWith "v" then (t.drop 1).toString.toNat?.map (·, r) else none
  | [] => none

def takeMA (ts : Toks) : Option (MA × Toks) := do
  let (k, r) ← takeV ts
  let (n, r) ← takeI r
  let kind ← MAKind.all[k]?
  pure ({ kind := kind, length := n }, r)

def takeSrc (ts : Toks) : Option (Source × Toks) := do
  let (k, r) ← takeV ts
  let s ← Source.all[k]?
  pure (s, r)

def maKinds (ts : Toks) : List String :=
  let rec go : Toks → List String
    | a :: b :: r =>
      if a.startsWith "v" && b.startsWith "i" then
        match (a.drop 1).toString.toNat?.bind (MAKind.all[·]?) with
        | some k => String.ofList k.name :: go r
        | none => go (b :: r)
      else go (b :: r)
    | _ => []
  go ts

/-- the candle source as the implementation computes it (every operation rounded) -/
def srcF (k : Candle Rat) : Source → Rat
  | .close => k.close | .open_ => k.open_ | .high => k.high | .low => k.low | .volume => k.volume
  | .hl2 => rne53 (rne53 (k.high + k.low) * (1 / 2))
  | .tp => rne53 (rne53 (rne53 (k.high + k.low) + k.close) / 3)
  | .volumedPrice => rne53 (rne53 (rne53 (rne53 (k.high + k.low) + k.close) / 3) * k.volume)

/-- `none`: the indicator has no model (its values are outside C05/C06; C12 finiteness still applies) -/
def iNew (P : Nat) (name : String) (cfg : Toks) (k : Candle Rat) : Option (Res IState) :=
  match name with
  | "MACD" => do
    let (a, r) ← takeMA cfg; let (b, r) ← takeMA r; let (s, r) ← takeMA r; let (src, _) ← takeSrc r
    pure ((MACD.init P { ma1 := a, ma2 := b, signal := s, source := src } k).map .macd)
  | "BollingerBands" => do
    let (n, r) ← takeI cfg; let (sg, r) ← takeF r; let (src, _) ← takeSrc r
    pure ((BB.init P { avg_size := n, sigma := sg, source := src } k).map .bb)
  | "Aroon" => do
    let (n, r) ← takeI cfg; let (z, r) ← takeF r; let (o, _) ← takeI r
    pure ((Aroon.init P { period := n, signal_zone := z, over_zone_period := o } k).map .aroon)
  | "RelativeStrengthIndex" => do
    let (m, r) ← takeMA cfg; let (z, r) ← takeF r; let (src, _) ← takeSrc r
    pure ((RSI.init P { ma := m, zone := z, source := src } k).map .rsi)
  | "StochasticOscillator" => do
    let (n, r) ← takeI cfg; let (m, r) ← takeMA r; let (s, r) ← takeMA r; let (z, _) ← takeF r
    pure ((Stoch.init P { period := n, ma := m, signal := s, zone := z } k).map .stoch)
  | "DonchianChannel" => do
    let (n, _) ← takeI cfg
    pure ((Channel.init P n 1 (n > 1) k).map .donchian)
  | "PriceChannelStrategy" => do
    let (n, r) ← takeI cfg; let (sg, _) ← takeF r
    pure ((Channel.init P n sg (n > 1 && decide (0 < sg) && decide (sg ≤ 1)) k).map .pchannel)
  | "KeltnerChannel" => do
    let (m, r) ← takeMA cfg; let (sg, r) ← takeF r; let (src, _) ← takeSrc r
    pure ((Keltner.init P { ma := m, sigma := sg, source := src } k).map .keltner)
  | "Envelopes" => do
    let (m, r) ← takeMA cfg; let (kk, r) ← takeF r; let (s1, r) ← takeSrc r; let (s2, _) ← takeSrc r
    pure ((Env.init P { ma := m, k := kk, source := s1, source2 := s2 } k).map .env)
  | "IchimokuCloud" => do
    let (a, r) ← takeI cfg; let (b, r) ← takeI r; let (c, r) ← takeI r; let (m, r) ← takeI r; let (src, _) ← takeSrc r
    pure ((Ichi.init P { l1 := a, l2 := b, l3 := c, m := m, source := src } k).map .ichi)
  | "ChaikinMoneyFlow" => do
    let (n, _) ← takeI cfg
    pure ((CMF.init P n k).map .cmf)
  | "MoneyFlowIndex" => do
    let (n, r) ← takeI cfg; let (z, _) ← takeF r
    pure ((MFI.init P n z k).map .mfi)
  | "ChandeMomentumOscillator" => do
    let (n, r) ← takeI cfg; let (z, r) ← takeF r; let (src, _) ← takeSrc r
    pure ((CMO.init P { period := n, zone := z, source := src } k).map .cmo)
  | "TrueStrengthIndex" => do
    let (p1, r) ← takeI cfg; let (p2, r) ← takeI r; let (p3, r) ← takeI r; let (z, r) ← takeF r; let (src, _) ← takeSrc r
    pure ((TSIx.init P { period1 := p1, period2 := p2, zone := z, source := src } { kind := .ema, length := p3 } true k).map .tsi)
  | "SMIErgodicIndicator" => do
    let (p1, r) ← takeI cfg; let (p2, r) ← takeI r; let (m, r) ← takeMA r; let (z, r) ← takeF r; let (src, _) ← takeSrc r
    pure ((TSIx.init P { period1 := p1, period2 := p2, zone := z, source := src } m true k).map .smi)
  | "ParabolicSAR" => do
    let (a, r) ← takeF cfg; let (b, _) ← takeF r
    pure ((SAR.init a b k).map .sar)
  | "AwesomeOscillator" => do
    let (a, r) ← takeMA cfg; let (b, r) ← takeMA r; let (src, r) ← takeSrc r; let (l, r) ← takeI r; let (rt, r) ← takeI r; let (cp, _) ← takeI r
    pure ((AO.init P { ma1 := a, ma2 := b, source := src, left := l, right := rt, conseq_peaks := cp } k).map .ao)
  | "ChaikinOscillator" => do
    let (a, r) ← takeMA cfg; let (b, r) ← takeMA r; let (w, _) ← takeI r
    pure ((ChaikinOsc.init P a b w k).map .chaikinOsc)
  | "CommodityChannelIndex" => do
    let (n, r) ← takeI cfg; let (z, r) ← takeF r; let (src, _) ← takeSrc r
    pure ((CCIInd.init P n z src (rne53 (2 / 3)) k).map .cciInd)
  | "WoodiesCCI" => do
    let (a, r) ← takeI cfg; let (b, r) ← takeI r; let (lag, r) ← takeI r; let (src, _) ← takeSrc r
    pure ((Woodies.init P a b lag src (rne53 (2 / 3)) k).map .woodies)
  | "CoppockCurve" => do
    let (a, r) ← takeMA cfg; let (b, r) ← takeMA r; let (p2, r) ← takeI r; let (p3, r) ← takeI r
    let (l, r) ← takeI r; let (rt, r) ← takeI r; let (src, _) ← takeSrc r
    pure ((Coppock.init P a b p2 p3 l rt src k).map .coppock)
  | "DetrendedPriceOscillator" => do
    let (a, r) ← takeMA cfg; let (src, _) ← takeSrc r
    pure ((DPO.init P a src k).map .dpo)
  | "EaseOfMovement" => do
    let (a, r) ← takeMA cfg; let (p2, _) ← takeI r
    pure ((EoM.init P a p2 k).map .eom)
  | "EldersForceIndex" => do
    let (a, r) ← takeMA cfg; let (p2, r) ← takeI r; let (src, _) ← takeSrc r
    pure ((EFI.init P a p2 src k).map .efi)
  | "HullMovingAverage" => do
    let (n, r) ← takeI cfg; let (l, r) ← takeI r; let (rt, r) ← takeI r; let (src, _) ← takeSrc r
    pure ((HullInd.init P n l rt src k).map .hull)
  | "Kaufman" => do
    let (p1, r) ← takeI cfg; let (p2, r) ← takeI r; let (p3, r) ← takeI r; let (fp, r) ← takeI r
    let (sq, r) ← takeI r; let (kk, r) ← takeF r; let (src, _) ← takeSrc r
    pure ((Kaufman.init P { period1 := p1, period2 := p2, period3 := p3, filter_period := fp, square_smooth := sq != 0,
                            k := kk, source := src } k).map .kaufman)
  | "MomentumIndex" => do
    let (a, r) ← takeI cfg; let (b, r) ← takeI r; let (src, _) ← takeSrc r
    pure ((MomIdx.init P a b src k).map .momIdx)
  | "Trix" => do
    let (n, r) ← takeI cfg; let (sg, r) ← takeMA r; let (src, _) ← takeSrc r
    pure ((Trix.init P n sg src k).map .trix)
  | "KlingerVolumeOscillator" => do
    let (a, r) ← takeMA cfg; let (b, r) ← takeMA r; let (sg, _) ← takeMA r
    pure ((Klinger.init P a b sg (srcF k .tp)).map .klinger)
  | "KnowSureThing" => do
    let (p1, r) ← takeI cfg; let (p2, r) ← takeI r; let (p3, r) ← takeI r; let (p4, r) ← takeI r
    let (m1, r) ← takeMA r; let (m2, r) ← takeMA r; let (m3, r) ← takeMA r; let (m4, r) ← takeMA r; let (sg, _) ← takeMA r
    pure ((KST.init P [p1, p2, p3, p4] [m1, m2, m3, m4] sg k).map .kst)
  | "RelativeVigorIndex" => do
    let (p1, r) ← takeI cfg; let (p2, r) ← takeI r; let (sg, r) ← takeMA r; let (z, _) ← takeF r
    pure ((RVI.init P p1 p2 sg z k).map .rvi)
  | "PivotReversalStrategy" => do
    let (l, r) ← takeI cfg; let (rt, _) ← takeI r
    pure ((PivotRS.init P l rt k).map .pivot)
  | "ChandeKrollStop" => do
    let (a, r) ← takeMA cfg; let (x, r) ← takeF r; let (q, r) ← takeI r; let (src, _) ← takeSrc r
    pure ((CKS.init P a x q src k).map .cks)
  | "AverageDirectionalIndex" => do
    let (a, r) ← takeMA cfg; let (b, r) ← takeMA r; let (p1, r) ← takeI r; let (z, _) ← takeF r
    pure ((ADX.init P a b p1 z k).map .adx)
  | "TrendStrengthIndex" => do
    let (n, r) ← takeI cfg; let (z, r) ← takeF r; let (ro, r) ← takeI r; let (src, _) ← takeSrc r
    pure ((TSInd.init P n z ro src (srcF k src)).map .tsind)
  | "FisherTransform" => do
    let (n, r) ← takeI cfg; let (z, r) ← takeF r; let (m, r) ← takeMA r; let (src, _) ← takeSrc r
    pure ((Fisher.init P n z m src (rne53 (999 / 1000)) (srcF k src)).map .fisher)
  | _ => none

def IState.winLen : IState → Nat
  | .macd s => s.ma1.winLen + s.ma2.winLen + s.ma3.winLen
  | .bb s => 2 * s.cfg.avg_size
  | .aroon s => 2 * s.cfg.period
  | .rsi s => s.posma.winLen + s.negma.winLen
  | .stoch s => 2 * s.cfg.period + s.ma1.winLen + s.ma2.winLen
  | .donchian s | .pchannel s => 2 * s.period
  | .keltner s => s.ma.winLen + s.cfg.ma.length
  | .env s => s.ma.winLen
  | .ichi s => 2 * (s.cfg.l1 + s.cfg.l2 + s.cfg.l3 + s.cfg.m)
  | .cmf s => 2 * s.size
  | .mfi s => s.period
  | .cmo s => s.cfg.period + 1
  | .tsi s | .smi s => s.smooth.winLen
  | .sar _ => 0
  | .ao s => s.ma1.winLen + s.ma2.winLen
  | .chaikinOsc s => s.ma1.winLen + s.ma2.winLen + s.adi.window.size
  | .cciInd s => 2 * s.cci.mad.sma.window.size
  | .woodies s => 2 * (s.turbo.mad.sma.window.size + s.trend.mad.sma.window.size)
  | .coppock s => s.ma1.winLen + s.ma2.winLen + s.roc1.window.size + s.roc2.window.size
  | .dpo s => s.sma.winLen + s.window.size
  | .eom s => s.m1.winLen + s.w.size
  | .efi s => s.ma.winLen + s.window.size
  | .hull s => s.hma.wma1.window.size + s.hma.wma2.window.size + s.hma.wma3.window.size
  | .kaufman s => s.volatility.window.size + s.change.window.size
  | .momIdx s => s.m1.window.size + s.m2.window.size
  | .trix s => s.sig.winLen + 1
  | .klinger s => s.ma1.winLen + s.ma2.winLen + s.ma3.winLen
  | .kst s => (s.mas.map (·.winLen)).sum + s.ma5.winLen + (s.roc.map (·.window.size)).sum
  | .rvi s => s.swma1.left_window.size + s.swma1.right_window.size + s.sma1.window.size + s.sma2.window.size + s.ma.winLen
  | .pivot _ => 0
  | .cks s => s.ma.winLen + s.highest1.window.size + s.highest2.window.size
  | .adx s => s.tr_ma.winLen + s.plus_di.winLen + s.ma2.winLen + s.window.size
  | .tsind s => 2 * s.period
  | .fisher s => s.period1 + s.ma1.winLen

structure StepOut where
  vals : List VExp
  sigs : List SigExp
  st : IState
  /-- a model decision (flip, guard) was within rounding of its threshold: the rest of the case is not comparable -/
  borderline : Bool := false

def exacts (l : List Action) : List SigExp := l.map .exact

/-- one step: the model's values (later stages fed with the implementation's earlier values `rv`), and the
    signals the documented rule yields from `rv` -/
def iStep (P : Nat) (ctx : Ctx) (st : IState) (k : Candle Rat) (rv : List Rat) (rsig : List String := []) (flat : Bool := false) : Except Panic StepOut :=
  let eps := ctx.eps
  match st with
  | .macd s => do
    let (v, s1) ← s.vals k (some rv)
    let (sg, s2) := s1.sigs k rv
    pure { vals := v, sigs := exacts sg, st := .macd s2 }
  | .bb s => do
    let (v, s1) ← s.vals k
    let src := srcF k s.cfg.source
    let range := rv.getD 0 0 - rv.getD 2 0
    let rel := if range == 0 then (1 / 2 : Rat) else (src - rv.getD 2 0) / range
    let arg := rel * 2 - 1
    let δ := if range == 0 then 0 else 8 * eps * (2 * ratAbs rel + 1)
    pure { vals := v, sigs := [.prop arg δ], st := .bb s1 }
  | .aroon s => do
    let (v, idx, s1) ← Aroon.vals P s k
    -- the rule needs the two ages; they are recovered from the returned values when those are exact
    let ((tr, edge, tv), s2) := s1.sigs rv idx rne53
    pure { vals := v, sigs := [.exact tr, .exact edge, .prop tv (4 * eps * ratAbs tv)], st := .aroon s2 }
  | .rsi s => do
    let (v, s1) ← s.vals k
    let (sg, s2) := s1.sigs rv rne53
    pure { vals := v, sigs := exacts sg, st := .rsi s2 }
  | .stoch s => do
    let (v, s1) ← s.vals k (some rv)
    let s1 := { s1 with upper_zone := rne53 (1 - s.cfg.zone) }
    let (sg, s2) := s1.sigs rv
    pure { vals := v, sigs := exacts sg, st := .stoch s2 }
  | .donchian s => do
    let (v, s1) ← s.donchianVals k
    pure { vals := v, sigs := exacts [Channel.donchianSig k rv], st := .donchian s1 }
  | .pchannel s => do
    let (v, s1) ← s.priceChannelVals k
    pure { vals := v, sigs := exacts [Channel.priceChannelSig k rv], st := .pchannel s1 }
  | .keltner s => do
    let (v, s1) ← s.vals k
    let (sg, s2) := s1.sigs rv
    pure { vals := v, sigs := exacts sg, st := .keltner s2 }
  | .env s => do
    let (v, s1) ← s.vals k
    pure { vals := v, sigs := exacts [Env.sig rv], st := .env s1 }
  | .ichi s => do
    let (v, s1) ← s.vals k
    -- the rule compares the source as the code computes it with the returned spans
    let (sg, s2) := s1.sigs (srcF k s.cfg.source) rv
    pure { vals := v, sigs := exacts sg, st := .ichi s2 }
  | .cmf s => do
    let (v, s1) ← s.vals k
    let (sg, s2) := s1.sigs rv
    pure { vals := v, sigs := exacts sg, st := .cmf s2 }
  | .mfi s => do
    let (v, s1) ← MFI.valsF (fun c => srcF c .tp) s k
    let (sg, s2) := s1.sigs rv rne53
    pure { vals := v, sigs := exacts sg, st := .mfi s2 }
  | .cmo s => do
    let (v, s1) ← s.vals k
    let (sg, s2) := s1.sigs rv
    pure { vals := v, sigs := exacts sg, st := .cmo s2 }
  | .tsi s => do
    let (v, s1) ← s.vals k (some rv) false
    let (sg, s2) := s1.sigsTSI rv
    pure { vals := v, sigs := exacts sg, st := .tsi s2 }
  | .smi s => do
    let (v, s1) ← s.vals k (some rv) true
    let (sg, s2) := s1.sigsSMI rv
    pure { vals := v, sigs := exacts sg, st := .smi s2 }
  | .ao s => do
    let (v, s1) ← s.vals k
    let (sg, s2) ← s1.sigs rv
    pure { vals := v, sigs := exacts sg, st := .ao s2 }
  | .chaikinOsc s => do
    let (v, s1) ← s.vals k
    let (sg, s2) := s1.sigs rv
    pure { vals := v, sigs := exacts sg, st := .chaikinOsc s2 }
  | .cciInd s => do
    let (v, s1) ← s.vals k
    let (sg, s2) := s1.sigs rv
    pure { vals := v, sigs := exacts sg, st := .cciInd s2 }
  | .woodies s => do
    let (v, s1) ← s.vals k
    let (sg, s2) := s1.sigs rv
    pure { vals := v, sigs := exacts sg, st := .woodies s2 }
  | .coppock s => do
    let undef := s.undefinedNext
    let (v, s1) ← s.vals k (some rv)
    let (sg, s2) ← s1.sigs rv
    pure { vals := v, sigs := exacts sg, st := .coppock s2, borderline := undef }
  | .dpo s => do
    let (v, s1) ← s.vals k
    pure { vals := v, sigs := [], st := .dpo s1 }
  | .eom s => do
    let (v, s1) ← s.vals k
    let (sg, s2) := s1.sigs rv
    pure { vals := v, sigs := exacts sg, st := .eom s2 }
  | .efi s => do
    let (v, s1) ← s.vals k
    let (sg, s2) := s1.sigs rv
    pure { vals := v, sigs := exacts sg, st := .efi s2 }
  | .hull s => do
    let (v, s1) ← s.vals k
    let (sg, s2) ← s1.sigs rv
    pure { vals := v, sigs := exacts sg, st := .hull s2 }
  | .kaufman s => do
    let (v, s1) ← s.vals k (some rv)
    let (sg, s2, cmp) ← s1.sigs (srcF k s.cfg.source) rv
    -- the filter compares with a square root of a running variance: exempt within the allowance of that variance
    let near : Bool := match cmp with
      | some (lhs, rhs) => decide (ratAbs (lhs - rhs) ≤ s.cfg.k * s.cfg.k * ctx.allow (ctx.M * ctx.M) + (lhs + rhs) / 1000000000)
      | none => false
    -- an exempt decision leaves the latch in the state the implementation chose: fired (latch cleared) or not (latch kept)
    let fired := rsig.headD "aN" != "aN"
    let s3 := if near then { s2 with last_signal := if fired then Action.none else s1.last_signal } else s2
    pure { vals := v, sigs := if near then sg.map (fun _ => SigExp.exempt) else exacts sg, st := .kaufman s3 }
  | .momIdx s => do
    let (v, s1) ← s.vals k
    pure { vals := v, sigs := exacts [MomIdx.sig rv], st := .momIdx s1 }
  | .trix s => do
    let (v, s1) ← s.vals k (some rv)
    let (sg, s2) ← s1.sigs rv
    pure { vals := v, sigs := exacts sg, st := .trix s2 }
  | .klinger s => do
    let (v, s1) ← s.vals k (srcF k .tp) (some rv)
    let (sg, s2) := s1.sigs rv
    pure { vals := v, sigs := exacts sg, st := .klinger s2 }
  | .kst s => do
    let undef := s.undefinedNext
    let (v, s1) ← s.vals k (some rv)
    let (sg, s2) := s1.sigs rv
    pure { vals := v, sigs := exacts sg, st := .kst s2, borderline := undef }
  | .rvi s => do
    let (v, s1) ← s.vals k (some rv)
    let (sg, s2) := s1.sigs rv
    pure { vals := v, sigs := exacts sg, st := .rvi s2 }
  | .pivot s => do
    let (sg, s1) ← s.next k
    pure { vals := [], sigs := exacts sg, st := .pivot s1 }
  | .cks s => do
    let (v, s1) ← s.vals k
    let ((value, a2), s2) := s1.sigs rv rne53
    -- `(src − mid)/size` is formed from rounded operands: the cancellation error is relative to their magnitudes
    let mid := rne53 (rv.getD 2 0 + rv.getD 0 0) * (1 / 2)
    let size := rne53 (mid - rv.getD 0 0)
    let δ := if size == 0 then 0 else 16 * eps * ((ratAbs (rv.getD 1 0) + ratAbs mid) / ratAbs size + ratAbs value + 1)
    pure { vals := v, sigs := [.prop value δ, .exact a2], st := .cks s2 }
  | .adx s => do
    let (v, s1, trZero) ← s.vals k (some rv)
    let (a1, arg) := s1.sigs rv
    pure { vals := v, sigs := [.exact a1, .prop arg (8 * eps * (ratAbs arg + 1))], st := .adx s1, borderline := trZero && !flat }
  | .tsind s => do
    let (v, s1) ← s.vals (srcF k s.source)
    let (sg, s2) ← s1.sigs P rv
    pure { vals := v, sigs := exacts sg, st := .tsind s2 }
  | .fisher s => do
    let prev := s.prev_value
    let (v, s1) ← s.vals (srcF k s.source) (some rv)
    let (sg, s2) := s1.sigs prev rv
    -- `x / zone * flag`: a silent slot is ±0.0, i.e. Buy(0) / Sell(0) by the sign of x
    -- the quotient overflows for denormal zones: ±inf·0 is NaN (no signal), ±inf·1 saturates
    let huge : Rat := ((2 ^ 1023 : Nat) : Rat)
    let slot (p : Bool × Rat) : SigExp :=
      if ratAbs p.2 ≥ huge then (if p.1 then .prop p.2 (8 * eps * ratAbs p.2) else if ratAbs p.2 ≥ 2 * huge then .exact .none else .exempt)
      else if p.1 then .prop p.2 (8 * eps * ratAbs p.2)
      else if 0 < p.2 then .exact (.buy 0) else if p.2 < 0 then .exact (.sell 0) else .prop 0 0
    pure { vals := v, sigs := sg.map slot, st := .fisher s2 }
  | .sar s =>
    let tol := 64 * eps * (ratAbs s.sar + ratAbs k.low + ratAbs k.high)
    -- a flip decision within rounding of the (computed) SAR; exact equality happens when the SAR is a copied candle
    -- extreme (construction, flips, clamping) and is decided identically by the implementation
    let dl := ratAbs (k.low - s.sar)
    let dh := ratAbs (k.high - s.sar)
    let near := (decide (0 < dl) && decide (dl ≤ tol)) || (decide (0 < dh) && decide (dh ≤ tol))
    let ((v, a), s1) := s.next k
    .ok { vals := v, sigs := [.exact a], st := .sar s1, borderline := near }

/-! ### documented rules the implementation contradicts (known findings of C05/C06; DESIGN §7)
    The models follow the code; where the documentation of an indicator states the opposite sign or another order, the
    step that exhibits the contradiction is reported under its own class so that it can be listed once and every other
    deviation is still caught by the ordinary comparison. -/
def docCheck (name : String) (so : StepOut) (rv : List Rat) (rsig : List String) : Option (String × String × String) :=
  let signSlots : List Nat := match name with
    | "KeltnerChannel" => [0]
    | "RelativeVigorIndex" => [1]
    | "TrendStrengthIndex" => [0, 1]
    | _ => []
  let s := signSlots.findSome? fun j =>
    match so.sigs[j]?, rsig[j]? with
    | some (SigExp.exact a), some tok =>
      if a != Action.none && tok == actStr a then
        some ("ind-docsig", s!"{name}:s{j}:sign",
              s!"s{j}: the documented rule gives {actStr (Action.neg a)} here, the implementation returns {tok}")
      else none
    | _, _ => none
  let v : Option (String × String × String) := match name with
    | "KeltnerChannel" =>
      -- documented order: upper bound, source, lower bound; returned: source, upper bound, lower bound
      match so.vals[0]?, rv[0]?, rv[1]? with
      | some (VExp.exact src), some r0, some r1 =>
        if r0 == src && r1 != src then
          some ("ind-docval", s!"{name}:v1:order", s!"v1: documented as the source value {ratStr src}, the implementation returns the upper bound {ratStr r1} there (and the source in slot 0)")
        else none
      | _, _, _ => none
    | _ => none
  s <|> v

/-- sources named in the configuration leaves (`v<k>` not followed by a length) -/
def cfgSources (ts : Toks) : List Source :=
  let rec go : Toks → List Source
    | a :: b :: r =>
      if a.startsWith "v" && !(b.startsWith "i") then
        match (a.drop 1).toString.toNat?.bind (Source.all[·]?) with
        | some s => s :: go (b :: r)
        | none => go (b :: r)
      else if a.startsWith "v" then go r else go (b :: r)
    | [a] => if a.startsWith "v" then ((a.drop 1).toString.toNat?.bind (Source.all[·]?)).toList else []
    | [] => []
  go ts

/-- history magnitudes after one more candle -/
def bumpCandle (c : Ctx) (srcs : List Source) (k : Candle Rat) : Ctx :=
  let p := ratMax (ratMax (ratAbs k.open_) (ratAbs k.high)) (ratMax (ratAbs k.low) (ratAbs k.close))
  let extra := srcs.foldl (fun m s => match s with
    | .volume => ratMax m (ratAbs k.volume)
    | .volumedPrice => ratMax m (ratAbs (k.tp * k.volume))
    | _ => m) 0
  { c with M := ratMax c.M (ratMax p extra), Mv := ratMax c.Mv (ratAbs k.volume) }

/-! ### C05: values -/
def scaleOf (c : Ctx) : Scale → Rat
  | .price => c.M | .vol => c.Mv | .unit => 1 | .abs m => m

/-- `flat`: every candle so far equals the first one (then exact `== 0` guards are decided exactly) -/
def cmpV (c : Ctx) (flat : Bool) (e : VExp) (tok : String) (rv : List Rat) : Verdict :=
  match e with
  | .exact q => cmpOut c (.num q (8 * c.eps * ratAbs q)) tok
  | .approx q κ sc => cmpOut c (.num q (c.allow (κ * scaleOf c sc) + 8 * c.eps * ratAbs q)) tok
  | .quot num den κn κd sc guards alt =>
    let aN := c.allow (κn * scaleOf c sc)
    let aD := c.allow (κd * scaleOf c sc)
    let zeroGuard := den == 0 || guards.any (· == 0)
    if flat && zeroGuard then
      match alt with
      | some a => cmpOut c (.num a 0) tok
      | none => .exempt
    else if guards.any (fun g => ratAbs g ≤ aD) then .exempt
    else cmpOut c (.quot num aN den aD false) tok
  | .cquot num den κn κd sc guards alt clo chi =>
    let aN := c.allow (κn * scaleOf c sc)
    let aD := c.allow (κd * scaleOf c sc)
    let zeroGuard := den == 0 || guards.any (· == 0)
    match parseRat tok with
    | none => .bad s!"non-finite value {tok} of a quotient the code clamps to [{ratStr clo}, {ratStr chi}]"
    | some y =>
      -- the clamp holds whatever the operands are (rounding residue included)
      if y < clo || chi < y then .bad s!"value {ratStr y} outside the clamp [{ratStr clo}, {ratStr chi}]"
      else if flat && zeroGuard then
        match alt with
        | some a => if y == a then .ok else .bad s!"guard: expected {ratStr a} got {ratStr y}"
        | none => .exempt
      else if guards.any (fun g => ratAbs g ≤ aD) then .exempt
      else
        let nl := num - aN; let nh := num + aN
        let dl := den - aD; let dh := den + aD
        -- denominator zero up to the allowance: a quotient of rounding residue, anything inside the clamp
        if dl ≤ 0 ∧ 0 ≤ dh then .exempt
        else
          let c1 := nl / dl; let c2 := nl / dh; let c3 := nh / dl; let c4 := nh / dh
          let lo := Yata.Ind.qclamp (ratMin (ratMin c1 c2) (ratMin c3 c4)) clo chi
          let hi := Yata.Ind.qclamp (ratMax (ratMax c1 c2) (ratMax c3 c4)) clo chi
          let w := 16 * c.eps * ratMax (ratAbs lo) (ratAbs hi)
          if lo - w ≤ y ∧ y ≤ hi + w then .ok
          else .bad s!"value {ratStr y} outside [{ratStr (lo - w)}, {ratStr (hi + w)}] = clamped enclosure of {ratStr num}/{ratStr den}"
  | .sqrtQuot num den κn κd =>
    match parseRat tok with
    | none => .bad s!"non-finite value {tok} (radicand {ratStr den})"
    | some y =>
      let aN := c.allow (κn * c.M)
      let aD := c.allow (κd * c.M * c.M)
      -- radicand zero up to the allowance ((almost) constant window): the code's `q > 0` guard sees rounding residue
      -- (even on a constant stream, where `sy2` and `sma·sy` are rounded differently); nothing to compare
      if den ≤ 2 * aD then .exempt
      else
        let nl := ratMax (ratAbs num - aN) 0
        let nh := ratAbs num + aN
        let signOk := ratAbs num ≤ aN || (decide (0 < num) == decide (0 < y) && y != 0)
        -- |y|·sqrt(den) = |num| up to the allowances: compared on the squares
        let y2 := y * y
        if !signOk then .bad s!"sign of {ratStr y} differs from the numerator {ratStr num}"
        else if nl * nl ≤ y2 * (den + aD) * (1 + 64 * c.eps) && y2 * (den - aD) * (1 - 64 * c.eps) ≤ nh * nh then .ok
        else .bad s!"value² · q = {ratStr (y2 * den)} differs from p² = {ratStr (num * num)}"
  | .band mid κm sign k var =>
    match parseRat tok with
    | none => .bad s!"non-finite band {tok}"
    | some y =>
      let am := c.allow (κm * c.M) + 8 * c.eps * ratAbs mid
      let av := c.allow (c.M * c.M)
      -- the band is formed from the implementation's own centre (slot 1)
      let m := rv.getD 1 mid
      let d := (if sign < 0 then m - y else y - m)
      let w := 16 * c.eps * (ratAbs y + ratAbs m)
      if ratAbs (m - mid) > am then .bad s!"band centre {ratStr m} differs from model {ratStr mid}"
      else if d < -w then .bad s!"band on the wrong side of its centre ({ratStr y} vs {ratStr m})"
      else
        let dl := ratMax (d - w) 0
        let dh := d + w
        let vl := k * k * ratMax (var - av) 0
        let vh := k * k * (var + av)
        if dl * dl ≤ vh * (1 + 64 * c.eps) && vl * (1 - 64 * c.eps) ≤ dh * dh then .ok
        else .bad s!"(band−centre)² = {ratStr (d * d)} outside sigma²·variance [{ratStr vl}, {ratStr vh}]"

/-! ### C06: signals -/
def analogOf : Action → Int
  | .buy v => v | .sell v => -(v : Int) | .none => 0

def quantise (q : Rat) : Int :=
  let a := Action.ofRatWith id (decide (q < 0)) q
  analogOf a

def cmpS (e : SigExp) (tok : String) : Verdict :=
  match e with
  | .exempt => .exempt
  | .exact a => if tok == actStr a then .ok else .bad s!"expected {actStr a} got {tok}"
  | .prop arg δ =>
    match parseAct tok with
    | none => .bad s!"unparsable action {tok}"
    | some .none => .bad s!"proportional signal is None (argument {ratStr arg})"
    | some a =>
      let lo := quantise (arg - δ) - 1
      let hi := quantise (arg + δ) + 1
      let x := analogOf a
      let signOk := match a with
        | .buy _ => arg + δ ≥ 0
        | .sell _ => arg - δ ≤ 0
        | .none => false
      -- ±1 on the level: `|x|·255` is rounded once more before `round()`
      if quantise (arg - δ) == quantise (arg + δ) && signOk && (x == quantise arg) then .ok
      else if lo ≤ x && x ≤ hi && signOk then .exempt
      else .bad s!"expected Action::from({ratStr arg}) = level {quantise arg}, got {tok}"

/-! ### C12: ranges and orderings on the implementation's own values -/
def nonOvershoot (kinds : List String) : Bool :=
  kinds.all fun k => !(k == "hma" || k == "dema" || k == "tema" || k == "linreg")

/-- `(slot, lo, hi)` interval constraints, and `(i, j)` pairs meaning `v[i] ≥ v[j]` -/
structure RangeSpec where
  intervals : List (Nat × Rat × Rat) := []
  /-- intervals stated in the indicator's documentation that its formula does not imply (reported as `doc-range`) -/
  docIntervals : List (Nat × Rat × Rat) := []
  orders : List (Nat × Nat) := []

def rangeSpec (name : String) (kinds : List String) : RangeSpec :=
  let smooth := nonOvershoot kinds
  match name with
  | "Aroon" => { intervals := [(0, 0, 1), (1, 0, 1)] }
  | "RelativeStrengthIndex" => { intervals := [(0, 0, 1)] }  -- every kind: the code clamps the quotient (C12_rsi_run_every_kind)
  | "MoneyFlowIndex" => { intervals := [(0, 0, 1), (1, 0, 1), (2, 0, 1)], orders := [(0, 2)] }
  | "StochasticOscillator" => if smooth then { intervals := [(0, 0, 1), (1, 0, 1)] } else {}
  | "ChandeMomentumOscillator" => { intervals := [(0, -1, 1)] }
  | "ChaikinMoneyFlow" => { intervals := [(0, -1, 1)] }
  | "TrueStrengthIndex" => { intervals := [(0, -1, 1), (1, -1, 1)] }
  | "SMIErgodicIndicator" => if smooth then { intervals := [(0, -1, 1), (1, -1, 1)] } else { intervals := [(0, -1, 1)] }
  | "TrendStrengthIndex" => { intervals := [(0, -1, 1)] }
  | "ChaikinOscillator" => { docIntervals := [(0, -1, 1)] }
  -- ADX itself: an average (non-overshooting kind) of |+DI − −DI|/(+DI + −DI) with non-negative DI, hence in [0, 1]
  | "AverageDirectionalIndex" => if smooth then { intervals := [(0, 0, 1)], docIntervals := [(1, 0, 1), (2, 0, 1)] } else {}
  | "RelativeVigorIndex" => { docIntervals := if smooth then [(0, -1 / 2, 1 / 2), (1, -1 / 2, 1 / 2)] else [(0, -1 / 2, 1 / 2)] }
  | "BollingerBands" => { orders := [(0, 1), (1, 2)] }
  | "KeltnerChannel" => { orders := [(1, 2)] }
  | "DonchianChannel" => { orders := [(2, 1), (1, 0)] }
  | "PriceChannelStrategy" => { orders := [(0, 1)] }
  | "Envelopes" => if smooth then { orders := [(0, 1)] } else {}
  | _ => {}

/-- first violated constraint; `a` is the absolute slack `C·ε·k·(hi−lo)` (orders: relative to the magnitudes) -/
def rangeCheck (c : Ctx) (name : String) (kinds : List String) (k : Candle Rat) (rv : List Rat) (srcs : List Source := []) : Option String :=
  let rs := rangeSpec name kinds
  -- the scale of what the bounds are built from: prices, or volumes / price·volume when the configured source is one
  let srcScale : Rat := srcs.foldl (fun m s => match s with
    | .volume => ratMax m c.Mv
    | .volumedPrice => ratMax m (c.M * c.Mv)
    | _ => m) c.M
  let bad1 := rs.intervals.findSome? fun (i, lo, hi) =>
    match rv[i]? with
    | none => none
    | some y =>
      let a := c.allow (hi - lo)
      if y < lo - a || hi + a < y then some s!"v{i}:range value {ratStr y} outside [{ratStr lo}, {ratStr hi}]" else none
  let bad2 := rs.orders.findSome? fun (i, j) =>
    match rv[i]?, rv[j]? with
    | some x, some y =>
      -- slack on the scale of the inputs, not of the two values: an average of non-negative data that has gone to zero holds
      -- rounding residue of either sign, and `ma·(1+k)` / `ma·(1−k)` swap when it is negative
      let a := c.allow (ratMax (ratMax (ratAbs x) (ratAbs y)) srcScale)
      if x < y - a then some s!"v{i}:order v{i} = {ratStr x} < v{j} = {ratStr y}" else none
    | _, _ => none
  let bad3 : Option String := match name with
    | "DonchianChannel" =>
      if rv.getD 0 0 > k.low then some s!"v0:contain lower bound {ratStr (rv.getD 0 0)} above the low {ratStr k.low}"
      else if rv.getD 2 0 < k.high then some s!"v2:contain upper bound {ratStr (rv.getD 2 0)} below the high {ratStr k.high}"
      else none
    | "ParabolicSAR" =>
      let sar := rv.getD 0 0
      let tr := rv.getD 1 0
      if tr > 0 && sar > k.low then some s!"v0:side uptrend SAR {ratStr sar} above the low {ratStr k.low}"
      else if tr < 0 && sar < k.high then some s!"v0:side downtrend SAR {ratStr sar} below the high {ratStr k.high}"
      else none
    | _ => none
  let bad4 := rs.docIntervals.findSome? fun (i, lo, hi) =>
    match rv[i]? with
    | none => none
    | some y =>
      let a := c.allow (hi - lo)
      if y < lo - a || hi + a < y then some s!"v{i}:doc-range value {ratStr y} outside the documented [{ratStr lo}, {ratStr hi}]" else none
  bad1 <|> bad2 <|> bad3 <|> bad4

end Yata.Drv
