/-
  Driver glue for the `method` component: constructs the model instance named in the case
  header, replays `new`/`next` in exact rational arithmetic and compares with what the Rust
  implementation returned:
    * discrete observables (indices, actions, error kinds, window contents) exactly,
    * arithmetic outputs and accumulators within the rounding allowance of DESIGN §3.2
      `a = C·ε·(t+n)·scale`, quotients through an interval enclosure.
  It also evaluates the from-scratch *spec* of each method on the recorded history
  (`YataModel/Spec.lean`) so that model = spec is exercised on every step as well.
-/
import YataModel
import YataDriver.Util
namespace Yata.Drv
open Yata

/-- comparison context of the current case -/
structure Ctx where
  P : Nat := 255
  eps : Rat := pow2 (-52)
  C : Rat := 1024
  t : Nat := 0          -- number of `next` calls so far (including the current one)
  n : Nat := 0          -- total window length of the instance
  M : Rat := 0          -- magnitude of the history, channel 1 (prices)
  Mv : Rat := 0         -- channel 2 (volumes / second series)
  deriving Inhabited

/-- `a = C·ε·k·scale`, `k = max t 1 + n` (the construction counts as one step) -/
def Ctx.allow (c : Ctx) (scale : Rat) : Rat := c.C * c.eps * ((max c.t 1 + c.n : Nat) : Rat) * scale

/-- what the model expects of one output slot -/
inductive Out where
  | num (q tol : Rat)                     -- |rust − q| ≤ tol
  | sqr (var tol : Rat)                   -- rust ≥ 0 ∧ |rust² − var| ≤ tol   (StDev)
  | quot (num aN den aD : Rat) (zeroAlt : Bool)
      -- rust ∈ [num±aN]/[den±aD] (rigorous hull, widened by a relative 16ε); exempt if 0 ∈ den±aD.
      -- zeroAlt: the code returns 0 when its guard `den > 0` fails, so 0 is also accepted when the
      -- guard is undecidable within the allowance
  | int (n : Int)
  | act (a : Action)
  | opt (present : Bool)
  | exempt
  deriving Repr, Inhabited

inductive Leaf where
  | int (n : Int)
  | exact (q : Rat)        -- copied input: bit-exact value expected
  | approx (q : Rat)       -- accumulator: within the state allowance of the method
  | const (q : Rat)        -- constructor constant: relative 8ε
  | len (n : Nat)          -- `L<n>` sequence header
  | numeq (q : Rat)        -- numerically equal (sign of zero free)
  | opt (present : Bool)
  | any                    -- not compared
  deriving Repr, Inhabited

def winLeaves (f : Rat → Leaf) (w : Window Rat) : List Leaf :=
  [.len w.buf.length] ++ w.buf.map f ++ [.int w.index]

def winLeavesFZ (w : Window FZ) : List Leaf :=
  [.len w.buf.length] ++ w.buf.map (fun x => Leaf.numeq x.q) ++ [.int w.index]

/-! ### all method states in one sum -/
inductive MState where
  | sma (s : SMA Rat) | wma (s : WMA Rat) | ema (s : EMA Rat) | dma (s : DMA Rat) | tma (s : TMA Rat)
  | dema (s : DEMA Rat) | tema (s : TEMA Rat) | rma (s : RMA Rat) | wsma (s : WSMA Rat)
  | swma (s : SWMA Rat) | trima (s : TRIMA Rat) | hma (s : HMA Rat) | linreg (s : LinReg Rat)
  | conv (s : Conv Rat) | vwma (s : VWMA Rat) | vidya (s : Vidya Rat)
  | integral (s : Integral Rat) | derivative (s : Derivative Rat) | momentum (s : Momentum Rat)
  | roc (s : RateOfChange Rat) | past (s : Past Rat) | stdev (s : StDev Rat)
  | mad (s : MeanAbsDev Rat) | medad (s : MedianAbsDev Rat) | cci (s : CCI Rat)
  | linvol (s : LinearVolatility Rat) | tsi (s : TSI Rat)
  | highest (s : Highest FZ) | lowest (s : Lowest FZ) | hldelta (s : HighestLowestDelta FZ)
  | hindex (s : HighestIndex FZ) | lindex (s : LowestIndex FZ) | smm (s : SMM FZ)
  | crossAbove (s : CrossAbove Rat) | crossUnder (s : CrossUnder Rat) | cross (s : Cross Rat)
  | upperRev (s : UpperReversalSignal Rat) | lowerRev (s : LowerReversalSignal Rat)
  | reversal (s : ReversalSignal Rat)
  | adi (s : ADI Rat) | tr (s : TR Rat) | heikin (s : HeikinAshi Rat)
  | collapse (s : CollapseTimeframe Rat)

def candleOf (l : List Rat) : Candle Rat :=
  match l with
  | [o, h, lo, c, v] => { open_ := o, high := h, low := lo, close := c, volume := v }
  | _ => { open_ := 0, high := 0, low := 0, close := 0, volume := 0 }

def nat! (s : String) : Nat := s.toNat?.getD 0

/-- total window length, for the allowance -/
def MState.winLen : MState → Nat
  | .sma s => s.window.size | .wma s => s.window.size | .swma s => s.left_window.size + s.right_window.size
  | .trima s => s.sma1.window.size + s.sma2.window.size
  | .hma s => s.wma1.window.size + s.wma2.window.size + s.wma3.window.size
  | .linreg s => s.window.size | .conv s => s.window.size | .vwma s => s.window.size
  | .vidya s => s.window.size | .integral s => s.window.size | .derivative s => s.window.size
  | .momentum s => s.window.size | .roc s => s.window.size | .past s => s.window.size
  | .stdev s => s.window.size | .mad s => s.sma.window.size | .medad s => s.smm.window.size
  | .cci s => s.mad.sma.window.size | .linvol s => s.window.size
  | .highest s => s.window.size | .lowest s => s.window.size | .hldelta s => s.window.size
  | .hindex s => s.window.size | .lindex s => s.window.size | .smm s => s.window.size
  | .upperRev s => s.window.size | .lowerRev s => s.window.size | .reversal s => s.high.window.size
  | .adi s => s.window.size
  | _ => 0

/-- constructor dispatch: `name params…` and the initial input -/
def mNew (P : Nat) (name : String) (params : List String) (inp : List FZ) : Res MState :=
  let x : Rat := (inp.headD default).q
  let xz : FZ := inp.headD default
  let p0 := nat! (params.headD "0")
  let p1 := nat! ((params.drop 1).headD "0")
  let xs := inp.map (·.q)
  match name with
  | "sma" => (SMA.new P p0 x).map .sma
  | "wma" => (WMA.new P p0 x).map .wma
  | "ema" => (EMA.new P p0 x).map .ema
  | "dma" => (DMA.new P p0 x).map .dma
  | "tma" => (TMA.new P p0 x).map .tma
  | "dema" => (DEMA.new P p0 x).map .dema
  | "tema" => (TEMA.new P p0 x).map .tema
  | "rma" => (RMA.new P p0 x).map .rma
  | "wsma" => (WSMA.new P p0 x).map .wsma
  | "swma" => (SWMA.new P p0 x).map .swma
  | "trima" => (TRIMA.new P p0 x).map .trima
  | "hma" => (HMA.new P p0 x).map .hma
  | "linreg" => (LinReg.new P p0 x).map .linreg
  | "conv" => (Conv.new P (params.filterMap parseRat) x).map .conv
  | "vwma" => (VWMA.new P p0 (xs.headD 0, (xs.drop 1).headD 0)).map .vwma
  | "vidya" => (Vidya.new P p0 x).map .vidya
  | "integral" => (Integral.new P p0 x).map .integral
  | "derivative" => (Derivative.new P p0 x).map .derivative
  | "momentum" => (Momentum.new P p0 x).map .momentum
  | "roc" => (RateOfChange.new P p0 x).map .roc
  | "past" => (Past.new P p0 x).map .past
  | "stdev" => (StDev.new P p0 x).map .stdev
  | "mad" => (MeanAbsDev.new P p0 x).map .mad
  | "medad" => (MedianAbsDev.new P p0 x).map .medad
  | "cci" => (CCI.new P p0 x).map .cci
  | "linvol" => (LinearVolatility.new P p0 x).map .linvol
  | "tsi" => (TSI.new P p0 p1 x).map .tsi
  | "highest" => (Highest.new P p0 xz).map .highest
  | "lowest" => (Lowest.new P p0 xz).map .lowest
  | "hldelta" => (HighestLowestDelta.new P p0 xz).map .hldelta
  | "hindex" => (HighestIndex.new P p0 xz).map .hindex
  | "lindex" => (LowestIndex.new P p0 xz).map .lindex
  | "smm" => (SMM.new P p0 xz).map .smm
  | "cross_above" => .ok (.crossAbove (CrossAbove.new (xs.headD 0, (xs.drop 1).headD 0)))
  | "cross_under" => .ok (.crossUnder (CrossUnder.new (xs.headD 0, (xs.drop 1).headD 0)))
  | "cross" => .ok (.cross (Cross.new (xs.headD 0, (xs.drop 1).headD 0)))
  | "upper_rev" => (UpperReversalSignal.new P p0 p1 x).map .upperRev
  | "lower_rev" => (LowerReversalSignal.new P p0 p1 x).map .lowerRev
  | "reversal" => (ReversalSignal.new P p0 p1 x).map .reversal
  | "adi" => (ADI.new P p0 (candleOf xs)).map .adi
  | "tr" => .ok (.tr (TR.new (candleOf xs)))
  | "heikin" => .ok (.heikin (HeikinAshi.new (candleOf xs)))
  | "collapse" => (CollapseTimeframe.new p0 (candleOf xs)).map .collapse
  | _ => .err .other

def half : Rat := 1 / 2

def sumAbs (l : List Rat) : Rat := l.foldl (fun a x => a + ratAbs x) 0

/-- one step of the model; `c` already counts this step -/
def mNext (c : Ctx) (st : MState) (inp : List FZ) : Except Panic (List Out × MState) :=
  let x : Rat := (inp.headD default).q
  let xz : FZ := inp.headD default
  let xs := inp.map (·.q)
  let a := c.allow
  let M := c.M
  let lift {σ : Type} (k : σ → MState) (tol : Rat) (r : Except Panic (Rat × σ)) :
      Except Panic (List Out × MState) :=
    match r with
    | .error e => .error e
    | .ok (v, s) => .ok ([.num v tol], k s)
  match st with
  | .sma s => lift .sma (a M) (s.next x)
  | .wma s => lift .wma (a M) (s.next x)
  | .ema s => let (v, s') := s.next x; .ok ([.num v (a M)], .ema s')
  | .dma s => let (v, s') := s.next x; .ok ([.num v (a M)], .dma s')
  | .tma s => let (v, s') := s.next x; .ok ([.num v (a M)], .tma s')
  | .dema s => let (v, s') := s.next x; .ok ([.num v (a (3 * M))], .dema s')
  | .tema s => let (v, s') := s.next x; .ok ([.num v (a (7 * M))], .tema s')
  | .rma s => let (v, s') := s.next x; .ok ([.num v (a M)], .rma s')
  | .wsma s => let (v, s') := s.next x; .ok ([.num v (a M)], .wsma s')
  | .swma s => lift .swma (a M) (s.next x)
  | .trima s => lift .trima (a M) (s.next x)
  | .hma s => lift .hma (a (3 * M)) (s.next x)
  | .linreg s => lift .linreg (a (4 * M)) (s.next x)
  | .conv s =>
    let ws := s.weights
    let sw := ws.foldl (· + ·) 0
    let κ := if sw == 0 then 1 else sumAbs ws / ratAbs sw
    lift .conv (a (κ * M)) (s.next x)
  | .vwma s =>
    match s.next (xs.headD 0, (xs.drop 1).headD 0) with
    | .error e => .error e
    | .ok (_, s') =>
      let n : Rat := (s.window.size : Rat)
      .ok ([.quot s'.sum (a (n * c.M * c.Mv)) s'.vol_sum (a (n * c.Mv)) false], .vwma s')
  | .vidya s => lift .vidya (a M) (s.next x)
  | .integral s =>
    let scale : Rat := if s.window.size = 0 then ((c.t + 1 : Nat) : Rat) * M else (s.window.size : Rat) * M
    lift .integral (a scale) (s.next x)
  | .derivative s => lift .derivative (a (2 * M)) (s.next x)
  | .momentum s => lift .momentum (a (2 * M)) (s.next x)
  | .roc s =>
    match s.window.push x with
    | .error e => .error e
    | .ok (prev, w) =>
      .ok ([.quot (x - prev) (4 * c.eps * (ratAbs x + ratAbs prev)) prev 0 false], .roc { window := w })
  | .past s => lift .past 0 (s.next x)
  | .stdev s =>
    match s.next x with
    | .error e => .error e
    | .ok (v, s') => .ok ([.sqr v (a (4 * M * M))], .stdev s')
  | .mad s => lift .mad (a (2 * M)) (s.next x)
  | .medad s => lift .medad (a (2 * M)) (s.next x)
  | .cci s =>
    match s.mad.next x with
    | .error e => .error e
    | .ok (mean, mad) =>
      let ma := mad.sma.peek
      .ok ([.quot (x - ma) (a (2 * M)) mean (a (2 * M)) true], .cci { mad := mad })
  | .linvol s => lift .linvol (a (2 * (s.window.size : Rat) * M)) (s.next x)
  | .tsi s =>
    let (_, s') := s.next x
    .ok ([.quot s'.ema12.peek (a (2 * M)) s'.ema22.peek (a (2 * M)) true], .tsi s')
  | .highest s =>
    match s.next xz with
    | .error e => .error e
    | .ok (v, s') => .ok ([.num v.q 0], .highest s')
  | .lowest s =>
    match s.next xz with
    | .error e => .error e
    | .ok (v, s') => .ok ([.num v.q 0], .lowest s')
  | .hldelta s =>
    match s.step xz with
    | .error e => .error e
    | .ok s' =>
      .ok ([.num (s'.highest.q - s'.lowest.q) (2 * c.eps * (ratAbs s'.highest.q + ratAbs s'.lowest.q))],
        .hldelta s')
  | .hindex s =>
    match s.next c.P xz with
    | .error e => .error e
    | .ok (i, s') => .ok ([.int i], .hindex s')
  | .lindex s =>
    match s.next c.P xz with
    | .error e => .error e
    | .ok (i, s') => .ok ([.int i], .lindex s')
  | .smm s =>
    match s.step xz with
    | .error e => .error e
    | .ok s' =>
      match s'.mid with
      | .error e => .error e
      | .ok (p, q) =>
        let m := (p.q + q.q) * half
        .ok ([.num m (2 * c.eps * (ratAbs p.q + ratAbs q.q))], .smm s')
  | .crossAbove s =>
    let (r, s') := s.next (xs.headD 0, (xs.drop 1).headD 0); .ok ([.act r], .crossAbove s')
  | .crossUnder s =>
    let (r, s') := s.next (xs.headD 0, (xs.drop 1).headD 0); .ok ([.act r], .crossUnder s')
  | .cross s =>
    let (r, s') := s.next (xs.headD 0, (xs.drop 1).headD 0); .ok ([.act r], .cross s')
  | .upperRev s =>
    match s.next x with
    | .error e => .error e
    | .ok (r, s') => .ok ([.act r], .upperRev s')
  | .lowerRev s =>
    match s.next x with
    | .error e => .error e
    | .ok (r, s') => .ok ([.act r], .lowerRev s')
  | .reversal s =>
    match s.next x with
    | .error e => .error e
    | .ok (r, s') => .ok ([.act r], .reversal s')
  | .adi s =>
    let scale : Rat := if s.window.size = 0 then ((c.t + 1 : Nat) : Rat) * c.Mv else (s.window.size : Rat) * c.Mv
    lift .adi (a scale) (s.next (candleOf xs))
  | .tr s =>
    let (v, s') := s.next (candleOf xs)
    .ok ([.num v (4 * c.eps * (ratAbs v + M))], .tr s')
  | .heikin s =>
    let (k, s') := s.next (candleOf xs)
    -- open carries the rounding of the (open+close)/2 recursion: allowance on the price scale
    .ok ([.num k.open_ (a M), .num k.high (a M), .num k.low (a M), .num k.close (4 * c.eps * M),
          .num k.volume 0], .heikin s')
  | .collapse s =>
    let (r, s') := s.next (candleOf xs)
    match r with
    | none => .ok ([.opt false], .collapse s')
    | some k =>
      .ok ([.opt true, .num k.open_ 0, .num k.high 0, .num k.low 0, .num k.close 0,
            .num k.volume (a c.Mv * ((s.period : Nat) : Rat))], .collapse s')

/-- state leaves in Rust declaration order -/
def emaLeaves (e : EMA Rat) : List Leaf := [.const e.alpha, .approx e.value]
def smaLeaves (f : Rat → Leaf) (s : SMA Rat) : List Leaf := [.const s.divider, .approx s.value] ++ winLeaves f s.window
def wmaLeaves (f : Rat → Leaf) (s : WMA Rat) : List Leaf :=
  [.const s.invert_sum, .const s.float_length, .approx s.total, .approx s.numerator] ++ winLeaves f s.window

def mLeaves : MState → List Leaf
  | .sma s => smaLeaves .exact s
  | .wma s => wmaLeaves .exact s
  | .ema s => emaLeaves s
  | .dma s => emaLeaves s.ema ++ emaLeaves s.dma
  | .tma s => emaLeaves s.dma.ema ++ emaLeaves s.dma.dma ++ emaLeaves s.tma
  | .dema s => emaLeaves s.ema ++ emaLeaves s.dma
  | .tema s => emaLeaves s.ema ++ emaLeaves s.dma ++ emaLeaves s.tma
  | .rma s => [.const s.alpha, .const s.alpha_rev, .approx s.prev_value]
  | .wsma s => emaLeaves s.ema
  | .swma s => [.approx s.right_total, .const s.right_float_length] ++ winLeaves .exact s.right_window ++
      [.approx s.left_total, .const s.left_float_length] ++ winLeaves .exact s.left_window ++
      [.const s.invert_sum, .approx s.numerator]
  | .trima s => smaLeaves .exact s.sma1 ++ smaLeaves .approx s.sma2
  | .hma s => wmaLeaves .exact s.wma1 ++ wmaLeaves .exact s.wma2 ++ wmaLeaves .approx s.wma3
  | .linreg s => [.approx s.s_xy, .approx s.s_y, .const s.s_x, .const s.float_length,
      .const s.length_invert, .const s.divider] ++ winLeaves .exact s.window
  | .conv s => [.len s.weights.length] ++ s.weights.map .exact ++ winLeaves .exact s.window ++ [.const s.wsum_invert]
  | .vwma s => [.approx s.sum, .approx s.vol_sum, .len s.window.buf.length] ++
      (s.window.buf.map fun p => [Leaf.exact p.1, Leaf.exact p.2]).flatten ++ [.int s.window.index]
  | .vidya s => [.const s.f, .approx s.up_sum, .approx s.dn_sum, .exact s.last_input, .approx s.last_output] ++
      winLeaves .approx s.window
  | .integral s => [.approx s.value] ++ winLeaves .exact s.window
  | .derivative s => [.const s.divider] ++ winLeaves .exact s.window
  | .momentum s => winLeaves .exact s.window
  | .roc s => winLeaves .exact s.window
  | .past s => winLeaves .exact s.window
  | .stdev s => [.approx s.mean, .approx s.val_sum, .approx s.sq_val_sum, .const s.divider, .const s.k] ++
      winLeaves .exact s.window
  | .mad s => smaLeaves .exact s.sma
  | .medad s => [.len s.smm.window.buf.length] ++ s.smm.window.buf.map .exact ++ [.int s.smm.window.index, .const s.divider]
  | .cci s => smaLeaves .exact s.mad.sma
  | .linvol s => winLeaves .approx s.window ++ [.exact s.prev_value, .approx s.volatility]
  | .tsi s => [.exact s.last_value] ++ emaLeaves s.ema11 ++ emaLeaves s.ema12 ++ emaLeaves s.ema21 ++ emaLeaves s.ema22
  | .highest s => [.numeq s.value.q] ++ winLeavesFZ s.window
  | .lowest s => [.numeq s.value.q] ++ winLeavesFZ s.window
  | .hldelta s => [.numeq s.highest.q, .numeq s.lowest.q] ++ winLeavesFZ s.window
  | .hindex s => [.int s.index, .numeq s.value.q] ++ winLeavesFZ s.window
  | .lindex s => [.int s.index, .numeq s.value.q] ++ winLeavesFZ s.window
  | .smm s => winLeavesFZ s.window       -- hand-written Serialize: the window only
  | .crossAbove s => [.approx s.last_delta]
  | .crossUnder s => [.approx s.last_delta]
  | .cross s => [.approx s.up.last_delta, .approx s.down.last_delta]
  | .upperRev s => [.int s.left, .int s.right, .exact s.max_value, .int s.max_index, .int s.index] ++ winLeaves .exact s.window
  | .lowerRev s => [.int s.left, .int s.right, .exact s.min_value, .int s.min_index, .int s.index] ++ winLeaves .exact s.window
  | .reversal s =>
      [.int s.high.left, .int s.high.right, .exact s.high.max_value, .int s.high.max_index, .int s.high.index] ++
        winLeaves .exact s.high.window ++
      [.int s.low.left, .int s.low.right, .exact s.low.min_value, .int s.low.min_index, .int s.low.index] ++
        winLeaves .exact s.low.window
  | .adi s => [.approx s.cmf_sum] ++ winLeaves .approx s.window
  | .tr s => [.exact s.prev_close]
  | .heikin s => [.approx s.next_open]
  | .collapse s =>
      (match s.current with
        | none => [Leaf.opt false]
        | some k => [Leaf.opt true, .exact k.open_, .exact k.high, .exact k.low, .exact k.close, .approx k.volume]) ++
      [.int s.index, .int s.period]

/-- the same leaves with the fields that merely store the (recursive) output masked out:
    used to decide whether the *sums* are still as accurate as the allowance permits -/
def mLeavesAcc : MState → List Leaf
  | .vidya s => [.const s.f, .approx s.up_sum, .approx s.dn_sum, .exact s.last_input, .any] ++
      winLeaves .approx s.window
  | st => mLeaves st

/-- scale of the state allowance: the largest accumulator magnitude of the method -/
def stateScale (c : Ctx) (st : MState) : Rat :=
  let n : Rat := ((max st.winLen 1 : Nat) : Rat)
  let M := c.M
  match st with
  | .wma _ | .swma _ | .hma _ => 3 * n * n * M
  | .linreg _ => n * n * M
  | .stdev _ => n * (M * M + M)
  | .vwma _ => n * (c.M * c.Mv + c.Mv)
  | .integral s => if s.window.size = 0 then ((c.t + 1 : Nat) : Rat) * M else n * M
  | .adi s => if s.window.size = 0 then ((c.t + 1 : Nat) : Rat) * c.Mv else n * c.Mv
  | .collapse _ => n * c.Mv + M
  | .tema _ => 7 * M
  | .dema _ => 3 * M
  | _ => 2 * n * M

/-! ### L-step: load the *Rust* state into the model structure (same field order), so that one
    model step can be run from the implementation's own pre-state (DESIGN §2.3). -/

abbrev Toks := List String

def takeF : Toks → Option (Rat × Toks)
  | t :: rest => (parseRat t).map (·, rest)
  | [] => none

def takeI : Toks → Option (Nat × Toks)
  | t :: rest => if t.startsWith "i" then ((t.drop 1).toString.toNat?).map (·, rest) else none
  | [] => none

def takeFs : Nat → Toks → Option (List Rat × Toks)
  | 0, ts => some ([], ts)
  | n + 1, ts => match takeF ts with
    | none => none
    | some (x, r) => (takeFs n r).map fun (xs, r') => (x :: xs, r')

def takeWin (ts : Toks) : Option (Window Rat × Toks) :=
  match ts with
  | t :: rest =>
    if t.startsWith "L" then
      match (t.drop 1).toString.toNat? with
      | none => none
      | some n => match takeFs n rest with
        | none => none
        | some (buf, r) => match takeI r with
          | none => none
          | some (idx, r') => some ({ buf := buf, index := idx, size := n, s_1 := n - 1 }, r')
    else none
  | [] => none

def takeEma (ts : Toks) : Option (EMA Rat × Toks) :=
  match takeF ts with
  | none => none
  | some (a, r) => (takeF r).map fun (v, r') => ({ alpha := a, value := v }, r')

/-- rebuild a model state from Rust's serialized leaves (only for the methods listed) -/
def mLoad (st : MState) (ts : Toks) : Option MState :=
  match st with
  | .ema _ => (takeEma ts).map fun (e, _) => .ema e
  | .wsma _ => (takeEma ts).map fun (e, _) => .wsma { ema := e }
  | .dma _ => do let (a, r) ← takeEma ts; let (b, _) ← takeEma r; pure (.dma { ema := a, dma := b })
  | .dema _ => do let (a, r) ← takeEma ts; let (b, _) ← takeEma r; pure (.dema { ema := a, dma := b })
  | .tma _ => do
      let (a, r) ← takeEma ts; let (b, r) ← takeEma r; let (c, _) ← takeEma r
      pure (.tma { dma := { ema := a, dma := b }, tma := c })
  | .tema _ => do
      let (a, r) ← takeEma ts; let (b, r) ← takeEma r; let (c, _) ← takeEma r
      pure (.tema { ema := a, dma := b, tma := c })
  | .rma _ => do
      let (a, r) ← takeF ts; let (b, r) ← takeF r; let (c, _) ← takeF r
      pure (.rma { alpha := a, alpha_rev := b, prev_value := c })
  | .tsi _ => do
      let (lv, r) ← takeF ts
      let (a, r) ← takeEma r; let (b, r) ← takeEma r; let (c, r) ← takeEma r; let (d, _) ← takeEma r
      pure (.tsi { last_value := lv, ema11 := a, ema12 := b, ema21 := c, ema22 := d })
  | .vidya _ => do
      let (f, r) ← takeF ts; let (up, r) ← takeF r; let (dn, r) ← takeF r
      let (li, r) ← takeF r; let (lo, r) ← takeF r; let (w, _) ← takeWin r
      pure (.vidya { f := f, up_sum := up, dn_sum := dn, last_input := li, last_output := lo, window := w })
  | .sma _ => do
      let (d, r) ← takeF ts; let (v, r) ← takeF r; let (w, _) ← takeWin r
      pure (.sma { divider := d, value := v, window := w })
  | .wma _ => do
      let (a, r) ← takeF ts; let (b, r) ← takeF r; let (c, r) ← takeF r; let (d, r) ← takeF r
      let (w, _) ← takeWin r
      pure (.wma { invert_sum := a, float_length := b, total := c, numerator := d, window := w })
  | .linvol _ => do
      let (w, r) ← takeWin ts; let (p, r) ← takeF r; let (v, _) ← takeF r
      pure (.linvol { window := w, prev_value := p, volatility := v })
  | .stdev _ => do
      let (a, r) ← takeF ts; let (b, r) ← takeF r; let (c, r) ← takeF r; let (d, r) ← takeF r
      let (k, r) ← takeF r; let (w, _) ← takeWin r
      pure (.stdev { mean := a, val_sum := b, sq_val_sum := c, divider := d, k := k, window := w })
  | .linreg _ => do
      let (a, r) ← takeF ts; let (b, r) ← takeF r; let (c, r) ← takeF r; let (d, r) ← takeF r
      let (e, r) ← takeF r; let (f, r) ← takeF r; let (w, _) ← takeWin r
      pure (.linreg { s_xy := a, s_y := b, s_x := c, float_length := d, length_invert := e, divider := f, window := w })
  | .integral _ => do
      let (v, r) ← takeF ts; let (w, _) ← takeWin r
      pure (.integral { value := v, window := w })
  | _ => none

/-! ### comparison of one Rust token with the model's expectation -/

inductive Verdict where
  | ok
  | exempt
  | bad (msg : String)
  deriving Repr

def actStr : Action → String
  | .buy v => s!"aB{v}"
  | .sell v => s!"aS{v}"
  | .none => "aN"

def cmpOut (c : Ctx) (o : Out) (tok : String) : Verdict :=
  match o with
  | .exempt => .exempt
  | .int n => if tok == s!"i{n}" then .ok else .bad s!"expected i{n} got {tok}"
  | .act a => if tok == actStr a then .ok else .bad s!"expected {actStr a} got {tok}"
  | .opt b => if tok == (if b then "o1" else "o0") then .ok else .bad s!"expected option {b} got {tok}"
  | .num q tol =>
    match parseRat tok with
    | none => .bad s!"non-finite or unparsable output {tok}, model {ratStr q}"
    | some y => if ratAbs (y - q) ≤ tol then .ok
                else .bad s!"output {ratStr y} differs from model {ratStr q} by more than {ratStr tol}"
  | .sqr v tol =>
    match parseRat tok with
    | none => .bad s!"non-finite output {tok}"
    | some y => if y < 0 then .bad s!"negative deviation {ratStr y}"
                else if ratAbs (y * y - v) ≤ tol then .ok
                else .bad s!"output² {ratStr (y*y)} differs from model variance {ratStr v} by more than {ratStr tol}"
  | .quot num aN den aD zeroAlt =>
    let nl := num - aN; let nh := num + aN
    let dl := den - aD; let dh := den + aD
    if dl ≤ 0 ∧ 0 ≤ dh then .exempt
    else if zeroAlt ∧ dh < 0 then
      (match parseRat tok with
       | some y => if y == 0 then .ok else .bad s!"guard false: expected 0 got {ratStr y}"
       | none => .bad s!"non-finite output {tok}")
    else
      match parseRat tok with
      | none => .bad s!"non-finite output {tok} where the quotient is defined ({ratStr num}/{ratStr den})"
      | some y =>
        let c1 := nl / dl; let c2 := nl / dh; let c3 := nh / dl; let c4 := nh / dh
        let lo := ratMin (ratMin c1 c2) (ratMin c3 c4)
        let hi := ratMax (ratMax c1 c2) (ratMax c3 c4)
        let w := 16 * c.eps * ratMax (ratAbs lo) (ratAbs hi)
        if lo - w ≤ y ∧ y ≤ hi + w then .ok
        else .bad s!"output {ratStr y} outside [{ratStr (lo - w)}, {ratStr (hi + w)}] = enclosure of {ratStr num}/{ratStr den}"

def cmpLeaf (c : Ctx) (stTol : Rat) (l : Leaf) (tok : String) : Verdict :=
  match l with
  | .int n => if tok == s!"i{n}" then .ok else .bad s!"state int: expected i{n} got {tok}"
  | .len n => if tok == s!"L{n}" then .ok else .bad s!"state seq: expected L{n} got {tok}"
  | .opt b => if tok == (if b then "o1" else "o0") then .ok else .bad s!"state option: expected {b} got {tok}"
  | .any => .ok
  | .exact q | .numeq q =>
    match parseRat tok with
    | some y => if y == q then .ok else .bad s!"state value {ratStr y} ≠ {ratStr q} (exact)"
    | none => .bad s!"state value {tok} not finite"
  | .approx q =>
    match parseRat tok with
    | some y =>
      -- the allowance on the scale of the inputs, plus one rounding of the accumulator itself (a cumulative sum outgrows
      -- its inputs: Integral / ADI without a window)
      let tol := stTol + 4 * c.eps * ratAbs q
      if ratAbs (y - q) ≤ tol then .ok
      else .bad s!"state accumulator {ratStr y} differs from model {ratStr q} by more than {ratStr tol}"
    | none => .bad s!"state value {tok} not finite"
  | .const q =>
    match parseRat tok with
    | some y => if ratAbs (y - q) ≤ 8 * c.eps * ratAbs q then .ok
                else .bad s!"constructor constant {ratStr y} differs from model {ratStr q}"
    | none => .bad s!"state constant {tok} not finite (model {ratStr q})"

/-- first failing position of a list comparison -/
def cmpAll {β : Type} (f : β → String → Verdict) (exp : List β) (toks : List String) (what : String) :
    Option String × Nat :=
  if exp.length ≠ toks.length then
    (some s!"{what}: model has {exp.length} items, rust has {toks.length}", 0)
  else
    (exp.zip toks).foldl (fun (acc : Option String × Nat) (p : β × String) =>
      match acc.1 with
      | some _ => acc
      | none => match f p.1 p.2 with
        | .ok => acc
        | .exempt => (none, acc.2 + 1)
        | .bad m => (some s!"{what}: {m}", acc.2)) (none, 0)

end Yata.Drv
