/-
  Driver glue for the `candle` component (C18): candle helper identities, validate at the
  bit level (NaN / infinities), `Candle + Candle`, textual forms.
-/
import YataModel.Candle
import YataModel.Text
import YataDriver.Util
import YataDriver.Methods
namespace Yata.Drv
open Yata

def hexByte (a b : Char) : Option UInt8 :=
  match hexDigit a, hexDigit b with
  | some x, some y => some (UInt8.ofNat (x * 16 + y))
  | _, _ => none

def unhexBytes : List Char → Option (List UInt8)
  | [] => some []
  | a :: b :: rest => match hexByte a b, unhexBytes rest with
    | some x, some l => some (x :: l)
    | _, _ => none
  | _ => none

def unhexText (tok : String) : Option (List Char) :=
  if tok == "-" then some []
  else match unhexBytes tok.toList with
    | none => none
    | some bs => (String.fromUTF8? (ByteArray.mk bs.toArray)).map String.toList

/-- `OHLCV::validate` on classified floats: comparisons with NaN are false, infinities ordered -/
def f64Lt (a b : F64) : Bool :=
  match a, b with
  | .nan, _ => false | _, .nan => false
  | .inf true, .inf true => false | .inf true, _ => true
  | _, .inf true => false
  | .inf false, _ => false
  | _, .inf false => true
  | .fin _ x, .fin _ y => x < y

def f64IsFinite : F64 → Bool
  | .fin _ _ => true
  | _ => false

def zeroF : F64 := .fin false 0

def validateBits (o h l c v : F64) : Bool :=
  !(f64Lt h c || f64Lt c l || f64Lt h l || f64Lt h o || f64Lt o l)
    && f64Lt zeroF c && f64Lt zeroF o && f64Lt zeroF h && f64Lt zeroF l
    && f64IsFinite c && f64IsFinite o && f64IsFinite h && f64IsFinite l
    && (match v with | .nan => true | v => !(f64Lt v zeroF))

def srcIdx : Source → Nat
  | .close => 0 | .open_ => 1 | .high => 2 | .low => 3 | .hl2 => 4 | .tp => 5 | .volume => 6 | .volumedPrice => 7

def srcOfIdx (i : Nat) : Source := Source.all.getD i .close

def kindIdx (k : MAKind) : Nat :=
  -- `ma_type()` numbering (note: TMA = 6, DEMA = 7)
  match k with
  | .sma => 0 | .wma => 1 | .hma => 2 | .rma => 3 | .ema => 4 | .dma => 5 | .tma => 6 | .dema => 7
  | .tema => 8 | .wsma => 9 | .smm => 10 | .swma => 11 | .trima => 12 | .linreg => 13 | .vidya => 14

def boolTok (b : Bool) : String := if b then "i1" else "i0"

/-- compare one numeric token against an exact value with an absolute tolerance -/
def numOk (c : Ctx) (tok : String) (q tol : Rat) : Option String :=
  match cmpOut c (.num q tol) tok with
  | .bad m => some m
  | _ => none

def firstSome (l : List (Option String)) : Option String := l.foldl (fun a b => match a with | some _ => a | none => b) none

/-- the `ohlcv` line: returns `none` when everything agrees -/
def candleOhlcv (inToks res extra : List String) : Option String :=
  let c : Ctx := {}
  match inToks.mapM parseF with
  | some [o, h, l, cl, v, p] =>
    let valid := validateBits o h l cl v
    let vtok := res.getD 6 ""
    if vtok != boolTok valid then some s!"validate: rust {vtok} model {boolTok valid}"
    else if extra.getD 0 "" != "same=i1" then some s!"Candle, tuple and array disagree: {extra.getD 0 ""}"
    else if extra.getD 2 "" != "conv=i1" then some s!"Candle conversions: {extra.getD 2 ""}"
    else
      match o.toRat?, h.toRat?, l.toRat?, cl.toRat?, v.toRat?, p.toRat? with
      | some o, some h, some l, some cl, some v, some p =>
        -- magnitudes at which products/quotients leave the range of binary64 are outside the exact model
        let extreme := [o, h, l, cl, v, p].any fun x => ratAbs x > pow2 400 || (x != 0 && ratAbs x < pow2 (-400))
        if extreme then none else
        let k : Candle Rat := { open_ := o, high := h, low := l, close := cl, volume := v }
        let e := c.eps
        let s3 := ratAbs h + ratAbs l + ratAbs cl
        let tpTol := 8 * e * s3
        let clvOut : Out :=
          if h == l then .num 0 0
          else .quot (2 * cl - l - h) (8 * e * (2 * ratAbs cl + ratAbs l + ratAbs h)) (h - l) 0 false
        -- C12: on a valid candle CLV lies in [-1,1] and the true range is not negative, strictly
        let rng : Option String :=
          if !valid then none else
          match parseRat (res.getD 3 ""), parseRat (res.getD 5 "") with
          | some y, some tr =>
            -- slack of DESIGN §3.2: C·ε·k·(hi−lo) with k = 1
            let a := c.C * c.eps * 2
            if y < -1 - a || 1 + a < y then some s!"range: clv {ratStr y} outside [-1,1] on a valid candle"
            else if tr < 0 then some s!"range: tr {ratStr tr} negative" else none
          | none, _ => some s!"range: clv non-finite on a valid candle"
          | _, none => some s!"range: tr non-finite on a valid candle"
        firstSome [
          rng,
          numOk c (res.getD 0 "") k.tp tpTol,
          numOk c (res.getD 1 "") k.hl2 (8 * e * (ratAbs h + ratAbs l)),
          numOk c (res.getD 2 "") k.ohlc4 (8 * e * (s3 + ratAbs o)),
          (match cmpOut c clvOut (res.getD 3 "") with | .bad m => some ("clv: " ++ m) | _ => none),
          numOk c (res.getD 4 "") k.volumedPrice (16 * e * s3 * ratAbs v),
          numOk c (res.getD 5 "") (k.trClose p) (4 * e * (ratAbs h + ratAbs l + ratAbs p)),
          numOk c ((extra.getD 1 "").drop 4 |>.toString) (k.trClose p) (4 * e * (ratAbs h + ratAbs l + ratAbs p)),
          (if res.getD 7 "" != boolTok k.isRising then some "is_rising" else none),
          (if res.getD 8 "" != boolTok k.isFalling then some "is_falling" else none),
          firstSome ((List.range 8).map fun i =>
            let s := srcOfIdx i
            let tol := match s with
              | .tp => tpTol | .hl2 => 8 * e * (ratAbs h + ratAbs l) | .volumedPrice => 16 * e * s3 * ratAbs v | _ => 0
            (numOk c (res.getD (9 + i) "") (k.source s) tol).map (s!"source {i}: " ++ ·))]
      | _, _, _, _, _, _ => none   -- non-finite field: only validate / equality of the three carriers are compared
  | _ => some "unparsable ohlcv line"

def candleOfToks (ts : List String) : Option (Candle Rat) :=
  match ts.mapM parseRat with
  | some [o, h, l, c, v] => some { open_ := o, high := h, low := l, close := c, volume := v }
  | _ => none

/-- `add a b c ; a+b ; (a+b)+c ; a+(b+c)` -/
def candleAdd (inToks r1 r2 r3 : List String) : Option String :=
  let c : Ctx := {}
  match candleOfToks (inToks.take 5), candleOfToks ((inToks.drop 5).take 5), candleOfToks (inToks.drop 10) with
  | some a, some b, some d =>
    let ab := a.add b
    let l := (a.add b).add d
    let r := a.add (b.add d)
    if l != r then some "model: Candle + is not associative (exact arithmetic)" else
    let chk (toks : List String) (k : Candle Rat) (what : String) : Option String :=
      firstSome [numOk c (toks.getD 0 "") k.open_ 0, numOk c (toks.getD 1 "") k.high 0, numOk c (toks.getD 2 "") k.low 0,
        -- the volume is a floating-point sum: its error is relative to the magnitudes added (signs may differ in malformed input)
        numOk c (toks.getD 3 "") k.close 0,
        numOk c (toks.getD 4 "") k.volume (8 * c.eps * (ratAbs a.volume + ratAbs b.volume + ratAbs d.volume))] |>.map (what ++ ": " ++ ·)
    firstSome [chk r1 ab "a+b", chk r2 l "(a+b)+c", chk r3 r "a+(b+c)"]
  | _, _, _ =>
    -- a non-finite field somewhere: no rational model; associativity itself is still decidable on the results
    -- (prices bit for bit — they are selections — with every NaN counted as the same value; volume, a floating-point sum,
    -- only when both groupings are finite)
    let isNaN (t : String) : Bool := (parseRat t).isNone && !(t == "f7ff0000000000000" || t == "ffff0000000000000")
    let same (x y : String) : Bool := x == y || (isNaN x && isNaN y)
    if r2.length < 5 || r3.length < 5 then some "unparsable add line"
    else if !((List.range 4).all fun i => same (r2.getD i "") (r3.getD i "")) then
      some s!"(a+b)+c and a+(b+c) differ in a price field: {unwords (r2.take 4)} vs {unwords (r3.take 4)}"
    else match parseRat (r2.getD 4 ""), parseRat (r3.getD 4 "") with
      | some x, some y => if ratAbs (x - y) ≤ 16 * c.eps * (ratAbs x + ratAbs y) then none else some "volume of the two groupings differs"
      | _, _ => none

def candleText (P : Nat) (op res : List String) : Option String :=
  match op with
  | ["src", t] =>
    match unhexText t with
    | none => none
    | some l =>
      let m := match Text.parseSource l with
        | some s => s!"ok:{srcIdx s}"
        | none => "err:SourceParse"
      if res == [m, m, m] then none else some s!"Source::from_str: rust {unwords res} model {m}"
  | ["srcstr", i] =>
    let s := srcOfIdx i.toNat!
    match res.mapM unhexText with
    | some [a, b] =>
      if a == s.toStr.toList && b == s.toStr.toList then
        (if Text.parseSource a == some s then none else some "model: to_str does not parse back")
      else some s!"Source -> str: model {s.toStr}"
    | _ => some "unparsable srcstr"
  | ["ma", t] =>
    match unhexText t with
    | none => none
    | some l =>
      let m := match Text.parseMA P l with
        | some ma => s!"ok:{kindIdx ma.kind}:{ma.length}"
        | none => "err:MovingAverageParse"
      if res == [m] then none else some s!"MA::from_str: rust {unwords res} model {m}"
  | _ => some "unknown text op"

end Yata.Drv
