/-
  Driver glue for the `action` component (C16).
-/
import YataModel.Action
import YataModel.F64
import YataDriver.Util
import YataDriver.Methods
namespace Yata.Drv
open Yata

def parseAct (s : String) : Option Action :=
  if s == "aN" then some .none
  else if s.startsWith "aB" then ((s.drop 2).toString.toNat?).map .buy
  else if s.startsWith "aS" then ((s.drop 2).toString.toNat?).map .sell
  else none

def ordStr : Ordering → String
  | .lt => "-1" | .eq => "0" | .gt => "1"

def hex16 (n : Nat) : String :=
  let digits := "0123456789abcdef".toList
  let rec go (fuel n : Nat) (acc : List Char) : List Char :=
    match fuel with
    | 0 => acc
    | f + 1 => go f (n / 16) ((digits.getD (n % 16) '0') :: acc)
  String.ofList (go 16 n [])

def optS {α : Type} (f : α → String) : Option α → String
  | none => "-"
  | some a => f a

/-- the model's result text for one action op -/
def actionOp (op : List String) : String :=
  match op with
  | ["i8", v] =>
    let a := Action.ofI8 v.toInt!
    unwords [actStr a, actStr a, actStr a]
  | ["i8none"] => "aN"
  | ["bool"] => unwords [actStr (Action.ofBool true), actStr (Action.ofBool false)]
  | ["default"] => "aN"
  | ["f64none"] => "aN"
  | ["f32none"] => "aN"
  | ["un", a] =>
    match parseAct a with
    | none => "?"
    | some a =>
      let rb := F64.ratioBits a
      unwords [s!"neg={actStr a.neg}", s!"analog={a.analog}", s!"sign={optS toString a.sign}",
        s!"value={optS toString a.value}", s!"ratio={optS hex16 rb}",
        s!"back={optS (fun b => actStr (F64.toAction b)) rb}",
        s!"none={if a == .none then 1 else 0}", s!"some={if a == .none then 0 else 1}"]
  | ["pair", a, b] =>
    match parseAct a, parseAct b with
    | some a, some b =>
      unwords [s!"sub={actStr (a.sub b)}", s!"eq={if a.eq b then 1 else 0}", s!"ne={if a.eq b then 0 else 1}",
        s!"cmp={ordStr (a.cmp b)}", s!"pcmp={ordStr (a.cmp b)}"]
    | _, _ => "?"
  | ["f64", bits] =>
    match parseHex bits with
    | none => "?"
    | some b => let a := actStr (F64.toAction b); unwords [a, a, a]
  | ["f32", bits] =>
    match parseHex bits with
    | none => "?"
    | some b => actStr (F64.toAction b)
  | ["sweep"] => "violations=0"
  | _ => "?unknown-op"

/-- property-level law evaluated on what Rust itself returned: equal actions must compare `Equal`
    and vice versa (C16 "equality is an equivalence relation with which the ordering is consistent") -/
def actionLaw (op res : List String) : Option String :=
  match op with
  | ["pair", a, b] =>
    let eq := res.any (· == "eq=1")
    let cmp0 := res.any (· == "cmp=0")
    if eq && !cmp0 then some s!"cmp-eq:{a},{b}"
    else if !eq && cmp0 then some s!"cmp-eq:{a},{b}"
    else none
  | _ => none

/-- compare, allowing the `sweep` line to carry extra counters -/
def actionAgree (op : List String) (rust : String) : Bool × String :=
  let m := actionOp op
  match op with
  | ["sweep"] => (rust.startsWith "violations=0 ", m)
  | "sweepbad" :: _ => (false, "no violation expected")
  | _ => (m == rust, m)

end Yata.Drv
