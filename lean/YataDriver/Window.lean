/-
  Driver glue for the `window` component (C01): replays every transcript op on the model
  window (`Window Nat`, labels) and renders the model's result in the harness' canonical text.
-/
import YataModel.Window
import YataDriver.Util
namespace Yata.Drv
open Yata

def optStr : Except Panic (Option Nat) → String
  | .error _ => "P"
  | .ok none => "none"
  | .ok (some v) => s!"some {v}"

def valStr : Except Panic Nat → String
  | .error _ => "P"
  | .ok v => toString v

def winStateStr (w : Window Nat) : String :=
  unwords ([s!"L{w.buf.length}"] ++ w.buf.map toString ++ [s!"i{w.index}"])

def iterResult (w : Window Nat) (rev : Bool) (j : Nat) : String :=
  let start := Window.iterStart w
  let adv := if rev then Window.iterRevAdvance w j start else Window.iterAdvance w j start
  match adv with
  | .error _ => "r P h P c P l P f P"
  | .ok it =>
    let rest := if rev then Window.iterRevCollect w (it.size + 1) it else Window.iterCollect w (it.size + 1) it
    let restS := match rest with
      | .error _ => "P"
      | .ok l => unwords (l.map toString)
    let (lo, hi) := Window.iterSizeHint it
    let hiS := match hi with | some h => toString h | none => "inf"
    let last := if rev then Window.iterRevLast w it else Window.iterLast w it
    -- fused: after exhaustion `next` keeps returning none
    let fused :=
      match (if rev then Window.iterRevAdvance w (w.size + 1) start else Window.iterAdvance w (w.size + 1) start) with
      | .error _ => "P"
      | .ok itEnd =>
        match (if rev then Window.iterRevNext w itEnd else Window.iterNext w itEnd) with
        | .ok none => "1"
        | .ok (some _) => "0"
        | .error _ => "P"
    unwords (["r"] ++ (if restS == "" then [] else [restS]) ++
      ["h", toString lo, hiS, "c", toString (Window.iterCount it), "l", optStr last, "f", fused])

/-- one window op: returns the new model window and the model's result text -/
def windowOp (P : Nat) (w : Window Nat) (op : List String) : Window Nat × String :=
  match op with
  | ["new", cap, v] =>
    match Window.new P cap.toNat! v.toNat! with
    | .ok w' => (w', "ok")
    | .error _ => (w, "P")
  | "fromvec" :: len :: rest =>
    let buf := (rest.take len.toNat!).map String.toNat!
    match Window.fromParts P buf 0 with
    | .ok w' => (w', "ok")
    | .error _ => (w, "P")
  | "fromparts" :: len :: rest =>
    let n := len.toNat!
    let buf := (rest.take n).map String.toNat!
    let idx := (rest.drop n).headD "0" |>.toNat!
    match Window.fromParts P buf idx with
    | .ok w' => (w', "ok")
    | .error _ => (w, "P")
  | ["push", x] =>
    match Window.push w x.toNat! with
    | .ok (old, w') => (w', toString old)
    | .error _ => (w, "P")
  | ["state"] => (w, winStateStr w)
  | ["newest"] => (w, valStr (Window.newest w))
  | ["oldest"] => (w, valStr (Window.oldest w))
  | ["len"] => (w, toString (Window.len w))
  | ["isempty"] => (w, if Window.isEmpty w then "1" else "0")
  | ["get", k] => (w, optStr (Window.get P w k.toNat!))
  | ["idx", k] => (w, valStr (Window.idx P w k.toNat!))
  | ["iter", j] => (w, iterResult w false j.toNat!)
  | ["iterrev", j] => (w, iterResult w true j.toNat!)
  | ["serde"] =>
    match Window.deserialize P (Window.serialize w) with
    | .ok (.ok w') => (w', "ok")
    | .ok (.error _) => (w, "P")
    | .error _ => (w, "err")
  | ["rebuild"] =>
    match Window.fromParts P (Window.asSlice w) w.index with
    | .ok w' => (w', "ok")
    | .error _ => (w, "P")
  | ["de", len, idx] =>
    let n := len.toNat!
    let buf := (List.range n).map (· + 200)
    -- an index that is not a value of PeriodType is rejected by the integer parser (trusted serde)
    match idx.toNat? with
    | none => (w, "err")
    | some i =>
      if i > P then (w, "err") else
      match Window.deserialize P (buf, i) with
      | .ok (.ok w') => (w', "ok")
      | .ok (.error _) => (w, "P")
      | .error _ => (w, "err")
  | ["debad", _] => (w, "err")
  | _ => (w, "?unknown-op")

end Yata.Drv
