/-
  YataModel.Methods.Basic — the non-average numeric methods
  (src/methods/{integral,derivative,momentum,rate_of_change,past,st_dev,mean_abs_dev,
   median_abs_dev,cci,volatility,tsi}.rs) and the selection methods
  (highest_lowest.rs, highest_lowest_index.rs, smm.rs).
-/
import YataModel.Methods.Averages
namespace Yata
variable {α : Type}
variable [Zero α] [One α] [Add α] [Sub α] [Mul α] [Div α] [Neg α] [NatCast α]
variable [LT α] [DecidableLT α] [LE α] [DecidableLE α]

/-! ## Integral (windowed and cumulative) -/
structure Integral (α : Type) where
  value : α
  window : Window α
  deriving Repr

namespace Integral
def new (P : Nat) (length : Nat) (value : α) : Res (Integral α) :=
  if length = P then .err .wrongMethodParameters else
  (winNew P length value).bind fun w => .ok { window := w, value := value * (length : α) }

def next (s : Integral α) (value : α) : Except Panic (α × Integral α) :=
  let v := s.value + value
  if ¬ s.window.isEmpty then
    match s.window.push value with
    | .error e => .error e
    | .ok (old, w) => let v := v - old; .ok (v, { value := v, window := w })
  else .ok (v, { s with value := v })

def peek (s : Integral α) : α := s.value
end Integral

/-! ## Derivative -/
structure Derivative (α : Type) where
  divider : α
  window : Window α
  deriving Repr

namespace Derivative
def new (P : Nat) (length : Nat) (value : α) : Res (Derivative α) :=
  if length = 0 ∨ length = P then .err .wrongMethodParameters
  else (winNew P length value).bind fun w => .ok { divider := 1 / (length : α), window := w }

def next (s : Derivative α) (value : α) : Except Panic (α × Derivative α) :=
  match s.window.push value with
  | .error e => .error e
  | .ok (prev, w) => .ok ((value - prev) * s.divider, { s with window := w })
end Derivative

/-! ## Momentum -/
structure Momentum (α : Type) where
  window : Window α
  deriving Repr

namespace Momentum
def new (P : Nat) (length : Nat) (value : α) : Res (Momentum α) :=
  if length = 0 ∨ length = P then .err .wrongMethodParameters
  else (winNew P length value).bind fun w => .ok { window := w }

def next (s : Momentum α) (value : α) : Except Panic (α × Momentum α) :=
  match s.window.push value with
  | .error e => .error e
  | .ok (prev, w) => .ok (value - prev, { window := w })
end Momentum

/-! ## RateOfChange -/
structure RateOfChange (α : Type) where
  window : Window α
  deriving Repr

namespace RateOfChange
def new (P : Nat) (length : Nat) (value : α) : Res (RateOfChange α) :=
  if length = 0 ∨ length = P then .err .wrongMethodParameters
  else (winNew P length value).bind fun w => .ok { window := w }

def next (s : RateOfChange α) (value : α) : Except Panic (α × RateOfChange α) :=
  match s.window.push value with
  | .error e => .error e
  | .ok (prev, w) => .ok ((value - prev) / prev, { window := w })
end RateOfChange

/-! ## Past (any element type) -/
structure Past (β : Type) where
  window : Window β
  deriving Repr

namespace Past
def new {β : Type} (P : Nat) (length : Nat) (value : β) : Res (Past β) :=
  if length = 0 ∨ length = P then .err .wrongMethodParameters
  else (Res.ofExcept (Window.new P length value)).bind fun w => .ok { window := w }

def next {β : Type} (s : Past β) (value : β) : Except Panic (β × Past β) :=
  match s.window.push value with
  | .error e => .error e
  | .ok (prev, w) => .ok (prev, { window := w })

def peek {β : Type} (s : Past β) : Except Panic β := s.window.newest
end Past

/-! ## StDev — `sqrt` is applied by the caller: the model returns the *variance* `|sum*k|`,
    the driver compares `out²` with it (DESIGN §3.2). -/
structure StDev (α : Type) where
  mean : α
  val_sum : α
  sq_val_sum : α
  divider : α
  k : α
  window : Window α
  deriving Repr

namespace StDev
def new (P : Nat) (length : Nat) (value : α) : Res (StDev α) :=
  if length = 0 ∨ length = 1 ∨ length = P then .err .wrongMethodParameters
  else
    let fl : α := (length : α)
    (winNew P length value).bind fun w =>
      .ok { mean := -value, val_sum := value * fl, sq_val_sum := value * value * fl,
            divider := -(1 / fl), k := 1 / ((length - 1 : Nat) : α), window := w }

/-- `(val_sum.mul_add(mean, sq_val_sum) * k).abs()` — the argument of the final `sqrt` -/
def peekVar (s : StDev α) : α := sabs ((s.val_sum * s.mean + s.sq_val_sum) * s.k)

def next (s : StDev α) (value : α) : Except Panic (α × StDev α) :=
  match s.window.push value with
  | .error e => .error e
  | .ok (prev, w) =>
    let diff := value - prev
    let s' := { s with sq_val_sum := s.sq_val_sum + diff * (value + prev),
                       val_sum := s.val_sum + diff,
                       mean := s.mean + diff * s.divider, window := w }
    .ok (s'.peekVar, s')
end StDev

/-! ## MeanAbsDev -/
structure MeanAbsDev (α : Type) where
  sma : SMA α
  deriving Repr

namespace MeanAbsDev
def new (P : Nat) (length : Nat) (value : α) : Res (MeanAbsDev α) :=
  if length = 0 ∨ length = P then .err .wrongMethodParameters
  else (SMA.new P length value).bind fun s => .ok { sma := s }

/-- iterates the raw buffer (`as_slice`), order irrelevant for the sum in exact arithmetic -/
def peek (s : MeanAbsDev α) : α :=
  let mean := s.sma.peek
  (s.sma.window.asSlice.map (fun x => sabs (x - mean))).foldl (· + ·) 0 * s.sma.divider

def next (s : MeanAbsDev α) (value : α) : Except Panic (α × MeanAbsDev α) :=
  match s.sma.next value with
  | .error e => .error e
  | .ok (_, sma) => let s' : MeanAbsDev α := { sma := sma }; .ok (s'.peek, s')
end MeanAbsDev

/-! ## CCI -/
structure CCI (α : Type) where
  mad : MeanAbsDev α
  deriving Repr

namespace CCI
def new (P : Nat) (length : Nat) (value : α) : Res (CCI α) :=
  if length = 0 ∨ length = P then .err .wrongMethodParameters
  else (MeanAbsDev.new P length value).bind fun m => .ok { mad := m }

def next (s : CCI α) (value : α) : Except Panic (α × CCI α) :=
  match s.mad.next value with
  | .error e => .error e
  | .ok (mean, mad) =>
    let ma := mad.sma.peek
    let out := if 0 < mean then (value - ma) / mean else 0
    .ok (out, { mad := mad })
end CCI

/-! ## LinearVolatility -/
structure LinearVolatility (α : Type) where
  window : Window α
  prev_value : α
  volatility : α
  deriving Repr

namespace LinearVolatility
def new (P : Nat) (length : Nat) (value : α) : Res (LinearVolatility α) :=
  if length = 0 ∨ length = P then .err .wrongMethodParameters
  else (winNew P length (0 : α)).bind fun w => .ok { window := w, prev_value := value, volatility := 0 }

def next (s : LinearVolatility α) (value : α) : Except Panic (α × LinearVolatility α) :=
  let d := sabs (value - s.prev_value)
  match s.window.push d with
  | .error e => .error e
  | .ok (past, w) =>
    let v := s.volatility + (d - past)
    .ok (v, { window := w, prev_value := value, volatility := v })

def peek (s : LinearVolatility α) : α := s.volatility
end LinearVolatility

/-! ## TSI (method) -/
structure TSI (α : Type) where
  last_value : α
  ema11 : EMA α
  ema12 : EMA α
  ema21 : EMA α
  ema22 : EMA α
  deriving Repr

namespace TSI
def new (P : Nat) (short long : Nat) (value : α) : Res (TSI α) :=
  (EMA.new P long (0 : α)).bind fun e11 => (EMA.new P short (0 : α)).bind fun e12 =>
  (EMA.new P long (0 : α)).bind fun e21 => (EMA.new P short (0 : α)).bind fun e22 =>
    .ok { last_value := value, ema11 := e11, ema12 := e12, ema21 := e21, ema22 := e22 }

def peek (s : TSI α) : α :=
  let num := s.ema12.peek
  let den := s.ema22.peek
  if 0 < den then num / den else 0

def next (s : TSI α) (value : α) : α × TSI α :=
  let m := value - s.last_value
  let (a, e11) := s.ema11.next m
  let (_, e12) := s.ema12.next a
  let (b, e21) := s.ema21.next (sabs m)
  let (_, e22) := s.ema22.next b
  let s' : TSI α := { last_value := value, ema11 := e11, ema12 := e12, ema21 := e21, ema22 := e22 }
  (s'.peek, s')
end TSI

/-! ## Highest / Lowest / HighestLowestDelta
    `is_finite` checks concern NaN/inf inputs, which the numeric model does not contain
    (the harness feeds finite values; non-finite handling is covered by C10's harness-only part). -/
section Selection
variable {β : Type} [LT β] [DecidableLT β] [LE β] [DecidableLE β] [BitEq β]

def foldMax (init : β) (l : List β) : β := l.foldl (fun a b => smax a b) init
def foldMin (init : β) (l : List β) : β := l.foldl (fun a b => smin a b) init

/-- all elements newest → oldest, as `window.iter()` yields them -/
def Window.iterAll (w : Window β) : Except Panic (List β) :=
  w.iterCollect (w.size + 1) w.iterStart

structure Highest (β : Type) where
  value : β
  window : Window β
  deriving Repr

namespace Highest
def new (P : Nat) (length : Nat) (value : β) : Res (Highest β) :=
  if length = 0 ∨ length = P then .err .wrongMethodParameters
  else (Res.ofExcept (Window.new P length value)).bind fun w => .ok { window := w, value := value }

def next (s : Highest β) (value : β) : Except Panic (β × Highest β) :=
  match s.window.push value with
  | .error e => .error e
  | .ok (left, w) =>
    if s.value ≤ value then .ok (value, { value := value, window := w })
    else if bitEq left s.value then
      match w.iterAll with
      | .error e => .error e
      | .ok l => let v := foldMax value l; .ok (v, { value := v, window := w })
    else .ok (s.value, { s with window := w })

def peek (s : Highest β) : β := s.value
end Highest

structure Lowest (β : Type) where
  value : β
  window : Window β
  deriving Repr

namespace Lowest
def new (P : Nat) (length : Nat) (value : β) : Res (Lowest β) :=
  if length = 0 ∨ length = P then .err .wrongMethodParameters
  else (Res.ofExcept (Window.new P length value)).bind fun w => .ok { window := w, value := value }

def next (s : Lowest β) (value : β) : Except Panic (β × Lowest β) :=
  match s.window.push value with
  | .error e => .error e
  | .ok (left, w) =>
    if value ≤ s.value then .ok (value, { value := value, window := w })
    else if bitEq left s.value then
      match w.iterAll with
      | .error e => .error e
      | .ok l => let v := foldMin value l; .ok (v, { value := v, window := w })
    else .ok (s.value, { s with window := w })

def peek (s : Lowest β) : β := s.value
end Lowest

structure HighestLowestDelta (β : Type) where
  highest : β
  lowest : β
  window : Window β
  deriving Repr

namespace HighestLowestDelta
def new (P : Nat) (length : Nat) (value : β) : Res (HighestLowestDelta β) :=
  if length = 0 ∨ length = P then .err .wrongMethodParameters
  else (Res.ofExcept (Window.new P length value)).bind fun w =>
    .ok { window := w, highest := value, lowest := value }

/-- returns the new state; the output `highest - lowest` is formed by the caller
    (so that the selection part needs no arithmetic on `β`) -/
def step (s : HighestLowestDelta β) (value : β) : Except Panic (HighestLowestDelta β) :=
  match s.window.push value with
  | .error e => .error e
  | .ok (left, w) =>
    let (hi, search1) :=
      if s.highest ≤ value then (value, false)
      else if bitEq left s.highest then (s.highest, true) else (s.highest, false)
    let (lo, search2) :=
      if value ≤ s.lowest then (value, false)
      else if bitEq left s.lowest then (s.lowest, true) else (s.lowest, false)
    if search1 || search2 then
      match w.iterAll with
      | .error e => .error e
      | .ok l =>
        let mn := foldMin value l
        let mx := foldMax value l
        .ok { highest := mx, lowest := mn, window := w }
    else .ok { highest := hi, lowest := lo, window := w }
end HighestLowestDelta

/-! ## HighestIndex / LowestIndex -/
structure HighestIndex (β : Type) where
  index : Nat
  value : β
  window : Window β
  deriving Repr

/-- `iter().enumerate().fold((0, value), |a, b| if b.1 > a.1 { b } else { a })` -/
def argFold (better : β → β → Bool) (init : β) (l : List β) : Nat × β :=
  (l.zipIdx).foldl (fun a b => if better b.1 a.2 then (b.2, b.1) else a) (0, init)

namespace HighestIndex
def new (P : Nat) (length : Nat) (value : β) : Res (HighestIndex β) :=
  if length = 0 ∨ length = P then .err .wrongMethodParameters
  else (Res.ofExcept (Window.new P length value)).bind fun w =>
    .ok { window := w, index := 0, value := value }

/-- `self.index += 1` is PeriodType arithmetic -/
def next (P : Nat) (s : HighestIndex β) (value : β) : Except Panic (Nat × HighestIndex β) :=
  match s.window.push value with
  | .error e => .error e
  | .ok (_, w) =>
    match chkAdd P s.index 1 with
    | .error e => .error e
    | .ok index =>
      if s.value ≤ value then .ok (0, { index := 0, value := value, window := w })
      else if index = w.len then
        match w.iterAll with
        | .error e => .error e
        | .ok l =>
          let (i, v) := argFold (fun b a => decide (a < b)) value l
          .ok (i, { index := i, value := v, window := w })
      else .ok (index, { s with index := index, window := w })

def peek (s : HighestIndex β) : Nat := s.index
end HighestIndex

structure LowestIndex (β : Type) where
  index : Nat
  value : β
  window : Window β
  deriving Repr

namespace LowestIndex
def new (P : Nat) (length : Nat) (value : β) : Res (LowestIndex β) :=
  if length = 0 ∨ length = P then .err .wrongMethodParameters
  else (Res.ofExcept (Window.new P length value)).bind fun w =>
    .ok { window := w, index := 0, value := value }

def next (P : Nat) (s : LowestIndex β) (value : β) : Except Panic (Nat × LowestIndex β) :=
  match s.window.push value with
  | .error e => .error e
  | .ok (_, w) =>
    match chkAdd P s.index 1 with
    | .error e => .error e
    | .ok index =>
      if value ≤ s.value then .ok (0, { index := 0, value := value, window := w })
      else if index = w.len then
        match w.iterAll with
        | .error e => .error e
        | .ok l =>
          let (i, v) := argFold (fun b a => decide (b < a)) value l
          .ok (i, { index := i, value := v, window := w })
      else .ok (index, { s with index := index, window := w })

def peek (s : LowestIndex β) : Nat := s.index
end LowestIndex

/-! ## SMM — sorted slice maintained by binary search + shift
    (after the `fix:` commit the search orders by `total_cmp`). -/
variable [TotalCmp β]

/-- `next_half` / `find_index` / `find_insert_index` on the sub-slice `l`, offset `padding`;
    `fuel` bounds the recursion (the slice halves every step). -/
def findIndex : Nat → β → List β → Nat → Nat
  | 0, _, l, padding => padding + 1 - l.length
  | fuel + 1, value, l, padding =>
    if l.length < 2 then padding + 1 - l.length
    else
      let half := l.length / 2
      match l[half]? with
      | none => padding
      | some h =>
        match tcmp value h with
        | .eq => padding + half
        | .gt => findIndex fuel value (l.drop (half + 1)) (padding + half + 1)
        | .lt => findIndex fuel value (l.take half) padding

def findInsertIndex : Nat → β → List β → Nat → Nat
  | 0, _, _, padding => padding
  | fuel + 1, value, l, padding =>
    if l.isEmpty then padding
    else
      let half := l.length / 2
      match l[half]? with
      | none => padding
      | some h =>
        match tcmp value h with
        | .eq => padding + half
        | .gt => findInsertIndex fuel value (l.drop (half + 1)) (padding + half + 1)
        | .lt => findInsertIndex fuel value (l.take half) padding

/-- `slice.copy_within(src_start..src_end, dest)` -/
def copyWithin (l : List β) (srcStart srcEnd dest : Nat) : List β :=
  let seg := (l.drop srcStart).take (srcEnd - srcStart)
  l.take dest ++ seg ++ l.drop (dest + seg.length)

structure SMM (β : Type) where
  half : Nat
  half_m1 : Nat
  window : Window β
  slice : List β
  deriving Repr

namespace SMM
def new (P : Nat) (length : Nat) (value : β) : Res (SMM β) :=
  if length = 0 ∨ length = P then .err .wrongMethodParameters
  else
    let half := length / 2
    let isEven := if length % 2 = 0 then 1 else 0
    (Res.ofExcept (Window.new P length value)).bind fun w =>
      .ok { half := half, half_m1 := satSub half isEven, window := w,
            slice := List.replicate length value }

/-- the two middle elements; the caller forms `(a + b) * 0.5` -/
def mid (s : SMM β) : Except Panic (β × β) :=
  match s.slice[s.half]?, s.slice[s.half_m1]? with
  | some a, some b => .ok (a, b)
  | _, _ => .error .indexOOB

def step (s : SMM β) (value : β) : Except Panic (SMM β) :=
  match s.window.push value with
  | .error e => .error e
  | .ok (old, w) =>
    let n := s.slice.length
    let oldIndex := findIndex (n + 1) old s.slice 0
    let index := findInsertIndex (n + 1) value s.slice 0
    let index := index - (if oldIndex < index then 1 else 0)
    if index ≥ n ∨ oldIndex ≥ n then .error .indexOOB
    else
      let sl :=
        if index > oldIndex then copyWithin s.slice (oldIndex + 1) (index + 1) oldIndex
        else if index < oldIndex then copyWithin s.slice index oldIndex (index + 1)
        else s.slice
      .ok { s with window := w, slice := sl.set index value }

/-- `Deserialize for SMM`: rebuild the sorted slice from the window buffer -/
def ofWindow (w : Window β) (sorted : List β) : SMM β :=
  let half := w.len / 2
  let isEven := if w.len % 2 = 0 then 1 else 0
  { half := half, half_m1 := satSub half isEven, window := w, slice := sorted }
end SMM

end Selection

/-! ## MedianAbsDev -/
structure MedianAbsDev (α : Type) where
  smm : SMM α
  divider : α
  deriving Repr

namespace MedianAbsDev
variable [BitEq α] [TotalCmp α]

def new (P : Nat) (length : Nat) (value : α) : Res (MedianAbsDev α) :=
  if length = 0 ∨ length = 1 ∨ length = P then .err .wrongMethodParameters
  else (SMM.new P length value).bind fun s => .ok { smm := s, divider := 1 / (length : α) }

def half : α := 1 / ((2 : Nat) : α)

def peek (s : MedianAbsDev α) : Except Panic α :=
  match s.smm.mid with
  | .error e => .error e
  | .ok (a, b) =>
    let m := (a + b) * half
    .ok ((s.smm.window.asSlice.map (fun x => sabs (x - m))).foldl (· + ·) 0 * s.divider)

def next (s : MedianAbsDev α) (value : α) : Except Panic (α × MedianAbsDev α) :=
  match s.smm.step value with
  | .error e => .error e
  | .ok smm =>
    let s' := { s with smm := smm }
    match s'.peek with
    | .error e => .error e
    | .ok v => .ok (v, s')
end MedianAbsDev

end Yata
