/-
  YataModel.Methods.Averages — models of the moving averages
  (src/methods/{sma,wma,ema,rma,wsma,swma,trima,hma,lin_reg,conv,vwma,vidya}.rs).

  One structure per Rust struct, same fields in the same order (the harness reads the Rust
  state through serde in declaration order), `new` / `next` / `peek` with the same control
  flow and operation order.  `P` is `PeriodType::MAX`.
-/
import YataModel.Window
import YataModel.Scalar
namespace Yata
variable {α : Type}
variable [Zero α] [One α] [Add α] [Sub α] [Mul α] [Div α] [Neg α] [NatCast α]
variable [LT α] [DecidableLT α] [LE α] [DecidableLE α]

/-- lift a window constructor into `Res` -/
def winNew (P : Nat) (n : Nat) (v : α) : Res (Window α) := Res.ofExcept (Window.new P n v)

/-! ## SMA -/
structure SMA (α : Type) where
  divider : α
  value : α
  window : Window α
  deriving Repr

namespace SMA
def new (P : Nat) (length : Nat) (value : α) : Res (SMA α) :=
  if length = 0 ∨ length = P then .err .wrongMethodParameters
  else (winNew P length value).bind fun w =>
    .ok { divider := 1 / (length : α), value := value, window := w }

def next (s : SMA α) (value : α) : Except Panic (α × SMA α) :=
  match s.window.push value with
  | .error e => .error e
  | .ok (prev, w) =>
    let v := s.value + (value - prev) * s.divider
    .ok (v, { s with value := v, window := w })

def peek (s : SMA α) : α := s.value
end SMA

/-! ## WMA -/
structure WMA (α : Type) where
  invert_sum : α
  float_length : α
  total : α
  numerator : α
  window : Window α
  deriving Repr

namespace WMA
def new (P : Nat) (length : Nat) (value : α) : Res (WMA α) :=
  if length = 0 ∨ length = P then .err .wrongMethodParameters
  else
    let sum : α := ((length * (length + 1) / 2 : Nat) : α)
    let fl : α := (length : α)
    (winNew P length value).bind fun w =>
      .ok { invert_sum := 1 / sum, float_length := fl, total := (-value) * fl,
            numerator := value * sum, window := w }

def peek (s : WMA α) : α := s.numerator * s.invert_sum

def next (s : WMA α) (value : α) : Except Panic (α × WMA α) :=
  match s.window.push value with
  | .error e => .error e
  | .ok (prev, w) =>
    let numerator := s.numerator + (s.float_length * value + s.total)
    let total := s.total + (prev - value)
    let s' := { s with numerator := numerator, total := total, window := w }
    .ok (s'.peek, s')
end WMA

/-! ## EMA, DMA, TMA, DEMA, TEMA -/
structure EMA (α : Type) where
  alpha : α
  value : α
  deriving Repr

namespace EMA
/-- `length + 1` is PeriodType arithmetic: `EMA::new(PeriodType::MAX)` overflows -/
def new (P : Nat) (length : Nat) (value : α) : Res (EMA α) :=
  if length = 0 ∨ length = P then .err .wrongMethodParameters
  else match chkAdd P length 1 with
    | .error p => .panic p
    | .ok l1 => .ok { alpha := ((2 : Nat) : α) / (l1 : α), value := value }

def next (s : EMA α) (value : α) : α × EMA α :=
  let v := (value - s.value) * s.alpha + s.value
  (v, { s with value := v })

def peek (s : EMA α) : α := s.value
end EMA

structure DMA (α : Type) where
  ema : EMA α
  dma : EMA α
  deriving Repr

namespace DMA
def new (P : Nat) (length : Nat) (value : α) : Res (DMA α) :=
  if length = 0 ∨ length = P then .err .wrongMethodParameters
  else (EMA.new P length value).bind fun e => (EMA.new P length value).bind fun d =>
    .ok { ema := e, dma := d }

def next (s : DMA α) (value : α) : α × DMA α :=
  let (e, ema) := s.ema.next value
  let (d, dma) := s.dma.next e
  (d, { ema := ema, dma := dma })

def peek (s : DMA α) : α := s.dma.value
end DMA

structure TMA (α : Type) where
  dma : DMA α
  tma : EMA α
  deriving Repr

namespace TMA
def new (P : Nat) (length : Nat) (value : α) : Res (TMA α) :=
  if length = 0 ∨ length = P then .err .wrongMethodParameters
  else (DMA.new P length value).bind fun d => (EMA.new P length value).bind fun t =>
    .ok { dma := d, tma := t }

def next (s : TMA α) (value : α) : α × TMA α :=
  let (d, dma) := s.dma.next value
  let (t, tma) := s.tma.next d
  (t, { dma := dma, tma := tma })

def peek (s : TMA α) : α := s.tma.value
end TMA

structure DEMA (α : Type) where
  ema : EMA α
  dma : EMA α
  deriving Repr

namespace DEMA
def new (P : Nat) (length : Nat) (value : α) : Res (DEMA α) :=
  if length = 0 ∨ length = P then .err .wrongMethodParameters
  else (EMA.new P length value).bind fun e => (EMA.new P length value).bind fun d =>
    .ok { ema := e, dma := d }

/-- `e_ma.mul_add(2., -d_ma)` -/
def peek (s : DEMA α) : α := s.ema.value * ((2 : Nat) : α) + (-s.dma.value)

def next (s : DEMA α) (value : α) : α × DEMA α :=
  let (e, ema) := s.ema.next value
  let (_, dma) := s.dma.next e
  let s' : DEMA α := { ema := ema, dma := dma }
  (s'.peek, s')
end DEMA

structure TEMA (α : Type) where
  ema : EMA α
  dma : EMA α
  tma : EMA α
  deriving Repr

namespace TEMA
def new (P : Nat) (length : Nat) (value : α) : Res (TEMA α) :=
  if length = 0 ∨ length = P then .err .wrongMethodParameters
  else (EMA.new P length value).bind fun e => (EMA.new P length value).bind fun d =>
    (EMA.new P length value).bind fun t => .ok { ema := e, dma := d, tma := t }

/-- `(e_ma - d_ma).mul_add(3., t_ma)` -/
def peek (s : TEMA α) : α := (s.ema.value - s.dma.value) * ((3 : Nat) : α) + s.tma.value

def next (s : TEMA α) (value : α) : α × TEMA α :=
  let (e, ema) := s.ema.next value
  let (d, dma) := s.dma.next e
  let (_, tma) := s.tma.next d
  let s' : TEMA α := { ema := ema, dma := dma, tma := tma }
  (s'.peek, s')
end TEMA

/-! ## RMA -/
structure RMA (α : Type) where
  alpha : α
  alpha_rev : α
  prev_value : α
  deriving Repr

namespace RMA
def new (_P : Nat) (length : Nat) (value : α) : Res (RMA α) :=
  if length = 0 then .err .wrongMethodParameters
  else
    let alpha : α := 1 / (length : α)
    .ok { alpha := alpha, alpha_rev := 1 - alpha, prev_value := value }

def next (s : RMA α) (value : α) : α × RMA α :=
  let v := s.alpha * value + s.alpha_rev * s.prev_value
  (v, { s with prev_value := v })

def peek (s : RMA α) : α := s.prev_value
end RMA

/-! ## WSMA = EMA(2n-1) -/
structure WSMA (α : Type) where
  ema : EMA α
  deriving Repr

namespace WSMA
/-- `MAX_PERIOD = PeriodType::MAX / 2`; `length * 2 - 1` is PeriodType arithmetic
    (after the `fix:` commit `0` is rejected before the subtraction) -/
def new (P : Nat) (length : Nat) (value : α) : Res (WSMA α) :=
  if length > P / 2 then .err .wrongMethodParameters
  else if length = 0 then .err .wrongMethodParameters
  else match chkMul P length 2 with
    | .error p => .panic p
    | .ok l2 => match chkSub l2 1 with
      | .error p => .panic p
      | .ok l => (EMA.new P l value).bind fun e => .ok { ema := e }

def next (s : WSMA α) (value : α) : α × WSMA α :=
  let (v, e) := s.ema.next value
  (v, { ema := e })

def peek (s : WSMA α) : α := s.ema.value
end WSMA

/-! ## SWMA -/
structure SWMA (α : Type) where
  right_total : α
  right_float_length : α
  right_window : Window α
  left_total : α
  left_float_length : α
  left_window : Window α
  invert_sum : α
  numerator : α
  deriving Repr

namespace SWMA
/-- `(length + 1) / 2` is PeriodType arithmetic -/
def new (P : Nat) (length : Nat) (value : α) : Res (SWMA α) :=
  if length = 0 ∨ length = P then .err .wrongMethodParameters
  else match chkAdd P length 1 with
    | .error p => .panic p
    | .ok l1 =>
      let left := l1 / 2
      let right := length / 2
      let sum : α := ((left * (left + 1) / 2 + right * (right + 1) / 2 : Nat) : α)
      (winNew P left value).bind fun lw => (winNew P right value).bind fun rw =>
        .ok { left_total := (-value) * (left : α), left_float_length := (left : α), left_window := lw,
              right_total := value * (right : α), right_float_length := -((right : α)), right_window := rw,
              invert_sum := 1 / sum, numerator := value * sum }

def peek (s : SWMA α) : α := s.numerator * s.invert_sum

def next (s : SWMA α) (value : α) : Except Panic (α × SWMA α) :=
  if s.right_window.isEmpty then
    -- length 1 (after the `fix:` commit the state follows the value that is returned)
    match s.left_window.push value with
    | .error e => .error e
    | .ok (_, lw) => .ok (value, { s with left_window := lw, left_total := -value, numerator := value })
  else match s.right_window.push value with
    | .error e => .error e
    | .ok (rprev, rw) =>
      let right_total := s.right_total + (value - rprev)
      let numerator := s.numerator + (rprev * s.right_float_length + right_total)
      match s.left_window.push rprev with
      | .error e => .error e
      | .ok (lprev, lw) =>
        let numerator := numerator + (rprev * s.left_float_length + s.left_total)
        let left_total := s.left_total + (lprev - rprev)
        let s' := { s with right_total := right_total, right_window := rw, left_total := left_total,
                           left_window := lw, numerator := numerator }
        .ok (s'.peek, s')
end SWMA

/-! ## TRIMA = SMA ∘ SMA -/
structure TRIMA (α : Type) where
  sma1 : SMA α
  sma2 : SMA α
  deriving Repr

namespace TRIMA
def new (P : Nat) (length : Nat) (value : α) : Res (TRIMA α) :=
  (SMA.new P length value).bind fun a => (SMA.new P length value).bind fun b =>
    .ok { sma1 := a, sma2 := b }

def next (s : TRIMA α) (value : α) : Except Panic (α × TRIMA α) :=
  match s.sma1.next value with
  | .error e => .error e
  | .ok (v1, a) => match s.sma2.next v1 with
    | .error e => .error e
    | .ok (v2, b) => .ok (v2, { sma1 := a, sma2 := b })

def peek (s : TRIMA α) : α := s.sma2.value
end TRIMA

/-! ## HMA -/
structure HMA (α : Type) where
  wma1 : WMA α
  wma2 : WMA α
  wma3 : WMA α
  deriving Repr

namespace HMA
/-- third length: `(length as ValueType).sqrt() as PeriodType` = ⌊√length⌋ -/
def new (P : Nat) (length : Nat) (value : α) : Res (HMA α) :=
  if length = 0 ∨ length = 1 ∨ length = P then .err .wrongMethodParameters
  else (WMA.new P (length / 2) value).bind fun a => (WMA.new P length value).bind fun b =>
    (WMA.new P (Nat.sqrt length) value).bind fun c => .ok { wma1 := a, wma2 := b, wma3 := c }

def next (s : HMA α) (value : α) : Except Panic (α × HMA α) :=
  match s.wma1.next value with
  | .error e => .error e
  | .ok (w1, a) => match s.wma2.next value with
    | .error e => .error e
    | .ok (w2, b) => match s.wma3.next (w1 * ((2 : Nat) : α) + (-w2)) with
      | .error e => .error e
      | .ok (v, c) => .ok (v, { wma1 := a, wma2 := b, wma3 := c })

def peek (s : HMA α) : α := s.wma3.peek
end HMA

/-! ## LinReg -/
structure LinReg (α : Type) where
  s_xy : α
  s_y : α
  s_x : α
  float_length : α
  length_invert : α
  divider : α
  window : Window α
  deriving Repr

namespace LinReg
def new (P : Nat) (length : Nat) (value : α) : Res (LinReg α) :=
  if length = 0 ∨ length = 1 ∨ length = P then .err .wrongMethodParameters
  else
    let fl : α := (length : α)
    let n1 := length - 1
    let sx := length * n1 / 2
    let sx2 := sx * (2 * n1 + 1) / 3
    let divider : α := 1 / ((length * sx2 - sx * sx : Nat) : α)
    let s_x : α := -((sx : Nat) : α)
    (winNew P length value).bind fun w =>
      .ok { float_length := fl, length_invert := -(1 / fl), divider := divider, s_x := s_x,
            s_y := (-value) * fl, s_xy := value * s_x, window := w }

def tan (s : LinReg α) : α := (s.s_xy * s.float_length + s.s_x * s.s_y) * s.divider
def b (s : LinReg α) : α := (s.s_x * s.tan + s.s_y) * s.length_invert
def peek (s : LinReg α) : α := s.b

def next (s : LinReg α) (value : α) : Except Panic (α × LinReg α) :=
  match s.window.push value with
  | .error e => .error e
  | .ok (past, w) =>
    let s_xy := s.s_xy + (past * s.float_length + s.s_y)
    let s_y := s.s_y + (past - value)
    let s' := { s with s_xy := s_xy, s_y := s_y, window := w }
    .ok (s'.b, s')
end LinReg

/-! ## Conv -/
structure Conv (α : Type) where
  weights : List α
  window : Window α
  wsum_invert : α
  deriving Repr

namespace Conv
/-- `Σ newest→oldest value * reversed weight` (the `zip` stops at the shorter list) -/
def dot (vals ws : List α) : α :=
  (List.zipWith (fun v w => v * w) vals ws).foldl (· + ·) 0

def new (P : Nat) (weights : List α) (value : α) : Res (Conv α) :=
  if 1 ≤ weights.length ∧ weights.length ≤ P - 1 then
    (winNew P weights.length value).bind fun w =>
      .ok { window := w, weights := weights, wsum_invert := 1 / weights.foldl (· + ·) 0 }
  else .err .wrongMethodParameters

def peek (s : Conv α) : Except Panic α :=
  match s.window.iterCollect (s.window.size + 1) s.window.iterStart with
  | .error e => .error e
  | .ok vals => .ok (dot vals s.weights.reverse * s.wsum_invert)

def next (s : Conv α) (value : α) : Except Panic (α × Conv α) :=
  match s.window.push value with
  | .error e => .error e
  | .ok (_, w) =>
    let s' := { s with window := w }
    match s'.peek with
    | .error e => .error e
    | .ok v => .ok (v, s')
end Conv

/-! ## VWMA (input: (price, volume)) -/
structure VWMA (α : Type) where
  sum : α
  vol_sum : α
  window : Window (α × α)
  deriving Repr

namespace VWMA
def new (P : Nat) (length : Nat) (value : α × α) : Res (VWMA α) :=
  if length = 0 ∨ length = P then .err .wrongMethodParameters
  else (Res.ofExcept (Window.new P length value)).bind fun w =>
    .ok { sum := value.1 * value.2 * (length : α), vol_sum := value.2 * (length : α), window := w }

def peek (s : VWMA α) : α := s.sum / s.vol_sum

def next (s : VWMA α) (value : α × α) : Except Panic (α × VWMA α) :=
  match s.window.push value with
  | .error e => .error e
  | .ok (past, w) =>
    let vol_sum := s.vol_sum + (value.2 - past.2)
    let sum := s.sum + (value.1 * value.2 + (-past.1) * past.2)
    let s' := { s with sum := sum, vol_sum := vol_sum, window := w }
    .ok (s'.peek, s')
end VWMA

/-! ## Vidya -/
structure Vidya (α : Type) where
  f : α
  up_sum : α
  dn_sum : α
  last_input : α
  last_output : α
  window : Window α
  deriving Repr

namespace Vidya
variable [DecidableEq α]

def new (P : Nat) (length : Nat) (input : α) : Res (Vidya α) :=
  if length = 0 ∨ length = P then .err .wrongMethodParameters
  else (winNew P length (0 : α)).bind fun w =>
    .ok { f := ((2 : Nat) : α) / ((1 + length : Nat) : α), up_sum := 0, dn_sum := 0,
          last_input := input, last_output := input, window := w }

def next (s : Vidya α) (input : α) : Except Panic (α × Vidya α) :=
  let change := input - s.last_input
  match s.window.push change with
  | .error e => .error e
  | .ok (left, w) =>
    let up := s.up_sum - left * ind (decide (0 < left))
    let dn := s.dn_sum + left * ind (decide (left < 0))
    let up := up + change * ind (decide (0 < change))
    let dn := dn - change * ind (decide (change < 0))
    let out :=
      if up + dn ≠ 0 then
        let cmo := smin (sabs ((up - dn) / (up + dn))) 1
        let f_cmo := s.f * cmo
        input * f_cmo + (1 - f_cmo) * s.last_output
      else input
    .ok (out, { s with up_sum := up, dn_sum := dn, last_input := input, last_output := out, window := w })

def peek (s : Vidya α) : α := s.last_output
end Vidya

end Yata
