/-
  YataModel.Methods.Candles — methods whose input is a candle
  (src/methods/{adi,tr,heikin_ashi,collapse_timeframe,renko}.rs).
-/
import YataModel.Methods.Basic
import YataModel.Candle
namespace Yata
variable {α : Type}
variable [Zero α] [One α] [Add α] [Sub α] [Mul α] [Div α] [Neg α] [NatCast α]
variable [LT α] [DecidableLT α] [LE α] [DecidableLE α] [DecidableEq α]

/-! ## ADI (windowed and cumulative) -/
structure ADI (α : Type) where
  cmf_sum : α
  window : Window α
  deriving Repr

namespace ADI
def new (P : Nat) (length : Nat) (c : Candle α) : Res (ADI α) :=
  if length = P then .err .wrongMethodParameters
  else if length > 0 then
    let clvv := c.clv * c.volume
    (winNew P length clvv).bind fun w => .ok { cmf_sum := clvv * (length : α), window := w }
  else .ok { cmf_sum := 0, window := Window.empty }

def next (s : ADI α) (c : Candle α) : Except Panic (α × ADI α) :=
  let clvv := c.clv * c.volume
  let v := s.cmf_sum + clvv
  if ¬ s.window.isEmpty then
    match s.window.push clvv with
    | .error e => .error e
    | .ok (old, w) => let v := v - old; .ok (v, { cmf_sum := v, window := w })
  else .ok (v, { s with cmf_sum := v })

def peek (s : ADI α) : α := s.cmf_sum
end ADI

/-! ## TR -/
structure TR (α : Type) where
  prev_close : α
  deriving Repr

namespace TR
def new (c : Candle α) : TR α := { prev_close := c.close }
def next (s : TR α) (c : Candle α) : α × TR α := (c.trClose s.prev_close, { prev_close := c.close })
end TR

/-! ## HeikinAshi -/
structure HeikinAshi (α : Type) where
  next_open : α
  deriving Repr

namespace HeikinAshi
def new (c : Candle α) : HeikinAshi α := { next_open := c.ohlc4 }

def next (s : HeikinAshi α) (c : Candle α) : Candle α × HeikinAshi α :=
  let open_ := s.next_open
  let close := c.ohlc4
  ({ open_ := open_, high := smax c.high open_, low := smin c.low open_, close := close,
     volume := c.volume },
   { next_open := (open_ + close) * (1 / ((2 : Nat) : α)) })
end HeikinAshi

/-! ## CollapseTimeframe (`period`, `index` are `usize`) -/
structure CollapseTimeframe (α : Type) where
  current : Option (Candle α)
  index : Nat
  period : Nat
  deriving Repr

namespace CollapseTimeframe
def new (period : Nat) (_c : Candle α) : Res (CollapseTimeframe α) :=
  if period = 0 then .err .wrongMethodParameters
  else .ok { current := none, index := 0, period := period }

/-- `current.take().map(|cur| cur + candle).or_else(|| Some(candle))` -/
def accumulate (cur : Option (Candle α)) (c : Candle α) : Candle α :=
  match cur with
  | some x => x.add c
  | none => c

def next (s : CollapseTimeframe α) (c : Candle α) : Option (Candle α) × CollapseTimeframe α :=
  if s.index + 1 = s.period then (some (accumulate s.current c), { s with current := none, index := 0 })
  else (none, { s with current := some (accumulate s.current c), index := s.index + 1 })
end CollapseTimeframe

/-- batch `collapse_timeframe(size, continuous = false)`: non-overlapping windows of `size` -/
def collapseBatch : Nat → Nat → List (Candle α) → List (Candle α)
  | 0, _, _ => []
  | fuel + 1, size, l =>
    if size = 0 ∨ l.length < size then []
    else
      match l.take size with
      | [] => []
      | x :: xs => xs.foldl Candle.add x :: collapseBatch fuel size (l.drop size)

end Yata
