/-
  YataModel.Methods.Signals — crossing and reversal detectors
  (src/methods/cross.rs, src/methods/reversal.rs).
-/
import YataModel.Methods.Basic
import YataModel.Action
namespace Yata
variable {α : Type}
variable [Zero α] [Sub α] [LT α] [DecidableLT α] [LE α] [DecidableLE α]

/-! ## CrossAbove / CrossUnder / Cross (input: (value, base)) -/
structure CrossAbove (α : Type) where
  last_delta : α
  deriving Repr

namespace CrossAbove
def new (value : α × α) : CrossAbove α := { last_delta := value.1 - value.2 }

def binary (s : CrossAbove α) (v1 v2 : α) : Bool × CrossAbove α :=
  let cur := v1 - v2
  (decide (s.last_delta < 0) && decide (0 ≤ cur), { last_delta := cur })

def next (s : CrossAbove α) (value : α × α) : Action × CrossAbove α :=
  let (b, s') := s.binary value.1 value.2
  (Action.ofI8 (if b then 1 else 0), s')
end CrossAbove

structure CrossUnder (α : Type) where
  last_delta : α
  deriving Repr

namespace CrossUnder
def new (value : α × α) : CrossUnder α := { last_delta := value.1 - value.2 }

def binary (s : CrossUnder α) (v1 v2 : α) : Bool × CrossUnder α :=
  let cur := v1 - v2
  (decide (0 < s.last_delta) && decide (cur ≤ 0), { last_delta := cur })

def next (s : CrossUnder α) (value : α × α) : Action × CrossUnder α :=
  let (b, s') := s.binary value.1 value.2
  (Action.ofI8 (if b then 1 else 0), s')
end CrossUnder

structure Cross (α : Type) where
  up : CrossAbove α
  down : CrossUnder α
  deriving Repr

namespace Cross
def new (value : α × α) : Cross α := { up := CrossAbove.new value, down := CrossUnder.new value }

/-- `Cross::default()`: both deltas `0.0` -/
def default : Cross α := { up := { last_delta := 0 }, down := { last_delta := 0 } }

def next (s : Cross α) (value : α × α) : Action × Cross α :=
  let (u, up) := s.up.binary value.1 value.2
  let (d, down) := s.down.binary value.1 value.2
  (Action.ofI8 ((if u then 1 else 0) - (if d then 1 else 0)), { up := up, down := down })
end Cross

/-! ## Upper / Lower reversal signals
    After the `fix:` commit the absolute positions `index` / `max_index` are `usize`
    (no saturation at `PeriodType::MAX`); they are plain `Nat` here. -/
structure UpperReversalSignal (α : Type) where
  left : Nat
  right : Nat
  max_value : α
  max_index : Nat
  index : Nat
  window : Window α
  deriving Repr

/-- the rescan: `iter_rev().zip(first_index..).skip(1)` with `>=` (newest maximal wins) -/
def rescan (better : α → α → Bool) (first : Nat) (l : List α) : α → Nat × α
  | init =>
    ((l.zipIdx first).drop 1).foldl (fun (acc : Nat × α) (b : α × Nat) =>
      if better b.1 acc.2 then (b.2, b.1) else acc) (first, init)

namespace UpperReversalSignal
def new (P : Nat) (left right : Nat) (value : α) : Res (UpperReversalSignal α) :=
  if left = 0 ∨ right = 0 ∨ satAdd P left right ≥ P - 1 then .err .wrongMethodParameters
  else match chkAdd P left right with
    | .error p => .panic p
    | .ok lr => match chkAdd P lr 1 with
      | .error p => .panic p
      | .ok n => (Res.ofExcept (Window.new P n value)).bind fun w =>
        .ok { left := left, right := right, max_value := value, max_index := 0, index := 0, window := w }

def next (s : UpperReversalSignal α) (value : α) : Except Panic (Action × UpperReversalSignal α) :=
  match s.window.push value with
  | .error e => .error e
  | .ok (_, w) =>
    let first := (s.index + 1) - w.len
    let r : Except Panic (α × Nat) :=
      if s.max_index < first then
        match w.oldest, w.iterRevCollect (w.size + 1) w.iterStart with
        | .ok o, .ok l => let (i, v) := rescan (fun x m => decide (m ≤ x)) first l o; .ok (v, i)
        | .error e, _ => .error e
        | _, .error e => .error e
      else if s.max_value ≤ value then .ok (value, s.index)
      else .ok (s.max_value, s.max_index)
    match r with
    | .error e => .error e
    | .ok (mv, mi) =>
      let sig := if s.index ≥ s.right ∧ mi = s.index - s.right then Action.buyAll else Action.none
      .ok (sig, { s with max_value := mv, max_index := mi, index := s.index + 1, window := w })
end UpperReversalSignal

structure LowerReversalSignal (α : Type) where
  left : Nat
  right : Nat
  min_value : α
  min_index : Nat
  index : Nat
  window : Window α
  deriving Repr

namespace LowerReversalSignal
def new (P : Nat) (left right : Nat) (value : α) : Res (LowerReversalSignal α) :=
  if left = 0 ∨ right = 0 ∨ satAdd P left right ≥ P - 1 then .err .wrongMethodParameters
  else match chkAdd P left right with
    | .error p => .panic p
    | .ok lr => match chkAdd P lr 1 with
      | .error p => .panic p
      | .ok n => (Res.ofExcept (Window.new P n value)).bind fun w =>
        .ok { left := left, right := right, min_value := value, min_index := 0, index := 0, window := w }

def next (s : LowerReversalSignal α) (value : α) : Except Panic (Action × LowerReversalSignal α) :=
  match s.window.push value with
  | .error e => .error e
  | .ok (_, w) =>
    let first := (s.index + 1) - w.len
    let r : Except Panic (α × Nat) :=
      if s.min_index < first then
        match w.oldest, w.iterRevCollect (w.size + 1) w.iterStart with
        | .ok o, .ok l => let (i, v) := rescan (fun x m => decide (x ≤ m)) first l o; .ok (v, i)
        | .error e, _ => .error e
        | _, .error e => .error e
      else if value ≤ s.min_value then .ok (value, s.index)
      else .ok (s.min_value, s.min_index)
    match r with
    | .error e => .error e
    | .ok (mv, mi) =>
      let sig := if s.index ≥ s.right ∧ mi = s.index - s.right then Action.buyAll else Action.none
      .ok (sig, { s with min_value := mv, min_index := mi, index := s.index + 1, window := w })
end LowerReversalSignal

structure ReversalSignal (α : Type) where
  high : UpperReversalSignal α
  low : LowerReversalSignal α
  deriving Repr

namespace ReversalSignal
def new (P : Nat) (left right : Nat) (value : α) : Res (ReversalSignal α) :=
  (UpperReversalSignal.new P left right value).bind fun h =>
  (LowerReversalSignal.new P left right value).bind fun l => .ok { high := h, low := l }

/-- `self.low.next(value) - self.high.next(value)` (low is evaluated first) -/
def next (s : ReversalSignal α) (value : α) : Except Panic (Action × ReversalSignal α) :=
  match s.low.next value with
  | .error e => .error e
  | .ok (a, low) => match s.high.next value with
    | .error e => .error e
    | .ok (b, high) => .ok (Action.sub a b, { high := high, low := low })
end ReversalSignal

end Yata
