/-
  YataModel.Basic — shared vocabulary of the executable model (core Lean only, no imports).

  * `Panic`      : the ways the modelled Rust code can abort (debug profile, as in the baseline suite).
  * PeriodType   : modelled as `Nat` with the type's maximum `P` passed explicitly
                   (`P = 255` for the default `u8`); checked / saturating helpers below.
  * `lastN`      : the abstract "last n elements of the history" used by every spec.
-/
namespace Yata

inductive Panic where
  | emptyWindow      -- `push` on a window of size 0 (debug_assert / index 0 of empty buffer)
  | indexOOB         -- slice / window index out of range
  | assertFailed     -- `assert!` / `debug_assert!`
  | overflow         -- arithmetic overflow of PeriodType / usize (debug build panics, release wraps)
  | unwrapNone
  deriving Repr, DecidableEq, Inhabited

instance : ToString Panic where
  toString
    | .emptyWindow => "emptyWindow"
    | .indexOOB => "indexOOB"
    | .assertFailed => "assertFailed"
    | .overflow => "overflow"
    | .unwrapNone => "unwrapNone"

/-- `a.saturating_add(b)` on an unsigned type with maximum `P`. -/
def satAdd (P a b : Nat) : Nat := if a + b ≤ P then a + b else P

/-- `a.saturating_sub(b)`: truncated subtraction on `Nat` is exactly that. -/
def satSub (a b : Nat) : Nat := a - b

/-- `a.checked_sub(b)` -/
def checkedSub (a b : Nat) : Option Nat := if b ≤ a then some (a - b) else none

/-- `a + b` on an unsigned type with maximum `P`: overflow is a failure
    (debug: panic; release: wrap-around — both are "not Ok/Err" for the properties). -/
def chkAdd (P a b : Nat) : Except Panic Nat := if a + b ≤ P then .ok (a + b) else .error .overflow

def chkMul (P a b : Nat) : Except Panic Nat := if a * b ≤ P then .ok (a * b) else .error .overflow

/-- `a - b` on an unsigned type: underflow is a failure. -/
def chkSub (a b : Nat) : Except Panic Nat := if b ≤ a then .ok (a - b) else .error .overflow

/-- last `n` elements of a list (all of it when shorter) -/
def lastN {α : Type} (n : Nat) (l : List α) : List α := l.drop (l.length - n)

/-- The history a window of capacity `n` constructed with `v` has seen after the inputs `xs`:
    the construction value counts as `n` earlier pushes. -/
def history {α : Type} (n : Nat) (v : α) (xs : List α) : List α := List.replicate n v ++ xs

end Yata
