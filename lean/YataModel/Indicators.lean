/-
  YataModel.Indicators — models of the indicators named in C05/C12 (src/indicators/*.rs) in exact
  rational arithmetic.  Each indicator is split into

    * `vals` : the raw values (composition of the method models; advances the numeric state), and
    * `sigs` : the signals as a function of the candle, of a list of values and of the signal state
               (crossing detectors, counters).

  `sigs` takes the values as an argument so that the driver can apply the documented rule to the
  values the implementation itself returned (C06); `next` = `sigs` applied to the model's own `vals`.
  `vals` takes an optional feedback list: when given, later stages (signal lines, smoothings) are fed
  the implementation's value of the earlier stage instead of the model's, so that each stage is
  compared under its own allowance only.

  `VExp` annotates how a value is formed, for the allowance of DESIGN §3.2:
    approx q κ sc  — accumulated quantity with weight norm κ on the scale `sc` (a = C·ε·k·κ·scale):
                     price (M), volume (M_v) or unit (1: oscillators, ratios already formed)
    band …         — centre ± k·sqrt(variance)
    quot …         — quotient of two accumulated quantities behind an exact `== 0` guard
    cquot …        — the same quotient clamped to the documented range `[lo, hi]` by the code (`.clamp(lo, hi)`)
    sqrtQuot …     — num / sqrt(den), compared on the square (no rational value: `VExp.value` is 0 for it)
    exact q        — copied / selected value (up to the rounding of the candle source formula)
-/
import YataModel.MA
import YataModel.Methods.Signals
import YataModel.Methods.Candles
namespace Yata.Ind
open Yata

inductive Scale where
  | price | vol | unit
  /-- an absolute scale carried by the model (running maximum of the absolute inputs of the averaging stage) -/
  | abs (m : Rat)
  deriving Repr, DecidableEq, Inhabited

inductive VExp where
  | exact (q : Rat)
  | approx (q κ : Rat) (sc : Scale)
  /-- `mid + sign·k·sqrt(var)` (Bollinger): compared on the square -/
  | band (mid κm : Rat) (sign : Int) (k var : Rat)
  /-- `num/den`; `guards`: quantities the code compares with 0 exactly before dividing (besides `den`);
      `alt`: what the code returns when that guard fires -/
  | quot (num den κn κd : Rat) (sc : Scale) (guards : List Rat) (alt : Option Rat)
  /-- `(num/den).clamp(lo, hi)` behind the same guards: the code clamps the quotient to its documented range, so that the
      rounding residue its running sums hold once the data go flat cannot take it outside -/
  | cquot (num den κn κd : Rat) (sc : Scale) (guards : List Rat) (alt : Option Rat) (lo hi : Rat)
  /-- `num / sqrt(den)`, `0` when `den ≤ 0` (TrendStrengthIndex): compared on the square, allowance `κn·M` on `num`,
      `κd·M²` on `den` -/
  | sqrtQuot (num den κn κd : Rat)
  deriving Repr, Inhabited

def VExp.price (q κ : Rat) : VExp := .approx q κ .price
def VExp.unit (q κ : Rat) : VExp := .approx q κ .unit
def VExp.vol (q κ : Rat) : VExp := .approx q κ .vol

/-- `x.clamp(lo, hi)` -/
def qclamp (x lo hi : Rat) : Rat := if x < lo then lo else if hi < x then hi else x

/-- Newton iteration is not needed: the exact model never takes the square root; `value` is only used
    for values that are rational functions of the inputs -/
def VExp.value : VExp → Rat
  | .exact q => q | .approx q _ _ => q | .band m _ _ _ _ => m
  | .quot n d _ _ _ g alt => if d == 0 || g.any (· == 0) then alt.getD 0 else n / d
  | .cquot n d _ _ _ g alt lo hi => if d == 0 || g.any (· == 0) then alt.getD 0 else qclamp (n / d) lo hi
  | .sqrtQuot _ _ _ _ => 0

abbrev M := MAInst Rat
abbrev half : Rat := 1 / 2

def fb (feedback : Option (List Rat)) (i : Nat) (own : Rat) : Rat :=
  match feedback with
  | some l => l.getD i own
  | none => own

def sgn (b : Bool) : Int := if b then 1 else 0

def maNext (m : M) (x : Rat) : Except Panic (Rat × M) := m.next x
def maK (m : M) : Rat := (m.kappa : Rat)

/-! ## MACD -/
structure MACDCfg where
  ma1 : MA
  ma2 : MA
  signal : MA
  source : Source
  deriving Repr

structure MACD where
  cfg : MACDCfg
  ma1 : M
  ma2 : M
  ma3 : M
  cross1 : Cross Rat
  cross2 : Cross Rat

namespace MACD
def validate (c : MACDCfg) : Bool := c.ma1.period < c.ma2.period && c.ma1.period > 1 && c.signal.period > 1

def init (P : Nat) (c : MACDCfg) (k : Candle Rat) : Res MACD :=
  if validate c then
    let src := k.source c.source
    (c.ma1.init P src).bind fun a => (c.ma2.init P src).bind fun b => (c.signal.init P (0 : Rat)).bind fun s =>
      .ok { cfg := c, ma1 := a, ma2 := b, ma3 := s, cross1 := Cross.default, cross2 := Cross.default }
  else .err .wrongConfig

def vals (s : MACD) (k : Candle Rat) (f : Option (List Rat)) : Except Panic (List VExp × MACD) := do
  let src := k.source s.cfg.source
  let (e1, a) ← maNext s.ma1 src
  let (e2, b) ← maNext s.ma2 src
  let macd := e1 - e2
  let (sig, m3) ← maNext s.ma3 (fb f 0 macd)
  pure ([.price macd (maK s.ma1 + maK s.ma2), .price sig (2 * maK s.ma3 * (maK s.ma1 + maK s.ma2))],
        { s with ma1 := a, ma2 := b, ma3 := m3 })

def sigs (s : MACD) (_k : Candle Rat) (v : List Rat) : List Action × MACD :=
  let macd := v.getD 0 0
  let sig := v.getD 1 0
  let (s1, c1) := s.cross1.next (macd, sig)
  let (s2, c2) := s.cross2.next (macd, 0)
  ([s1, s2], { s with cross1 := c1, cross2 := c2 })
end MACD

/-! ## Bollinger Bands -/
structure BBCfg where
  avg_size : Nat
  sigma : Rat
  source : Source
  deriving Repr

structure BB where
  cfg : BBCfg
  ma : SMA Rat
  st_dev : StDev Rat

namespace BB
def validate (P : Nat) (c : BBCfg) : Bool := decide (0 < c.sigma) && c.avg_size > 2 && c.avg_size < P

def init (P : Nat) (c : BBCfg) (k : Candle Rat) : Res BB :=
  if validate P c then
    let src := k.source c.source
    (SMA.new P c.avg_size src).bind fun a => (StDev.new P c.avg_size src).bind fun b => .ok { cfg := c, ma := a, st_dev := b }
  else .err .wrongConfig

/-- the model carries the VARIANCE; the bands are `middle ± sigma·sqrt(variance)` and are compared on
    the square: returns (middle, variance) -/
def step (s : BB) (k : Candle Rat) : Except Panic (Rat × Rat × BB) := do
  let src := k.source s.cfg.source
  let (mid, a) ← s.ma.next src
  let (var, b) ← s.st_dev.next src
  pure (mid, var, { s with ma := a, st_dev := b })

def vals (s : BB) (k : Candle Rat) : Except Panic (List VExp × BB) := do
  let (mid, var, s') ← s.step k
  pure ([.band mid 1 1 s.cfg.sigma var, .price mid 1, .band mid 1 (-1) s.cfg.sigma var], s')

/-- signal: `Action::from(relative*2-1)`, relative = (source-lower)/(upper-lower), 0.5 on a zero range;
    returns the exact argument of the conversion -/
def sigArg (k : Candle Rat) (cfg : BBCfg) (v : List Rat) : Rat :=
  let upper := v.getD 0 0
  let lower := v.getD 2 0
  let range := upper - lower
  let rel := if range == 0 then half else (k.source cfg.source - lower) / range
  rel * 2 + (-1)
end BB

/-! ## Aroon -/
structure AroonCfg where
  period : Nat
  signal_zone : Rat
  over_zone_period : Nat
  deriving Repr

structure Aroon where
  cfg : AroonCfg
  lowest_index : LowestIndex Rat
  highest_index : HighestIndex Rat
  cross : Cross Rat
  uptrend : Int
  downtrend : Int

namespace Aroon
def validate (P : Nat) (c : AroonCfg) : Bool :=
  decide (0 ≤ c.signal_zone) && decide (c.signal_zone ≤ 1) && c.period > 1 && c.period < P &&
    c.over_zone_period > 0 && c.over_zone_period < P

def init (P : Nat) (c : AroonCfg) (k : Candle Rat) : Res Aroon :=
  if validate P c then
    (LowestIndex.new P c.period k.low).bind fun l => (HighestIndex.new P c.period k.high).bind fun h =>
      .ok { cfg := c, lowest_index := l, highest_index := h, cross := Cross.default, uptrend := 0, downtrend := 0 }
  else .err .wrongConfig

/-- returns (values, (highest_index, lowest_index)) -/
def vals (P : Nat) (s : Aroon) (k : Candle Rat) : Except Panic (List VExp × (Nat × Nat) × Aroon) := do
  let (hi, h) ← s.highest_index.next P k.high
  let (li, l) ← s.lowest_index.next P k.low
  let p : Rat := (s.cfg.period : Rat)
  let up : Rat := ((s.cfg.period - hi : Nat) : Rat) / p
  let dn : Rat := ((s.cfg.period - li : Nat) : Rat) / p
  pure ([.unit up 1, .unit dn 1], (hi, li), { s with highest_index := h, lowest_index := l })

/-- signals from the returned values and the two ages; third slot: exact argument of `Action::from` -/
def sigs (s : Aroon) (v : List Rat) (idx : Nat × Nat) (rnd : Rat → Rat := id) : (Action × Action × Rat) × Aroon :=
  let up := v.getD 0 0
  let dn := v.getD 1 0
  let (tr, c) := s.cross.next (up, dn)
  let edge : Int := sgn (idx.1 == 0) - sgn (idx.2 == 0)
  let z := s.cfg.signal_zone
  let zu := rnd (1 - z)
  let upOver : Int := sgn (decide (zu ≤ up))
  let upUnder : Int := sgn (decide (up ≤ z))
  let dnOver : Int := sgn (decide (zu ≤ dn))
  let dnUnder : Int := sgn (decide (dn ≤ z))
  let ut := (s.uptrend + 1) * upOver * dnUnder
  let dt := (s.downtrend + 1) * dnOver * upUnder
  let tv : Rat := ((ut - dt : Int) : Rat) / (s.cfg.over_zone_period : Rat)
  ((tr, Action.ofI8 edge, tv), { s with cross := c, uptrend := ut, downtrend := dt })
end Aroon

/-! ## RSI -/
structure RSICfg where
  ma : MA
  zone : Rat
  source : Source
  deriving Repr

structure RSI where
  cfg : RSICfg
  previous_input : Rat
  posma : M
  negma : M
  cross_upper : Cross Rat
  cross_lower : Cross Rat

namespace RSI
def validate (c : RSICfg) : Bool := c.ma.period > 2 && decide (0 < c.zone) && decide (c.zone ≤ half)

def init (P : Nat) (c : RSICfg) (k : Candle Rat) : Res RSI :=
  if validate c then
    (c.ma.init P (0 : Rat)).bind fun p => (c.ma.init P (0 : Rat)).bind fun n =>
      .ok { cfg := c, previous_input := k.source c.source, posma := p, negma := n,
            cross_upper := Cross.new (half, 1 - c.zone), cross_lower := Cross.new (half, c.zone) }
  else .err .wrongConfig

def vals (s : RSI) (k : Candle Rat) : Except Panic (List VExp × RSI) := do
  let src := k.source s.cfg.source
  let change := src - s.previous_input
  let (pos, p) ← maNext s.posma (smax change 0)
  let (negr, n) ← maNext s.negma (smin change 0)
  let neg := negr * (-1)
  -- value = pos/(pos+neg), 0.5 when both averages are exactly zero
  pure ([.cquot pos (pos + neg) (maK s.posma) (2 * maK s.posma) .price [] (some half) 0 1],
        { s with previous_input := src, posma := p, negma := n })

def sigs (s : RSI) (v : List Rat) (rnd : Rat → Rat := id) : List Action × RSI :=
  let value := v.getD 0 0
  let (lo, cl) := s.cross_lower.next (value, s.cfg.zone)
  let (up, cu) := s.cross_upper.next (value, rnd (1 - s.cfg.zone))
  let oversold := lo.analog
  let overbought := up.analog
  let s1 : Int := sgn (decide (oversold < 0)) - sgn (decide (overbought > 0))
  let s2 : Int := sgn (decide (oversold > 0)) - sgn (decide (overbought < 0))
  ([Action.ofI8 s1, Action.ofI8 s2], { s with cross_lower := cl, cross_upper := cu })
end RSI

/-! ## Stochastic Oscillator -/
structure StochCfg where
  period : Nat
  ma : MA
  signal : MA
  zone : Rat
  deriving Repr

structure Stoch where
  cfg : StochCfg
  upper_zone : Rat
  highest : Highest Rat
  lowest : Lowest Rat
  ma1 : M
  ma2 : M
  cross_over : Cross Rat
  cross_above1 : CrossAbove Rat
  cross_under1 : CrossUnder Rat
  cross_above2 : CrossAbove Rat
  cross_under2 : CrossUnder Rat

namespace Stoch
def validate (c : StochCfg) : Bool := c.period > 1 && decide (0 ≤ c.zone) && decide (c.zone ≤ half)

def kRows (close hi lo : Rat) : Rat := if hi == lo then half else (close - lo) / (hi - lo)

def init (P : Nat) (c : StochCfg) (k : Candle Rat) : Res Stoch :=
  if validate c then
    let kr := kRows k.close k.high k.low
    (Highest.new P c.period k.high).bind fun h => (Lowest.new P c.period k.low).bind fun l =>
    (c.ma.init P kr).bind fun a => (c.signal.init P kr).bind fun b =>
      .ok { cfg := c, upper_zone := 1 - c.zone, highest := h, lowest := l, ma1 := a, ma2 := b,
            cross_over := Cross.default, cross_above1 := ⟨0⟩, cross_under1 := ⟨0⟩, cross_above2 := ⟨0⟩, cross_under2 := ⟨0⟩ }
  else .err .wrongConfig

def vals (s : Stoch) (k : Candle Rat) (f : Option (List Rat)) : Except Panic (List VExp × Stoch) := do
  let (hi, h) ← s.highest.next k.high
  let (lo, l) ← s.lowest.next k.low
  let kr := kRows k.close hi lo
  let (f1, a) ← maNext s.ma1 kr
  let (f2, b) ← maNext s.ma2 (fb f 0 f1)
  pure ([.unit f1 (maK s.ma1), .unit f2 (maK s.ma2 * (1 + maK s.ma1))], { s with highest := h, lowest := l, ma1 := a, ma2 := b })

def sigs (s : Stoch) (v : List Rat) : List Action × Stoch :=
  let f1 := v.getD 0 0
  let f2 := v.getD 1 0
  let (a1, ca1) := s.cross_above1.next (f1, s.cfg.zone)
  let (u1, cu1) := s.cross_under1.next (f1, s.upper_zone)
  let (a2, ca2) := s.cross_above2.next (f2, s.cfg.zone)
  let (u2, cu2) := s.cross_under2.next (f2, s.upper_zone)
  let (s3, co) := s.cross_over.next (f1, f2)
  ([Action.sub a1 u1, Action.sub a2 u2, s3],
   { s with cross_above1 := ca1, cross_under1 := cu1, cross_above2 := ca2, cross_under2 := cu2, cross_over := co })
end Stoch

/-! ## Donchian Channel / Price Channel Strategy -/
structure Channel where
  period : Nat
  sigma : Rat
  highest : Highest Rat
  lowest : Lowest Rat

namespace Channel
def init (P : Nat) (period : Nat) (sigma : Rat) (ok : Bool) (k : Candle Rat) : Res Channel :=
  if ok then
    (Highest.new P period k.high).bind fun h => (Lowest.new P period k.low).bind fun l =>
      .ok { period := period, sigma := sigma, highest := h, lowest := l }
  else .err .wrongConfig

def hl (s : Channel) (k : Candle Rat) : Except Panic (Rat × Rat × Channel) := do
  let (hi, h) ← s.highest.next k.high
  let (lo, l) ← s.lowest.next k.low
  pure (hi, lo, { s with highest := h, lowest := l })

/-- Donchian: [lowest, middle, highest] -/
def donchianVals (s : Channel) (k : Candle Rat) : Except Panic (List VExp × Channel) := do
  let (hi, lo, s') ← s.hl k
  pure ([.exact lo, .price ((hi + lo) * half) 1, .exact hi], s')

def donchianSig (k : Candle Rat) (v : List Rat) : Action :=
  Action.ofI8 (sgn (decide (v.getD 2 0 ≤ k.high)) - sgn (decide (k.low ≤ v.getD 0 0)))

/-- PriceChannelStrategy: [upper, lower] = middle ± sigma·(highest − middle) -/
def priceChannelVals (s : Channel) (k : Candle Rat) : Except Panic (List VExp × Channel) := do
  let (hi, lo, s') ← s.hl k
  let mid := (hi + lo) * half
  let delta := hi - mid
  pure ([.price (delta * s.sigma + mid) 2, .price (delta * (-s.sigma) + mid) 2], s')

def priceChannelSig (k : Candle Rat) (v : List Rat) : Action :=
  Action.ofI8 (sgn (decide (v.getD 0 0 ≤ k.high)) - sgn (decide (k.low ≤ v.getD 1 0)))
end Channel

/-! ## Keltner Channel -/
structure KeltnerCfg where
  ma : MA
  sigma : Rat
  source : Source
  deriving Repr

structure Keltner where
  cfg : KeltnerCfg
  prev_close : Rat
  ma : M
  sma : SMA Rat
  cross_above : CrossAbove Rat
  cross_under : CrossUnder Rat

namespace Keltner
def validate (c : KeltnerCfg) : Bool := c.ma.period > 1 && decide (0 < c.sigma)

def init (P : Nat) (c : KeltnerCfg) (k : Candle Rat) : Res Keltner :=
  if validate c then
    (c.ma.init P (k.source c.source)).bind fun m => (SMA.new P c.ma.period (k.high - k.low)).bind fun a =>
      .ok { cfg := c, prev_close := k.close, ma := m, sma := a, cross_above := ⟨0⟩, cross_under := ⟨0⟩ }
  else .err .wrongConfig

def vals (s : Keltner) (k : Candle Rat) : Except Panic (List VExp × Keltner) := do
  let src := k.source s.cfg.source
  let tr := k.trClose s.prev_close
  let (ma, m) ← maNext s.ma src
  let (atr, a) ← s.sma.next tr
  let κ := maK s.ma + 2 * ratAbsI s.cfg.sigma
  pure ([.exact src, .price (atr * s.cfg.sigma + ma) κ, .price (atr * (-s.cfg.sigma) + ma) κ],
        { s with prev_close := k.close, ma := m, sma := a })
where ratAbsI (q : Rat) : Rat := if q < 0 then -q else q

def sigs (s : Keltner) (v : List Rat) : List Action × Keltner :=
  let src := v.getD 0 0
  let (u, cu) := s.cross_under.next (src, v.getD 2 0)
  let (a, ca) := s.cross_above.next (src, v.getD 1 0)
  ([Action.sub u a], { s with cross_under := cu, cross_above := ca })
end Keltner

/-! ## Envelopes -/
structure EnvCfg where
  ma : MA
  k : Rat
  source : Source
  source2 : Source
  deriving Repr

structure Env where
  cfg : EnvCfg
  ma : M
  k_high : Rat
  k_low : Rat

namespace Env
def validate (c : EnvCfg) : Bool := decide (0 < c.k) && c.ma.period > 1

def init (P : Nat) (c : EnvCfg) (k : Candle Rat) : Res Env :=
  if validate c then
    (c.ma.init P (k.source c.source)).bind fun m => .ok { cfg := c, ma := m, k_high := 1 + c.k, k_low := 1 - c.k }
  else .err .wrongConfig

def vals (s : Env) (k : Candle Rat) : Except Panic (List VExp × Env) := do
  let (v, m) ← maNext s.ma (k.source s.cfg.source)
  pure ([.price (v * s.k_high) (2 * maK s.ma), .price (v * s.k_low) (2 * maK s.ma), .exact (k.source s.cfg.source2)],
        { s with ma := m })

def sig (v : List Rat) : Action :=
  let src2 := v.getD 2 0
  Action.ofI8 (sgn (decide (src2 < v.getD 1 0)) - sgn (decide (v.getD 0 0 < src2)))
end Env

/-! ## Ichimoku Cloud -/
structure IchiCfg where
  l1 : Nat
  l2 : Nat
  l3 : Nat
  m : Nat
  source : Source
  deriving Repr

structure Ichi where
  cfg : IchiCfg
  h1 : Highest Rat
  h2 : Highest Rat
  h3 : Highest Rat
  lo1 : Lowest Rat
  lo2 : Lowest Rat
  lo3 : Lowest Rat
  w1 : Window Rat
  w2 : Window Rat
  cross1 : Cross Rat
  cross2 : Cross Rat

namespace Ichi
def validate (P : Nat) (c : IchiCfg) : Bool := c.l1 < c.l2 && c.l2 < c.l3 && c.m > 0 && c.m < P

def init (P : Nat) (c : IchiCfg) (k : Candle Rat) : Res Ichi :=
  if validate P c then
    (Highest.new P c.l1 k.high).bind fun a => (Highest.new P c.l2 k.high).bind fun b => (Highest.new P c.l3 k.high).bind fun d =>
    (Lowest.new P c.l1 k.low).bind fun e => (Lowest.new P c.l2 k.low).bind fun f => (Lowest.new P c.l3 k.low).bind fun g =>
    (winNew P c.m k.hl2).bind fun w1 => (winNew P c.m k.hl2).bind fun w2 =>
      .ok { cfg := c, h1 := a, h2 := b, h3 := d, lo1 := e, lo2 := f, lo3 := g, w1 := w1, w2 := w2,
            cross1 := Cross.default, cross2 := Cross.default }
  else .err .wrongConfig

def vals (s : Ichi) (k : Candle Rat) : Except Panic (List VExp × Ichi) := do
  let (a, h1) ← s.h1.next k.high
  let (e, l1) ← s.lo1.next k.low
  let (b, h2) ← s.h2.next k.high
  let (f, l2) ← s.lo2.next k.low
  let (d, h3) ← s.h3.next k.high
  let (g, l3) ← s.lo3.next k.low
  let tenkan := (a + e) * half
  let kijun := (b + f) * half
  let (spanA, w1) ← s.w1.push ((tenkan + kijun) * half)
  let (spanB, w2) ← s.w2.push ((d + g) * half)
  pure ([.price tenkan 1, .price kijun 1, .price spanA 1, .price spanB 1],
        { s with h1 := h1, h2 := h2, h3 := h3, lo1 := l1, lo2 := l2, lo3 := l3, w1 := w1, w2 := w2 })

def sigs (s : Ichi) (src : Rat) (v : List Rat) : List Action × Ichi :=
  let tenkan := v.getD 0 0
  let kijun := v.getD 1 0
  let a := v.getD 2 0
  let b := v.getD 3 0
  let (c1, x1) := s.cross1.next (tenkan, kijun)
  let (c2, x2) := s.cross2.next (src, kijun)
  let green := decide (b < a)
  let red := decide (a < b)
  let above := decide (a < src) && decide (b < src) && green
  let below := decide (src < a) && decide (src < b) && red
  let s1 : Int := sgn (above && c1 == Action.buyAll) - sgn (below && c1 == Action.sellAll)
  let s2 : Int := sgn (above && c2 == Action.buyAll) - sgn (below && c2 == Action.sellAll)
  ([Action.ofI8 s1, Action.ofI8 s2], { s with cross1 := x1, cross2 := x2 })
end Ichi

/-! ## Chaikin Money Flow -/
structure CMF where
  size : Nat
  adi : ADI Rat
  vol_sum : Rat
  window : Window Rat
  cross_over : Cross Rat

namespace CMF
def init (P : Nat) (size : Nat) (k : Candle Rat) : Res CMF :=
  if size > 1 && size < P then
    (ADI.new P size k).bind fun a => (winNew P size k.volume).bind fun w =>
      .ok { size := size, adi := a, vol_sum := k.volume * (size : Rat), window := w, cross_over := Cross.default }
  else .err .wrongConfig

def vals (s : CMF) (k : Candle Rat) : Except Panic (List VExp × CMF) := do
  let (adi, a) ← s.adi.next k
  let (old, w) ← s.window.push k.volume
  let vs := s.vol_sum + (k.volume - old)
  -- both sums are on the volume scale times the window length
  pure ([.quot adi vs (s.size : Rat) (s.size : Rat) .vol [] none], { s with adi := a, vol_sum := vs, window := w })

def sigs (s : CMF) (v : List Rat) : List Action × CMF :=
  let (x, c) := s.cross_over.next (v.getD 0 0, 0)
  ([x], { s with cross_over := c })
end CMF

/-! ## Money Flow Index -/
structure MFI where
  period : Nat
  zone : Rat
  window : Window (Candle Rat)
  prev_candle : Candle Rat
  last_prev_candle : Candle Rat
  pmf : Rat
  nmf : Rat
  cross_lower : Cross Rat
  cross_upper : Cross Rat

namespace MFI
def tfunc (c last : Candle Rat) : Rat × Rat :=
  ((if last.tp < c.tp then c.volume else 0), (if c.tp < last.tp then c.volume else 0))

def init (P : Nat) (period : Nat) (zone : Rat) (k : Candle Rat) : Res MFI :=
  if decide (0 ≤ zone) && decide (zone ≤ half) && period > 0 && period < P then
    (Res.ofExcept (Window.new P period k)).bind fun w =>
      .ok { period := period, zone := zone, window := w, prev_candle := k, last_prev_candle := k, pmf := 0, nmf := 0,
            cross_lower := Cross.default, cross_upper := Cross.default }
  else .err .wrongConfig

def vals (s : MFI) (k : Candle Rat) : Except Panic (List VExp × MFI) := do
  let (pos, neg) := tfunc k s.prev_candle
  let (last, w) ← s.window.push k
  let (lp, ln) := tfunc last s.last_prev_candle
  let pmf := s.pmf + (pos - lp)
  let nmf := s.nmf + (neg - ln)
  -- value = 1 - 1/(1 + pmf/nmf) = pmf/(pmf+nmf); 1/2 when nmf is exactly zero (mfr := 1)
  let n : Rat := (s.period : Rat)
  let value : VExp := .cquot pmf (pmf + nmf) n (2 * n) .vol [nmf] (some half) 0 1
  pure ([.exact (1 - s.zone), value, .exact s.zone],
        { s with window := w, last_prev_candle := last, prev_candle := k, pmf := pmf, nmf := nmf })

/-- the same step with the typical price supplied by the caller (the driver passes the price as the code forms it, every
    operation rounded: whether the typical price rose, fell or stayed is decided on those values; `valsF Candle.tp = vals`) -/
def tfuncF (tp : Candle Rat → Rat) (c last : Candle Rat) : Rat × Rat :=
  ((if tp last < tp c then c.volume else 0), (if tp c < tp last then c.volume else 0))

def valsF (tp : Candle Rat → Rat) (s : MFI) (k : Candle Rat) : Except Panic (List VExp × MFI) := do
  let (pos, neg) := tfuncF tp k s.prev_candle
  let (last, w) ← s.window.push k
  let (lp, ln) := tfuncF tp last s.last_prev_candle
  let pmf := s.pmf + (pos - lp)
  let nmf := s.nmf + (neg - ln)
  let n : Rat := (s.period : Rat)
  let value : VExp := .cquot pmf (pmf + nmf) n (2 * n) .vol [nmf] (some half) 0 1
  pure ([.exact (1 - s.zone), value, .exact s.zone],
        { s with window := w, last_prev_candle := last, prev_candle := k, pmf := pmf, nmf := nmf })

theorem valsF_tp (s : MFI) (k : Candle Rat) : valsF (fun c => c.tp) s k = vals s k := rfl

def sigs (s : MFI) (v : List Rat) (rnd : Rat → Rat := id) : List Action × MFI :=
  let value := v.getD 1 0
  let (cu, xu) := s.cross_upper.next (value, rnd (1 - s.zone))
  let (cl, xl) := s.cross_lower.next (value, s.zone)
  let u := cu.analog
  let l := cl.analog
  let enters : Int := sgn (decide (l < 0)) - sgn (decide (u > 0))
  let leaves : Int := sgn (decide (l > 0)) - sgn (decide (u < 0))
  ([Action.ofI8 enters, Action.ofI8 leaves], { s with cross_upper := xu, cross_lower := xl })
end MFI

/-! ## Chande Momentum Oscillator -/
structure CMOCfg where
  period : Nat
  zone : Rat
  source : Source
  deriving Repr

structure CMO where
  cfg : CMOCfg
  pos_sum : Rat
  neg_sum : Rat
  change : Momentum Rat
  window : Window Rat
  cross_under : CrossUnder Rat
  cross_above : CrossAbove Rat

namespace CMO
def init (P : Nat) (c : CMOCfg) (k : Candle Rat) : Res CMO :=
  if decide (0 ≤ c.zone) && decide (c.zone ≤ 1) && c.period > 1 && c.period < P then
    (Momentum.new P 1 (k.source c.source)).bind fun m => (winNew P c.period (0 : Rat)).bind fun w =>
      .ok { cfg := c, pos_sum := 0, neg_sum := 0, change := m, window := w, cross_under := ⟨0⟩, cross_above := ⟨0⟩ }
  else .err .wrongConfig

def posNeg (c : Rat) : Rat × Rat := ((if 0 < c then c else 0), (if c < 0 then -c else 0))

def vals (s : CMO) (k : Candle Rat) : Except Panic (List VExp × CMO) := do
  let (ch, m) ← s.change.next (k.source s.cfg.source)
  let (left, w) ← s.window.push ch
  let (lp, ln) := posNeg left
  let (rp, rn) := posNeg ch
  let p := s.pos_sum + (rp - lp)
  let n := s.neg_sum + (rn - ln)
  let len : Rat := (s.cfg.period : Rat)
  pure ([.cquot (p - n) (p + n) (4 * len) (4 * len) .price [] (some 0) (-1) 1], { s with pos_sum := p, neg_sum := n, change := m, window := w })

def sigs (s : CMO) (v : List Rat) : List Action × CMO :=
  let value := v.getD 0 0
  let (u, cu) := s.cross_under.next (value, -s.cfg.zone)
  let (a, ca) := s.cross_above.next (value, s.cfg.zone)
  ([Action.sub u a], { s with cross_under := cu, cross_above := ca })
end CMO

/-! ## True Strength Index / SMI Ergodic (both on the TSI method) -/
structure TSIxCfg where
  period1 : Nat
  period2 : Nat
  zone : Rat
  source : Source
  deriving Repr

structure TSIx where
  cfg : TSIxCfg
  tsi : TSI Rat
  smooth : M            -- EMA(period3) for TrueStrengthIndex, `signal` MA for SMIErgodic
  cross_under : CrossUnder Rat
  cross_above : CrossAbove Rat
  cross1 : Cross Rat
  cross2 : Cross Rat

namespace TSIx
def init (P : Nat) (c : TSIxCfg) (smooth : MA) (ok : Bool) (k : Candle Rat) : Res TSIx :=
  if ok && c.period2 > 1 && c.period2 ≤ c.period1 && c.period1 < P && smooth.period > 1 && smooth.period < P &&
      decide (0 ≤ c.zone) && decide (c.zone ≤ 1) then
    (TSI.new P c.period2 c.period1 (k.source c.source)).bind fun t => (smooth.init P (0 : Rat)).bind fun m =>
      .ok { cfg := c, tsi := t, smooth := m, cross_under := ⟨0⟩, cross_above := ⟨0⟩, cross1 := Cross.default, cross2 := Cross.default }
  else .err .wrongConfig

/-- [tsi, sig] (SMI adds tsi − sig) -/
def vals (s : TSIx) (k : Candle Rat) (f : Option (List Rat)) (smi : Bool) : Except Panic (List VExp × TSIx) := do
  let (_, t) := s.tsi.next (k.source s.cfg.source)
  let num := t.ema12.peek
  let den := t.ema22.peek
  let tsiV : Rat := if 0 < den then num / den else 0
  let fed := fb f 0 tsiV
  let (sig, m) ← maNext s.smooth fed
  let base : List VExp := [.quot num den 2 2 .price [] (some 0), .unit sig (2 * maK s.smooth)]
  pure (if smi then base ++ [.unit (fed - sig) (4 * maK s.smooth)] else base, { s with tsi := t, smooth := m })

def sigsTSI (s : TSIx) (v : List Rat) : List Action × TSIx :=
  let tsi := v.getD 0 0
  let sig := v.getD 1 0
  let (u, cu) := s.cross_under.next (tsi, -s.cfg.zone)
  let (a, ca) := s.cross_above.next (tsi, s.cfg.zone)
  let (s2, c1) := s.cross1.next (tsi, 0)
  let (s3, c2) := s.cross2.next (tsi, sig)
  ([Action.sub u a, s2, s3], { s with cross_under := cu, cross_above := ca, cross1 := c1, cross2 := c2 })

def sigsSMI (s : TSIx) (v : List Rat) : List Action × TSIx :=
  let tsi := v.getD 0 0
  let sig := v.getD 1 0
  let (x, c1) := s.cross1.next (tsi, sig)
  let cr := x.analog
  let s1 : Int := sgn (decide (cr > 0) && decide (sig < -s.cfg.zone)) - sgn (decide (cr < 0) && decide (s.cfg.zone < sig))
  ([Action.ofI8 s1], { s with cross1 := c1 })
end TSIx

/-! ## Parabolic SAR -/
structure SAR where
  af_step : Rat
  af_max : Rat
  trend : Int
  trend_inc : Nat
  low : Rat
  high : Rat
  sar : Rat
  prev_low : Rat
  prev_high : Rat
  prev_trend : Int

namespace SAR
def init (af_step af_max : Rat) (k : Candle Rat) : Res SAR :=
  if af_step < af_max then
    .ok { af_step := af_step, af_max := af_max, trend := 1, trend_inc := 1, low := k.low, high := k.high, sar := k.low,
          prev_low := k.low, prev_high := k.high, prev_trend := 0 }
  else .err .wrongConfig

/-- returns ([sar, trend], signal, state) -/
def next (s : SAR) (k : Candle Rat) : (List VExp × Action) × SAR :=
  let s1 : SAR :=
    if s.trend > 0 then
      let s' := if s.high < k.high then { s with high := k.high, trend_inc := s.trend_inc + 1 } else s
      if k.low < s'.sar then { s' with trend := -s'.trend, low := k.low, trend_inc := 1, sar := s'.high } else s'
    else if s.trend < 0 then
      let s' := if k.low < s.low then { s with low := k.low, trend_inc := s.trend_inc + 1 } else s
      if s'.sar < k.high then { s' with trend := -s'.trend, high := k.high, trend_inc := 1, sar := s'.low } else s'
    else s
  let trend := s1.trend
  let sar := s1.sar
  let af := smin s1.af_max (s1.af_step * (s1.trend_inc : Rat))
  let newSar :=
    if trend > 0 then smin (smin (af * (s1.high - sar) + sar) k.low) s1.prev_low
    else if trend < 0 then smax (smax (af * (s1.low - sar) + sar) k.high) s1.prev_high
    else sar
  let signal : Int := (if s1.prev_trend ≠ trend then 1 else 0) * trend
  (([.price sar 2, .exact (trend : Rat)], Action.ofI8 signal),
   { s1 with sar := newSar, prev_low := k.low, prev_high := k.high, prev_trend := trend })
end SAR

end Yata.Ind
