/-
  YataModel.Spec — from-scratch definitions ("documented formulas") the methods are compared
  with.  Everything is a plain function of the *history* (construction value repeated `n`
  times, then the inputs so far, oldest first); nothing is incremental.
-/
import YataModel.Scalar
namespace Yata.Spec
open Yata
variable {α : Type}
variable [Zero α] [One α] [Add α] [Sub α] [Mul α] [Div α] [Neg α] [NatCast α]
variable [LT α] [DecidableLT α] [LE α] [DecidableLE α]

/-- the last `n` values, construction value standing in before the stream began -/
def win (n : Nat) (v : α) (xs : List α) : List α := lastN n (history n v xs)

/-- arithmetic mean of a list of `n` values -/
def mean (n : Nat) (l : List α) : α := l.sum / (n : α)

/-- SMA -/
def sma (n : Nat) (v : α) (xs : List α) : α := mean n (win n v xs)

/-- weighted sum with weights `1, 2, …` from the oldest to the newest -/
def rampSum : Nat → List α → α
  | _, [] => 0
  | k, x :: l => ((k : Nat) : α) * x + rampSum (k + 1) l

/-- WMA: weights `n, n-1, …, 1` from the newest, divided by `n(n+1)/2` -/
def wma (n : Nat) (v : α) (xs : List α) : α :=
  rampSum 1 (win n v xs) / ((n * (n + 1) / 2 : Nat) : α)

/-- windowed sum -/
def integral (n : Nat) (v : α) (xs : List α) : α := (win n v xs).sum

/-- cumulative sum (length 0): everything since the start -/
def integral0 (xs : List α) : α := xs.sum

/-- the value `n` steps ago -/
def past (n : Nat) (v : α) (xs : List α) : α :=
  ((history n v xs).reverse[n]?).getD v

/-- newest value (the current input) -/
def cur (n : Nat) (v : α) (xs : List α) : α := ((history n v xs).getLast?).getD v

def momentum (n : Nat) (v : α) (xs : List α) : α := cur n v xs - past n v xs
def derivative (n : Nat) (v : α) (xs : List α) : α := (cur n v xs - past n v xs) / (n : α)
def roc (n : Nat) (v : α) (xs : List α) : α := (cur n v xs - past n v xs) / past n v xs

/-- sample variance (divisor `n-1`) of the last `n` values -/
def variance (n : Nat) (v : α) (xs : List α) : α :=
  let l := win n v xs
  let m := mean n l
  (l.map fun x => (x - m) * (x - m)).sum / ((n - 1 : Nat) : α)

/-- mean absolute deviation around the mean -/
def meanAbsDev (n : Nat) (v : α) (xs : List α) : α :=
  let l := win n v xs
  let m := mean n l
  (l.map fun x => sabs (x - m)).sum / (n : α)

/-- sum of absolute successive differences over the last `n` steps -/
def absDiffs : α → List α → List α
  | _, [] => []
  | p, x :: l => sabs (x - p) :: absDiffs x l

def linearVolatility (n : Nat) (v : α) (xs : List α) : α :=
  (lastN n (List.replicate n 0 ++ absDiffs v xs)).sum

/-- maximum / minimum of a non-empty list (numeric) -/
def maxL [Inhabited α] (l : List α) : α := l.tail.foldl smax l.head!
def minL [Inhabited α] (l : List α) : α := l.tail.foldl smin l.head!

/-- age (0 = newest) of the newest maximal element of `l` (oldest first) -/
def ageOfNewestMax : List α → Nat
  | l =>
    let r := l.reverse
    match r with
    | [] => 0
    | x :: rest => (rest.zipIdx 1).foldl (fun (acc : Nat × α) (b : α × Nat) =>
        if acc.2 < b.1 then (b.2, b.1) else acc) (0, x) |>.1

def ageOfNewestMin : List α → Nat
  | l =>
    let r := l.reverse
    match r with
    | [] => 0
    | x :: rest => (rest.zipIdx 1).foldl (fun (acc : Nat × α) (b : α × Nat) =>
        if b.1 < acc.2 then (b.2, b.1) else acc) (0, x) |>.1

/-- EMA recurrence with smoothing `a` over the whole stream -/
def emaRec (a : α) (v : α) : List α → α
  | [] => v
  | x :: xs => emaRec a ((x - v) * a + v) xs

/-- the series of values a spec `f` takes along the stream (one per prefix) -/
def series (f : List α → α) (xs : List α) : List α :=
  (List.range xs.length).map fun i => f (xs.take (i + 1))

/-- generic weighted mean of the last `n` values, weights given oldest → newest -/
def weighted (w : Nat → α) (l : List α) : α :=
  (l.zipIdx.map fun p => w p.2 * p.1).sum / ((List.range l.length).map w).sum

/-- SWMA: triangular weights `min(i+1, n-i)` (i = 0 oldest) -/
def swma (n : Nat) (v : α) (xs : List α) : α :=
  if n = 1 then cur n v xs
  else weighted (fun i => ((min (i + 1) (n - i) : Nat) : α)) (win n v xs)

/-- TRIMA: SMA of the SMA series (the inner series is `v` before the stream began) -/
def trima (n : Nat) (v : α) (xs : List α) : α := sma n v (series (sma n v) xs)

/-- HMA: `WMA(⌊√n⌋)` of `2·WMA(n/2) − WMA(n)` -/
def hma (n : Nat) (v : α) (xs : List α) : α :=
  wma (Nat.sqrt n) v (series (fun p => ((2 : Nat) : α) * wma (n / 2) v p - wma n v p) xs)

/-- least-squares line through the last `n` values at abscissae `-(n-1) … 0`, evaluated at `0`
    (the newest point) -/
def linreg (n : Nat) (v : α) (xs : List α) : α :=
  let l := win n v xs
  let nn : α := (n : α)
  let xsum : α := -(((List.range n).sum : Nat) : α)
  let x2sum : α := (((List.range n).map fun i => i * i).sum : Nat)
  let ysum := l.sum
  -- abscissa of element i (oldest = 0) is i - (n-1)
  let xysum := (l.zipIdx.map fun p => (((p.2 : Nat) : α) - ((n - 1 : Nat) : α)) * p.1).sum
  let k := (nn * xysum - xsum * ysum) / (nn * x2sum - xsum * xsum)
  (ysum - k * xsum) / nn

/-- Conv: weights are given oldest → newest; normalised by their sum -/
def conv (ws : List α) (v : α) (xs : List α) : α :=
  let l := win ws.length v xs
  (List.zipWith (fun x w => x * w) l ws).sum / ws.sum

/-- VWMA over the last `n` (price, volume) pairs -/
def vwma (n : Nat) (v : α × α) (xs : List (α × α)) : α :=
  let l := lastN n (history n v xs)
  (l.map fun p => p.1 * p.2).sum / (l.map fun p => p.2).sum

/-- ascending sort (core `List.mergeSort`, numeric order) -/
def sort (l : List α) : List α := l.mergeSort (fun a b => decide (a ≤ b))

/-- median of a list: mean of the two middle elements of the sorted list (the same element
    twice when the length is odd) -/
def median (l : List α) : α :=
  let s := sort l
  let n := l.length
  let half := n / 2
  let halfm1 := if n % 2 = 0 then half - 1 else half
  ((s[half]?.getD 0) + (s[halfm1]?.getD 0)) * (1 / ((2 : Nat) : α))

def smm (n : Nat) (v : α) (xs : List α) : α := median (win n v xs)

/-- median absolute deviation … around the median, averaged (as the crate defines it) -/
def medianAbsDev (n : Nat) (v : α) (xs : List α) : α :=
  let l := win n v xs
  let m := median l
  (l.map fun x => sabs (x - m)).sum / (n : α)

/-- CCI: (value − mean) / mean-absolute-deviation, `0` when the deviation is not positive -/
def cci (n : Nat) (v : α) (xs : List α) : α :=
  let d := meanAbsDev n v xs
  if 0 < d then (cur n v xs - sma n v xs) / d else 0

def highest [Inhabited α] (n : Nat) (v : α) (xs : List α) : α := maxL (win n v xs)
def lowest [Inhabited α] (n : Nat) (v : α) (xs : List α) : α := minL (win n v xs)
def highestIndex (n : Nat) (v : α) (xs : List α) : Nat := ageOfNewestMax (win n v xs)
def lowestIndex (n : Nat) (v : α) (xs : List α) : Nat := ageOfNewestMin (win n v xs)

/-! recursive methods -/
def ema (n : Nat) (v : α) (xs : List α) : α := emaRec (((2 : Nat) : α) / ((n + 1 : Nat) : α)) v xs
def rma (n : Nat) (v : α) (xs : List α) : α := emaRec (1 / (n : α)) v xs
def wsma (n : Nat) (v : α) (xs : List α) : α := emaRec (1 / (n : α)) v xs
def dma (n : Nat) (v : α) (xs : List α) : α := ema n v (series (ema n v) xs)
def tma (n : Nat) (v : α) (xs : List α) : α := ema n v (series (dma n v) xs)
def dema (n : Nat) (v : α) (xs : List α) : α := ((2 : Nat) : α) * ema n v xs - dma n v xs
def tema (n : Nat) (v : α) (xs : List α) : α :=
  ((3 : Nat) : α) * (ema n v xs - dma n v xs) + tma n v xs

/-- successive changes `x_k − x_{k−1}` with `x_{−1} = v` -/
def changes : α → List α → List α
  | _, [] => []
  | p, x :: l => (x - p) :: changes x l

/-- TSI: EMA_short(EMA_long(change)) / EMA_short(EMA_long(|change|)), all seeded with 0 -/
def tsi (short long : Nat) (v : α) (xs : List α) : α :=
  let ch := changes v xs
  let num := ema short 0 (series (ema long 0) ch)
  let den := ema short 0 (series (ema long 0) (ch.map sabs))
  if 0 < den then num / den else 0

def posPart (c : α) : α := if 0 < c then c else 0
def negPart (c : α) : α := if c < 0 then -c else 0

/-- Vidya: EMA whose smoothing `2/(n+1)` is scaled by |CMO| of the last `n` changes -/
def vidya [DecidableEq α] (n : Nat) (v : α) (xs : List α) : α :=
  let f : α := ((2 : Nat) : α) / ((n + 1 : Nat) : α)
  let ch := changes v xs
  -- fold over prefixes: (index, out)
  ((List.range xs.length).foldl (fun (out : α) i =>
    let x := xs[i]?.getD v
    let w := lastN n (List.replicate n 0 ++ ch.take (i + 1))
    let up := (w.map posPart).sum
    let dn := (w.map negPart).sum
    if up + dn = 0 then x
    else
      let cmo := sabs ((up - dn) / (up + dn))
      x * (f * cmo) + (1 - f * cmo) * out) v)

end Yata.Spec
