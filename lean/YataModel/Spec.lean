/-
  YataModel.Spec — from-scratch definitions ("documented formulas") the methods are compared
  with.  Everything is a plain function of the *history* (construction value repeated `n`
  times, then the inputs so far, oldest first); nothing is incremental.
-/
import YataModel.Scalar
namespace Yata.Spec
open Yata
variable {α : Type}
variable [Zero α] [One α] [Add α] [Sub α] [Mul α] [Div α] [Neg α] [NatCast α]
variable [LT α] [DecidableLT α] [LE α] [DecidableLE α]

/-- the last `n` values, construction value standing in before the stream began -/
def win (n : Nat) (v : α) (xs : List α) : List α := lastN n (history n v xs)

/-- arithmetic mean of a list of `n` values -/
def mean (n : Nat) (l : List α) : α := l.sum / (n : α)

/-- SMA -/
def sma (n : Nat) (v : α) (xs : List α) : α := mean n (win n v xs)

/-- weighted sum with weights `1, 2, …` from the oldest to the newest -/
def rampSum : Nat → List α → α
  | _, [] => 0
  | k, x :: l => ((k : Nat) : α) * x + rampSum (k + 1) l

/-- WMA: weights `n, n-1, …, 1` from the newest, divided by `n(n+1)/2` -/
def wma (n : Nat) (v : α) (xs : List α) : α :=
  rampSum 1 (win n v xs) / ((n * (n + 1) / 2 : Nat) : α)

/-- windowed sum -/
def integral (n : Nat) (v : α) (xs : List α) : α := (win n v xs).sum

/-- cumulative sum (length 0): everything since the start -/
def integral0 (xs : List α) : α := xs.sum

/-- the value `n` steps ago -/
def past (n : Nat) (v : α) (xs : List α) : α :=
  ((history n v xs).reverse[n]?).getD v

/-- newest value (the current input) -/
def cur (n : Nat) (v : α) (xs : List α) : α := ((history n v xs).getLast?).getD v

def momentum (n : Nat) (v : α) (xs : List α) : α := cur n v xs - past n v xs
def derivative (n : Nat) (v : α) (xs : List α) : α := (cur n v xs - past n v xs) / (n : α)
def roc (n : Nat) (v : α) (xs : List α) : α := (cur n v xs - past n v xs) / past n v xs

/-- sample variance (divisor `n-1`) of the last `n` values -/
def variance (n : Nat) (v : α) (xs : List α) : α :=
  let l := win n v xs
  let m := mean n l
  (l.map fun x => (x - m) * (x - m)).sum / ((n - 1 : Nat) : α)

/-- mean absolute deviation around the mean -/
def meanAbsDev (n : Nat) (v : α) (xs : List α) : α :=
  let l := win n v xs
  let m := mean n l
  (l.map fun x => sabs (x - m)).sum / (n : α)

/-- sum of absolute successive differences over the last `n` steps -/
def absDiffs : α → List α → List α
  | _, [] => []
  | p, x :: l => sabs (x - p) :: absDiffs x l

def linearVolatility (n : Nat) (v : α) (xs : List α) : α :=
  (lastN n (List.replicate n 0 ++ absDiffs v xs)).sum

/-- maximum / minimum of a non-empty list (numeric) -/
def maxL [Inhabited α] (l : List α) : α := l.tail.foldl smax l.head!
def minL [Inhabited α] (l : List α) : α := l.tail.foldl smin l.head!

/-- age (0 = newest) of the newest maximal element of `l` (oldest first) -/
def ageOfNewestMax : List α → Nat
  | l =>
    let r := l.reverse
    match r with
    | [] => 0
    | x :: rest => (rest.zipIdx 1).foldl (fun (acc : Nat × α) (b : α × Nat) =>
        if acc.2 < b.1 then (b.2, b.1) else acc) (0, x) |>.1

def ageOfNewestMin : List α → Nat
  | l =>
    let r := l.reverse
    match r with
    | [] => 0
    | x :: rest => (rest.zipIdx 1).foldl (fun (acc : Nat × α) (b : α × Nat) =>
        if b.1 < acc.2 then (b.2, b.1) else acc) (0, x) |>.1

/-- EMA recurrence with smoothing `a` over the whole stream -/
def emaRec (a : α) (v : α) : List α → α
  | [] => v
  | x :: xs => emaRec a ((x - v) * a + v) xs

end Yata.Spec
