/-
  YataModel.Window — line-for-line model of `src/core/window.rs` (struct `Window<T>`,
  `WindowIterator`, `ReversedWindowIterator`, serde impls).

  `buf : Box<[T]>` is a `List α`; `index/size/s_1 : PeriodType` are `Nat` with the maximum
  `P` passed where saturation/limits matter.  Every Rust panic site is an `Except Panic`.
-/
import YataModel.Basic
namespace Yata

structure Window (α : Type) where
  buf   : List α
  index : Nat
  size  : Nat
  s_1   : Nat
  deriving Repr, DecidableEq

namespace Window
variable {α : Type}

/-- `Window::new(size, value)`; the `debug_assert!(size <= PeriodType::MAX - 1)` is a panic. -/
def new (P : Nat) (size : Nat) (value : α) : Except Panic (Window α) :=
  if size ≤ P - 1 then
    .ok { buf := List.replicate size value, index := 0, size := size, s_1 := satSub size 1 }
  else .error .assertFailed

/-- `Window::from_parts(slice, index)` with its two `assert!`s
    (after the `fix:` commit the empty slice with index 0 is accepted). -/
def fromParts (P : Nat) (slice : List α) (index : Nat) : Except Panic (Window α) :=
  if ¬ (slice.length < P) then .error .assertFailed
  else if ¬ (slice.length > index ∨ (slice.isEmpty ∧ index = 0)) then .error .assertFailed
  else .ok { buf := slice, index := index, size := slice.length, s_1 := satSub slice.length 1 }

/-- `Window::empty()` -/
def empty : Window α := { buf := [], index := 0, size := 0, s_1 := 0 }

def isEmpty (w : Window α) : Bool := w.buf.isEmpty

def len (w : Window α) : Nat := w.size

def asSlice (w : Window α) : List α := w.buf

/-- `Window::push`: replace `buf[index]`, advance `index` with the branch-less wrap. -/
def push (w : Window α) (x : α) : Except Panic (α × Window α) :=
  if w.buf.isEmpty then .error .emptyWindow
  else match w.buf[w.index]? with
    | none => .error .indexOOB
    | some old =>
      .ok (old, { w with buf := w.buf.set w.index x,
                         index := (if w.index ≠ w.s_1 then 1 else 0) * (w.index + 1) })

/-- `Window::newest` -/
def newest (w : Window α) : Except Panic α :=
  let i := (checkedSub w.index 1).getD w.s_1
  match w.buf[i]? with
  | some v => .ok v
  | none => .error .indexOOB

/-- `Window::oldest` -/
def oldest (w : Window α) : Except Panic α :=
  match w.buf[w.index]? with
  | some v => .ok v
  | none => .error .indexOOB

/-- `Window::slice_index` (private): `None` when `index > s_1`;
    the `self.size - self.index` subtraction can underflow only when the invariant is broken. -/
def sliceIndex (P : Nat) (w : Window α) (index : Nat) : Except Panic (Option Nat) :=
  match checkedSub w.s_1 index with
  | none => .ok none
  | some idx =>
    let saturated := satAdd P w.index idx
    let overflow := if saturated ≥ w.size then 1 else 0
    match chkSub w.size w.index with
    | .error e => .error e
    | .ok s => .ok (some (overflow * satSub idx s + (1 - overflow) * saturated))

/-- `Window::get(index)` -/
def get (P : Nat) (w : Window α) (index : Nat) : Except Panic (Option α) :=
  match sliceIndex P w index with
  | .error e => .error e
  | .ok none => .ok none
  | .ok (some bi) => .ok w.buf[bi]?

/-- `impl Index<PeriodType> for Window` -/
def idx (P : Nat) (w : Window α) (index : Nat) : Except Panic α :=
  match sliceIndex P w index with
  | .error e => .error e
  | .ok none => .error .indexOOB
  | .ok (some bi) =>
    match w.buf[bi]? with
    | some v => .ok v
    | none => .error .indexOOB

/-! ### Iterators: cursor = (index, size); the window is immutable while iterating. -/

structure Iter where
  index : Nat
  size  : Nat
  deriving Repr, DecidableEq

/-- `Window::iter()` / `Window::iter_rev()` both start at `(window.index, window.size)`. -/
def iterStart (w : Window α) : Iter := { index := w.index, size := w.size }

/-- `WindowIterator::next` (newest → oldest). -/
def iterNext (w : Window α) (it : Iter) : Except Panic (Option (α × Iter)) :=
  if it.size = 0 then .ok none
  else
    let atStart := if it.index = 0 then 1 else 0
    let index := satSub it.index 1 + atStart * w.s_1
    match w.buf[index]? with
    | none => .error .indexOOB
    | some v => .ok (some (v, { index := index, size := it.size - 1 }))

/-- `ReversedWindowIterator::next` (oldest → newest). -/
def iterRevNext (w : Window α) (it : Iter) : Except Panic (Option (α × Iter)) :=
  if it.size = 0 then .ok none
  else match w.buf[it.index]? with
    | none => .error .indexOOB
    | some v =>
      let notAtEnd := if it.index ≠ w.s_1 then 1 else 0
      .ok (some (v, { index := (it.index + 1) * notAtEnd, size := it.size - 1 }))

def iterSizeHint (it : Iter) : Nat × Option Nat := (it.size, some it.size)
def iterCount (it : Iter) : Nat := it.size

/-- `WindowIterator::last` (after the `fix:` commit: `None` once exhausted). -/
def iterLast (w : Window α) (it : Iter) : Except Panic (Option α) :=
  if it.size = 0 then .ok none else (oldest w).map some

/-- `ReversedWindowIterator::last` -/
def iterRevLast (w : Window α) (it : Iter) : Except Panic (Option α) :=
  if it.size = 0 then .ok none else (newest w).map some

/-- run an iterator to exhaustion with fuel (the iterator yields at most `size` items) -/
def iterCollect (w : Window α) : Nat → Iter → Except Panic (List α)
  | 0, _ => .ok []
  | fuel + 1, it =>
    match iterNext w it with
    | .error e => .error e
    | .ok none => .ok []
    | .ok (some (v, it')) =>
      match iterCollect w fuel it' with
      | .error e => .error e
      | .ok l => .ok (v :: l)

def iterRevCollect (w : Window α) : Nat → Iter → Except Panic (List α)
  | 0, _ => .ok []
  | fuel + 1, it =>
    match iterRevNext w it with
    | .error e => .error e
    | .ok none => .ok []
    | .ok (some (v, it')) =>
      match iterRevCollect w fuel it' with
      | .error e => .error e
      | .ok l => .ok (v :: l)

/-- advance an iterator `j` times (dropping the items) -/
def iterAdvance (w : Window α) : Nat → Iter → Except Panic Iter
  | 0, it => .ok it
  | j + 1, it =>
    match iterNext w it with
    | .error e => .error e
    | .ok none => .ok it
    | .ok (some (_, it')) => iterAdvance w j it'

def iterRevAdvance (w : Window α) : Nat → Iter → Except Panic Iter
  | 0, it => .ok it
  | j + 1, it =>
    match iterRevNext w it with
    | .error e => .error e
    | .ok none => .ok it
    | .ok (some (_, it')) => iterRevAdvance w j it'

/-! ### serde: `Serialize` writes `(buf, index)`; `Deserialize` validates and calls `from_parts`. -/

inductive DeErr where
  | tooLong | indexOut
  deriving Repr, DecidableEq

def serialize (w : Window α) : List α × Nat := (w.buf, w.index)

/-- `Deserialize for Window`: two bound checks, then `from_parts`
    (after the `fix:` commit an empty buffer with index 0 is accepted and restores `Window::empty()`) -/
def deserialize (P : Nat) (d : List α × Nat) : Except DeErr (Except Panic (Window α)) :=
  let (buf, index) := d
  if buf.length > P - 1 then .error .tooLong
  else if buf.length ≤ index ∧ ¬ (buf.isEmpty ∧ index = 0) then .error .indexOut
  else .ok (fromParts P buf index)

/-- push a whole list, collecting the evicted elements -/
def pushAll (w : Window α) : List α → Except Panic (List α × Window α)
  | [] => .ok ([], w)
  | x :: xs =>
    match push w x with
    | .error e => .error e
    | .ok (old, w') =>
      match pushAll w' xs with
      | .error e => .error e
      | .ok (olds, w'') => .ok (old :: olds, w'')

/-! ### abstraction -/

/-- contents, oldest first -/
def toList (w : Window α) : List α := w.buf.drop w.index ++ w.buf.take w.index

/-- representation invariant -/
structure Inv (P : Nat) (w : Window α) : Prop where
  size_eq : w.size = w.buf.length
  s1_eq   : w.s_1 = w.size - 1
  idx_lt  : w.index < w.size ∨ (w.size = 0 ∧ w.index = 0)
  size_le : w.size ≤ P - 1

end Window
end Yata
