/-
  YataModel.Candle — `src/core/ohlcv.rs` (trait OHLCV default methods), `src/core/candles.rs`
  (`Candle`, `Source`, `Candle + Candle`).
-/
import YataModel.Scalar
namespace Yata

structure Candle (α : Type) where
  open_ : α
  high : α
  low : α
  close : α
  volume : α
  deriving Repr, DecidableEq

inductive Source where
  | close | open_ | high | low | hl2 | tp | volume | volumedPrice
  deriving Repr, DecidableEq, Inhabited

namespace Source
/-- `impl From<Source> for &'static str` -/
def toStr : Source → String
  | close => "close" | high => "high" | low => "low" | open_ => "open"
  | tp => "tp" | hl2 => "hl2" | volume => "volume" | volumedPrice => "volumed_price"

/-- `FromStr for Source` on an already lower-cased and trimmed string -/
def ofLower (s : String) : Option Source :=
  if s = "close" then some close
  else if s = "high" then some high
  else if s = "low" then some low
  else if s = "volume" then some volume
  else if s = "tp" ∨ s = "hlc3" then some tp
  else if s = "hl2" then some hl2
  else if s = "open" then some open_
  else if s = "volumed_price" then some volumedPrice
  else none

def all : List Source := [close, open_, high, low, hl2, tp, volume, volumedPrice]
end Source

namespace Candle
variable {α : Type}
variable [Zero α] [One α] [Add α] [Sub α] [Mul α] [Div α] [Neg α] [NatCast α]
variable [LT α] [DecidableLT α] [LE α] [DecidableLE α]

def tp (c : Candle α) : α := (c.high + c.low + c.close) / ((3 : Nat) : α)
def hl2 (c : Candle α) : α := (c.high + c.low) * (1 / ((2 : Nat) : α))
def ohlc4 (c : Candle α) : α := (c.high + c.low + c.close + c.open_) * (1 / ((4 : Nat) : α))

/-- `clv`: `0` on a zero range, else `(2*close - low - high) / (high - low)` -/
def clv [DecidableEq α] (c : Candle α) : α :=
  if c.high = c.low then 0
  else ((((2 : Nat) : α) * c.close + (-c.low)) - c.high) / (c.high - c.low)

/-- single-subtraction true range -/
def trClose (c : Candle α) (prevClose : α) : α := smax c.high prevClose - smin c.low prevClose

def volumedPrice (c : Candle α) : α := c.tp * c.volume

def source (c : Candle α) : Source → α
  | .close => c.close | .high => c.high | .low => c.low | .tp => c.tp | .hl2 => c.hl2
  | .volume => c.volume | .volumedPrice => c.volumedPrice | .open_ => c.open_

def isRising (c : Candle α) : Bool := decide (c.open_ < c.close)
def isFalling (c : Candle α) : Bool := decide (c.close < c.open_)

/-- `OHLCV::validate` on finite fields (after the `fix:` commit `open` is checked against
    `high`/`low` as well); the finiteness / NaN-volume clauses live in the bit-level wrapper -/
def validateFinite (c : Candle α) : Bool :=
  !(decide (c.high < c.close) || decide (c.close < c.low) || decide (c.high < c.low)
      || decide (c.high < c.open_) || decide (c.open_ < c.low))
    && decide (0 < c.close) && decide (0 < c.open_) && decide (0 < c.high) && decide (0 < c.low)
    && decide (0 ≤ c.volume)

/-- `impl Add<T: OHLCV> for Candle` -/
def add (a b : Candle α) : Candle α :=
  { a with high := smax a.high b.high, low := smin a.low b.low, close := b.close,
           volume := a.volume + b.volume }

end Candle
end Yata
