/-
  YataModel.Indicators2 — second tier of indicator models (src/indicators/*.rs), same conventions as
  YataModel/Indicators.lean: `vals` (exact values; later stages optionally fed the implementation's
  earlier values) and `sigs` (the documented rule as a function of the value list).

  Scales that are products / quotients of prices and volumes are carried by the model itself
  (`Scale.abs m`, `m` = running maximum of the absolute inputs of the averaging stage).
-/
import YataModel.Indicators
namespace Yata.Ind
open Yata

def rabs (q : Rat) : Rat := if q < 0 then -q else q
def rmax (a b : Rat) : Rat := if a < b then b else a
def rmin (a b : Rat) : Rat := if b < a then b else a

def signi (q : Rat) : Int := sgn (decide (0 < q)) - sgn (decide (q < 0))

/-- `is_similar_to`: same kind of average -/
def MA.similar (a b : MA) : Bool := a.kind == b.kind

/-- saturating `u8` counter increment -/
def satInc (c : Nat) (b : Bool) : Nat := if b then (if c ≥ 255 then 255 else c + 1) else c

/-! ## Awesome Oscillator -/
structure AOCfg where
  ma1 : MA
  ma2 : MA
  source : Source
  left : Nat
  right : Nat
  conseq_peaks : Nat
  deriving Repr

structure AO where
  cfg : AOCfg
  ma1 : M
  ma2 : M
  cross_over : Cross Rat
  reverse : ReversalSignal Rat
  low_peaks : Nat
  high_peaks : Nat

namespace AO
def validate (P : Nat) (c : AOCfg) : Bool :=
  c.ma1.period > 2 && MA.similar c.ma1 c.ma2 && c.ma1.period < P && c.ma1.period > c.ma2.period && c.ma2.period > 1 &&
    c.left > 0 && c.right > 0 && c.conseq_peaks > 0 && satAdd P c.left c.right < P

def init (P : Nat) (c : AOCfg) (k : Candle Rat) : Res AO :=
  if validate P c then
    let src := k.source c.source
    (c.ma1.init P src).bind fun a => (c.ma2.init P src).bind fun b => (ReversalSignal.new P c.left c.right (0 : Rat)).bind fun r =>
      .ok { cfg := c, ma1 := a, ma2 := b, cross_over := Cross.default, reverse := r, low_peaks := 0, high_peaks := 0 }
  else .err .wrongConfig

def vals (s : AO) (k : Candle Rat) : Except Panic (List VExp × AO) := do
  let src := k.source s.cfg.source
  let (a, m1) ← maNext s.ma1 src
  let (b, m2) ← maNext s.ma2 src
  pure ([.price (b - a) (maK s.ma1 + maK s.ma2)], { s with ma1 := m1, ma2 := m2 })

def sigs (s : AO) (v : List Rat) : Except Panic (List Action × AO) := do
  let value := v.getD 0 0
  let (ra, rev) ← s.reverse.next value
  let reverse := ra.analog
  let hp := satInc s.high_peaks (decide (reverse > 0))
  let lp := satInc s.low_peaks (decide (reverse < 0))
  let s1 : Int := sgn (decide (reverse < 0) && decide (lp ≥ s.cfg.conseq_peaks)) -
    sgn (decide (reverse > 0) && decide (hp ≥ s.cfg.conseq_peaks))
  let (s2, co) := s.cross_over.next (value, 0)
  pure ([Action.ofI8 s1, s2],
    { s with reverse := rev, cross_over := co, high_peaks := if 0 ≤ value then hp else 0, low_peaks := if value ≤ 0 then lp else 0 })
end AO

/-! ## Chaikin Oscillator -/
structure ChaikinOsc where
  ma1 : M
  ma2 : M
  adi : ADI Rat
  cross_over : Cross Rat
  mag : Rat

namespace ChaikinOsc
def init (P : Nat) (m1 m2 : MA) (window : Nat) (k : Candle Rat) : Res ChaikinOsc :=
  if MA.similar m1 m2 && m1.period > 0 && m1.period < m2.period && m2.period < P then
    (ADI.new P window k).bind fun a => (m1.init P a.peek).bind fun x => (m2.init P a.peek).bind fun y =>
      .ok { ma1 := x, ma2 := y, adi := a, cross_over := Cross.default, mag := rabs a.peek }
  else .err .wrongConfig

def vals (s : ChaikinOsc) (k : Candle Rat) : Except Panic (List VExp × ChaikinOsc) := do
  let (adi, a) ← s.adi.next k
  let (d1, m1) ← maNext s.ma1 adi
  let (d2, m2) ← maNext s.ma2 adi
  let mag := rmax s.mag (rabs adi)
  pure ([.approx (d1 - d2) (2 * (maK s.ma1 + maK s.ma2)) (.abs mag)], { s with adi := a, ma1 := m1, ma2 := m2, mag := mag })

def sigs (s : ChaikinOsc) (v : List Rat) : List Action × ChaikinOsc :=
  let (x, c) := s.cross_over.next (v.getD 0 0, 0)
  ([x], { s with cross_over := c })
end ChaikinOsc

/-! ## Commodity Channel Index (indicator) / Woodies CCI -/
/-- `1.0 / 1.5` as the code's constant (its binary64 value is supplied by the caller) -/
structure CCIInd where
  zone : Rat
  source : Source
  scale : Rat
  cci : CCI Rat
  last_cci : Rat
  last_signal : Int

namespace CCIInd
def init (P : Nat) (period : Nat) (zone : Rat) (source : Source) (scale : Rat) (k : Candle Rat) : Res CCIInd :=
  if decide (0 ≤ zone) && period > 1 && period < P then
    (CCI.new P period (k.source source)).bind fun c =>
      .ok { zone := zone, source := source, scale := scale, cci := c, last_cci := 0, last_signal := 0 }
  else .err .wrongConfig

/-- the CCI value as a guarded quotient `(x − mean)·scale / mad` -/
def cciExp (c : CCI Rat) (x : Rat) (scale : Rat) : Except Panic (VExp × CCI Rat) :=
  match c.mad.next x with
  | .error e => .error e
  | .ok (mean, mad) =>
    let ma := mad.sma.peek
    .ok (.quot ((x - ma) * scale) mean 4 4 .price [] (some 0), { mad := mad })

def vals (s : CCIInd) (k : Candle Rat) : Except Panic (List VExp × CCIInd) := do
  let (e, c) ← cciExp s.cci (k.source s.source) s.scale
  pure ([e], { s with cci := c })

def sigs (s : CCIInd) (v : List Rat) : List Action × CCIInd :=
  let cci := v.getD 0 0
  let t : Int := sgn (decide (cci < -s.zone) && decide (-s.zone ≤ s.last_cci)) -
    sgn (decide (s.zone < cci) && decide (s.last_cci ≤ s.zone))
  let signal : Int := (if t ≠ 0 ∧ s.last_signal ≠ t then 1 else 0) * t
  ([Action.ofI8 signal], { s with last_cci := cci, last_signal := signal })
end CCIInd

structure Woodies where
  s1_lag : Nat
  source : Source
  scale : Rat
  turbo : CCI Rat
  trend : CCI Rat
  s1_count : Int
  s1_cross : Cross Rat

namespace Woodies
def init (P : Nat) (p1 p2 lag : Nat) (source : Source) (scale : Rat) (k : Candle Rat) : Res Woodies :=
  if p1 < p2 && lag > 0 && p2 < P && lag < P then
    (CCI.new P p1 (k.source source)).bind fun a => (CCI.new P p2 (k.source source)).bind fun b =>
      .ok { s1_lag := lag, source := source, scale := scale, turbo := a, trend := b, s1_count := 0, s1_cross := Cross.default }
  else .err .wrongConfig

def vals (s : Woodies) (k : Candle Rat) : Except Panic (List VExp × Woodies) := do
  let x := k.source s.source
  let (e1, a) ← CCIInd.cciExp s.turbo x s.scale
  let (e2, b) ← CCIInd.cciExp s.trend x s.scale
  pure ([e1, e2], { s with turbo := a, trend := b })

def sigs (s : Woodies) (v : List Rat) : List Action × Woodies :=
  let trend := v.getD 1 0
  let (x, c) := s.s1_cross.next (trend, 0)
  let cr := x.analog
  let cnt : Int := if cr = 0 then s.s1_count + signi trend else cr
  -- documented rule: the trend CCI has stayed on one side of zero for `s1_lag` bars (the count is signed)
  let s1 : Int := (if cnt.natAbs = s.s1_lag then 1 else 0) * Int.sign cnt
  ([Action.ofI8 s1], { s with s1_cross := c, s1_count := cnt })
end Woodies

/-! ## Coppock curve -/
structure Coppock where
  source : Source
  roc1 : RateOfChange Rat
  roc2 : RateOfChange Rat
  ma1 : M
  ma2 : M
  cross_over1 : Cross Rat
  pivot : ReversalSignal Rat
  cross_over2 : Cross Rat
  mag : Rat

namespace Coppock
def init (P : Nat) (m1 s3 : MA) (p2 p3 l r : Nat) (source : Source) (k : Candle Rat) : Res Coppock :=
  if m1.period > 1 && p2 > p3 && p2 < P && p3 > 0 && s3.period > 1 && l > 0 && r > 0 && satAdd P l r < P then
    let src := k.source source
    (RateOfChange.new P p2 src).bind fun a => (RateOfChange.new P p3 src).bind fun b =>
    (m1.init P (0 : Rat)).bind fun x => (s3.init P (0 : Rat)).bind fun y =>
    (ReversalSignal.new P l r (0 : Rat)).bind fun pv =>
      .ok { source := source, roc1 := a, roc2 := b, ma1 := x, ma2 := y, cross_over1 := Cross.default, pivot := pv,
            cross_over2 := Cross.default, mag := 0 }
  else .err .wrongConfig

def vals (s : Coppock) (k : Candle Rat) (f : Option (List Rat)) : Except Panic (List VExp × Coppock) := do
  let src := k.source s.source
  let (r1, a) ← s.roc1.next src
  let (r2, b) ← s.roc2.next src
  let mag := rmax s.mag (rabs (r1 + r2))
  let (v1, x) ← maNext s.ma1 (r1 + r2)
  let (v2, y) ← maNext s.ma2 (fb f 0 v1)
  pure ([.approx v1 (4 * maK s.ma1) (.abs mag), .approx v2 (4 * maK s.ma2 * maK s.ma1) (.abs mag)],
    { s with roc1 := a, roc2 := b, ma1 := x, ma2 := y, mag := mag })

/-- a relative change of a zero quantity is about to be taken: the formula is undefined from here on -/
def undefinedNext (s : Coppock) : Bool :=
  (match s.roc1.window.oldest with | .ok o => o == 0 | _ => false) || (match s.roc2.window.oldest with | .ok o => o == 0 | _ => false)

def sigs (s : Coppock) (v : List Rat) : Except Panic (List Action × Coppock) := do
  let v1 := v.getD 0 0
  let v2 := v.getD 1 0
  let (s1, c1) := s.cross_over1.next (v1, 0)
  let (s2, pv) ← s.pivot.next v1
  let (s3, c2) := s.cross_over2.next (v1, v2)
  pure ([s1, s2, s3], { s with cross_over1 := c1, pivot := pv, cross_over2 := c2 })
end Coppock

/-! ## Detrended price oscillator -/
structure DPO where
  source : Source
  sma : M
  window : Window Rat

namespace DPO
def init (P : Nat) (ma : MA) (source : Source) (k : Candle Rat) : Res DPO :=
  if ma.period > 1 && ma.period < P then
    let src := k.source source
    (ma.init P src).bind fun m => (winNew P (ma.period / 2 + 1) src).bind fun w => .ok { source := source, sma := m, window := w }
  else .err .wrongConfig

def vals (s : DPO) (k : Candle Rat) : Except Panic (List VExp × DPO) := do
  let src := k.source s.source
  let (sma, m) ← maNext s.sma src
  let (left, w) ← s.window.push src
  pure ([.price (left - sma) (1 + maK s.sma)], { s with sma := m, window := w })
end DPO

/-! ## Ease of movement -/
structure EoM where
  m1 : M
  w : Window (Candle Rat)
  cross : Cross Rat
  mag : Rat

namespace EoM
def init (P : Nat) (ma : MA) (period2 : Nat) (k : Candle Rat) : Res EoM :=
  if ma.period > 1 && ma.period < P && period2 ≥ 1 && period2 < P then
    (ma.init P (0 : Rat)).bind fun m => (Res.ofExcept (Window.new P period2 k)).bind fun w =>
      .ok { m1 := m, w := w, cross := Cross.new (0, 0), mag := 0 }
  else .err .wrongConfig

def vals (s : EoM) (k : Candle Rat) : Except Panic (List VExp × EoM) := do
  let (prev, w) ← s.w.push k
  let d := ((k.high - prev.high) + (k.low - prev.low)) * half
  let v := if k.volume == 0 then 0 else d * (k.high - k.low) / k.volume
  let mag := rmax s.mag (rabs v)
  let (value, m) ← maNext s.m1 v
  pure ([.approx value (4 * maK s.m1) (.abs mag)], { s with m1 := m, w := w, mag := mag })

def sigs (s : EoM) (v : List Rat) : List Action × EoM :=
  let (x, c) := s.cross.next (v.getD 0 0, 0)
  ([x], { s with cross := c })
end EoM

/-! ## Elder's force index -/
structure EFI where
  source : Source
  ma : M
  window : Window (Candle Rat)
  vol_sum : Rat
  cross_over : Cross Rat
  mag : Rat

namespace EFI
def init (P : Nat) (ma : MA) (period2 : Nat) (source : Source) (k : Candle Rat) : Res EFI :=
  if ma.period > 1 && period2 ≥ 1 && period2 < P then
    (ma.init P (0 : Rat)).bind fun m => (Res.ofExcept (Window.new P period2 k)).bind fun w =>
      .ok { source := source, ma := m, window := w, vol_sum := k.volume * (period2 : Rat), cross_over := Cross.default, mag := 0 }
  else .err .wrongConfig

def vals (s : EFI) (k : Candle Rat) : Except Panic (List VExp × EFI) := do
  let (left, w) ← s.window.push k
  let vs := s.vol_sum + (k.volume - left.volume)
  let r := (k.source s.source - left.source s.source) * vs
  let mag := rmax s.mag (rmax (rabs r) (rabs (k.source s.source) * rabs vs))
  let (value, m) ← maNext s.ma r
  pure ([.approx value (4 * maK s.ma) (.abs mag)], { s with ma := m, window := w, vol_sum := vs, mag := mag })

def sigs (s : EFI) (v : List Rat) : List Action × EFI :=
  let (x, c) := s.cross_over.next (v.getD 0 0, 0)
  ([x], { s with cross_over := c })
end EFI

/-! ## Hull moving average (indicator) -/
structure HullInd where
  source : Source
  hma : HMA Rat
  pivot : ReversalSignal Rat

namespace HullInd
def init (P : Nat) (period l r : Nat) (source : Source) (k : Candle Rat) : Res HullInd :=
  if period > 2 && l ≥ 1 && r ≥ 1 && satAdd P l r < P then
    let src := k.source source
    (HMA.new P period src).bind fun h => (ReversalSignal.new P l r src).bind fun pv => .ok { source := source, hma := h, pivot := pv }
  else .err .wrongConfig

def vals (s : HullInd) (k : Candle Rat) : Except Panic (List VExp × HullInd) := do
  let (v, h) ← s.hma.next (k.source s.source)
  pure ([.price v 3], { s with hma := h })

def sigs (s : HullInd) (v : List Rat) : Except Panic (List Action × HullInd) := do
  let (a, pv) ← s.pivot.next (v.getD 0 0)
  pure ([a], { s with pivot := pv })
end HullInd

/-! ## Kaufman adaptive moving average -/
structure KaufmanCfg where
  period1 : Nat
  period2 : Nat
  period3 : Nat
  filter_period : Nat
  square_smooth : Bool
  k : Rat
  source : Source
  deriving Repr

structure Kaufman where
  cfg : KaufmanCfg
  volatility : LinearVolatility Rat
  change : Momentum Rat
  fastest : Rat
  slowest : Rat
  st_dev : StDev Rat
  cross : Cross Rat
  last_signal : Action
  last_signal_value : Rat
  prev_value : Rat

namespace Kaufman
def init (P : Nat) (c : KaufmanCfg) (k : Candle Rat) : Res Kaufman :=
  if c.period3 > c.period2 && c.period3 < P && c.period2 > 0 && c.period1 > 0 && (decide (0 < c.k) || c.filter_period < 2) then
    let src := k.source c.source
    (LinearVolatility.new P c.period1 src).bind fun lv => (Momentum.new P c.period1 src).bind fun ch =>
    (StDev.new P c.filter_period src).bind fun sd =>
      .ok { cfg := c, volatility := lv, change := ch, fastest := 2 / ((c.period2 + 1 : Nat) : Rat),
            slowest := 2 / ((c.period3 + 1 : Nat) : Rat), st_dev := sd, cross := Cross.default, last_signal := .none,
            last_signal_value := src, prev_value := src }
  else .err .wrongConfig

/-- the value; `f`: the implementation's returned value becomes the next `prev_value` (the recursion is contractive, the
    feedback only keeps the comparison per step) -/
def vals (s : Kaufman) (k : Candle Rat) (f : Option (List Rat)) : Except Panic (List VExp × Kaufman) := do
  let src := k.source s.cfg.source
  let (chg, ch) ← s.change.next src
  let direction := rabs chg
  let (vol, lv) ← s.volatility.next src
  let er := if vol == 0 then 0 else direction / vol
  let sm0 := er * (s.fastest - s.slowest) + s.slowest
  let smooth := if s.cfg.square_smooth then sm0 * sm0 else sm0
  let value := smooth * (src - s.prev_value) + s.prev_value
  -- the efficiency ratio is a quotient behind an exact `== 0` guard: where the exact volatility vanishes the
  -- implementation's running sum may hold rounding residue and the ratio is arbitrary (exempt, see C12)
  let e : VExp := if vol == 0 then .quot 0 0 1 1 .price [] none else .price value 4
  pure ([e], { s with change := ch, volatility := lv, prev_value := fb f 0 value })

/-- signals from the returned value; third component: the two sides of the filter comparison
    `(value − last_signal_value)² > variance·k²` when it decided the signal (the implementation compares
    `|Δ| > stdev·k` with a square root of a running variance); `src`: the source as the code computes it -/
def sigs (s : Kaufman) (src : Rat) (v : List Rat) : Except Panic (List Action × Kaufman × Option (Rat × Rat)) := do
  let value := v.getD 0 0
  let (cross, c) := s.cross.next (src, value)
  if s.cfg.filter_period > 1 then
    let (var, sd) ← s.st_dev.next value
    let lhs := (value - s.last_signal_value) * (value - s.last_signal_value)
    let rhs := var * s.cfg.k * s.cfg.k
    if cross != Action.none then
      pure ([Action.none], { s with cross := c, st_dev := sd, last_signal := cross, last_signal_value := value }, none)
    else if s.last_signal != Action.none && decide (rhs < lhs) then
      pure ([s.last_signal], { s with cross := c, st_dev := sd, last_signal := .none }, some (lhs, rhs))
    else pure ([Action.none], { s with cross := c, st_dev := sd }, if s.last_signal != Action.none then some (lhs, rhs) else none)
  else pure ([cross], { s with cross := c }, none)
end Kaufman

/-! ## Momentum index -/
structure MomIdx where
  source : Source
  m1 : Momentum Rat
  m2 : Momentum Rat

namespace MomIdx
def init (P : Nat) (p1 p2 : Nat) (source : Source) (k : Candle Rat) : Res MomIdx :=
  if p2 > 0 && p1 > p2 then
    (Momentum.new P p1 (k.source source)).bind fun a => (Momentum.new P p2 (k.source source)).bind fun b =>
      .ok { source := source, m1 := a, m2 := b }
  else .err .wrongConfig

def vals (s : MomIdx) (k : Candle Rat) : Except Panic (List VExp × MomIdx) := do
  let src := k.source s.source
  let (v, a) ← s.m1.next src
  let (w, b) ← s.m2.next src
  pure ([.price v 2, .price w 2], { s with m1 := a, m2 := b })

def sig (v : List Rat) : Action :=
  let a := v.getD 0 0
  let b := v.getD 1 0
  Action.ofI8 (sgn (decide (0 < a) && decide (0 < b)) - sgn (decide (a < 0) && decide (b < 0)))
end MomIdx

/-! ## Trix -/
structure Trix where
  source : Source
  tma : TMA Rat
  sig : M
  change : Momentum Rat
  cross1 : Cross Rat
  cross2 : Cross Rat
  reverse : ReversalSignal Rat

namespace Trix
def init (P : Nat) (p1 : Nat) (signal : MA) (source : Source) (k : Candle Rat) : Res Trix :=
  if p1 > 2 && signal.period > 1 then
    let src := k.source source
    (TMA.new P p1 src).bind fun t => (signal.init P (0 : Rat)).bind fun sg => (Momentum.new P 1 src).bind fun ch =>
    (ReversalSignal.new P 1 1 (0 : Rat)).bind fun rv =>
      .ok { source := source, tma := t, sig := sg, change := ch, cross1 := Cross.new (src, src), cross2 := Cross.new (src, src), reverse := rv }
  else .err .wrongConfig

def vals (s : Trix) (k : Candle Rat) (f : Option (List Rat)) : Except Panic (List VExp × Trix) := do
  let (t, tm) := s.tma.next (k.source s.source)
  let (value, ch) ← s.change.next t
  let (sl, sg) ← maNext s.sig (fb f 0 value)
  pure ([.price value 2, .price sl (4 * maK s.sig)], { s with tma := tm, change := ch, sig := sg })

def sigs (s : Trix) (v : List Rat) : Except Panic (List Action × Trix) := do
  let value := v.getD 0 0
  let sl := v.getD 1 0
  let (s1, rv) ← s.reverse.next value
  let (s2, c1) := s.cross1.next (value, sl)
  let (s3, c2) := s.cross2.next (value, 0)
  pure ([s1, s2, s3], { s with reverse := rv, cross1 := c1, cross2 := c2 })
end Trix

/-! ## Klinger volume oscillator -/
structure Klinger where
  ma1 : M
  ma2 : M
  ma3 : M
  cross1 : Cross Rat
  cross2 : Cross Rat
  last_tp : Rat

namespace Klinger
def init (P : Nat) (m1 m2 sg : MA) (tpF : Rat) : Res Klinger :=
  if MA.similar m1 m2 && m1.period > 1 && sg.period > 1 && m1.period < m2.period then
    (m1.init P (0 : Rat)).bind fun a => (m2.init P (0 : Rat)).bind fun b => (sg.init P (0 : Rat)).bind fun c =>
      .ok { ma1 := a, ma2 := b, ma3 := c, cross1 := Cross.default, cross2 := Cross.default, last_tp := tpF }
  else .err .wrongConfig

/-- `tpF`: the typical price as the code computes it (its rounding decides the sign of a vanishing difference) -/
def vals (s : Klinger) (k : Candle Rat) (tpF : Rat) (f : Option (List Rat)) : Except Panic (List VExp × Klinger) := do
  let d := tpF - s.last_tp
  let vol := (signi d : Rat) * k.volume
  let (a, m1) ← maNext s.ma1 vol
  let (b, m2) ← maNext s.ma2 vol
  let ko := a - b
  let (c, m3) ← maNext s.ma3 (fb f 0 ko)
  pure ([.vol ko (maK s.ma1 + maK s.ma2), .vol c (2 * maK s.ma3 * (maK s.ma1 + maK s.ma2))],
    { s with ma1 := m1, ma2 := m2, ma3 := m3, last_tp := tpF })

def sigs (s : Klinger) (v : List Rat) : List Action × Klinger :=
  let ko := v.getD 0 0
  let (s1, c1) := s.cross1.next (ko, 0)
  let (s2, c2) := s.cross2.next (ko, v.getD 1 0)
  ([s1, s2], { s with cross1 := c1, cross2 := c2 })
end Klinger

/-! ## Know sure thing -/
structure KST where
  roc : List (RateOfChange Rat)
  mas : List M
  ma5 : M
  cross : Cross Rat
  mag : Rat

namespace KST
def init (P : Nat) (ps : List Nat) (ms : List MA) (sg : MA) (k : Candle Rat) : Res KST :=
  match ps, ms with
  | [p1, p2, p3, p4], [m1, m2, m3, m4] =>
    if MA.similar m1 m2 && MA.similar m1 m3 && MA.similar m1 m4 && p1 < p2 && p2 < p3 && p3 < p4 then
      (RateOfChange.new P p1 k.close).bind fun r1 => (RateOfChange.new P p2 k.close).bind fun r2 =>
      (RateOfChange.new P p3 k.close).bind fun r3 => (RateOfChange.new P p4 k.close).bind fun r4 =>
      (m1.init P (0 : Rat)).bind fun a1 => (m2.init P (0 : Rat)).bind fun a2 => (m3.init P (0 : Rat)).bind fun a3 =>
      (m4.init P (0 : Rat)).bind fun a4 => (sg.init P (0 : Rat)).bind fun a5 =>
        .ok { roc := [r1, r2, r3, r4], mas := [a1, a2, a3, a4], ma5 := a5, cross := Cross.default, mag := 0 }
    else .err .wrongConfig
  | _, _ => .err .wrongConfig

def vals (s : KST) (k : Candle Rat) (f : Option (List Rat)) : Except Panic (List VExp × KST) :=
  match s.roc, s.mas with
  | [r1, r2, r3, r4], [a1, a2, a3, a4] => do
    let (x1, r1') ← r1.next k.close
    let (x2, r2') ← r2.next k.close
    let (x3, r3') ← r3.next k.close
    let (x4, r4') ← r4.next k.close
    let (c1, a1') ← maNext a1 x1
    let (c2, a2') ← maNext a2 x2
    let (c3, a3') ← maNext a3 x3
    let (c4, a4') ← maNext a4 x4
    let kst := (c2 * 2 + c1) + (c3 * 3 + c4 * 4)
    let mag := rmax s.mag (rmax (rmax (rabs x1) (rabs x2)) (rmax (rabs x3) (rabs x4)))
    let (sl, a5') ← maNext s.ma5 (fb f 0 kst)
    pure ([.approx kst (16 * maK a1) (.abs mag), .approx sl (32 * maK a1 * maK s.ma5) (.abs mag)],
      { s with roc := [r1', r2', r3', r4'], mas := [a1', a2', a3', a4'], ma5 := a5', mag := mag })
  | _, _ => .error .indexOOB

def undefinedNext (s : KST) : Bool :=
  s.roc.any fun r => match r.window.oldest with | .ok o => o == 0 | _ => false

def sigs (s : KST) (v : List Rat) : List Action × KST :=
  let (x, c) := s.cross.next (v.getD 0 0, v.getD 1 0)
  ([x], { s with cross := c })
end KST

/-! ## Relative vigor index -/
structure RVI where
  zone : Rat
  prev_close : Rat
  swma1 : SWMA Rat
  sma1 : SMA Rat
  swma2 : SWMA Rat
  sma2 : SMA Rat
  ma : M
  cross : Cross Rat

namespace RVI
def init (P : Nat) (p1 p2 : Nat) (sg : MA) (zone : Rat) (k : Candle Rat) : Res RVI :=
  if p1 ≥ 2 && decide (0 ≤ zone) && decide (zone < half) && p2 > 1 && sg.period > 1 then
    let dhl := k.high - k.low
    (SWMA.new P p2 (0 : Rat)).bind fun a => (SMA.new P p1 (0 : Rat)).bind fun b =>
    (SWMA.new P p2 dhl).bind fun c => (SMA.new P p1 dhl).bind fun d => (sg.init P (0 : Rat)).bind fun m =>
      .ok { zone := zone, prev_close := k.close, swma1 := a, sma1 := b, swma2 := c, sma2 := d, ma := m, cross := Cross.default }
  else .err .wrongConfig

def vals (s : RVI) (k : Candle Rat) (f : Option (List Rat)) : Except Panic (List VExp × RVI) := do
  let co := k.close - s.prev_close
  let hl := k.high - k.low
  let (w1, a) ← s.swma1.next co
  let (n1, b) ← s.sma1.next w1
  let (w2, c) ← s.swma2.next hl
  let (n2, d) ← s.sma2.next w2
  let rvi := if n2 == 0 then 0 else n1 / n2
  let (sig, m) ← maNext s.ma (fb f 0 rvi)
  pure ([.quot n1 n2 4 4 .price [] (some 0), .unit sig (4 * maK s.ma)],
    { s with prev_close := k.close, swma1 := a, sma1 := b, swma2 := c, sma2 := d, ma := m })

def sigs (s : RVI) (v : List Rat) : List Action × RVI :=
  let rvi := v.getD 0 0
  let sig := v.getD 1 0
  let (x, c) := s.cross.next (rvi, sig)
  let s1 := x.analog
  let s2 : Int := sgn (decide (s1 < 0) && decide (s.zone < rvi) && decide (s.zone < sig)) -
    sgn (decide (s1 > 0) && decide (rvi < -s.zone) && decide (sig < -s.zone))
  ([Action.ofI8 s1, Action.ofI8 s2], { s with cross := c })
end RVI

/-! ## Pivot reversal strategy (signals only) -/
structure PivotRS where
  ph : UpperReversalSignal Rat
  pl : LowerReversalSignal Rat
  window : Window (Candle Rat)
  hprice : Rat
  lprice : Rat

namespace PivotRS
def init (P : Nat) (l r : Nat) (k : Candle Rat) : Res PivotRS :=
  if l ≥ 1 && r ≥ 1 && satAdd P l r < P then
    (UpperReversalSignal.new P l r k.high).bind fun a => (LowerReversalSignal.new P l r k.low).bind fun b =>
    (Res.ofExcept (Window.new P r k)).bind fun w => .ok { ph := a, pl := b, window := w, hprice := 0, lprice := 0 }
  else .err .wrongConfig

def next (s : PivotRS) (k : Candle Rat) : Except Panic (List Action × PivotRS) := do
  let (past, w) ← s.window.push k
  let (swh, a) ← s.ph.next k.high
  let (swl, b) ← s.pl.next k.low
  let hp := if swh.analog > 0 then past.high else s.hprice
  let le : Int := if swh.analog > 0 ∨ k.high ≤ hp then 1 else 0
  let lp := if swl.analog > 0 then past.low else s.lprice
  let se : Int := if swl.analog > 0 ∨ lp ≤ k.low then 1 else 0
  pure ([Action.ofI8 (se - le)], { s with ph := a, pl := b, window := w, hprice := hp, lprice := lp })
end PivotRS

/-! ## Chande Kroll stop -/
structure CKS where
  x : Rat
  source : Source
  ma : M
  highest1 : Highest Rat
  lowest1 : Lowest Rat
  highest2 : Highest Rat
  lowest2 : Lowest Rat
  prev_close : Rat
  prev_stop_short : Rat
  prev_stop_long : Rat
  cross_above : CrossAbove Rat

namespace CKS
def init (P : Nat) (ma : MA) (x : Rat) (q : Nat) (source : Source) (k : Candle Rat) : Res CKS :=
  if decide (0 ≤ x) && ma.period > 0 && q > 0 then
    let tr := k.high - k.low
    let ss := x * (-tr) + k.high
    let sl := x * tr + k.low
    (ma.init P (k.trClose k.close)).bind fun m => (Highest.new P ma.period k.high).bind fun h1 =>
    (Lowest.new P ma.period k.low).bind fun l1 => (Highest.new P q ss).bind fun h2 => (Lowest.new P q sl).bind fun l2 =>
      .ok { x := x, source := source, ma := m, highest1 := h1, lowest1 := l1, highest2 := h2, lowest2 := l2,
            prev_close := k.close, prev_stop_short := ss, prev_stop_long := sl, cross_above := CrossAbove.new (sl, ss) }
  else .err .wrongConfig

def vals (s : CKS) (k : Candle Rat) : Except Panic (List VExp × CKS) := do
  let tr := k.trClose s.prev_close
  let (atr, m) ← maNext s.ma tr
  let (hh, h1) ← s.highest1.next k.high
  let (ll, l1) ← s.lowest1.next k.low
  let phs := atr * (-s.x) + hh
  let pls := atr * s.x + ll
  let (ss, h2) ← s.highest2.next phs
  let (sl, l2) ← s.lowest2.next pls
  let κ := 2 + 2 * rabs s.x * maK s.ma
  pure ([.price sl κ, .exact (k.source s.source), .price ss κ],
    { s with ma := m, highest1 := h1, lowest1 := l1, highest2 := h2, lowest2 := l2, prev_close := k.close })

/-- signals from the returned `[stop_long, src, stop_short]`; first component: exact argument of the proportional signal -/
def sigs (s : CKS) (v : List Rat) (rnd : Rat → Rat := id) : (Rat × Action) × CKS :=
  let sl := v.getD 0 0
  let src := v.getD 1 0
  let ss := v.getD 2 0
  -- `rnd`: the code forms the middle in floating point and tests `size == 0.0` on the rounded values
  let mid := rnd (ss + sl) * half
  let size := rnd (mid - sl)
  let value := if size == 0 then 0 else (src - mid) / size
  let diff := (ss - s.prev_stop_short) + (sl - s.prev_stop_long)
  let isS2 : Int := sgn (decide (ss < sl))
  let (ca, c) := s.cross_above.next (sl, ss)
  let s2 : Int := ca.analog * isS2 * signi diff
  ((value, Action.ofI8 s2), { s with prev_stop_short := ss, prev_stop_long := sl, cross_above := c })
end CKS

/-! ## Average directional index -/
structure ADX where
  zone : Rat
  window : Window (Candle Rat)
  prev_close : Rat
  tr_ma : M
  plus_di : M
  minus_di : M
  ma2 : M
  /-- running maximum of the absolute inputs of the final average (its scale: with overshooting kinds `+DI + −DI` can
      cancel to rounding residue and the quotient fed to the average is then huge) -/
  mag : Rat := 1

namespace ADX
def init (P : Nat) (m1 m2 : MA) (period1 : Nat) (zone : Rat) (k : Candle Rat) : Res ADX :=
  if m1.period ≥ 1 && m1.period < P && m2.period ≥ 1 && m2.period < P && decide (0 ≤ zone) && decide (zone ≤ 1) &&
      period1 ≥ 1 && period1 < m1.period && period1 < m2.period then
    (Res.ofExcept (Window.new P period1 k)).bind fun w => (m1.init P (k.trClose k.close)).bind fun t =>
    (m1.init P (0 : Rat)).bind fun p => (m1.init P (0 : Rat)).bind fun n => (m2.init P (0 : Rat)).bind fun a =>
      .ok { zone := zone, window := w, prev_close := k.close, tr_ma := t, plus_di := p, minus_di := n, ma2 := a, mag := 1 }
  else .err .wrongConfig

/-- `f`: the implementation's `[adx, plus, minus]`; the ADX stage is fed its `plus`/`minus`.
    Third component: the exact averaged true range vanished — the code's `true_range == 0.0` guard then decides between
    `(0, 0)` and quotients of rounding residue, and the smoothing stage cannot be compared from there on -/
def vals (s : ADX) (k : Candle Rat) (f : Option (List Rat)) : Except Panic (List VExp × ADX × Bool) := do
  let (prev, w) ← s.window.push k
  let (tr, tm) ← maNext s.tr_ma (k.trClose s.prev_close)
  if tr == 0 then
    -- early return of `dir_mov`: neither `prev_close` nor the directional averages are updated
    let (adx, a) ← maNext s.ma2 0
    pure ([.approx adx (2 * maK s.ma2) (.abs s.mag), .exact 0, .exact 0], { s with window := w, tr_ma := tm, ma2 := a }, true)
  else
    let du := k.high - prev.high
    let dd := prev.low - k.low
    let pdm := if dd < du ∧ 0 < du then du else 0
    let mdm := if du < dd ∧ 0 < dd then dd else 0
    let (pv, p) ← maNext s.plus_di pdm
    let (mv, n) ← maNext s.minus_di mdm
    let plus := pv / tr
    let minus := mv / tr
    let fp := fb f 1 plus
    let fm := fb f 2 minus
    let sm := fp + fm
    let t := if sm ≤ 0 then 0 else rmin (rabs (fp - fm) / sm) 1
    let (adx, a) ← maNext s.ma2 t
    let κ := maK s.tr_ma
    let mag := rmax s.mag (rabs t)
    pure ([.approx adx (2 * maK s.ma2) (.abs mag), .quot pv tr κ κ .price [] none, .quot mv tr κ κ .price [] none],
      { s with window := w, prev_close := k.close, tr_ma := tm, plus_di := p, minus_di := n, ma2 := a, mag := mag }, false)

/-- first component: exact argument of the proportional signal `plus − minus` -/
def sigs (s : ADX) (v : List Rat) : Action × Rat :=
  let adx := v.getD 0 0
  let plus := v.getD 1 0
  let minus := v.getD 2 0
  let s1 : Int := sgn (decide (s.zone < adx)) * (sgn (decide (minus < plus)) - sgn (decide (plus < minus)))
  (Action.ofI8 s1, plus - minus)
end ADX

end Yata.Ind
