/-
  YataModel.Indicators3 — the two indicators whose value is not a rational function of the candles:

    * TrendStrengthIndex (src/indicators/trend_strength_index.rs): `p / sqrt(q)` — annotated `quotSqrt`, compared by the
      driver on the square (`value²·q = p²`, sign of `p`), never taking a root;
    * FisherTransform (src/indicators/fisher_transform.rs): `atanh` of the clamped position of the source inside the
      window's range — modelled by `atanhQ`, a rational approximation of `atanh` on [−0.999, 0.999] accurate to about
      2⁻⁹⁰ (series for `ln` after reducing the argument to [1, 2); its accuracy is *not* proved: it is part of the
      trusted base of the FisherTransform comparison and is validated by agreeing with the implementation's `atanh`).

  Conventions as in Indicators.lean / Indicators2.lean.
-/
import YataModel.Indicators2
namespace Yata.Ind
open Yata

/-! ## rational approximation of atanh -/
/-- round down to a multiple of 2^-bits -/
def dyad (bits : Nat) (q : Rat) : Rat := ((q * ((2 ^ bits : Nat) : Rat)).floor : Rat) / ((2 ^ bits : Nat) : Rat)

/-- Σ_{k<n} z^(2k+1)/(2k+1) with every power rounded to 2^-100 (for |z| ≤ 1/3 and n = 32 the truncation is below 2^-100) -/
def atanhSeries (z : Rat) (n : Nat) : Rat :=
  let z := dyad 100 z
  let z2 := dyad 100 (z * z)
  let rec go : Nat → Nat → Rat → Rat → Rat
    | 0, _, _, acc => acc
    | m + 1, k, pw, acc => go m (k + 1) (dyad 100 (pw * z2)) (acc + pw / ((2 * k + 1 : Nat) : Rat))
  go n 0 z 0

/-- ⌊log₂ u⌋ for positive rational u -/
def log2Floor (u : Rat) : Int :=
  let e0 : Int := (Nat.log2 u.num.natAbs : Int) - (Nat.log2 u.den : Int)
  let p (e : Int) : Rat := if e ≥ 0 then ((2 ^ e.toNat : Nat) : Rat) else 1 / ((2 ^ (-e).toNat : Nat) : Rat)
  if p e0 ≤ u then (if p (e0 + 1) ≤ u then e0 + 1 else e0) else e0 - 1

/-- ln u for u > 0 (0 otherwise): u = 2^e·m with m ∈ [1, 2), ln m = 2·atanh((m−1)/(m+1)), ln 2 = 2·atanh(1/3) -/
def lnQ (u : Rat) : Rat :=
  if u ≤ 0 then 0 else
  let e := log2Floor u
  let m := if e ≥ 0 then u / ((2 ^ e.toNat : Nat) : Rat) else u * ((2 ^ (-e).toNat : Nat) : Rat)
  (e : Rat) * (2 * atanhSeries (1 / 3) 32) + 2 * atanhSeries ((m - 1) / (m + 1)) 32

/-- atanh x = ½·ln((1+x)/(1−x)) for |x| < 1 -/
def atanhQ (x : Rat) : Rat := if x ≤ -1 ∨ 1 ≤ x then 0 else lnQ ((1 + x) / (1 - x)) / 2

/-- `value.clamp(-b, b)` -/
def clampQ (b x : Rat) : Rat := if x < -b then -b else if b < x then b else x

/-! ## Trend Strength Index -/
structure TSInd where
  period : Nat
  zone : Rat
  reverse_offset : Nat
  source : Source
  window : Window Rat
  sx : Rat
  k : Rat
  sy : Rat
  sy2 : Rat
  wma : WMA Rat
  cross_under : CrossUnder Rat
  cross_above : CrossAbove Rat
  reverse : ReversalSignal Rat

namespace TSInd
/-- `src`: the first candle's source value (the caller supplies it as the implementation forms it) -/
def init (P : Nat) (period : Nat) (zone : Rat) (reverse_offset : Nat) (source : Source) (src : Rat) : Res TSInd :=
  if period > 1 && period < P && decide (0 ≤ zone) && decide (zone < 1) && reverse_offset > 0 && reverse_offset < period then
    let sx : Nat := (period + 1) * period / 2
    -- sx2 = sx·(2p+1)/3, inv_sx = (p+1)·sx/2
    let sx2 : Rat := ((sx * (2 * period + 1) : Nat) : Rat) / 3
    let inv_sx : Rat := (((period + 1) * sx : Nat) : Rat) * half
    (winNew P period src).bind fun w => (WMA.new P period src).bind fun wm =>
    (ReversalSignal.new P 1 2 (0 : Rat)).bind fun rv =>
      .ok { period := period, zone := zone, reverse_offset := reverse_offset, source := source, window := w,
            sx := (sx : Rat), k := sx2 - inv_sx, sy := src * (period : Rat), sy2 := src * src * (period : Rat), wma := wm,
            cross_under := CrossUnder.new (0, zone), cross_above := CrossAbove.new (0, -zone), reverse := rv }
  else .err .wrongConfig

def vals (s : TSInd) (src : Rat) : Except Panic (List VExp × TSInd) := do
  let (past, w) ← s.window.push src
  let sy := s.sy + (src - past)
  let sy2 := s.sy2 + (src * src - past * past)
  let sma := sy / (s.period : Rat)
  let (wv, wm) ← s.wma.next src
  let p := (wv - sma) * s.sx
  let q := s.k * (sy2 - sma * sy)
  let n : Rat := (s.period : Rat)
  pure ([.sqrtQuot p q (2 * s.sx) (2 * s.k * n)],
        { s with window := w, sy := sy, sy2 := sy2, wma := wm })

/-- after `vals` (the window already holds the current source) -/
def sigs (P : Nat) (s : TSInd) (v : List Rat) : Except Panic (List Action × TSInd) := do
  let value := v.getD 0 0
  let (cu, xu) := s.cross_under.next (value, s.zone)
  let (ca, xa) := s.cross_above.next (value, -s.zone)
  let (r, rv) ← s.reverse.next value
  let at_ ← s.window.idx P s.reverse_offset
  let up := decide (r.analog < 0) && decide (s.zone ≤ at_)
  let lo := decide (r.analog > 0) && decide (at_ ≤ -s.zone)
  pure ([Action.sub cu ca, Action.ofI8 (sgn up - sgn lo)], { s with cross_under := xu, cross_above := xa, reverse := rv })
end TSInd

/-! ## Fisher transform -/
structure Fisher where
  period1 : Nat
  zone : Rat
  source : Source
  bound : Rat
  ma1 : M
  highest : Highest Rat
  lowest : Lowest Rat
  cross : Cross Rat
  cross_ma : Cross Rat
  prev_value : Rat
  last_reverse : Int

namespace Fisher
/-- `bound`: the code's constant 0.999 (its binary64 value is supplied by the caller); `src`: the source value of the
    candle as the implementation forms it (the window's range is compared for equality) -/
def init (P : Nat) (period1 : Nat) (zone : Rat) (signal : MA) (source : Source) (bound : Rat) (src : Rat) : Res Fisher :=
  if period1 > 1 && signal.period > 1 && decide (0 < zone) then
    (signal.init P (0 : Rat)).bind fun m => (Highest.new P period1 src).bind fun h => (Lowest.new P period1 src).bind fun l =>
      .ok { period1 := period1, zone := zone, source := source, bound := bound, ma1 := m, highest := h, lowest := l,
            cross := Cross.default, cross_ma := Cross.default, prev_value := 0, last_reverse := 0 }
  else .err .wrongConfig

/-- position of the source inside the window's range, mapped to [−1, 1] and clamped -/
def xOf (b src hi lo : Rat) : Rat := clampQ b ((src - lo) / (hi - lo) * 2 + (-1))

/-- `f`: the implementation's `[cumulative, signal_line]`; the recursion and the signal average are fed its `cumulative` -/
def vals (s : Fisher) (src : Rat) (f : Option (List Rat)) : Except Panic (List VExp × Fisher) := do
  let (hi, h) ← s.highest.next src
  let (lo, l) ← s.lowest.next src
  let ft := if hi == lo then 0 else atanhQ (xOf s.bound src hi lo)
  let cumulative := s.prev_value * half + ft
  let cum := fb f 0 cumulative
  let (sig, m) ← maNext s.ma1 cum
  pure ([.approx cumulative 1 (.abs 8), .approx sig (maK s.ma1) (.abs 8)],
        { s with highest := h, lowest := l, ma1 := m, prev_value := cum })

/-- `prev`: the value of `prev_value` before this step (`vals` has already replaced it).
    Returns the exact arguments of the two proportional signals and whether each fires -/
def sigs (s : Fisher) (prev : Rat) (v : List Rat) : (List (Bool × Rat)) × Fisher :=
  let cumulative := v.getD 0 0
  let signal_line := v.getD 1 0
  let (r, c) := s.cross.next (cumulative, prev)
  let reverse := r.analog
  let f1 := (decide (cumulative < 0) && decide (reverse > 0)) || (decide (0 < cumulative) && decide (reverse < 0))
  let (x, cm) := s.cross_ma.next (cumulative, signal_line)
  let crossed := x.analog
  let last : Int := if reverse ≠ 0 then reverse else s.last_reverse
  let f2 := (decide (signal_line < 0) && decide (last > 0) && decide (crossed > 0)) ||
            (decide (0 < signal_line) && decide (last < 0) && decide (crossed < 0))
  ([(f1, cumulative / s.zone), (f2, signal_line / s.zone)], { s with cross := c, cross_ma := cm, last_reverse := last })
end Fisher

end Yata.Ind
