/-
  YataModel.F64 — binary64 bit patterns in pure `Nat` arithmetic (kernel-friendly), exactly as
  far as `Action::from(f64)` and `Action::ratio()` need them:
    * classification (sign, exponent field, mantissa field, NaN),
    * `x * 255.0` with IEEE round-to-nearest-even, then `f64::round` (half away from zero),
    * `(k as f64) / 255.0` with round-to-nearest-even.
-/
import YataModel.Action
namespace Yata.F64

def sign (b : Nat) : Bool := b / 2 ^ 63 % 2 == 1
def expo (b : Nat) : Nat := b / 2 ^ 52 % 2048
def mant (b : Nat) : Nat := b % 2 ^ 52
def isNaN (b : Nat) : Bool := expo b == 2047 && mant b != 0

/-- `⌊x / 2^k⌉` with ties to even -/
def shrRne (x k : Nat) : Nat :=
  if k = 0 then x
  else
    let q := x / 2 ^ k
    let r := x % 2 ^ k
    let h := 2 ^ (k - 1)
    if r > h then q + 1 else if r < h then q else (if q % 2 = 0 then q else q + 1)

/-- `⌊a / d⌉` with ties to even -/
def divRne (a d : Nat) : Nat :=
  let q := a / d
  let r := a % d
  if 2 * r > d then q + 1 else if 2 * r < d then q else (if q % 2 = 0 then q else q + 1)

/-- `from_normalized_f64_to_bounded(|clamp(x,-1,1)|)` for the float with exponent field `e`,
    mantissa field `m`:  `(|x| * 255.0).round() as u8`. -/
def strength (e m : Nat) : Nat :=
  if e ≥ 1023 then 255            -- |x| ≥ 1, or ±inf: clamped to 1.0 → 255
  else if e < 1000 then 0          -- |x| < 2^-23: the (rounded) product is below 1/2
  else
    let M := 2 ^ 52 + m            -- significand (normal number: e ≥ 1000)
    let p := 255 * M               -- exact product, in units of 2^(e-1075)
    let sh := if p < 2 ^ 60 then 7 else 8
    let M' := shrRne p sh          -- product rounded to 53 significant bits
    let k := 1075 - e - sh         -- rounded product = M' / 2^k,  45 ≤ k ≤ 68
    min 255 ((M' + 2 ^ (k - 1)) / 2 ^ k)     -- round half away from zero; `as u8` saturates

/-- `Action::from(f64)` on a bit pattern -/
def toAction (b : Nat) : Action :=
  if isNaN b then .none
  else
    let v := strength (expo b) (mant b)
    if sign b then (if v = 255 then Action.sellAll else .sell v)
    else (if v = 255 then Action.buyAll else .buy v)

/-- bit pattern of `(k as f64) / 255.0` for `1 ≤ k ≤ 255` (and `0.0` for `k = 0`) -/
def ratioMagBits (k : Nat) : Nat :=
  if k = 0 then 0
  else
    -- smallest j with k·2^j ≥ 255: the quotient lies in [2^-j, 2^(1-j))
    let j := (List.range 9).find? (fun j => k * 2 ^ j ≥ 255) |>.getD 8
    let sig := divRne (k * 2 ^ (52 + j)) 255          -- in [2^52, 2^53]
    (1023 - j) * 2 ^ 52 + (sig - 2 ^ 52)

/-- `Action::ratio()` as a bit pattern (`None` for `Action::None`) -/
def ratioBits : Action → Option Nat
  | .none => none
  | .buy k => some (ratioMagBits k)
  | .sell k => some (2 ^ 63 + ratioMagBits k)

end Yata.F64
