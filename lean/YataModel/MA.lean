/-
  YataModel.MA — `helpers::MA` (constructor: kind + length) and `helpers::MAInstance`
  (src/helpers/methods.rs): a 15-way sum over the moving-average models with dispatching `next`.
-/
import YataModel.Methods.Basic
import YataModel.Text
namespace Yata
variable {α : Type}
variable [Zero α] [One α] [Add α] [Sub α] [Mul α] [Div α] [Neg α] [NatCast α]
variable [LT α] [DecidableLT α] [LE α] [DecidableLE α] [DecidableEq α] [BitEq α] [TotalCmp α]

inductive MAInst (α : Type) where
  | sma (s : SMA α) | wma (s : WMA α) | hma (s : HMA α) | rma (s : RMA α) | ema (s : EMA α)
  | dma (s : DMA α) | dema (s : DEMA α) | tma (s : TMA α) | tema (s : TEMA α) | wsma (s : WSMA α)
  | smm (s : SMM α) | swma (s : SWMA α) | trima (s : TRIMA α) | linreg (s : LinReg α) | vidya (s : Vidya α)

namespace MA
/-- `MovingAverageConstructor::init` -/
def init (P : Nat) (m : MA) (v : α) : Res (MAInst α) :=
  match m.kind with
  | .sma => (SMA.new P m.length v).map .sma
  | .wma => (WMA.new P m.length v).map .wma
  | .hma => (HMA.new P m.length v).map .hma
  | .rma => (RMA.new P m.length v).map .rma
  | .ema => (EMA.new P m.length v).map .ema
  | .dma => (DMA.new P m.length v).map .dma
  | .dema => (DEMA.new P m.length v).map .dema
  | .tma => (TMA.new P m.length v).map .tma
  | .tema => (TEMA.new P m.length v).map .tema
  | .wsma => (WSMA.new P m.length v).map .wsma
  | .smm => (SMM.new P m.length v).map .smm
  | .swma => (SWMA.new P m.length v).map .swma
  | .trima => (TRIMA.new P m.length v).map .trima
  | .linreg => (LinReg.new P m.length v).map .linreg
  | .vidya => (Vidya.new P m.length v).map .vidya

def period (m : MA) : Nat := m.length
end MA

namespace MAInst
def half2 : α := 1 / ((2 : Nat) : α)

def next (s : MAInst α) (x : α) : Except Panic (α × MAInst α) :=
  match s with
  | .sma s => (s.next x).map fun (v, s') => (v, .sma s')
  | .wma s => (s.next x).map fun (v, s') => (v, .wma s')
  | .hma s => (s.next x).map fun (v, s') => (v, .hma s')
  | .rma s => let (v, s') := s.next x; .ok (v, .rma s')
  | .ema s => let (v, s') := s.next x; .ok (v, .ema s')
  | .dma s => let (v, s') := s.next x; .ok (v, .dma s')
  | .dema s => let (v, s') := s.next x; .ok (v, .dema s')
  | .tma s => let (v, s') := s.next x; .ok (v, .tma s')
  | .tema s => let (v, s') := s.next x; .ok (v, .tema s')
  | .wsma s => let (v, s') := s.next x; .ok (v, .wsma s')
  | .smm s =>
    match s.step x with
    | .error e => .error e
    | .ok s' => match s'.mid with
      | .error e => .error e
      | .ok (a, b) => .ok ((a + b) * half2, .smm s')
  | .swma s => (s.next x).map fun (v, s') => (v, .swma s')
  | .trima s => (s.next x).map fun (v, s') => (v, .trima s')
  | .linreg s => (s.next x).map fun (v, s') => (v, .linreg s')
  | .vidya s => (s.next x).map fun (v, s') => (v, .vidya s')

/-- total window length, for the allowance -/
def winLen : MAInst α → Nat
  | .sma s => s.window.size | .wma s => s.window.size
  | .hma s => s.wma1.window.size + s.wma2.window.size + s.wma3.window.size
  | .smm s => s.window.size | .swma s => s.left_window.size + s.right_window.size
  | .trima s => s.sma1.window.size + s.sma2.window.size | .linreg s => s.window.size
  | .vidya s => s.window.size
  | _ => 0

/-- κ of DESIGN §3.2: ℓ¹-norm of the weight profile -/
def kappa : MAInst α → Nat
  | .hma _ | .dema _ => 3
  | .tema _ => 7
  | .linreg _ => 4
  | _ => 1
end MAInst

end Yata
