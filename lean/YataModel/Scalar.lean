/-
  YataModel.Scalar — the scalar vocabulary of the model.

  Model functions are polymorphic in the scalar type `α` and take the plain notation classes
  (`Add`, `Mul`, `LT`, …) as instance arguments, so that they can be
    * executed by the driver at `Rat` (exact rational arithmetic, core Lean), and
    * reasoned about in `YataProofs` at an arbitrary (linear ordered) field.
  `mul_add(a,b,c)` is `a*b+c`: the same number, rounding is handled by the allowance (DESIGN §3).

  Float-specific notions the selection methods depend on:
    * `BitEq.bitEq`  : `a.to_bits() == b.to_bits()`   (distinguishes -0.0 / +0.0)
    * `TotalCmp.tcmp`: `a.total_cmp(&b)`               (-0.0 < +0.0)
-/
import YataModel.Basic
namespace Yata

inductive Err where
  | wrongMethodParameters
  | invalidCandles
  | wrongConfig
  | movingAverageParse
  | sourceParse
  | parameterParse
  | other
  deriving Repr, DecidableEq, Inhabited

instance : ToString Err where
  toString
    | .wrongMethodParameters => "WrongMethodParameters"
    | .invalidCandles => "InvalidCandles"
    | .wrongConfig => "WrongConfig"
    | .movingAverageParse => "MovingAverageParse"
    | .sourceParse => "SourceParse"
    | .parameterParse => "ParameterParse"
    | .other => "Other"

/-- result of a constructor: `Ok`, `Err(kind)` or a panic (debug profile) -/
inductive Res (β : Type) where
  | ok (v : β)
  | err (e : Err)
  | panic (p : Panic)
  deriving Repr

namespace Res
def bind {β γ : Type} (r : Res β) (f : β → Res γ) : Res γ :=
  match r with
  | .ok v => f v
  | .err e => .err e
  | .panic p => .panic p
def map {β γ : Type} (f : β → γ) (r : Res β) : Res γ := r.bind (fun v => .ok (f v))
def ofExcept {β : Type} : Except Panic β → Res β
  | .ok v => .ok v
  | .error p => .panic p
def isOk {β : Type} : Res β → Bool
  | .ok _ => true
  | _ => false
end Res

class BitEq (α : Type) where
  bitEq : α → α → Bool

class TotalCmp (α : Type) where
  tcmp : α → α → Ordering

export BitEq (bitEq)
export TotalCmp (tcmp)

instance : BitEq Rat := ⟨fun a b => a == b⟩
instance : TotalCmp Rat := ⟨fun a b => if a < b then .lt else if b < a then .gt else .eq⟩
instance : BitEq Nat := ⟨fun a b => a == b⟩
instance : TotalCmp Nat := ⟨fun a b => compare a b⟩
instance : BitEq Int := ⟨fun a b => a == b⟩
instance : TotalCmp Int := ⟨fun a b => compare a b⟩

section
variable {α : Type}

/-- `x.abs()` -/
def sabs [Zero α] [Neg α] [LT α] [DecidableLT α] (x : α) : α := if x < 0 then -x else x

/-- `a.max(b)` for non-NaN floats (on a numeric tie either operand may be returned by the
    hardware; the model returns `a`) -/
def smax [LT α] [DecidableLT α] (a b : α) : α := if a < b then b else a

/-- `a.min(b)` -/
def smin [LT α] [DecidableLT α] (a b : α) : α := if b < a then b else a

/-- `(cond) as u8 as ValueType` -/
def ind [Zero α] [One α] (c : Bool) : α := if c then 1 else 0

end

/-- A float with the sign of zero kept: the driver's scalar for the selection methods. -/
structure FZ where
  q : Rat
  negZero : Bool := false     -- only meaningful when q = 0
  deriving Repr, DecidableEq, Inhabited

namespace FZ
instance : LT FZ := ⟨fun a b => a.q < b.q⟩
instance : LE FZ := ⟨fun a b => a.q ≤ b.q⟩
instance : DecidableLT FZ := fun a b => inferInstanceAs (Decidable (a.q < b.q))
instance : DecidableLE FZ := fun a b => inferInstanceAs (Decidable (a.q ≤ b.q))
instance : BitEq FZ := ⟨fun a b => a.q == b.q && (a.q != 0 || a.negZero == b.negZero)⟩
instance : TotalCmp FZ := ⟨fun a b =>
  if a.q < b.q then .lt else if b.q < a.q then .gt
  else if a.q == 0 then
    (if a.negZero && !b.negZero then .lt else if !a.negZero && b.negZero then .gt else .eq)
  else .eq⟩
instance : Add FZ := ⟨fun a b => ⟨a.q + b.q, a.q + b.q == 0 && a.negZero && b.negZero⟩⟩
instance : Sub FZ := ⟨fun a b => ⟨a.q - b.q, false⟩⟩
instance : Mul FZ := ⟨fun a b => ⟨a.q * b.q, false⟩⟩
instance : Zero FZ := ⟨⟨0, false⟩⟩
instance : One FZ := ⟨⟨1, false⟩⟩
instance : NatCast FZ := ⟨fun n => ⟨n, false⟩⟩
end FZ

end Yata
