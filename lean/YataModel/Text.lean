/-
  YataModel.Text — textual forms (src/core/candles.rs `FromStr for Source`,
  src/helpers/methods.rs `FromStr for MA`), on `List Char`.
  `str::parse::<PeriodType>` is modelled by `parseUInt P` (Rust's integer grammar:
  an optional `+`, then one or more ASCII digits, no other characters; overflow is an error).
-/
import YataModel.Candle
namespace Yata

/-- the 15 kinds of `MA` in declaration order -/
inductive MAKind where
  | sma | wma | hma | rma | ema | dma | dema | tma | tema | wsma | smm | swma | trima | linreg | vidya
  deriving Repr, DecidableEq, Inhabited

namespace MAKind
def all : List MAKind := [sma, wma, hma, rma, ema, dma, dema, tma, tema, wsma, smm, swma, trima, linreg, vidya]

/-- the name accepted by `MA::from_str` -/
def name : MAKind → List Char
  | sma => "sma".toList | wma => "wma".toList | hma => "hma".toList | rma => "rma".toList
  | ema => "ema".toList | dma => "dma".toList | dema => "dema".toList | tma => "tma".toList
  | tema => "tema".toList | wsma => "wsma".toList | smm => "smm".toList | swma => "swma".toList
  | trima => "trima".toList | linreg => "linreg".toList | vidya => "vidya".toList

def ofName (l : List Char) : Option MAKind := all.find? (fun k => k.name == l)
end MAKind

structure MA where
  kind : MAKind
  length : Nat
  deriving Repr, DecidableEq

namespace Text

def isDigit (c : Char) : Bool := '0' ≤ c && c ≤ '9'

/-- digits → number, `none` as soon as the value exceeds `P` (overflow) -/
def digitsVal (P : Nat) : List Char → Nat → Option Nat
  | [], acc => some acc
  | c :: rest, acc =>
    if isDigit c then
      let v := acc * 10 + (c.toNat - '0'.toNat)
      if v > P then none else digitsVal P rest v
    else none

/-- `s.parse::<uN>()` with maximum `P` -/
def parseUInt (P : Nat) (l : List Char) : Option Nat :=
  let body := match l with
    | '+' :: rest => rest
    | l => l
  if body.isEmpty then none else digitsVal P body 0

/-- `str::split_once('-')` -/
def splitOnce (sep : Char) : List Char → Option (List Char × List Char)
  | [] => none
  | c :: rest =>
    if c = sep then some ([], rest)
    else match splitOnce sep rest with
      | none => none
      | some (a, b) => some (c :: a, b)

/-- `MA::from_str` -/
def parseMA (P : Nat) (l : List Char) : Option MA :=
  match splitOnce '-' l with
  | none => none
  | some (method, period) =>
    match parseUInt P period with
    | none => none
    | some n => (MAKind.ofName method).map fun k => { kind := k, length := n }

/-- decimal rendering of a number (what `format!("{n}")` prints) -/
def natDigits (n : Nat) : List Char := (Nat.repr n).toList

/-- ASCII lower-casing and trimming of ASCII whitespace, as `to_ascii_lowercase().trim()` -/
def lowerChar (c : Char) : Char := if 'A' ≤ c ∧ c ≤ 'Z' then Char.ofNat (c.toNat + 32) else c
/-- Unicode `White_Space` (what `str::trim` removes) -/
def isWs (c : Char) : Bool :=
  let n := c.toNat
  (9 ≤ n && n ≤ 13) || n = 32 || n = 0x85 || n = 0xA0 || n = 0x1680 || (0x2000 ≤ n && n ≤ 0x200A) ||
    n = 0x2028 || n = 0x2029 || n = 0x202F || n = 0x205F || n = 0x3000
def trim (l : List Char) : List Char := ((l.dropWhile isWs).reverse.dropWhile isWs).reverse

/-- `Source::from_str` -/
def parseSource (l : List Char) : Option Source :=
  Source.ofLower (String.ofList (trim (l.map lowerChar)))

end Text
end Yata
