/-
  YataModel.Action — model of `src/core/action.rs`.
  `Action = Buy(u8) | None | Sell(u8)`; strengths are `Nat` with the invariant `≤ 255`
  (`Action.WF`).  Float conversion works on exact rationals; the bit-level entry point
  (`NaN`, infinities, rounding of `x*255`) is `ofF64` below.
-/
import YataModel.Scalar
namespace Yata

inductive Action where
  | buy (v : Nat)
  | none
  | sell (v : Nat)
  deriving Repr, DecidableEq, Inhabited

namespace Action

def BOUND : Nat := 255

def WF : Action → Prop
  | buy v => v ≤ BOUND
  | none => True
  | sell v => v ≤ BOUND

instance : DecidablePred WF := fun a => by cases a <;> unfold WF <;> infer_instance

def buyAll : Action := buy BOUND
def sellAll : Action := sell BOUND

/-- `impl PartialEq for Action` -/
def eq (a b : Action) : Bool :=
  match a, b with
  | none, none => true
  | buy 0, sell 0 => true
  | sell 0, buy 0 => true
  | buy x, buy y => x == y
  | sell x, sell y => x == y
  | _, _ => false

/-- derived `Ord`: variant order Buy < None < Sell, then payload -/
def cmp (a b : Action) : Ordering :=
  match a, b with
  | buy x, buy y => compare x y
  | buy _, _ => .lt
  | none, buy _ => .gt
  | none, none => .eq
  | none, sell _ => .lt
  | sell x, sell y => compare x y
  | sell _, _ => .gt

/-- `From<i8>` -/
def ofI8 (v : Int) : Action := if v = 0 then none else if v > 0 then buyAll else sellAll

/-- `From<bool>` -/
def ofBool (b : Bool) : Action := if b then buyAll else none

/-- `From<Action> for i8` (`analog`) -/
def analog : Action → Int
  | buy v => if v > 0 then 1 else 0
  | none => 0
  | sell v => if v > 0 then -1 else 0

/-- `From<Action> for Option<i8>` (`sign`) -/
def sign (a : Action) : Option Int :=
  match a with
  | none => Option.none
  | _ => some a.analog

def value : Action → Option Nat
  | none => Option.none
  | buy v => some v
  | sell v => some v

/-- `ratio()` as an exact rational -/
def ratio : Action → Option Rat
  | none => Option.none
  | buy v => some ((v : Rat) / 255)
  | sell v => some (-(v : Rat) / 255)

/-- the ratio with `None` counting as zero -/
def ratio0 (a : Action) : Rat := (a.ratio).getD 0

def neg : Action → Action
  | none => none
  | buy v => sell v
  | sell v => buy v

/-- `impl Sub for Action` (after the `fix:` commit: mixed signs add, saturating at `BOUND`) -/
def sub (a b : Action) : Action :=
  match a, b with
  | none, none => none
  | s, none => s
  | none, s => s.neg
  | buy v1, buy v2 => if v1 ≥ v2 then buy (v1 - v2) else sell (v2 - v1)
  | sell v1, sell v2 => if v1 ≥ v2 then sell (v1 - v2) else buy (v2 - v1)
  | buy v1, sell v2 => buy (satAdd BOUND v1 v2)
  | sell v1, buy v2 => sell (satAdd BOUND v1 v2)

/-- `f64::round` (half away from zero) of a non-negative rational -/
def roundHalfAway (q : Rat) : Nat := (q + 1 / 2).floor.toNat

/-- `From<f64>` for a finite value given as an exact rational together with its sign bit;
    `rne` is the IEEE rounding of the product `|x|·255` to binary64 (identity in the
    exact model; the bit-level model supplies the real one). -/
def ofRatWith (rne : Rat → Rat) (neg : Bool) (q : Rat) : Action :=
  let c : Rat := if q < -1 then -1 else if q > 1 then 1 else q
  let a : Rat := if c < 0 then -c else c
  let v := roundHalfAway (rne (a * 255))
  if neg then (if v = BOUND then sellAll else sell v)
  else (if v = BOUND then buyAll else buy v)

end Action
end Yata
