/-
  YataModel.Runner — the generic drivers of `src/core/method.rs` / `src/core/sequence.rs`:
  a method is a state machine `next : σ → ι → Except Panic (ο × σ)`.
-/
import YataModel.Scalar
namespace Yata

/-- `Sequence::call` / `Method::over`: feed every element, collect one output per input -/
def runM {σ ι ο : Type} (next : σ → ι → Except Panic (ο × σ)) (s : σ) : List ι → Except Panic (List ο × σ)
  | [] => .ok ([], s)
  | x :: xs =>
    match next s x with
    | .error e => .error e
    | .ok (o, s') =>
      match runM next s' xs with
      | .error e => .error e
      | .ok (os, s'') => .ok (o :: os, s'')

/-- lift a total step function into the `Except` form -/
def liftNext {σ ι ο : Type} (next : σ → ι → ο × σ) : σ → ι → Except Panic (ο × σ) :=
  fun s x => .ok (next s x)

/-- `Method::new_over(params, inputs)`: empty input ⇒ `Ok([])` without constructing -/
def newOver {σ ι ο : Type} (new : ι → Res σ) (next : σ → ι → Except Panic (ο × σ)) :
    List ι → Res (List ο)
  | [] => .ok []
  | x :: xs =>
    (new x).bind fun s => (Res.ofExcept (runM next s (x :: xs))).map (·.1)

/-- `Sequence::apply`: the outputs written back in place (same list as `over`) -/
def applyM {σ ι : Type} (next : σ → ι → Except Panic (ι × σ)) (s : σ) (xs : List ι) :
    Except Panic (List ι × σ) := runM next s xs

/-- `WithHistory`: inner instance + every output so far (oldest first) -/
structure WithHistory (σ ο : Type) where
  history : List ο
  instance_ : σ

namespace WithHistory
def new {σ ο : Type} (s : σ) : WithHistory σ ο := { history := [], instance_ := s }

def next {σ ι ο : Type} (nx : σ → ι → Except Panic (ο × σ)) (w : WithHistory σ ο) (x : ι) :
    Except Panic (ο × WithHistory σ ο) :=
  match nx w.instance_ x with
  | .error e => .error e
  | .ok (o, s') => .ok (o, { history := w.history ++ [o], instance_ := s' })

/-- `Buffered::get(index)`: `index`-th newest output -/
def get {σ ο : Type} (w : WithHistory σ ο) (index : Nat) : Option ο :=
  match checkedSub w.history.length (index + 1) with
  | none => none
  | some i => w.history[i]?
end WithHistory

/-- `WithLastValue`: `new` feeds the initial value once and remembers the output -/
structure WithLastValue (σ ο : Type) where
  last_value : ο
  instance_ : σ

namespace WithLastValue
def new {σ ι ο : Type} (nx : σ → ι → Except Panic (ο × σ)) (s : σ) (init : ι) :
    Except Panic (WithLastValue σ ο) :=
  match nx s init with
  | .error e => .error e
  | .ok (o, s') => .ok { last_value := o, instance_ := s' }

def next {σ ι ο : Type} (nx : σ → ι → Except Panic (ο × σ)) (w : WithLastValue σ ο) (x : ι) :
    Except Panic (ο × WithLastValue σ ο) :=
  match nx w.instance_ x with
  | .error e => .error e
  | .ok (o, s') => .ok (o, { last_value := o, instance_ := s' })

def peek {σ ο : Type} (w : WithLastValue σ ο) : ο := w.last_value
end WithLastValue

end Yata
