import YataModel.Basic
import YataModel.Window
