/-
  C15 for Vidya (an exponential average whose smoothing is scaled by |CMO| ∈ [0, 1]): every output is a convex
  combination of the input and the previous output, so it never leaves the hull of the values; and since |CMO| is
  invariant under x ↦ a·x + b (a ≠ 0), the average commutes with affine maps.
-/
import YataProofs.MALaws2
namespace Yata
variable {K : Type} [Field K] [LinearOrder K] [IsStrictOrderedRing K]

theorem posPart_nonneg (c : K) : 0 ≤ Spec.posPart c := by unfold Spec.posPart; split <;> linarith
theorem negPart_nonneg (c : K) : 0 ≤ Spec.negPart c := by unfold Spec.negPart; split <;> linarith

theorem sum_map_nonneg (f : K → K) (hf : ∀ c, 0 ≤ f c) (l : List K) : 0 ≤ (l.map f).sum := by
  induction l with
  | nil => simp
  | cons a t ih => simp only [List.map_cons, List.sum_cons]; have := hf a; linarith

/-- |up − dn| / (up + dn) ∈ [0, 1] for non-negative parts -/
theorem cmo_abs_range (up dn : K) (hu : 0 ≤ up) (hd : 0 ≤ dn) (hs : up + dn ≠ 0) :
    0 ≤ sabs ((up - dn) / (up + dn)) ∧ sabs ((up - dn) / (up + dn)) ≤ 1 := by
  have hpos : 0 < up + dn := lt_of_le_of_ne (by linarith) (Ne.symm hs)
  unfold sabs
  split
  · rename_i h
    constructor
    · linarith
    · rw [neg_le, le_div_iff₀ hpos]; linarith
  · rename_i h
    push_neg at h
    exact ⟨h, by rw [div_le_one hpos]; linarith⟩

/-- one Vidya step keeps the output inside any interval containing the input and the previous output -/
theorem vidya_step_hull (f up dn x out lo hi : K) (hf0 : 0 ≤ f) (hf1 : f ≤ 1) (hu : 0 ≤ up) (hd : 0 ≤ dn)
    (hs : up + dn ≠ 0) (hx : lo ≤ x ∧ x ≤ hi) (ho : lo ≤ out ∧ out ≤ hi) :
    lo ≤ x * (f * sabs ((up - dn) / (up + dn))) + (1 - f * sabs ((up - dn) / (up + dn))) * out ∧
    x * (f * sabs ((up - dn) / (up + dn))) + (1 - f * sabs ((up - dn) / (up + dn))) * out ≤ hi := by
  obtain ⟨c0, c1⟩ := cmo_abs_range up dn hu hd hs
  set c := f * sabs ((up - dn) / (up + dn)) with hc
  have h0 : 0 ≤ c := mul_nonneg hf0 c0
  have h1 : c ≤ 1 := by
    calc c ≤ 1 * 1 := mul_le_mul hf1 c1 c0 (by linarith)
      _ = 1 := one_mul 1
  constructor <;> nlinarith [hx.1, hx.2, ho.1, ho.2]

theorem foldl_range_inv {σ : Type} (P : σ → Prop) (step : σ → Nat → σ) (n : Nat) (s : σ) (h0 : P s)
    (hstep : ∀ s i, i < n → P s → P (step s i)) : P ((List.range n).foldl step s) := by
  induction n with
  | zero => simpa
  | succ k ih =>
    rw [List.range_succ, List.foldl_append]
    simp only [List.foldl_cons, List.foldl_nil]
    exact hstep _ k (by omega) (ih (fun s i hi hp => hstep s i (by omega) hp))

theorem vidya_alpha_range (n : Nat) (hn : 0 < n) :
    (0 : K) ≤ ((2 : Nat) : K) / ((n + 1 : Nat) : K) ∧ ((2 : Nat) : K) / ((n + 1 : Nat) : K) ≤ 1 :=
  ⟨(ema_alpha_range n hn).1, (ema_alpha_range n hn).2.1⟩

/-- C15 (range-preserving): Vidya never leaves the interval spanned by the construction value and the inputs -/
theorem vidya_hull [DecidableEq K] (n : Nat) (hn : 0 < n) (v : K) (xs : List K) (lo hi : K)
    (h : ∀ x ∈ v :: xs, lo ≤ x ∧ x ≤ hi) : lo ≤ Spec.vidya n v xs ∧ Spec.vidya n v xs ≤ hi := by
  unfold Spec.vidya
  simp only
  obtain ⟨f0, f1⟩ := vidya_alpha_range (K := K) n hn
  apply foldl_range_inv (fun out : K => lo ≤ out ∧ out ≤ hi)
  · exact h v (by simp)
  · intro out i hi' ho
    have hx : lo ≤ xs[i]?.getD v ∧ xs[i]?.getD v ≤ hi := by
      rw [List.getElem?_eq_getElem hi']
      exact h _ (by simp)
    split
    · exact hx
    · rename_i hs
      exact vidya_step_hull _ _ _ _ _ lo hi f0 f1 (sum_map_nonneg _ posPart_nonneg _) (sum_map_nonneg _ negPart_nonneg _) hs hx ho


/-! ### affine equivariance -/
theorem changes_affine (a b p : K) (xs : List K) :
    Spec.changes (a * p + b) (xs.map fun x => a * x + b) = (Spec.changes p xs).map (a * ·) := by
  induction xs generalizing p with
  | nil => rfl
  | cons x t ih => simp only [List.map_cons, Spec.changes, ih x]; congr 1; ring

theorem parts_scale_pos (a : K) (ha : 0 < a) (c : K) :
    Spec.posPart (a * c) = a * Spec.posPart c ∧ Spec.negPart (a * c) = a * Spec.negPart c := by
  unfold Spec.posPart Spec.negPart
  rcases lt_trichotomy c 0 with h | h | h
  · have : a * c < 0 := mul_neg_of_pos_of_neg ha h
    rw [if_neg (by linarith), if_neg (by linarith), if_pos this, if_pos h]; constructor <;> ring
  · subst h; simp
  · have : 0 < a * c := mul_pos ha h
    rw [if_pos this, if_pos h, if_neg (by linarith), if_neg (by linarith)]; constructor <;> ring

theorem parts_scale_neg (a : K) (ha : a < 0) (c : K) :
    Spec.posPart (a * c) = -a * Spec.negPart c ∧ Spec.negPart (a * c) = -a * Spec.posPart c := by
  unfold Spec.posPart Spec.negPart
  rcases lt_trichotomy c 0 with h | h | h
  · have : 0 < a * c := mul_pos_of_neg_of_neg ha h
    rw [if_pos this, if_pos h, if_neg (by linarith), if_neg (by linarith)]; constructor <;> ring
  · subst h; simp
  · have : a * c < 0 := mul_neg_of_neg_of_pos ha h
    rw [if_neg (by linarith), if_neg (by linarith), if_pos this, if_pos h]; constructor <;> ring

theorem sum_map_mul (a : K) (f : K → K) (l : List K) : (l.map fun c => a * f c).sum = a * (l.map f).sum := by
  induction l with
  | nil => simp
  | cons x t ih => simp only [List.map_cons, List.sum_cons, ih]; ring

/-- the two window sums of the scaled changes: scaled by |a|, swapped when a < 0 -/
theorem updn_scale (a : K) (ha : a ≠ 0) (w : List K) :
    (∃ s : K, 0 < s ∧
      ((w.map (a * ·)).map Spec.posPart).sum = s * (w.map Spec.posPart).sum ∧
      ((w.map (a * ·)).map Spec.negPart).sum = s * (w.map Spec.negPart).sum) ∨
    (∃ s : K, 0 < s ∧
      ((w.map (a * ·)).map Spec.posPart).sum = s * (w.map Spec.negPart).sum ∧
      ((w.map (a * ·)).map Spec.negPart).sum = s * (w.map Spec.posPart).sum) := by
  rcases lt_or_gt_of_ne ha with h | h
  · right
    refine ⟨-a, by linarith, ?_, ?_⟩
    · rw [List.map_map, ← sum_map_mul]; congr 1; apply List.map_congr_left; intro c _; exact (parts_scale_neg a h c).1
    · rw [List.map_map, ← sum_map_mul]; congr 1; apply List.map_congr_left; intro c _; exact (parts_scale_neg a h c).2
  · left
    refine ⟨a, h, ?_, ?_⟩
    · rw [List.map_map, ← sum_map_mul]; congr 1; apply List.map_congr_left; intro c _; exact (parts_scale_pos a h c).1
    · rw [List.map_map, ← sum_map_mul]; congr 1; apply List.map_congr_left; intro c _; exact (parts_scale_pos a h c).2

theorem sabs_neg' (x : K) : sabs (-x) = sabs x := by
  unfold sabs
  rcases lt_trichotomy x 0 with h | h | h
  · rw [if_neg (by linarith), if_pos h]
  · subst h; simp
  · rw [if_pos (by linarith), if_neg (by linarith)]; ring

theorem foldl_range_rel {σ : Type} (R : σ → σ → Prop) (f g : σ → Nat → σ) (n : Nat) (s t : σ) (h0 : R s t)
    (hstep : ∀ s t i, i < n → R s t → R (f s i) (g t i)) : R ((List.range n).foldl f s) ((List.range n).foldl g t) := by
  induction n with
  | zero => simpa
  | succ k ih =>
    rw [List.range_succ, List.foldl_append, List.foldl_append]
    simp only [List.foldl_cons, List.foldl_nil]
    exact hstep _ _ k (by omega) (ih (fun s t i hi hr => hstep s t i (by omega) hr))

/-- C15 (affine equivariance), a ≠ 0 -/
theorem vidya_affine [DecidableEq K] (n : Nat) (a b v : K) (ha : a ≠ 0) (xs : List K) :
    Spec.vidya n (a * v + b) (xs.map fun x => a * x + b) = a * Spec.vidya n v xs + b := by
  unfold Spec.vidya
  simp only [List.length_map]
  apply foldl_range_rel (fun o' o : K => o' = a * o + b)
  · rfl
  · intro o' o i hi hr
    have hx : (xs.map fun x => a * x + b)[i]?.getD (a * v + b) = a * xs[i]?.getD v + b := by
      rw [List.getElem?_map, List.getElem?_eq_getElem hi]; rfl
    -- the window of scaled changes
    have hw : lastN n (List.replicate n 0 ++ (Spec.changes (a * v + b) (xs.map fun x => a * x + b)).take (i + 1)) =
        (lastN n (List.replicate n 0 ++ (Spec.changes v xs).take (i + 1))).map (a * ·) := by
      rw [changes_affine, ← List.map_take, ← lastN_map]
      congr 1
      rw [List.map_append, List.map_replicate, mul_zero]
    simp only [hx, hw]
    set w := lastN n (List.replicate n 0 ++ (Spec.changes v xs).take (i + 1))
    set U := (w.map Spec.posPart).sum
    set D := (w.map Spec.negPart).sum
    rcases updn_scale a ha w with ⟨s, hs, e1, e2⟩ | ⟨s, hs, e1, e2⟩
    · rw [e1, e2]
      have hz : s * U + s * D = 0 ↔ U + D = 0 := by
        rw [← mul_add]; constructor
        · intro h; rcases mul_eq_zero.mp h with h | h; · linarith
          exact h
        · intro h; rw [h, mul_zero]
      by_cases hud : U + D = 0
      · rw [if_pos (hz.mpr hud), if_pos hud]
      · rw [if_neg (fun h => hud (hz.mp h)), if_neg hud]
        have : (s * U - s * D) / (s * U + s * D) = (U - D) / (U + D) := by
          rw [← mul_sub, ← mul_add, mul_div_mul_left _ _ (ne_of_gt hs)]
        rw [this, hr]; ring
    · rw [e1, e2]
      have hz : s * D + s * U = 0 ↔ U + D = 0 := by
        rw [← mul_add, add_comm D U]; constructor
        · intro h; rcases mul_eq_zero.mp h with h | h; · linarith
          exact h
        · intro h; rw [h, mul_zero]
      by_cases hud : U + D = 0
      · rw [if_pos (hz.mpr hud), if_pos hud]
      · rw [if_neg (fun h => hud (hz.mp h)), if_neg hud]
        have : (s * D - s * U) / (s * D + s * U) = -((U - D) / (U + D)) := by
          rw [← mul_sub, ← mul_add, mul_div_mul_left _ _ (ne_of_gt hs), add_comm D U, ← neg_sub U D, neg_div]
        rw [this, sabs_neg', hr]; ring

end Yata
