/-
  Vidya after the `fix:` that clamps |CMO| to 1: one step is a convex combination of the input and the previous output
  whatever the two never-recomputed running sums contain, so rounding residue cannot drive the output out of the range
  of the data (before the clamp the smoothing factor f*|up-dn|/(up+dn) was unbounded on residue and the output grew
  geometrically on a flat stretch: 1e102 after a few hundred flat inputs in the C07 long suite).
-/
import YataProofs.VidyaLaws
import YataProofs.Candle
namespace Yata
variable {K : Type} [Field K] [LinearOrder K] [IsStrictOrderedRing K]

theorem smin_sabs_range (q : K) : 0 ≤ smin (sabs q) 1 ∧ smin (sabs q) 1 ≤ 1 := by
  have h0 : 0 ≤ sabs q := by rw [sabs_eq_abs]; exact abs_nonneg q
  unfold smin
  split
  · exact ⟨by norm_num, le_refl _⟩
  · rename_i h; exact ⟨h0, not_lt.mp h⟩

/-- **robust hull**: whatever the two running sums hold (rounding residue of either sign included), one step of the
    implementation returns a value between the input and the previous output, provided `0 ≤ f ≤ 1` -/
theorem Vidya.next_between [DecidableEq K] (s : Vidya K) (x o : K) (s' : Vidya K) (hf0 : 0 ≤ s.f) (hf1 : s.f ≤ 1)
    (h : s.next x = .ok (o, s')) :
    min x s.last_output ≤ o ∧ o ≤ max x s.last_output ∧ s'.last_output = o ∧ s'.f = s.f := by
  unfold Vidya.next at h
  simp only at h
  cases hp : s.window.push (x - s.last_input) with
  | error e => rw [hp] at h; cases h
  | ok r =>
    obtain ⟨left, w⟩ := r
    rw [hp] at h
    simp only [Except.ok.injEq, Prod.mk.injEq] at h
    obtain ⟨ho, hs⟩ := h
    subst hs
    refine ⟨?_, ?_, ho, rfl⟩ <;> rw [← ho] <;> clear ho
    all_goals
      split
      · generalize hk : s.f * smin (sabs _) 1 = k
        have hk0 : 0 ≤ k := by rw [← hk]; exact mul_nonneg hf0 (smin_sabs_range _).1
        have hk1 : k ≤ 1 := by
          rw [← hk]; calc s.f * _ ≤ 1 * 1 := mul_le_mul hf1 (smin_sabs_range _).2 (smin_sabs_range _).1 (by norm_num)
            _ = 1 := by norm_num
        rcases le_total x s.last_output with hle | hle
        · first
            | (rw [min_eq_left hle]; nlinarith)
            | (rw [max_eq_right hle]; nlinarith)
        · first
            | (rw [min_eq_right hle]; nlinarith)
            | (rw [max_eq_left hle]; nlinarith)
      · first | exact min_le_left _ _ | exact le_max_left _ _
end Yata

namespace Yata
variable {K : Type} [Field K] [LinearOrder K] [IsStrictOrderedRing K]

/-- **robust hull over a run**: started in ANY state (the two sums may hold anything) with `0 ≤ f ≤ 1` and the
    previous output inside `[lo, hi]`, every output of a run over inputs from `[lo, hi]` stays inside `[lo, hi]`:
    residue in the never-recomputed sums cannot make the average leave the range of the data -/
theorem Vidya.run_hull_any_state [DecidableEq K] (lo hi : K) :
    ∀ (xs : List K) (s : Vidya K) (os : List K) (s' : Vidya K), 0 ≤ s.f → s.f ≤ 1 →
      lo ≤ s.last_output → s.last_output ≤ hi → (∀ x ∈ xs, lo ≤ x ∧ x ≤ hi) →
      runM Vidya.next s xs = .ok (os, s') → ∀ o ∈ os, lo ≤ o ∧ o ≤ hi := by
  intro xs
  induction xs with
  | nil => intro s os s' _ _ _ _ _ h; simp [runM] at h; obtain ⟨rfl, _⟩ := h; simp
  | cons x xs ih =>
    intro s os s' hf0 hf1 hl hh hx h
    unfold runM at h
    cases hn : s.next x with
    | error e => rw [hn] at h; cases h
    | ok r =>
      obtain ⟨o, s1⟩ := r
      rw [hn] at h
      simp only at h
      cases hr : runM Vidya.next s1 xs with
      | error e => rw [hr] at h; cases h
      | ok r2 =>
        obtain ⟨os2, s2⟩ := r2
        rw [hr] at h
        simp only [Except.ok.injEq, Prod.mk.injEq] at h
        obtain ⟨rfl, rfl⟩ := h
        obtain ⟨h1, h2, h3, h4⟩ := Vidya.next_between s x o s1 hf0 hf1 hn
        have hxr := hx x (by simp)
        have hol : lo ≤ o := le_trans (le_min hxr.1 hl) h1
        have hoh : o ≤ hi := le_trans h2 (max_le hxr.2 hh)
        intro o' ho'
        rcases List.mem_cons.mp ho' with rfl | hm
        · exact ⟨hol, hoh⟩
        · exact ih s1 os2 s2 (h4 ▸ hf0) (h4 ▸ hf1) (h3 ▸ hol) (h3 ▸ hoh) (fun y hy => hx y (by simp [hy])) hr o' hm
end Yata
