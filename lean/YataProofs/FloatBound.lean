/-
  A formal rounding-error bound for the SMA update (DESIGN §3.2): under the standard model of floating-point arithmetic
  (every operation returns the exact result with relative error at most `u`; no overflow / underflow) the running value
  `value += (x − prev) * divider` departs from the exact mean by at most

      t · (1+u)^t · u · M · (1 + 6(1+u)³/n)

  after `t` steps, where `M` bounds the inputs (hence the exact means) — i.e. the drift grows (at most) linearly in `t`
  as long as `t·u ≪ 1`, which is the shape of the allowance `C·ε·(t+n)·M` used by the correspondence run.
-/
import YataProofs.MALaws
import YataProofs.Numeric.SMA
import Mathlib.Tactic.Linarith
import Mathlib.Tactic.Positivity
namespace Yata.FloatBound
variable {K : Type} [Field K] [LinearOrder K] [IsStrictOrderedRing K]

/-- the float SMA recursion over a list of (incoming, leaving) pairs -/
def smaFl (fl : K → K) (d : K) : K → List (K × K) → K
  | v, [] => v
  | v, (x, p) :: t => smaFl fl d (fl (v + fl (fl (x - p) * d))) t

/-- the exact recursion -/
def smaEx (n : K) : K → List (K × K) → K
  | e, [] => e
  | e, (x, p) :: t => smaEx n (e + (x - p) / n) t

/-- inputs and every intermediate exact value bounded by `M` -/
def Bounded (n M : K) : K → List (K × K) → Prop
  | _, [] => True
  | e, (x, p) :: t => |x| ≤ M ∧ |p| ≤ M ∧ |e + (x - p) / n| ≤ M ∧ Bounded n M (e + (x - p) / n) t

/-- one step -/
theorem step_bound (fl : K → K) (u : K) (hu : 0 ≤ u) (hfl : ∀ x, |fl x - x| ≤ u * |x|)
    (n : K) (hn : 0 < n) (d : K) (hd : |d - 1 / n| ≤ u / n) (M : K) (v e x p : K)
    (hx : |x| ≤ M) (hp : |p| ≤ M) (he' : |e + (x - p) / n| ≤ M) :
    |fl (v + fl (fl (x - p) * d)) - (e + (x - p) / n)| ≤
      (1 + u) * |v - e| + u * M * (1 + 6 * (1 + u) ^ 3 / n) := by
  have hM : 0 ≤ M := le_trans (abs_nonneg x) hx
  set a := x - p with ha
  have habs : |a| ≤ 2 * M := by
    calc |a| = |x - p| := rfl
      _ ≤ |x| + |p| := abs_sub x p
      _ ≤ 2 * M := by linarith
  set a1 := fl a with ha1
  have h1 : |a1 - a| ≤ u * |a| := hfl a
  have h1' : |a1| ≤ (1 + u) * |a| := by
    calc |a1| = |(a1 - a) + a| := by ring_nf
      _ ≤ |a1 - a| + |a| := abs_add_le _ _
      _ ≤ (1 + u) * |a| := by linarith
  -- b = a1 * d against a / n
  have hdabs : |d| ≤ (1 + u) / n := by
    calc |d| = |(d - 1 / n) + 1 / n| := by ring_nf
      _ ≤ |d - 1 / n| + |1 / n| := abs_add_le _ _
      _ ≤ u / n + 1 / n := by rw [abs_of_pos (by positivity : (0 : K) < 1 / n)]; linarith
      _ = (1 + u) / n := by ring
  have hb : |a1 * d - a / n| ≤ u * |a| * (2 + u) / n := by
    have e1 : a1 * d - a / n = a1 * (d - 1 / n) + (a1 - a) * (1 / n) := by ring
    rw [e1]
    calc |a1 * (d - 1 / n) + (a1 - a) * (1 / n)| ≤ |a1 * (d - 1 / n)| + |(a1 - a) * (1 / n)| := abs_add_le _ _
      _ = |a1| * |d - 1 / n| + |a1 - a| * (1 / n) := by
          rw [abs_mul, abs_mul, abs_of_pos (by positivity : (0 : K) < 1 / n)]
      _ ≤ (1 + u) * |a| * (u / n) + u * |a| * (1 / n) := by
          have := mul_le_mul h1' hd (abs_nonneg _) (by positivity)
          have := mul_le_mul_of_nonneg_right h1 (by positivity : (0 : K) ≤ 1 / n)
          linarith
      _ = u * |a| * (2 + u) / n := by ring
  have hbabs : |a1 * d| ≤ (1 + u) ^ 2 * |a| / n := by
    rw [abs_mul]
    calc |a1| * |d| ≤ ((1 + u) * |a|) * ((1 + u) / n) := mul_le_mul h1' hdabs (abs_nonneg _) (by positivity)
      _ = (1 + u) ^ 2 * |a| / n := by ring
  set b1 := fl (a1 * d) with hb1
  have h2 : |b1 - a1 * d| ≤ u * |a1 * d| := hfl _
  have hη : |b1 - a / n| ≤ 6 * u * (1 + u) ^ 2 * M / n := by
    calc |b1 - a / n| = |(b1 - a1 * d) + (a1 * d - a / n)| := by ring_nf
      _ ≤ |b1 - a1 * d| + |a1 * d - a / n| := abs_add_le _ _
      _ ≤ u * ((1 + u) ^ 2 * |a| / n) + u * |a| * (2 + u) / n := by
          have := mul_le_mul_of_nonneg_left hbabs hu
          linarith
      _ = u * |a| / n * ((1 + u) ^ 2 + (2 + u)) := by ring
      _ ≤ u * |a| / n * (3 * (1 + u) ^ 2) := by
          apply mul_le_mul_of_nonneg_left _ (by positivity)
          nlinarith [sq_nonneg u]
      _ ≤ u * (2 * M) / n * (3 * (1 + u) ^ 2) := by
          apply mul_le_mul_of_nonneg_right _ (by positivity)
          apply div_le_div_of_nonneg_right _ (le_of_lt hn)
          exact mul_le_mul_of_nonneg_left habs hu
      _ = 6 * u * (1 + u) ^ 2 * M / n := by ring
  set s := v + b1 with hs
  have h3 : |fl s - s| ≤ u * |s| := hfl s
  have hse : s - (e + a / n) = (v - e) + (b1 - a / n) := by ring
  have hse' : |s - (e + a / n)| ≤ |v - e| + 6 * u * (1 + u) ^ 2 * M / n := by
    rw [hse]
    calc |(v - e) + (b1 - a / n)| ≤ |v - e| + |b1 - a / n| := abs_add_le _ _
      _ ≤ _ := by linarith
  have hsabs : |s| ≤ M + |v - e| + 6 * u * (1 + u) ^ 2 * M / n := by
    calc |s| = |(s - (e + a / n)) + (e + a / n)| := by ring_nf
      _ ≤ |s - (e + a / n)| + |e + a / n| := abs_add_le _ _
      _ ≤ _ := by linarith
  calc |fl s - (e + a / n)| = |(fl s - s) + (s - (e + a / n))| := by ring_nf
    _ ≤ |fl s - s| + |s - (e + a / n)| := abs_add_le _ _
    _ ≤ u * (M + |v - e| + 6 * u * (1 + u) ^ 2 * M / n) + (|v - e| + 6 * u * (1 + u) ^ 2 * M / n) := by
        have := mul_le_mul_of_nonneg_left hsabs hu
        linarith
    _ = (1 + u) * |v - e| + u * M * (1 + 6 * (1 + u) ^ 3 / n) := by ring

/-- the drift after a whole run -/
theorem run_bound (fl : K → K) (u : K) (hu : 0 ≤ u) (hfl : ∀ x, |fl x - x| ≤ u * |x|)
    (n : K) (hn : 0 < n) (d : K) (hd : |d - 1 / n| ≤ u / n) (M : K) (steps : List (K × K)) (v e : K)
    (hb : Bounded n M e steps) :
    |smaFl fl d v steps - smaEx n e steps| ≤
      (1 + u) ^ steps.length * |v - e| + (steps.length : K) * (1 + u) ^ steps.length * (u * M * (1 + 6 * (1 + u) ^ 3 / n)) := by
  induction steps generalizing v e with
  | nil => simp [smaFl, smaEx]
  | cons xp t ih =>
    obtain ⟨x, p⟩ := xp
    obtain ⟨hx, hp, he', hrest⟩ := hb
    have hM : 0 ≤ M := le_trans (abs_nonneg x) hx
    have hs := step_bound fl u hu hfl n hn d hd M v e x p hx hp he'
    have := ih (fl (v + fl (fl (x - p) * d))) (e + (x - p) / n) hrest
    simp only [smaFl, smaEx, List.length_cons]
    set c := u * M * (1 + 6 * (1 + u) ^ 3 / n) with hc
    have hc0 : 0 ≤ c := by positivity
    have hpow : (0 : K) ≤ (1 + u) ^ t.length := by positivity
    have h1u : (1 : K) ≤ 1 + u := by linarith
    calc |smaFl fl d (fl (v + fl (fl (x - p) * d))) t - smaEx n (e + (x - p) / n) t|
        ≤ (1 + u) ^ t.length * |fl (v + fl (fl (x - p) * d)) - (e + (x - p) / n)| + (t.length : K) * (1 + u) ^ t.length * c := this
      _ ≤ (1 + u) ^ t.length * ((1 + u) * |v - e| + c) + (t.length : K) * (1 + u) ^ t.length * c := by
          have := mul_le_mul_of_nonneg_left hs hpow
          linarith
      _ ≤ (1 + u) ^ (t.length + 1) * |v - e| + ((t.length + 1 : Nat) : K) * (1 + u) ^ (t.length + 1) * c := by
          have e1 : (1 + u) ^ (t.length + 1) = (1 + u) ^ t.length * (1 + u) := pow_succ _ _
          have hle : (1 + u) ^ t.length ≤ (1 + u) ^ (t.length + 1) := by rw [e1]; nlinarith
          have hcpos : 0 ≤ (1 + u) ^ t.length * c := mul_nonneg hpow hc0
          have htl : (0 : K) ≤ (t.length : K) := Nat.cast_nonneg _
          rw [e1]
          push_cast
          nlinarith [mul_nonneg htl hcpos, mul_nonneg (mul_nonneg htl hcpos) hu, mul_nonneg hcpos hu]

/-- from an exact start (the construction value is stored exactly) -/
theorem drift_linear (fl : K → K) (u : K) (hu : 0 ≤ u) (hfl : ∀ x, |fl x - x| ≤ u * |x|)
    (n : K) (hn : 0 < n) (d : K) (hd : |d - 1 / n| ≤ u / n) (M : K) (steps : List (K × K)) (v0 : K)
    (hb : Bounded n M v0 steps) :
    |smaFl fl d v0 steps - smaEx n v0 steps| ≤
      (steps.length : K) * (1 + u) ^ steps.length * (u * M * (1 + 6 * (1 + u) ^ 3 / n)) := by
  have := run_bound fl u hu hfl n hn d hd M steps v0 v0 hb
  simpa using this


/-! ### tie to the model: the exact recursion is the model's own update, and bounded inputs give `Bounded` -/

/-- the (incoming, leaving) pairs of the model's run from the state `s` -/
def pairsOfRun (s : SMA K) : List K → List (K × K)
  | [] => []
  | x :: t =>
    match s.window.push x with
    | .ok (prev, w) => (x, prev) :: pairsOfRun { s with value := s.value + (x - prev) * s.divider, window := w } t
    | .error _ => []

theorem mean_abs_le (n : Nat) (hn : 0 < n) (l : List K) (hl : l.length = n) (M : K) (h : ∀ x ∈ l, |x| ≤ M) :
    |Spec.mean n l| ≤ M := by
  have hb := sum_bounds (-M) M l (fun x hx => abs_le.mp (h x hx))
  have hnK : (0 : K) < (n : K) := by exact_mod_cast hn
  rw [hl] at hb
  unfold Spec.mean
  rw [abs_le]
  constructor
  · rw [le_div_iff₀ hnK]; nlinarith [hb.1]
  · rw [div_le_iff₀ hnK]; nlinarith [hb.2]

/-- from an invariant model state whose history is bounded by `M`, every stream bounded by `M`: the model's run is the
    exact recursion over its own (incoming, leaving) pairs, and that chain is `Bounded` -/
theorem model_run {P n : Nat} (hn : 0 < n) (M : K) :
    ∀ (xs : List K) (hist : List K) (s : SMA K), SMA.Inv P n hist s → (∀ x ∈ hist, |x| ≤ M) → (∀ x ∈ xs, |x| ≤ M) →
      (pairsOfRun s xs).length = xs.length ∧ Bounded (n : K) M s.value (pairsOfRun s xs) ∧
      ∃ outs s', runM SMA.next s xs = .ok (outs, s') ∧ s'.value = smaEx (n : K) s.value (pairsOfRun s xs) := by
  intro xs
  induction xs with
  | nil => intro hist s _ _ _; exact ⟨rfl, trivial, [], s, rfl, rfl⟩
  | cons x t ih =>
    intro hist s hinv hh hx
    obtain ⟨old, w', hp, ht', hhead⟩ := hinv.tracks.push hn x
    obtain ⟨o, s1, hnext, hinv1, ho⟩ := SMA.next_spec x hn hinv
    have hs1 : s1 = { s with value := s.value + (x - old) * s.divider, window := w' } := by
      simp only [SMA.next, hp] at hnext
      exact ((Prod.mk.inj (Except.ok.inj hnext)).2).symm
    have hold : |old| ≤ M := by
      have : old ∈ lastN n hist := List.mem_of_mem_head? hhead
      exact hh old (List.mem_of_mem_drop this)
    have hh1 : ∀ y ∈ hist ++ [x], |y| ≤ M := by
      intro y hy
      rcases List.mem_append.mp hy with hy | hy
      · exact hh y hy
      · simp at hy; rw [hy]; exact hx x (by simp)
    obtain ⟨hl, hb, outs, s', hr, hv⟩ := ih (hist ++ [x]) s1 hinv1 hh1 (fun y hy => hx y (by simp [hy]))
    have hstep : s.value + (x - old) / (n : K) = s1.value := by
      rw [hs1, hinv.divider]; ring
    have hlen1 : (lastN n (hist ++ [x])).length = n :=
      lastN_length (by simp only [List.length_append, List.length_singleton]; have := hinv.tracks.len; omega)
    have hbound : |s.value + (x - old) / (n : K)| ≤ M := by
      rw [hstep, hinv1.value]
      exact mean_abs_le n hn _ hlen1 M (fun y hy => hh1 y (List.mem_of_mem_drop hy))
    have hpairs : pairsOfRun s (x :: t) = (x, old) :: pairsOfRun s1 t := by
      simp only [pairsOfRun, hp, hs1]
    rw [hpairs]
    refine ⟨by simp [hl], ⟨hx x (by simp), hold, hbound, by rw [hstep]; exact hb⟩, o :: outs, s', ?_, ?_⟩
    · simp [runM, hnext, hr]
    · simp only [smaEx]; rw [hstep]; exact hv

/-- C07 for SMA under the standard model of rounding: the float recursion run over the model's own pairs stays within the
    linear bound of the exact model's value, for every stream bounded by `M` -/
theorem sma_float_drift {P n : Nat} (hn : 0 < n) (M : K) (fl : K → K) (u : K) (hu : 0 ≤ u)
    (hfl : ∀ x, |fl x - x| ≤ u * |x|) (d : K) (hd : |d - 1 / (n : K)| ≤ u / (n : K))
    (xs hist : List K) (s : SMA K) (hinv : SMA.Inv P n hist s) (hh : ∀ x ∈ hist, |x| ≤ M) (hx : ∀ x ∈ xs, |x| ≤ M) :
    ∃ outs s', runM SMA.next s xs = .ok (outs, s') ∧
      |smaFl fl d s.value (pairsOfRun s xs) - s'.value| ≤
        (xs.length : K) * (1 + u) ^ xs.length * (u * M * (1 + 6 * (1 + u) ^ 3 / (n : K))) := by
  obtain ⟨hl, hb, outs, s', hr, hv⟩ := model_run (P := P) hn M xs hist s hinv hh hx
  refine ⟨outs, s', hr, ?_⟩
  have hnK : (0 : K) < (n : K) := by exact_mod_cast hn
  have := drift_linear fl u hu hfl (n : K) hnK d hd M (pairsOfRun s xs) s.value hb
  rw [hl] at this
  rw [hv]; exact this

end Yata.FloatBound
