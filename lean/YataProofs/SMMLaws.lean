/-
  C15 for the moving median (SMM): it commutes with every affine map x ↦ a·x + b (increasing or decreasing — sorting a
  reflected window reverses it and the two middle elements swap) and stays inside the hull of the values.
-/
import YataProofs.MALaws2
import Mathlib.Data.List.Sort
namespace Yata
variable {K : Type} [Field K] [LinearOrder K] [IsStrictOrderedRing K]

theorem sort_pairwise (l : List K) : (Spec.sort l).Pairwise (· ≤ ·) := by
  have := List.pairwise_mergeSort (le := fun a b : K => decide (a ≤ b))
    (fun a b c hab hbc => by simp only [decide_eq_true_eq] at *; exact le_trans hab hbc)
    (fun a b => by simp only [Bool.or_eq_true, decide_eq_true_eq]; exact le_total a b) l
  exact this.imp (fun h => by simpa using h)

theorem sort_perm (l : List K) : (Spec.sort l).Perm l := List.mergeSort_perm _ _

theorem sort_length (l : List K) : (Spec.sort l).length = l.length := (sort_perm l).length_eq

/-- the ascending sort is determined by the multiset -/
theorem sort_unique (l s : List K) (hp : s.Perm l) (hs : s.Pairwise (· ≤ ·)) : Spec.sort l = s :=
  List.Perm.eq_of_pairwise' (r := (· ≤ ·)) (sort_pairwise l) hs ((sort_perm l).trans hp.symm)

theorem sort_map_increasing (a b : K) (ha : 0 < a) (l : List K) :
    Spec.sort (l.map fun x => a * x + b) = (Spec.sort l).map fun x => a * x + b := by
  apply sort_unique
  · exact (sort_perm l).map _
  · rw [List.pairwise_map]
    exact (sort_pairwise l).imp (fun h => by nlinarith)

theorem sort_map_decreasing (a b : K) (ha : a < 0) (l : List K) :
    Spec.sort (l.map fun x => a * x + b) = ((Spec.sort l).map fun x => a * x + b).reverse := by
  apply sort_unique
  · exact (List.reverse_perm _).trans ((sort_perm l).map _)
  · rw [List.pairwise_reverse, List.pairwise_map]
    exact (sort_pairwise l).imp (fun h => by nlinarith)

/-- the median as the half-sum of two positions of the sorted list -/
theorem median_eq (l : List K) :
    Spec.median l = (((Spec.sort l)[l.length / 2]?.getD 0) +
      ((Spec.sort l)[if l.length % 2 = 0 then l.length / 2 - 1 else l.length / 2]?.getD 0)) * (1 / ((2 : Nat) : K)) := rfl

theorem median_affine (a b : K) (ha : a ≠ 0) (l : List K) (hl : 0 < l.length) :
    Spec.median (l.map fun x => a * x + b) = a * Spec.median l + b := by
  rw [median_eq, median_eq, List.length_map]
  set n := l.length with hn
  set s := Spec.sort l with hs
  have hsl : s.length = n := sort_length l
  set h1 := n / 2
  set h2 := if n % 2 = 0 then n / 2 - 1 else n / 2 with hh2
  have b1 : h1 < n := Nat.div_lt_self hl (by norm_num)
  have b2 : h2 < n := by rw [hh2]; split <;> omega
  have two : ((2 : Nat) : K) ≠ 0 := by norm_num
  rcases lt_or_gt_of_ne ha with hneg | hpos
  · rw [sort_map_decreasing a b hneg l]
    -- reversed: position i of the new sort is position n−1−i of the old one
    have r1 : (((s.map fun x => a * x + b).reverse)[h1]?).getD 0 = a * (s[n - 1 - h1]?.getD 0) + b := by
      rw [List.getElem?_reverse (by simp [hsl]; exact b1), List.length_map, hsl, List.getElem?_map,
        List.getElem?_eq_getElem (by rw [hsl]; omega)]
      simp
    have r2 : (((s.map fun x => a * x + b).reverse)[h2]?).getD 0 = a * (s[n - 1 - h2]?.getD 0) + b := by
      rw [List.getElem?_reverse (by simp [hsl]; exact b2), List.length_map, hsl, List.getElem?_map,
        List.getElem?_eq_getElem (by rw [hsl]; omega)]
      simp
    rw [r1, r2]
    -- the two positions swap
    have sw1 : n - 1 - h1 = h2 := by rw [hh2]; split <;> omega
    have sw2 : n - 1 - h2 = h1 := by rw [hh2]; split <;> omega
    rw [sw1, sw2]
    field_simp; ring
  · rw [sort_map_increasing a b hpos l]
    have r1 : ((s.map fun x => a * x + b)[h1]?).getD 0 = a * (s[h1]?.getD 0) + b := by
      rw [List.getElem?_map, List.getElem?_eq_getElem (by rw [hsl]; exact b1)]; simp
    have r2 : ((s.map fun x => a * x + b)[h2]?).getD 0 = a * (s[h2]?.getD 0) + b := by
      rw [List.getElem?_map, List.getElem?_eq_getElem (by rw [hsl]; exact b2)]; simp
    rw [r1, r2]
    field_simp; ring

theorem median_hull (l : List K) (hl : 0 < l.length) (lo hi : K) (h : ∀ x ∈ l, lo ≤ x ∧ x ≤ hi) :
    lo ≤ Spec.median l ∧ Spec.median l ≤ hi := by
  rw [median_eq]
  set n := l.length
  set s := Spec.sort l
  have hsl : s.length = n := sort_length l
  have b1 : n / 2 < n := Nat.div_lt_self hl (by norm_num)
  have b2 : (if n % 2 = 0 then n / 2 - 1 else n / 2) < n := by split <;> omega
  have m1 : lo ≤ s[n / 2]?.getD 0 ∧ s[n / 2]?.getD 0 ≤ hi := by
    rw [List.getElem?_eq_getElem (by rw [hsl]; exact b1)]
    exact h _ ((sort_perm l).mem_iff.mp (List.getElem_mem _))
  have m2 : lo ≤ s[if n % 2 = 0 then n / 2 - 1 else n / 2]?.getD 0 ∧ s[if n % 2 = 0 then n / 2 - 1 else n / 2]?.getD 0 ≤ hi := by
    rw [List.getElem?_eq_getElem (by rw [hsl]; exact b2)]
    exact h _ ((sort_perm l).mem_iff.mp (List.getElem_mem _))
  have : (1 : K) / ((2 : Nat) : K) = 1 / 2 := by norm_num
  rw [this]
  constructor <;> linarith [m1.1, m1.2, m2.1, m2.2]

theorem smm_affine (n : Nat) (hn : 0 < n) (a b v : K) (ha : a ≠ 0) (xs : List K) :
    Spec.smm n (a * v + b) (xs.map fun x => a * x + b) = a * Spec.smm n v xs + b := by
  unfold Spec.smm Spec.win
  rw [win_map (fun x => a * x + b)]
  exact median_affine a b ha _ (by rw [win_length]; exact hn)

theorem smm_hull (n : Nat) (hn : 0 < n) (v : K) (xs : List K) (lo hi : K)
    (h : ∀ x ∈ v :: xs, lo ≤ x ∧ x ≤ hi) : lo ≤ Spec.smm n v xs ∧ Spec.smm n v xs ≤ hi := by
  unfold Spec.smm Spec.win
  exact median_hull _ (by rw [win_length]; exact hn) lo hi (fun x hx => h x (mem_win _ _ _ _ hx))

end Yata
