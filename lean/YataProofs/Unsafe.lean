/-
  In-bounds facts for every unchecked access of the `unsafe_performance` build
  (src/core/window.rs, src/methods/smm.rs), stated on the model under the representation invariant.
-/
import YataProofs.Window
import YataModel.Methods.Basic
namespace Yata
namespace Window
variable {α : Type} {P : Nat}

/-- `push` / `oldest`: `buf.get_unchecked(_mut)(self.index)` -/
theorem inb_index {w : Window α} (h : Inv P w) (hpos : 0 < w.size) : w.index < w.buf.length := by
  have := h.size_eq; have := h.idx_lt; omega

/-- `newest`: `index.checked_sub(1).unwrap_or(s_1)` -/
theorem inb_newest {w : Window α} (h : Inv P w) (hpos : 0 < w.size) :
    (checkedSub w.index 1).getD w.s_1 < w.buf.length := by
  have := h.size_eq; have := h.idx_lt; have := h.s1_eq
  unfold checkedSub
  split <;> simp <;> omega

/-- `Index`: whenever `slice_index` returns `Some(i)`, `i` is inside the buffer -/
theorem inb_slice_index {w : Window α} (h : Inv P w) (k : Nat) (hk : k < w.size) :
    ∃ bi, sliceIndex P w k = .ok (some bi) ∧ bi < w.buf.length := by
  refine ⟨_, sliceIndex_spec h k hk, ?_⟩
  have := h.size_eq; have := h.idx_lt
  split <;> omega

/-- `WindowIterator::next`: the cursor after the update -/
theorem inb_iter {w : Window α} {it : Iter} {j : Nat} (h : Inv P w) (hit : IterInv w it j) (hj : j < w.size) :
    satSub it.index 1 + (if it.index = 0 then 1 else 0) * w.s_1 < w.buf.length := by
  obtain ⟨hs, hs1, hi, hle⟩ := h
  obtain ⟨_, _, hix⟩ := hit
  unfold satSub
  by_cases h0 : it.index = 0
  · rw [if_pos h0, h0]; omega
  · rw [if_neg h0]; split at hix <;> omega

/-- `ReversedWindowIterator::next`: the cursor before the update -/
theorem inb_iter_rev {w : Window α} {it : Iter} {j : Nat} (h : Inv P w) (hit : IterRevInv w it j) (hj : j < w.size) :
    it.index < w.buf.length := by
  obtain ⟨hs, hs1, hi, hle⟩ := h
  obtain ⟨_, _, hix⟩ := hit
  rw [hix]; split <;> omega

end Window

/-! ### SMM: the `ptr::copy` arm -/

/-- the unsafe arm of `SMM::next`: `start`, `dest`, `count` computed branch-free, then
    `ptr::copy(slice + start, slice + dest, count)` (a memmove) -/
def smmUnsafeArgs (oldIndex index : Nat) : Nat × Nat × Nat :=
  let ia := if index > oldIndex then 1 else 0
  ((oldIndex + 1) * ia + index * (1 - ia),
   oldIndex * ia + (index + 1) * (1 - ia),
   (index - oldIndex) * ia + (oldIndex - index) * (1 - ia))

def smmUnsafeShift {β : Type} (l : List β) (oldIndex index : Nat) : List β :=
  if index ≠ oldIndex then
    let (start, dest, count) := smmUnsafeArgs oldIndex index
    copyWithin l start (start + count) dest
  else l

/-- the safe arm: `copy_within((old+1)..=index, old)` / `copy_within(index..old, index+1)` -/
def smmSafeShift {β : Type} (l : List β) (oldIndex index : Nat) : List β :=
  if index > oldIndex then copyWithin l (oldIndex + 1) (index + 1) oldIndex
  else if index < oldIndex then copyWithin l index oldIndex (index + 1)
  else l

theorem smmUnsafeShift_eq_safe {β : Type} (l : List β) (o i : Nat) : smmUnsafeShift l o i = smmSafeShift l o i := by
  unfold smmUnsafeShift smmSafeShift smmUnsafeArgs
  by_cases h1 : i > o
  · have : i ≠ o := by omega
    simp only [this, ne_eq, not_false_eq_true, ↓reduceIte, h1, Nat.mul_one, Nat.sub_self, Nat.mul_zero, Nat.add_zero]
    congr 1; omega
  · by_cases h2 : i < o
    · have : i ≠ o := by omega
      simp only [this, ne_eq, not_false_eq_true, ↓reduceIte, h1, Nat.mul_zero, Nat.sub_zero, Nat.mul_one, Nat.zero_add, h2]
      congr 1; omega
    · have : i = o := by omega
      simp [this]

/-- source and destination ranges of the `ptr::copy` stay inside the slice of length `n` -/
theorem smmUnsafe_in_bounds (n o i : Nat) (ho : o < n) (hi : i < n) :
    let (start, dest, count) := smmUnsafeArgs o i
    start + count ≤ n ∧ dest + count ≤ n := by
  unfold smmUnsafeArgs
  by_cases h1 : i > o
  · simp only [h1, ↓reduceIte, Nat.mul_one, Nat.sub_self, Nat.mul_zero, Nat.add_zero]; omega
  · simp only [h1, ↓reduceIte, Nat.mul_zero, Nat.sub_zero, Nat.mul_one, Nat.zero_add]; omega

end Yata
