/-
  `Action::from(f64)` is monotone on the bit level: `strength` (|x|·255 rounded to binary64, then rounded half away from
  zero) never decreases when the magnitude (exponent field, mantissa field — lexicographic, i.e. the bit pattern without
  its sign) increases.
-/
import YataProofs.Action
import YataProofs.ActMono
import Mathlib.Tactic.Linarith
set_option maxRecDepth 100000
namespace Yata.F64

/-! ### round-to-nearest-even shift: monotone, exact on multiples -/
theorem shrRne_multiple (c k : Nat) : shrRne (c * 2 ^ k) k = c := by
  unfold shrRne
  by_cases hk : k = 0
  · simp [hk]
  · have hp : 0 < 2 ^ k := Nat.pos_of_ne_zero (by positivity)
    have hh : 0 < 2 ^ (k - 1) := Nat.pos_of_ne_zero (by positivity)
    simp only [hk, if_false, Nat.mul_div_cancel _ hp, Nat.mul_mod_left]
    rw [if_neg (by omega), if_pos hh]

theorem shrRne_bounds (x k : Nat) : x / 2 ^ k ≤ shrRne x k ∧ shrRne x k ≤ x / 2 ^ k + 1 := by
  unfold shrRne
  by_cases hk : k = 0
  · simp [hk]
  · simp only [hk, if_false]
    split_ifs <;> omega

theorem shrRne_mono (x y k : Nat) (h : x ≤ y) : shrRne x k ≤ shrRne y k := by
  by_cases hk : k = 0
  · simp [shrRne, hk, h]
  have hq : x / 2 ^ k ≤ y / 2 ^ k := Nat.div_le_div_right h
  rcases Nat.lt_or_ge (x / 2 ^ k) (y / 2 ^ k) with hlt | hge
  · have := (shrRne_bounds x k).2
    have := (shrRne_bounds y k).1
    omega
  · have heq : x / 2 ^ k = y / 2 ^ k := by omega
    have hx := Nat.div_add_mod x (2 ^ k)
    have hy := Nat.div_add_mod y (2 ^ k)
    have hr : x % 2 ^ k ≤ y % 2 ^ k := by
      rw [heq] at hx
      omega
    unfold shrRne
    simp only [hk, if_false, heq]
    split_ifs <;> omega

/-- the product rounded to 53 significant bits, in units of the last place of the operand -/
def g (p : Nat) : Nat := shrRne p (if p < 2 ^ 60 then 7 else 8) * 2 ^ (if p < 2 ^ 60 then 7 else 8)

theorem g_mono (p q : Nat) (h : p ≤ q) : g p ≤ g q := by
  unfold g
  by_cases hp : p < 2 ^ 60
  · by_cases hq : q < 2 ^ 60
    · simp only [hp, hq, if_true]
      exact Nat.mul_le_mul_right _ (shrRne_mono p q 7 h)
    · simp only [hp, hq, if_true, if_false]
      have a : shrRne p 7 ≤ 2 ^ 53 := by
        have := shrRne_mono p (2 ^ 53 * 2 ^ 7) 7 (by omega)
        rwa [shrRne_multiple] at this
      have b : 2 ^ 52 ≤ shrRne q 8 := by
        have := shrRne_mono (2 ^ 52 * 2 ^ 8) q 8 (by omega)
        rwa [shrRne_multiple] at this
      omega
  · have hq : ¬ q < 2 ^ 60 := by omega
    simp only [hp, hq, if_false]
    exact Nat.mul_le_mul_right _ (shrRne_mono p q 8 h)

theorem g_le_of_le_multiple (p c : Nat) (h : p ≤ c * 2 ^ 8) : g p ≤ c * 2 ^ 8 := by
  unfold g
  by_cases hp : p < 2 ^ 60
  · simp only [hp, if_true]
    have := shrRne_mono p ((c * 2) * 2 ^ 7) 7 (by omega)
    rw [shrRne_multiple] at this
    omega
  · simp only [hp, if_false]
    have := shrRne_mono p (c * 2 ^ 8) 8 h
    rw [shrRne_multiple] at this
    omega

theorem g_ge_of_multiple_le (p c : Nat) (h : c * 2 ^ 8 ≤ p) : c * 2 ^ 8 ≤ g p := by
  unfold g
  by_cases hp : p < 2 ^ 60
  · simp only [hp, if_true]
    have := shrRne_mono ((c * 2) * 2 ^ 7) p 7 (by omega)
    rw [shrRne_multiple] at this
    omega
  · simp only [hp, if_false]
    have := shrRne_mono (c * 2 ^ 8) p 8 h
    rw [shrRne_multiple] at this
    omega

/-- `strength` in the middle range through `g`, in the common unit 2^-75 -/
theorem strength_eq (e m : Nat) (h1 : 1000 ≤ e) (h2 : e < 1023) (hm : m < 2 ^ 52) :
    strength e m = min 255 ((g (255 * (2 ^ 52 + m)) * 2 ^ (e - 1000) + 2 ^ 74) / 2 ^ 75) := by
  unfold strength g
  rw [if_neg (by omega), if_neg (by omega)]
  congr 1
  by_cases hlt : 255 * (2 ^ 52 + m) < 2 ^ 60
  · simp only [hlt, if_true]
    -- k = 1068 − e; scale numerator and denominator by 2^7·2^(e−1000)
    have hk : 1075 - e - 7 = 1068 - e := by omega
    rw [hk]
    have e1 : (2 : Nat) ^ 75 = 2 ^ (1068 - e) * (2 ^ 7 * 2 ^ (e - 1000)) := by
      rw [← pow_add, ← pow_add]; congr 1; omega
    have e2 : shrRne (255 * (2 ^ 52 + m)) 7 * 2 ^ 7 * 2 ^ (e - 1000) + 2 ^ 74 =
        (shrRne (255 * (2 ^ 52 + m)) 7 + 2 ^ (1068 - e - 1)) * (2 ^ 7 * 2 ^ (e - 1000)) := by
      have : (2 : Nat) ^ 74 = 2 ^ (1068 - e - 1) * (2 ^ 7 * 2 ^ (e - 1000)) := by
        rw [← pow_add, ← pow_add]; congr 1; omega
      rw [this]; ring
    rw [e1, e2, Nat.mul_div_mul_right _ _ (by positivity)]
  · simp only [hlt, if_false]
    have hk : 1075 - e - 8 = 1067 - e := by omega
    rw [hk]
    have e1 : (2 : Nat) ^ 75 = 2 ^ (1067 - e) * (2 ^ 8 * 2 ^ (e - 1000)) := by
      rw [← pow_add, ← pow_add]; congr 1; omega
    have e2 : shrRne (255 * (2 ^ 52 + m)) 8 * 2 ^ 8 * 2 ^ (e - 1000) + 2 ^ 74 =
        (shrRne (255 * (2 ^ 52 + m)) 8 + 2 ^ (1067 - e - 1)) * (2 ^ 8 * 2 ^ (e - 1000)) := by
      have : (2 : Nat) ^ 74 = 2 ^ (1067 - e - 1) * (2 ^ 8 * 2 ^ (e - 1000)) := by
        rw [← pow_add, ← pow_add]; congr 1; omega
      rw [this]; ring
    rw [e1, e2, Nat.mul_div_mul_right _ _ (by positivity)]

/-- monotone in the magnitude: (exponent, mantissa) lexicographically -/
theorem strength_mono (e1 m1 e2 m2 : Nat) (hm1 : m1 < 2 ^ 52) (hm2 : m2 < 2 ^ 52)
    (h : e1 < e2 ∨ (e1 = e2 ∧ m1 ≤ m2)) : strength e1 m1 ≤ strength e2 m2 := by
  by_cases t2 : 1023 ≤ e2
  · have : strength e2 m2 = 255 := by unfold strength; rw [if_pos t2]
    rw [this]; exact strength_le _ _
  by_cases b1 : e1 < 1000
  · have : strength e1 m1 = 0 := by unfold strength; rw [if_neg (by omega), if_pos b1]
    rw [this]; exact Nat.zero_le _
  have he1 : 1000 ≤ e1 ∧ e1 < 1023 := by omega
  have he2 : 1000 ≤ e2 ∧ e2 < 1023 := by omega
  rw [strength_eq e1 m1 he1.1 he1.2 hm1, strength_eq e2 m2 he2.1 he2.2 hm2]
  apply min_le_min_left
  apply Nat.div_le_div_right
  apply Nat.add_le_add_right
  rcases h with hlt | ⟨heq, hle⟩
  · -- V(e1, m1) ≤ 255·2^53·2^(e1−1000) ≤ 255·2^52·2^(e2−1000) ≤ V(e2, m2)
    have a : g (255 * (2 ^ 52 + m1)) ≤ (255 * 2 ^ 45) * 2 ^ 8 := g_le_of_le_multiple _ _ (by omega)
    have b : (255 * 2 ^ 44) * 2 ^ 8 ≤ g (255 * (2 ^ 52 + m2)) := g_ge_of_multiple_le _ _ (by omega)
    have c : (2 : Nat) ^ (e2 - 1000) = 2 ^ (e2 - 1000 - (e1 - 1000) - 1) * 2 * 2 ^ (e1 - 1000) := by
      rw [← pow_succ, ← pow_add]; congr 1; omega
    calc g (255 * (2 ^ 52 + m1)) * 2 ^ (e1 - 1000)
        ≤ (255 * 2 ^ 45 * 2 ^ 8) * 2 ^ (e1 - 1000) := Nat.mul_le_mul_right _ a
      _ = (255 * 2 ^ 44 * 2 ^ 8) * (1 * 2 * 2 ^ (e1 - 1000)) := by ring
      _ ≤ (255 * 2 ^ 44 * 2 ^ 8) * (2 ^ (e2 - 1000 - (e1 - 1000) - 1) * 2 * 2 ^ (e1 - 1000)) := by
          apply Nat.mul_le_mul_left
          apply Nat.mul_le_mul_right
          apply Nat.mul_le_mul_right
          exact Nat.one_le_two_pow
      _ = (255 * 2 ^ 44 * 2 ^ 8) * 2 ^ (e2 - 1000) := by rw [c]
      _ ≤ g (255 * (2 ^ 52 + m2)) * 2 ^ (e2 - 1000) := Nat.mul_le_mul_right _ b
  · subst heq
    exact Nat.mul_le_mul_right _ (g_mono _ _ (by omega))


/-! ### the conversion is monotone in the order of the floats -/
/-- magnitude bits (everything but the sign): for non-NaN patterns their order is the order of |x| -/
def mag (b : Nat) : Nat := b % 2 ^ 63

/-- `x₁ ≤ x₂` for two non-NaN binary64 patterns (−0.0 and +0.0 compare equal) -/
def le (b1 b2 : Nat) : Prop :=
  match sign b1, sign b2 with
  | true, false => True
  | false, false => mag b1 ≤ mag b2
  | true, true => mag b2 ≤ mag b1
  | false, true => mag b1 = 0 ∧ mag b2 = 0

theorem strength_mono_mag (b1 b2 : Nat) (h : mag b1 ≤ mag b2) :
    strength (expo b1) (mant b1) ≤ strength (expo b2) (mant b2) := by
  apply strength_mono
  · unfold mant; omega
  · unfold mant; omega
  · unfold mag at h; unfold expo mant; omega

theorem strength_zero (b : Nat) (h : mag b = 0) : strength (expo b) (mant b) = 0 := by
  have : expo b = 0 := by unfold mag at h; unfold expo; omega
  unfold strength
  rw [this]
  simp

theorem toAction_ratio0 (b : Nat) (h : isNaN b = false) :
    (toAction b).ratio0 = (if sign b then -1 else 1) * ((strength (expo b) (mant b) : ℚ) / 255) := by
  unfold toAction
  simp only [h, Bool.false_eq_true, if_false]
  cases hs : sign b
  · simp only [Bool.false_eq_true, if_false, one_mul]
    split
    · rename_i h5; rw [h5]; simp [Action.ratio0, Action.ratio, Action.buyAll, Action.BOUND]
    · simp [Action.ratio0, Action.ratio]
  · simp only [if_true]
    split
    · rename_i h5; rw [h5]; simp [Action.ratio0, Action.ratio, Action.sellAll, Action.BOUND]
    · simp [Action.ratio0, Action.ratio]; ring

/-- C16: `Action::from(f64)` is monotone — on every pair of non-NaN bit patterns -/
theorem toAction_mono (b1 b2 : Nat) (n1 : isNaN b1 = false) (n2 : isNaN b2 = false) (h : le b1 b2) :
    (toAction b1).ratio0 ≤ (toAction b2).ratio0 := by
  rw [toAction_ratio0 b1 n1, toAction_ratio0 b2 n2]
  have nn : ∀ b, (0 : ℚ) ≤ (strength (expo b) (mant b) : ℚ) / 255 := fun b => by positivity
  have cast : ∀ a b : Nat, a ≤ b → (a : ℚ) / 255 ≤ (b : ℚ) / 255 := fun a b hab =>
    div_le_div_of_nonneg_right (by exact_mod_cast hab) (by norm_num)
  unfold le at h
  cases s1 : sign b1 <;> cases s2 : sign b2 <;> simp only [s1, s2] at h <;>
    simp only [Bool.false_eq_true, if_false, if_true]
  · have := cast _ _ (strength_mono_mag b1 b2 h); linarith
  · rw [strength_zero b1 h.1, strength_zero b2 h.2]; simp
  · have := nn b1; have := nn b2; linarith
  · have := cast _ _ (strength_mono_mag b2 b1 h); linarith

end Yata.F64
