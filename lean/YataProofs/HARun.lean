import YataProofs.Converters
namespace Yata
variable {K : Type} [Field K] [LinearOrder K] [IsStrictOrderedRing K]
namespace HeikinAshi

/-- the whole run of the (total) step function -/
def run : HeikinAshi K → List (Candle K) → List (Candle K) × HeikinAshi K
  | s, [] => ([], s)
  | s, k :: ks => let r := s.next k; let rest := run r.2 ks; (r.1 :: rest.1, rest.2)

/-- **C17 over whole streams**: started from a valid candle, on every stream of valid candles every Heikin-Ashi output is
    a valid candle, carries the volume of its input, closes at the input's `ohlc4`, and opens at the mean of the
    previous output's open and close (the first one at the `ohlc4` of the constructor's candle) -/
theorem run_valid (c0 : Candle K) (h0 : c0.validateFinite = true) (cs : List (Candle K))
    (hcs : ∀ c ∈ cs, c.validateFinite = true) :
    let outs := (run (HeikinAshi.new c0) cs).1
    outs.length = cs.length ∧
    (∀ i (hi : i < outs.length) (hj : i < cs.length), (outs[i]).validateFinite = true ∧ (outs[i]).volume = (cs[i]).volume ∧
      (outs[i]).close = (cs[i]).ohlc4) ∧
    (∀ i (hi : i + 1 < outs.length), (outs[i + 1]).open_ = ((outs[i]'(by omega)).open_ + (outs[i]'(by omega)).close) * (1 / ((2 : Nat) : K))) ∧
    (∀ (hi : 0 < outs.length), (outs[0]).open_ = c0.ohlc4) := by
  have key : ∀ (cs : List (Candle K)) (s : HeikinAshi K), 0 < s.next_open → (∀ c ∈ cs, c.validateFinite = true) →
      (run s cs).1.length = cs.length ∧
      (∀ i (hi : i < (run s cs).1.length) (hj : i < cs.length), ((run s cs).1[i]).validateFinite = true ∧
        ((run s cs).1[i]).volume = (cs[i]).volume ∧ ((run s cs).1[i]).close = (cs[i]).ohlc4) ∧
      (∀ i (hi : i + 1 < (run s cs).1.length), ((run s cs).1[i + 1]).open_ =
        (((run s cs).1[i]'(by omega)).open_ + ((run s cs).1[i]'(by omega)).close) * (1 / ((2 : Nat) : K))) ∧
      (∀ (hi : 0 < (run s cs).1.length), ((run s cs).1[0]).open_ = s.next_open) := by
    intro cs
    induction cs with
    | nil => intro s _ _; simp [run]
    | cons k ks ih =>
      intro s hs hk
      obtain ⟨v1, v2, v3⟩ := next_valid s k hs (hk k (by simp))
      obtain ⟨a, b, c, d⟩ := ih (s.next k).2 v2 (fun x hx => hk x (by simp [hx]))
      refine ⟨by simp [run, a], ?_, ?_, ?_⟩
      · intro i hi hj
        cases i with
        | zero => simp only [run, List.getElem_cons_zero]; exact ⟨v1, v3, rfl⟩
        | succ j =>
          simp only [run, List.getElem_cons_succ]
          exact b j (by simpa [run] using hi) (by simpa using hj)
      · intro i hi
        cases i with
        | zero =>
          simp only [run, List.getElem_cons_succ, List.getElem_cons_zero]
          rw [d (by simpa [run] using hi)]
          rfl
        | succ j =>
          simp only [run, List.getElem_cons_succ]
          exact c j (by simpa [run] using hi)
      · intro _
        simp only [run, List.getElem_cons_zero]
        rfl
  exact key cs (HeikinAshi.new c0) (new_pos c0 h0) hcs

end HeikinAshi
end Yata
