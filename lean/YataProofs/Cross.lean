/-
  Crossing detectors: definitional characterisation and antisymmetry.
-/
import YataProofs.Runner
import YataModel.Methods.Signals
import Mathlib.Algebra.Order.Field.Basic
import Mathlib.Tactic.Linarith
import Mathlib.Tactic.Ring
namespace Yata
variable {K : Type} [Field K] [LinearOrder K] [IsStrictOrderedRing K]

/-- the documented rule -/
def crossAboveRule (prev cur : K) : Bool := decide (prev < 0) && decide (0 ≤ cur)
def crossUnderRule (prev cur : K) : Bool := decide (0 < prev) && decide (cur ≤ 0)

/-- sequence of differences: construction delta first -/
def deltas (init : K × K) (xs : List (K × K)) : List K := (init :: xs).map fun p => p.1 - p.2

theorem ofI8_bool (b : Bool) :
    Action.ofI8 (if b = true then 1 else 0) = if b = true then Action.buyAll else Action.none := by
  cases b <;> simp [Action.ofI8]

theorem CrossAbove.next_def (s : CrossAbove K) (v : K × K) :
    (s.next v).1 = (if crossAboveRule s.last_delta (v.1 - v.2) then Action.buyAll else Action.none) ∧
    (s.next v).2.last_delta = v.1 - v.2 :=
  ⟨ofI8_bool _, rfl⟩

theorem CrossUnder.next_def (s : CrossUnder K) (v : K × K) :
    (s.next v).1 = (if crossUnderRule s.last_delta (v.1 - v.2) then Action.buyAll else Action.none) ∧
    (s.next v).2.last_delta = v.1 - v.2 :=
  ⟨ofI8_bool _, rfl⟩

/-- `Cross` is the signed combination: +1 on an upward crossing, −1 on a downward one -/
theorem Cross.next_def (s : Cross K) (v : K × K) :
    (s.next v).1 = Action.ofI8 ((if crossAboveRule s.up.last_delta (v.1 - v.2) then 1 else 0) -
                                (if crossUnderRule s.down.last_delta (v.1 - v.2) then 1 else 0)) ∧
    (s.next v).2.up.last_delta = v.1 - v.2 ∧ (s.next v).2.down.last_delta = v.1 - v.2 := by
  exact ⟨rfl, rfl, rfl⟩

/-- both detectors can never fire together, so `Cross` is `Buy`, `Sell` or `None` as documented -/
theorem cross_rules_exclusive (prev cur : K) : ¬ (crossAboveRule prev cur = true ∧ crossUnderRule prev cur = true) := by
  simp only [crossAboveRule, crossUnderRule, Bool.and_eq_true, decide_eq_true_eq]
  rintro ⟨⟨h1, _⟩, ⟨h2, _⟩⟩
  linarith

/-- swapping the two series negates the difference and exchanges the two rules -/
theorem crossAbove_swap (prev cur : K) : crossAboveRule (-prev) (-cur) = crossUnderRule prev cur := by
  simp only [crossAboveRule, crossUnderRule, Left.neg_neg_iff, Left.nonneg_neg_iff]

theorem crossUnder_swap (prev cur : K) : crossUnderRule (-prev) (-cur) = crossAboveRule prev cur := by
  simp only [crossAboveRule, crossUnderRule, Left.neg_pos_iff, Left.neg_nonpos_iff]

theorem ofI8_neg (z : Int) : Action.ofI8 (-z) = (Action.ofI8 z).neg := by
  unfold Action.ofI8
  by_cases h0 : z = 0
  · simp [h0, Action.neg]
  · by_cases hp : z > 0
    · have h1 : ¬ (-z > 0) := by omega
      have h2 : ¬ (-z = 0) := by omega
      simp only [h0, hp, h1, h2, ↓reduceIte, Action.neg, Action.buyAll, Action.sellAll]
    · have h1 : -z > 0 := by omega
      have h2 : ¬ (-z = 0) := by omega
      simp only [h0, hp, h1, h2, ↓reduceIte, Action.neg, Action.buyAll, Action.sellAll]

/-- states of `Cross` fed `(a,b)` and fed `(b,a)` stay mirror images, outputs are negations -/
theorem Cross.swap_step (s t : Cross K) (a b : K) (hs : s.up.last_delta = s.down.last_delta)
    (hu : t.up.last_delta = -s.up.last_delta) (hd : t.down.last_delta = -s.down.last_delta) :
    (t.next (b, a)).1 = ((s.next (a, b)).1).neg ∧
    (t.next (b, a)).2.up.last_delta = -(s.next (a, b)).2.up.last_delta ∧
    (t.next (b, a)).2.down.last_delta = -(s.next (a, b)).2.down.last_delta := by
  obtain ⟨h1, h2, h3⟩ := Cross.next_def s (a, b)
  obtain ⟨g1, g2, g3⟩ := Cross.next_def t (b, a)
  refine ⟨?_, by rw [g2, h2]; simp, by rw [g3, h3]; simp⟩
  rw [g1, h1, hu, hd]
  have e : b - a = -(a - b) := by ring
  simp only [e, crossAbove_swap, crossUnder_swap, ← ofI8_neg]
  congr 1
  rw [hs]
  cases crossUnderRule s.down.last_delta (a - b) <;> cases crossAboveRule s.down.last_delta (a - b) <;> simp

end Yata

namespace Yata
variable {K : Type} [Field K] [LinearOrder K] [IsStrictOrderedRing K]

/-- `up` and `down` of a reachable `Cross` always remember the same difference -/
theorem Cross.sync_new (v : K × K) : (Cross.new v).up.last_delta = (Cross.new v).down.last_delta := rfl
theorem Cross.sync_next (s : Cross K) (v : K × K) :
    (s.next v).2.up.last_delta = (s.next v).2.down.last_delta := rfl

/-- difference of the last pair of `init :: h` -/
def lastDelta (init : K × K) (h : List (K × K)) : K :=
  let p := (init :: h).getLast (by simp)
  p.1 - p.2

theorem lastDelta_snoc (init : K × K) (h : List (K × K)) (x : K × K) :
    lastDelta init (h ++ [x]) = x.1 - x.2 := by
  unfold lastDelta
  have : (init :: (h ++ [x])).getLast (by simp) = x := by
    have e : init :: (h ++ [x]) = (init :: h) ++ [x] := rfl
    simp only [e, List.getLast_concat]
  simp only [this]

/-- CrossAbove over a whole stream: fires at step `t` exactly when the previous difference
    (the construction difference before the first step) was negative and the current one is not -/
theorem CrossAbove.run_spec (init : K × K) (xs : List (K × K)) :
    ∃ outs s', runM (liftNext CrossAbove.next) (CrossAbove.new init) xs = .ok (outs, s') ∧
      outs.length = xs.length ∧
      ∀ i (hi : i < outs.length) (hx : i < xs.length),
        outs[i] = if crossAboveRule (lastDelta init (xs.take i)) (xs[i].1 - xs[i].2)
                  then Action.buyAll else Action.none := by
  obtain ⟨os, s', hr, _, hlen, houts⟩ :=
    runM_invariant (liftNext CrossAbove.next)
      (fun h s => s.last_delta = lastDelta init h)
      (fun h o => ∀ (hne : h ≠ []), o = if crossAboveRule (lastDelta init h.dropLast) ((h.getLast hne).1 - (h.getLast hne).2)
                  then Action.buyAll else Action.none)
      (by
        intro h s x hs
        obtain ⟨h1, h2⟩ := CrossAbove.next_def s x
        refine ⟨(s.next x).1, (s.next x).2, rfl, by rw [h2, lastDelta_snoc], ?_⟩
        intro hne
        rw [h1, hs]
        simp only [List.dropLast_concat, List.getLast_concat])
      xs [] (CrossAbove.new init) (by simp [CrossAbove.new, lastDelta])
  refine ⟨os, s', hr, hlen, ?_⟩
  intro i hi hx
  have e : xs.take (i + 1) = xs.take i ++ [xs[i]] := by
    rw [List.take_add_one, List.getElem?_eq_getElem hx]; rfl
  have := houts i hi (by rw [List.nil_append, e]; exact List.append_ne_nil_of_right_ne_nil _ (List.cons_ne_nil _ _))
  rw [this]
  simp only [List.nil_append, e, List.dropLast_concat, List.getLast_concat]

theorem CrossUnder.run_spec (init : K × K) (xs : List (K × K)) :
    ∃ outs s', runM (liftNext CrossUnder.next) (CrossUnder.new init) xs = .ok (outs, s') ∧
      outs.length = xs.length ∧
      ∀ i (hi : i < outs.length) (hx : i < xs.length),
        outs[i] = if crossUnderRule (lastDelta init (xs.take i)) (xs[i].1 - xs[i].2)
                  then Action.buyAll else Action.none := by
  obtain ⟨os, s', hr, _, hlen, houts⟩ :=
    runM_invariant (liftNext CrossUnder.next)
      (fun h s => s.last_delta = lastDelta init h)
      (fun h o => ∀ (hne : h ≠ []), o = if crossUnderRule (lastDelta init h.dropLast) ((h.getLast hne).1 - (h.getLast hne).2)
                  then Action.buyAll else Action.none)
      (by
        intro h s x hs
        obtain ⟨h1, h2⟩ := CrossUnder.next_def s x
        refine ⟨(s.next x).1, (s.next x).2, rfl, by rw [h2, lastDelta_snoc], ?_⟩
        intro hne
        rw [h1, hs]
        simp only [List.dropLast_concat, List.getLast_concat])
      xs [] (CrossUnder.new init) (by simp [CrossUnder.new, lastDelta])
  refine ⟨os, s', hr, hlen, ?_⟩
  intro i hi hx
  have e : xs.take (i + 1) = xs.take i ++ [xs[i]] := by
    rw [List.take_add_one, List.getElem?_eq_getElem hx]; rfl
  have := houts i hi (by rw [List.nil_append, e]; exact List.append_ne_nil_of_right_ne_nil _ (List.cons_ne_nil _ _))
  rw [this]
  simp only [List.nil_append, e, List.dropLast_concat, List.getLast_concat]

end Yata
