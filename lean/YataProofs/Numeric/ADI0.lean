/- windowless ADI: the cumulative sum of CLV·volume of everything fed -/
import YataProofs.Numeric.Common
import YataModel.Methods.Candles
namespace Yata
variable {K : Type} [Field K] [LinearOrder K] [IsStrictOrderedRing K]

theorem ADI.spec0 {P : Nat} (hP : 0 < P) (c0 : Candle K) (cs : List (Candle K)) :
    ∃ s0 outs s', ADI.new P 0 c0 = .ok s0 ∧ runM ADI.next s0 cs = .ok (outs, s') ∧
      outs.length = cs.length ∧
      ∀ i (hi : i < outs.length), outs[i] = ((cs.take (i + 1)).map fun c => c.clv * c.volume).sum := by
  apply method_spec (ADI.new P 0 c0) ADI.next
    (fun h (s : ADI K) => s.window = Window.empty ∧ s.cmf_sum = (h.map fun c => c.clv * c.volume).sum)
    (fun h => (h.map fun c => c.clv * c.volume).sum)
  · refine ⟨{ cmf_sum := 0, window := Window.empty }, ?_, rfl, by simp⟩
    have : (0 : Nat) ≠ P := by omega
    simp [ADI.new, this]
  · intro h s x ⟨hw, hv⟩
    refine ⟨s.cmf_sum + x.clv * x.volume, { s with cmf_sum := s.cmf_sum + x.clv * x.volume }, ?_, ⟨hw, ?_⟩, ?_⟩
    · simp [ADI.next, hw, Window.isEmpty, Window.empty]
    · simp [hv]
    · simp [hv]
end Yata
