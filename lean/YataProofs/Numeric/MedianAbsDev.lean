/-
  MedianAbsDev: mean absolute deviation of the last `n` values around their median (the mean of the two middle
  elements of the sorted window), for every stream.
-/
import YataProofs.SMM
import YataProofs.Numeric.MeanAbsDev
namespace Yata
variable {K : Type} [Field K] [LinearOrder K] [IsStrictOrderedRing K] [TotalCmp K] [BitEq K] [TotalLike K]

namespace MedianAbsDev

theorem peek_eq {P n : Nat} {hist : List K} {s : MedianAbsDev K} (hn0 : 0 < n)
    (hi : SMM.Inv P s.smm) (hw : Window.toList s.smm.window = lastN n hist) (hl : n ≤ hist.length)
    (hh : s.smm.half = n / 2) (hm : s.smm.half_m1 = n / 2 - (if n % 2 = 0 then 1 else 0)) (hd : s.divider = 1 / (n : K)) :
    s.peek = .ok (((lastN n hist).map fun x => sabs (x - Spec.median (lastN n hist))).sum / (n : K)) := by
  have hslice := SMM.slice_eq_sort hi
  rw [hw] at hslice
  have hlen : s.smm.slice.length = n := by
    rw [SMM.slice_length hi, ← toList_length_inv hi.winv, hw, lastN_length hl]
  have ha : n / 2 < s.smm.slice.length := by rw [hlen]; exact Nat.div_lt_self hn0 (by norm_num)
  have hb : n / 2 - (if n % 2 = 0 then 1 else 0) < s.smm.slice.length := by omega
  have hmid : s.smm.mid = .ok (s.smm.slice[n / 2], s.smm.slice[n / 2 - (if n % 2 = 0 then 1 else 0)]) := by
    unfold SMM.mid
    rw [hh, hm, List.getElem?_eq_getElem ha, List.getElem?_eq_getElem hb]
  have hmed : (s.smm.slice[n / 2] + s.smm.slice[n / 2 - (if n % 2 = 0 then 1 else 0)]) * MedianAbsDev.half =
      Spec.median (lastN n hist) := by
    unfold Spec.median Spec.sort MedianAbsDev.half
    simp only [lastN_length hl]
    rw [← hslice, List.getElem?_eq_getElem ha]
    have hidx : (if n % 2 = 0 then n / 2 - 1 else n / 2) = n / 2 - (if n % 2 = 0 then 1 else 0) := by split <;> simp
    rw [hidx, List.getElem?_eq_getElem hb]
    simp
  unfold MedianAbsDev.peek
  rw [hmid]
  simp only [hmed, foldl_add_eq_sum, zero_add, sum_map_asSlice, hw, hd]
  congr 1
  ring

theorem spec {P n : Nat} (v : K) (hn2 : 2 ≤ n) (hn : n ≤ P - 1) (xs : List K) :
    ∃ s0 outs s', MedianAbsDev.new P n v = .ok s0 ∧ runM MedianAbsDev.next s0 xs = .ok (outs, s') ∧
      outs.length = xs.length ∧ ∀ i (hi : i < outs.length), outs[i] = Spec.medianAbsDev n v (xs.take (i + 1)) := by
  have hn0 : 0 < n := by omega
  have hnP : n ≠ P := by omega
  obtain ⟨m0, hm0, hinv0, htl0, hh0, hmm0⟩ := SMM.new_spec (P := P) v hn0 hn
  apply method_spec (MedianAbsDev.new P n v) MedianAbsDev.next
    (fun h (s : MedianAbsDev K) => SMM.Inv P s.smm ∧ Window.toList s.smm.window = lastN n (history n v h) ∧
      s.smm.half = n / 2 ∧ s.smm.half_m1 = n / 2 - (if n % 2 = 0 then 1 else 0) ∧ s.divider = 1 / (n : K))
    (fun h => Spec.medianAbsDev n v h)
  · refine ⟨{ smm := m0, divider := 1 / (n : K) }, ?_, hinv0, by rw [htl0, lastN_history_nil], hh0, hmm0, rfl⟩
    have h0 : n ≠ 0 := by omega
    have h1 : n ≠ 1 := by omega
    simp [MedianAbsDev.new, h0, h1, hnP, hm0, Res.bind]
  · intro h s x ⟨hi, hw, hh, hm, hd⟩
    obtain ⟨s1, hst, hi1, ht1, hh1, hm1⟩ := SMM.step_spec x hi
    have hl : n ≤ (history n v h).length := by simp [history]
    have e : Window.toList s1.window = lastN n (history n v (h ++ [x])) := by
      rw [ht1, hw, history_snoc, lastN_snoc x hn0 hl]
    have hp := peek_eq (s := ({ s with smm := s1 } : MedianAbsDev K)) (hist := history n v (h ++ [x])) hn0 hi1 e
      (by rw [history_snoc]; simp; omega) (by rw [hh1, hh]) (by rw [hm1, hm]) hd
    refine ⟨_, { s with smm := s1 }, ?_, ⟨hi1, e, by rw [hh1, hh], by rw [hm1, hm], hd⟩, rfl⟩
    simp only [MedianAbsDev.next, hst, hp]
    simp only [Spec.medianAbsDev, Spec.win]

end MedianAbsDev
end Yata
