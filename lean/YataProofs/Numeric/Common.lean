/-
  Shared lemmas for the arithmetic methods: histories, `lastN`, list sums in a field.
-/
import YataProofs.Window
import YataProofs.Runner
import YataModel.Spec
import YataModel.Methods.Averages
import YataModel.Methods.Basic
import Mathlib.Algebra.BigOperators.Group.List.Basic
import Mathlib.Algebra.Order.Field.Basic
import Mathlib.Tactic.Ring
import Mathlib.Tactic.FieldSimp
import Mathlib.Tactic.Linarith

namespace Yata
variable {α : Type}

/-- sliding a full window one step: drop the oldest, append the newest -/
theorem lastN_snoc {n : Nat} {h : List α} (x : α) (hn : 0 < n) (hl : n ≤ h.length) :
    lastN n (h ++ [x]) = (lastN n h).tail ++ [x] := by
  unfold lastN
  have e1 : (h ++ [x]).length - n = (h.length - n) + 1 := by simp; omega
  rw [e1, List.tail_drop, List.drop_append_of_le_length (by omega)]

theorem lastN_length {n : Nat} {h : List α} (hl : n ≤ h.length) : (lastN n h).length = n := by
  unfold lastN; simp; omega

theorem history_length (n : Nat) (v : α) (xs : List α) : (history n v xs).length = n + xs.length := by
  simp [history]

theorem history_snoc (n : Nat) (v : α) (xs : List α) (x : α) :
    history n v (xs ++ [x]) = history n v xs ++ [x] := by
  simp [history]

theorem lastN_history_nil (n : Nat) (v : α) : lastN n (history n v []) = List.replicate n v := by
  simp [lastN, history]

section Field
variable {K : Type} [Field K]

theorem sum_tail_snoc (l : List K) (x : K) (hne : l ≠ []) :
    (l.tail ++ [x]).sum = l.sum - l.head hne + x := by
  cases l with
  | nil => exact absurd rfl hne
  | cons a t => simp

theorem sum_replicate_field (n : Nat) (v : K) : (List.replicate n v).sum = (n : K) * v := by
  simp [List.sum_replicate]

end Field

/-- the window tracks the history: used by every sliding-window invariant -/
structure Tracks (P : Nat) (n : Nat) (w : Window α) (hist : List α) : Prop where
  inv : Window.Inv P w
  size : w.size = n
  len : n ≤ hist.length
  contents : Window.toList w = lastN n hist

theorem Tracks.push {P n : Nat} {w : Window α} {hist : List α} (t : Tracks P n w hist) (hn : 0 < n) (x : α) :
    ∃ old w', w.push x = .ok (old, w') ∧ Tracks P n w' (hist ++ [x]) ∧
      (lastN n hist).head? = some old := by
  obtain ⟨old, w', hp, hinv, hsz, hhead, htl⟩ := Window.push_spec x t.inv (by rw [t.size]; exact hn)
  refine ⟨old, w', hp, ⟨hinv, by rw [hsz, t.size], by simp; have := t.len; omega, ?_⟩, by rw [← t.contents]; exact hhead⟩
  rw [htl, t.contents, lastN_snoc x hn t.len]

theorem Tracks.new {P n : Nat} (v : α) (hn : n ≤ P - 1) :
    ∃ w, Window.new P n v = .ok w ∧ Tracks P n w (history n v []) := by
  obtain ⟨w, hw, hinv, htl, hsz⟩ := Window.new_ok (P := P) v hn
  exact ⟨w, hw, hinv, hsz, by simp [history], by rw [htl, lastN_history_nil]⟩

end Yata
