/-
  Range of the TSI method: |double smoothing of the changes| ≤ double smoothing of the absolute changes, hence the
  quotient is in [−1, 1] (and 0 where the denominator vanishes).
-/
import YataProofs.Numeric.TSI
import YataProofs.MALaws
import YataProofs.Candle
namespace Yata
variable {K : Type} [Field K] [LinearOrder K] [IsStrictOrderedRing K]

/-- domination: if every input is bounded in absolute value by the corresponding input of a second stream, and the
    start values likewise, the exponential averages are -/
theorem emaRec_dom {ι : Type} (a : K) (h0 : 0 ≤ a) (h1 : a ≤ 1) (l : List ι) (f g : ι → K) (v w : K)
    (hv : |v| ≤ w) (h : ∀ i ∈ l, |f i| ≤ g i) :
    |Spec.emaRec a v (l.map f)| ≤ Spec.emaRec a w (l.map g) := by
  induction l generalizing v w with
  | nil => simpa [Spec.emaRec] using hv
  | cons i t ih =>
    simp only [List.map_cons, Spec.emaRec]
    apply ih
    · have hi := h i (by simp)
      have e1 : (f i - v) * a + v = a * f i + (1 - a) * v := by ring
      have e2 : (g i - w) * a + w = a * g i + (1 - a) * w := by ring
      rw [e1, e2]
      calc |a * f i + (1 - a) * v| ≤ |a * f i| + |(1 - a) * v| := abs_add_le _ _
        _ = a * |f i| + (1 - a) * |v| := by rw [abs_mul, abs_mul, abs_of_nonneg h0, abs_of_nonneg (sub_nonneg.mpr h1)]
        _ ≤ a * g i + (1 - a) * w := by
            have := mul_le_mul_of_nonneg_left hi h0
            have := mul_le_mul_of_nonneg_left hv (sub_nonneg.mpr h1)
            linarith
    · intro j hj; exact h j (by simp [hj])

/-- the quotient of the TSI definition is in [−1, 1] -/
theorem tsi_range (short long : Nat) (hs : 0 < short) (hl : 0 < long) (v : K) (xs : List K) :
    -1 ≤ Spec.tsi short long v xs ∧ Spec.tsi short long v xs ≤ 1 := by
  obtain ⟨aL0, aL1, _, _⟩ := ema_alpha_range (K := K) long hl
  obtain ⟨aS0, aS1, _, _⟩ := ema_alpha_range (K := K) short hs
  set aL : K := ((2 : Nat) : K) / ((long + 1 : Nat) : K) with haL
  set aS : K := ((2 : Nat) : K) / ((short + 1 : Nat) : K) with haS
  set ch := Spec.changes v xs with hch
  -- inner smoothing, prefix by prefix
  have hinner : ∀ i ∈ List.range ch.length,
      |Spec.emaRec aL 0 (ch.take (i + 1))| ≤ Spec.emaRec aL 0 ((ch.map sabs).take (i + 1)) := by
    intro i _
    have := emaRec_dom aL aL0 aL1 (ch.take (i + 1)) (fun x => x) sabs 0 0 (by simp)
      (fun x _ => by rw [sabs_eq_abs])
    simpa [List.map_take] using this
  have houter := emaRec_dom aS aS0 aS1 (List.range ch.length)
    (fun i => Spec.emaRec aL 0 (ch.take (i + 1))) (fun i => Spec.emaRec aL 0 ((ch.map sabs).take (i + 1))) 0 0 (by simp) hinner
  have hnum : |Spec.emaRec aS 0 (Spec.series (Spec.emaRec aL 0) ch)| ≤
      Spec.emaRec aS 0 (Spec.series (Spec.emaRec aL 0) (ch.map sabs)) := by
    simpa [Spec.series] using houter
  have hfun : (Spec.ema long (0 : K)) = Spec.emaRec aL 0 := by funext l; simp [Spec.ema, haL]
  simp only [Spec.tsi, ← hch, hfun]
  simp only [Spec.ema, ← haS]
  split
  · rename_i hden
    have := abs_le.mp hnum
    constructor
    · rw [le_div_iff₀ hden]; linarith [this.1]
    · rw [div_le_one hden]; exact this.2
  · constructor <;> norm_num

end Yata
