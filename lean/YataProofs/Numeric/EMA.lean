/-
  The exponential family: EMA, DMA, TMA, DEMA, TEMA, RMA, WSMA follow their documented
  recurrences, with exactly the documented smoothing constants.
-/
import YataProofs.Numeric.Common
namespace Yata
variable {K : Type} [Field K] [LinearOrder K] [IsStrictOrderedRing K]

theorem emaRec_append (a v : K) (l : List K) (x : K) :
    Spec.emaRec a v (l ++ [x]) = (x - Spec.emaRec a v l) * a + Spec.emaRec a v l := by
  induction l generalizing v with
  | nil => simp [Spec.emaRec]
  | cons y t ih => simp only [List.cons_append, Spec.emaRec, ih]

theorem series_snoc (f : List K → K) (h : List K) (x : K) :
    Spec.series f (h ++ [x]) = Spec.series f h ++ [f (h ++ [x])] := by
  unfold Spec.series
  simp only [List.length_append, List.length_singleton, List.range_succ, List.map_append,
    List.map_cons, List.map_nil]
  congr 1
  · apply List.map_congr_left
    intro i hi
    rw [List.mem_range] at hi
    rw [List.take_append_of_le_length (by omega)]
  · rw [List.take_of_length_le (by simp)]

namespace EMA

theorem new_ok {P n : Nat} (v : K) (hn0 : 0 < n) (hn : n ≤ P - 1) :
    EMA.new P n v = .ok { alpha := ((2 : Nat) : K) / ((n + 1 : Nat) : K), value := v } := by
  have hnP : n ≠ P := by omega
  have h1 : n + 1 ≤ P := by omega
  simp [EMA.new, Nat.pos_iff_ne_zero.mp hn0, hnP, chkAdd, h1]

/-- one step of the model is one step of the recurrence `e ← (x − e)·α + e` -/
theorem next_value (s : EMA K) (x : K) :
    (s.next x).1 = (x - s.value) * s.alpha + s.value ∧ (s.next x).2 = { s with value := (x - s.value) * s.alpha + s.value } :=
  ⟨rfl, rfl⟩

/-- after any stream the state holds the recurrence value -/
theorem run_spec (a v : K) (xs : List K) :
    ∃ outs, runM (liftNext EMA.next) { alpha := a, value := v } xs =
        .ok (outs, { alpha := a, value := Spec.emaRec a v xs }) ∧ outs.length = xs.length ∧
      ∀ i (hi : i < outs.length), outs[i] = Spec.emaRec a v (xs.take (i + 1)) := by
  obtain ⟨os, s', hr, hinv, hlen, houts⟩ :=
    runM_invariant (liftNext EMA.next) (fun h s => s = ({ alpha := a, value := Spec.emaRec a v h } : EMA K))
      (fun h o => o = Spec.emaRec a v h)
      (by
        intro h s x hs
        subst hs
        refine ⟨_, _, rfl, ?_, ?_⟩
        · simp [EMA.next, emaRec_append]
        · simp [EMA.next, emaRec_append])
      xs [] { alpha := a, value := v } (by simp [Spec.emaRec])
  simp only [List.nil_append] at hinv houts
  exact ⟨os, by rw [hr, hinv], hlen, houts⟩

end EMA

/-- RMA's update `α·x + (1−α)·prev` is the same recurrence with `α = 1/n` -/
theorem RMA.next_eq (s : RMA K) (x : K) (h : s.alpha_rev = 1 - s.alpha) :
    (s.next x).1 = (x - s.prev_value) * s.alpha + s.prev_value := by
  simp only [RMA.next, h]; ring

theorem RMA.new_ok {P n : Nat} (v : K) (hn0 : 0 < n) :
    RMA.new P n v = .ok { alpha := 1 / (n : K), alpha_rev := 1 - 1 / (n : K), prev_value := v } := by
  simp [RMA.new, Nat.pos_iff_ne_zero.mp hn0]

/-- WSMA(n) is an EMA of length `2n−1`, whose smoothing `2/((2n−1)+1)` is exactly `1/n` -/
theorem WSMA.new_ok {P n : Nat} (v : K) (hn0 : 0 < n) (hn : n ≤ P / 2) :
    WSMA.new P n v = .ok { ema := { alpha := 1 / (n : K), value := v } } := by
  have h1 : ¬ n > P / 2 := by omega
  have h2 : n * 2 ≤ P := by omega
  have h3 : 1 ≤ n * 2 := by omega
  have h4 : n * 2 - 1 + 1 ≤ P := by omega
  have h5 : n * 2 - 1 ≠ 0 := by omega
  have h6 : n * 2 - 1 ≠ P := by omega
  have hnK : (n : K) ≠ 0 := by exact_mod_cast Nat.pos_iff_ne_zero.mp hn0
  have e : ((2 : Nat) : K) / ((n * 2 - 1 + 1 : Nat) : K) = 1 / (n : K) := by
    have : n * 2 - 1 + 1 = n * 2 := by omega
    rw [this]; push_cast; field_simp
  simp [WSMA.new, h1, Nat.pos_iff_ne_zero.mp hn0, chkMul, h2, chkSub, h3, EMA.new, h5, h6, chkAdd, h4, Res.bind]
  field_simp

/-! ### compositions: DMA = EMA∘EMA, TMA = EMA∘EMA∘EMA, DEMA = 2·EMA − DMA, TEMA = 3(EMA − DMA) + TMA -/

/-- abbreviations for the three nested recurrences with smoothing `a` -/
def e1 (a v : K) (h : List K) : K := Spec.emaRec a v h
def e2 (a v : K) (h : List K) : K := Spec.emaRec a v (Spec.series (e1 a v) h)
def e3 (a v : K) (h : List K) : K := Spec.emaRec a v (Spec.series (e2 a v) h)

theorem e1_snoc (a v : K) (h : List K) (x : K) : e1 a v (h ++ [x]) = (x - e1 a v h) * a + e1 a v h :=
  emaRec_append a v h x
theorem e2_snoc (a v : K) (h : List K) (x : K) :
    e2 a v (h ++ [x]) = (e1 a v (h ++ [x]) - e2 a v h) * a + e2 a v h := by
  unfold e2; rw [series_snoc, emaRec_append]
theorem e3_snoc (a v : K) (h : List K) (x : K) :
    e3 a v (h ++ [x]) = (e2 a v (h ++ [x]) - e3 a v h) * a + e3 a v h := by
  unfold e3; rw [series_snoc, emaRec_append]

theorem e1_nil (a v : K) : e1 a v [] = v := rfl
theorem e2_nil (a v : K) : e2 a v [] = v := rfl
theorem e3_nil (a v : K) : e3 a v [] = v := rfl

theorem DMA.run_spec (a v : K) (xs : List K) :
    ∃ outs s', runM (liftNext DMA.next) { ema := ⟨a, v⟩, dma := ⟨a, v⟩ } xs = .ok (outs, s') ∧
      outs.length = xs.length ∧ ∀ i (hi : i < outs.length), outs[i] = e2 a v (xs.take (i + 1)) := by
  obtain ⟨os, s', hr, _, hlen, houts⟩ :=
    runM_invariant (liftNext DMA.next)
      (fun h s => s = ({ ema := ⟨a, e1 a v h⟩, dma := ⟨a, e2 a v h⟩ } : DMA K))
      (fun h o => o = e2 a v h)
      (by
        intro h s x hs; subst hs
        refine ⟨_, _, rfl, ?_, ?_⟩ <;> simp [DMA.next, EMA.next, e1_snoc, e2_snoc])
      xs [] { ema := ⟨a, v⟩, dma := ⟨a, v⟩ } (by simp [e1_nil, e2_nil])
  exact ⟨os, s', hr, hlen, by simpa using houts⟩

theorem TMA.run_spec (a v : K) (xs : List K) :
    ∃ outs s', runM (liftNext TMA.next) { dma := { ema := ⟨a, v⟩, dma := ⟨a, v⟩ }, tma := ⟨a, v⟩ } xs = .ok (outs, s') ∧
      outs.length = xs.length ∧ ∀ i (hi : i < outs.length), outs[i] = e3 a v (xs.take (i + 1)) := by
  obtain ⟨os, s', hr, _, hlen, houts⟩ :=
    runM_invariant (liftNext TMA.next)
      (fun h s => s = ({ dma := { ema := ⟨a, e1 a v h⟩, dma := ⟨a, e2 a v h⟩ }, tma := ⟨a, e3 a v h⟩ } : TMA K))
      (fun h o => o = e3 a v h)
      (by
        intro h s x hs; subst hs
        refine ⟨_, _, rfl, ?_, ?_⟩ <;> simp [TMA.next, DMA.next, EMA.next, e1_snoc, e2_snoc, e3_snoc])
      xs [] { dma := { ema := ⟨a, v⟩, dma := ⟨a, v⟩ }, tma := ⟨a, v⟩ } (by simp [e1_nil, e2_nil, e3_nil])
  exact ⟨os, s', hr, hlen, by simpa using houts⟩

theorem DEMA.run_spec (a v : K) (xs : List K) :
    ∃ outs s', runM (liftNext DEMA.next) { ema := ⟨a, v⟩, dma := ⟨a, v⟩ } xs = .ok (outs, s') ∧
      outs.length = xs.length ∧
      ∀ i (hi : i < outs.length), outs[i] = 2 * e1 a v (xs.take (i + 1)) - e2 a v (xs.take (i + 1)) := by
  obtain ⟨os, s', hr, _, hlen, houts⟩ :=
    runM_invariant (liftNext DEMA.next)
      (fun h s => s = ({ ema := ⟨a, e1 a v h⟩, dma := ⟨a, e2 a v h⟩ } : DEMA K))
      (fun h o => o = 2 * e1 a v h - e2 a v h)
      (by
        intro h s x hs; subst hs
        refine ⟨_, _, rfl, ?_, ?_⟩
        · simp [DEMA.next, EMA.next, e1_snoc, e2_snoc]
        · simp [DEMA.next, DEMA.peek, EMA.next, e1_snoc, e2_snoc]; ring)
      xs [] { ema := ⟨a, v⟩, dma := ⟨a, v⟩ } (by simp [e1_nil, e2_nil])
  exact ⟨os, s', hr, hlen, by simpa using houts⟩

theorem TEMA.run_spec (a v : K) (xs : List K) :
    ∃ outs s', runM (liftNext TEMA.next) { ema := ⟨a, v⟩, dma := ⟨a, v⟩, tma := ⟨a, v⟩ } xs = .ok (outs, s') ∧
      outs.length = xs.length ∧
      ∀ i (hi : i < outs.length),
        outs[i] = 3 * (e1 a v (xs.take (i + 1)) - e2 a v (xs.take (i + 1))) + e3 a v (xs.take (i + 1)) := by
  obtain ⟨os, s', hr, _, hlen, houts⟩ :=
    runM_invariant (liftNext TEMA.next)
      (fun h s => s = ({ ema := ⟨a, e1 a v h⟩, dma := ⟨a, e2 a v h⟩, tma := ⟨a, e3 a v h⟩ } : TEMA K))
      (fun h o => o = 3 * (e1 a v h - e2 a v h) + e3 a v h)
      (by
        intro h s x hs; subst hs
        refine ⟨_, _, rfl, ?_, ?_⟩
        · simp [TEMA.next, EMA.next, e1_snoc, e2_snoc, e3_snoc]
        · simp [TEMA.next, TEMA.peek, EMA.next, e1_snoc, e2_snoc, e3_snoc]; ring)
      xs [] { ema := ⟨a, v⟩, dma := ⟨a, v⟩, tma := ⟨a, v⟩ } (by simp [e1_nil, e2_nil, e3_nil])
  exact ⟨os, s', hr, hlen, by simpa using houts⟩

end Yata
