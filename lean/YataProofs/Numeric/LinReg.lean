/-
  LinReg: the running sums are Σy and Σ(abscissa·y) over the last `n` values (abscissae −(n−1) … 0), and the
  output is the least-squares line through them evaluated at the newest point.
-/
import YataProofs.Numeric.Common
import Mathlib.Tactic.Ring
import Mathlib.Tactic.Linarith
import Mathlib.Tactic.FieldSimp
import Mathlib.Tactic.LinearCombination
import Mathlib.Tactic.NormNum
namespace Yata
variable {K : Type} [Field K] [LinearOrder K] [IsStrictOrderedRing K]

/-- Σ (index − c)·y over `l` with indices starting at `off` -/
def xySum (c : K) (off : Nat) (l : List K) : K := ((l.zipIdx off).map fun p => (((p.2 : Nat) : K) - c) * p.1).sum

theorem xySum_nil (c : K) (off : Nat) : xySum c off [] = 0 := by simp [xySum]
theorem xySum_cons (c : K) (off : Nat) (a : K) (t : List K) :
    xySum c off (a :: t) = ((off : K) - c) * a + xySum c (off + 1) t := by
  simp [xySum, List.zipIdx_cons]

theorem xySum_shift (c : K) (off : Nat) (t : List K) : xySum c (off + 1) t = xySum c off t + t.sum := by
  induction t generalizing off with
  | nil => simp [xySum_nil]
  | cons a t ih =>
    rw [xySum_cons, xySum_cons, ih (off + 1), ih off]
    simp only [List.sum_cons]; push_cast; ring

theorem xySum_append (c : K) (off : Nat) (t : List K) (x : K) :
    xySum c off (t ++ [x]) = xySum c off t + (((off + t.length : Nat) : K) - c) * x := by
  induction t generalizing off with
  | nil => simp [xySum_cons, xySum_nil]
  | cons a t ih =>
    rw [List.cons_append, xySum_cons, xySum_cons, ih (off + 1)]
    simp only [List.length_cons]
    have : off + 1 + t.length = off + (t.length + 1) := by omega
    rw [this]; ring

/-- sliding the window by one: `Σ x·y` changes by `n·(leaving value) − Σy` -/
theorem xySum_slide (n : Nat) (a : K) (t : List K) (x : K) (hlen : (a :: t).length = n) :
    xySum ((n - 1 : Nat) : K) 0 (t ++ [x]) = xySum ((n - 1 : Nat) : K) 0 (a :: t) + (a * (n : K) - (a :: t).sum) := by
  have ht : t.length = n - 1 := by simp at hlen; omega
  rw [xySum_append, xySum_cons, xySum_shift]
  simp only [Nat.zero_add, ht, sub_self, zero_mul, add_zero, List.sum_cons, Nat.cast_zero, zero_sub]
  have hn : (n : K) = ((n - 1 : Nat) : K) + 1 := by
    have : n = (n - 1) + 1 := by simp at hlen; omega
    conv_lhs => rw [this]
    push_cast; ring
  rw [hn]; ring

theorem two_mul_sum_range (n : Nat) : 2 * (List.range n).sum = n * (n - 1) := by
  induction n with
  | zero => simp
  | succ m ih =>
    rw [List.range_succ, List.sum_append, Nat.mul_add, ih]
    simp only [List.sum_cons, List.sum_nil, Nat.add_zero, Nat.add_sub_cancel]
    cases m with
    | zero => simp
    | succ k => simp only [Nat.add_sub_cancel]; ring

theorem six_mul_sum_sq_range (n : Nat) : 6 * ((List.range n).map fun i => i * i).sum = (n - 1) * n * (2 * n - 1) := by
  induction n with
  | zero => simp
  | succ m ih =>
    rw [List.range_succ, List.map_append, List.sum_append, Nat.mul_add, ih]
    simp only [List.map_cons, List.map_nil, List.sum_cons, List.sum_nil, Nat.add_zero, Nat.add_sub_cancel]
    cases m with
    | zero => simp
    | succ k =>
      simp only [Nat.add_sub_cancel]
      have : 2 * (k + 1 + 1) - 1 = 2 * k + 3 := by omega
      have h2 : 2 * (k + 1) - 1 = 2 * k + 1 := by omega
      rw [this, h2]; ring

namespace LinReg

/-- the constants computed by `new` are the sums of the abscissae and of their squares -/
theorem sx_eq (n : Nat) : n * (n - 1) / 2 = (List.range n).sum := by
  have := two_mul_sum_range n
  omega

theorem sx2_eq (n : Nat) : (n * (n - 1) / 2) * (2 * (n - 1) + 1) / 3 = ((List.range n).map fun i => i * i).sum := by
  have h1 := two_mul_sum_range n
  have h2 := six_mul_sum_sq_range n
  have hs : n * (n - 1) / 2 = (List.range n).sum := sx_eq n
  rw [hs]
  have h3 : 3 * ((List.range n).map fun i => i * i).sum = (List.range n).sum * (2 * (n - 1) + 1) := by
    cases n with
    | zero => simp
    | succ m =>
      simp only [Nat.add_sub_cancel] at h1 h2 ⊢
      have e : 2 * (m + 1) - 1 = 2 * m + 1 := by omega
      rw [e] at h2
      have : 2 * (3 * ((List.range (m + 1)).map fun i => i * i).sum) = 2 * ((List.range (m + 1)).sum * (2 * m + 1)) := by
        calc 2 * (3 * ((List.range (m + 1)).map fun i => i * i).sum)
            = 6 * ((List.range (m + 1)).map fun i => i * i).sum := by ring
          _ = m * (m + 1) * (2 * m + 1) := h2
          _ = (2 * (List.range (m + 1)).sum) * (2 * m + 1) := by rw [h1]; ring
          _ = 2 * ((List.range (m + 1)).sum * (2 * m + 1)) := by ring
      omega
  rw [← h3]; omega

structure Inv (P n : Nat) (hist : List K) (s : LinReg K) : Prop where
  tracks : Tracks P n s.window hist
  fl : s.float_length = (n : K)
  li : s.length_invert = -(1 / (n : K))
  dv : s.divider = 1 / ((n : K) * ((((List.range n).map fun i => i * i).sum : Nat) : K) -
        (((List.range n).sum : Nat) : K) * (((List.range n).sum : Nat) : K))
  sx : s.s_x = -(((List.range n).sum : Nat) : K)
  sy : s.s_y = -(lastN n hist).sum
  sxy : s.s_xy = xySum ((n - 1 : Nat) : K) 0 (lastN n hist)

/-- the value returned by `peek`/`next` in terms of the window -/
theorem b_eq {P n : Nat} {hist : List K} {s : LinReg K} (hn0 : 0 < n) (h : Inv P n hist s) :
    s.b =
      (let l := lastN n hist
       let nn : K := (n : K)
       let xsum : K := -(((List.range n).sum : Nat) : K)
       let x2sum : K := ((((List.range n).map fun i => i * i).sum : Nat) : K)
       let ysum := l.sum
       let xysum := xySum ((n - 1 : Nat) : K) 0 l
       let k := (nn * xysum - xsum * ysum) / (nn * x2sum - xsum * xsum)
       (ysum - k * xsum) / nn) := by
  have hnK : (n : K) ≠ 0 := by exact_mod_cast (Nat.pos_iff_ne_zero.mp hn0)
  simp only [LinReg.b, LinReg.tan, h.fl, h.li, h.dv, h.sx, h.sy, h.sxy]
  field_simp
  ring

theorem xySum_replicate (c : K) (n : Nat) (v : K) (off : Nat) :
    xySum c off (List.replicate n v) = v * ((((List.range n).map (· + off)).sum : Nat) : K) - c * v * (n : K) := by
  induction n generalizing off with
  | zero => simp [xySum_nil]
  | succ m ih =>
    rw [List.replicate_succ, xySum_cons, ih (off + 1), List.range_succ_eq_map]
    simp only [List.map_cons, List.map_map, List.sum_cons, Nat.zero_add]
    have : ((List.range m).map ((· + off) ∘ Nat.succ)) = (List.range m).map (· + (off + 1)) := by
      apply List.map_congr_left; intro i _; simp only [Function.comp, Nat.succ_eq_add_one]; omega
    rw [this]; push_cast; ring

theorem new_spec {P n : Nat} (v : K) (hn2 : 2 ≤ n) (hn : n ≤ P - 1) :
    ∃ s, LinReg.new P n v = .ok s ∧ Inv P n (history n v []) s := by
  have hnP : n ≠ P := by omega
  have hn0 : n ≠ 0 := by omega
  have hn1 : n ≠ 1 := by omega
  obtain ⟨w, hw, ht⟩ := Tracks.new (P := P) v hn
  have hsx := sx_eq n
  have hsx2 := sx2_eq n
  refine ⟨{ float_length := (n : K), length_invert := -(1 / (n : K)),
            divider := 1 / (((n * (n * (n - 1) / 2 * (2 * (n - 1) + 1) / 3) - n * (n - 1) / 2 * (n * (n - 1) / 2) : Nat)) : K),
            s_x := -(((n * (n - 1) / 2 : Nat)) : K), s_y := (-v) * (n : K), s_xy := v * (-(((n * (n - 1) / 2 : Nat)) : K)), window := w },
    by simp [LinReg.new, hn0, hn1, hnP, winNew, hw, Res.ofExcept, Res.bind], ht, rfl, rfl, ?_, ?_, ?_, ?_⟩
  · show 1 / (((n * (n * (n - 1) / 2 * (2 * (n - 1) + 1) / 3) - n * (n - 1) / 2 * (n * (n - 1) / 2) : Nat)) : K) = _
    rw [hsx2, hsx]
    congr 1
    have hle : (List.range n).sum * (List.range n).sum ≤ n * ((List.range n).map fun i => i * i).sum := by
      -- Cauchy–Schwarz for 1·i, in the form needed for the truncated subtraction: via 2·Σi = n(n−1), 6·Σi² = (n−1)n(2n−1)
      have h1 := two_mul_sum_range n
      have h2 := six_mul_sum_sq_range n
      obtain ⟨m, rfl⟩ : ∃ m, n = m + 1 := ⟨n - 1, by omega⟩
      simp only [Nat.add_sub_cancel] at h1 h2
      have e : 2 * (m + 1) - 1 = 2 * m + 1 := by omega
      rw [e] at h2
      nlinarith [h1, h2]
    rw [Nat.cast_sub hle]; push_cast; ring
  · show -(((n * (n - 1) / 2 : Nat)) : K) = _
    rw [hsx]
  · show (-v) * (n : K) = _
    simp [lastN_history_nil, sum_replicate_field]; ring
  · show v * (-(((n * (n - 1) / 2 : Nat)) : K)) = _
    rw [hsx, lastN_history_nil, xySum_replicate]
    simp only [Nat.add_zero, List.map_id']
    have h1 := two_mul_sum_range n
    have : (2 : K) * (((List.range n).sum : Nat) : K) = (n : K) * ((n - 1 : Nat) : K) := by exact_mod_cast h1
    have hmap : ((List.range n).map fun x => x) = List.range n := List.map_id' _
    linear_combination (-v) * this

theorem next_spec {P n : Nat} {hist : List K} {s : LinReg K} (x : K) (hn0 : 0 < n) (h : Inv P n hist s) :
    ∃ o s', s.next x = .ok (o, s') ∧ Inv P n (hist ++ [x]) s' ∧ o = s'.b := by
  obtain ⟨old, w', hp, ht', hhead⟩ := h.tracks.push hn0 x
  have hlen := lastN_length h.tracks.len
  obtain ⟨a, t, hat⟩ : ∃ a t, lastN n hist = a :: t := by
    cases hl : lastN n hist with
    | nil => rw [hl] at hlen; simp at hlen; omega
    | cons a t => exact ⟨a, t, rfl⟩
  rw [hat] at hhead
  simp only [List.head?_cons, Option.some.injEq] at hhead
  subst hhead
  have hl' : lastN n (hist ++ [x]) = t ++ [x] := by rw [lastN_snoc x hn0 h.tracks.len, hat]; rfl
  have hlen' : (a :: t).length = n := by rw [← hat]; exact hlen
  refine ⟨_, { s with s_xy := s.s_xy + (a * s.float_length + s.s_y), s_y := s.s_y + (a - x), window := w' },
    by simp [LinReg.next, hp], ⟨ht', h.fl, h.li, h.dv, h.sx, ?_, ?_⟩, rfl⟩
  · show s.s_y + (a - x) = _
    rw [h.sy, hl', hat]; simp; ring
  · show s.s_xy + (a * s.float_length + s.s_y) = _
    rw [h.sxy, h.sy, h.fl, hl', hat, xySum_slide n a t x hlen']; ring

/-- over whole streams: the least-squares line through the last `n` values, at the newest abscissa -/
theorem spec {P n : Nat} (v : K) (hn2 : 2 ≤ n) (hn : n ≤ P - 1) (xs : List K) :
    ∃ s0 outs s', LinReg.new P n v = .ok s0 ∧ runM LinReg.next s0 xs = .ok (outs, s') ∧
      outs.length = xs.length ∧ ∀ i (hi : i < outs.length), outs[i] = Spec.linreg n v (xs.take (i + 1)) := by
  have hn0 : 0 < n := by omega
  apply method_spec _ _ (fun h s => Inv P n (history n v h) s)
  · exact new_spec v hn2 hn
  · intro h s x hinv
    obtain ⟨o, s', hnx, hinv', ho⟩ := next_spec x hn0 hinv
    refine ⟨o, s', hnx, by rw [history_snoc]; exact hinv', ?_⟩
    rw [ho, b_eq hn0 hinv']
    simp only [Spec.linreg, Spec.win, history_snoc, xySum]

end LinReg
end Yata
