/-
  Conv: the weighted mean of the last `n` values with the given weights (oldest → newest), normalised by their sum.
-/
import YataProofs.Numeric.Common
import YataProofs.Numeric.MeanAbsDev
import YataProofs.Selection
namespace Yata
variable {K : Type} [Field K] [LinearOrder K] [IsStrictOrderedRing K]

theorem zipWith_reverse_sum (f : K → K → K) (l m : List K) (h : l.length = m.length) :
    (List.zipWith f l.reverse m.reverse).sum = (List.zipWith f l m).sum := by
  rw [← List.reverse_zipWith h, List.sum_reverse]

namespace Conv

theorem collect_eq {P : Nat} {w : Window K} (h : Window.Inv P w) :
    w.iterCollect (w.size + 1) w.iterStart = .ok (Window.toList w).reverse := by
  have := Window.iterCollect_spec h (w.size + 1) (Window.iterStart w) 0 (Window.iterStart_inv w) (by omega)
  simpa using this

theorem spec {P : Nat} (ws : List K) (v : K) (h1 : 1 ≤ ws.length) (hn : ws.length ≤ P - 1) (xs : List K) :
    ∃ s0 outs s', Conv.new P ws v = .ok s0 ∧ runM Conv.next s0 xs = .ok (outs, s') ∧
      outs.length = xs.length ∧ ∀ i (hi : i < outs.length), outs[i] = Spec.conv ws v (xs.take (i + 1)) := by
  have hn0 : 0 < ws.length := by omega
  apply method_spec (Conv.new P ws v) Conv.next
    (fun h (s : Conv K) => Tracks P ws.length s.window (history ws.length v h) ∧ s.weights = ws ∧
      s.wsum_invert = 1 / ws.sum)
    (fun h => Spec.conv ws v h)
  · obtain ⟨w, hw, ht⟩ := Tracks.new (P := P) v hn
    refine ⟨{ window := w, weights := ws, wsum_invert := 1 / ws.foldl (· + ·) 0 }, ?_, ht, rfl, ?_⟩
    · simp [Conv.new, h1, hn, winNew, hw, Res.ofExcept, Res.bind]
    · show 1 / ws.foldl (· + ·) 0 = 1 / ws.sum
      rw [foldl_add_eq_sum]; simp
  · intro h s x ⟨ht, hw, hi⟩
    obtain ⟨old, w', hp, ht', _⟩ := ht.push hn0 x
    have hc := collect_eq ht'.inv
    have hlen : (Window.toList w').length = ws.length := by
      rw [ht'.contents, lastN_length ht'.len]
    refine ⟨Conv.dot (Window.toList w').reverse ws.reverse * (1 / ws.sum), { s with window := w' }, ?_,
      ⟨by rw [history_snoc]; exact ht', hw, hi⟩, ?_⟩
    · simp only [Conv.next, hp, Conv.peek, hc, hw, hi]
    · unfold Conv.dot
      rw [foldl_add_eq_sum, zero_add, zipWith_reverse_sum _ _ _ hlen, ht'.contents]
      simp only [Spec.conv, Spec.win, history_snoc]
      ring

end Conv
end Yata
