/-
  WMA: numerator = Σ (n-i)·x_{t-i}, total = -Σ x_{t-i}; output = weighted mean with weights
  n, n-1, …, 1 from the newest.
-/
import YataProofs.Numeric.Common
import Mathlib.Tactic.LinearCombination
namespace Yata
variable {K : Type} [Field K] [LinearOrder K] [IsStrictOrderedRing K]

theorem rampSum_append (k : Nat) (l : List K) (x : K) :
    Spec.rampSum k (l ++ [x]) = Spec.rampSum k l + ((k + l.length : Nat) : K) * x := by
  induction l generalizing k with
  | nil => simp [Spec.rampSum]
  | cons a t ih =>
    simp only [List.cons_append, Spec.rampSum, ih (k + 1), List.length_cons]
    have : k + 1 + t.length = k + (t.length + 1) := by omega
    rw [this]; ring

theorem rampSum_succ (k : Nat) (l : List K) :
    Spec.rampSum (k + 1) l = Spec.rampSum k l + l.sum := by
  induction l generalizing k with
  | nil => simp [Spec.rampSum]
  | cons a t ih =>
    simp only [Spec.rampSum, ih (k + 1), List.sum_cons]
    push_cast; ring

theorem rampSum_replicate (n : Nat) (v : K) :
    Spec.rampSum 1 (List.replicate n v) = ((n * (n + 1) / 2 : Nat) : K) * v := by
  have h2 : ∀ m : Nat, (2 : K) * ((m * (m + 1) / 2 : Nat) : K) = (m : K) * ((m : K) + 1) := by
    intro m
    have : 2 * (m * (m + 1) / 2) = m * (m + 1) := Nat.mul_div_cancel' (Nat.even_mul_succ_self m).two_dvd
    have h := congrArg (fun t : Nat => (t : K)) this
    push_cast at h; exact h
  have key : ∀ n : Nat, (2 : K) * Spec.rampSum 1 (List.replicate n v) = (2 : K) * (((n * (n + 1) / 2 : Nat) : K) * v) := by
    intro n
    induction n with
    | zero => simp [Spec.rampSum]
    | succ m ih =>
      rw [List.replicate_succ', rampSum_append, mul_add, ih]
      have a := h2 m
      have b := h2 (m + 1)
      simp only [List.length_replicate]
      push_cast at b ⊢
      linear_combination v * a - v * b
  have := key n
  exact mul_left_cancel₀ (two_ne_zero) this

namespace WMA

structure Inv (P n : Nat) (hist : List K) (s : WMA K) : Prop where
  tracks : Tracks P n s.window hist
  invert_sum : s.invert_sum = 1 / ((n * (n + 1) / 2 : Nat) : K)
  float_length : s.float_length = (n : K)
  total : s.total = -(lastN n hist).sum
  numerator : s.numerator = Spec.rampSum 1 (lastN n hist)

theorem new_spec {P n : Nat} (v : K) (hn0 : 0 < n) (hn : n ≤ P - 1) :
    ∃ s, WMA.new P n v = .ok s ∧ Inv P n (history n v []) s := by
  have hnP : n ≠ P := by omega
  obtain ⟨w, hw, ht⟩ := Tracks.new (P := P) v hn
  refine ⟨{ invert_sum := 1 / ((n * (n + 1) / 2 : Nat) : K), float_length := (n : K), total := (-v) * (n : K),
            numerator := v * ((n * (n + 1) / 2 : Nat) : K), window := w }, ?_, ht, rfl, rfl, ?_, ?_⟩
  · simp [WMA.new, Nat.pos_iff_ne_zero.mp hn0, hnP, winNew, hw, Res.ofExcept, Res.bind]
  · simp [lastN_history_nil, sum_replicate_field]; ring
  · simp only [lastN_history_nil, rampSum_replicate]; ring

theorem next_spec {P n : Nat} {hist : List K} {s : WMA K} (x : K) (hn0 : 0 < n) (h : Inv P n hist s) :
    ∃ o s', s.next x = .ok (o, s') ∧ Inv P n (hist ++ [x]) s' ∧
      o = Spec.rampSum 1 (lastN n (hist ++ [x])) / ((n * (n + 1) / 2 : Nat) : K) := by
  obtain ⟨old, w', hp, ht', hhead⟩ := h.tracks.push hn0 x
  have hlen := lastN_length h.tracks.len
  obtain ⟨a, t, hat⟩ : ∃ a t, lastN n hist = a :: t := by
    cases hl : lastN n hist with
    | nil => rw [hl] at hlen; simp at hlen; omega
    | cons a t => exact ⟨a, t, rfl⟩
  have hold : a = old := by rw [hat] at hhead; simpa using hhead
  have htl : t.length = n - 1 := by rw [hat] at hlen; simp at hlen; omega
  have hnew : lastN n (hist ++ [x]) = t ++ [x] := by rw [lastN_snoc x hn0 h.tracks.len, hat]; rfl
  have hnum : s.numerator + (s.float_length * x + s.total) = Spec.rampSum 1 (lastN n (hist ++ [x])) := by
    rw [h.numerator, h.float_length, h.total, hnew, hat, rampSum_append, htl]
    simp only [Spec.rampSum, List.sum_cons]
    rw [rampSum_succ 1 t]
    have : ((1 + (n - 1) : Nat) : K) = (n : K) := by congr 1; omega
    rw [this]; push_cast; ring
  have htot : s.total + (old - x) = -(lastN n (hist ++ [x])).sum := by
    rw [h.total, hnew, hat, ← hold]; simp; ring
  refine ⟨(s.numerator + (s.float_length * x + s.total)) * s.invert_sum,
    { s with numerator := s.numerator + (s.float_length * x + s.total), total := s.total + (old - x), window := w' },
    by simp [WMA.next, WMA.peek, hp], ⟨ht', h.invert_sum, h.float_length, htot, hnum⟩, ?_⟩
  rw [hnum, h.invert_sum]; ring

end WMA
end Yata
