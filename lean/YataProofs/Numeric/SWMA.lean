/-
  SWMA: symmetric (triangular) weights min(i+1, n−i) over the last `n` values, maintained with two windows
  (the older ⌈n/2⌉ values with rising weights, the newer ⌊n/2⌋ values with falling weights) and three accumulators.
-/
import YataProofs.Numeric.WMA
import YataProofs.Numeric.LinReg
import YataProofs.Numeric.Simple
namespace Yata
variable {K : Type} [Field K] [LinearOrder K] [IsStrictOrderedRing K]

/-- Σ w(index)·x with indices starting at `off` -/
def wSum (w : Nat → K) (off : Nat) (l : List K) : K := ((l.zipIdx off).map fun p => w p.2 * p.1).sum

theorem wSum_nil (w : Nat → K) (off : Nat) : wSum w off [] = 0 := by simp [wSum]
theorem wSum_cons (w : Nat → K) (off : Nat) (a : K) (t : List K) :
    wSum w off (a :: t) = w off * a + wSum w (off + 1) t := by simp [wSum, List.zipIdx_cons]

theorem wSum_append (w : Nat → K) (off : Nat) (l m : List K) :
    wSum w off (l ++ m) = wSum w off l + wSum w (off + l.length) m := by
  induction l generalizing off with
  | nil => simp [wSum_nil]
  | cons a t ih =>
    rw [List.cons_append, wSum_cons, wSum_cons, ih (off + 1)]
    simp only [List.length_cons]
    have : off + 1 + t.length = off + (t.length + 1) := by omega
    rw [this]; ring

theorem wSum_congr (w w' : Nat → K) (off : Nat) (l : List K) (h : ∀ i, off ≤ i → i < off + l.length → w i = w' i) :
    wSum w off l = wSum w' off l := by
  induction l generalizing off with
  | nil => simp [wSum_nil]
  | cons a t ih =>
    rw [wSum_cons, wSum_cons, h off (le_refl _) (by simp), ih (off + 1)]
    intro i h1 h2
    exact h i (by omega) (by simp only [List.length_cons]; omega)

/-- rising weights are the ramp of the WMA -/
theorem wSum_ramp (off : Nat) (l : List K) : wSum (fun i => ((i + 1 : Nat) : K)) off l = Spec.rampSum (off + 1) l := by
  induction l generalizing off with
  | nil => simp [wSum_nil, Spec.rampSum]
  | cons a t ih => rw [wSum_cons, ih (off + 1)]; simp [Spec.rampSum]

/-- falling ramp: `|l|·l₀ + (|l|−1)·l₁ + … + 1·l_last` -/
def rampDown : List K → K
  | [] => 0
  | a :: t => ((t.length + 1 : Nat) : K) * a + rampDown t

theorem wSum_down (n off : Nat) (l : List K) (h : off + l.length = n) :
    wSum (fun i => ((n - i : Nat) : K)) off l = rampDown l := by
  induction l generalizing off with
  | nil => simp [wSum_nil, rampDown]
  | cons a t ih =>
    rw [wSum_cons, ih (off + 1) (by simp at h; omega)]
    simp only [rampDown]
    congr 2
    simp at h; congr 1; omega

theorem rampDown_snoc (t : List K) (x : K) : rampDown (t ++ [x]) = rampDown t + t.sum + x := by
  induction t with
  | nil => simp [rampDown]
  | cons a t ih =>
    simp only [List.cons_append, rampDown, ih, List.length_append, List.length_singleton, List.sum_cons]
    push_cast; ring

/-- sliding the newer half: the leaving element had the full weight, everything else gains one -/
theorem rampDown_slide (a : K) (t : List K) (x : K) :
    rampDown (t ++ [x]) = rampDown (a :: t) + (a * (-(((a :: t).length : Nat) : K)) + ((a :: t).sum + (x - a))) := by
  rw [rampDown_snoc]; simp only [rampDown, List.length_cons, List.sum_cons]; push_cast; ring

/-- sliding the older half: as in the WMA -/
theorem rampUp_slide (a : K) (t : List K) (y : K) :
    Spec.rampSum 1 (t ++ [y]) = Spec.rampSum 1 (a :: t) + (y * (((a :: t).length : Nat) : K) + -((a :: t).sum)) := by
  rw [rampSum_append]
  simp only [Spec.rampSum, List.length_cons, List.sum_cons]
  rw [rampSum_succ 1 t]
  push_cast; ring

theorem lastN_split (L R : Nat) (H : List K) (h : L + R ≤ H.length) :
    lastN (L + R) H = lastN L (H.take (H.length - R)) ++ lastN R H := by
  unfold lastN
  simp only [List.length_take]
  have e1 : min (H.length - R) H.length = H.length - R := by omega
  rw [e1, List.drop_take]
  have e2 : H.length - R - (H.length - R - L) = L := by omega
  rw [e2]
  have e3 : H.length - (L + R) = H.length - R - L := by omega
  rw [e3]
  have e4 : H.drop (H.length - R) = (H.drop (H.length - R - L)).drop L := by
    rw [List.drop_drop]; congr 1; omega
  rw [e4, List.take_append_drop]


theorem rampDown_eq_reverse (l : List K) : rampDown l = Spec.rampSum 1 l.reverse := by
  induction l with
  | nil => simp [rampDown, Spec.rampSum]
  | cons a t ih =>
    rw [List.reverse_cons, rampSum_append, ← ih]
    simp only [rampDown, List.length_reverse]
    push_cast; ring

theorem wSum_ones (w : Nat → K) (off m : Nat) :
    wSum w off (List.replicate m 1) = ((List.range m).map fun i => w (off + i)).sum := by
  induction m generalizing off with
  | zero => simp [wSum_nil]
  | succ k ih =>
    rw [List.replicate_succ, wSum_cons, ih (off + 1), List.range_succ_eq_map]
    simp only [List.map_cons, List.map_map, List.sum_cons, Nat.add_zero, mul_one]
    congr 2
    apply List.map_congr_left
    intro i _
    simp only [Function.comp, Nat.succ_eq_add_one]
    congr 1; omega

/-- the triangular weights: rising on the older ⌈n/2⌉ positions, falling on the newer ⌊n/2⌋ -/
def triW (n : Nat) : Nat → K := fun i => ((min (i + 1) (n - i) : Nat) : K)

theorem triW_left (n i : Nat) (h : 2 * i + 1 ≤ n) : triW (K := K) n i = ((i + 1 : Nat) : K) := by
  unfold triW; congr 1; omega
theorem triW_right (n i : Nat) (h : n ≤ 2 * i + 1) : triW (K := K) n i = ((n - i : Nat) : K) := by
  unfold triW; congr 1; omega

/-- numerator of the definition, split at the middle -/
theorem triW_sum (n : Nat) (A B : List K) (hA : A.length = (n + 1) / 2) (hB : B.length = n / 2) :
    wSum (triW n) 0 (A ++ B) = Spec.rampSum 1 A + rampDown B := by
  rw [wSum_append]
  have h1 : wSum (triW n) 0 A = wSum (fun i => ((i + 1 : Nat) : K)) 0 A :=
    wSum_congr _ _ _ _ (fun i _ hi => triW_left n i (by rw [hA] at hi; omega))
  have h2 : wSum (triW n) (0 + A.length) B = wSum (fun i => ((n - i : Nat) : K)) (0 + A.length) B :=
    wSum_congr _ _ _ _ (fun i hi _ => triW_right n i (by rw [hA] at hi; omega))
  rw [h1, h2, wSum_ramp, wSum_down n (0 + A.length) B (by rw [hA, hB]; omega)]

/-- denominator of the definition -/
theorem triW_total (n : Nat) :
    ((List.range n).map (triW (K := K) n)).sum =
      (((((n + 1) / 2) * ((n + 1) / 2 + 1) / 2 + (n / 2) * (n / 2 + 1) / 2 : Nat)) : K) := by
  have hsplit : List.replicate n (1 : K) = List.replicate ((n + 1) / 2) 1 ++ List.replicate (n / 2) 1 := by
    rw [← List.replicate_add]; congr 1; omega
  have h := triW_sum (K := K) n (List.replicate ((n + 1) / 2) 1) (List.replicate (n / 2) 1) (by simp) (by simp)
  rw [← hsplit, wSum_ones] at h
  simp only [Nat.zero_add] at h
  rw [h, rampDown_eq_reverse, List.reverse_replicate, rampSum_replicate, rampSum_replicate]
  push_cast; ring

namespace SWMA

/-- the older part of the history: everything but the newest `R` values -/
def older (R : Nat) (H : List K) : List K := H.take (H.length - R)

theorem older_snoc (R : Nat) (H : List K) (x : K) (hR : 0 < R) (hl : R ≤ H.length) (y : K)
    (hy : (lastN R H).head? = some y) : older R (H ++ [x]) = older R H ++ [y] := by
  unfold older lastN at *
  rw [List.head?_drop] at hy
  have hidx : H.length - R < H.length := by omega
  rw [List.getElem?_eq_getElem hidx] at hy
  simp only [Option.some.injEq] at hy
  simp only [List.length_append, List.length_singleton]
  have e : H.length + 1 - R = (H.length - R) + 1 := by omega
  rw [e, List.take_append_of_le_length (by omega), List.take_succ, List.getElem?_eq_getElem hidx, hy]
  simp

structure Inv (P n : Nat) (hist : List K) (s : SWMA K) : Prop where
  rt : Tracks P (n / 2) s.right_window hist
  lt : Tracks P ((n + 1) / 2) s.left_window (older (n / 2) hist)
  rtot : s.right_total = (lastN (n / 2) hist).sum
  rfl' : s.right_float_length = -((n / 2 : Nat) : K)
  ltot : s.left_total = -(lastN ((n + 1) / 2) (older (n / 2) hist)).sum
  lfl : s.left_float_length = (((n + 1) / 2 : Nat) : K)
  inv : s.invert_sum = 1 / (((((n + 1) / 2) * ((n + 1) / 2 + 1) / 2 + (n / 2) * (n / 2 + 1) / 2 : Nat)) : K)
  num : s.numerator = Spec.rampSum 1 (lastN ((n + 1) / 2) (older (n / 2) hist)) + rampDown (lastN (n / 2) hist)

theorem tracks_replicate {P k m : Nat} (v : K) (hk : k ≤ P - 1) (hkm : k ≤ m) :
    ∃ w, Window.new P k v = .ok w ∧ Tracks P k w (List.replicate m v) := by
  obtain ⟨w, hw, hinv, htl, hsz⟩ := Window.new_ok (P := P) v hk
  refine ⟨w, hw, hinv, hsz, by simpa using hkm, ?_⟩
  rw [htl]; unfold lastN; simp [List.drop_replicate]; omega

theorem new_spec {P n : Nat} (v : K) (hn2 : 2 ≤ n) (hn : n ≤ P - 1) :
    ∃ s, SWMA.new P n v = .ok s ∧ Inv P n (history n v []) s := by
  have hnP : n ≠ P := by omega
  have hn0 : n ≠ 0 := by omega
  have hchk : chkAdd P n 1 = .ok (n + 1) := by unfold chkAdd; rw [if_pos (by omega)]
  have hhist : history n v [] = List.replicate n v := by simp [history]
  have hold : older (n / 2) (List.replicate n v) = List.replicate ((n + 1) / 2) v := by
    unfold older; simp [List.take_replicate]; omega
  obtain ⟨rw', hrw, hrt⟩ := tracks_replicate (P := P) (k := n / 2) (m := n) v (by omega) (Nat.div_le_self n 2)
  obtain ⟨lw', hlw, hlt⟩ := tracks_replicate (P := P) (k := (n + 1) / 2) (m := (n + 1) / 2) v (by omega) (le_refl _)
  have hlastR : lastN (n / 2) (List.replicate n v) = List.replicate (n / 2) v := by
    unfold lastN; simp [List.drop_replicate]; omega
  have hlastL : lastN ((n + 1) / 2) (List.replicate ((n + 1) / 2) v) = List.replicate ((n + 1) / 2) v := by
    unfold lastN; simp
  refine ⟨{ left_total := (-v) * (((n + 1) / 2 : Nat) : K), left_float_length := (((n + 1) / 2 : Nat) : K), left_window := lw',
            right_total := v * ((n / 2 : Nat) : K), right_float_length := -((n / 2 : Nat) : K), right_window := rw',
            invert_sum := 1 / (((((n + 1) / 2) * ((n + 1) / 2 + 1) / 2 + (n / 2) * (n / 2 + 1) / 2 : Nat)) : K),
            numerator := v * (((((n + 1) / 2) * ((n + 1) / 2 + 1) / 2 + (n / 2) * (n / 2 + 1) / 2 : Nat)) : K) },
    ?_, ?_⟩
  · simp [SWMA.new, hn0, hnP, hchk, winNew, hrw, hlw, Res.ofExcept, Res.bind]
  · rw [hhist]
    refine ⟨hrt, by rw [hold]; exact hlt, ?_, rfl, ?_, rfl, rfl, ?_⟩
    · show v * ((n / 2 : Nat) : K) = _
      rw [hlastR, sum_replicate_field]; ring
    · show (-v) * (((n + 1) / 2 : Nat) : K) = _
      rw [hold, hlastL, sum_replicate_field]; ring
    · show v * _ = _
      rw [hold, hlastL, hlastR, rampDown_eq_reverse, List.reverse_replicate, rampSum_replicate, rampSum_replicate]
      push_cast; ring


theorem next_spec {P n : Nat} {hist : List K} {s : SWMA K} (x : K) (hn2 : 2 ≤ n) (h : Inv P n hist s) :
    ∃ o s', s.next x = .ok (o, s') ∧ Inv P n (hist ++ [x]) s' ∧ o = s'.numerator * s'.invert_sum := by
  have hR : 0 < n / 2 := Nat.div_pos hn2 (by norm_num)
  have hL : 0 < (n + 1) / 2 := Nat.div_pos (by omega) (by norm_num)
  obtain ⟨rprev, rw', hrp, hrt', hrhead⟩ := h.rt.push hR x
  obtain ⟨lprev, lw', hlp, hlt', hlhead⟩ := h.lt.push hL rprev
  -- the newer half is not empty
  have hne : s.right_window.isEmpty = false := by
    have h1 := h.rt.inv.size_eq
    have h2 := h.rt.size
    cases hb : s.right_window.buf with
    | nil => simp [hb] at *; omega
    | cons a l => simp [Window.isEmpty, hb]
  obtain ⟨a, t, hat⟩ : ∃ a t, lastN (n / 2) hist = a :: t := by
    cases hl : lastN (n / 2) hist with
    | nil => rw [hl] at hrhead; simp at hrhead
    | cons a t => exact ⟨a, t, rfl⟩
  obtain ⟨b, u, hbu⟩ : ∃ b u, lastN ((n + 1) / 2) (older (n / 2) hist) = b :: u := by
    cases hl : lastN ((n + 1) / 2) (older (n / 2) hist) with
    | nil => rw [hl] at hlhead; simp at hlhead
    | cons b u => exact ⟨b, u, rfl⟩
  rw [hat] at hrhead
  rw [hbu] at hlhead
  simp only [List.head?_cons, Option.some.injEq] at hrhead hlhead
  subst hrhead hlhead
  have holder : older (n / 2) (hist ++ [x]) = older (n / 2) hist ++ [a] :=
    older_snoc (n / 2) hist x hR h.rt.len a (by rw [hat]; rfl)
  have hR' : lastN (n / 2) (hist ++ [x]) = t ++ [x] := by rw [lastN_snoc x hR h.rt.len, hat]; rfl
  have hL' : lastN ((n + 1) / 2) (older (n / 2) hist ++ [a]) = u ++ [a] := by
    rw [lastN_snoc a hL h.lt.len, hbu]; rfl
  have hlenR : (a :: t).length = n / 2 := by rw [← hat]; exact lastN_length h.rt.len
  have hlenL : (b :: u).length = (n + 1) / 2 := by rw [← hbu]; exact lastN_length h.lt.len
  refine ⟨_, { s with right_total := s.right_total + (x - a), right_window := rw',
                      left_total := s.left_total + (b - a), left_window := lw',
                      numerator := s.numerator + (a * s.right_float_length + (s.right_total + (x - a))) +
                        (a * s.left_float_length + s.left_total) },
    by simp [SWMA.next, hne, hrp, hlp, SWMA.peek], ⟨hrt', by rw [holder]; exact hlt', ?_, h.rfl', ?_, h.lfl, h.inv, ?_⟩, rfl⟩
  · show s.right_total + (x - a) = _
    rw [h.rtot, hR', hat]; simp; ring
  · show s.left_total + (b - a) = _
    rw [h.ltot, holder, hL', hbu]; simp; ring
  · show s.numerator + (a * s.right_float_length + (s.right_total + (x - a))) + (a * s.left_float_length + s.left_total) = _
    rw [h.num, h.rfl', h.rtot, h.lfl, h.ltot, holder, hL', hR', hat, hbu, rampDown_slide a t x, rampUp_slide b u a,
      hlenR, hlenL]
    ring

/-- over whole streams (length ≥ 2): the triangular weighted mean of the last `n` values -/
theorem spec {P n : Nat} (v : K) (hn2 : 2 ≤ n) (hn : n ≤ P - 1) (xs : List K) :
    ∃ s0 outs s', SWMA.new P n v = .ok s0 ∧ runM SWMA.next s0 xs = .ok (outs, s') ∧
      outs.length = xs.length ∧ ∀ i (hi : i < outs.length), outs[i] = Spec.swma n v (xs.take (i + 1)) := by
  apply method_spec _ _ (fun h s => Inv P n (history n v h) s)
  · exact new_spec v hn2 hn
  · intro h s x hinv
    obtain ⟨o, s', hnx, hinv', ho⟩ := next_spec x hn2 hinv
    refine ⟨o, s', hnx, by rw [history_snoc]; exact hinv', ?_⟩
    have hn1 : n ≠ 1 := by omega
    have hlen : n ≤ (history n v h ++ [x]).length := by simp [history]
    have hsplit : lastN n (history n v h ++ [x]) =
        lastN ((n + 1) / 2) (older (n / 2) (history n v h ++ [x])) ++ lastN (n / 2) (history n v h ++ [x]) := by
      have e : (n + 1) / 2 + n / 2 = n := by omega
      have := lastN_split ((n + 1) / 2) (n / 2) (history n v h ++ [x]) (by omega)
      rw [e] at this
      exact this
    have hA : (lastN ((n + 1) / 2) (older (n / 2) (history n v h ++ [x]))).length = (n + 1) / 2 := lastN_length hinv'.lt.len
    have hB : (lastN (n / 2) (history n v h ++ [x])).length = n / 2 := lastN_length hinv'.rt.len
    rw [ho, hinv'.num, hinv'.inv]
    simp only [Spec.swma, hn1, ↓reduceIte, Spec.weighted, Spec.win, history_snoc]
    have hwlen : (lastN n (history n v h ++ [x])).length = n := lastN_length hlen
    rw [hwlen]
    have hden := triW_total (K := K) n
    unfold triW at hden
    rw [hden]
    have hnum := triW_sum (K := K) n _ _ hA hB
    rw [← hsplit] at hnum
    unfold triW wSum at hnum
    rw [hnum]
    ring

end SWMA
end Yata
