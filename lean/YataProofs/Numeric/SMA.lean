/-
  SMA: the incremental machine equals the arithmetic mean of the last `n` values.
-/
import YataProofs.Numeric.Common
namespace Yata
variable {K : Type} [Field K] [LinearOrder K] [IsStrictOrderedRing K]

namespace SMA

/-- state invariant after the history `hist` (= `replicate n v ++ inputs so far`) -/
structure Inv (P n : Nat) (hist : List K) (s : SMA K) : Prop where
  tracks : Tracks P n s.window hist
  divider : s.divider = 1 / (n : K)
  value : s.value = Spec.mean n (lastN n hist)

theorem new_spec {P n : Nat} (v : K) (hn0 : 0 < n) (hn : n ≤ P - 1) :
    ∃ s, SMA.new P n v = .ok s ∧ Inv P n (history n v []) s := by
  have hnP : n ≠ P := by omega
  obtain ⟨w, hw, ht⟩ := Tracks.new (P := P) v hn
  refine ⟨{ divider := 1 / (n : K), value := v, window := w }, ?_, ht, rfl, ?_⟩
  · have : n ≠ 0 := by omega
    simp [SMA.new, this, hnP, winNew, hw, Res.ofExcept, Res.bind]
  · have hnK : (n : K) ≠ 0 := by exact_mod_cast (Nat.pos_iff_ne_zero.mp hn0)
    simp only [lastN_history_nil, Spec.mean, sum_replicate_field]
    field_simp

theorem next_spec {P n : Nat} {hist : List K} {s : SMA K} (x : K) (hn0 : 0 < n) (h : Inv P n hist s) :
    ∃ o s', s.next x = .ok (o, s') ∧ Inv P n (hist ++ [x]) s' ∧ o = Spec.mean n (lastN n (hist ++ [x])) := by
  obtain ⟨old, w', hp, ht', hhead⟩ := h.tracks.push hn0 x
  have hnK : (n : K) ≠ 0 := by exact_mod_cast (Nat.pos_iff_ne_zero.mp hn0)
  have hne : lastN n hist ≠ [] := by
    intro hnil; rw [hnil] at hhead; simp at hhead
  have hsum : (lastN n (hist ++ [x])).sum = (lastN n hist).sum - old + x := by
    rw [lastN_snoc x hn0 h.tracks.len, sum_tail_snoc _ x hne]
    congr 2
    have := List.head?_eq_some_head hne
    rw [this] at hhead
    exact Option.some.inj hhead
  have hval : s.value + (x - old) * s.divider = Spec.mean n (lastN n (hist ++ [x])) := by
    rw [h.value, h.divider, Spec.mean, Spec.mean, hsum]
    field_simp
    ring
  refine ⟨_, { s with value := s.value + (x - old) * s.divider, window := w' }, ?_, ⟨ht', h.divider, hval⟩, hval⟩
  simp [SMA.next, hp]

end SMA
end Yata
