/-
  MeanAbsDev: mean of the absolute deviations of the last `n` values from their mean; never negative.
  The code sums over the raw ring buffer: the order does not matter for an exact sum.
-/
import YataProofs.Numeric.SMA
import YataProofs.Candle
import YataProofs.Numeric.Simple
namespace Yata
variable {K : Type} [Field K] [LinearOrder K] [IsStrictOrderedRing K]

theorem foldl_add_eq_sum (l : List K) (a : K) : l.foldl (· + ·) a = a + l.sum := by
  induction l generalizing a with
  | nil => simp
  | cons x t ih => simp only [List.foldl_cons, List.sum_cons, ih]; ring

/-- the raw buffer and the oldest-first view hold the same elements: equal sums of any function -/
theorem sum_map_asSlice (w : Window K) (f : K → K) :
    (w.asSlice.map f).sum = ((Window.toList w).map f).sum := by
  unfold Window.asSlice Window.toList
  rw [List.map_append, List.sum_append, add_comm, ← List.sum_append, ← List.map_append, List.take_append_drop]

namespace MeanAbsDev

theorem peek_eq {P n : Nat} {hist : List K} {s : MeanAbsDev K} (hn0 : 0 < n) (h : SMA.Inv P n hist s.sma) :
    s.peek = ((lastN n hist).map fun x => sabs (x - Spec.mean n (lastN n hist))).sum / (n : K) ∧ 0 ≤ s.peek := by
  have hnK : (0 : K) < (n : K) := by exact_mod_cast hn0
  have e : s.peek = ((lastN n hist).map fun x => sabs (x - Spec.mean n (lastN n hist))).sum / (n : K) := by
    unfold MeanAbsDev.peek SMA.peek
    simp only [foldl_add_eq_sum, zero_add]
    rw [sum_map_asSlice, h.tracks.contents, h.value, h.divider]
    ring
  refine ⟨e, ?_⟩
  rw [e]
  apply div_nonneg _ (le_of_lt hnK)
  have : ∀ l : List K, ∀ m : K, 0 ≤ (l.map fun x => sabs (x - m)).sum := by
    intro l m
    induction l with
    | nil => simp
    | cons a t ih =>
      simp only [List.map_cons, List.sum_cons]
      have : 0 ≤ sabs (a - m) := by rw [sabs_eq_abs]; exact abs_nonneg _
      linarith
  exact this _ _

theorem spec {P n : Nat} (v : K) (hn0 : 0 < n) (hn : n ≤ P - 1) (xs : List K) :
    ∃ s0 outs s', MeanAbsDev.new P n v = .ok s0 ∧ runM MeanAbsDev.next s0 xs = .ok (outs, s') ∧
      outs.length = xs.length ∧
      ∀ i (hi : i < outs.length), outs[i] = Spec.meanAbsDev n v (xs.take (i + 1)) ∧ 0 ≤ outs[i] := by
  have hnP : n ≠ P := by omega
  obtain ⟨s0, hs0, hinv0⟩ := SMA.new_spec (P := P) v hn0 hn
  obtain ⟨os, s', hr, _, hlen, houts⟩ :=
    runM_invariant MeanAbsDev.next (fun h s => SMA.Inv P n (history n v h) s.sma)
      (fun h o => o = Spec.meanAbsDev n v h ∧ 0 ≤ o)
      (by
        intro h s x hinv
        obtain ⟨o, s1, hnx, hinv1, _⟩ := SMA.next_spec x hn0 hinv
        have hp := peek_eq (s := ({ sma := s1 } : MeanAbsDev K)) hn0 hinv1
        refine ⟨_, { sma := s1 }, by simp [MeanAbsDev.next, hnx], by rw [history_snoc]; exact hinv1, ?_, hp.2⟩
        rw [hp.1]
        simp [Spec.meanAbsDev, Spec.win, history_snoc])
      xs [] { sma := s0 } hinv0
  refine ⟨{ sma := s0 }, os, s', ?_, hr, hlen, fun i hi => by simpa using houts i hi⟩
  simp [MeanAbsDev.new, Nat.pos_iff_ne_zero.mp hn0, hnP, hs0, Res.bind]

end MeanAbsDev
end Yata

namespace Yata
variable {K : Type} [Field K] [LinearOrder K] [IsStrictOrderedRing K]

namespace CCI
/-- CCI: `(value − mean)/mean-absolute-deviation` of the last `n` values, `0` when the deviation is not
    positive — the guard is the exact comparison with zero, at every scale -/
theorem spec {P n : Nat} (v : K) (hn0 : 0 < n) (hn : n ≤ P - 1) (xs : List K) :
    ∃ s0 outs s', CCI.new P n v = .ok s0 ∧ runM CCI.next s0 xs = .ok (outs, s') ∧
      outs.length = xs.length ∧ ∀ i (hi : i < outs.length), outs[i] = Spec.cci n v (xs.take (i + 1)) := by
  have hnP : n ≠ P := by omega
  obtain ⟨s0, hs0, hinv0⟩ := SMA.new_spec (P := P) v hn0 hn
  obtain ⟨os, s', hr, _, hlen, houts⟩ :=
    runM_invariant CCI.next (fun h s => SMA.Inv P n (history n v h) s.mad.sma)
      (fun h o => o = Spec.cci n v h)
      (by
        intro h s x hinv
        obtain ⟨o, s1, hnx, hinv1, ho⟩ := SMA.next_spec x hn0 hinv
        have hp := MeanAbsDev.peek_eq (s := ({ sma := s1 } : MeanAbsDev K)) hn0 hinv1
        have hmad : ({ sma := s1 } : MeanAbsDev K).peek = Spec.meanAbsDev n v (h ++ [x]) := by
          rw [hp.1]; simp [Spec.meanAbsDev, Spec.win, history_snoc]
        have hma : s1.peek = Spec.sma n v (h ++ [x]) := by
          unfold SMA.peek; rw [hinv1.value]; simp [Spec.sma, Spec.win, history_snoc]
        refine ⟨(if 0 < ({ sma := s1 } : MeanAbsDev K).peek then (x - s1.peek) / ({ sma := s1 } : MeanAbsDev K).peek else 0),
          { mad := { sma := s1 } }, by simp [CCI.next, MeanAbsDev.next, hnx], by rw [history_snoc]; exact hinv1, ?_⟩
        simp only [Spec.cci, hmad, hma, cur_snoc])
      xs [] { mad := { sma := s0 } } hinv0
  refine ⟨{ mad := { sma := s0 } }, os, s', ?_, hr, hlen, fun i hi => by simpa using houts i hi⟩
  simp [CCI.new, MeanAbsDev.new, Nat.pos_iff_ne_zero.mp hn0, hnP, hs0, Res.bind]
end CCI
end Yata
