/-
  TSI (method): double exponential smoothing of the changes over double exponential smoothing of
  the absolute changes, `0` exactly when the denominator is not positive.
-/
import YataProofs.Numeric.EMA
import YataProofs.Numeric.LinVol
namespace Yata
variable {K : Type} [Field K] [LinearOrder K] [IsStrictOrderedRing K]

theorem changes_snoc (p : K) (l : List K) (x : K) :
    Spec.changes p (l ++ [x]) = Spec.changes p l ++ [x - lastOr p l] := by
  induction l generalizing p with
  | nil => simp [Spec.changes, lastOr]
  | cons a t ih =>
    simp only [List.cons_append, Spec.changes, ih a]
    have : lastOr a t = lastOr p (a :: t) := by
      unfold lastOr
      simp [List.getLast_cons]
    rw [this]

namespace TSI

/-- the four smoothers after the inputs `h` -/
structure Inv (aL aS : K) (v : K) (h : List K) (s : TSI K) : Prop where
  last : s.last_value = lastOr v h
  e11 : s.ema11 = ⟨aL, Spec.emaRec aL 0 (Spec.changes v h)⟩
  e12 : s.ema12 = ⟨aS, Spec.emaRec aS 0 (Spec.series (Spec.emaRec aL 0) (Spec.changes v h))⟩
  e21 : s.ema21 = ⟨aL, Spec.emaRec aL 0 ((Spec.changes v h).map sabs)⟩
  e22 : s.ema22 = ⟨aS, Spec.emaRec aS 0 (Spec.series (Spec.emaRec aL 0) ((Spec.changes v h).map sabs))⟩

theorem next_spec {aL aS v : K} {h : List K} {s : TSI K} (x : K) (hi : Inv aL aS v h s) :
    Inv aL aS v (h ++ [x]) (s.next x).2 ∧
    (s.next x).1 =
      (let ch := Spec.changes v (h ++ [x])
       let num := Spec.emaRec aS 0 (Spec.series (Spec.emaRec aL 0) ch)
       let den := Spec.emaRec aS 0 (Spec.series (Spec.emaRec aL 0) (ch.map sabs))
       if 0 < den then num / den else 0) := by
  obtain ⟨hl, h11, h12, h21, h22⟩ := hi
  have hch : Spec.changes v (h ++ [x]) = Spec.changes v h ++ [x - s.last_value] := by rw [changes_snoc, hl]
  have hinv : Inv aL aS v (h ++ [x]) (s.next x).2 := by
    refine ⟨?_, ?_, ?_, ?_, ?_⟩
    · simp [TSI.next, lastOr_snoc]
    · simp [TSI.next, EMA.next, h11, hch, emaRec_append]
    · simp [TSI.next, EMA.next, h11, h12, hch, series_snoc, emaRec_append]
    · simp [TSI.next, EMA.next, h21, hch, emaRec_append]
    · simp [TSI.next, EMA.next, h21, h22, hch, series_snoc, emaRec_append]
  refine ⟨hinv, ?_⟩
  have e12' := hinv.e12
  have e22' := hinv.e22
  show (s.next x).2.peek = _
  unfold TSI.peek EMA.peek
  rw [e12', e22']

theorem new_spec {P short long : Nat} (v : K) (hs0 : 0 < short) (hs : short ≤ P - 1) (hl0 : 0 < long) (hl : long ≤ P - 1) :
    ∃ s, TSI.new P short long v = .ok s ∧
      Inv (((2 : Nat) : K) / ((long + 1 : Nat) : K)) (((2 : Nat) : K) / ((short + 1 : Nat) : K)) v [] s := by
  have h1 := EMA.new_ok (K := K) (P := P) (0 : K) hl0 hl
  have h2 := EMA.new_ok (K := K) (P := P) (0 : K) hs0 hs
  generalize ((2 : Nat) : K) / ((long + 1 : Nat) : K) = aL at h1 ⊢
  generalize ((2 : Nat) : K) / ((short + 1 : Nat) : K) = aS at h2 ⊢
  refine ⟨⟨v, ⟨aL, 0⟩, ⟨aS, 0⟩, ⟨aL, 0⟩, ⟨aS, 0⟩⟩, by simp [TSI.new, h1, h2, Res.bind], ⟨rfl, ?_, ?_, ?_, ?_⟩⟩ <;>
    simp [Spec.changes, Spec.emaRec, Spec.series]

/-- over whole streams: every output is the documented quotient of the from-scratch smoothings -/
theorem spec {P short long : Nat} (v : K) (hs0 : 0 < short) (hs : short ≤ P - 1) (hl0 : 0 < long) (hl : long ≤ P - 1)
    (xs : List K) :
    ∃ s0 outs s', TSI.new P short long v = .ok s0 ∧ runM (liftNext TSI.next) s0 xs = .ok (outs, s') ∧
      outs.length = xs.length ∧ ∀ i (hi : i < outs.length), outs[i] = Spec.tsi short long v (xs.take (i + 1)) := by
  obtain ⟨s0, hnew, hi0⟩ := new_spec (P := P) v hs0 hs hl0 hl
  obtain ⟨os, s', hr, _, hlen, houts⟩ :=
    runM_invariant (liftNext TSI.next)
      (fun h s => Inv (((2 : Nat) : K) / ((long + 1 : Nat) : K)) (((2 : Nat) : K) / ((short + 1 : Nat) : K)) v h s)
      (fun h o => o = Spec.tsi short long v h)
      (by
        intro h s x hinv
        obtain ⟨h1, h2⟩ := next_spec x hinv
        refine ⟨(s.next x).1, (s.next x).2, rfl, h1, ?_⟩
        rw [h2]
        simp only [Spec.tsi, Spec.ema]
        rfl)
      xs [] s0 hi0
  exact ⟨s0, os, s', hnew, hr, hlen, fun i hi => by simpa using houts i hi⟩

end TSI
end Yata
