/-
  TRIMA (SMA of SMA), VWMA (volume-weighted mean of the last n pairs), windowed ADI (sum of CLV·volume of the
  last n candles): machine = from-scratch formula on every stream.
-/
import YataProofs.Numeric.SMA
import YataProofs.Numeric.EMA
import YataModel.Methods.Candles
import YataProofs.Numeric.WMA
import Mathlib.Data.Nat.Sqrt
import Mathlib.Tactic.NormNum
namespace Yata
variable {K : Type} [Field K] [LinearOrder K] [IsStrictOrderedRing K]

theorem sum_map_tail_snoc' {β : Type} (f : β → K) (l : List β) (old x : β) (h : l.head? = some old) :
    ((l.tail ++ [x]).map f).sum = (l.map f).sum + (f x - f old) := by
  cases l with
  | nil => simp at h
  | cons a t =>
    simp only [List.head?_cons, Option.some.injEq] at h
    subst h
    simp only [List.tail_cons, List.map_append, List.map_cons, List.map_nil, List.sum_append, List.sum_cons,
      List.sum_nil]
    ring

/-! ### TRIMA -/
namespace TRIMA

theorem spec {P n : Nat} (v : K) (hn0 : 0 < n) (hn : n ≤ P - 1) (xs : List K) :
    ∃ s0 outs s', TRIMA.new P n v = .ok s0 ∧ runM TRIMA.next s0 xs = .ok (outs, s') ∧
      outs.length = xs.length ∧ ∀ i (hi : i < outs.length), outs[i] = Spec.trima n v (xs.take (i + 1)) := by
  obtain ⟨a0, ha0, hia0⟩ := SMA.new_spec (P := P) v hn0 hn
  apply method_spec _ _ (fun h s => SMA.Inv P n (history n v h) s.sma1 ∧
      SMA.Inv P n (history n v (Spec.series (Spec.sma n v) h)) s.sma2)
  · refine ⟨{ sma1 := a0, sma2 := a0 }, by simp [TRIMA.new, ha0, Res.bind], hia0, by simpa [Spec.series] using hia0⟩
  · intro h s x ⟨h1, h2⟩
    obtain ⟨o1, a, hn1, hi1, ho1⟩ := SMA.next_spec x hn0 h1
    obtain ⟨o2, b, hn2, hi2, ho2⟩ := SMA.next_spec o1 hn0 h2
    have e1 : o1 = Spec.sma n v (h ++ [x]) := by rw [ho1]; simp [Spec.sma, Spec.win, history_snoc]
    refine ⟨o2, { sma1 := a, sma2 := b }, by simp [TRIMA.next, hn1, hn2], ⟨by rw [history_snoc]; exact hi1, ?_⟩, ?_⟩
    · rw [series_snoc, history_snoc, ← e1]; exact hi2
    · rw [ho2]
      simp only [Spec.trima, Spec.sma, Spec.win]
      rw [series_snoc, history_snoc, ← e1]

end TRIMA

/-! ### VWMA -/
namespace VWMA

structure Inv (P n : Nat) (hist : List (K × K)) (s : VWMA K) : Prop where
  tracks : Tracks P n s.window hist
  sum : s.sum = ((lastN n hist).map fun p => p.1 * p.2).sum
  vol : s.vol_sum = ((lastN n hist).map fun p => p.2).sum

theorem spec {P n : Nat} (v : K × K) (hn0 : 0 < n) (hn : n ≤ P - 1) (xs : List (K × K)) :
    ∃ s0 outs s', VWMA.new P n v = .ok s0 ∧ runM VWMA.next s0 xs = .ok (outs, s') ∧
      outs.length = xs.length ∧ ∀ i (hi : i < outs.length), outs[i] = Spec.vwma n v (xs.take (i + 1)) := by
  have hnP : n ≠ P := by omega
  apply method_spec _ _ (fun h s => Inv P n (history n v h) s)
  · obtain ⟨w, hw, ht⟩ := Tracks.new (P := P) v hn
    refine ⟨{ sum := v.1 * v.2 * (n : K), vol_sum := v.2 * (n : K), window := w }, ?_, ht, ?_, ?_⟩
    · simp [VWMA.new, Nat.pos_iff_ne_zero.mp hn0, hnP, hw, Res.ofExcept, Res.bind]
    · simp [lastN_history_nil, List.map_replicate, sum_replicate_field, mul_comm]
    · simp [lastN_history_nil, List.map_replicate, sum_replicate_field, mul_comm]
  · intro h s x hi
    obtain ⟨old, w', hp, ht', hhead⟩ := hi.tracks.push hn0 x
    have hs : ((lastN n (history n v h ++ [x])).map fun p => p.1 * p.2).sum =
        s.sum + (x.1 * x.2 + (-old.1) * old.2) := by
      rw [lastN_snoc x hn0 hi.tracks.len, sum_map_tail_snoc' _ _ old x hhead, hi.sum]; ring
    have hv : ((lastN n (history n v h ++ [x])).map fun p => p.2).sum = s.vol_sum + (x.2 - old.2) := by
      rw [lastN_snoc x hn0 hi.tracks.len, sum_map_tail_snoc' _ _ old x hhead, hi.vol]
    refine ⟨(s.sum + (x.1 * x.2 + (-old.1) * old.2)) / (s.vol_sum + (x.2 - old.2)),
      { s with sum := s.sum + (x.1 * x.2 + (-old.1) * old.2), vol_sum := s.vol_sum + (x.2 - old.2), window := w' },
      by simp [VWMA.next, VWMA.peek, hp], ⟨by rw [history_snoc]; exact ht', ?_, ?_⟩, ?_⟩
    · rw [history_snoc]; exact hs.symm
    · rw [history_snoc]; exact hv.symm
    · simp only [Spec.vwma, history_snoc, hs, hv]

end VWMA

/-! ### windowed ADI -/
namespace ADI

theorem spec {P n : Nat} (c0 : Candle K) (hn0 : 0 < n) (hn : n ≤ P - 1) (cs : List (Candle K)) :
    ∃ s0 outs s', ADI.new P n c0 = .ok s0 ∧ runM ADI.next s0 cs = .ok (outs, s') ∧
      outs.length = cs.length ∧
      ∀ i (hi : i < outs.length),
        outs[i] = ((lastN n (history n c0 (cs.take (i + 1)))).map fun c => c.clv * c.volume).sum := by
  have hnP : n ≠ P := by omega
  apply method_spec (ADI.new P n c0) ADI.next
    (fun h (s : ADI K) => Tracks P n s.window ((history n c0 h).map fun c => c.clv * c.volume) ∧
      s.cmf_sum = ((lastN n (history n c0 h)).map fun c => c.clv * c.volume).sum)
    (fun h => ((lastN n (history n c0 h)).map fun c => c.clv * c.volume).sum)
  · obtain ⟨w, hw, ht⟩ := Tracks.new (P := P) (c0.clv * c0.volume) hn
    refine ⟨{ cmf_sum := c0.clv * c0.volume * (n : K), window := w }, ?_, ?_, ?_⟩
    · simp [ADI.new, hnP, hn0, winNew, hw, Res.ofExcept, Res.bind]
    · simpa [history] using ht
    · simp [lastN_history_nil, List.map_replicate, sum_replicate_field, mul_comm]
  · intro h s x ⟨ht, hsum⟩
    obtain ⟨old, w', hp, ht', hhead⟩ := ht.push hn0 (x.clv * x.volume)
    have hne : s.window.isEmpty = false := by
      have h1 := ht.inv.size_eq
      have h2 := ht.size
      cases hb : s.window.buf with
      | nil => simp [hb] at *; omega
      | cons a l => simp [Window.isEmpty, hb]
    have hlast : lastN n ((history n c0 h).map fun c => c.clv * c.volume) =
        (lastN n (history n c0 h)).map fun c => c.clv * c.volume := by
      unfold lastN; simp [List.map_drop]
    have hlen : n ≤ (history n c0 h).length := by simp [history]
    have hs : ((lastN n (history n c0 h ++ [x])).map fun c => c.clv * c.volume).sum =
        s.cmf_sum + x.clv * x.volume - old := by
      rw [lastN_snoc x hn0 hlen, List.map_append, List.map_tail]
      rw [hlast] at hhead
      have := sum_map_tail_snoc' (fun y : K => y) ((lastN n (history n c0 h)).map fun c => c.clv * c.volume) old
        (x.clv * x.volume) hhead
      simp only [List.map_id'] at this
      simp only [List.map_cons, List.map_nil]
      rw [this, hsum]; ring
    refine ⟨s.cmf_sum + x.clv * x.volume - old, { cmf_sum := s.cmf_sum + x.clv * x.volume - old, window := w' }, ?_, ⟨?_, ?_⟩, ?_⟩
    · simp [ADI.next, hne, hp]
    · rw [history_snoc, List.map_append]; exact ht'
    · rw [history_snoc]; exact hs.symm
    · rw [history_snoc]; exact hs.symm

end ADI
end Yata

namespace Yata
variable {K : Type} [Field K] [LinearOrder K] [IsStrictOrderedRing K]

/-! ### HMA = WMA(⌊√n⌋) of (2·WMA(n/2) − WMA(n)) -/
namespace HMA

theorem spec {P n : Nat} (v : K) (hn2 : 2 ≤ n) (hn : n ≤ P - 1) (xs : List K) :
    ∃ s0 outs s', HMA.new P n v = .ok s0 ∧ runM HMA.next s0 xs = .ok (outs, s') ∧
      outs.length = xs.length ∧ ∀ i (hi : i < outs.length), outs[i] = Spec.hma n v (xs.take (i + 1)) := by
  have hnP : n ≠ P := by omega
  have h2 : 0 < n / 2 := Nat.div_pos hn2 (by norm_num)
  have h2le : n / 2 ≤ P - 1 := le_trans (Nat.div_le_self n 2) hn
  have hs0 : 0 < Nat.sqrt n := Nat.sqrt_pos.mpr (by omega)
  have hsle : Nat.sqrt n ≤ P - 1 := le_trans (Nat.sqrt_le_self n) hn
  obtain ⟨a0, ha0, hia0⟩ := WMA.new_spec (P := P) v h2 h2le
  obtain ⟨b0, hb0, hib0⟩ := WMA.new_spec (P := P) v (by omega : 0 < n) hn
  obtain ⟨c0, hc0, hic0⟩ := WMA.new_spec (P := P) v hs0 hsle
  let inner : List K → K := fun p => ((2 : Nat) : K) * Spec.wma (n / 2) v p - Spec.wma n v p
  apply method_spec (HMA.new P n v) HMA.next
    (fun h (s : HMA K) => WMA.Inv P (n / 2) (history (n / 2) v h) s.wma1 ∧ WMA.Inv P n (history n v h) s.wma2 ∧
      WMA.Inv P (Nat.sqrt n) (history (Nat.sqrt n) v (Spec.series inner h)) s.wma3)
    (fun h => Spec.hma n v h)
  · refine ⟨{ wma1 := a0, wma2 := b0, wma3 := c0 }, ?_, hia0, hib0, by simpa [Spec.series] using hic0⟩
    have : n ≠ 0 := by omega
    have : n ≠ 1 := by omega
    simp [HMA.new, *, Res.bind]
  · intro h s x ⟨i1, i2, i3⟩
    obtain ⟨w1, a, hn1, hi1, ho1⟩ := WMA.next_spec x h2 i1
    obtain ⟨w2, b, hn2', hi2, ho2⟩ := WMA.next_spec x (by omega : 0 < n) i2
    obtain ⟨o, c, hn3, hi3, ho3⟩ := WMA.next_spec (w1 * ((2 : Nat) : K) + (-w2)) hs0 i3
    have e : w1 * ((2 : Nat) : K) + (-w2) = inner (h ++ [x]) := by
      simp only [inner, Spec.wma, Spec.win, history_snoc, ← ho1, ← ho2]; ring
    refine ⟨o, { wma1 := a, wma2 := b, wma3 := c }, by simp only [HMA.next, hn1, hn2', hn3],
      ⟨by rw [history_snoc]; exact hi1, by rw [history_snoc]; exact hi2, ?_⟩, ?_⟩
    · rw [series_snoc, history_snoc, ← e]; exact hi3
    · show o = Spec.wma (Nat.sqrt n) v (Spec.series inner (h ++ [x]))
      rw [series_snoc, ← e, ho3]
      simp only [Spec.wma, Spec.win, history_snoc]

end HMA
end Yata
