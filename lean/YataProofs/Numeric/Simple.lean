/-
  Momentum, Derivative, RateOfChange, Past, windowed Integral: direct consequences of the
  window refinement.
-/
import YataProofs.Numeric.Common
namespace Yata
variable {K : Type} [Field K] [LinearOrder K] [IsStrictOrderedRing K]

/-- the element evicted by the push of `x` is the value `n` steps before `x` -/
theorem past_of_head {n : Nat} (v : K) (xs : List K) (x old : K) (hn : 0 < n)
    (h : (lastN n (history n v xs)).head? = some old) :
    Spec.past n v (xs ++ [x]) = old := by
  unfold Spec.past
  rw [history_snoc, List.reverse_append]
  simp only [List.reverse_cons, List.reverse_nil, List.nil_append, List.singleton_append]
  have hlen := history_length n v xs
  obtain ⟨m, rfl⟩ : ∃ m, n = m + 1 := ⟨n - 1, by omega⟩
  rw [List.getElem?_cons_succ]
  unfold lastN at h
  rw [List.head?_drop] at h
  rw [List.getElem?_reverse (by omega)]
  have : (history (m + 1) v xs).length - 1 - m = (history (m + 1) v xs).length - (m + 1) := by omega
  rw [this, h]; rfl

theorem cur_snoc (n : Nat) (v : K) (xs : List K) (x : K) : Spec.cur n v (xs ++ [x]) = x := by
  simp [Spec.cur, history]

/-! ### the four "compare with the value n steps ago" methods share one invariant -/

def PastInv (P n : Nat) (v : K) (w : Window K) (xs : List K) : Prop := Tracks P n w (history n v xs)

theorem pastInv_new {P n : Nat} (v : K) (hn : n ≤ P - 1) :
    ∃ w, Window.new P n v = .ok w ∧ PastInv P n v w [] := Tracks.new v hn

theorem pastInv_push {P n : Nat} {v : K} {w : Window K} {xs : List K} (x : K) (hn : 0 < n)
    (h : PastInv P n v w xs) :
    ∃ old w', w.push x = .ok (old, w') ∧ PastInv P n v w' (xs ++ [x]) ∧ Spec.past n v (xs ++ [x]) = old := by
  obtain ⟨old, w', hp, ht, hh⟩ := Tracks.push h hn x
  refine ⟨old, w', hp, ?_, past_of_head v xs x old hn hh⟩
  unfold PastInv; rw [history_snoc]; exact ht

namespace Momentum
theorem spec {P n : Nat} (v : K) (hn0 : 0 < n) (hn : n ≤ P - 1) (xs : List K) :
    ∃ s0 outs s', Momentum.new P n v = .ok s0 ∧ runM Momentum.next s0 xs = .ok (outs, s') ∧
      outs.length = xs.length ∧ ∀ i (hi : i < outs.length), outs[i] = Spec.momentum n v (xs.take (i + 1)) := by
  have hnP : n ≠ P := by omega
  apply method_spec _ _ (fun h s => PastInv P n v s.window h)
  · obtain ⟨w, hw, hi⟩ := pastInv_new (P := P) v hn
    exact ⟨⟨w⟩, by simp [Momentum.new, (Nat.pos_iff_ne_zero.mp hn0), hnP, winNew, hw, Res.ofExcept, Res.bind], hi⟩
  · intro h s x hinv
    obtain ⟨old, w', hp, hi', hpast⟩ := pastInv_push x hn0 hinv
    exact ⟨x - old, ⟨w'⟩, by simp [Momentum.next, hp], hi', by simp [Spec.momentum, cur_snoc, hpast]⟩
end Momentum

namespace Derivative
theorem spec {P n : Nat} (v : K) (hn0 : 0 < n) (hn : n ≤ P - 1) (xs : List K) :
    ∃ s0 outs s', Derivative.new P n v = .ok s0 ∧ runM Derivative.next s0 xs = .ok (outs, s') ∧
      outs.length = xs.length ∧ ∀ i (hi : i < outs.length), outs[i] = Spec.derivative n v (xs.take (i + 1)) := by
  have hnP : n ≠ P := by omega
  apply method_spec _ _ (fun h s => PastInv P n v s.window h ∧ s.divider = 1 / (n : K))
  · obtain ⟨w, hw, hi⟩ := pastInv_new (P := P) v hn
    exact ⟨⟨1 / (n : K), w⟩,
      by simp [Derivative.new, (Nat.pos_iff_ne_zero.mp hn0), hnP, winNew, hw, Res.ofExcept, Res.bind], hi, rfl⟩
  · intro h s x ⟨hinv, hd⟩
    obtain ⟨old, w', hp, hi', hpast⟩ := pastInv_push x hn0 hinv
    refine ⟨(x - old) * s.divider, { s with window := w' }, by simp [Derivative.next, hp], ⟨hi', hd⟩, ?_⟩
    simp [Spec.derivative, cur_snoc, hpast, hd, div_eq_mul_inv]
end Derivative

namespace RateOfChange
theorem spec {P n : Nat} (v : K) (hn0 : 0 < n) (hn : n ≤ P - 1) (xs : List K) :
    ∃ s0 outs s', RateOfChange.new P n v = .ok s0 ∧ runM RateOfChange.next s0 xs = .ok (outs, s') ∧
      outs.length = xs.length ∧ ∀ i (hi : i < outs.length), outs[i] = Spec.roc n v (xs.take (i + 1)) := by
  have hnP : n ≠ P := by omega
  apply method_spec _ _ (fun h s => PastInv P n v s.window h)
  · obtain ⟨w, hw, hi⟩ := pastInv_new (P := P) v hn
    exact ⟨⟨w⟩, by simp [RateOfChange.new, (Nat.pos_iff_ne_zero.mp hn0), hnP, winNew, hw, Res.ofExcept, Res.bind], hi⟩
  · intro h s x hinv
    obtain ⟨old, w', hp, hi', hpast⟩ := pastInv_push x hn0 hinv
    exact ⟨(x - old) / old, ⟨w'⟩, by simp [RateOfChange.next, hp], hi', by simp [Spec.roc, cur_snoc, hpast]⟩
end RateOfChange

namespace Past
theorem spec {P n : Nat} (v : K) (hn0 : 0 < n) (hn : n ≤ P - 1) (xs : List K) :
    ∃ s0 outs s', Past.new P n v = .ok s0 ∧ runM Past.next s0 xs = .ok (outs, s') ∧
      outs.length = xs.length ∧ ∀ i (hi : i < outs.length), outs[i] = Spec.past n v (xs.take (i + 1)) := by
  have hnP : n ≠ P := by omega
  apply method_spec _ _ (fun h s => PastInv P n v s.window h)
  · obtain ⟨w, hw, hi⟩ := pastInv_new (P := P) v hn
    exact ⟨⟨w⟩, by simp [Past.new, (Nat.pos_iff_ne_zero.mp hn0), hnP, hw, Res.ofExcept, Res.bind], hi⟩
  · intro h s x hinv
    obtain ⟨old, w', hp, hi', hpast⟩ := pastInv_push x hn0 hinv
    exact ⟨old, ⟨w'⟩, by simp [Past.next, hp], hi', hpast.symm⟩
end Past

namespace Integral
/-- windowed sum (length > 0) -/
theorem spec {P n : Nat} (v : K) (hn0 : 0 < n) (hn : n ≤ P - 1) (xs : List K) :
    ∃ s0 outs s', Integral.new P n v = .ok s0 ∧ runM Integral.next s0 xs = .ok (outs, s') ∧
      outs.length = xs.length ∧ ∀ i (hi : i < outs.length), outs[i] = Spec.integral n v (xs.take (i + 1)) := by
  have hnP : n ≠ P := by omega
  apply method_spec _ _ (fun h s => Tracks P n s.window (history n v h) ∧ s.value = Spec.integral n v h)
  · obtain ⟨w, hw, ht⟩ := Tracks.new (P := P) v hn
    refine ⟨⟨v * (n : K), w⟩, by simp [Integral.new, hnP, winNew, hw, Res.ofExcept, Res.bind], ht, ?_⟩
    simp [Spec.integral, Spec.win, lastN_history_nil, mul_comm]
  · intro h s x ⟨ht, hv⟩
    obtain ⟨old, w', hp, ht', hhead⟩ := ht.push hn0 x
    have hne : lastN n (history n v h) ≠ [] := by
      intro hnil; rw [hnil] at hhead; simp at hhead
    have hold : (lastN n (history n v h)).head hne = old := by
      have := List.head?_eq_some_head hne
      rw [this] at hhead; exact Option.some.inj hhead
    have hempty : s.window.isEmpty = false := by
      have := ht.inv.size_eq
      have := ht.size
      cases hb : s.window.buf with
      | nil => simp [hb] at *; omega
      | cons a l => simp [Window.isEmpty, hb]
    have hval : s.value + x - old = Spec.integral n v (h ++ [x]) := by
      rw [hv]
      simp only [Spec.integral, Spec.win, history_snoc]
      rw [lastN_snoc x hn0 ht.len, sum_tail_snoc _ x hne, hold]
      ring
    refine ⟨_, ⟨s.value + x - old, w'⟩, ?_, ⟨by rw [history_snoc]; exact ht', hval⟩, hval⟩
    simp [Integral.next, hempty, hp]

/-- cumulative sum (length 0) -/
theorem spec0 {P : Nat} (hP : 0 < P) (v : K) (xs : List K) :
    ∃ s0 outs s', Integral.new P 0 v = .ok s0 ∧ runM Integral.next s0 xs = .ok (outs, s') ∧
      outs.length = xs.length ∧ ∀ i (hi : i < outs.length), outs[i] = Spec.integral0 (xs.take (i + 1)) := by
  apply method_spec _ _ (fun h s => s.window = Window.empty ∧ s.value = Spec.integral0 h)
  · refine ⟨⟨v * ((0 : Nat) : K), Window.empty⟩, ?_, rfl, by simp [Spec.integral0]⟩
    simp [Integral.new, (show 0 ≠ P by omega), winNew, Window.new, Res.ofExcept, Res.bind, Window.empty, satSub]
  · intro h s x ⟨hw, hv⟩
    refine ⟨s.value + x, { s with value := s.value + x }, ?_, ⟨hw, ?_⟩, ?_⟩
    · simp [Integral.next, hw, Window.isEmpty, Window.empty]
    · simp [Spec.integral0, hv]
    · simp [Spec.integral0, hv]
end Integral

end Yata
