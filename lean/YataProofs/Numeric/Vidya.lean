/-
  Vidya: the exponential average whose smoothing 2/(n+1) is scaled by |CMO| of the last `n` changes; the running
  up / down sums are the sums of the positive / negative parts of the changes in the window.
-/
import YataProofs.Numeric.TSI
import YataProofs.Candle
namespace Yata
variable {K : Type} [Field K] [LinearOrder K] [IsStrictOrderedRing K]

theorem posPart_eq (c : K) : c * ind (decide (0 < c)) = Spec.posPart c := by
  unfold ind Spec.posPart; by_cases h : 0 < c <;> simp [h]
theorem negPart_eq (c : K) : -(c * ind (decide (c < 0))) = Spec.negPart c := by
  unfold ind Spec.negPart; by_cases h : c < 0 <;> simp [h]
theorem posPart_nonneg (c : K) : 0 ≤ Spec.posPart c := by unfold Spec.posPart; split <;> linarith
theorem negPart_nonneg (c : K) : 0 ≤ Spec.negPart c := by unfold Spec.negPart; split <;> linarith

theorem sum_map_nonneg' (f : K → K) (hf : ∀ c, 0 ≤ f c) (l : List K) : 0 ≤ (l.map f).sum := by
  induction l with
  | nil => simp
  | cons a t ih => simp only [List.map_cons, List.sum_cons]; linarith [hf a]

theorem sum_map_tail_snoc'' (f : K → K) (l : List K) (old x : K) (h : l.head? = some old) :
    ((l.tail ++ [x]).map f).sum = (l.map f).sum + (f x - f old) := by
  cases l with
  | nil => simp at h
  | cons a t =>
    simp only [List.head?_cons, Option.some.injEq] at h
    subst h
    simp only [List.tail_cons, List.map_append, List.map_cons, List.map_nil, List.sum_append, List.sum_cons,
      List.sum_nil]
    ring

/-- the clamp `.min(1.0)` of the implementation does nothing while both sums are non-negative (it only matters for the
    rounding residue of the float run) -/
theorem smin_cmo_eq {up dn : K} (hu : 0 ≤ up) (hd : 0 ≤ dn) (hz : up + dn ≠ 0) :
    smin (sabs ((up - dn) / (up + dn))) 1 = sabs ((up - dn) / (up + dn)) := by
  have hpos : 0 < up + dn := lt_of_le_of_ne (by linarith) (Ne.symm hz)
  have h1 : sabs ((up - dn) / (up + dn)) ≤ 1 := by
    rw [sabs_eq_abs, abs_div, abs_of_pos hpos, div_le_one hpos, abs_le]
    constructor <;> linarith
  unfold smin
  rw [if_neg (not_lt.mpr h1)]

namespace Vidya

/-- one step of the definition: from the previous output and the window of changes -/
def stepOut (f : K) (w : List K) (x out : K) : K :=
  let up := (w.map Spec.posPart).sum
  let dn := (w.map Spec.negPart).sum
  if up + dn = 0 then x
  else x * (f * sabs ((up - dn) / (up + dn))) + (1 - f * sabs ((up - dn) / (up + dn))) * out

def chWin (n : Nat) (v : K) (xs : List K) : List K := lastN n (List.replicate n 0 ++ Spec.changes v xs)

/-- the definition unfolds one input at a time -/
theorem vidya_snoc (n : Nat) (v : K) (xs : List K) (x : K) :
    Spec.vidya n v (xs ++ [x]) =
      stepOut (((2 : Nat) : K) / ((n + 1 : Nat) : K)) (chWin n v (xs ++ [x])) x (Spec.vidya n v xs) := by
  unfold Spec.vidya
  simp only [List.length_append, List.length_singleton, List.range_succ, List.foldl_append, List.foldl_cons,
    List.foldl_nil]
  have hx : (xs ++ [x])[xs.length]?.getD v = x := by simp
  have htake : (Spec.changes v (xs ++ [x])).take (xs.length + 1) = Spec.changes v (xs ++ [x]) := by
    apply List.take_of_length_le
    have : ∀ (p : K) (l : List K), (Spec.changes p l).length = l.length := by
      intro p l; induction l generalizing p with
      | nil => rfl
      | cons a t ih => simp [Spec.changes, ih]
    rw [this]; simp
  -- the earlier iterations only look at the prefix
  have hpre : ∀ (out0 : K) (m : Nat), m ≤ xs.length →
      (List.range m).foldl (fun (out : K) i =>
        let y := (xs ++ [x])[i]?.getD v
        let w := lastN n (List.replicate n 0 ++ (Spec.changes v (xs ++ [x])).take (i + 1))
        let up := (w.map Spec.posPart).sum
        let dn := (w.map Spec.negPart).sum
        if up + dn = 0 then y
        else y * (((2 : Nat) : K) / ((n + 1 : Nat) : K) * sabs ((up - dn) / (up + dn))) +
          (1 - ((2 : Nat) : K) / ((n + 1 : Nat) : K) * sabs ((up - dn) / (up + dn))) * out) out0 =
      (List.range m).foldl (fun (out : K) i =>
        let y := xs[i]?.getD v
        let w := lastN n (List.replicate n 0 ++ (Spec.changes v xs).take (i + 1))
        let up := (w.map Spec.posPart).sum
        let dn := (w.map Spec.negPart).sum
        if up + dn = 0 then y
        else y * (((2 : Nat) : K) / ((n + 1 : Nat) : K) * sabs ((up - dn) / (up + dn))) +
          (1 - ((2 : Nat) : K) / ((n + 1 : Nat) : K) * sabs ((up - dn) / (up + dn))) * out) out0 := by
    intro out0 m hm
    induction m generalizing out0 with
    | zero => rfl
    | succ k ih =>
      rw [List.range_succ, List.foldl_append, List.foldl_append, ih out0 (by omega)]
      simp only [List.foldl_cons, List.foldl_nil]
      have h1 : (xs ++ [x])[k]? = xs[k]? := List.getElem?_append_left (by omega)
      have h2 : (Spec.changes v (xs ++ [x])).take (k + 1) = (Spec.changes v xs).take (k + 1) := by
        rw [changes_snoc, List.take_append_of_le_length]
        have : ∀ (p : K) (l : List K), (Spec.changes p l).length = l.length := by
          intro p l; induction l generalizing p with
          | nil => rfl
          | cons a t ih => simp [Spec.changes, ih]
        rw [this]; omega
      rw [h1, h2]
  rw [hpre v xs.length (le_refl _), hx, htake]
  rfl

structure Inv (P n : Nat) (v : K) (hist : List K) (s : Vidya K) : Prop where
  tracks : Tracks P n s.window (List.replicate n 0 ++ Spec.changes v hist)
  f : s.f = ((2 : Nat) : K) / ((n + 1 : Nat) : K)
  up : s.up_sum = ((chWin n v hist).map Spec.posPart).sum
  dn : s.dn_sum = ((chWin n v hist).map Spec.negPart).sum
  lin : s.last_input = lastOr v hist
  lout : s.last_output = Spec.vidya n v hist

theorem new_spec {P n : Nat} (v : K) (hn0 : 0 < n) (hn : n ≤ P - 1) :
    ∃ s, Vidya.new P n v = .ok s ∧ Inv P n v [] s := by
  have hnP : n ≠ P := by omega
  obtain ⟨w, hw, hinv, htl, hsz⟩ := Window.new_ok (P := P) (0 : K) hn
  have hch : chWin n v [] = List.replicate n 0 := by simp [chWin, Spec.changes, lastN]
  refine ⟨{ f := ((2 : Nat) : K) / ((1 + n : Nat) : K), up_sum := 0, dn_sum := 0, last_input := v, last_output := v, window := w },
    by simp [Vidya.new, Nat.pos_iff_ne_zero.mp hn0, hnP, winNew, hw, Res.ofExcept, Res.bind],
    ⟨hinv, hsz, by simp [Spec.changes], by rw [htl]; simp [Spec.changes, lastN]⟩, by rw [Nat.add_comm], ?_, ?_, rfl, ?_⟩
  · rw [hch]; simp [List.map_replicate, Spec.posPart]
  · rw [hch]; simp [List.map_replicate, Spec.negPart]
  · simp [Spec.vidya]

theorem next_spec {P n : Nat} {v : K} {hist : List K} {s : Vidya K} (x : K) (hn0 : 0 < n) (h : Inv P n v hist s) :
    ∃ o s', s.next x = .ok (o, s') ∧ Inv P n v (hist ++ [x]) s' ∧ o = Spec.vidya n v (hist ++ [x]) := by
  obtain ⟨left, w', hp, ht', hhead⟩ := h.tracks.push hn0 (x - s.last_input)
  have hwin : chWin n v (hist ++ [x]) = (chWin n v hist).tail ++ [x - s.last_input] := by
    unfold chWin
    rw [changes_snoc, ← List.append_assoc, lastN_snoc _ hn0 h.tracks.len, h.lin]
  have hhead' : (chWin n v hist).head? = some left := hhead
  have hup : ((chWin n v (hist ++ [x])).map Spec.posPart).sum =
      s.up_sum - left * ind (decide (0 < left)) + (x - s.last_input) * ind (decide (0 < x - s.last_input)) := by
    rw [hwin, sum_map_tail_snoc'' Spec.posPart _ left _ hhead', h.up, posPart_eq, posPart_eq]; ring
  have hdn : ((chWin n v (hist ++ [x])).map Spec.negPart).sum =
      s.dn_sum + left * ind (decide (left < 0)) - (x - s.last_input) * ind (decide (x - s.last_input < 0)) := by
    rw [hwin, sum_map_tail_snoc'' Spec.negPart _ left _ hhead', h.dn, ← negPart_eq, ← negPart_eq]; ring
  set up := s.up_sum - left * ind (decide (0 < left)) + (x - s.last_input) * ind (decide (0 < x - s.last_input)) with hupdef
  set dn := s.dn_sum + left * ind (decide (left < 0)) - (x - s.last_input) * ind (decide (x - s.last_input < 0)) with hdndef
  have hup0 : 0 ≤ up := by rw [← hup]; exact sum_map_nonneg' _ posPart_nonneg _
  have hdn0 : 0 ≤ dn := by rw [← hdn]; exact sum_map_nonneg' _ negPart_nonneg _
  have hout : (if up + dn ≠ 0 then x * (s.f * smin (sabs ((up - dn) / (up + dn))) 1) + (1 - s.f * smin (sabs ((up - dn) / (up + dn))) 1) * s.last_output else x) =
      Spec.vidya n v (hist ++ [x]) := by
    rw [vidya_snoc, stepOut, hup, hdn, ← h.lout, ← h.f]
    by_cases hz : up + dn = 0
    · simp only [hz, ne_eq, not_true_eq_false, ↓reduceIte]
    · rw [smin_cmo_eq hup0 hdn0 hz]
      simp only [hz, ne_eq, not_false_eq_true, ↓reduceIte]
  refine ⟨_, { s with up_sum := up, dn_sum := dn, last_input := x,
                      last_output := (if up + dn ≠ 0 then x * (s.f * smin (sabs ((up - dn) / (up + dn))) 1) + (1 - s.f * smin (sabs ((up - dn) / (up + dn))) 1) * s.last_output else x),
                      window := w' },
    by unfold Vidya.next; simp only [hp]; rfl, ⟨?_, h.f, hup.symm, hdn.symm, (lastOr_snoc v hist x).symm, hout⟩, hout⟩
  rw [changes_snoc, ← List.append_assoc, ← h.lin]; exact ht'

theorem spec {P n : Nat} (v : K) (hn0 : 0 < n) (hn : n ≤ P - 1) (xs : List K) :
    ∃ s0 outs s', Vidya.new P n v = .ok s0 ∧ runM Vidya.next s0 xs = .ok (outs, s') ∧
      outs.length = xs.length ∧ ∀ i (hi : i < outs.length), outs[i] = Spec.vidya n v (xs.take (i + 1)) := by
  apply method_spec _ _ (fun h s => Inv P n v h s)
  · exact new_spec v hn0 hn
  · intro h s x hinv
    exact next_spec x hn0 hinv

end Vidya
end Yata
