/-
  StDev: the three running accumulators are the window sum, the window sum of squares and minus the
  window mean; the quantity under the final `sqrt` is the sample variance of the last `n` values.
-/
import YataProofs.Numeric.Common
import YataProofs.Candle
namespace Yata
variable {K : Type} [Field K] [LinearOrder K] [IsStrictOrderedRing K]

theorem sum_sq_dev (l : List K) (m : K) :
    (l.map fun x => (x - m) * (x - m)).sum = (l.map fun x => x * x).sum - 2 * m * l.sum + (l.length : K) * (m * m) := by
  induction l with
  | nil => simp
  | cons a t ih =>
    simp only [List.map_cons, List.sum_cons, List.length_cons, ih]
    push_cast
    ring

theorem sum_sq_dev_nonneg (l : List K) (m : K) : 0 ≤ (l.map fun x => (x - m) * (x - m)).sum := by
  induction l with
  | nil => simp
  | cons a t ih =>
    simp only [List.map_cons, List.sum_cons]
    have : 0 ≤ (a - m) * (a - m) := mul_self_nonneg _
    linarith

theorem sum_sq_tail_snoc (l : List K) (x : K) (hne : l ≠ []) :
    ((l.tail ++ [x]).map fun y => y * y).sum = (l.map fun y => y * y).sum - l.head hne * l.head hne + x * x := by
  cases l with
  | nil => exact absurd rfl hne
  | cons a t => simp

namespace StDev

structure Inv (P n : Nat) (hist : List K) (s : StDev K) : Prop where
  tracks : Tracks P n s.window hist
  vsum : s.val_sum = (lastN n hist).sum
  sqsum : s.sq_val_sum = ((lastN n hist).map fun x => x * x).sum
  mean : s.mean = -((lastN n hist).sum / (n : K))
  divider : s.divider = -(1 / (n : K))
  k : s.k = 1 / ((n - 1 : Nat) : K)

/-- the quantity the code takes the square root of -/
theorem peekVar_eq {P n : Nat} {hist : List K} {s : StDev K} (hn : 2 ≤ n) (h : Inv P n hist s) :
    s.peekVar = ((lastN n hist).map fun x => (x - Spec.mean n (lastN n hist)) * (x - Spec.mean n (lastN n hist))).sum
      / ((n - 1 : Nat) : K) := by
  have hnK : (n : K) ≠ 0 := by
    have : 0 < n := by omega
    exact_mod_cast (Nat.pos_iff_ne_zero.mp this)
  have hn1 : (0 : K) < ((n - 1 : Nat) : K) := by
    have : 0 < n - 1 := by omega
    exact_mod_cast this
  have hlen : ((lastN n hist).length : K) = (n : K) := by rw [lastN_length h.tracks.len]
  have e : (s.val_sum * s.mean + s.sq_val_sum) * s.k =
      ((lastN n hist).map fun x => (x - Spec.mean n (lastN n hist)) * (x - Spec.mean n (lastN n hist))).sum
        / ((n - 1 : Nat) : K) := by
    rw [sum_sq_dev, hlen, h.vsum, h.sqsum, h.mean, h.k, Spec.mean]
    field_simp
    ring
  unfold StDev.peekVar
  rw [sabs_eq_abs, e, abs_of_nonneg]
  exact div_nonneg (sum_sq_dev_nonneg _ _) (le_of_lt hn1)

theorem new_spec {P n : Nat} (v : K) (hn2 : 2 ≤ n) (hn : n ≤ P - 1) :
    ∃ s, StDev.new P n v = .ok s ∧ Inv P n (history n v []) s := by
  have hnP : n ≠ P := by omega
  have hn0 : n ≠ 0 := by omega
  have hn1 : n ≠ 1 := by omega
  obtain ⟨w, hw, ht⟩ := Tracks.new (P := P) v hn
  have hnK : (n : K) ≠ 0 := by exact_mod_cast hn0
  refine ⟨{ mean := -v, val_sum := v * (n : K), sq_val_sum := v * v * (n : K), divider := -(1 / (n : K)),
            k := 1 / ((n - 1 : Nat) : K), window := w }, ?_, ht, ?_, ?_, ?_, rfl, rfl⟩
  · simp [StDev.new, hn0, hn1, hnP, winNew, hw, Res.ofExcept, Res.bind]
  · simp [lastN_history_nil, sum_replicate_field, mul_comm]
  · simp [lastN_history_nil, List.map_replicate, sum_replicate_field, mul_comm]
  · simp only [lastN_history_nil, sum_replicate_field]
    field_simp

theorem next_spec {P n : Nat} {hist : List K} {s : StDev K} (x : K) (hn2 : 2 ≤ n) (h : Inv P n hist s) :
    ∃ o s', s.next x = .ok (o, s') ∧ Inv P n (hist ++ [x]) s' ∧ o = s'.peekVar := by
  have hn0 : 0 < n := by omega
  obtain ⟨old, w', hp, ht', hhead⟩ := h.tracks.push hn0 x
  have hnK : (n : K) ≠ 0 := by exact_mod_cast (Nat.pos_iff_ne_zero.mp hn0)
  have hne : lastN n hist ≠ [] := by
    intro hnil; rw [hnil] at hhead; simp at hhead
  have hold : (lastN n hist).head hne = old := by
    have := List.head?_eq_some_head hne
    rw [this] at hhead; exact Option.some.inj hhead
  have hsum : (lastN n (hist ++ [x])).sum = (lastN n hist).sum + (x - old) := by
    rw [lastN_snoc x hn0 h.tracks.len, sum_tail_snoc _ x hne, hold]; ring
  have hsq : ((lastN n (hist ++ [x])).map fun y => y * y).sum =
      ((lastN n hist).map fun y => y * y).sum + (x - old) * (x + old) := by
    rw [lastN_snoc x hn0 h.tracks.len, sum_sq_tail_snoc _ x hne, hold]; ring
  refine ⟨_, { s with sq_val_sum := s.sq_val_sum + (x - old) * (x + old), val_sum := s.val_sum + (x - old),
                      mean := s.mean + (x - old) * s.divider, window := w' }, ?_,
    ⟨ht', ?_, ?_, ?_, h.divider, h.k⟩, rfl⟩
  · simp [StDev.next, hp]
  · show s.val_sum + (x - old) = _
    rw [h.vsum, hsum]
  · show s.sq_val_sum + (x - old) * (x + old) = _
    rw [h.sqsum, hsq]
  · show s.mean + (x - old) * s.divider = _
    rw [h.mean, h.divider, hsum]
    field_simp
    ring

/-- over whole streams: output `i` is the sample variance of the last `n` values (the code returns its
    square root) -/
theorem spec {P n : Nat} (v : K) (hn2 : 2 ≤ n) (hn : n ≤ P - 1) (xs : List K) :
    ∃ s0 outs s', StDev.new P n v = .ok s0 ∧ runM StDev.next s0 xs = .ok (outs, s') ∧
      outs.length = xs.length ∧ ∀ i (hi : i < outs.length), outs[i] = Spec.variance n v (xs.take (i + 1)) := by
  apply method_spec _ _ (fun h s => Inv P n (history n v h) s)
  · exact new_spec v hn2 hn
  · intro h s x hinv
    obtain ⟨o, s', hnx, hinv', ho⟩ := next_spec x hn2 hinv
    refine ⟨o, s', hnx, by rw [history_snoc]; exact hinv', ?_⟩
    rw [ho, peekVar_eq hn2 hinv']
    simp [Spec.variance, Spec.win, history_snoc]

end StDev
end Yata
