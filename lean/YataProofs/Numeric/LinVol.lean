/-
  LinearVolatility: the running value is the sum of the absolute successive differences of the last
  `n` steps (zeros before the start), hence never negative.
-/
import YataProofs.Numeric.Common
import YataProofs.Candle
namespace Yata
variable {K : Type} [Field K] [LinearOrder K] [IsStrictOrderedRing K]

/-- last element of `p :: l` -/
def lastOr (p : K) (l : List K) : K := (p :: l).getLast (by simp)

theorem lastOr_snoc (p : K) (l : List K) (x : K) : lastOr p (l ++ [x]) = x := by
  unfold lastOr
  have e : p :: (l ++ [x]) = (p :: l) ++ [x] := rfl
  simp only [e, List.getLast_concat]

theorem absDiffs_snoc (p : K) (l : List K) (x : K) :
    Spec.absDiffs p (l ++ [x]) = Spec.absDiffs p l ++ [sabs (x - lastOr p l)] := by
  induction l generalizing p with
  | nil => simp [Spec.absDiffs, lastOr]
  | cons a t ih =>
    simp only [List.cons_append, Spec.absDiffs, ih a]
    have : lastOr a t = lastOr p (a :: t) := by
      unfold lastOr
      simp [List.getLast_cons]
    rw [this]

theorem absDiffs_nonneg (p : K) (l : List K) : ∀ y ∈ Spec.absDiffs p l, 0 ≤ y := by
  induction l generalizing p with
  | nil => simp [Spec.absDiffs]
  | cons a t ih =>
    intro y hy
    simp only [Spec.absDiffs, List.mem_cons] at hy
    rcases hy with rfl | hy
    · rw [sabs_eq_abs]; exact abs_nonneg _
    · exact ih a y hy

theorem sum_nonneg_of_forall (l : List K) (h : ∀ y ∈ l, 0 ≤ y) : 0 ≤ l.sum := by
  induction l with
  | nil => simp
  | cons a t ih =>
    simp only [List.sum_cons]
    have := h a (by simp)
    have := ih (fun y hy => h y (by simp [hy]))
    linarith

namespace LinearVolatility

def hist0 (n : Nat) (v : K) (xs : List K) : List K := List.replicate n 0 ++ Spec.absDiffs v xs

structure Inv (P n : Nat) (v : K) (xs : List K) (s : LinearVolatility K) : Prop where
  tracks : Tracks P n s.window (hist0 n v xs)
  prev : s.prev_value = lastOr v xs
  vol : s.volatility = (lastN n (hist0 n v xs)).sum

theorem hist0_snoc (n : Nat) (v : K) (xs : List K) (x : K) :
    hist0 n v (xs ++ [x]) = hist0 n v xs ++ [sabs (x - lastOr v xs)] := by
  simp [hist0, absDiffs_snoc, List.append_assoc]

theorem new_spec {P n : Nat} (v : K) (hn0 : 0 < n) (hn : n ≤ P - 1) :
    ∃ s, LinearVolatility.new P n v = .ok s ∧ Inv P n v [] s := by
  have hnP : n ≠ P := by omega
  obtain ⟨w, hw, hinv, htl, hsz⟩ := Window.new_ok (P := P) (0 : K) hn
  refine ⟨{ window := w, prev_value := v, volatility := 0 }, ?_, ⟨hinv, hsz, by simp [hist0, Spec.absDiffs], ?_⟩, rfl, ?_⟩
  · simp [LinearVolatility.new, Nat.pos_iff_ne_zero.mp hn0, hnP, winNew, hw, Res.ofExcept, Res.bind]
  · rw [htl]; simp [hist0, Spec.absDiffs, lastN]
  · simp [hist0, Spec.absDiffs, lastN]

theorem next_spec {P n : Nat} {v : K} {xs : List K} {s : LinearVolatility K} (x : K) (hn0 : 0 < n) (h : Inv P n v xs s) :
    ∃ o s', s.next x = .ok (o, s') ∧ Inv P n v (xs ++ [x]) s' ∧ o = Spec.linearVolatility n v (xs ++ [x]) ∧ 0 ≤ o := by
  obtain ⟨old, w', hp, ht', hhead⟩ := h.tracks.push hn0 (sabs (x - s.prev_value))
  have hne : lastN n (hist0 n v xs) ≠ [] := by
    intro hnil; rw [hnil] at hhead; simp at hhead
  have hold : (lastN n (hist0 n v xs)).head hne = old := by
    have := List.head?_eq_some_head hne
    rw [this] at hhead; exact Option.some.inj hhead
  have hsum : (lastN n (hist0 n v (xs ++ [x]))).sum = s.volatility + (sabs (x - s.prev_value) - old) := by
    rw [hist0_snoc, lastN_snoc _ hn0 h.tracks.len, sum_tail_snoc _ _ hne, hold, h.vol, h.prev]; ring
  refine ⟨s.volatility + (sabs (x - s.prev_value) - old), { window := w', prev_value := x, volatility := s.volatility + (sabs (x - s.prev_value) - old) }, ?_,
    ⟨?_, (lastOr_snoc v xs x).symm, hsum.symm⟩, ?_, ?_⟩
  · simp [LinearVolatility.next, hp]
  · rw [hist0_snoc, ← h.prev]; exact ht'
  · rw [← hsum]; rfl
  · rw [← hsum]
    apply sum_nonneg_of_forall
    intro y hy
    have hy' : y ∈ hist0 n v (xs ++ [x]) := List.mem_of_mem_drop hy
    simp only [hist0, List.mem_append, List.mem_replicate] at hy'
    rcases hy' with ⟨_, rfl⟩ | hy'
    · exact le_refl _
    · exact absDiffs_nonneg _ _ y hy'

theorem spec {P n : Nat} (v : K) (hn0 : 0 < n) (hn : n ≤ P - 1) (xs : List K) :
    ∃ s0 outs s', LinearVolatility.new P n v = .ok s0 ∧ runM LinearVolatility.next s0 xs = .ok (outs, s') ∧
      outs.length = xs.length ∧
      ∀ i (hi : i < outs.length), outs[i] = Spec.linearVolatility n v (xs.take (i + 1)) ∧ 0 ≤ outs[i] := by
  obtain ⟨s0, hnew, hi0⟩ := new_spec (P := P) v hn0 hn
  obtain ⟨os, s', hr, _, hlen, houts⟩ :=
    runM_invariant LinearVolatility.next (fun h s => Inv P n v h s)
      (fun h o => o = Spec.linearVolatility n v h ∧ 0 ≤ o)
      (by
        intro h s x hinv
        obtain ⟨o, s1, hnx, hinv1, ho, hpos⟩ := next_spec x hn0 hinv
        exact ⟨o, s1, hnx, hinv1, ho, hpos⟩)
      xs [] s0 hi0
  exact ⟨s0, os, s', hnew, hr, hlen, fun i hi => by simpa using houts i hi⟩

end LinearVolatility
end Yata
