/-
  UpperReversalSignal: the remembered pair (max_index, max_value) is the NEWEST maximum of the positions currently
  covered by the window, and the signal fires exactly when that position is `right` steps back.
-/
import YataProofs.Numeric.Common
import YataProofs.Selection
import YataModel.Methods.Signals
import Mathlib.Tactic.Linarith
import YataProofs.Runner
namespace Yata
variable {K : Type} [Field K] [LinearOrder K] [IsStrictOrderedRing K]

/-- the oldest-first list `l` occupies the positions `off, off+1, …`; `(i, v)` is its newest maximum -/
def LastMaxAt (i : Nat) (v : K) (off : Nat) (l : List K) : Prop :=
  off ≤ i ∧ l[i - off]? = some v ∧ (∀ y ∈ l, y ≤ v) ∧ (∀ j y, i - off < j → l[j]? = some y → y < v)

theorem LastMaxAt.unique {i i' : Nat} {v v' : K} {off : Nat} {l : List K}
    (h : LastMaxAt i v off l) (h' : LastMaxAt i' v' off l) : i = i' ∧ v = v' := by
  obtain ⟨h1, h2, h3, h4⟩ := h
  obtain ⟨g1, g2, g3, g4⟩ := h'
  have hv : v = v' := le_antisymm (g3 v (List.mem_of_getElem? h2)) (h3 v' (List.mem_of_getElem? g2))
  subst hv
  refine ⟨?_, rfl⟩
  rcases Nat.lt_trichotomy (i - off) (i' - off) with hlt | heq | hgt
  · exact absurd (h4 _ v hlt g2) (lt_irrefl v)
  · omega
  · exact absurd (g4 _ v hgt h2) (lt_irrefl v)

/-- the rescan fold, with the processed prefix as accumulator invariant -/
theorem rescan_go (off : Nat) (t pre : List K) (i0 : Nat) (v0 : K) (h : LastMaxAt i0 v0 off pre) (hne : pre ≠ []) :
    LastMaxAt
      ((t.zipIdx (off + pre.length)).foldl (fun (acc : Nat × K) (b : K × Nat) => if decide (acc.2 ≤ b.1) = true then (b.2, b.1) else acc) (i0, v0)).1
      ((t.zipIdx (off + pre.length)).foldl (fun (acc : Nat × K) (b : K × Nat) => if decide (acc.2 ≤ b.1) = true then (b.2, b.1) else acc) (i0, v0)).2
      off (pre ++ t) := by
  induction t generalizing pre i0 v0 with
  | nil => simpa using h
  | cons y t ih =>
    obtain ⟨h1, h2, h3, h4⟩ := h
    have hi0 : i0 - off < pre.length := (List.getElem?_eq_some_iff.mp h2).1
    simp only [List.zipIdx_cons, List.foldl_cons]
    have hlen : (pre ++ [y]).length = pre.length + 1 := by simp
    have hpos : off + pre.length + 1 = off + (pre ++ [y]).length := by rw [hlen]; omega
    by_cases hle : v0 ≤ y
    · have hnew : LastMaxAt (off + pre.length) y off (pre ++ [y]) := by
        refine ⟨by omega, ?_, ?_, ?_⟩
        · have : off + pre.length - off = pre.length := by omega
          rw [this]; simp
        · intro z hz
          rcases List.mem_append.mp hz with hz | hz
          · exact le_trans (h3 z hz) hle
          · simp at hz; rw [hz]
        · intro j z hj hz
          have : off + pre.length - off = pre.length := by omega
          rw [this] at hj
          have : (pre ++ [y])[j]? = none := by apply List.getElem?_eq_none; rw [hlen]; omega
          rw [this] at hz; cases hz
      have := ih (pre ++ [y]) (off + pre.length) y hnew (by simp)
      simp only [hle, decide_true, ↓reduceIte]
      rw [hpos]
      simpa [List.append_assoc] using this
    · have hlt : y < v0 := not_le.mp hle
      have hkeep : LastMaxAt i0 v0 off (pre ++ [y]) := by
        refine ⟨h1, by rw [List.getElem?_append_left hi0]; exact h2, ?_, ?_⟩
        · intro z hz
          rcases List.mem_append.mp hz with hz | hz
          · exact h3 z hz
          · simp at hz; rw [hz]; exact le_of_lt hlt
        · intro j z hj hz
          by_cases hjl : j < pre.length
          · rw [List.getElem?_append_left hjl] at hz; exact h4 j z hj hz
          · have hj' : j = pre.length ∨ pre.length < j := by omega
            rcases hj' with rfl | hj'
            · simp at hz; rw [← hz]; exact hlt
            · have : (pre ++ [y])[j]? = none := by apply List.getElem?_eq_none; rw [hlen]; omega
              rw [this] at hz; cases hz
      have := ih (pre ++ [y]) i0 v0 hkeep (by simp)
      simp only [hle, decide_false, Bool.false_eq_true, ↓reduceIte]
      rw [hpos]
      simpa [List.append_assoc] using this

/-- `rescan` over a non-empty oldest-first window whose first element is the seed -/
theorem rescan_spec (first : Nat) (o : K) (rest : List K) :
    LastMaxAt (rescan (fun x m => decide (m ≤ x)) first (o :: rest) o).1
      (rescan (fun x m => decide (m ≤ x)) first (o :: rest) o).2 first (o :: rest) := by
  have h0 : LastMaxAt first o first [o] :=
    ⟨le_refl _, by simp, fun y hy => by simp at hy; rw [hy], fun j y hj hy => by
      have : j ≥ 1 := by omega
      have : ([o] : List K)[j]? = none := by apply List.getElem?_eq_none; simp; omega
      rw [this] at hy; cases hy⟩
  have := rescan_go first rest [o] first o h0 (by simp)
  simpa [rescan, List.zipIdx_cons] using this


/-- the sequence the detector looks at: the first input competes with the construction value (constant prehistory) -/
def virt (v : K) : List K → List K
  | [] => []
  | x0 :: r => (if v ≤ x0 then x0 else v) :: r

theorem virt_snoc (v : K) (xs : List K) (x : K) (h : xs ≠ []) : virt v (xs ++ [x]) = virt v xs ++ [x] := by
  cases xs with
  | nil => exact absurd rfl h
  | cons a t => simp [virt]

theorem virt_length (v : K) (xs : List K) : (virt v xs).length = xs.length := by
  cases xs <;> simp [virt]

theorem virt_drop (v : K) (xs : List K) (k : Nat) (hk : 0 < k) : (virt v xs).drop k = xs.drop k := by
  cases xs with
  | nil => simp [virt]
  | cons a t =>
    obtain ⟨m, rfl⟩ : ∃ m, k = m + 1 := ⟨k - 1, by omega⟩
    simp [virt]

/-- the covered positions after one more input: the old ones from `f'` on, then the new value -/
theorem covered_snoc (ys : List K) (x : K) (f' : Nat) (h : f' ≤ ys.length) : (ys ++ [x]).drop f' = ys.drop f' ++ [x] :=
  List.drop_append_of_le_length h

theorem LastMaxAt.push_new {mi : Nat} {mv : K} {f f' : Nat} {ys : List K} (x : K)
    (h : LastMaxAt mi mv f (ys.drop f)) (hff : f ≤ f') (hfl : f' ≤ ys.length) (hge : mv ≤ x) :
    LastMaxAt ys.length x f' ((ys ++ [x]).drop f') := by
  obtain ⟨h1, h2, h3, h4⟩ := h
  rw [covered_snoc ys x f' hfl]
  have hl : (ys.drop f').length = ys.length - f' := by simp
  refine ⟨hfl, ?_, ?_, ?_⟩
  · rw [List.getElem?_append_right (by rw [hl])]; simp [hl]
  · intro y hy
    rcases List.mem_append.mp hy with hy | hy
    · have : y ∈ ys.drop f := by
        have e : ys.drop f' = (ys.drop f).drop (f' - f) := by rw [List.drop_drop]; congr 1; omega
        rw [e] at hy; exact List.mem_of_mem_drop hy
      exact le_trans (h3 y this) hge
    · simp at hy; rw [hy]
  · intro j y hj hy
    have : (ys.drop f' ++ [x])[j]? = none := by
      apply List.getElem?_eq_none; simp only [List.length_append, hl, List.length_singleton]; omega
    rw [this] at hy; cases hy

theorem LastMaxAt.push_keep {mi : Nat} {mv : K} {f f' : Nat} {ys : List K} (x : K)
    (h : LastMaxAt mi mv f (ys.drop f)) (hff : f ≤ f') (hfm : f' ≤ mi) (hlt : x < mv) :
    LastMaxAt mi mv f' ((ys ++ [x]).drop f') := by
  obtain ⟨h1, h2, h3, h4⟩ := h
  have hmi : mi < ys.length := by
    have := (List.getElem?_eq_some_iff.mp h2).1
    simp at this; omega
  have hfl : f' ≤ ys.length := by omega
  rw [covered_snoc ys x f' hfl]
  have hl : (ys.drop f').length = ys.length - f' := by simp
  have hval : ys[mi]? = some mv := by
    rw [List.getElem?_drop] at h2
    have : f + (mi - f) = mi := by omega
    rwa [this] at h2
  refine ⟨hfm, ?_, ?_, ?_⟩
  · rw [List.getElem?_append_left (by rw [hl]; omega), List.getElem?_drop]
    have : f' + (mi - f') = mi := by omega
    rw [this]; exact hval
  · intro y hy
    rcases List.mem_append.mp hy with hy | hy
    · have : y ∈ ys.drop f := by
        have e : ys.drop f' = (ys.drop f).drop (f' - f) := by rw [List.drop_drop]; congr 1; omega
        rw [e] at hy; exact List.mem_of_mem_drop hy
      exact h3 y this
    · simp at hy; rw [hy]; exact le_of_lt hlt
  · intro j y hj hy
    by_cases hjl : j < (ys.drop f').length
    · rw [List.getElem?_append_left hjl, List.getElem?_drop] at hy
      have e : ys[f' + j]? = (ys.drop f)[f' + j - f]? := by
        rw [List.getElem?_drop]; congr 1; omega
      rw [e] at hy
      exact h4 (f' + j - f) y (by omega) hy
    · have hj' : j = (ys.drop f').length ∨ (ys.drop f').length < j := by omega
      rcases hj' with rfl | hj'
      · simp at hy; rw [← hy]; exact hlt
      · have : (ys.drop f' ++ [x])[j]? = none := by
          apply List.getElem?_eq_none; simp only [List.length_append, List.length_singleton]; omega
        rw [this] at hy; cases hy

namespace UpperReversalSignal

/-- first position still covered by the window after `n` inputs -/
def firstPos (len n : Nat) : Nat := n - len

structure Inv (P : Nat) (v : K) (xs : List K) (s : UpperReversalSignal K) : Prop where
  idx : s.index = xs.length
  lpos : 0 < s.left
  rpos : 0 < s.right
  tracks : Tracks P (s.left + s.right + 1) s.window (List.replicate (s.left + s.right + 1) v ++ xs)
  start : xs = [] → s.max_index = 0 ∧ s.max_value = v
  cur : xs ≠ [] → LastMaxAt s.max_index s.max_value (firstPos (s.left + s.right + 1) xs.length)
          ((virt v xs).drop (firstPos (s.left + s.right + 1) xs.length))

theorem lastN_real (len : Nat) (v : K) (ys : List K) (h : len ≤ ys.length) :
    lastN len (List.replicate len v ++ ys) = ys.drop (ys.length - len) := by
  unfold lastN
  simp only [List.length_append, List.length_replicate]
  have e : len + ys.length - len = len + (ys.length - len) := by omega
  rw [e, List.drop_append]
  simp

/-- one step: no panic, the invariant is kept, and the signal fires iff the newest maximum of the covered positions
    is exactly `right` steps back (and at least `right` steps have passed) -/
theorem next_spec {P : Nat} {v : K} {xs : List K} {s : UpperReversalSignal K} (x : K) (h : Inv P v xs s) :
    ∃ a s', s.next x = .ok (a, s') ∧ Inv P v (xs ++ [x]) s' ∧ s'.left = s.left ∧ s'.right = s.right ∧
      a = (if xs.length ≥ s.right ∧ s'.max_index = xs.length - s.right then Action.buyAll else Action.none) := by
  set len := s.left + s.right + 1 with hlen
  have hlen0 : 0 < len := by omega
  obtain ⟨old, w', hp, ht', _⟩ := h.tracks.push hlen0 x
  have hsize : w'.len = len := ht'.size
  have hwpos : 0 < w'.size := by rw [ht'.size]; exact hlen0
  have hfirst : (s.index + 1) - w'.len = firstPos len (xs ++ [x]).length := by
    rw [hsize, h.idx]; simp [firstPos]
  set f' := firstPos len (xs ++ [x]).length with hf'
  -- the three ways the pair is updated
  by_cases hscan : s.max_index < f'
  · -- the remembered maximum has left the window: rescan
    obtain ⟨o, ho, hhead⟩ := Window.oldest_spec ht'.inv hwpos
    have hcol := Window.iterRevCollect_spec ht'.inv (w'.size + 1) (Window.iterStart w') 0 (Window.iterStart_revInv ht'.inv) (by omega)
    simp only [List.drop_zero] at hcol
    obtain ⟨a, rest, hat⟩ := List.exists_cons_of_ne_nil (Window.toList_ne_nil ht'.inv hwpos)
    rw [hat] at hhead
    simp only [List.head?_cons, Option.some.injEq] at hhead
    subst hhead
    have hf1 : 1 ≤ f' := by omega
    have hne : xs ≠ [] := by
      intro he; rw [he] at hf'; simp [firstPos] at hf'; omega
    have hfull : len ≤ (xs ++ [x]).length := by
      simp only [hf', firstPos] at hf1; omega
    have hwin : Window.toList w' = (virt v (xs ++ [x])).drop f' := by
      rw [ht'.contents, List.append_assoc, lastN_real len v (xs ++ [x]) hfull, virt_drop v _ f' (by omega)]
      simp [hf', firstPos]
    have hspec := rescan_spec f' a rest
    rw [← hat, hwin] at hspec
    refine ⟨(if s.index ≥ s.right ∧ (rescan (fun x m => decide (m ≤ x)) f' (Window.toList w') a).1 = s.index - s.right then Action.buyAll else Action.none),
      { s with max_value := (rescan (fun x m => decide (m ≤ x)) f' (Window.toList w') a).2,
                        max_index := (rescan (fun x m => decide (m ≤ x)) f' (Window.toList w') a).1,
                        index := s.index + 1, window := w' }, ?_, ⟨?_, h.lpos, h.rpos, ?_, ?_, ?_⟩, rfl, rfl, ?_⟩
    · unfold UpperReversalSignal.next
      simp only [hp, hfirst, hscan, ↓reduceIte, ho, hcol, hat]
    · show s.index + 1 = (xs ++ [x]).length
      rw [h.idx]; simp
    · show Tracks P len w' _
      rw [← List.append_assoc]; exact ht'
    · intro he; simp at he
    · intro _
      show LastMaxAt (rescan (fun x m => decide (m ≤ x)) f' (Window.toList w') a).1
        (rescan (fun x m => decide (m ≤ x)) f' (Window.toList w') a).2 f' ((virt v (xs ++ [x])).drop f')
      rw [hwin]; exact hspec
    · show _ = if xs.length ≥ s.right ∧ _ = xs.length - s.right then _ else _
      rw [h.idx]
  · by_cases hge : s.max_value ≤ x
    · -- the new value is the newest maximum
      refine ⟨(if s.index ≥ s.right ∧ s.index = s.index - s.right then Action.buyAll else Action.none),
        { s with max_value := x, max_index := s.index, index := s.index + 1, window := w' }, ?_,
        ⟨?_, h.lpos, h.rpos, ?_, ?_, ?_⟩, rfl, rfl, ?_⟩
      · unfold UpperReversalSignal.next
        simp only [hp, hfirst, hscan, ↓reduceIte, hge]
      · show s.index + 1 = (xs ++ [x]).length
        rw [h.idx]; simp
      · show Tracks P len w' _
        rw [← List.append_assoc]; exact ht'
      · intro he; simp at he
      · intro _
        show LastMaxAt s.index x f' ((virt v (xs ++ [x])).drop f')
        by_cases hxs : xs = []
        · obtain ⟨_, hmv⟩ := h.start hxs
          have hvx : v ≤ x := by rw [← hmv]; exact hge
          subst hxs
          have hf0 : f' = 0 := by simp [hf', firstPos]; omega
          have hi0 : s.index = 0 := by rw [h.idx]; rfl
          rw [hf0, hi0]
          simp only [List.nil_append, virt, hvx, ↓reduceIte, List.drop_zero]
          exact ⟨le_refl _, by simp, fun y hy => by simp at hy; rw [hy], fun j y hj hy => by
            have : ([x] : List K)[j]? = none := by apply List.getElem?_eq_none; simp; omega
            rw [this] at hy; cases hy⟩
        · have hold := h.cur hxs
          rw [virt_snoc v xs x hxs, h.idx, ← virt_length v xs]
          apply LastMaxAt.push_new x hold
          · simp [hf', firstPos]; omega
          · rw [virt_length]; simp [hf', firstPos]; omega
          · exact hge
      · show _ = if xs.length ≥ s.right ∧ s.index = xs.length - s.right then _ else _
        rw [h.idx]
    · -- the remembered maximum stays
      refine ⟨(if s.index ≥ s.right ∧ s.max_index = s.index - s.right then Action.buyAll else Action.none),
        { s with index := s.index + 1, window := w' }, ?_,
        ⟨?_, h.lpos, h.rpos, ?_, ?_, ?_⟩, rfl, rfl, ?_⟩
      · unfold UpperReversalSignal.next
        simp only [hp, hfirst, hscan, ↓reduceIte, hge]
      · show s.index + 1 = (xs ++ [x]).length
        rw [h.idx]; simp
      · show Tracks P len w' _
        rw [← List.append_assoc]; exact ht'
      · intro he; simp at he
      · intro _
        show LastMaxAt s.max_index s.max_value f' ((virt v (xs ++ [x])).drop f')
        have hlt : x < s.max_value := not_le.mp hge
        by_cases hxs : xs = []
        · obtain ⟨hmi, hmv⟩ := h.start hxs
          have hvx : ¬ v ≤ x := by rw [← hmv]; exact hge
          subst hxs
          have hf0 : f' = 0 := by simp [hf', firstPos]; omega
          rw [hf0, hmi, hmv]
          simp only [List.nil_append, virt, hvx, ↓reduceIte, List.drop_zero]
          exact ⟨le_refl _, by simp, fun y hy => by simp at hy; rw [hy], fun j y hj hy => by
            have : ([v] : List K)[j]? = none := by apply List.getElem?_eq_none; simp; omega
            rw [this] at hy; cases hy⟩
        · have hold := h.cur hxs
          rw [virt_snoc v xs x hxs]
          apply LastMaxAt.push_keep x hold
          · simp [hf', firstPos]; omega
          · omega
          · exact hlt
      · show _ = if xs.length ≥ s.right ∧ s.max_index = xs.length - s.right then _ else _
        rw [h.idx]


theorem new_spec {P left right : Nat} (v : K) (hl : 0 < left) (hr : 0 < right) (hsum : left + right + 1 ≤ P - 1) :
    ∃ s, UpperReversalSignal.new P left right v = .ok s ∧ Inv P v [] s ∧ s.left = left ∧ s.right = right := by
  have hP : left + right + 1 ≤ P := by omega
  have hsat : ¬ (satAdd P left right ≥ P - 1) := by unfold satAdd; split <;> omega
  have hc1 : chkAdd P left right = .ok (left + right) := by unfold chkAdd; rw [if_pos (by omega)]
  have hc2 : chkAdd P (left + right) 1 = .ok (left + right + 1) := by unfold chkAdd; rw [if_pos (by omega)]
  obtain ⟨w, hw, hinv, htl, hsz⟩ := Window.new_ok (P := P) v hsum
  refine ⟨{ left := left, right := right, max_value := v, max_index := 0, index := 0, window := w }, ?_,
    ⟨rfl, hl, hr, ⟨hinv, hsz, by simp, by rw [htl]; simp [lastN]⟩, fun _ => ⟨rfl, rfl⟩, fun h => absurd rfl h⟩, rfl, rfl⟩
  have h0 : left ≠ 0 := by omega
  have h1 : right ≠ 0 := by omega
  simp [UpperReversalSignal.new, h0, h1, hsat, hc1, hc2, hw, Res.ofExcept, Res.bind]

/-- every stream: step `t` (0-based) fires iff `t ≥ right` and the newest maximum among the positions
    `max(0, t+1−(left+right+1)) … t` of the stream (its first value competing with the construction value) is at `t − right` -/
theorem run_spec {P left right : Nat} (v : K) (hl : 0 < left) (hr : 0 < right) (hsum : left + right + 1 ≤ P - 1) (xs : List K) :
    ∃ s0 outs s', UpperReversalSignal.new P left right v = .ok s0 ∧ runM UpperReversalSignal.next s0 xs = .ok (outs, s') ∧
      outs.length = xs.length ∧
      ∀ t (ht : t < outs.length), ∃ mi mv,
        LastMaxAt mi mv (firstPos (left + right + 1) (t + 1)) ((virt v (xs.take (t + 1))).drop (firstPos (left + right + 1) (t + 1))) ∧
        outs[t] = (if t ≥ right ∧ mi = t - right then Action.buyAll else Action.none) := by
  obtain ⟨s0, hnew, hinv0, hl0, hr0⟩ := new_spec (P := P) v hl hr hsum
  obtain ⟨os, s', hrun, _, hlen, houts⟩ :=
    runM_invariant UpperReversalSignal.next
      (fun h s => Inv P v h s ∧ s.left = left ∧ s.right = right)
      (fun h o => h ≠ [] ∧ ∃ mi mv,
        LastMaxAt mi mv (firstPos (left + right + 1) h.length) ((virt v h).drop (firstPos (left + right + 1) h.length)) ∧
        o = (if h.length - 1 ≥ right ∧ mi = h.length - 1 - right then Action.buyAll else Action.none))
      (by
        rintro h s x ⟨hinv, hsl, hsr⟩
        obtain ⟨a, s1, hn, hinv1, hl1, hr1, ha⟩ := next_spec x hinv
        refine ⟨a, s1, hn, ⟨hinv1, by rw [hl1, hsl], by rw [hr1, hsr]⟩, by simp, s1.max_index, s1.max_value, ?_, ?_⟩
        · have := hinv1.cur (by simp)
          rw [hl1, hr1, hsl, hsr] at this
          exact this
        · rw [ha, hsr]; simp)
      xs [] s0 ⟨hinv0, hl0, hr0⟩
  refine ⟨s0, os, s', hnew, hrun, hlen, ?_⟩
  intro t ht
  obtain ⟨_, mi, mv, hmax, ho⟩ := houts t ht
  have htl : (xs.take (t + 1)).length = t + 1 := by
    rw [List.length_take]; omega
  simp only [List.nil_append, htl] at hmax ho
  exact ⟨mi, mv, hmax, by simpa using ho⟩

end UpperReversalSignal
end Yata
