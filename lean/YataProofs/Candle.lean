/-
  Candle helper identities (src/core/ohlcv.rs, src/core/candles.rs) and textual forms.
-/
import YataModel.Candle
import YataModel.Text
import Mathlib.Algebra.Order.Field.Basic
import Mathlib.Tactic.Ring
import Mathlib.Tactic.Linarith
import Mathlib.Tactic.FieldSimp
namespace Yata
variable {K : Type} [Field K] [LinearOrder K] [IsStrictOrderedRing K]

theorem smax_eq_max (a b : K) : smax a b = max a b := by
  unfold smax; split
  · rw [max_eq_right (le_of_lt ‹a < b›)]
  · rw [max_eq_left (not_lt.mp ‹¬ a < b›)]

theorem smin_eq_min (a b : K) : smin a b = min a b := by
  unfold smin; split
  · rw [min_eq_right (le_of_lt ‹b < a›)]
  · rw [min_eq_left (not_lt.mp ‹¬ b < a›)]

theorem sabs_eq_abs (a : K) : sabs a = |a| := by
  unfold sabs; split
  · rw [abs_of_neg ‹a < 0›]
  · rw [abs_of_nonneg (not_lt.mp ‹¬ a < 0›)]

namespace Candle

/-- the single-subtraction true range equals the textbook three-way maximum whenever `high ≥ low` -/
theorem trClose_eq (c : Candle K) (p : K) (h : c.low ≤ c.high) :
    c.trClose p = max (max (c.high - c.low) |c.high - p|) |c.low - p| := by
  unfold trClose
  rw [smax_eq_max, smin_eq_min]
  simp only [abs_eq_max_neg, max_def, min_def]
  split_ifs <;> linarith

theorem clv_eq (c : Candle K) :
    c.clv = if c.high = c.low then 0 else ((c.close - c.low) - (c.high - c.close)) / (c.high - c.low) := by
  unfold clv
  split
  · rfl
  · congr 1; push_cast; ring

/-- on a valid range the close location value lies in [-1, 1] -/
theorem clv_range (c : Candle K) (h1 : c.low ≤ c.close) (h2 : c.close ≤ c.high) : -1 ≤ c.clv ∧ c.clv ≤ 1 := by
  rw [clv_eq]
  split
  · constructor <;> norm_num
  · have hlt : 0 < c.high - c.low := by
      have : c.low ≤ c.high := le_trans h1 h2
      rcases lt_or_eq_of_le this with h | h
      · linarith
      · exact absurd h.symm ‹¬ c.high = c.low›
    constructor
    · rw [le_div_iff₀ hlt]; linarith
    · rw [div_le_one hlt]; linarith

theorem formulas (c : Candle K) :
    c.tp = (c.high + c.low + c.close) / 3 ∧ c.hl2 = (c.high + c.low) / 2 ∧
    c.ohlc4 = (c.high + c.low + c.close + c.open_) / 4 ∧ c.volumedPrice = (c.high + c.low + c.close) / 3 * c.volume := by
  refine ⟨?_, ?_, ?_, ?_⟩
  · simp [tp]
  · simp [hl2]; ring
  · simp [ohlc4]; ring
  · simp [volumedPrice, tp]

theorem source_eq (c : Candle K) :
    c.source .close = c.close ∧ c.source .open_ = c.open_ ∧ c.source .high = c.high ∧ c.source .low = c.low ∧
    c.source .hl2 = c.hl2 ∧ c.source .tp = c.tp ∧ c.source .volume = c.volume ∧
    c.source .volumedPrice = c.volumedPrice := ⟨rfl, rfl, rfl, rfl, rfl, rfl, rfl, rfl⟩

/-- `validate` on finite fields accepts exactly the ordered, positive candles with non-negative volume -/
theorem validateFinite_iff (c : Candle K) :
    c.validateFinite = true ↔
      (c.low ≤ c.open_ ∧ c.open_ ≤ c.high ∧ c.low ≤ c.close ∧ c.close ≤ c.high ∧
       0 < c.open_ ∧ 0 < c.high ∧ 0 < c.low ∧ 0 < c.close ∧ 0 ≤ c.volume) := by
  simp only [validateFinite, Bool.and_eq_true, Bool.not_eq_eq_eq_not, Bool.not_true, Bool.or_eq_false_iff,
    decide_eq_false_iff_not, decide_eq_true_eq, not_lt]
  constructor
  · rintro ⟨⟨⟨⟨⟨⟨⟨⟨⟨a, b⟩, _⟩, d⟩, e⟩, f⟩, g⟩, h⟩, i⟩, j⟩
    exact ⟨e, d, b, a, g, h, i, f, j⟩
  · rintro ⟨e, d, b, a, g, h, i, f, j⟩
    exact ⟨⟨⟨⟨⟨⟨⟨⟨⟨a, b⟩, le_trans b a⟩, d⟩, e⟩, f⟩, g⟩, h⟩, i⟩, j⟩

/-- aggregation by `+` is associative -/
theorem add_assoc (a b c : Candle K) : (a.add b).add c = a.add (b.add c) := by
  simp only [add, smax_eq_max, smin_eq_min, max_assoc, min_assoc, _root_.add_assoc]

/-- folding `+` over a non-empty list of candles: first open, highest high, lowest low, last close,
    summed volume -/
theorem foldl_add (x : Candle K) (xs : List (Candle K)) :
    let r := xs.foldl Candle.add x
    r.open_ = x.open_ ∧ r.close = ((x :: xs).getLast (by simp)).close ∧
    r.high = (xs.map (·.high)).foldl max x.high ∧ r.low = (xs.map (·.low)).foldl min x.low ∧
    r.volume = x.volume + (xs.map (·.volume)).sum := by
  induction xs generalizing x with
  | nil => simp
  | cons y t ih =>
    have := ih (x.add y)
    simp only [List.foldl_cons, List.map_cons, List.sum_cons] at this ⊢
    obtain ⟨h1, h2, h3, h4, h5⟩ := this
    refine ⟨by rw [h1]; rfl, ?_, ?_, ?_, ?_⟩
    · rw [h2]
      cases t with
      | nil => simp [add]
      | cons z t' => simp
    · rw [h3]; simp [add, smax_eq_max]
    · rw [h4]; simp [add, smin_eq_min]
    · rw [h5]; simp [add]; ring

end Candle

/-! ### textual forms -/
namespace Text

theorem source_roundtrip : ∀ s ∈ Source.all, parseSource s.toStr.toList = some s := by decide

/-- names of the 15 kinds are distinct and contain no `-` -/
theorem kind_names : ∀ k ∈ MAKind.all, MAKind.ofName k.name = some k ∧ '-' ∉ k.name := by decide

theorem splitOnce_append (sep : Char) (a b : List Char) (h : sep ∉ a) :
    splitOnce sep (a ++ sep :: b) = some (a, b) := by
  induction a with
  | nil => simp [splitOnce]
  | cons c t ih =>
    have hc : c ≠ sep := fun e => h (by simp [e])
    have ht : sep ∉ t := fun e => h (by simp [e])
    simp [splitOnce, hc, ih ht]

/-- decimal digits of every value of the default `PeriodType` parse back -/
theorem parse_digits_u8 : ∀ n, n ≤ 255 → parseUInt 255 (natDigits n) = some n := by decide +kernel

/-- `"<kind>-<n>"` parses to that kind and length, for all 15 kinds and every `n ≤ 255` -/
theorem ma_roundtrip (k : MAKind) (n : Nat) (hn : n ≤ 255) :
    parseMA 255 (k.name ++ '-' :: natDigits n) = some { kind := k, length := n } := by
  have hk := kind_names k (by cases k <;> decide)
  simp [parseMA, splitOnce_append '-' k.name (natDigits n) hk.2, parse_digits_u8 n hn, hk.1]

/-- whatever parses has the form `<name of a kind>-<text that parses as the length>` -/
theorem ma_parse_form (P : Nat) (l : List Char) (m : MA) (h : parseMA P l = some m) :
    ∃ a b, splitOnce '-' l = some (a, b) ∧ MAKind.ofName a = some m.kind ∧ parseUInt P b = some m.length := by
  unfold parseMA at h
  cases hs : splitOnce '-' l with
  | none => simp [hs] at h
  | some p =>
    obtain ⟨a, b⟩ := p
    simp only [hs] at h
    cases hp : parseUInt P b with
    | none => simp [hp] at h
    | some n =>
      simp only [hp] at h
      cases hk : MAKind.ofName a with
      | none => simp [hk] at h
      | some k =>
        simp only [hk, Option.map_some, Option.some.injEq] at h
        exact ⟨a, b, rfl, by rw [← h]; exact hk, by rw [← h]; exact hp⟩

end Text
end Yata
