import YataProofs.Converters
namespace Yata
namespace Renko

theorem new_inv (eps brick : ℚ) (src : Source) (c : Candle ℚ) (s : Renko) (he : 0 < eps) (hc : 0 < c.source src)
    (h : Renko.new eps brick src c = .ok s) : Inv s ∧ s.volume = 0 ∧ s.src = src := by
  unfold Renko.new at h
  split at h
  · rename_i hb
    injection h with h
    subst h
    have hb0 : 0 < brick := lt_of_lt_of_le he hb.1
    refine ⟨⟨hb0, hb.2, ?_, ?_, rfl, rfl⟩, rfl, rfl⟩
    · show 0 < c.source src - c.source src * brick * (1 / 2)
      nlinarith [hb.2]
    · show c.source src - c.source src * brick * (1 / 2) ≤ c.source src + c.source src * brick * (1 / 2)
      nlinarith
  · cases h

/-- the whole run of the (total) step function -/
def run : Renko → List (Candle ℚ) → List (Option RenkoOut) × Renko
  | s, [] => ([], s)
  | s, k :: ks => let r := s.next k; let rest := run r.2 ks; (r.1 :: rest.1, rest.2)

theorem run_length (s : Renko) (cs : List (Candle ℚ)) : (run s cs).1.length = cs.length := by
  induction cs generalizing s with
  | nil => rfl
  | cons k ks ih => simp [run, ih]

def emitted (o : Option RenkoOut) : ℚ := match o with | some o => o.totalVolume | none => 0

/-- one step from an invariant state on a candle with a positive source price: the invariant is kept, an output is
    emitted exactly when the price has reached one of the two next boundaries, it has at least one brick, and the volume
    emitted plus the volume still pending equals the pending volume before plus the candle's volume -/
theorem next_step (s : Renko) (c : Candle ℚ) (h : Inv s) (hpos : 0 < c.source s.src) :
    Inv (s.next c).2 ∧ (s.next c).2.src = s.src ∧
    ((s.next c).1.isSome ↔ (s.next_block_upper ≤ c.source s.src ∨ c.source s.src ≤ s.next_block_lower)) ∧
    (∀ o, (s.next c).1 = some o → 1 ≤ o.len ∧ o.brick_size ≠ 0) ∧
    emitted (s.next c).1 + (s.next c).2.volume = s.volume + c.volume := by
  by_cases hu : s.next_block_upper ≤ c.source s.src
  · obtain ⟨o, ho, h1, hlen, _, hbs, hinv, hvol, _, htot⟩ := next_up s c h hu
    refine ⟨hinv, ?_, ?_, ?_, ?_⟩
    · simp [Renko.next, hu]
    · rw [ho]; simp [hu]
    · intro o' ho'
      rw [ho] at ho'
      injection ho' with ho'
      subst ho'
      exact ⟨by rw [hlen]; exact h1, by rw [hbs]; exact ne_of_gt h.b_pos⟩
    · rw [ho, hvol]; simp [emitted, htot]
  · by_cases hl : c.source s.src ≤ s.next_block_lower
    · obtain ⟨o, ho, h1, hlen, _, hbs, _, _, _, hinv, hvol, htot⟩ := next_down s c h hu hl hpos
      refine ⟨hinv, ?_, ?_, ?_, ?_⟩
      · simp [Renko.next, hu, hl]
      · rw [ho]; simp [hl]
      · intro o' ho'
        rw [ho] at ho'
        injection ho' with ho'
        subst ho'
        exact ⟨by rw [hlen]; exact h1, by rw [hbs]; exact ne_of_lt (by linarith [h.b_pos])⟩
      · rw [ho, hvol]; simp [emitted, htot]
    · have e : s.next c = (none, { s with volume := s.volume + c.volume }) := by
        simp [Renko.next, hu, hl]
      rw [e]
      refine ⟨⟨h.b_pos, h.b_lt, h.ll_pos, h.le, h.nu, h.nl⟩, rfl, by simp [hu, hl], ?_, by simp [emitted]⟩
      intro o ho
      cases ho

/-- **C17 over whole streams**: from the constructor, on every stream of candles whose source price is positive, every
    emitted output has at least one brick, and the volume of everything emitted plus the volume still pending at the end
    is the volume of all candles consumed -/
theorem run_spec (eps brick : ℚ) (src : Source) (c0 : Candle ℚ) (s0 : Renko) (he : 0 < eps) (hc0 : 0 < c0.source src)
    (h0 : Renko.new eps brick src c0 = .ok s0) (cs : List (Candle ℚ)) (hcs : ∀ k ∈ cs, 0 < k.source src) :
    Inv (run s0 cs).2 ∧
    (∀ o ∈ (run s0 cs).1, ∀ r, o = some r → 1 ≤ r.len) ∧
    (((run s0 cs).1.map emitted).sum + (run s0 cs).2.volume = (cs.map (·.volume)).sum) := by
  obtain ⟨hinv, hv0, hs0⟩ := new_inv eps brick src c0 s0 he hc0 h0
  have key : ∀ (cs : List (Candle ℚ)) (s : Renko), Inv s → s.src = src → (∀ k ∈ cs, 0 < k.source src) →
      Inv (run s cs).2 ∧ (∀ o ∈ (run s cs).1, ∀ r, o = some r → 1 ≤ r.len) ∧
      (((run s cs).1.map emitted).sum + (run s cs).2.volume = s.volume + (cs.map (·.volume)).sum) := by
    intro cs
    induction cs with
    | nil => intro s hs _ _; exact ⟨hs, by simp [run], by simp [run]⟩
    | cons k ks ih =>
      intro s hs hsrc hk
      have hpos : 0 < k.source s.src := by rw [hsrc]; exact hk k (by simp)
      obtain ⟨hi', hsrc', _, hlen, hvol⟩ := next_step s k hs hpos
      obtain ⟨a, b, c⟩ := ih (s.next k).2 hi' (by rw [hsrc', hsrc]) (fun x hx => hk x (by simp [hx]))
      refine ⟨by simpa [run] using a, ?_, ?_⟩
      · intro o ho r hr
        simp only [run, List.mem_cons] at ho
        rcases ho with rfl | ho
        · exact (hlen r hr).1
        · exact b o ho r hr
      · simp only [run, List.map_cons, List.sum_cons]
        linarith
  obtain ⟨a, b, c⟩ := key cs s0 hinv hs0 hcs
  exact ⟨a, b, by rw [c, hv0]; ring⟩

end Renko
end Yata
