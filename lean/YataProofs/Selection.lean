/-
  Highest / Lowest: the cached extremum is numerically the maximum / minimum of the window,
  with ties, signed zeros (bit-equality ≠ numeric equality) and at the moment the extremum leaves.

  `FloatLike β K`: `β` are bit patterns, `num : β → K` their numeric value in a linear order;
  `<`/`≤` on `β` compare numerically, `bitEq` is reflexive and implies numeric equality (it does
  not follow from it: -0.0 and +0.0).
-/
import YataProofs.Window
import YataProofs.Runner
import YataModel.Methods.Basic
import Mathlib.Order.Defs.LinearOrder
import Mathlib.Order.Basic
import Mathlib.Tactic.Tauto
namespace Yata

class FloatLike (β : Type) (K : outParam Type) [LinearOrder K] extends LT β, LE β, BitEq β where
  num : β → K
  lt_iff : ∀ a b : β, a < b ↔ num a < num b
  le_iff : ∀ a b : β, a ≤ b ↔ num a ≤ num b
  bitEq_refl : ∀ a : β, bitEq a a = true
  bitEq_num : ∀ a b : β, bitEq a b = true → num a = num b

open FloatLike

variable {β K : Type} [LinearOrder K] [FloatLike β K] [DecidableLT β] [DecidableLE β] {P : Nat}

/-- `m` is (the bit pattern of) an element of `l` and numerically ≥ every element of `l` -/
def IsMaxOf (m : β) (l : List β) : Prop := m ∈ l ∧ ∀ x ∈ l, num x ≤ num m
def IsMinOf (m : β) (l : List β) : Prop := m ∈ l ∧ ∀ x ∈ l, num m ≤ num x

theorem smax_cases (a b : β) : (smax a b = a ∧ num b ≤ num a) ∨ (smax a b = b ∧ num a ≤ num b) := by
  unfold smax
  by_cases h : a < b
  · right; exact ⟨if_pos h, le_of_lt ((lt_iff a b).mp h)⟩
  · left; exact ⟨if_neg h, not_lt.mp (fun h' => h ((lt_iff a b).mpr h'))⟩

theorem smin_cases (a b : β) : (smin a b = a ∧ num a ≤ num b) ∨ (smin a b = b ∧ num b ≤ num a) := by
  unfold smin
  by_cases h : b < a
  · right; exact ⟨if_pos h, le_of_lt ((lt_iff b a).mp h)⟩
  · left; exact ⟨if_neg h, not_lt.mp (fun h' => h ((lt_iff b a).mpr h'))⟩

theorem foldMax_isMax (init : β) (l : List β) : IsMaxOf (foldMax init l) (init :: l) := by
  unfold foldMax
  induction l generalizing init with
  | nil => exact ⟨by simp, by simp⟩
  | cons y t ih =>
    simp only [List.foldl_cons]
    obtain ⟨hm, hle⟩ := ih (smax init y)
    rcases smax_cases init y with ⟨he, hn⟩ | ⟨he, hn⟩
    · rw [he] at hm hle ⊢
      refine ⟨?_, ?_⟩
      · rcases List.mem_cons.mp hm with h | h
        · rw [h]; simp
        · simp [h]
      · intro x hx
        rcases List.mem_cons.mp hx with h | h
        · rw [h]; exact hle init (by simp)
        · rcases List.mem_cons.mp h with h | h
          · rw [h]; exact le_trans hn (hle init (by simp))
          · exact hle x (by simp [h])
    · rw [he] at hm hle ⊢
      refine ⟨?_, ?_⟩
      · rcases List.mem_cons.mp hm with h | h
        · rw [h]; simp
        · simp [h]
      · intro x hx
        rcases List.mem_cons.mp hx with h | h
        · rw [h]; exact le_trans hn (hle y (by simp))
        · rcases List.mem_cons.mp h with h | h
          · rw [h]; exact hle y (by simp)
          · exact hle x (by simp [h])

theorem foldMin_isMin (init : β) (l : List β) : IsMinOf (foldMin init l) (init :: l) := by
  unfold foldMin
  induction l generalizing init with
  | nil => exact ⟨by simp, by simp⟩
  | cons y t ih =>
    simp only [List.foldl_cons]
    obtain ⟨hm, hle⟩ := ih (smin init y)
    rcases smin_cases init y with ⟨he, hn⟩ | ⟨he, hn⟩
    · rw [he] at hm hle ⊢
      refine ⟨?_, ?_⟩
      · rcases List.mem_cons.mp hm with h | h
        · rw [h]; simp
        · simp [h]
      · intro x hx
        rcases List.mem_cons.mp hx with h | h
        · rw [h]; exact hle init (by simp)
        · rcases List.mem_cons.mp h with h | h
          · rw [h]; exact le_trans (hle init (by simp)) hn
          · exact hle x (by simp [h])
    · rw [he] at hm hle ⊢
      refine ⟨?_, ?_⟩
      · rcases List.mem_cons.mp hm with h | h
        · rw [h]; simp
        · simp [h]
      · intro x hx
        rcases List.mem_cons.mp hx with h | h
        · rw [h]; exact le_trans (hle y (by simp)) hn
        · rcases List.mem_cons.mp h with h | h
          · rw [h]; exact hle y (by simp)
          · exact hle x (by simp [h])

/-- `window.iter()` yields exactly the window's elements -/
theorem iterAll_spec {w : Window β} (h : Window.Inv P w) : Window.iterAll w = .ok (Window.toList w).reverse := by
  have := Window.iterCollect_spec h (w.size + 1) (Window.iterStart w) 0 (Window.iterStart_inv w) (by omega)
  simpa [Window.iterAll] using this

theorem IsMaxOf.congr {m : β} {l l' : List β} (h : IsMaxOf m l) (hp : ∀ x, x ∈ l ↔ x ∈ l') : IsMaxOf m l' :=
  ⟨(hp m).mp h.1, fun x hx => h.2 x ((hp x).mpr hx)⟩
theorem IsMinOf.congr {m : β} {l l' : List β} (h : IsMinOf m l) (hp : ∀ x, x ∈ l ↔ x ∈ l') : IsMinOf m l' :=
  ⟨(hp m).mp h.1, fun x hx => h.2 x ((hp x).mpr hx)⟩

namespace Highest

structure Inv (P : Nat) (s : Highest β) : Prop where
  winv : Window.Inv P s.window
  pos : 0 < s.window.size
  isMax : IsMaxOf s.value (Window.toList s.window)

theorem next_spec {s : Highest β} (x : β) (h : Inv P s) :
    ∃ o s', s.next x = .ok (o, s') ∧ Inv P s' ∧ o = s'.value ∧
      Window.toList s'.window = (Window.toList s.window).tail ++ [x] := by
  obtain ⟨old, w', hp, hinv', hsz, hhead, htl⟩ := Window.push_spec x h.winv h.pos
  obtain ⟨a, t, hat⟩ := List.exists_cons_of_ne_nil (Window.toList_ne_nil h.winv h.pos)
  rw [hat] at hhead htl
  simp only [List.head?_cons, Option.some.injEq] at hhead
  subst hhead
  simp only [List.tail_cons] at htl
  obtain ⟨hmem, hmax⟩ := h.isMax
  rw [hat] at hmem hmax
  unfold Highest.next
  simp only [hp]
  by_cases hge : s.value ≤ x
  · -- the new value is (numerically) at least the cached one: it becomes the newest maximum
    refine ⟨x, ⟨x, w'⟩, by simp [hge], ⟨hinv', by show 0 < w'.size; rw [hsz]; exact h.pos, ?_⟩, rfl, by rw [htl, hat]; rfl⟩
    refine ⟨by rw [htl]; simp, ?_⟩
    intro y hy
    rw [htl] at hy
    rcases List.mem_append.mp hy with hy | hy
    · exact le_trans (hmax y (by simp [hy])) ((le_iff _ _).mp hge)
    · simp at hy; rw [hy]
  · by_cases hbe : bitEq a s.value = true
    · -- the leaving element carries the cached bits: rescan the window
      have hit := iterAll_spec hinv'
      refine ⟨foldMax x (Window.toList w').reverse, ⟨foldMax x (Window.toList w').reverse, w'⟩,
        by simp [hge, hbe, hit], ⟨hinv', by show 0 < w'.size; rw [hsz]; exact h.pos, ?_⟩, rfl, by rw [htl, hat]; rfl⟩
      have hm := foldMax_isMax x (Window.toList w').reverse
      apply hm.congr
      intro y
      rw [htl]
      simp only [List.mem_cons, List.mem_reverse, List.mem_append, List.mem_singleton]
      tauto
    · -- cached value stays: it is still in the window, because the leaving element is not it
      refine ⟨s.value, ⟨s.value, w'⟩, by simp [hge, hbe], ⟨hinv', by show 0 < w'.size; rw [hsz]; exact h.pos, ?_⟩, rfl, by rw [htl, hat]; rfl⟩
      have hne : s.value ≠ a := by
        intro he; apply hbe; rw [← he]; exact bitEq_refl _
      have hin : s.value ∈ t := by
        rcases List.mem_cons.mp hmem with h1 | h1
        · exact absurd h1 hne
        · exact h1
      refine ⟨by rw [htl]; simp [hin], ?_⟩
      intro y hy
      rw [htl] at hy
      rcases List.mem_append.mp hy with hy | hy
      · exact hmax y (by simp [hy])
      · simp at hy; rw [hy]
        exact le_of_lt (not_le.mp (fun h' => hge ((le_iff _ _).mpr h')))

theorem new_spec {n : Nat} (v : β) (hn0 : 0 < n) (hn : n ≤ P - 1) :
    ∃ s, Highest.new P n v = .ok s ∧ Inv P s ∧ Window.toList s.window = List.replicate n v := by
  have hnP : n ≠ P := by omega
  obtain ⟨w, hw, hinv, htl, hsz⟩ := Window.new_ok (P := P) v hn
  refine ⟨⟨v, w⟩, by simp [Highest.new, Nat.pos_iff_ne_zero.mp hn0, hnP, hw, Res.ofExcept, Res.bind],
    ⟨hinv, by show 0 < w.size; omega, ?_⟩, htl⟩
  rw [htl]
  refine ⟨?_, ?_⟩
  · cases n with
    | zero => omega
    | succ m => simp [List.replicate_succ]
  · intro y hy; rw [List.eq_of_mem_replicate hy]

end Highest

namespace Lowest

structure Inv (P : Nat) (s : Lowest β) : Prop where
  winv : Window.Inv P s.window
  pos : 0 < s.window.size
  isMin : IsMinOf s.value (Window.toList s.window)

theorem next_spec {s : Lowest β} (x : β) (h : Inv P s) :
    ∃ o s', s.next x = .ok (o, s') ∧ Inv P s' ∧ o = s'.value ∧
      Window.toList s'.window = (Window.toList s.window).tail ++ [x] := by
  obtain ⟨old, w', hp, hinv', hsz, hhead, htl⟩ := Window.push_spec x h.winv h.pos
  obtain ⟨a, t, hat⟩ := List.exists_cons_of_ne_nil (Window.toList_ne_nil h.winv h.pos)
  rw [hat] at hhead htl
  simp only [List.head?_cons, Option.some.injEq] at hhead
  subst hhead
  simp only [List.tail_cons] at htl
  obtain ⟨hmem, hmin⟩ := h.isMin
  rw [hat] at hmem hmin
  unfold Lowest.next
  simp only [hp]
  by_cases hge : x ≤ s.value
  · refine ⟨x, ⟨x, w'⟩, by simp [hge], ⟨hinv', by show 0 < w'.size; rw [hsz]; exact h.pos, ?_⟩, rfl, by rw [htl, hat]; rfl⟩
    refine ⟨by rw [htl]; simp, ?_⟩
    intro y hy
    rw [htl] at hy
    rcases List.mem_append.mp hy with hy | hy
    · exact le_trans ((le_iff _ _).mp hge) (hmin y (by simp [hy]))
    · simp at hy; rw [hy]
  · by_cases hbe : bitEq a s.value = true
    · have hit := iterAll_spec hinv'
      refine ⟨foldMin x (Window.toList w').reverse, ⟨foldMin x (Window.toList w').reverse, w'⟩,
        by simp [hge, hbe, hit], ⟨hinv', by show 0 < w'.size; rw [hsz]; exact h.pos, ?_⟩, rfl, by rw [htl, hat]; rfl⟩
      have hm := foldMin_isMin x (Window.toList w').reverse
      apply hm.congr
      intro y
      rw [htl]
      simp only [List.mem_cons, List.mem_reverse, List.mem_append, List.mem_singleton]
      tauto
    · refine ⟨s.value, ⟨s.value, w'⟩, by simp [hge, hbe], ⟨hinv', by show 0 < w'.size; rw [hsz]; exact h.pos, ?_⟩, rfl, by rw [htl, hat]; rfl⟩
      have hne : s.value ≠ a := by
        intro he; apply hbe; rw [← he]; exact bitEq_refl _
      have hin : s.value ∈ t := by
        rcases List.mem_cons.mp hmem with h1 | h1
        · exact absurd h1 hne
        · exact h1
      refine ⟨by rw [htl]; simp [hin], ?_⟩
      intro y hy
      rw [htl] at hy
      rcases List.mem_append.mp hy with hy | hy
      · exact hmin y (by simp [hy])
      · simp at hy; rw [hy]
        exact le_of_lt (not_le.mp (fun h' => hge ((le_iff _ _).mpr h')))

theorem new_spec {n : Nat} (v : β) (hn0 : 0 < n) (hn : n ≤ P - 1) :
    ∃ s, Lowest.new P n v = .ok s ∧ Inv P s ∧ Window.toList s.window = List.replicate n v := by
  have hnP : n ≠ P := by omega
  obtain ⟨w, hw, hinv, htl, hsz⟩ := Window.new_ok (P := P) v hn
  refine ⟨⟨v, w⟩, by simp [Lowest.new, Nat.pos_iff_ne_zero.mp hn0, hnP, hw, Res.ofExcept, Res.bind],
    ⟨hinv, by show 0 < w.size; omega, ?_⟩, htl⟩
  rw [htl]
  refine ⟨?_, ?_⟩
  · cases n with
    | zero => omega
    | succ m => simp [List.replicate_succ]
  · intro y hy; rw [List.eq_of_mem_replicate hy]

end Lowest

end Yata
