import YataProofs.Action
import Mathlib.Tactic.Linarith
import Mathlib.Data.Rat.Floor
namespace Yata
open Action

theorem ratio0_buy_sat (v : Nat) : (if v = BOUND then buyAll else buy v).ratio0 = (v : ℚ) / 255 := by
  split
  · rename_i h; subst h; simp [ratio0, ratio, buyAll]
  · simp [ratio0, ratio]

theorem ratio0_sell_sat (v : Nat) : (if v = BOUND then sellAll else sell v).ratio0 = -((v : ℚ) / 255) := by
  split
  · rename_i h; subst h; simp [ratio0, ratio, sellAll]; ring
  · simp [ratio0, ratio]; ring

/-- ratio of `ofRatWith`: ±(strength)/255 whatever the saturation branch -/
theorem ofRatWith_ratio0 (rne : Rat → Rat) (neg : Bool) (q : Rat) :
    (ofRatWith rne neg q).ratio0 =
      (if neg then -1 else 1) *
        ((roundHalfAway (rne ((if (if q < -1 then (-1 : ℚ) else if q > 1 then 1 else q) < 0
            then -(if q < -1 then (-1 : ℚ) else if q > 1 then 1 else q)
            else (if q < -1 then (-1 : ℚ) else if q > 1 then 1 else q)) * 255)) : ℚ) / 255) := by
  unfold ofRatWith
  cases neg
  · simp only [Bool.false_eq_true, if_false]
    rw [ratio0_buy_sat]; ring
  · simp only [if_true]
    rw [ratio0_sell_sat]; ring

theorem roundHalfAway_mono {a b : ℚ} (h : a ≤ b) : roundHalfAway a ≤ roundHalfAway b := by
  unfold roundHalfAway
  apply Int.toNat_le_toNat
  exact Rat.floor_monotone (by linarith)

/-- C16 (monotone): with any monotone rounding of the product (IEEE round-to-nearest is one), a larger input never gives
    an action of smaller ratio.  The sign bit is the sign of the number (`q < 0`; −0.0 and +0.0 both have ratio 0). -/
theorem ofRatWith_mono (rne : Rat → Rat) (hm : ∀ a b : ℚ, a ≤ b → rne a ≤ rne b) (q1 q2 : ℚ) (h : q1 ≤ q2) :
    (ofRatWith rne (decide (q1 < 0)) q1).ratio0 ≤ (ofRatWith rne (decide (q2 < 0)) q2).ratio0 := by
  rw [ofRatWith_ratio0, ofRatWith_ratio0]
  set c1 : ℚ := if q1 < -1 then (-1 : ℚ) else if q1 > 1 then 1 else q1 with hc1
  set c2 : ℚ := if q2 < -1 then (-1 : ℚ) else if q2 > 1 then 1 else q2 with hc2
  have hc : c1 ≤ c2 := by
    rw [hc1, hc2]; split_ifs <;> linarith
  have s1 : (c1 < 0) ↔ (q1 < 0) := by rw [hc1]; split_ifs <;> constructor <;> intro <;> linarith
  have s2 : (c2 < 0) ↔ (q2 < 0) := by rw [hc2]; split_ifs <;> constructor <;> intro <;> linarith
  have nn : ∀ x : ℚ, (0 : ℚ) ≤ ((roundHalfAway x : Nat) : ℚ) / 255 := fun x => by positivity
  by_cases h1 : q1 < 0
  · by_cases h2 : q2 < 0
    · -- both negative: |c1| ≥ |c2|
      simp only [h1, h2, decide_true, if_true, s1.mpr h1, s2.mpr h2]
      have : roundHalfAway (rne (-c2 * 255)) ≤ roundHalfAway (rne (-c1 * 255)) :=
        roundHalfAway_mono (hm _ _ (by linarith))
      have : ((roundHalfAway (rne (-c2 * 255)) : Nat) : ℚ) ≤ ((roundHalfAway (rne (-c1 * 255)) : Nat) : ℚ) := by exact_mod_cast this
      have h255 : (0 : ℚ) < 255 := by norm_num
      have := div_le_div_of_nonneg_right this (le_of_lt h255)
      linarith
    · simp only [h1, h2, decide_true, decide_false, if_true, Bool.false_eq_true, if_false]
      have a := nn (rne ((if c1 < 0 then -c1 else c1) * 255))
      have b := nn (rne ((if c2 < 0 then -c2 else c2) * 255))
      linarith
  · have h2 : ¬ q2 < 0 := by intro; apply h1; linarith
    simp only [h1, h2, decide_false, Bool.false_eq_true, if_false, (not_congr s1).mpr h1, (not_congr s2).mpr h2, one_mul]
    have : roundHalfAway (rne (c1 * 255)) ≤ roundHalfAway (rne (c2 * 255)) :=
      roundHalfAway_mono (hm _ _ (by linarith))
    have : ((roundHalfAway (rne (c1 * 255)) : Nat) : ℚ) ≤ ((roundHalfAway (rne (c2 * 255)) : Nat) : ℚ) := by exact_mod_cast this
    exact div_le_div_of_nonneg_right this (by norm_num)

end Yata
