/-
  Refinement of the concrete ring buffer to the abstract FIFO `toList` (oldest first).
-/
import YataModel.Window
namespace Yata
namespace Window
variable {α : Type} {P : Nat}

theorem toList_length (w : Window α) (h : w.index ≤ w.buf.length) :
    (toList w).length = w.buf.length := by
  simp [toList]; omega

theorem Inv.index_le {w : Window α} (h : Inv P w) : w.index ≤ w.buf.length := by
  have := h.size_eq; have := h.idx_lt; omega

theorem Inv.toList_length {w : Window α} (h : Inv P w) : (toList w).length = w.size := by
  rw [Window.toList_length w h.index_le, h.size_eq]

/-! ### constructors -/

theorem new_ok {size : Nat} (v : α) (h : size ≤ P - 1) :
    ∃ w, new P size v = .ok w ∧ Inv P w ∧ toList w = List.replicate size v ∧ w.size = size := by
  refine ⟨{ buf := List.replicate size v, index := 0, size := size, s_1 := satSub size 1 },
    by simp [new, h], ⟨by simp, by simp [satSub], ?_, by simpa using h⟩, by simp [toList], rfl⟩
  simp; omega

theorem new_err {size : Nat} (v : α) (h : ¬ size ≤ P - 1) : new P size v = .error .assertFailed := by
  simp [new, h]

theorem empty_inv : Inv P (empty : Window α) := ⟨rfl, rfl, Or.inr ⟨rfl, rfl⟩, Nat.zero_le _⟩

theorem empty_toList : toList (empty : Window α) = [] := rfl

theorem fromParts_ok (slice : List α) (index : Nat) (h1 : slice.length < P)
    (h2 : index < slice.length ∨ (slice = [] ∧ index = 0)) :
    ∃ w, fromParts P slice index = .ok w ∧ Inv P w ∧
      toList w = slice.drop index ++ slice.take index ∧ w.buf = slice ∧ w.index = index := by
  have h2' : slice.length > index ∨ (slice.isEmpty = true ∧ index = 0) := by
    rcases h2 with h | ⟨h, h'⟩
    · exact Or.inl h
    · exact Or.inr ⟨by simp [h], h'⟩
  refine ⟨{ buf := slice, index := index, size := slice.length, s_1 := satSub slice.length 1 },
    by simp only [fromParts, h1, not_true_eq_false, ↓reduceIte, h2'], ⟨rfl, by simp [satSub], ?_, ?_⟩, rfl, rfl, rfl⟩
  · rcases h2 with h | ⟨h, h'⟩
    · exact Or.inl h
    · exact Or.inr ⟨by simp [h], h'⟩
  · simp; omega

theorem fromParts_err (slice : List α) (index : Nat)
    (h : ¬ (slice.length < P ∧ (index < slice.length ∨ (slice = [] ∧ index = 0)))) :
    fromParts P slice index = .error .assertFailed := by
  unfold fromParts
  by_cases h1 : slice.length < P
  · have : ¬ (slice.length > index ∨ (slice.isEmpty = true ∧ index = 0)) := by
      intro h2
      apply h
      refine ⟨h1, ?_⟩
      rcases h2 with h2 | ⟨h2, h3⟩
      · exact Or.inl h2
      · exact Or.inr ⟨by simpa [List.isEmpty_iff] using h2, h3⟩
    simp only [h1, not_true_eq_false, ↓reduceIte, this, not_false_eq_true]
  · simp [h1]

/-! ### push -/

theorem toList_ne_nil {w : Window α} (h : Inv P w) (hpos : 0 < w.size) : toList w ≠ [] := by
  intro hn
  have := h.toList_length
  rw [hn] at this; simp at this; omega

theorem push_spec {w : Window α} (x : α) (h : Inv P w) (hpos : 0 < w.size) :
    ∃ old w', push w x = .ok (old, w') ∧ Inv P w' ∧ w'.size = w.size ∧
      (toList w).head? = some old ∧ toList w' = (toList w).tail ++ [x] := by
  obtain ⟨hs, hs1, hi, hle⟩ := h
  have hi' : w.index < w.buf.length := by omega
  have hne : w.buf.isEmpty = false := by
    cases hb : w.buf with
    | nil => simp [hb] at hi'
    | cons a l => rfl
  have hget : w.buf[w.index]? = some w.buf[w.index] := List.getElem?_eq_getElem hi'
  refine ⟨w.buf[w.index], ⟨w.buf.set w.index x,
      (if w.index ≠ w.s_1 then 1 else 0) * (w.index + 1), w.size, w.s_1⟩,
    by simp [push, hne, hget], ?_, rfl, ?_, ?_⟩
  · refine ⟨by simp [hs], hs1, ?_, hle⟩
    by_cases hc : w.index = w.s_1
    · simp [hc]; omega
    · simp [hc]; omega
  · simp [toList, List.head?_append, List.head?_drop, hget]
  · by_cases hc : w.index = w.s_1
    · -- wrap: index = n-1, new index = 0
      have hidx : w.index + 1 = w.buf.length := by omega
      simp only [toList, hc, ne_eq, not_true_eq_false, ↓reduceIte, Nat.zero_mul,
        List.drop_zero, List.take_zero, List.append_nil]
      rw [← hc]
      have h1 : w.buf.drop w.index = [w.buf[w.index]] := by
        rw [List.drop_eq_getElem_cons hi']
        simp [hidx]
      rw [h1]
      simp only [List.singleton_append, List.tail_cons]
      rw [List.set_eq_take_append_cons_drop, if_pos hi']
      simp [hidx]
    · have hlt : w.index + 1 < w.buf.length := by omega
      simp only [toList, ne_eq, hc, not_false_eq_true, ↓reduceIte, Nat.one_mul]
      rw [List.drop_set_of_lt (Nat.lt_succ_self _), List.take_add_one,
        List.take_set_of_le (Nat.le_refl _), List.getElem?_set_self hi',
        List.drop_eq_getElem_cons hi']
      simp only [Option.toList_some, List.cons_append, List.tail_cons, List.append_assoc]

/-- Any number of pushes: the evicted elements are the first `|xs|` elements of
    `contents ++ xs`, what remains are the last `n`. -/
theorem pushAll_spec {w : Window α} (h : Inv P w) (hpos : 0 < w.size) (xs : List α) :
    ∃ w', pushAll w xs = .ok ((toList w ++ xs).take xs.length, w') ∧ Inv P w' ∧ w'.size = w.size ∧
      toList w' = (toList w ++ xs).drop xs.length := by
  induction xs generalizing w with
  | nil => exact ⟨w, by simp [pushAll], h, rfl, by simp⟩
  | cons x xs ih =>
    obtain ⟨old, w1, hp, hinv1, hsz1, hhead, htl⟩ := push_spec x h hpos
    obtain ⟨w2, hp2, hinv2, hsz2, htl2⟩ := ih hinv1 (by omega)
    have hne := toList_ne_nil h hpos
    obtain ⟨a, l, hal⟩ := List.exists_cons_of_ne_nil hne
    rw [hal] at hhead htl
    simp only [List.head?_cons, Option.some.injEq] at hhead
    subst hhead
    simp only [List.tail_cons] at htl
    refine ⟨w2, ?_, hinv2, by omega, ?_⟩
    · simp only [pushAll, hp, hp2, htl, hal]
      simp
    · rw [htl2, htl, hal]; simp

theorem lastN_append_of_length {l xs : List α} {n : Nat} (h : l.length = n) :
    lastN n (l ++ xs) = (l ++ xs).drop xs.length := by
  unfold lastN; congr 1; simp; omega

/-- C01 headline: a window built with `new n v` and fed `xs` holds exactly the last `n`
    elements of `replicate n v ++ xs`, and the pushes returned the first `|xs|` of them
    (the value pushed `n` steps earlier). -/
theorem new_pushAll_spec {n : Nat} (v : α) (hn : n ≤ P - 1) (hpos : 0 < n) (xs : List α) :
    ∃ w0 w', new P n v = .ok w0 ∧
      pushAll w0 xs = .ok ((history n v xs).take xs.length, w') ∧ Inv P w' ∧ w'.size = n ∧
      toList w' = lastN n (history n v xs) := by
  obtain ⟨w0, hnew, hinv, htl, hsz⟩ := new_ok (P := P) v hn
  obtain ⟨w', hp, hinv', hsz', htl'⟩ := pushAll_spec hinv (by omega) xs
  refine ⟨w0, w', hnew, ?_, hinv', by omega, ?_⟩
  · rw [hp, htl]; rfl
  · rw [htl', htl, history, lastN_append_of_length (by simp)]

/-! ### element access -/

theorem toList_getElem? {w : Window α} (h : Inv P w) (j : Nat) (hj : j < w.size) :
    (toList w)[j]? = w.buf[if w.index + j < w.size then w.index + j else w.index + j - w.size]? := by
  obtain ⟨hs, hs1, hi, hle⟩ := h
  have hi' : w.index < w.buf.length := by omega
  unfold toList
  by_cases hc : w.index + j < w.size
  · rw [if_pos hc, List.getElem?_append_left (by simp; omega), List.getElem?_drop]
  · rw [if_neg hc, List.getElem?_append_right (by simp; omega), List.getElem?_take]
    simp only [List.length_drop]
    have : j - (w.buf.length - w.index) = w.index + j - w.size := by omega
    rw [this, if_pos (by omega)]

theorem oldest_spec {w : Window α} (h : Inv P w) (hpos : 0 < w.size) :
    ∃ v, oldest w = .ok v ∧ (toList w).head? = some v := by
  have hi' : w.index < w.buf.length := by have := h.size_eq; have := h.idx_lt; omega
  refine ⟨w.buf[w.index], by simp [oldest, List.getElem?_eq_getElem hi'], ?_⟩
  simp [toList, List.head?_append, List.head?_drop, List.getElem?_eq_getElem hi']

theorem newest_spec {w : Window α} (h : Inv P w) (hpos : 0 < w.size) :
    ∃ v, newest w = .ok v ∧ (toList w).getLast? = some v := by
  have hlen := h.toList_length
  have hg := toList_getElem? h (w.size - 1) (by omega)
  obtain ⟨hs, hs1, hi, hle⟩ := h
  have hi' : w.index < w.buf.length := by omega
  rw [List.getLast?_eq_getElem?, hlen, hg]
  unfold newest checkedSub
  by_cases h0 : 1 ≤ w.index
  · have e : (if w.index + (w.size - 1) < w.size then w.index + (w.size - 1)
        else w.index + (w.size - 1) - w.size) = w.index - 1 := by
      rw [if_neg (by omega)]; omega
    have hb : w.index - 1 < w.buf.length := by omega
    simp only [h0, ↓reduceIte, Option.getD_some, e, List.getElem?_eq_getElem hb]
    exact ⟨_, rfl, rfl⟩
  · have e : (if w.index + (w.size - 1) < w.size then w.index + (w.size - 1)
        else w.index + (w.size - 1) - w.size) = w.s_1 := by
      rw [if_pos (by omega)]; omega
    have hb : w.s_1 < w.buf.length := by omega
    simp only [h0, ↓reduceIte, Option.getD_none, e, List.getElem?_eq_getElem hb]
    exact ⟨_, rfl, rfl⟩

theorem sliceIndex_spec {w : Window α} (h : Inv P w) (k : Nat) (hk : k < w.size) :
    sliceIndex P w k = .ok (some (if w.index + (w.size - 1 - k) < w.size
      then w.index + (w.size - 1 - k) else w.index + (w.size - 1 - k) - w.size)) := by
  obtain ⟨hs, hs1, hi, hle⟩ := h
  have h1 : k ≤ w.s_1 := by omega
  have h2 : w.index ≤ w.size := by omega
  have hj : w.s_1 - k = w.size - 1 - k := by omega
  generalize hjj : w.size - 1 - k = j at *
  have hjlt : j < w.size := by omega
  unfold sliceIndex checkedSub chkSub satAdd satSub
  simp only [h1, ↓reduceIte, h2, hj]
  by_cases hc : w.index + j < w.size
  · have hp : w.index + j ≤ P := by omega
    have hn : ¬ (w.index + j ≥ w.size) := by omega
    simp only [hp, ↓reduceIte, hn, hc, Nat.zero_mul, Nat.zero_add, Nat.sub_zero, Nat.one_mul]
  · by_cases hp : w.index + j ≤ P
    · have hn : w.index + j ≥ w.size := by omega
      simp only [hp, ↓reduceIte, hn, hc, Nat.one_mul, Nat.sub_self, Nat.zero_mul, Nat.add_zero]
      congr 2; omega
    · have hn : P ≥ w.size := by omega
      simp only [hp, ↓reduceIte, hn, hc, Nat.one_mul, Nat.sub_self, Nat.zero_mul, Nat.add_zero]
      congr 2; omega

theorem sliceIndex_none {w : Window α} (h : Inv P w) (k : Nat) (hk : ¬ k < w.size) (hpos : 0 < w.size) :
    sliceIndex P w k = .ok none := by
  have : ¬ k ≤ w.s_1 := by have := h.s1_eq; omega
  simp [sliceIndex, checkedSub, this]

/-- `get k` reads the k-th newest element; outside `0..n` it is `none`. -/
theorem get_spec {w : Window α} (h : Inv P w) (k : Nat) :
    get P w k = .ok ((toList w).reverse[k]?) := by
  have hlen := h.toList_length
  by_cases hk : k < w.size
  · have hg := toList_getElem? h (w.size - 1 - k) (by omega)
    rw [List.getElem?_reverse (by omega), hlen, hg]
    simp only [get, sliceIndex_spec h k hk]
  · have hnone : (toList w).reverse[k]? = none := by
      rw [List.getElem?_eq_none]; simp; omega
    rw [hnone]
    by_cases h0 : w.size = 0
    · -- empty window: s_1 = 0; k = 0 gives buffer index 0 of an empty buffer
      obtain ⟨hs, hs1, hi, hle⟩ := h
      have hb : w.buf = [] := List.eq_nil_of_length_eq_zero (by omega)
      have hi0 : w.index = 0 := by omega
      unfold get sliceIndex checkedSub
      by_cases hk0 : k = 0
      · simp [hs1, h0, hk0, hi0, satAdd, chkSub, satSub, hb]
      · simp [hs1, h0, hk0]
    · simp only [get, sliceIndex_none h k hk (by omega)]

/-- `w[k]`: the same element, and a panic exactly outside `0..n`. -/
theorem idx_spec {w : Window α} (h : Inv P w) (k : Nat) :
    idx P w k = match (toList w).reverse[k]? with
      | some v => .ok v
      | none => .error .indexOOB := by
  have hg := get_spec h k
  unfold get at hg
  unfold idx
  cases hs : sliceIndex P w k with
  | error e => simp [hs] at hg
  | ok o =>
    cases o with
    | none =>
      simp only [hs, Except.ok.injEq] at hg
      simp only [← hg]
    | some bi =>
      simp only [hs, Except.ok.injEq] at hg
      simp only [← hg]
      cases w.buf[bi]? <;> rfl

/-! ### iterators -/

/-- cursor state of `iter()` after `j` successful `next` calls -/
def IterInv (w : Window α) (it : Iter) (j : Nat) : Prop :=
  j ≤ w.size ∧ it.size = w.size - j ∧
    it.index = (if j ≤ w.index then w.index - j else w.index + w.size - j)

/-- cursor state of `iter_rev()` after `j` successful `next` calls -/
def IterRevInv (w : Window α) (it : Iter) (j : Nat) : Prop :=
  j ≤ w.size ∧ it.size = w.size - j ∧
    it.index = (if w.index + j < w.size then w.index + j else w.index + j - w.size)

theorem iterStart_inv (w : Window α) : IterInv w (iterStart w) 0 := by
  refine ⟨Nat.zero_le _, rfl, ?_⟩
  simp [iterStart]

theorem iterStart_revInv {w : Window α} (h : Inv P w) : IterRevInv w (iterStart w) 0 := by
  refine ⟨Nat.zero_le _, rfl, ?_⟩
  have := h.idx_lt
  simp only [iterStart, Nat.add_zero]
  split <;> omega

theorem iterNext_done {w : Window α} {it : Iter} (hit : IterInv w it w.size) :
    iterNext w it = .ok none := by
  have : it.size = 0 := by have := hit.2.1; omega
  simp [iterNext, this]

theorem iterRevNext_done {w : Window α} {it : Iter} (hit : IterRevInv w it w.size) :
    iterRevNext w it = .ok none := by
  have : it.size = 0 := by have := hit.2.1; omega
  simp [iterRevNext, this]

theorem iterNext_spec {w : Window α} {it : Iter} {j : Nat} (h : Inv P w) (hit : IterInv w it j)
    (hj : j < w.size) :
    ∃ v it', iterNext w it = .ok (some (v, it')) ∧ (toList w).reverse[j]? = some v ∧
      IterInv w it' (j + 1) := by
  have hlen := h.toList_length
  have hg := toList_getElem? h (w.size - 1 - j) (by omega)
  obtain ⟨hs, hs1, hi, hle⟩ := h
  obtain ⟨hjle, hsz, hix⟩ := hit
  have hnz : ¬ it.size = 0 := by omega
  -- the new cursor index
  have hnew : satSub it.index 1 + (if it.index = 0 then 1 else 0) * w.s_1 =
      (if j + 1 ≤ w.index then w.index - (j + 1) else w.index + w.size - (j + 1)) := by
    unfold satSub
    by_cases h0 : it.index = 0
    · rw [if_pos h0, h0]; split at hix <;> split <;> omega
    · rw [if_neg h0]; split at hix <;> split <;> omega
  have hval : (if w.index + (w.size - 1 - j) < w.size then w.index + (w.size - 1 - j)
      else w.index + (w.size - 1 - j) - w.size) =
      (if j + 1 ≤ w.index then w.index - (j + 1) else w.index + w.size - (j + 1)) := by
    split <;> split <;> omega
  have hb : (if j + 1 ≤ w.index then w.index - (j + 1) else w.index + w.size - (j + 1))
      < w.buf.length := by split <;> omega
  rw [List.getElem?_reverse (by omega), hlen, hg, hval]
  refine ⟨w.buf[(if j + 1 ≤ w.index then w.index - (j + 1) else w.index + w.size - (j + 1))],
    ⟨(if j + 1 ≤ w.index then w.index - (j + 1) else w.index + w.size - (j + 1)), it.size - 1⟩,
    ?_, List.getElem?_eq_getElem hb, ⟨by omega, by simp; omega, rfl⟩⟩
  simp only [iterNext, hnz, ↓reduceIte, hnew, List.getElem?_eq_getElem hb]

theorem iterRevNext_spec {w : Window α} {it : Iter} {j : Nat} (h : Inv P w) (hit : IterRevInv w it j)
    (hj : j < w.size) :
    ∃ v it', iterRevNext w it = .ok (some (v, it')) ∧ (toList w)[j]? = some v ∧
      IterRevInv w it' (j + 1) := by
  have hg := toList_getElem? h j hj
  obtain ⟨hs, hs1, hi, hle⟩ := h
  obtain ⟨hjle, hsz, hix⟩ := hit
  have hnz : ¬ it.size = 0 := by omega
  have hb : it.index < w.buf.length := by rw [hix]; split <;> omega
  have hnew : (it.index + 1) * (if it.index ≠ w.s_1 then 1 else 0) =
      (if w.index + (j + 1) < w.size then w.index + (j + 1) else w.index + (j + 1) - w.size) := by
    by_cases h0 : it.index = w.s_1
    · rw [if_neg (by simpa using h0)]; split at hix <;> split <;> omega
    · rw [if_pos h0]; split at hix <;> split <;> omega
  rw [hg, ← hix]
  refine ⟨w.buf[it.index], ⟨(if w.index + (j + 1) < w.size then w.index + (j + 1)
      else w.index + (j + 1) - w.size), it.size - 1⟩, ?_, List.getElem?_eq_getElem hb,
    ⟨by omega, by simp; omega, rfl⟩⟩
  simp only [iterRevNext, hnz, ↓reduceIte, hnew, List.getElem?_eq_getElem hb]

/-- running `iter()` from a cursor that has consumed `j` items yields the rest of the
    newest→oldest sequence -/
theorem iterCollect_spec {w : Window α} (h : Inv P w) :
    ∀ (fuel : Nat) (it : Iter) (j : Nat), IterInv w it j → w.size - j ≤ fuel →
      iterCollect w fuel it = .ok ((toList w).reverse.drop j) := by
  have hlen := h.toList_length
  intro fuel
  induction fuel with
  | zero =>
    intro it j hit hf
    have : j = w.size := by have := hit.1; omega
    simp [iterCollect, this, ← hlen]
  | succ f ih =>
    intro it j hit hf
    by_cases hj : j < w.size
    · obtain ⟨v, it', hn, hv, hit'⟩ := iterNext_spec h hit hj
      have hjl : j < (toList w).reverse.length := by simp; omega
      rw [List.getElem?_eq_getElem hjl] at hv
      simp only [iterCollect, hn, ih it' (j + 1) hit' (by omega)]
      rw [List.drop_eq_getElem_cons hjl]
      simp only [Option.some.injEq] at hv
      rw [hv]
    · have hje : j = w.size := by have := hit.1; omega
      subst hje
      simp [iterCollect, iterNext_done hit, ← hlen]

theorem iterRevCollect_spec {w : Window α} (h : Inv P w) :
    ∀ (fuel : Nat) (it : Iter) (j : Nat), IterRevInv w it j → w.size - j ≤ fuel →
      iterRevCollect w fuel it = .ok ((toList w).drop j) := by
  have hlen := h.toList_length
  intro fuel
  induction fuel with
  | zero =>
    intro it j hit hf
    have : j = w.size := by have := hit.1; omega
    simp [iterRevCollect, this, ← hlen]
  | succ f ih =>
    intro it j hit hf
    by_cases hj : j < w.size
    · obtain ⟨v, it', hn, hv, hit'⟩ := iterRevNext_spec h hit hj
      have hjl : j < (toList w).length := by omega
      rw [List.getElem?_eq_getElem hjl] at hv
      simp only [iterRevCollect, hn, ih it' (j + 1) hit' (by omega)]
      rw [List.drop_eq_getElem_cons hjl]
      simp only [Option.some.injEq] at hv
      rw [hv]
    · have hje : j = w.size := by have := hit.1; omega
      subst hje
      simp [iterRevCollect, iterRevNext_done hit, ← hlen]

/-- advancing `j` times consumes `min j n` items -/
theorem iterAdvance_spec {w : Window α} (h : Inv P w) :
    ∀ (j : Nat) (it : Iter) (c : Nat), IterInv w it c →
      ∃ it', iterAdvance w j it = .ok it' ∧ IterInv w it' (min (c + j) w.size) := by
  intro j
  induction j with
  | zero => intro it c hit; exact ⟨it, rfl, by rw [Nat.add_zero, Nat.min_eq_left hit.1]; exact hit⟩
  | succ j ih =>
    intro it c hit
    by_cases hc : c < w.size
    · obtain ⟨v, it', hn, _, hit'⟩ := iterNext_spec h hit hc
      obtain ⟨it'', ha, hi''⟩ := ih it' (c + 1) hit'
      refine ⟨it'', by simp only [iterAdvance, hn, ha], ?_⟩
      have : c + 1 + j = c + (j + 1) := by omega
      rw [← this]; exact hi''
    · have hce : c = w.size := by have := hit.1; omega
      subst hce
      refine ⟨it, by simp only [iterAdvance, iterNext_done hit], ?_⟩
      rw [Nat.min_eq_right (by omega)]; exact hit

theorem iterRevAdvance_spec {w : Window α} (h : Inv P w) :
    ∀ (j : Nat) (it : Iter) (c : Nat), IterRevInv w it c →
      ∃ it', iterRevAdvance w j it = .ok it' ∧ IterRevInv w it' (min (c + j) w.size) := by
  intro j
  induction j with
  | zero => intro it c hit; exact ⟨it, rfl, by rw [Nat.add_zero, Nat.min_eq_left hit.1]; exact hit⟩
  | succ j ih =>
    intro it c hit
    by_cases hc : c < w.size
    · obtain ⟨v, it', hn, _, hit'⟩ := iterRevNext_spec h hit hc
      obtain ⟨it'', ha, hi''⟩ := ih it' (c + 1) hit'
      refine ⟨it'', by simp only [iterRevAdvance, hn, ha], ?_⟩
      have : c + 1 + j = c + (j + 1) := by omega
      rw [← this]; exact hi''
    · have hce : c = w.size := by have := hit.1; omega
      subst hce
      refine ⟨it, by simp only [iterRevAdvance, iterRevNext_done hit], ?_⟩
      rw [Nat.min_eq_right (by omega)]; exact hit

/-- `last()` of a partially consumed `iter()`: the last element of what remains -/
theorem iterLast_spec {w : Window α} {it : Iter} {j : Nat} (h : Inv P w) (hit : IterInv w it j) :
    iterLast w it = .ok (((toList w).reverse.drop j).getLast?) := by
  have hlen := h.toList_length
  by_cases hj : j < w.size
  · obtain ⟨v, ho, hh⟩ := oldest_spec h (by omega)
    have hnz : ¬ it.size = 0 := by have := hit.2.1; omega
    have : ((toList w).reverse.drop j).getLast? = (toList w).reverse.getLast? := by
      rw [List.getLast?_drop]; simp; omega
    simp only [iterLast, hnz, ↓reduceIte, ho, this, List.getLast?_reverse, hh]
    rfl
  · have hz : it.size = 0 := by have := hit.2.1; omega
    have : (toList w).reverse.drop j = [] := by simp; omega
    simp [iterLast, hz, this]

theorem iterRevLast_spec {w : Window α} {it : Iter} {j : Nat} (h : Inv P w) (hit : IterRevInv w it j) :
    iterRevLast w it = .ok (((toList w).drop j).getLast?) := by
  have hlen := h.toList_length
  by_cases hj : j < w.size
  · obtain ⟨v, ho, hh⟩ := newest_spec h (by omega)
    have hnz : ¬ it.size = 0 := by have := hit.2.1; omega
    have : ((toList w).drop j).getLast? = (toList w).getLast? := by
      rw [List.getLast?_drop]; simp; omega
    simp only [iterRevLast, hnz, ↓reduceIte, ho, this, hh]
    rfl
  · have hz : it.size = 0 := by have := hit.2.1; omega
    have : (toList w).drop j = [] := by simp; omega
    simp [iterRevLast, hz, this]

/-! ### export / rebuild / serde -/

/-- rebuilding from the exported buffer and oldest-index gives back the very same window
    (every capacity, including 0) -/
theorem fromParts_asSlice {w : Window α} (h : Inv P w) (hP : 1 ≤ P) :
    fromParts P (asSlice w) w.index = .ok w := by
  obtain ⟨hs, hs1, hi, hle⟩ := h
  have h1 : w.buf.length < P := by omega
  cases w with
  | mk buf index size s_1 =>
    simp only at hs hs1 h1 hi
    rcases hi with hi | ⟨hz, hi0⟩
    · have h2 : buf.length > index := by omega
      simp [fromParts, asSlice, h1, h2, satSub, hs1, hs]
    · have hb : buf = [] := List.eq_nil_of_length_eq_zero (by omega)
      subst hb hi0
      simp [fromParts, asSlice, satSub, hs1, hs]
      omega

theorem deserialize_serialize {w : Window α} (h : Inv P w) (hP : 1 ≤ P) :
    deserialize P (serialize w) = .ok (.ok w) := by
  have hfp := fromParts_asSlice h hP
  obtain ⟨hs, hs1, hi, hle⟩ := h
  have h1 : ¬ w.buf.length > P - 1 := by omega
  have h2 : ¬ (w.buf.length ≤ w.index ∧ ¬ (w.buf.isEmpty = true ∧ w.index = 0)) := by
    rcases hi with hi | ⟨hz, hi0⟩
    · omega
    · have hb : w.buf = [] := List.eq_nil_of_length_eq_zero (by omega)
      simp [hb, hi0]
  simp only [deserialize, serialize, h1, ↓reduceIte, h2]
  exact congrArg _ hfp

/-- what `deserialize` accepts, and that whatever it accepts is a consistent window -/
theorem deserialize_accepts (buf : List α) (index : Nat) (hP : 1 ≤ P) :
    (∃ w, deserialize P (buf, index) = .ok (.ok w) ∧ Inv P w ∧
        toList w = buf.drop index ++ buf.take index) ∨
    ((∃ e, deserialize P (buf, index) = .error e) ∧
        (buf.length > P - 1 ∨ (buf.length ≤ index ∧ ¬ (buf = [] ∧ index = 0)))) := by
  by_cases h1 : buf.length > P - 1
  · right; exact ⟨⟨.tooLong, by simp [deserialize, h1]⟩, Or.inl h1⟩
  · by_cases h3 : buf.length ≤ index ∧ ¬ (buf = [] ∧ index = 0)
    · right
      have h3' : buf.length ≤ index ∧ ¬ (buf.isEmpty = true ∧ index = 0) := by
        simpa [List.isEmpty_iff] using h3
      exact ⟨⟨.indexOut, by
        simp [deserialize, h1, h3']
        intro hb hi; exact h3.2 ⟨hb, hi⟩⟩, Or.inr h3⟩
    · left
      have h3' : ¬ (buf.length ≤ index ∧ ¬ (buf.isEmpty = true ∧ index = 0)) := by
        simpa [List.isEmpty_iff] using h3
      have h4 : index < buf.length ∨ (buf = [] ∧ index = 0) := by
        by_cases h5 : buf = [] ∧ index = 0
        · exact Or.inr h5
        · left
          apply Nat.lt_of_not_le
          intro h6
          exact h3 ⟨h6, h5⟩
      obtain ⟨w, hw, hinv, htl, _, _⟩ := fromParts_ok (P := P) buf index (by omega) h4
      exact ⟨w, by simp only [deserialize, h1, ↓reduceIte, h3', hw], hinv, htl⟩

/-! ### empty window: no observer yields an element -/

theorem empty_observers :
    push (empty : Window α) = (fun _ => .error .emptyWindow) ∧
    (∀ k, get P (empty : Window α) k = .ok none) ∧
    (∀ k, idx P (empty : Window α) k = .error .indexOOB) ∧
    iterNext (empty : Window α) (iterStart (empty : Window α)) = .ok none ∧
    iterRevNext (empty : Window α) (iterStart (empty : Window α)) = .ok none ∧
    iterLast (empty : Window α) (iterStart (empty : Window α)) = .ok none ∧
    iterRevLast (empty : Window α) (iterStart (empty : Window α)) = .ok none ∧
    newest (empty : Window α) = .error .indexOOB ∧
    oldest (empty : Window α) = .error .indexOOB := by
  refine ⟨rfl, ?_, ?_, rfl, rfl, rfl, rfl, rfl, rfl⟩
  · intro k
    have := get_spec (P := P) (empty_inv (α := α)) k
    simpa [empty_toList] using this
  · intro k
    have := idx_spec (P := P) (empty_inv (α := α)) k
    simpa [empty_toList] using this

end Window
end Yata
