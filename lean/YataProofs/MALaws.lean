/-
  Moving averages are averages (C15), proved for the specs that the machines equal (C02/C03):
  affine equivariance, superposition, containment in the hull of the values, for SMA, WMA and the
  exponential recurrence (EMA, RMA, WSMA; DMA/TMA as its compositions).
-/
import YataProofs.Numeric.WMA
import YataProofs.Numeric.EMA
import YataProofs.Constant
namespace Yata
variable {K : Type} [Field K] [LinearOrder K] [IsStrictOrderedRing K]

/-! ### windows commute with pointwise maps and sums -/

theorem lastN_map {α β : Type} (f : α → β) (n : Nat) (l : List α) : lastN n (l.map f) = (lastN n l).map f := by
  simp [lastN, List.map_drop]

theorem win_map {α β : Type} (f : α → β) (n : Nat) (v : α) (xs : List α) :
    lastN n (history n (f v) (xs.map f)) = (lastN n (history n v xs)).map f := by
  rw [← lastN_map]; simp [history]

theorem win_length {α : Type} (n : Nat) (v : α) (xs : List α) : (lastN n (history n v xs)).length = n :=
  lastN_length (by simp [history])

theorem lastN_zipWith {α : Type} (f : α → α → α) (n : Nat) (l m : List α) (h : l.length = m.length) :
    lastN n (List.zipWith f l m) = List.zipWith f (lastN n l) (lastN n m) := by
  simp [lastN, List.drop_zipWith, h]

theorem win_zipWith {α : Type} (f : α → α → α) (n : Nat) (v w : α) (xs ys : List α) (h : xs.length = ys.length) :
    lastN n (history n (f v w) (List.zipWith f xs ys)) =
      List.zipWith f (lastN n (history n v xs)) (lastN n (history n w ys)) := by
  rw [← lastN_zipWith _ _ _ _ (by simp [history, h])]
  congr 1
  simp [history, List.zipWith_append, List.zipWith_replicate]

/-! ### sums -/

theorem sum_map_affine (a b : K) (l : List K) : (l.map fun x => a * x + b).sum = a * l.sum + (l.length : K) * b := by
  induction l with
  | nil => simp
  | cons x t ih => simp only [List.map_cons, List.sum_cons, ih, List.length_cons]; push_cast; ring

theorem sum_zipWith_add (l m : List K) (h : l.length = m.length) :
    (List.zipWith (· + ·) l m).sum = l.sum + m.sum := by
  induction l generalizing m with
  | nil => cases m <;> simp_all
  | cons x t ih =>
    cases m with
    | nil => simp at h
    | cons y u => simp only [List.zipWith_cons_cons, List.sum_cons, ih u (by simpa using h)]; ring

theorem sum_bounds (lo hi : K) (l : List K) (h : ∀ x ∈ l, lo ≤ x ∧ x ≤ hi) :
    (l.length : K) * lo ≤ l.sum ∧ l.sum ≤ (l.length : K) * hi := by
  induction l with
  | nil => simp
  | cons x t ih =>
    have hx := h x (by simp)
    have ht := ih (fun y hy => h y (by simp [hy]))
    simp only [List.sum_cons, List.length_cons]; push_cast
    constructor <;> nlinarith [hx.1, hx.2, ht.1, ht.2]

/-! ### SMA -/

theorem sma_affine (n : Nat) (hn : 0 < n) (a b v : K) (xs : List K) :
    Spec.sma n (a * v + b) (xs.map fun x => a * x + b) = a * Spec.sma n v xs + b := by
  have hnK : (n : K) ≠ 0 := by exact_mod_cast Nat.pos_iff_ne_zero.mp hn
  simp only [Spec.sma, Spec.win, Spec.mean]
  rw [win_map (fun x => a * x + b), sum_map_affine, win_length]
  field_simp

theorem sma_superposition (n : Nat) (hn : 0 < n) (v w : K) (xs ys : List K) (h : xs.length = ys.length) :
    Spec.sma n (v + w) (List.zipWith (· + ·) xs ys) = Spec.sma n v xs + Spec.sma n w ys := by
  simp only [Spec.sma, Spec.win, Spec.mean]
  rw [win_zipWith (· + ·) n v w xs ys h, sum_zipWith_add _ _ (by rw [win_length, win_length])]
  ring

/-- the mean of the window lies in the hull of the values given (construction value included) -/
theorem sma_hull (n : Nat) (hn : 0 < n) (v : K) (xs : List K) (lo hi : K)
    (h : ∀ x ∈ v :: xs, lo ≤ x ∧ x ≤ hi) : lo ≤ Spec.sma n v xs ∧ Spec.sma n v xs ≤ hi := by
  have hnK : (0 : K) < (n : K) := by exact_mod_cast hn
  have hw : ∀ x ∈ lastN n (history n v xs), lo ≤ x ∧ x ≤ hi := by
    intro x hx
    have : x ∈ history n v xs := List.mem_of_mem_drop hx
    simp only [history, List.mem_append, List.mem_replicate] at this
    rcases this with ⟨_, rfl⟩ | hx'
    · exact h x (by simp)
    · exact h x (by simp [hx'])
  have := sum_bounds lo hi _ hw
  rw [win_length] at this
  simp only [Spec.sma, Spec.win, Spec.mean]
  constructor
  · rw [le_div_iff₀ hnK]; linarith [this.1]
  · rw [div_le_iff₀ hnK]; linarith [this.2]

/-! ### WMA -/

theorem rampSum_map_affine (a b : K) (k : Nat) (l : List K) :
    Spec.rampSum k (l.map fun x => a * x + b) = a * Spec.rampSum k l + b * Spec.rampSum k (l.map fun _ => 1) := by
  induction l generalizing k with
  | nil => simp [Spec.rampSum]
  | cons x t ih => simp only [List.map_cons, Spec.rampSum, ih]; ring

theorem rampSum_zipWith_add (k : Nat) (l m : List K) (h : l.length = m.length) :
    Spec.rampSum k (List.zipWith (· + ·) l m) = Spec.rampSum k l + Spec.rampSum k m := by
  induction l generalizing m k with
  | nil => cases m <;> simp_all [Spec.rampSum]
  | cons x t ih =>
    cases m with
    | nil => simp at h
    | cons y u => simp only [List.zipWith_cons_cons, Spec.rampSum, ih (k + 1) u (by simpa using h)]; ring

theorem map_const_one (l : List K) : (l.map fun _ => (1 : K)) = List.replicate l.length 1 := by
  induction l with
  | nil => rfl
  | cons x t ih => simp [List.replicate_succ, ih]

theorem tri_pos (n : Nat) (hn : 0 < n) : (0 : K) < ((n * (n + 1) / 2 : Nat) : K) := by
  have : 0 < n * (n + 1) / 2 := by
    apply Nat.div_pos _ (by norm_num)
    have : 1 * 2 ≤ n * (n + 1) := Nat.mul_le_mul hn (by omega)
    omega
  exact_mod_cast this

theorem wma_affine (n : Nat) (hn : 0 < n) (a b v : K) (xs : List K) :
    Spec.wma n (a * v + b) (xs.map fun x => a * x + b) = a * Spec.wma n v xs + b := by
  have hT := ne_of_gt (tri_pos (K := K) n hn)
  simp only [Spec.wma, Spec.win]
  rw [win_map (fun x => a * x + b), rampSum_map_affine, map_const_one, win_length, rampSum_replicate]
  field_simp

theorem wma_superposition (n : Nat) (hn : 0 < n) (v w : K) (xs ys : List K) (h : xs.length = ys.length) :
    Spec.wma n (v + w) (List.zipWith (· + ·) xs ys) = Spec.wma n v xs + Spec.wma n w ys := by
  simp only [Spec.wma, Spec.win]
  rw [win_zipWith (· + ·) n v w xs ys h, rampSum_zipWith_add _ _ _ (by rw [win_length, win_length])]
  ring

theorem rampSum_bounds (lo hi : K) (k : Nat) (l : List K) (h : ∀ x ∈ l, lo ≤ x ∧ x ≤ hi) :
    lo * Spec.rampSum k (l.map fun _ => 1) ≤ Spec.rampSum k l ∧
    Spec.rampSum k l ≤ hi * Spec.rampSum k (l.map fun _ => 1) := by
  induction l generalizing k with
  | nil => simp [Spec.rampSum]
  | cons x t ih =>
    have hx := h x (by simp)
    have ht := ih (k + 1) (fun y hy => h y (by simp [hy]))
    have hk : (0 : K) ≤ (k : K) := Nat.cast_nonneg k
    simp only [List.map_cons, Spec.rampSum]
    constructor <;> nlinarith [hx.1, hx.2, ht.1, ht.2, mul_le_mul_of_nonneg_left hx.1 hk, mul_le_mul_of_nonneg_left hx.2 hk]

theorem wma_hull (n : Nat) (hn : 0 < n) (v : K) (xs : List K) (lo hi : K)
    (h : ∀ x ∈ v :: xs, lo ≤ x ∧ x ≤ hi) : lo ≤ Spec.wma n v xs ∧ Spec.wma n v xs ≤ hi := by
  have hT := tri_pos (K := K) n hn
  have hw : ∀ x ∈ lastN n (history n v xs), lo ≤ x ∧ x ≤ hi := by
    intro x hx
    have : x ∈ history n v xs := List.mem_of_mem_drop hx
    simp only [history, List.mem_append, List.mem_replicate] at this
    rcases this with ⟨_, rfl⟩ | hx'
    · exact h x (by simp)
    · exact h x (by simp [hx'])
  have := rampSum_bounds lo hi 1 _ hw
  rw [map_const_one, win_length, rampSum_replicate] at this
  simp only [Spec.wma, Spec.win]
  constructor
  · rw [le_div_iff₀ hT]; linarith [this.1]
  · rw [div_le_iff₀ hT]; linarith [this.2]

/-! ### the exponential recurrence (EMA with α = 2/(n+1); RMA and WSMA with α = 1/n) -/

theorem emaRec_affine (α a b v : K) (xs : List K) :
    Spec.emaRec α (a * v + b) (xs.map fun x => a * x + b) = a * Spec.emaRec α v xs + b := by
  induction xs generalizing v with
  | nil => simp [Spec.emaRec]
  | cons x t ih =>
    simp only [List.map_cons, Spec.emaRec]
    have : (a * x + b - (a * v + b)) * α + (a * v + b) = a * ((x - v) * α + v) + b := by ring
    rw [this, ih]

theorem emaRec_superposition (α v w : K) (xs ys : List K) (h : xs.length = ys.length) :
    Spec.emaRec α (v + w) (List.zipWith (· + ·) xs ys) = Spec.emaRec α v xs + Spec.emaRec α w ys := by
  induction xs generalizing ys v w with
  | nil => cases ys <;> simp_all [Spec.emaRec]
  | cons x t ih =>
    cases ys with
    | nil => simp at h
    | cons y u =>
      simp only [List.zipWith_cons_cons, Spec.emaRec]
      have : (x + y - (v + w)) * α + (v + w) = ((x - v) * α + v) + ((y - w) * α + w) := by ring
      rw [this, ih _ _ u (by simpa using h)]

/-- with a smoothing constant in [0,1] every step is a convex combination -/
theorem emaRec_hull (α v : K) (xs : List K) (lo hi : K) (h0 : 0 ≤ α) (h1 : α ≤ 1)
    (h : ∀ x ∈ v :: xs, lo ≤ x ∧ x ≤ hi) : lo ≤ Spec.emaRec α v xs ∧ Spec.emaRec α v xs ≤ hi := by
  induction xs generalizing v with
  | nil => simpa [Spec.emaRec] using h v (by simp)
  | cons x t ih =>
    simp only [Spec.emaRec]
    apply ih
    intro y hy
    rcases List.mem_cons.mp hy with rfl | hy'
    · have hv := h v (by simp)
      have hx := h x (by simp)
      constructor <;> nlinarith [hv.1, hv.2, hx.1, hx.2, mul_nonneg h0 (sub_nonneg.mpr h1)]
    · exact h y (by simp [hy'])

/-- the smoothing constants of EMA / RMA / WSMA are in (0, 1] -/
theorem ema_alpha_range (n : Nat) (hn : 0 < n) :
    (0 : K) ≤ ((2 : Nat) : K) / ((n + 1 : Nat) : K) ∧ ((2 : Nat) : K) / ((n + 1 : Nat) : K) ≤ 1 ∧
    (0 : K) ≤ 1 / (n : K) ∧ (1 : K) / (n : K) ≤ 1 := by
  have h1 : (0 : K) < ((n + 1 : Nat) : K) := by exact_mod_cast Nat.succ_pos n
  have h2 : (0 : K) < (n : K) := by exact_mod_cast hn
  have h3 : ((2 : Nat) : K) ≤ ((n + 1 : Nat) : K) := by exact_mod_cast (by omega : 2 ≤ n + 1)
  have h4 : (1 : K) ≤ (n : K) := by exact_mod_cast hn
  refine ⟨by positivity, (div_le_one h1).mpr h3, by positivity, (div_le_one h2).mpr h4⟩

end Yata
