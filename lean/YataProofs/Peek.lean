/-
  `peek` returns the value most recently produced — per Peekable model.
-/
import YataModel
set_option linter.unusedSectionVars false
namespace Yata
variable {α : Type}
variable [Zero α] [One α] [Add α] [Sub α] [Mul α] [Div α] [Neg α] [NatCast α]
variable [LT α] [DecidableLT α] [LE α] [DecidableLE α]

theorem SMA.peek_next (s : SMA α) (x : α) {o : α} {s' : SMA α} (h : s.next x = .ok (o, s')) : s'.peek = o := by
  unfold SMA.next at h
  split at h
  · cases h
  · simp only [Except.ok.injEq, Prod.mk.injEq] at h; obtain ⟨rfl, rfl⟩ := h; rfl

theorem WMA.peek_next (s : WMA α) (x : α) {o : α} {s' : WMA α} (h : s.next x = .ok (o, s')) : s'.peek = o := by
  unfold WMA.next at h
  split at h
  · cases h
  · simp only [Except.ok.injEq, Prod.mk.injEq] at h; obtain ⟨rfl, rfl⟩ := h; rfl

theorem EMA.peek_next (s : EMA α) (x : α) : (s.next x).2.peek = (s.next x).1 := rfl
theorem DMA.peek_next (s : DMA α) (x : α) : (s.next x).2.peek = (s.next x).1 := rfl
theorem TMA.peek_next (s : TMA α) (x : α) : (s.next x).2.peek = (s.next x).1 := rfl
theorem DEMA.peek_next (s : DEMA α) (x : α) : (s.next x).2.peek = (s.next x).1 := rfl
theorem TEMA.peek_next (s : TEMA α) (x : α) : (s.next x).2.peek = (s.next x).1 := rfl
theorem RMA.peek_next (s : RMA α) (x : α) : (s.next x).2.peek = (s.next x).1 := rfl
theorem WSMA.peek_next (s : WSMA α) (x : α) : (s.next x).2.peek = (s.next x).1 := rfl
theorem TSI.peek_next (s : TSI α) (x : α) : (s.next x).2.peek = (s.next x).1 := rfl

theorem TRIMA.peek_next (s : TRIMA α) (x : α) {o : α} {s' : TRIMA α} (h : s.next x = .ok (o, s')) : s'.peek = o := by
  unfold TRIMA.next at h
  split at h
  · cases h
  · split at h
    · cases h
    · rename_i v2 b hb
      simp only [Except.ok.injEq, Prod.mk.injEq] at h; obtain ⟨rfl, rfl⟩ := h
      exact SMA.peek_next _ _ hb

theorem HMA.peek_next (s : HMA α) (x : α) {o : α} {s' : HMA α} (h : s.next x = .ok (o, s')) : s'.peek = o := by
  unfold HMA.next at h
  split at h
  · cases h
  · split at h
    · cases h
    · split at h
      · cases h
      · rename_i v c hc
        simp only [Except.ok.injEq, Prod.mk.injEq] at h; obtain ⟨rfl, rfl⟩ := h
        exact WMA.peek_next _ _ hc

theorem LinReg.peek_next (s : LinReg α) (x : α) {o : α} {s' : LinReg α} (h : s.next x = .ok (o, s')) : s'.peek = o := by
  unfold LinReg.next at h
  split at h
  · cases h
  · simp only [Except.ok.injEq, Prod.mk.injEq] at h; obtain ⟨rfl, rfl⟩ := h; rfl

theorem Integral.peek_next (s : Integral α) (x : α) {o : α} {s' : Integral α} (h : s.next x = .ok (o, s')) : s'.peek = o := by
  unfold Integral.next at h
  split at h
  · split at h
    · cases h
    · simp only [Except.ok.injEq, Prod.mk.injEq] at h; obtain ⟨rfl, rfl⟩ := h; rfl
  · simp only [Except.ok.injEq, Prod.mk.injEq] at h; obtain ⟨rfl, rfl⟩ := h; rfl

theorem LinearVolatility.peek_next (s : LinearVolatility α) (x : α) {o : α} {s' : LinearVolatility α}
    (h : s.next x = .ok (o, s')) : s'.peek = o := by
  unfold LinearVolatility.next at h
  simp only [] at h
  split at h
  · cases h
  · simp only [Except.ok.injEq, Prod.mk.injEq] at h; obtain ⟨rfl, rfl⟩ := h; rfl

theorem MeanAbsDev.peek_next (s : MeanAbsDev α) (x : α) {o : α} {s' : MeanAbsDev α}
    (h : s.next x = .ok (o, s')) : s'.peek = o := by
  unfold MeanAbsDev.next at h
  split at h
  · cases h
  · simp only [Except.ok.injEq, Prod.mk.injEq] at h; obtain ⟨rfl, rfl⟩ := h; rfl

theorem StDev.peek_next (s : StDev α) (x : α) {o : α} {s' : StDev α} (h : s.next x = .ok (o, s')) : s'.peekVar = o := by
  unfold StDev.next at h
  split at h
  · cases h
  · simp only [Except.ok.injEq, Prod.mk.injEq] at h; obtain ⟨rfl, rfl⟩ := h; rfl

theorem Vidya.peek_next [DecidableEq α] (s : Vidya α) (x : α) {o : α} {s' : Vidya α}
    (h : s.next x = .ok (o, s')) : s'.peek = o := by
  unfold Vidya.next at h
  simp only [] at h
  split at h
  · cases h
  · simp only [Except.ok.injEq, Prod.mk.injEq] at h; obtain ⟨rfl, rfl⟩ := h; rfl

/-- SWMA: holds whenever the instance has a right window (length ≥ 2); after the `fix:` commit the
    length-1 instance stores the value it returns -/
theorem SWMA.peek_next (s : SWMA α) (x : α) {o : α} {s' : SWMA α} (h : s.next x = .ok (o, s'))
    (hne : s.right_window.isEmpty = false) : s'.peek = o := by
  unfold SWMA.next at h
  simp only [hne, Bool.false_eq_true, ↓reduceIte] at h
  split at h
  · cases h
  · split at h
    · cases h
    · simp only [Except.ok.injEq, Prod.mk.injEq] at h; obtain ⟨rfl, rfl⟩ := h; rfl

section Sel
variable {β : Type} [LT β] [DecidableLT β] [LE β] [DecidableLE β] [BitEq β]

theorem Highest.peek_next (s : Highest β) (x : β) {o : β} {s' : Highest β} (h : s.next x = .ok (o, s')) : s'.peek = o := by
  unfold Highest.next at h
  split at h
  · cases h
  · split at h
    · simp only [Except.ok.injEq, Prod.mk.injEq] at h; obtain ⟨rfl, rfl⟩ := h; rfl
    · split at h
      · split at h
        · cases h
        · simp only [Except.ok.injEq, Prod.mk.injEq] at h; obtain ⟨rfl, rfl⟩ := h; rfl
      · simp only [Except.ok.injEq, Prod.mk.injEq] at h; obtain ⟨rfl, rfl⟩ := h; rfl

theorem Lowest.peek_next (s : Lowest β) (x : β) {o : β} {s' : Lowest β} (h : s.next x = .ok (o, s')) : s'.peek = o := by
  unfold Lowest.next at h
  split at h
  · cases h
  · split at h
    · simp only [Except.ok.injEq, Prod.mk.injEq] at h; obtain ⟨rfl, rfl⟩ := h; rfl
    · split at h
      · split at h
        · cases h
        · simp only [Except.ok.injEq, Prod.mk.injEq] at h; obtain ⟨rfl, rfl⟩ := h; rfl
      · simp only [Except.ok.injEq, Prod.mk.injEq] at h; obtain ⟨rfl, rfl⟩ := h; rfl

end Sel
end Yata
