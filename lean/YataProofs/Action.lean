/-
  Action algebra (src/core/action.rs): the finite part by case analysis, ratios in ℚ.
-/
import YataModel.Action
import YataModel.F64
import Mathlib.Algebra.Order.Field.Basic
import Mathlib.Algebra.Order.Ring.Rat
import Mathlib.Tactic.Ring
import Mathlib.Tactic.FieldSimp
import Mathlib.Tactic.Linarith
import Mathlib.Tactic.NormNum
import Mathlib.Tactic.Positivity
namespace Yata
namespace Action

theorem neg_neg (a : Action) : a.neg.neg = a := by cases a <;> rfl

theorem neg_wf {a : Action} (h : a.WF) : a.neg.WF := by cases a <;> simpa [WF, neg] using h

theorem ratio0_neg (a : Action) : a.neg.ratio0 = -a.ratio0 := by
  cases a <;> simp [ratio0, ratio, neg, neg_div]

theorem ratio_neg (a : Action) : a.neg.ratio = a.ratio.map (fun q => -q) := by
  cases a <;> simp [ratio, neg, neg_div]

theorem ratio0_range {a : Action} (h : a.WF) : -1 ≤ a.ratio0 ∧ a.ratio0 ≤ 1 := by
  cases a with
  | none => simp [ratio0, ratio]
  | buy v =>
    have hv : (v : ℚ) ≤ 255 := by exact_mod_cast h
    have h0 : (0 : ℚ) ≤ v := by positivity
    simp only [ratio0, ratio, Option.getD_some]
    constructor
    · have : (0 : ℚ) ≤ (v : ℚ) / 255 := by positivity
      linarith
    · rw [div_le_one (by norm_num)]; exact hv
  | sell v =>
    have hv : (v : ℚ) ≤ 255 := by exact_mod_cast h
    have h0 : (0 : ℚ) ≤ v := by positivity
    simp only [ratio0, ratio, Option.getD_some]
    constructor
    · rw [le_div_iff₀ (by norm_num)]; linarith
    · have : (0 : ℚ) ≤ (v : ℚ) / 255 := by positivity
      rw [neg_div]; linarith

/-- saturation to [-1, 1] -/
def clamp (q : ℚ) : ℚ := max (-1) (min 1 q)

theorem sub_wf {a b : Action} (ha : a.WF) (hb : b.WF) : (a.sub b).WF := by
  cases a with
  | none => cases b <;> simpa [sub, WF, neg] using hb
  | buy v1 =>
    cases b with
    | none => simpa [sub, WF] using ha
    | buy v2 =>
      simp only [WF, BOUND] at ha hb
      by_cases h : v1 ≥ v2 <;> simp only [sub, h, ↓reduceIte, WF, BOUND] <;> omega
    | sell v2 =>
      simp only [WF, BOUND] at ha hb
      by_cases h : v1 + v2 ≤ 255 <;> simp only [sub, satAdd, BOUND, h, ↓reduceIte, WF] <;> omega
  | sell v1 =>
    cases b with
    | none => simpa [sub, WF] using ha
    | sell v2 =>
      simp only [WF, BOUND] at ha hb
      by_cases h : v1 ≥ v2 <;> simp only [sub, h, ↓reduceIte, WF, BOUND] <;> omega
    | buy v2 =>
      simp only [WF, BOUND] at ha hb
      by_cases h : v1 + v2 ≤ 255 <;> simp only [sub, satAdd, BOUND, h, ↓reduceIte, WF] <;> omega

/-- `a - b` has the ratio of `a` minus the ratio of `b` (no signal counting as zero),
    saturated to [-1, 1] -/
theorem ratio0_sub {a b : Action} (ha : a.WF) (hb : b.WF) :
    (a.sub b).ratio0 = clamp (a.ratio0 - b.ratio0) := by
  have ra := ratio0_range ha
  have rb := ratio0_range hb
  cases a with
  | none =>
    cases b with
    | none => simp [sub, ratio0, ratio, clamp]
    | buy v =>
      have := ratio0_range (neg_wf hb)
      rw [show Action.none.sub (buy v) = (buy v).neg from rfl, ratio0_neg] at *
      simp only [ratio0, ratio, Option.getD_none, zero_sub, clamp] at *
      rw [min_eq_right (by linarith [this.2]), max_eq_right (by linarith [this.1])]
    | sell v =>
      have := ratio0_range (neg_wf hb)
      rw [show Action.none.sub (sell v) = (sell v).neg from rfl, ratio0_neg] at *
      simp only [ratio0, ratio, Option.getD_none, zero_sub, clamp] at *
      rw [min_eq_right (by linarith [this.2]), max_eq_right (by linarith [this.1])]
  | buy v1 =>
    have h1 : (v1 : ℚ) ≤ 255 := by exact_mod_cast ha
    cases b with
    | none =>
      simp only [sub, ratio0, ratio, Option.getD_none, sub_zero, clamp] at *
      rw [min_eq_right ra.2, max_eq_right ra.1]
    | buy v2 =>
      have h2 : (v2 : ℚ) ≤ 255 := by exact_mod_cast hb
      simp only [sub]
      have hc : clamp ((v1 : ℚ) / 255 - (v2 : ℚ) / 255) = (v1 : ℚ) / 255 - (v2 : ℚ) / 255 := by
        unfold clamp
        simp only [ratio0, ratio, Option.getD_some] at ra rb
        rw [min_eq_right (by linarith [ra.2, rb.1, show (0:ℚ) ≤ (v2:ℚ)/255 by positivity]),
            max_eq_right (by linarith [ra.1, rb.2, show (0:ℚ) ≤ (v1:ℚ)/255 by positivity])]
      by_cases hge : v1 ≥ v2
      · simp only [hge, ↓reduceIte, ratio0, ratio, Option.getD_some, hc]
        rw [Nat.cast_sub hge]; ring
      · simp only [hge, ↓reduceIte, ratio0, ratio, Option.getD_some, hc]
        rw [Nat.cast_sub (by omega)]; ring
    | sell v2 =>
      have h2 : (v2 : ℚ) ≤ 255 := by exact_mod_cast hb
      simp only [sub, ratio0, ratio, Option.getD_some, clamp, satAdd, BOUND]
      have e : (v1 : ℚ) / 255 - -(v2 : ℚ) / 255 = ((v1 + v2 : ℕ) : ℚ) / 255 := by push_cast; ring
      rw [e]
      have hp : (0 : ℚ) ≤ ((v1 + v2 : ℕ) : ℚ) / 255 := by positivity
      by_cases hs : v1 + v2 ≤ 255
      · have : ((v1 + v2 : ℕ) : ℚ) / 255 ≤ 1 := by
          rw [div_le_one (by norm_num)]; exact_mod_cast hs
        simp only [hs, ↓reduceIte]
        rw [min_eq_right this, max_eq_right (by linarith)]
      · have : (1 : ℚ) ≤ ((v1 + v2 : ℕ) : ℚ) / 255 := by
          rw [le_div_iff₀ (by norm_num)]; exact_mod_cast (by omega : 1 * 255 ≤ v1 + v2)
        simp only [hs, ↓reduceIte]
        rw [min_eq_left this, max_eq_right (by norm_num)]
        norm_num
  | sell v1 =>
    have h1 : (v1 : ℚ) ≤ 255 := by exact_mod_cast ha
    cases b with
    | none =>
      simp only [sub, ratio0, ratio, Option.getD_none, sub_zero, clamp] at *
      rw [min_eq_right ra.2, max_eq_right ra.1]
    | sell v2 =>
      have h2 : (v2 : ℚ) ≤ 255 := by exact_mod_cast hb
      simp only [sub]
      have hc : clamp (-(v1 : ℚ) / 255 - -(v2 : ℚ) / 255) = -(v1 : ℚ) / 255 - -(v2 : ℚ) / 255 := by
        unfold clamp
        simp only [ratio0, ratio, Option.getD_some] at ra rb
        have p1 : (0:ℚ) ≤ (v1:ℚ)/255 := by positivity
        have p2 : (0:ℚ) ≤ (v2:ℚ)/255 := by positivity
        rw [neg_div, neg_div] at *
        rw [min_eq_right (by linarith [ra.2, rb.1]), max_eq_right (by linarith [ra.1, rb.2])]
      by_cases hge : v1 ≥ v2
      · simp only [hge, ↓reduceIte, ratio0, ratio, Option.getD_some, hc]
        rw [Nat.cast_sub hge]; ring
      · simp only [hge, ↓reduceIte, ratio0, ratio, Option.getD_some, hc]
        rw [Nat.cast_sub (by omega)]; ring
    | buy v2 =>
      have h2 : (v2 : ℚ) ≤ 255 := by exact_mod_cast hb
      simp only [sub, ratio0, ratio, Option.getD_some, clamp, satAdd, BOUND]
      have e : -(v1 : ℚ) / 255 - (v2 : ℚ) / 255 = -(((v1 + v2 : ℕ) : ℚ) / 255) := by push_cast; ring
      rw [e]
      have hp : (0 : ℚ) ≤ ((v1 + v2 : ℕ) : ℚ) / 255 := by positivity
      by_cases hs : v1 + v2 ≤ 255
      · have : ((v1 + v2 : ℕ) : ℚ) / 255 ≤ 1 := by
          rw [div_le_one (by norm_num)]; exact_mod_cast hs
        simp only [hs, ↓reduceIte]
        rw [min_eq_right (by linarith), max_eq_right (by linarith), neg_div]
      · have : (1 : ℚ) ≤ ((v1 + v2 : ℕ) : ℚ) / 255 := by
          rw [le_div_iff₀ (by norm_num)]; exact_mod_cast (by omega : 1 * 255 ≤ v1 + v2)
        simp only [hs, ↓reduceIte]
        rw [min_eq_right (by linarith), max_eq_left (by linarith)]
        norm_num

/-- `analog` (and `sign`) agree with the sign of the ratio -/
theorem analog_sign (a : Action) :
    (a.analog = 1 ↔ 0 < a.ratio0) ∧ (a.analog = -1 ↔ a.ratio0 < 0) ∧ (a.analog = 0 ↔ a.ratio0 = 0) := by
  cases a with
  | none => simp [analog, ratio0, ratio]
  | buy v =>
    simp only [analog, ratio0, ratio, Option.getD_some]
    by_cases hv : v > 0
    · have : (0 : ℚ) < (v : ℚ) / 255 := by positivity
      simp [hv, this, ne_of_gt this, le_of_lt this]
    · have : v = 0 := by omega
      subst this; simp
  | sell v =>
    simp only [analog, ratio0, ratio, Option.getD_some]
    by_cases hv : v > 0
    · have : (0 : ℚ) < (v : ℚ) / 255 := by positivity
      have h2 : -(v : ℚ) / 255 < 0 := by rw [neg_div]; linarith
      simp [hv, h2, ne_of_lt h2, not_lt.mpr (le_of_lt h2)]
    · have : v = 0 := by omega
      subst this; simp

theorem sign_eq (a : Action) : a.sign = (if a = .none then Option.none else some a.analog) := by
  cases a <;> simp [sign]

/-! ### equality is an equivalence relation -/

/-- `eq` decides "same ratio class": both none, or same signed strength with ±0 identified -/
theorem eq_iff (a b : Action) : a.eq b = true ↔
    (a = .none ∧ b = .none) ∨ (a ≠ .none ∧ b ≠ .none ∧ a.ratio0 = b.ratio0) := by
  have hz : ∀ v : ℕ, (v : ℚ) / 255 = 0 ↔ v = 0 := by
    intro v; rw [div_eq_zero_iff]; simp
  have hinj : ∀ x y : ℕ, (x : ℚ) / 255 = (y : ℚ) / 255 ↔ x = y := by
    intro x y; rw [div_left_inj' (by norm_num)]; exact Nat.cast_inj
  have hmix : ∀ x y : ℕ, (x : ℚ) / 255 = -(y : ℚ) / 255 ↔ (x = 0 ∧ y = 0) := by
    intro x y
    rw [div_left_inj' (by norm_num)]
    constructor
    · intro h
      have hx : (0 : ℚ) ≤ x := by positivity
      have hy : (0 : ℚ) ≤ y := by positivity
      have : (x : ℚ) = 0 := by linarith
      have : (y : ℚ) = 0 := by linarith
      exact ⟨by exact_mod_cast ‹(x : ℚ) = 0›, by exact_mod_cast this⟩
    · rintro ⟨rfl, rfl⟩; simp
  cases a with
  | none => cases b <;> simp [eq]
  | buy x =>
    cases b with
    | none => simp [eq]
    | buy y =>
      have : (buy x).eq (buy y) = (x == y) := by
        cases x <;> cases y <;> rfl
      simp [this, ratio0, ratio, hinj]
    | sell y =>
      have : (buy x).eq (sell y) = (x == 0 && y == 0) := by
        cases x <;> cases y <;> rfl
      simp [this, ratio0, ratio, hmix]
  | sell x =>
    cases b with
    | none => simp [eq]
    | sell y =>
      have : (sell x).eq (sell y) = (x == y) := by
        cases x <;> cases y <;> rfl
      simp only [this, ratio0, ratio, Option.getD_some, beq_iff_eq, reduceCtorEq, false_and, ne_eq,
        not_false_eq_true, true_and, false_or]
      rw [neg_div, neg_div, neg_inj, hinj]
    | buy y =>
      have : (sell x).eq (buy y) = (x == 0 && y == 0) := by
        cases x <;> cases y <;> rfl
      rw [this]
      simp only [ratio0, ratio, Option.getD_some, Bool.and_eq_true, beq_iff_eq, reduceCtorEq, false_and,
        ne_eq, not_false_eq_true, true_and, false_or]
      constructor
      · rintro ⟨rfl, rfl⟩; simp
      · intro h; have := (hmix y x).mp h.symm; exact ⟨this.2, this.1⟩

theorem eq_refl (a : Action) : a.eq a = true := by
  rw [eq_iff]; cases a <;> simp

theorem eq_symm {a b : Action} (h : a.eq b = true) : b.eq a = true := by
  rw [eq_iff] at *
  rcases h with ⟨h1, h2⟩ | ⟨h1, h2, h3⟩
  · exact Or.inl ⟨h2, h1⟩
  · exact Or.inr ⟨h2, h1, h3.symm⟩

theorem eq_trans {a b c : Action} (h1 : a.eq b = true) (h2 : b.eq c = true) : a.eq c = true := by
  rw [eq_iff] at *
  rcases h1 with ⟨ha, hb⟩ | ⟨ha, hb, hab⟩
  · rcases h2 with ⟨_, hc⟩ | ⟨hb', _, _⟩
    · exact Or.inl ⟨ha, hc⟩
    · exact absurd hb hb'
  · rcases h2 with ⟨hb', _⟩ | ⟨_, hc, hbc⟩
    · exact absurd hb' hb
    · exact Or.inr ⟨ha, hc, hab.trans hbc⟩

/-! ### ordering vs equality -/

/-- the derived ordering is the lexicographic one: equal exactly on identical values -/
theorem cmp_eq_iff (a b : Action) : a.cmp b = .eq ↔ a = b := by
  cases a <;> cases b <;> simp [cmp, compare_eq_iff_eq]

/-- FULL statement "the ordering is consistent with equality" is FALSE for the code as it is:
    `Buy(0) == Sell(0)` but they are ordered `Less` (and no total order extending the derived one
    can repair it, since `Buy(0) < Buy(1) < None < Sell(0)`). -/
theorem cmp_eq_inconsistent_witness :
    (buy 0).eq (sell 0) = true ∧ (buy 0).cmp (sell 0) = .lt ∧
    (buy 0).cmp (buy 1) = .lt ∧ (buy 1).cmp none = .lt ∧ none.cmp (sell 0) = .lt := by decide

/-- PARTIAL: apart from the two zero-strength values of opposite sign, equal actions compare `Equal` -/
theorem cmp_consistent_partial {a b : Action} (h : a.eq b = true)
    (hz : ¬ ((a = buy 0 ∧ b = sell 0) ∨ (a = sell 0 ∧ b = buy 0))) : a.cmp b = .eq := by
  rw [cmp_eq_iff]
  cases a with
  | none => cases b <;> simp_all [eq]
  | buy x =>
    cases b with
    | none => simp [eq] at h
    | buy y => have : (buy x).eq (buy y) = (x == y) := by cases x <;> cases y <;> rfl
               rw [this] at h; simp at h; rw [h]
    | sell y =>
      have : (buy x).eq (sell y) = (x == 0 && y == 0) := by cases x <;> cases y <;> rfl
      rw [this] at h; simp at h; exact absurd (Or.inl ⟨by rw [h.1], by rw [h.2]⟩) hz
  | sell x =>
    cases b with
    | none => simp [eq] at h
    | sell y => have : (sell x).eq (sell y) = (x == y) := by cases x <;> cases y <;> rfl
                rw [this] at h; simp at h; rw [h]
    | buy y =>
      have : (sell x).eq (buy y) = (x == 0 && y == 0) := by cases x <;> cases y <;> rfl
      rw [this] at h; simp at h; exact absurd (Or.inr ⟨by rw [h.1], by rw [h.2]⟩) hz

/-! ### integer conversion -/
theorem ofI8_cases (v : Int) :
    (v = 0 → ofI8 v = .none) ∧ (v > 0 → ofI8 v = buyAll) ∧ (v < 0 → ofI8 v = sellAll) := by
  refine ⟨fun h => by simp [ofI8, h], fun h => ?_, fun h => ?_⟩
  · have : v ≠ 0 := by omega
    simp [ofI8, this, h]
  · have h1 : v ≠ 0 := by omega
    have h2 : ¬ v > 0 := by omega
    simp [ofI8, h1, h2]

end Action

/-! ### float conversion on bit patterns -/
namespace F64

theorem strength_le (e m : Nat) : strength e m ≤ 255 := by
  unfold strength
  split
  · exact Nat.le_refl _
  · split
    · omega
    · exact Nat.min_le_left _ _

theorem toAction_wf (b : Nat) : (toAction b).WF := by
  unfold toAction
  split
  · trivial
  · have := strength_le (expo b) (mant b)
    simp only []
    split <;> split <;> simp [Action.WF, Action.sellAll, Action.buyAll, Action.BOUND] <;> omega

theorem toAction_nan {b : Nat} (h : isNaN b = true) : toAction b = .none := by simp [toAction, h]

/-- sign preservation: a set sign bit gives `Sell`, a clear one `Buy` (never the opposite) -/
theorem toAction_sign {b : Nat} (h : isNaN b = false) :
    (sign b = true → ∃ v, toAction b = .sell v) ∧ (sign b = false → ∃ v, toAction b = .buy v) := by
  unfold toAction
  simp only [h, Bool.false_eq_true, ↓reduceIte]
  constructor
  · intro hs; simp only [hs, ↓reduceIte]; split <;> exact ⟨_, rfl⟩
  · intro hs; simp only [hs, Bool.false_eq_true, ↓reduceIte]; split <;> exact ⟨_, rfl⟩

/-- out-of-range values (|x| ≥ 1, ±inf) saturate -/
theorem toAction_saturates {b : Nat} (h : isNaN b = false) (he : expo b ≥ 1023) :
    toAction b = if sign b then Action.sellAll else Action.buyAll := by
  simp [toAction, h, strength, he]

/-- `Action::from(a.ratio())` is `a` again, for all 513 actions
    (both the division `k/255.0` and the product `·255.0` with IEEE rounding) -/
theorem from_ratio_buy : ∀ k, k ≤ 255 → toAction (ratioMagBits k) = .buy k := by decide +kernel

theorem from_ratio_sell : ∀ k, k ≤ 255 → toAction (2 ^ 63 + ratioMagBits k) = .sell k := by decide +kernel

theorem from_ratio (a : Action) (h : a.WF) : (ratioBits a).map toAction = (match a with | .none => none | a => some a) := by
  cases a with
  | none => rfl
  | buy k => exact congrArg some (from_ratio_buy k h)
  | sell k => exact congrArg some (from_ratio_sell k h)

end F64
end Yata
