/-
  HighestLowestDelta: keeps a maximal and a minimal element of the last `n` values (rescanning both when the
  leaving element carries the bits of either); the caller forms `highest − lowest`.
-/
import YataProofs.Selection
namespace Yata
open FloatLike
variable {β K : Type} [LinearOrder K] [FloatLike β K] [DecidableLT β] [DecidableLE β] {P : Nat}

theorem isMax_push_ge {M a x : β} {t : List β} (h : IsMaxOf M (a :: t)) (hge : M ≤ x) : IsMaxOf x (t ++ [x]) := by
  refine ⟨by simp, ?_⟩
  intro y hy
  rcases List.mem_append.mp hy with hy | hy
  · exact le_trans (h.2 y (by simp [hy])) ((le_iff _ _).mp hge)
  · simp at hy; rw [hy]

theorem isMax_push_keep {M a x : β} {t : List β} (h : IsMaxOf M (a :: t)) (hlt : ¬ M ≤ x) (hbe : ¬ bitEq a M = true) :
    IsMaxOf M (t ++ [x]) := by
  have hne : M ≠ a := by intro he; apply hbe; rw [← he]; exact bitEq_refl _
  have hin : M ∈ t := by
    rcases List.mem_cons.mp h.1 with h1 | h1
    · exact absurd h1 hne
    · exact h1
  refine ⟨by simp [hin], ?_⟩
  intro y hy
  rcases List.mem_append.mp hy with hy | hy
  · exact h.2 y (by simp [hy])
  · simp at hy; rw [hy]
    exact le_of_lt (not_le.mp (fun h' => hlt ((le_iff _ _).mpr h')))

theorem isMin_push_le {M a x : β} {t : List β} (h : IsMinOf M (a :: t)) (hle : x ≤ M) : IsMinOf x (t ++ [x]) := by
  refine ⟨by simp, ?_⟩
  intro y hy
  rcases List.mem_append.mp hy with hy | hy
  · exact le_trans ((le_iff _ _).mp hle) (h.2 y (by simp [hy]))
  · simp at hy; rw [hy]

theorem isMin_push_keep {M a x : β} {t : List β} (h : IsMinOf M (a :: t)) (hlt : ¬ x ≤ M) (hbe : ¬ bitEq a M = true) :
    IsMinOf M (t ++ [x]) := by
  have hne : M ≠ a := by intro he; apply hbe; rw [← he]; exact bitEq_refl _
  have hin : M ∈ t := by
    rcases List.mem_cons.mp h.1 with h1 | h1
    · exact absurd h1 hne
    · exact h1
  refine ⟨by simp [hin], ?_⟩
  intro y hy
  rcases List.mem_append.mp hy with hy | hy
  · exact h.2 y (by simp [hy])
  · simp at hy; rw [hy]
    exact le_of_lt (not_le.mp (fun h' => hlt ((le_iff _ _).mpr h')))

namespace HighestLowestDelta

structure Inv (P : Nat) (s : HighestLowestDelta β) : Prop where
  winv : Window.Inv P s.window
  pos : 0 < s.window.size
  isMax : IsMaxOf s.highest (Window.toList s.window)
  isMin : IsMinOf s.lowest (Window.toList s.window)

theorem step_spec {s : HighestLowestDelta β} (x : β) (h : Inv P s) :
    ∃ s', s.step x = .ok s' ∧ Inv P s' ∧ Window.toList s'.window = (Window.toList s.window).tail ++ [x] := by
  obtain ⟨old, w', hp, hinv', hsz, hhead, htl⟩ := Window.push_spec x h.winv h.pos
  obtain ⟨a, t, hat⟩ := List.exists_cons_of_ne_nil (Window.toList_ne_nil h.winv h.pos)
  rw [hat] at hhead htl
  simp only [List.head?_cons, Option.some.injEq] at hhead
  subst hhead
  simp only [List.tail_cons] at htl
  have hmax := h.isMax
  have hmin := h.isMin
  rw [hat] at hmax hmin
  have hpos' : 0 < w'.size := by rw [hsz]; exact h.pos
  have hit := iterAll_spec hinv'
  -- what a rescan finds
  have hscanMax : IsMaxOf (foldMax x (Window.toList w').reverse) (Window.toList w') := by
    apply (foldMax_isMax x (Window.toList w').reverse).congr
    intro y; rw [htl]
    simp only [List.mem_cons, List.mem_reverse, List.mem_append, List.mem_singleton]; tauto
  have hscanMin : IsMinOf (foldMin x (Window.toList w').reverse) (Window.toList w') := by
    apply (foldMin_isMin x (Window.toList w').reverse).congr
    intro y; rw [htl]
    simp only [List.mem_cons, List.mem_reverse, List.mem_append, List.mem_singleton]; tauto
  have htl' : Window.toList w' = (Window.toList s.window).tail ++ [x] := by rw [htl, hat]; rfl
  unfold HighestLowestDelta.step
  simp only [hp]
  by_cases hge : s.highest ≤ x <;> by_cases hle : x ≤ s.lowest <;>
    by_cases hb1 : bitEq a s.highest = true <;> by_cases hb2 : bitEq a s.lowest = true <;>
    simp only [hge, hle, hb1, hb2, ↓reduceIte, Bool.or_self, Bool.or_false, Bool.false_or, Bool.or_true, Bool.true_or,
      Bool.false_eq_true, hit] <;>
    first
    | exact ⟨_, rfl, ⟨hinv', hpos', hscanMax, hscanMin⟩, htl'⟩
    | exact ⟨_, rfl, ⟨hinv', hpos', by rw [htl]; exact isMax_push_ge hmax hge, by rw [htl]; exact isMin_push_le hmin hle⟩, htl'⟩
    | exact ⟨_, rfl, ⟨hinv', hpos', by rw [htl]; exact isMax_push_ge hmax hge, by rw [htl]; exact isMin_push_keep hmin hle hb2⟩, htl'⟩
    | exact ⟨_, rfl, ⟨hinv', hpos', by rw [htl]; exact isMax_push_keep hmax hge hb1, by rw [htl]; exact isMin_push_le hmin hle⟩, htl'⟩
    | exact ⟨_, rfl, ⟨hinv', hpos', by rw [htl]; exact isMax_push_keep hmax hge hb1, by rw [htl]; exact isMin_push_keep hmin hle hb2⟩, htl'⟩

theorem new_spec {n : Nat} (v : β) (hn0 : 0 < n) (hn : n ≤ P - 1) :
    ∃ s, HighestLowestDelta.new P n v = .ok s ∧ Inv P s ∧ Window.toList s.window = List.replicate n v := by
  have hnP : n ≠ P := by omega
  obtain ⟨w, hw, hinv, htl, hsz⟩ := Window.new_ok (P := P) v hn
  have hmem : v ∈ List.replicate n v := by
    cases n with
    | zero => omega
    | succ m => simp [List.replicate_succ]
  refine ⟨⟨v, v, w⟩, by simp [HighestLowestDelta.new, Nat.pos_iff_ne_zero.mp hn0, hnP, hw, Res.ofExcept, Res.bind],
    ⟨hinv, by show 0 < w.size; omega, ?_, ?_⟩, htl⟩
  · show IsMaxOf v (Window.toList w)
    rw [htl]; exact ⟨hmem, fun y hy => by rw [List.eq_of_mem_replicate hy]⟩
  · show IsMinOf v (Window.toList w)
    rw [htl]; exact ⟨hmem, fun y hy => by rw [List.eq_of_mem_replicate hy]⟩

end HighestLowestDelta
end Yata
