/-
  A formal rounding-error bound for the EMA update `value = (x − value)·α + value` under the standard model of
  floating-point arithmetic: the recursion is contractive, so the drift is bounded UNIFORMLY in the number of steps:

      |float − exact| ≤ c / (1 − ρ),   ρ = (1+u)(1 − α + γ·α),  c = (1+u)·γ·α·2M + u·M,  γ = (1+u)³ − 1

  whenever ρ < 1 (i.e. α is not of the order of the unit round-off) — for α = 2/(n+1) this is about u·M·(n/2 + 7),
  whatever the length of the stream.
-/
import YataProofs.MALaws
import Mathlib.Tactic.Linarith
import Mathlib.Tactic.Positivity
namespace Yata.FloatBound
variable {K : Type} [Field K] [LinearOrder K] [IsStrictOrderedRing K]

def emaFl (fl : K → K) (a : K) : K → List K → K
  | v, [] => v
  | v, x :: t => emaFl fl a (fl (fl (fl (x - v) * a) + v)) t

theorem ema_step_bound (fl : K → K) (u : K) (hu : 0 ≤ u) (hfl : ∀ x, |fl x - x| ≤ u * |x|)
    (α : K) (h0 : 0 ≤ α) (h1 : α ≤ 1) (a : K) (ha : |a - α| ≤ u * α) (M : K) (v e x : K)
    (hx : |x| ≤ M) (he : |e| ≤ M) (he' : |(x - e) * α + e| ≤ M) :
    |fl (fl (fl (x - v) * a) + v) - ((x - e) * α + e)| ≤
      ((1 + u) * (1 - α + ((1 + u) ^ 3 - 1) * α)) * |v - e| + ((1 + u) * ((1 + u) ^ 3 - 1) * α * (2 * M) + u * M) := by
  have hM : 0 ≤ M := le_trans (abs_nonneg x) hx
  set δ := |v - e| with hδ
  have hδ0 : 0 ≤ δ := abs_nonneg _
  have hv : |v| ≤ M + δ := by
    calc |v| = |(v - e) + e| := by ring_nf
      _ ≤ |v - e| + |e| := abs_add_le _ _
      _ ≤ M + δ := by linarith
  set w := x - v with hw
  have hwabs : |w| ≤ 2 * M + δ := by
    calc |w| = |x - v| := rfl
      _ ≤ |x| + |v| := abs_sub x v
      _ ≤ 2 * M + δ := by linarith
  set w1 := fl w
  have q1 : |w1 - w| ≤ u * |w| := hfl w
  have q1' : |w1| ≤ (1 + u) * |w| := by
    calc |w1| = |(w1 - w) + w| := by ring_nf
      _ ≤ |w1 - w| + |w| := abs_add_le _ _
      _ ≤ (1 + u) * |w| := by linarith
  have haabs : |a| ≤ (1 + u) * α := by
    calc |a| = |(a - α) + α| := by ring_nf
      _ ≤ |a - α| + |α| := abs_add_le _ _
      _ ≤ (1 + u) * α := by rw [abs_of_nonneg h0]; linarith
  -- product against w·α
  have hp : |w1 * a - w * α| ≤ u * (2 + u) * α * |w| := by
    have e1 : w1 * a - w * α = w1 * (a - α) + (w1 - w) * α := by ring
    rw [e1]
    calc |w1 * (a - α) + (w1 - w) * α| ≤ |w1 * (a - α)| + |(w1 - w) * α| := abs_add_le _ _
      _ = |w1| * |a - α| + |w1 - w| * α := by rw [abs_mul, abs_mul, abs_of_nonneg h0]
      _ ≤ (1 + u) * |w| * (u * α) + u * |w| * α := by
          have := mul_le_mul q1' ha (abs_nonneg _) (by positivity)
          have := mul_le_mul_of_nonneg_right q1 h0
          linarith
      _ = u * (2 + u) * α * |w| := by ring
  have hpabs : |w1 * a| ≤ (1 + u) ^ 2 * α * |w| := by
    rw [abs_mul]
    calc |w1| * |a| ≤ ((1 + u) * |w|) * ((1 + u) * α) := mul_le_mul q1' haabs (abs_nonneg _) (by positivity)
      _ = (1 + u) ^ 2 * α * |w| := by ring
  set t2 := fl (w1 * a)
  have q2 : |t2 - w1 * a| ≤ u * |w1 * a| := hfl _
  have hγ : |t2 - w * α| ≤ ((1 + u) ^ 3 - 1) * α * |w| := by
    calc |t2 - w * α| = |(t2 - w1 * a) + (w1 * a - w * α)| := by ring_nf
      _ ≤ |t2 - w1 * a| + |w1 * a - w * α| := abs_add_le _ _
      _ ≤ u * ((1 + u) ^ 2 * α * |w|) + u * (2 + u) * α * |w| := by
          have := mul_le_mul_of_nonneg_left hpabs hu
          linarith
      _ = ((1 + u) ^ 3 - 1) * α * |w| := by ring
  have hγ0 : 0 ≤ (1 + u) ^ 3 - 1 := by nlinarith [sq_nonneg u, mul_nonneg hu (sq_nonneg u)]
  have hγ' : |t2 - w * α| ≤ ((1 + u) ^ 3 - 1) * α * (2 * M + δ) :=
    le_trans hγ (mul_le_mul_of_nonneg_left hwabs (mul_nonneg hγ0 h0))
  set s := t2 + v
  have hse : s - ((x - e) * α + e) = (1 - α) * (v - e) + (t2 - w * α) := by
    show t2 + v - ((x - e) * α + e) = (1 - α) * (v - e) + (t2 - (x - v) * α)
    ring
  have hse' : |s - ((x - e) * α + e)| ≤ (1 - α) * δ + ((1 + u) ^ 3 - 1) * α * (2 * M + δ) := by
    rw [hse]
    calc |(1 - α) * (v - e) + (t2 - w * α)| ≤ |(1 - α) * (v - e)| + |t2 - w * α| := abs_add_le _ _
      _ = (1 - α) * δ + |t2 - w * α| := by rw [abs_mul, abs_of_nonneg (by linarith : 0 ≤ 1 - α)]
      _ ≤ _ := by linarith
  have hsabs : |s| ≤ M + ((1 - α) * δ + ((1 + u) ^ 3 - 1) * α * (2 * M + δ)) := by
    calc |s| = |(s - ((x - e) * α + e)) + ((x - e) * α + e)| := by ring_nf
      _ ≤ |s - ((x - e) * α + e)| + |(x - e) * α + e| := abs_add_le _ _
      _ ≤ _ := by linarith
  have q3 : |fl s - s| ≤ u * |s| := hfl s
  calc |fl s - ((x - e) * α + e)| = |(fl s - s) + (s - ((x - e) * α + e))| := by ring_nf
    _ ≤ |fl s - s| + |s - ((x - e) * α + e)| := abs_add_le _ _
    _ ≤ u * (M + ((1 - α) * δ + ((1 + u) ^ 3 - 1) * α * (2 * M + δ))) + ((1 - α) * δ + ((1 + u) ^ 3 - 1) * α * (2 * M + δ)) := by
        have := mul_le_mul_of_nonneg_left hsabs hu
        linarith
    _ = ((1 + u) * (1 - α + ((1 + u) ^ 3 - 1) * α)) * δ + ((1 + u) * ((1 + u) ^ 3 - 1) * α * (2 * M) + u * M) := by ring

/-- uniform bound: for every stream bounded by `M` (from a start bounded by `M`), at every step -/
theorem ema_drift_uniform (fl : K → K) (u : K) (hu : 0 ≤ u) (hfl : ∀ x, |fl x - x| ≤ u * |x|)
    (α : K) (h0 : 0 ≤ α) (h1 : α ≤ 1) (a : K) (ha : |a - α| ≤ u * α) (M : K)
    (hρ : (1 + u) * (1 - α + ((1 + u) ^ 3 - 1) * α) < 1) (B : K)
    (hB : ((1 + u) * ((1 + u) ^ 3 - 1) * α * (2 * M) + u * M) ≤ (1 - (1 + u) * (1 - α + ((1 + u) ^ 3 - 1) * α)) * B)
    (xs : List K) (hx : ∀ x ∈ xs, |x| ≤ M) (v e : K) (he : |e| ≤ M) (hve : |v - e| ≤ B) :
    |emaFl fl a v xs - Spec.emaRec α e xs| ≤ B := by
  induction xs generalizing v e with
  | nil => simpa [emaFl, Spec.emaRec] using hve
  | cons x t ih =>
    have hxM := hx x (by simp)
    have hM : 0 ≤ M := le_trans (abs_nonneg x) hxM
    have he' : |(x - e) * α + e| ≤ M := by
      have : (x - e) * α + e = α * x + (1 - α) * e := by ring
      rw [this]
      calc |α * x + (1 - α) * e| ≤ |α * x| + |(1 - α) * e| := abs_add_le _ _
        _ = α * |x| + (1 - α) * |e| := by rw [abs_mul, abs_mul, abs_of_nonneg h0, abs_of_nonneg (by linarith : 0 ≤ 1 - α)]
        _ ≤ α * M + (1 - α) * M := by
            have := mul_le_mul_of_nonneg_left hxM h0
            have := mul_le_mul_of_nonneg_left he (by linarith : 0 ≤ 1 - α)
            linarith
        _ = M := by ring
    have hs := ema_step_bound fl u hu hfl α h0 h1 a ha M v e x hxM he he'
    simp only [emaFl, Spec.emaRec]
    apply ih (fun y hy => hx y (by simp [hy])) _ _ he'
    set ρ := (1 + u) * (1 - α + ((1 + u) ^ 3 - 1) * α)
    set c := (1 + u) * ((1 + u) ^ 3 - 1) * α * (2 * M) + u * M
    have hρ0 : 0 ≤ ρ := by
      have : 0 ≤ (1 + u) ^ 3 - 1 := by nlinarith [sq_nonneg u, mul_nonneg hu (sq_nonneg u)]
      have : 0 ≤ 1 - α + ((1 + u) ^ 3 - 1) * α := by nlinarith
      positivity
    calc |fl (fl (fl (x - v) * a) + v) - ((x - e) * α + e)| ≤ ρ * |v - e| + c := hs
      _ ≤ ρ * B + c := by have := mul_le_mul_of_nonneg_left hve hρ0; linarith
      _ ≤ B := by linarith

end Yata.FloatBound
