/-
  HighestIndex / LowestIndex: the returned index is the age of the NEWEST extreme element of the
  window (ties: newest wins), for every reachable state.
-/
import YataProofs.Selection
import Mathlib.Tactic.Linarith
namespace Yata
open FloatLike
variable {β K : Type} [LinearOrder K] [FloatLike β K] [DecidableLT β] [DecidableLE β] {P : Nat}

/-- `r` is the window newest-first; `v` sits at age `i`, everything newer is strictly smaller and
    nothing is larger -/
def NewestMaxAt (i : Nat) (v : β) (r : List β) : Prop :=
  r[i]? = some v ∧ (∀ j y, j < i → r[j]? = some y → num y < num v) ∧ (∀ y ∈ r, num y ≤ num v)

def NewestMinAt (i : Nat) (v : β) (r : List β) : Prop :=
  r[i]? = some v ∧ (∀ j y, j < i → r[j]? = some y → num v < num y) ∧ (∀ y ∈ r, num v ≤ num y)

/-- the age is determined by the list: "the newest maximal element" is unique -/
theorem NewestMaxAt.unique {i i' : Nat} {v v' : β} {r : List β} (h : NewestMaxAt i v r) (h' : NewestMaxAt i' v' r) :
    i = i' := by
  rcases Nat.lt_trichotomy i i' with hlt | heq | hgt
  · have := h'.2.1 i v hlt h.1
    have := h.2.2 v' (List.mem_of_getElem? h'.1)
    exact absurd ‹num v < num v'› (not_lt.mpr this)
  · exact heq
  · have := h.2.1 i' v' hgt h'.1
    have := h'.2.2 v (List.mem_of_getElem? h.1)
    exact absurd ‹num v' < num v› (not_lt.mpr this)

theorem NewestMinAt.unique {i i' : Nat} {v v' : β} {r : List β} (h : NewestMinAt i v r) (h' : NewestMinAt i' v' r) :
    i = i' := by
  rcases Nat.lt_trichotomy i i' with hlt | heq | hgt
  · have := h'.2.1 i v hlt h.1
    have := h.2.2 v' (List.mem_of_getElem? h'.1)
    exact absurd ‹num v' < num v› (not_lt.mpr this)
  · exact heq
  · have := h.2.1 i' v' hgt h'.1
    have := h'.2.2 v (List.mem_of_getElem? h.1)
    exact absurd ‹num v < num v'› (not_lt.mpr this)

/-! ### the rescan fold -/

theorem argFold_max_go (l pre : List β) (i0 : Nat) (v0 : β) (h : NewestMaxAt i0 v0 pre) :
    NewestMaxAt
      ((l.zipIdx pre.length).foldl (fun (a : Nat × β) (b : β × Nat) => if decide (a.2 < b.1) = true then (b.2, b.1) else a) (i0, v0)).1
      ((l.zipIdx pre.length).foldl (fun (a : Nat × β) (b : β × Nat) => if decide (a.2 < b.1) = true then (b.2, b.1) else a) (i0, v0)).2
      (pre ++ l) := by
  induction l generalizing pre i0 v0 with
  | nil => simpa using h
  | cons y t ih =>
    have hi0 : i0 < pre.length := by
      have := h.1
      exact (List.getElem?_eq_some_iff.mp this).1
    simp only [List.zipIdx_cons, List.foldl_cons]
    have hlen : (pre ++ [y]).length = pre.length + 1 := by simp
    by_cases hlt : v0 < y
    · have hn : num v0 < num y := (lt_iff _ _).mp hlt
      have hnew : NewestMaxAt pre.length y (pre ++ [y]) := by
        refine ⟨by simp, ?_, ?_⟩
        · intro j z hj hz
          rw [List.getElem?_append_left hj] at hz
          exact lt_of_le_of_lt (h.2.2 z (List.mem_of_getElem? hz)) hn
        · intro z hz
          rcases List.mem_append.mp hz with hz | hz
          · exact le_of_lt (lt_of_le_of_lt (h.2.2 z hz) hn)
          · simp at hz; rw [hz]
      have := ih (pre ++ [y]) pre.length y hnew
      simp only [hlt, decide_true, ↓reduceIte]
      rw [hlen] at this
      simpa [List.append_assoc] using this
    · have hn : num y ≤ num v0 := not_lt.mp (fun h' => hlt ((lt_iff _ _).mpr h'))
      have hkeep : NewestMaxAt i0 v0 (pre ++ [y]) := by
        refine ⟨by rw [List.getElem?_append_left hi0]; exact h.1, ?_, ?_⟩
        · intro j z hj hz
          rw [List.getElem?_append_left (by omega)] at hz
          exact h.2.1 j z hj hz
        · intro z hz
          rcases List.mem_append.mp hz with hz | hz
          · exact h.2.2 z hz
          · simp at hz; rw [hz]; exact hn
      have := ih (pre ++ [y]) i0 v0 hkeep
      simp only [hlt, decide_false, Bool.false_eq_true, ↓reduceIte]
      rw [hlen] at this
      simpa [List.append_assoc] using this

/-- the rescan of `HighestIndex::next`: folding over the window (newest first) whose head is the
    value just pushed -/
theorem argFold_max_spec (x : β) (t : List β) :
    NewestMaxAt (argFold (fun b a => decide (a < b)) x (x :: t)).1 (argFold (fun b a => decide (a < b)) x (x :: t)).2 (x :: t) := by
  have h0 : NewestMaxAt 0 x [x] := ⟨rfl, fun j y hj _ => by omega, fun y hy => by simp at hy; rw [hy]⟩
  have := argFold_max_go t [x] 0 x h0
  have hirr : ¬ (x < x) := fun h => lt_irrefl _ ((lt_iff _ _).mp h)
  simpa [argFold, List.zipIdx_cons, hirr] using this

theorem argFold_min_go (l pre : List β) (i0 : Nat) (v0 : β) (h : NewestMinAt i0 v0 pre) :
    NewestMinAt
      ((l.zipIdx pre.length).foldl (fun (a : Nat × β) (b : β × Nat) => if decide (b.1 < a.2) = true then (b.2, b.1) else a) (i0, v0)).1
      ((l.zipIdx pre.length).foldl (fun (a : Nat × β) (b : β × Nat) => if decide (b.1 < a.2) = true then (b.2, b.1) else a) (i0, v0)).2
      (pre ++ l) := by
  induction l generalizing pre i0 v0 with
  | nil => simpa using h
  | cons y t ih =>
    have hi0 : i0 < pre.length := by
      have := h.1
      exact (List.getElem?_eq_some_iff.mp this).1
    simp only [List.zipIdx_cons, List.foldl_cons]
    have hlen : (pre ++ [y]).length = pre.length + 1 := by simp
    by_cases hlt : y < v0
    · have hn : num y < num v0 := (lt_iff _ _).mp hlt
      have hnew : NewestMinAt pre.length y (pre ++ [y]) := by
        refine ⟨by simp, ?_, ?_⟩
        · intro j z hj hz
          rw [List.getElem?_append_left hj] at hz
          exact lt_of_lt_of_le hn (h.2.2 z (List.mem_of_getElem? hz))
        · intro z hz
          rcases List.mem_append.mp hz with hz | hz
          · exact le_of_lt (lt_of_lt_of_le hn (h.2.2 z hz))
          · simp at hz; rw [hz]
      have := ih (pre ++ [y]) pre.length y hnew
      simp only [hlt, decide_true, ↓reduceIte]
      rw [hlen] at this
      simpa [List.append_assoc] using this
    · have hn : num v0 ≤ num y := not_lt.mp (fun h' => hlt ((lt_iff _ _).mpr h'))
      have hkeep : NewestMinAt i0 v0 (pre ++ [y]) := by
        refine ⟨by rw [List.getElem?_append_left hi0]; exact h.1, ?_, ?_⟩
        · intro j z hj hz
          rw [List.getElem?_append_left (by omega)] at hz
          exact h.2.1 j z hj hz
        · intro z hz
          rcases List.mem_append.mp hz with hz | hz
          · exact h.2.2 z hz
          · simp at hz; rw [hz]; exact hn
      have := ih (pre ++ [y]) i0 v0 hkeep
      simp only [hlt, decide_false, Bool.false_eq_true, ↓reduceIte]
      rw [hlen] at this
      simpa [List.append_assoc] using this

theorem argFold_min_spec (x : β) (t : List β) :
    NewestMinAt (argFold (fun b a => decide (b < a)) x (x :: t)).1 (argFold (fun b a => decide (b < a)) x (x :: t)).2 (x :: t) := by
  have h0 : NewestMinAt 0 x [x] := ⟨rfl, fun j y hj _ => by omega, fun y hy => by simp at hy; rw [hy]⟩
  have := argFold_min_go t [x] 0 x h0
  have hirr : ¬ (x < x) := fun h => lt_irrefl _ ((lt_iff _ _).mp h)
  simpa [argFold, List.zipIdx_cons, hirr] using this

/-! ### pushing one value: the newest-first view -/

theorem toList_length_inv {w : Window β} (h : Window.Inv P w) : (Window.toList w).length = w.size := by
  obtain ⟨hs, _, hi, _⟩ := h
  rw [Window.toList_length w (by rcases hi with hi | ⟨_, hi⟩ <;> omega), hs]

theorem reverse_tail_snoc (l : List β) (x : β) : (l.tail ++ [x]).reverse = x :: l.reverse.dropLast := by
  cases l with
  | nil => simp
  | cons a t => simp [List.dropLast_concat]

namespace HighestIndex

structure Inv (P : Nat) (s : HighestIndex β) : Prop where
  winv : Window.Inv P s.window
  pos : 0 < s.window.size
  at_ : NewestMaxAt s.index s.value (Window.toList s.window).reverse

theorem index_lt {s : HighestIndex β} (h : Inv P s) : s.index < s.window.size := by
  have := (List.getElem?_eq_some_iff.mp h.at_.1).1
  have hl := toList_length_inv h.winv
  simp only [List.length_reverse] at this
  omega

/-- one step: no panic, the invariant is kept, the output is the new index -/
theorem next_spec {s : HighestIndex β} (x : β) (h : Inv P s) :
    ∃ o s', HighestIndex.next P s x = .ok (o, s') ∧ Inv P s' ∧ o = s'.index ∧
      Window.toList s'.window = (Window.toList s.window).tail ++ [x] := by
  obtain ⟨old, w', hp, hinv', hsz, _, htl⟩ := Window.push_spec x h.winv h.pos
  have hidx := index_lt h
  have hP : s.window.size ≤ P - 1 := h.winv.4
  have hchk : chkAdd P s.index 1 = .ok (s.index + 1) := by
    unfold chkAdd; rw [if_pos (by omega)]
  set r := (Window.toList s.window).reverse with hr
  have hr' : (Window.toList w').reverse = x :: r.dropLast := by rw [htl, reverse_tail_snoc]
  have hrlen : r.length = s.window.size := by rw [hr, List.length_reverse, toList_length_inv h.winv]
  obtain ⟨hget, hnewer, hall⟩ := h.at_
  have hdl : ∀ y ∈ r.dropLast, num y ≤ num s.value := fun y hy => hall y (List.dropLast_subset _ hy)
  unfold HighestIndex.next
  simp only [hp, hchk]
  by_cases hle : s.value ≤ x
  · have hn : num s.value ≤ num x := (le_iff _ _).mp hle
    refine ⟨0, { index := 0, value := x, window := w' }, by simp [hle], ⟨hinv', by show 0 < w'.size; omega, ?_⟩, rfl, htl⟩
    show NewestMaxAt 0 x (Window.toList w').reverse
    rw [hr']
    refine ⟨rfl, fun j y hj _ => by omega, ?_⟩
    intro y hy
    rcases List.mem_cons.mp hy with hy | hy
    · rw [hy]
    · exact le_trans (hdl y hy) hn
  · have hn : num x < num s.value := not_le.mp (fun h' => hle ((le_iff _ _).mpr h'))
    simp only [hle, ↓reduceIte]
    by_cases hfull : s.index + 1 = w'.len
    · -- the remembered maximum has just left the window: rescan, newest first
      have hit := iterAll_spec (P := P) hinv'
      rw [hr'] at hit
      simp only [hfull, ↓reduceIte, hit]
      have hspec := argFold_max_spec x r.dropLast
      refine ⟨_, _, rfl, ⟨hinv', by show 0 < w'.size; omega, ?_⟩, rfl, htl⟩
      show NewestMaxAt _ _ (Window.toList w').reverse
      rw [hr']; exact hspec
    · have hlt : s.index + 1 < s.window.size := by
        have : w'.len = s.window.size := hsz
        omega
      simp only [hfull, ↓reduceIte]
      refine ⟨s.index + 1, { s with index := s.index + 1, window := w' }, rfl,
        ⟨hinv', by show 0 < w'.size; omega, ?_⟩, rfl, htl⟩
      show NewestMaxAt (s.index + 1) s.value (Window.toList w').reverse
      rw [hr']
      refine ⟨?_, ?_, ?_⟩
      · rw [List.getElem?_cons_succ, List.getElem?_dropLast, if_pos (by omega)]
        exact hget
      · intro j y hj hy
        cases j with
        | zero => simp at hy; rw [← hy]; exact hn
        | succ j' =>
          rw [List.getElem?_cons_succ, List.getElem?_dropLast] at hy
          split at hy
          · exact hnewer j' y (by omega) hy
          · cases hy
      · intro y hy
        rcases List.mem_cons.mp hy with hy | hy
        · rw [hy]; exact le_of_lt hn
        · exact hdl y hy

theorem new_spec {n : Nat} (v : β) (hn0 : 0 < n) (hn : n ≤ P - 1) :
    ∃ s, HighestIndex.new P n v = .ok s ∧ Inv P s ∧ Window.toList s.window = List.replicate n v := by
  have hnP : n ≠ P := by omega
  obtain ⟨w, hw, hinv, htl, hsz⟩ := Window.new_ok (P := P) v hn
  refine ⟨⟨0, v, w⟩, by simp [HighestIndex.new, Nat.pos_iff_ne_zero.mp hn0, hnP, hw, Res.ofExcept, Res.bind],
    ⟨hinv, by show 0 < w.size; omega, ?_⟩, htl⟩
  show NewestMaxAt 0 v (Window.toList w).reverse
  rw [htl, List.reverse_replicate]
  refine ⟨?_, fun j y hj _ => by omega, fun y hy => by rw [List.eq_of_mem_replicate hy]⟩
  cases n with
  | zero => omega
  | succ m => simp [List.replicate_succ]

end HighestIndex

namespace LowestIndex

structure Inv (P : Nat) (s : LowestIndex β) : Prop where
  winv : Window.Inv P s.window
  pos : 0 < s.window.size
  at_ : NewestMinAt s.index s.value (Window.toList s.window).reverse

theorem index_lt {s : LowestIndex β} (h : Inv P s) : s.index < s.window.size := by
  have := (List.getElem?_eq_some_iff.mp h.at_.1).1
  have hl := toList_length_inv h.winv
  simp only [List.length_reverse] at this
  omega

theorem next_spec {s : LowestIndex β} (x : β) (h : Inv P s) :
    ∃ o s', LowestIndex.next P s x = .ok (o, s') ∧ Inv P s' ∧ o = s'.index ∧
      Window.toList s'.window = (Window.toList s.window).tail ++ [x] := by
  obtain ⟨old, w', hp, hinv', hsz, _, htl⟩ := Window.push_spec x h.winv h.pos
  have hidx := index_lt h
  have hP : s.window.size ≤ P - 1 := h.winv.4
  have hchk : chkAdd P s.index 1 = .ok (s.index + 1) := by
    unfold chkAdd; rw [if_pos (by omega)]
  set r := (Window.toList s.window).reverse with hr
  have hr' : (Window.toList w').reverse = x :: r.dropLast := by rw [htl, reverse_tail_snoc]
  obtain ⟨hget, hnewer, hall⟩ := h.at_
  have hdl : ∀ y ∈ r.dropLast, num s.value ≤ num y := fun y hy => hall y (List.dropLast_subset _ hy)
  unfold LowestIndex.next
  simp only [hp, hchk]
  by_cases hle : x ≤ s.value
  · have hn : num x ≤ num s.value := (le_iff _ _).mp hle
    refine ⟨0, { index := 0, value := x, window := w' }, by simp [hle], ⟨hinv', by show 0 < w'.size; omega, ?_⟩, rfl, htl⟩
    show NewestMinAt 0 x (Window.toList w').reverse
    rw [hr']
    refine ⟨rfl, fun j y hj _ => by omega, ?_⟩
    intro y hy
    rcases List.mem_cons.mp hy with hy | hy
    · rw [hy]
    · exact le_trans hn (hdl y hy)
  · have hn : num s.value < num x := not_le.mp (fun h' => hle ((le_iff _ _).mpr h'))
    simp only [hle, ↓reduceIte]
    by_cases hfull : s.index + 1 = w'.len
    · have hit := iterAll_spec (P := P) hinv'
      rw [hr'] at hit
      simp only [hfull, ↓reduceIte, hit]
      have hspec := argFold_min_spec x r.dropLast
      refine ⟨_, _, rfl, ⟨hinv', by show 0 < w'.size; omega, ?_⟩, rfl, htl⟩
      show NewestMinAt _ _ (Window.toList w').reverse
      rw [hr']; exact hspec
    · have hlt : s.index + 1 < s.window.size := by
        have : w'.len = s.window.size := hsz
        omega
      simp only [hfull, ↓reduceIte]
      refine ⟨s.index + 1, { s with index := s.index + 1, window := w' }, rfl,
        ⟨hinv', by show 0 < w'.size; omega, ?_⟩, rfl, htl⟩
      show NewestMinAt (s.index + 1) s.value (Window.toList w').reverse
      rw [hr']
      have hrlen : r.length = s.window.size := by rw [hr, List.length_reverse, toList_length_inv h.winv]
      refine ⟨?_, ?_, ?_⟩
      · rw [List.getElem?_cons_succ, List.getElem?_dropLast, if_pos (by omega)]
        exact hget
      · intro j y hj hy
        cases j with
        | zero => simp at hy; rw [← hy]; exact hn
        | succ j' =>
          rw [List.getElem?_cons_succ, List.getElem?_dropLast] at hy
          split at hy
          · exact hnewer j' y (by omega) hy
          · cases hy
      · intro y hy
        rcases List.mem_cons.mp hy with hy | hy
        · rw [hy]; exact le_of_lt hn
        · exact hdl y hy

theorem new_spec {n : Nat} (v : β) (hn0 : 0 < n) (hn : n ≤ P - 1) :
    ∃ s, LowestIndex.new P n v = .ok s ∧ Inv P s ∧ Window.toList s.window = List.replicate n v := by
  have hnP : n ≠ P := by omega
  obtain ⟨w, hw, hinv, htl, hsz⟩ := Window.new_ok (P := P) v hn
  refine ⟨⟨0, v, w⟩, by simp [LowestIndex.new, Nat.pos_iff_ne_zero.mp hn0, hnP, hw, Res.ofExcept, Res.bind],
    ⟨hinv, by show 0 < w.size; omega, ?_⟩, htl⟩
  show NewestMinAt 0 v (Window.toList w).reverse
  rw [htl, List.reverse_replicate]
  refine ⟨?_, fun j y hj _ => by omega, fun y hy => by rw [List.eq_of_mem_replicate hy]⟩
  cases n with
  | zero => omega
  | succ m => simp [List.replicate_succ]

end LowestIndex
end Yata
