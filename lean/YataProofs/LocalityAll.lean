import YataProofs.Locality
namespace Yata
variable {K : Type} [Field K] [LinearOrder K] [IsStrictOrderedRing K]

/-- every spec that is a function of the window is local: after at least `n` inputs nothing older is remembered -/
theorem window_specs_locality [Inhabited K] (n : Nat) (hn : 2 ≤ n) (v w : K) (xs ys : List K) (h : n ≤ ys.length) (ws : List K)
    (hw : ws.length ≤ ys.length) :
    Spec.swma n v (xs ++ ys) = Spec.swma n w ys ∧
    Spec.linreg n v (xs ++ ys) = Spec.linreg n w ys ∧
    Spec.smm n v (xs ++ ys) = Spec.smm n w ys ∧
    Spec.conv ws v (xs ++ ys) = Spec.conv ws w ys ∧
    Spec.variance n v (xs ++ ys) = Spec.variance n w ys ∧
    Spec.meanAbsDev n v (xs ++ ys) = Spec.meanAbsDev n w ys ∧
    Spec.medianAbsDev n v (xs ++ ys) = Spec.medianAbsDev n w ys ∧
    Spec.highest n v (xs ++ ys) = Spec.highest n w ys ∧
    Spec.lowest n v (xs ++ ys) = Spec.lowest n w ys ∧
    Spec.highestIndex n v (xs ++ ys) = Spec.highestIndex n w ys ∧
    Spec.lowestIndex n v (xs ++ ys) = Spec.lowestIndex n w ys := by
  have e := win_locality n v w xs ys h
  have e' := win_locality ws.length v w xs ys hw
  refine ⟨?_, ?_, ?_, ?_, ?_, ?_, ?_, ?_, ?_, ?_, ?_⟩
  · unfold Spec.swma; rw [if_neg (by omega), if_neg (by omega)]; unfold Spec.win; rw [e]
  · unfold Spec.linreg Spec.win; rw [e]
  · unfold Spec.smm Spec.win; rw [e]
  · unfold Spec.conv Spec.win; rw [e']
  · unfold Spec.variance Spec.win; rw [e]
  · unfold Spec.meanAbsDev Spec.win; rw [e]
  · unfold Spec.medianAbsDev Spec.win; rw [e]
  · unfold Spec.highest Spec.win; rw [e]
  · unfold Spec.lowest Spec.win; rw [e]
  · unfold Spec.highestIndex Spec.win; rw [e]
  · unfold Spec.lowestIndex Spec.win; rw [e]

end Yata
