/-
  The construction value acts as an infinite constant prehistory (C08), at the level of the
  from-scratch specs that the machines are proved equal to (C02–C04):
    * extra leading copies of the construction value do not change the window (prefix invariance);
    * on constant input every spec returns its fixed value.
-/
import YataProofs.Numeric.WMA
import YataProofs.Numeric.EMA
import YataProofs.Numeric.Simple
import YataProofs.Selection
namespace Yata
variable {α : Type}

theorem lastN_replicate_append {n m : Nat} (v : α) (xs : List α) (hm : n ≤ m) :
    lastN n (List.replicate m v ++ xs) = lastN n (List.replicate n v ++ xs) := by
  unfold lastN
  simp only [List.length_append, List.length_replicate, List.drop_append, List.drop_replicate]
  have e1 : m - (m + xs.length - n) = n - (n + xs.length - n) := by omega
  have e2 : m + xs.length - n - m = n + xs.length - n - n := by omega
  rw [e1, e2]

/-- prefix invariance of the window: `j` extra leading copies of the construction value -/
theorem win_prefix_invariant (n j : Nat) (v : α) (xs : List α) :
    lastN n (history n v (List.replicate j v ++ xs)) = lastN n (history n v xs) := by
  unfold history
  rw [← List.append_assoc, ← List.replicate_add]
  exact lastN_replicate_append v xs (by omega)

/-- on constant input the window is constant -/
theorem win_constant (n k : Nat) (v : α) : lastN n (history n v (List.replicate k v)) = List.replicate n v := by
  have := win_prefix_invariant n k v ([] : List α)
  simp only [List.append_nil] at this
  rw [this, lastN_history_nil]

section Field
variable {K : Type} [Field K] [LinearOrder K] [IsStrictOrderedRing K]

theorem sma_constant (n k : Nat) (hn : 0 < n) (v : K) : Spec.sma n v (List.replicate k v) = v := by
  have hnK : (n : K) ≠ 0 := by exact_mod_cast Nat.pos_iff_ne_zero.mp hn
  simp only [Spec.sma, Spec.win, win_constant, Spec.mean, sum_replicate_field]
  field_simp

theorem wma_constant (n k : Nat) (hn : 0 < n) (v : K) : Spec.wma n v (List.replicate k v) = v := by
  have h2 : (((n * (n + 1) / 2 : Nat)) : K) ≠ 0 := by
    have : 0 < n * (n + 1) / 2 := by
      apply Nat.div_pos _ (by norm_num)
      have : 1 * 2 ≤ n * (n + 1) := Nat.mul_le_mul hn (by omega)
      omega
    exact_mod_cast Nat.pos_iff_ne_zero.mp this
  simp only [Spec.wma, Spec.win, win_constant, rampSum_replicate]
  field_simp

theorem integral_constant (n k : Nat) (v : K) : Spec.integral n v (List.replicate k v) = (n : K) * v := by
  simp only [Spec.integral, Spec.win, win_constant, sum_replicate_field]

/-- prefix invariance of every window spec (they read the history through `win` only) -/
theorem sma_prefix (n j : Nat) (v : K) (xs : List K) :
    Spec.sma n v (List.replicate j v ++ xs) = Spec.sma n v xs := by
  simp only [Spec.sma, Spec.win, win_prefix_invariant]

theorem wma_prefix (n j : Nat) (v : K) (xs : List K) :
    Spec.wma n v (List.replicate j v ++ xs) = Spec.wma n v xs := by
  simp only [Spec.wma, Spec.win, win_prefix_invariant]

theorem integral_prefix (n j : Nat) (v : K) (xs : List K) :
    Spec.integral n v (List.replicate j v ++ xs) = Spec.integral n v xs := by
  simp only [Spec.integral, Spec.win, win_prefix_invariant]

/-- exponential family: the recurrence started at `v` and fed `v` stays at `v` -/
theorem emaRec_constant (a v : K) (k : Nat) : Spec.emaRec a v (List.replicate k v) = v := by
  induction k with
  | zero => rfl
  | succ k ih => simp [List.replicate_succ, Spec.emaRec, ih]

theorem emaRec_prefix (a v : K) (j : Nat) (xs : List K) :
    Spec.emaRec a v (List.replicate j v ++ xs) = Spec.emaRec a v xs := by
  induction j with
  | zero => rfl
  | succ j ih => simp [List.replicate_succ, Spec.emaRec, ih]

theorem e1_constant (a v : K) (k : Nat) : e1 a v (List.replicate k v) = v := emaRec_constant a v k

theorem series_e1_constant (a v : K) (k : Nat) :
    Spec.series (e1 a v) (List.replicate k v) = List.replicate k v := by
  unfold Spec.series
  apply List.ext_getElem
  · simp
  · intro i h1 h2
    simp only [List.getElem_map, List.getElem_range, List.getElem_replicate, List.length_replicate]
    have : List.take (i + 1) (List.replicate k v) = List.replicate (i + 1) v := by
      rw [List.take_replicate]; congr 1; simp at h1; omega
    rw [this]; exact e1_constant a v (i + 1)

theorem e2_constant (a v : K) (k : Nat) : e2 a v (List.replicate k v) = v := by
  unfold e2; rw [series_e1_constant]; exact emaRec_constant a v k

theorem series_e2_constant (a v : K) (k : Nat) :
    Spec.series (e2 a v) (List.replicate k v) = List.replicate k v := by
  unfold Spec.series
  apply List.ext_getElem
  · simp
  · intro i h1 h2
    simp only [List.getElem_map, List.getElem_range, List.getElem_replicate, List.length_replicate]
    have : List.take (i + 1) (List.replicate k v) = List.replicate (i + 1) v := by
      rw [List.take_replicate]; congr 1; simp at h1; omega
    rw [this]; exact e2_constant a v (i + 1)

theorem e3_constant (a v : K) (k : Nat) : e3 a v (List.replicate k v) = v := by
  unfold e3; rw [series_e2_constant]; exact emaRec_constant a v k

/-- DEMA and TEMA reproduce a constant exactly -/
theorem dema_tema_constant (a v : K) (k : Nat) :
    2 * e1 a v (List.replicate k v) - e2 a v (List.replicate k v) = v ∧
    3 * (e1 a v (List.replicate k v) - e2 a v (List.replicate k v)) + e3 a v (List.replicate k v) = v := by
  rw [e1_constant, e2_constant, e3_constant]; constructor <;> ring

end Field

/-- selections: the only element of a constant window -/
theorem isMaxOf_replicate {β K : Type} [LinearOrder K] [FloatLike β K] {n : Nat} {v m : β}
    (h : IsMaxOf m (List.replicate n v)) : m = v := List.eq_of_mem_replicate h.1

theorem isMinOf_replicate {β K : Type} [LinearOrder K] [FloatLike β K] {n : Nat} {v m : β}
    (h : IsMinOf m (List.replicate n v)) : m = v := List.eq_of_mem_replicate h.1

end Yata
