/-
  The WMA update under the standard model of floating-point arithmetic:

      numerator ← fl(numerator + fl(L·x + total))        (mul_add: one rounding)
      total     ← fl(total + fl(prev − x))

  `total` is a running sum and drifts linearly; its error is added into `numerator` at every step, so the analysis that
  gives a linear bound for SMA only gives a QUADRATIC one here:

      |total error|     ≤ t·q^t·cT
      |numerator error| ≤ t·q^t·cN + t²·q^(2t+2)·cT          (q = 1+u)

  — the reason the allowance of DESIGN §3.2 (linear in t) is not guaranteed for WMA / HMA on very long streams
  (known finding `numeric-drift:hma`).
-/
import YataProofs.MALaws
import Mathlib.Tactic.Linarith
import Mathlib.Tactic.Positivity
namespace Yata.FloatBound
variable {K : Type} [Field K] [LinearOrder K] [IsStrictOrderedRing K]

/-- float state (numerator, total) after the (incoming, leaving) pairs -/
def wmaFl (fl : K → K) (L : K) : K × K → List (K × K) → K × K
  | s, [] => s
  | (N, T), (x, p) :: t => wmaFl fl L (fl (N + fl (L * x + T)), fl (T + fl (p - x))) t

def wmaEx (L : K) : K × K → List (K × K) → K × K
  | s, [] => s
  | (N, T), (x, p) :: t => wmaEx L (N + (L * x + T), T + (p - x)) t

/-- inputs bounded by `M`, exact totals by `A`, exact numerators by `B`, along the whole run -/
def BoundedW (L M A B : K) : K × K → List (K × K) → Prop
  | _, [] => True
  | (N, T), (x, p) :: t =>
    |x| ≤ M ∧ |p| ≤ M ∧ |T| ≤ A ∧ |T + (p - x)| ≤ A ∧ |N + (L * x + T)| ≤ B ∧
      BoundedW L M A B (N + (L * x + T), T + (p - x)) t

theorem aux1 (q k P c : K) (hq : 1 ≤ q) (hk : 0 ≤ k) (hP : 1 ≤ P) (hc : 0 ≤ c) :
    q * (k * P * c) + c ≤ (k + 1) * (P * q) * c := by
  have h1 : 1 ≤ P * q := by nlinarith
  have h2 : c ≤ (P * q) * c := by nlinarith
  have e : (k + 1) * (P * q) * c = q * (k * P * c) + (P * q) * c := by ring
  rw [e]; linarith

theorem aux2 (q k P W c : K) (hq : 1 ≤ q) (hk : 0 ≤ k) (hP0 : 0 ≤ P) (hPW : P ≤ W) (hc : 0 ≤ c) :
    q * (k ^ 2 * W * c) + q ^ 2 * (k * P * c) ≤ (k + 1) ^ 2 * (W * q ^ 2) * c := by
  have hW0 : 0 ≤ W := le_trans hP0 hPW
  have hq0 : 0 ≤ q := by linarith
  have hqq : q ≤ q ^ 2 := by nlinarith
  have h1 : q * (k ^ 2 * W * c) ≤ k ^ 2 * W * q ^ 2 * c := by
    have h0 : 0 ≤ k ^ 2 * W * c := by positivity
    calc q * (k ^ 2 * W * c) = (k ^ 2 * W * c) * q := by ring
      _ ≤ (k ^ 2 * W * c) * q ^ 2 := mul_le_mul_of_nonneg_left hqq h0
      _ = k ^ 2 * W * q ^ 2 * c := by ring
  have h2 : q ^ 2 * (k * P * c) ≤ k * W * q ^ 2 * c := by
    have h0 : 0 ≤ k * c * q ^ 2 := by positivity
    calc q ^ 2 * (k * P * c) = (k * c * q ^ 2) * P := by ring
      _ ≤ (k * c * q ^ 2) * W := mul_le_mul_of_nonneg_left hPW h0
      _ = k * W * q ^ 2 * c := by ring
  have h3 : 0 ≤ k * W * q ^ 2 * c + W * q ^ 2 * c := by positivity
  have e : (k + 1) ^ 2 * (W * q ^ 2) * c = k ^ 2 * W * q ^ 2 * c + k * W * q ^ 2 * c + (k * W * q ^ 2 * c + W * q ^ 2 * c) := by ring
  rw [e]; linarith

theorem wma_step (fl : K → K) (u : K) (hu : 0 ≤ u) (hfl : ∀ x, |fl x - x| ≤ u * |x|) (L M A B : K) (hL : 0 ≤ L)
    (N T Ne Te x p : K) (hx : |x| ≤ M) (hp : |p| ≤ M) (hT : |Te| ≤ A) (hT' : |Te + (p - x)| ≤ A)
    (hN' : |Ne + (L * x + Te)| ≤ B) :
    |fl (T + fl (p - x)) - (Te + (p - x))| ≤ (1 + u) * |T - Te| + (u * A + 2 * u * M * (1 + u)) ∧
    |fl (N + fl (L * x + T)) - (Ne + (L * x + Te))| ≤
      (1 + u) * |N - Ne| + (1 + u) ^ 2 * |T - Te| + ((1 + u) * u * (L * M + A) + u * B) := by
  have hM : 0 ≤ M := le_trans (abs_nonneg x) hx
  have hA : 0 ≤ A := le_trans (abs_nonneg _) hT
  constructor
  · set d := fl (p - x)
    have hd : |d - (p - x)| ≤ u * (2 * M) := by
      have h := hfl (p - x)
      have : |p - x| ≤ 2 * M := by
        calc |p - x| ≤ |p| + |x| := abs_sub p x
          _ ≤ 2 * M := by linarith
      exact le_trans h (mul_le_mul_of_nonneg_left this hu)
    set s := T + d
    have hse : s - (Te + (p - x)) = (T - Te) + (d - (p - x)) := by ring
    have hse' : |s - (Te + (p - x))| ≤ |T - Te| + u * (2 * M) := by
      rw [hse]; exact le_trans (abs_add_le _ _) (by linarith)
    have hsabs : |s| ≤ A + |T - Te| + u * (2 * M) := by
      calc |s| = |(s - (Te + (p - x))) + (Te + (p - x))| := by ring_nf
        _ ≤ |s - (Te + (p - x))| + |Te + (p - x)| := abs_add_le _ _
        _ ≤ _ := by linarith
    have h3 := hfl s
    calc |fl s - (Te + (p - x))| = |(fl s - s) + (s - (Te + (p - x)))| := by ring_nf
      _ ≤ |fl s - s| + |s - (Te + (p - x))| := abs_add_le _ _
      _ ≤ u * (A + |T - Te| + u * (2 * M)) + (|T - Te| + u * (2 * M)) := by
          have := mul_le_mul_of_nonneg_left hsabs hu
          linarith
      _ = (1 + u) * |T - Te| + (u * A + 2 * u * M * (1 + u)) := by ring
  · set r := L * x + T
    have hre : r - (L * x + Te) = T - Te := by ring
    have hLx : |L * x| ≤ L * M := by rw [abs_mul, abs_of_nonneg hL]; exact mul_le_mul_of_nonneg_left hx hL
    have hrabs : |r| ≤ L * M + A + |T - Te| := by
      have hr' : r = L * x + Te + (T - Te) := by show L * x + T = _; ring
      calc |r| = |L * x + Te + (T - Te)| := by rw [hr']
        _ ≤ |L * x + Te| + |T - Te| := abs_add_le _ _
        _ ≤ |L * x| + |Te| + |T - Te| := by have := abs_add_le (L * x) Te; linarith
        _ ≤ _ := by linarith
    set g := fl r
    have hg := hfl r
    have hge : |g - (L * x + Te)| ≤ (1 + u) * |T - Te| + u * (L * M + A) := by
      calc |g - (L * x + Te)| = |(g - r) + (r - (L * x + Te))| := by ring_nf
        _ ≤ |g - r| + |r - (L * x + Te)| := abs_add_le _ _
        _ ≤ u * (L * M + A + |T - Te|) + |T - Te| := by
            rw [hre]
            have := mul_le_mul_of_nonneg_left hrabs hu
            linarith
        _ = _ := by ring
    set s2 := N + g
    have hse : s2 - (Ne + (L * x + Te)) = (N - Ne) + (g - (L * x + Te)) := by ring
    have hse' : |s2 - (Ne + (L * x + Te))| ≤ |N - Ne| + ((1 + u) * |T - Te| + u * (L * M + A)) := by
      rw [hse]; exact le_trans (abs_add_le _ _) (by linarith)
    have hsabs : |s2| ≤ B + (|N - Ne| + ((1 + u) * |T - Te| + u * (L * M + A))) := by
      calc |s2| = |(s2 - (Ne + (L * x + Te))) + (Ne + (L * x + Te))| := by ring_nf
        _ ≤ |s2 - (Ne + (L * x + Te))| + |Ne + (L * x + Te)| := abs_add_le _ _
        _ ≤ _ := by linarith
    have h3 := hfl s2
    calc |fl s2 - (Ne + (L * x + Te))| = |(fl s2 - s2) + (s2 - (Ne + (L * x + Te)))| := by ring_nf
      _ ≤ |fl s2 - s2| + |s2 - (Ne + (L * x + Te))| := abs_add_le _ _
      _ ≤ u * (B + (|N - Ne| + ((1 + u) * |T - Te| + u * (L * M + A)))) + (|N - Ne| + ((1 + u) * |T - Te| + u * (L * M + A))) := by
          have := mul_le_mul_of_nonneg_left hsabs hu
          linarith
      _ = (1 + u) * |N - Ne| + (1 + u) ^ 2 * |T - Te| + ((1 + u) * u * (L * M + A) + u * B) := by ring

/-- linear drift of `total`, quadratic drift of `numerator` -/
theorem wma_run_bound (fl : K → K) (u : K) (hu : 0 ≤ u) (hfl : ∀ x, |fl x - x| ≤ u * |x|) (L M A B : K) (hL : 0 ≤ L)
    (cT cN : K) (hcT : cT = u * A + 2 * u * M * (1 + u)) (hcN : cN = (1 + u) * u * (L * M + A) + u * B)
    (hcT0 : 0 ≤ cT) (hcN0 : 0 ≤ cN) :
    ∀ (steps : List (K × K)) (N T Ne Te : K) (k : Nat), BoundedW L M A B (Ne, Te) steps →
      |T - Te| ≤ (k : K) * (1 + u) ^ k * cT →
      |N - Ne| ≤ (k : K) * (1 + u) ^ k * cN + (k : K) ^ 2 * (1 + u) ^ (2 * k + 2) * cT →
      |(wmaFl fl L (N, T) steps).2 - (wmaEx L (Ne, Te) steps).2| ≤
        ((k + steps.length : Nat) : K) * (1 + u) ^ (k + steps.length) * cT ∧
      |(wmaFl fl L (N, T) steps).1 - (wmaEx L (Ne, Te) steps).1| ≤
        ((k + steps.length : Nat) : K) * (1 + u) ^ (k + steps.length) * cN +
          ((k + steps.length : Nat) : K) ^ 2 * (1 + u) ^ (2 * (k + steps.length) + 2) * cT := by
  intro steps
  induction steps with
  | nil => intro N T Ne Te k _ h1 h2; simpa [wmaFl, wmaEx] using ⟨h1, h2⟩
  | cons xp t ih =>
    intro N T Ne Te k hb h1 h2
    obtain ⟨x, p⟩ := xp
    obtain ⟨hx, hp, hTe, hTe', hNe', hrest⟩ := hb
    obtain ⟨s1, s2⟩ := wma_step fl u hu hfl L M A B hL N T Ne Te x p hx hp hTe hTe' hNe'
    simp only [wmaFl, wmaEx, List.length_cons]
    set q := 1 + u with hq
    have hq1 : 1 ≤ q := by linarith
    have hq0 : 0 ≤ q := by linarith
    have hP1 : (1 : K) ≤ q ^ k := one_le_pow₀ hq1
    have hP0 : (0 : K) ≤ q ^ k := by positivity
    have hk0 : (0 : K) ≤ (k : K) := Nat.cast_nonneg k
    have e1 : q ^ (k + 1) = q ^ k * q := pow_succ _ _
    have hW : q ^ k ≤ q ^ (2 * k + 2) := pow_le_pow_right₀ hq1 (by omega)
    have e2 : q ^ (2 * (k + 1) + 2) = q ^ (2 * k + 2) * q ^ 2 := by rw [← pow_add]; congr 1
    -- total: linear
    have t1 : |fl (T + fl (p - x)) - (Te + (p - x))| ≤ ((k + 1 : Nat) : K) * q ^ (k + 1) * cT := by
      have hcT' : (1 + u) * |T - Te| + (u * A + 2 * u * M * (1 + u)) = q * |T - Te| + cT := by rw [hcT]
      rw [hcT'] at s1
      have a1 : q * |T - Te| ≤ q * ((k : K) * q ^ k * cT) := mul_le_mul_of_nonneg_left h1 hq0
      have a2 := aux1 q (k : K) (q ^ k) cT hq1 hk0 hP1 hcT0
      rw [e1]; push_cast
      linarith
    -- numerator: quadratic
    have t2 : |fl (N + fl (L * x + T)) - (Ne + (L * x + Te))| ≤
        ((k + 1 : Nat) : K) * q ^ (k + 1) * cN + ((k + 1 : Nat) : K) ^ 2 * q ^ (2 * (k + 1) + 2) * cT := by
      have hcN' : (1 + u) * |N - Ne| + (1 + u) ^ 2 * |T - Te| + ((1 + u) * u * (L * M + A) + u * B) =
          q * |N - Ne| + q ^ 2 * |T - Te| + cN := by rw [hcN]
      rw [hcN'] at s2
      have a1 : q * |N - Ne| ≤ q * ((k : K) * q ^ k * cN + (k : K) ^ 2 * q ^ (2 * k + 2) * cT) :=
        mul_le_mul_of_nonneg_left h2 hq0
      have a2 : q ^ 2 * |T - Te| ≤ q ^ 2 * ((k : K) * q ^ k * cT) := mul_le_mul_of_nonneg_left h1 (by positivity)
      have b1 := aux1 q (k : K) (q ^ k) cN hq1 hk0 hP1 hcN0
      have b2 := aux2 q (k : K) (q ^ k) (q ^ (2 * k + 2)) cT hq1 hk0 hP0 hW hcT0
      rw [e1, e2]; push_cast
      have e4 : q * ((k : K) * q ^ k * cN + (k : K) ^ 2 * q ^ (2 * k + 2) * cT) =
          q * ((k : K) * q ^ k * cN) + q * ((k : K) ^ 2 * q ^ (2 * k + 2) * cT) := by ring
      rw [e4] at a1
      linarith
    have := ih (fl (N + fl (L * x + T))) (fl (T + fl (p - x))) (Ne + (L * x + Te)) (Te + (p - x)) (k + 1) hrest t1 t2
    have e : k + 1 + t.length = k + (t.length + 1) := by omega
    rw [e] at this
    exact this

/-- from an exact start -/
theorem wma_drift_quadratic (fl : K → K) (u : K) (hu : 0 ≤ u) (hfl : ∀ x, |fl x - x| ≤ u * |x|) (L M A B : K) (hL : 0 ≤ L)
    (hM : 0 ≤ M) (hA : 0 ≤ A) (hB : 0 ≤ B) (steps : List (K × K)) (N0 T0 : K) (hb : BoundedW L M A B (N0, T0) steps) :
    |(wmaFl fl L (N0, T0) steps).1 - (wmaEx L (N0, T0) steps).1| ≤
      (steps.length : K) * (1 + u) ^ steps.length * ((1 + u) * u * (L * M + A) + u * B) +
        (steps.length : K) ^ 2 * (1 + u) ^ (2 * steps.length + 2) * (u * A + 2 * u * M * (1 + u)) := by
  have := (wma_run_bound fl u hu hfl L M A B hL _ _ rfl rfl (by positivity) (by positivity) steps N0 T0 N0 T0 0 hb
    (by simp) (by simp)).2
  simpa using this

end Yata.FloatBound
