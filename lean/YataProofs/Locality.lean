/-
  Accuracy does not depend on the length of the past (C07), at the level of the specs:
    * window locality — after at least `n` inputs the window, hence every sliding-window spec, is a
      function of the last `n` inputs only (whatever the earlier history and construction value);
    * exponential forgetting — the recurrence restarts from its own value, and the influence of the
      starting value decays like (1-α)^k.
-/
import YataProofs.MALaws
set_option linter.unusedSectionVars false
namespace Yata
variable {α : Type}

theorem lastN_append_of_le {n : Nat} (l ys : List α) (h : n ≤ ys.length) : lastN n (l ++ ys) = lastN n ys := by
  unfold lastN
  have e : (l ++ ys).length - n = l.length + (ys.length - n) := by simp; omega
  rw [e, List.drop_append]
  have : l.length + (ys.length - n) - l.length = ys.length - n := by omega
  rw [this, List.drop_eq_nil_of_le (by omega)]
  rfl

/-- a long past is irrelevant: the window after `xs ++ ys` (with `|ys| ≥ n`) is the window of a fresh
    instance constructed with ANY value `w` and fed `ys` -/
theorem win_locality (n : Nat) (v w : α) (xs ys : List α) (h : n ≤ ys.length) :
    lastN n (history n v (xs ++ ys)) = lastN n (history n w ys) := by
  unfold history
  rw [← List.append_assoc, lastN_append_of_le _ ys h, lastN_append_of_le _ ys h]

section Field
variable {K : Type} [Field K] [LinearOrder K] [IsStrictOrderedRing K]

theorem sma_locality (n : Nat) (v w : K) (xs ys : List K) (h : n ≤ ys.length) :
    Spec.sma n v (xs ++ ys) = Spec.sma n w ys := by
  simp only [Spec.sma, Spec.win, win_locality n v w xs ys h]

theorem wma_locality (n : Nat) (v w : K) (xs ys : List K) (h : n ≤ ys.length) :
    Spec.wma n v (xs ++ ys) = Spec.wma n w ys := by
  simp only [Spec.wma, Spec.win, win_locality n v w xs ys h]

theorem integral_locality (n : Nat) (v w : K) (xs ys : List K) (h : n ≤ ys.length) :
    Spec.integral n v (xs ++ ys) = Spec.integral n w ys := by
  simp only [Spec.integral, Spec.win, win_locality n v w xs ys h]

/-- the recurrence restarts from its own value -/
theorem emaRec_append_list (a v : K) (xs ys : List K) :
    Spec.emaRec a v (xs ++ ys) = Spec.emaRec a (Spec.emaRec a v xs) ys := by
  induction xs generalizing v with
  | nil => rfl
  | cons x t ih => simp only [List.cons_append, Spec.emaRec, ih]

/-- exponential forgetting: two runs over the same inputs differ by (1-α)^k times the difference of
    their starting values -/
theorem emaRec_forgetting (a v w : K) (ys : List K) :
    Spec.emaRec a v ys - Spec.emaRec a w ys = (1 - a) ^ ys.length * (v - w) := by
  induction ys generalizing v w with
  | nil => simp [Spec.emaRec]
  | cons y t ih =>
    simp only [Spec.emaRec, List.length_cons, ih]
    ring

/-- quantitative version used by the late-position comparison: with 0 ≤ α ≤ 1 the dependence on the
    whole earlier history is bounded by (1-α)^k times the spread of the values -/
theorem emaRec_forgetting_bound (a v w : K) (ys : List K) (h0 : 0 ≤ a) (h1 : a ≤ 1) :
    |Spec.emaRec a v ys - Spec.emaRec a w ys| ≤ |v - w| := by
  rw [emaRec_forgetting, abs_mul]
  have hb : |(1 - a) ^ ys.length| ≤ 1 := by
    rw [abs_pow]
    apply pow_le_one₀ (abs_nonneg _)
    rw [abs_le]; constructor <;> linarith
  calc |(1 - a) ^ ys.length| * |v - w| ≤ 1 * |v - w| := by
        apply mul_le_mul_of_nonneg_right hb (abs_nonneg _)
    _ = |v - w| := one_mul _

end Field
end Yata
