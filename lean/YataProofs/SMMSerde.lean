import YataProofs.SMM
namespace Yata
variable {β : Type} [LinearOrder β] [TotalCmp β] [TotalLike β] {P : Nat}
open TotalLike

namespace SMM

/-- C13: what `Deserialize for SMM` rebuilds from the serialized window — the ascending sort of the buffer — is the very
    slice the instance held, and the two cached indices are functions of the window length: the restored instance IS the
    original one (hence behaves identically for ever) -/
theorem roundtrip {s : SMM β} (h : Inv P s) (hh : s.half = s.window.len / 2)
    (hm : s.half_m1 = satSub (s.window.len / 2) (if s.window.len % 2 = 0 then 1 else 0)) :
    SMM.ofWindow s.window (s.window.buf.mergeSort (fun a b => decide (a ≤ b))) = s := by
  have hsl : s.window.buf.mergeSort (fun a b => decide (a ≤ b)) = s.slice := by
    apply List.Perm.eq_of_pairwise' (r := (· ≤ ·)) _ h.sorted
    · -- both are permutations of the buffer (the logical contents are a rotation of it)
      have hrot : (Window.toList s.window).Perm s.window.buf := by
        unfold Window.toList
        exact (List.perm_append_comm).trans (by rw [List.take_append_drop])
      exact (List.mergeSort_perm _ _).trans (hrot.symm.trans h.perm.symm)
    · have := List.pairwise_mergeSort (le := fun a b : β => decide (a ≤ b))
        (fun a b c hab hbc => by simp only [decide_eq_true_eq] at *; exact le_trans hab hbc)
        (fun a b => by simp only [Bool.or_eq_true, decide_eq_true_eq]; exact le_total a b) s.window.buf
      exact this.imp (fun h => by simpa using h)
  unfold SMM.ofWindow
  rw [hsl]
  cases s
  simp only [SMM.mk.injEq, and_true, true_and] at *
  exact ⟨hh.symm, hm.symm⟩

/-- the two cached indices are established by the constructor and never change -/
theorem new_indices {n : Nat} (v : β) (s : SMM β) (h : SMM.new P n v = .ok s) :
    s.half = n / 2 ∧ s.half_m1 = satSub (n / 2) (if n % 2 = 0 then 1 else 0) := by
  unfold SMM.new at h
  split at h
  · cases h
  · cases hw : Window.new P n v with
    | error e => simp [hw, Res.ofExcept, Res.bind] at h
    | ok w =>
      simp only [hw, Res.ofExcept, Res.bind] at h
      cases h
      exact ⟨rfl, rfl⟩

end SMM
end Yata
