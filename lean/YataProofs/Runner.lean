/-
  Generic laws of the runner (`over`, chunking, lifting of step invariants) — core Lean only.
-/
import YataModel.Runner
namespace Yata
variable {σ ι ο : Type}

theorem runM_nil (next : σ → ι → Except Panic (ο × σ)) (s : σ) : runM next s [] = .ok ([], s) := rfl

/-- feeding `xs ++ ys` = feeding `xs`, then `ys` from the state reached (any split, also empty) -/
theorem runM_append (next : σ → ι → Except Panic (ο × σ)) (s : σ) (xs ys : List ι) :
    runM next s (xs ++ ys) =
      match runM next s xs with
      | .error e => .error e
      | .ok (os, s') =>
        match runM next s' ys with
        | .error e => .error e
        | .ok (os', s'') => .ok (os ++ os', s'') := by
  induction xs generalizing s with
  | nil =>
    simp only [List.nil_append, runM]
    cases runM next s ys with
    | error e => rfl
    | ok p => rfl
  | cons x xs ih =>
    simp only [List.cons_append, runM]
    cases hn : next s x with
    | error e => rfl
    | ok p =>
      obtain ⟨o, s'⟩ := p
      simp only [ih s']
      cases runM next s' xs with
      | error e => rfl
      | ok q =>
        obtain ⟨os, s''⟩ := q
        simp only
        cases runM next s'' ys with
        | error e => rfl
        | ok r => rfl

/-- exactly one output per input -/
theorem runM_length (next : σ → ι → Except Panic (ο × σ)) (s : σ) (xs : List ι) {os : List ο} {s' : σ}
    (h : runM next s xs = .ok (os, s')) : os.length = xs.length := by
  induction xs generalizing s os s' with
  | nil => simp [runM] at h; simp [h.1]
  | cons x xs ih =>
    simp only [runM] at h
    cases hn : next s x with
    | error e => simp [hn] at h
    | ok p =>
      obtain ⟨o, s1⟩ := p
      simp only [hn] at h
      cases hr : runM next s1 xs with
      | error e => simp [hr] at h
      | ok q =>
        obtain ⟨os1, s2⟩ := q
        simp only [hr, Except.ok.injEq, Prod.mk.injEq] at h
        rw [← h.1]
        simp [ih s1 hr]

/-- Lifting a one-step invariant to every reachable state.  `hist` is everything the instance
    has been given so far; `Inv hist s` relates it to the state, `Out hist o` to the output
    produced by the step that consumed the last element of `hist`. -/
theorem runM_invariant (next : σ → ι → Except Panic (ο × σ))
    (Inv : List ι → σ → Prop) (Out : List ι → ο → Prop)
    (hstep : ∀ h s x, Inv h s → ∃ o s', next s x = .ok (o, s') ∧ Inv (h ++ [x]) s' ∧ Out (h ++ [x]) o) :
    ∀ (xs : List ι) (h : List ι) (s : σ), Inv h s →
      ∃ os s', runM next s xs = .ok (os, s') ∧ Inv (h ++ xs) s' ∧ os.length = xs.length ∧
        ∀ i (hi : i < os.length), Out (h ++ xs.take (i + 1)) os[i] := by
  intro xs
  induction xs with
  | nil => intro h s hinv; exact ⟨[], s, rfl, by simpa using hinv, rfl, by simp⟩
  | cons x xs ih =>
    intro h s hinv
    obtain ⟨o, s1, hn, hinv1, hout⟩ := hstep h s x hinv
    obtain ⟨os, s2, hr, hinv2, hlen, houts⟩ := ih (h ++ [x]) s1 hinv1
    refine ⟨o :: os, s2, by simp [runM, hn, hr], by simpa using hinv2, by simp [hlen], ?_⟩
    intro i hi
    cases i with
    | zero => simpa using hout
    | succ j =>
      have := houts j (by simpa using hi)
      simpa using this

/-- The shape shared by every "machine = from-scratch definition" theorem: if the constructor
    establishes `Inv []` and every step preserves it while producing `spec (inputs so far)`,
    then on every stream every output equals the spec of the corresponding prefix. -/
theorem method_spec {σ ι ο : Type} (new : Res σ) (next : σ → ι → Except Panic (ο × σ))
    (Inv : List ι → σ → Prop) (spec : List ι → ο)
    (hnew : ∃ s, new = .ok s ∧ Inv [] s)
    (hstep : ∀ h s x, Inv h s → ∃ o s', next s x = .ok (o, s') ∧ Inv (h ++ [x]) s' ∧ o = spec (h ++ [x]))
    (xs : List ι) :
    ∃ s0 outs s', new = .ok s0 ∧ runM next s0 xs = .ok (outs, s') ∧ outs.length = xs.length ∧
      ∀ i (hi : i < outs.length), outs[i] = spec (xs.take (i + 1)) := by
  obtain ⟨s0, hn, hi0⟩ := hnew
  obtain ⟨os, s', hr, _, hlen, houts⟩ :=
    runM_invariant next Inv (fun h o => o = spec h) hstep xs [] s0 hi0
  exact ⟨s0, os, s', hn, hr, hlen, fun i hi => by simpa using houts i hi⟩

end Yata

namespace Yata
variable {σ ι ο : Type}

/-- `new_over` on an empty input constructs nothing and returns no output -/
theorem newOver_nil (new : ι → Res σ) (next : σ → ι → Except Panic (ο × σ)) :
    newOver new next [] = .ok [] := rfl

/-- `new_over` on a non-empty input = construct from the first element, then `over` all of it -/
theorem newOver_cons (new : ι → Res σ) (next : σ → ι → Except Panic (ο × σ)) (x : ι) (xs : List ι)
    {s : σ} (hs : new x = .ok s) {os : List ο} {s' : σ} (hr : runM next s (x :: xs) = .ok (os, s')) :
    newOver new next (x :: xs) = .ok os := by
  simp [newOver, hs, hr, Res.bind, Res.map, Res.ofExcept]

/-- `WithHistory` returns the inner outputs unchanged and remembers all of them -/
theorem withHistory_run (next : σ → ι → Except Panic (ο × σ)) (s : σ) (pre : List ο) (xs : List ι)
    {os : List ο} {s' : σ} (hr : runM next s xs = .ok (os, s')) :
    runM (WithHistory.next next) { history := pre, instance_ := s } xs =
      .ok (os, { history := pre ++ os, instance_ := s' }) := by
  induction xs generalizing s pre os with
  | nil => simp [runM] at hr; simp [runM, hr.1, hr.2]
  | cons x xs ih =>
    simp only [runM] at hr
    cases hn : next s x with
    | error e => simp [hn] at hr
    | ok p =>
      obtain ⟨o, s1⟩ := p
      simp only [hn] at hr
      cases hr1 : runM next s1 xs with
      | error e => simp [hr1] at hr
      | ok q =>
        obtain ⟨os1, s2⟩ := q
        simp only [hr1, Except.ok.injEq, Prod.mk.injEq] at hr
        obtain ⟨rfl, rfl⟩ := hr
        simp [runM, WithHistory.next, hn, ih s1 (pre ++ [o]) hr1]

/-- `get i` of the history wrapper is the `i`-th newest output (none beyond the history) -/
theorem withHistory_get (w : WithHistory σ ο) (i : Nat) : w.get i = w.history.reverse[i]? := by
  unfold WithHistory.get checkedSub
  by_cases h : i + 1 ≤ w.history.length
  · simp only [h, ↓reduceIte]
    rw [List.getElem?_reverse (by omega)]
    congr 1; omega
  · simp only [h, ↓reduceIte]
    rw [List.getElem?_eq_none]; simp; omega

/-- `WithLastValue::new` feeds the initial value once; afterwards it is the inner machine,
    and `peek` is the output produced last -/
theorem withLastValue_run (next : σ → ι → Except Panic (ο × σ)) (s : σ) (init : ι) (xs : List ι)
    {o0 : ο} {s0 : σ} (h0 : next s init = .ok (o0, s0)) {os : List ο} {s' : σ}
    (hr : runM next s0 xs = .ok (os, s')) :
    ∃ w0, WithLastValue.new next s init = .ok w0 ∧ w0.peek = o0 ∧
      runM (WithLastValue.next next) w0 xs =
        .ok (os, { last_value := (o0 :: os).getLast (by simp), instance_ := s' }) := by
  refine ⟨{ last_value := o0, instance_ := s0 }, by simp [WithLastValue.new, h0], rfl, ?_⟩
  clear h0
  induction xs generalizing s0 o0 os with
  | nil => simp [runM] at hr; simp [runM, hr.1, hr.2]
  | cons x xs ih =>
    simp only [runM] at hr
    cases hn : next s0 x with
    | error e => simp [hn] at hr
    | ok p =>
      obtain ⟨o, s1⟩ := p
      simp only [hn] at hr
      cases hr1 : runM next s1 xs with
      | error e => simp [hr1] at hr
      | ok q =>
        obtain ⟨os1, s2⟩ := q
        simp only [hr1, Except.ok.injEq, Prod.mk.injEq] at hr
        obtain ⟨rfl, rfl⟩ := hr
        simp only [runM, WithLastValue.next, hn, ih hr1]
        simp [List.getLast_cons]

end Yata
