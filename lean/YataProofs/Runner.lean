/-
  Generic laws of the runner (`over`, chunking, lifting of step invariants) — core Lean only.
-/
import YataModel.Runner
namespace Yata
variable {σ ι ο : Type}

theorem runM_nil (next : σ → ι → Except Panic (ο × σ)) (s : σ) : runM next s [] = .ok ([], s) := rfl

/-- feeding `xs ++ ys` = feeding `xs`, then `ys` from the state reached (any split, also empty) -/
theorem runM_append (next : σ → ι → Except Panic (ο × σ)) (s : σ) (xs ys : List ι) :
    runM next s (xs ++ ys) =
      match runM next s xs with
      | .error e => .error e
      | .ok (os, s') =>
        match runM next s' ys with
        | .error e => .error e
        | .ok (os', s'') => .ok (os ++ os', s'') := by
  induction xs generalizing s with
  | nil =>
    simp only [List.nil_append, runM]
    cases runM next s ys with
    | error e => rfl
    | ok p => rfl
  | cons x xs ih =>
    simp only [List.cons_append, runM]
    cases hn : next s x with
    | error e => rfl
    | ok p =>
      obtain ⟨o, s'⟩ := p
      simp only [ih s']
      cases runM next s' xs with
      | error e => rfl
      | ok q =>
        obtain ⟨os, s''⟩ := q
        simp only
        cases runM next s'' ys with
        | error e => rfl
        | ok r => rfl

/-- exactly one output per input -/
theorem runM_length (next : σ → ι → Except Panic (ο × σ)) (s : σ) (xs : List ι) {os : List ο} {s' : σ}
    (h : runM next s xs = .ok (os, s')) : os.length = xs.length := by
  induction xs generalizing s os s' with
  | nil => simp [runM] at h; simp [h.1]
  | cons x xs ih =>
    simp only [runM] at h
    cases hn : next s x with
    | error e => simp [hn] at h
    | ok p =>
      obtain ⟨o, s1⟩ := p
      simp only [hn] at h
      cases hr : runM next s1 xs with
      | error e => simp [hr] at h
      | ok q =>
        obtain ⟨os1, s2⟩ := q
        simp only [hr, Except.ok.injEq, Prod.mk.injEq] at h
        rw [← h.1]
        simp [ih s1 hr]

/-- Lifting a one-step invariant to every reachable state.  `hist` is everything the instance
    has been given so far; `Inv hist s` relates it to the state, `Out hist o` to the output
    produced by the step that consumed the last element of `hist`. -/
theorem runM_invariant (next : σ → ι → Except Panic (ο × σ))
    (Inv : List ι → σ → Prop) (Out : List ι → ο → Prop)
    (hstep : ∀ h s x, Inv h s → ∃ o s', next s x = .ok (o, s') ∧ Inv (h ++ [x]) s' ∧ Out (h ++ [x]) o) :
    ∀ (xs : List ι) (h : List ι) (s : σ), Inv h s →
      ∃ os s', runM next s xs = .ok (os, s') ∧ Inv (h ++ xs) s' ∧ os.length = xs.length ∧
        ∀ i (hi : i < os.length), Out (h ++ xs.take (i + 1)) os[i] := by
  intro xs
  induction xs with
  | nil => intro h s hinv; exact ⟨[], s, rfl, by simpa using hinv, rfl, by simp⟩
  | cons x xs ih =>
    intro h s hinv
    obtain ⟨o, s1, hn, hinv1, hout⟩ := hstep h s x hinv
    obtain ⟨os, s2, hr, hinv2, hlen, houts⟩ := ih (h ++ [x]) s1 hinv1
    refine ⟨o :: os, s2, by simp [runM, hn, hr], by simpa using hinv2, by simp [hlen], ?_⟩
    intro i hi
    cases i with
    | zero => simpa using hout
    | succ j =>
      have := houts j (by simpa using hi)
      simpa using this

/-- The shape shared by every "machine = from-scratch definition" theorem: if the constructor
    establishes `Inv []` and every step preserves it while producing `spec (inputs so far)`,
    then on every stream every output equals the spec of the corresponding prefix. -/
theorem method_spec {σ ι ο : Type} (new : Res σ) (next : σ → ι → Except Panic (ο × σ))
    (Inv : List ι → σ → Prop) (spec : List ι → ο)
    (hnew : ∃ s, new = .ok s ∧ Inv [] s)
    (hstep : ∀ h s x, Inv h s → ∃ o s', next s x = .ok (o, s') ∧ Inv (h ++ [x]) s' ∧ o = spec (h ++ [x]))
    (xs : List ι) :
    ∃ s0 outs s', new = .ok s0 ∧ runM next s0 xs = .ok (outs, s') ∧ outs.length = xs.length ∧
      ∀ i (hi : i < outs.length), outs[i] = spec (xs.take (i + 1)) := by
  obtain ⟨s0, hn, hi0⟩ := hnew
  obtain ⟨os, s', hr, _, hlen, houts⟩ :=
    runM_invariant next Inv (fun h o => o = spec h) hstep xs [] s0 hi0
  exact ⟨s0, os, s', hn, hr, hlen, fun i hi => by simpa using houts i hi⟩

end Yata
