import YataProofs.MALaws2
import YataProofs.VidyaLaws
import YataProofs.SMMLaws
namespace Yata
variable {K : Type} [Field K] [LinearOrder K] [IsStrictOrderedRing K]

theorem const_of_hull {f : K} {v : K} (h : v ≤ f ∧ f ≤ v) : f = v := le_antisymm h.2 h.1

theorem mem_const (v : K) (k : Nat) : ∀ x ∈ v :: List.replicate k v, v ≤ x ∧ x ≤ v := by
  intro x hx
  rcases List.mem_cons.mp hx with rfl | hx
  · exact ⟨le_refl _, le_refl _⟩
  · rw [(List.mem_replicate.mp hx).2]; exact ⟨le_refl _, le_refl _⟩

/-- constant input reproduces the constant exactly, for the range-preserving kinds -/
theorem constants_hull_kinds [DecidableEq K] (n k : Nat) (v : K) :
    (2 ≤ n → Spec.swma n v (List.replicate k v) = v) ∧
    (0 < n → Spec.trima n v (List.replicate k v) = v) ∧
    (0 < n → Spec.smm n v (List.replicate k v) = v) ∧
    (0 < n → Spec.vidya n v (List.replicate k v) = v) :=
  ⟨fun h => const_of_hull (swma_hull n h v _ v v (mem_const v k)),
   fun h => const_of_hull (trima_hull n h v _ v v (mem_const v k)),
   fun h => const_of_hull (smm_hull n h v _ v v (mem_const v k)),
   fun h => const_of_hull (vidya_hull n h v _ v v (mem_const v k))⟩

theorem conv_constant (ws : List K) (hw : ∀ w ∈ ws, 0 ≤ w) (hs : 0 < ws.sum) (v : K) (k : Nat) :
    Spec.conv ws v (List.replicate k v) = v :=
  const_of_hull (conv_hull ws hw hs v _ v v (mem_const v k))

/-- the overshooting linear kinds reproduce constants too (affine equivariance with a = 0) -/
theorem hma_constant (n : Nat) (h2 : 0 < n / 2) (hs : 0 < Nat.sqrt n) (v : K) (k : Nat) :
    Spec.hma n v (List.replicate k v) = v := by
  have := hma_affine n h2 hs (0 : K) v 0 (List.replicate k 0)
  simpa using this

theorem linreg_constant (n : Nat) (hn : 0 < n) (v : K) (k : Nat) :
    Spec.linreg n v (List.replicate k v) = v := by
  have := linreg_affine n hn (0 : K) v 0 (List.replicate k 0)
  simpa using this

end Yata
