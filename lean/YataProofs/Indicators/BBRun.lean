import YataProofs.Indicators.More
import YataProofs.Numeric.LinVol
import YataProofs.Runner
namespace Yata.Ind
open Yata

namespace BB

/-- `step` in the shape of a state machine: output (centre, variance) -/
def stepR (s : BB) (k : Candle ℚ) : Except Panic ((ℚ × ℚ) × BB) :=
  match s.step k with
  | .error e => .error e
  | .ok (m, v, s') => .ok ((m, v), s')

theorem var_formula_nonneg (n : Nat) (w : List ℚ) :
    0 ≤ (w.map fun x => (x - Spec.mean n w) * (x - Spec.mean n w)).sum / ((n - 1 : Nat) : ℚ) := by
  apply div_nonneg
  · apply sum_nonneg_of_forall
    intro y hy
    simp only [List.mem_map] at hy
    obtain ⟨x, _, rfl⟩ := hy
    exact mul_self_nonneg _
  · exact Nat.cast_nonneg _

/-- Bollinger bands over whole candle streams, from the constructor: no step panics; at every step the centre is the mean
    and the quantity under the square root is the sample variance of the last `avg_size` sources (the first candle's source
    as prehistory) — non-negative, so upper ≥ middle ≥ lower -/
theorem run_spec {P : Nat} (c : BBCfg) (k0 : Candle ℚ) (hv : BB.validate P c = true) (cs : List (Candle ℚ)) :
    ∃ s0 outs s', BB.init P c k0 = .ok s0 ∧ runM stepR s0 cs = .ok (outs, s') ∧ outs.length = cs.length ∧
      ∀ i (hi : i < outs.length),
        let w := lastN c.avg_size (history c.avg_size (k0.source c.source) ((cs.take (i + 1)).map fun k => k.source c.source))
        outs[i] = (Spec.mean c.avg_size w,
          (w.map fun x => (x - Spec.mean c.avg_size w) * (x - Spec.mean c.avg_size w)).sum / ((c.avg_size - 1 : Nat) : ℚ)) ∧
        0 ≤ (outs[i]).2 := by
  have hvv := hv
  simp only [BB.validate, Bool.and_eq_true, decide_eq_true_eq] at hv
  obtain ⟨⟨_, hn2⟩, hnP⟩ := hv
  obtain ⟨a, ha, ia⟩ := SMA.new_spec (K := ℚ) (P := P) (k0.source c.source) (by omega : 0 < c.avg_size) (by omega)
  obtain ⟨b, hb, ib⟩ := StDev.new_spec (K := ℚ) (P := P) (k0.source c.source) (by omega : 2 ≤ c.avg_size) (by omega)
  have h0 : BB.init P c k0 = .ok { cfg := c, ma := a, st_dev := b } := by
    unfold BB.init
    rw [if_pos hvv]
    simp only [ha, hb, Res.bind]
  obtain ⟨os, s', hr, _, hlen, hout⟩ := runM_invariant stepR
    (fun h s => s.cfg = c ∧ SMA.Inv P c.avg_size (history c.avg_size (k0.source c.source) (h.map fun k => k.source c.source)) s.ma ∧
      StDev.Inv P c.avg_size (history c.avg_size (k0.source c.source) (h.map fun k => k.source c.source)) s.st_dev)
    (fun h o =>
      let w := lastN c.avg_size (history c.avg_size (k0.source c.source) (h.map fun k => k.source c.source))
      o = (Spec.mean c.avg_size w,
        (w.map fun x => (x - Spec.mean c.avg_size w) * (x - Spec.mean c.avg_size w)).sum / ((c.avg_size - 1 : Nat) : ℚ)) ∧ 0 ≤ o.2)
    (by
      rintro h s k ⟨hc, hm, hd⟩
      have hm' : SMA.Inv P s.cfg.avg_size (history c.avg_size (k0.source c.source) (h.map fun k => k.source c.source)) s.ma := by rw [hc]; exact hm
      have hd' : StDev.Inv P s.cfg.avg_size (history c.avg_size (k0.source c.source) (h.map fun k => k.source c.source)) s.st_dev := by rw [hc]; exact hd
      obtain ⟨s1, hst, i1, i2, hc1⟩ := BB.step_spec k (by rw [hc]; omega) hm' hd'
      rw [hc] at hst i1 i2
      refine ⟨(Spec.mean c.avg_size (lastN c.avg_size (history c.avg_size (k0.source c.source) (h.map fun k => k.source c.source) ++ [k.source c.source])),
          ((lastN c.avg_size (history c.avg_size (k0.source c.source) (h.map fun k => k.source c.source) ++ [k.source c.source])).map fun x =>
            (x - Spec.mean c.avg_size (lastN c.avg_size (history c.avg_size (k0.source c.source) (h.map fun k => k.source c.source) ++ [k.source c.source]))) *
            (x - Spec.mean c.avg_size (lastN c.avg_size (history c.avg_size (k0.source c.source) (h.map fun k => k.source c.source) ++ [k.source c.source])))).sum /
            ((c.avg_size - 1 : Nat) : ℚ)),
        s1, by simp only [stepR, hst], ⟨by rw [hc1, hc], ?_, ?_⟩, ?_, var_formula_nonneg _ _⟩
      · simpa [List.map_append, history_snoc] using i1
      · simpa [List.map_append, history_snoc] using i2
      · simp only [List.map_append, List.map_cons, List.map_nil, history_snoc])
    cs [] { cfg := c, ma := a, st_dev := b } ⟨rfl, by simpa using ia, by simpa using ib⟩
  exact ⟨_, os, s', h0, hr, hlen, hout⟩

end BB
end Yata.Ind
