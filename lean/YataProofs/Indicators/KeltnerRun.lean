import YataProofs.Indicators.Keltner
import YataProofs.Indicators.RealisesEvery
import YataProofs.Indicators.MFIRange
namespace Yata.Ind
open Yata

namespace Keltner

/-- Keltner channel over whole streams of candles with low ≤ high (the first one too), every accepted configuration of the
    middle average: no step panics; the values are `[source, middle + σ·ATR, middle − σ·ATR]` with the documented middle
    average of the sources so far and ATR the mean of the last `period` true ranges; the lower band is never above the
    upper one -/
theorem run_spec {P : Nat} (c : KeltnerCfg) (k0 : Candle ℚ) (hv : Keltner.validate c = true)
    (h1 : validLen P c.ma.kind c.ma.length) (hp : c.ma.length ≤ P - 1) (hk0 : k0.low ≤ k0.high)
    (cs : List (Candle ℚ)) (hcs : ∀ k ∈ cs, k.low ≤ k.high) :
    ∃ s0 outs s', Keltner.init P c k0 = .ok s0 ∧ runM Keltner.vals s0 cs = .ok (outs, s') ∧ outs.length = cs.length ∧
      ∀ o ∈ outs, ∃ src up lo, o.map VExp.value = [src, up, lo] ∧ lo ≤ up := by
  have hvv := hv
  simp only [Keltner.validate, Bool.and_eq_true, decide_eq_true_eq] at hv
  obtain ⟨hper, hsig⟩ := hv
  have hper' : 1 < c.ma.length := hper
  obtain ⟨m, hm, rm⟩ := every_kind_realises (P := P) c.ma.kind c.ma.length (k0.source c.source) h1
  obtain ⟨a, ha, ia⟩ := SMA.new_spec (K := ℚ) (P := P) (k0.high - k0.low) (by omega : 0 < c.ma.length) hp
  have e1 : c.ma = { kind := c.ma.kind, length := c.ma.length } := rfl
  set s0 : Keltner := { cfg := c, prev_close := k0.close, ma := m, sma := a, cross_above := ⟨0⟩, cross_under := ⟨0⟩ } with hs0
  have h0 : Keltner.init P c k0 = .ok s0 := by
    unfold Keltner.init
    rw [if_pos hvv]
    rw [e1, hm]
    show (Res.ok m).bind _ = _
    simp only [Res.bind]
    have : MA.period { kind := c.ma.kind, length := c.ma.length } = c.ma.length := rfl
    rw [this, ha]
  have hinv0 : Keltner.Inv P (history c.ma.length (k0.high - k0.low) []) s0 := by
    refine ⟨ia, ?_, hsig, by show 0 < c.ma.length; omega⟩
    intro y hy
    simp only [history, List.append_nil, List.mem_replicate] at hy
    rw [hy.2]; linarith
  obtain ⟨os, s', hr, _, hlen, hout⟩ := MFI.runM_invariant_on Keltner.vals (fun k : Candle ℚ => k.low ≤ k.high)
    (fun _ s => s.cfg = c ∧ ∃ hist srcs, Keltner.Inv P hist s ∧
      Realises (specOf c.ma.kind c.ma.length (k0.source c.source)) s.ma srcs)
    (fun o => ∃ src up lo, o.map VExp.value = [src, up, lo] ∧ lo ≤ up)
    (by
      rintro _ s k hk ⟨hc, hist, srcs, hi, hr⟩
      obtain ⟨v, s1, hvv1, hval, hi1, hr1, _, hc1⟩ := Keltner.vals_spec k hi hr hk
      obtain ⟨m1, hm1, _⟩ := hr.step (k.source s.cfg.source)
      obtain ⟨src, up, lo, s2, hv2, hle, _⟩ := Keltner.vals_order k hi hk m1 _ hm1
      have hsame : v = [src, up, lo] := by
        rw [hvv1] at hv2
        exact (Prod.mk.inj (Except.ok.inj hv2)).1
      refine ⟨v, s1, hvv1, ⟨by rw [hc1, hc], _, _, hi1, by rw [hc] at hr1; exact hr1⟩, src.value, up.value, lo.value, ?_, hle⟩
      rw [hsame]; rfl)
    cs [] s0 hcs ⟨rfl, _, _, hinv0, rm⟩
  exact ⟨s0, os, s', h0, hr, hlen, hout⟩

end Keltner
end Yata.Ind
