/-
  Further kinds of the configurable average realise their documented formula (WMA, RMA), and are hull-preserving.
-/
import YataProofs.Indicators.StochRange
import YataProofs.Numeric.WMA
namespace Yata.Ind
open Yata

theorem wma_realises {P n : Nat} (v : ℚ) (hn0 : 0 < n) (hn : n ≤ P - 1) :
    ∃ m, MA.init P { kind := .wma, length := n } v = .ok m ∧ Realises (fun h => Spec.wma n v h) m [] := by
  obtain ⟨s, hs, hinv⟩ := WMA.new_spec (K := ℚ) (P := P) v hn0 hn
  refine ⟨.wma s, by simp [MA.init, hs, Res.map, Res.bind], ?_⟩
  refine ⟨fun h m => ∃ s, m = .wma s ∧ WMA.Inv P n (history n v h) s, ⟨s, rfl, hinv⟩, ?_⟩
  rintro h m x ⟨s, rfl, hi⟩
  obtain ⟨o, s', hnx, hi', ho⟩ := WMA.next_spec x hn0 hi
  refine ⟨.wma s', ?_, s', rfl, by rw [history_snoc]; exact hi'⟩
  simp only [MAInst.next, hnx, Except.map, ho, Spec.wma, Spec.win, history_snoc]

theorem rma_realises {P n : Nat} (v : ℚ) (hn0 : 0 < n) :
    ∃ m, MA.init P { kind := .rma, length := n } v = .ok m ∧ Realises (fun h => Spec.emaRec (1 / (n : ℚ)) v h) m [] := by
  have hs := RMA.new_ok (K := ℚ) (P := P) v hn0
  refine ⟨.rma { alpha := 1 / (n : ℚ), alpha_rev := 1 - 1 / (n : ℚ), prev_value := v }, by simp [MA.init, hs, Res.map, Res.bind], ?_⟩
  refine ⟨fun h m => m = .rma { alpha := 1 / (n : ℚ), alpha_rev := 1 - 1 / (n : ℚ), prev_value := Spec.emaRec (1 / (n : ℚ)) v h },
    by simp [Spec.emaRec], ?_⟩
  rintro h m x rfl
  refine ⟨_, ?_, rfl⟩
  simp only [MAInst.next, RMA.next, emaRec_append]
  congr 2
  · ring
  · congr 1; ring

theorem hullFn_wma (n : Nat) (hn : 0 < n) (v : ℚ) : HullFn v (fun h => Spec.wma n v h) :=
  fun xs lo hi h => wma_hull n hn v xs lo hi h

theorem hullFn_rma (n : Nat) (hn : 0 < n) (v : ℚ) : HullFn v (fun h => Spec.emaRec (1 / (n : ℚ)) v h) := by
  obtain ⟨_, _, h0, h1⟩ := ema_alpha_range (K := ℚ) n hn
  exact hullFn_ema _ v h0 h1

end Yata.Ind
