/-
  Indicator models over whole candle histories: the composed instances realise the published formulas.

  `Realises f m h`: the moving-average instance `m`, having consumed the inputs `h`, will on every
  future input `x` return `f (h ++ [x])` and again realise `f` — stated with an explicit simulation
  invariant, so that it composes under `MAInst` dispatch and indicator composition.
-/
import YataProofs.Indicators.Basic
import YataProofs.Numeric.SMA
import YataProofs.Numeric.EMA
import YataProofs.Selection
namespace Yata.Ind
open Yata

def Realises (f : List ℚ → ℚ) (m : M) (h : List ℚ) : Prop :=
  ∃ I : List ℚ → M → Prop, I h m ∧
    ∀ h m x, I h m → ∃ m', m.next x = .ok (f (h ++ [x]), m') ∧ I (h ++ [x]) m'

theorem Realises.step {f : List ℚ → ℚ} {m : M} {h : List ℚ} (hr : Realises f m h) (x : ℚ) :
    ∃ m', m.next x = .ok (f (h ++ [x]), m') ∧ Realises f m' (h ++ [x]) := by
  obtain ⟨I, hI, hstep⟩ := hr
  obtain ⟨m', hn, hI'⟩ := hstep h m x hI
  exact ⟨m', hn, I, hI', hstep⟩

/-- over a whole stream: output `i` is `f` of the history extended by the first `i+1` inputs -/
theorem Realises.run {f : List ℚ → ℚ} {m : M} {h : List ℚ} (hr : Realises f m h) (xs : List ℚ) :
    ∃ outs m', runM MAInst.next m xs = .ok (outs, m') ∧ Realises f m' (h ++ xs) ∧ outs.length = xs.length ∧
      ∀ i (hi : i < outs.length), outs[i] = f (h ++ xs.take (i + 1)) := by
  obtain ⟨os, m', hrun, hinv, hlen, houts⟩ :=
    runM_invariant MAInst.next (fun h m => Realises f m h) (fun h o => o = f h)
      (by
        intro h m x hr
        obtain ⟨m', hn, hr'⟩ := hr.step x
        exact ⟨_, m', hn, hr', rfl⟩)
      xs h m hr
  exact ⟨os, m', hrun, hinv, hlen, houts⟩

/-! ### the configurable average realises its documented formula (SMA, EMA: the two kinds the
    indicators use by default; the other kinds compose in the same way from their C02/C03 theorems) -/

theorem sma_realises {P n : Nat} (v : ℚ) (hn0 : 0 < n) (hn : n ≤ P - 1) :
    ∃ m, MA.init P { kind := .sma, length := n } v = .ok m ∧
      Realises (fun h => Spec.mean n (lastN n (history n v h))) m [] := by
  obtain ⟨s, hs, hinv⟩ := SMA.new_spec (K := ℚ) (P := P) v hn0 hn
  refine ⟨.sma s, by simp [MA.init, hs, Res.map, Res.bind], ?_⟩
  refine ⟨fun h m => ∃ s, m = .sma s ∧ SMA.Inv P n (history n v h) s, ⟨s, rfl, hinv⟩, ?_⟩
  rintro h m x ⟨s, rfl, hi⟩
  obtain ⟨o, s', hnx, hi', ho⟩ := SMA.next_spec x hn0 hi
  refine ⟨.sma s', ?_, s', rfl, by rw [history_snoc]; exact hi'⟩
  simp only [MAInst.next, hnx, Except.map, history_snoc, ho]

theorem ema_realises {P n : Nat} (v : ℚ) (hn0 : 0 < n) (hn : n ≤ P - 1) :
    ∃ m, MA.init P { kind := .ema, length := n } v = .ok m ∧
      Realises (fun h => Spec.emaRec (((2 : Nat) : ℚ) / ((n + 1 : Nat) : ℚ)) v h) m [] := by
  have hs := EMA.new_ok (K := ℚ) (P := P) v hn0 hn
  generalize ((2 : Nat) : ℚ) / ((n + 1 : Nat) : ℚ) = a at hs ⊢
  refine ⟨.ema ⟨a, v⟩, by simp [MA.init, hs, Res.map, Res.bind], ?_⟩
  refine ⟨fun h m => m = .ema ⟨a, Spec.emaRec a v h⟩, by simp [Spec.emaRec], ?_⟩
  rintro h m x rfl
  refine ⟨_, ?_, rfl⟩
  simp [MAInst.next, EMA.next, emaRec_append]

/-! ### MACD -/
namespace MACD

/-- histories: the source values so far and the MACD-line values so far -/
structure Inv (f1 f2 f3 : List ℚ → ℚ) (srcs macds : List ℚ) (s : MACD) : Prop where
  r1 : Realises f1 s.ma1 srcs
  r2 : Realises f2 s.ma2 srcs
  r3 : Realises f3 s.ma3 macds

/-- C05: one step returns `[f1 − f2, f3 (MACD-line history)]` of the extended histories and keeps the
    invariant (no feedback: the model's own MACD line feeds the signal average) -/
theorem vals_spec {f1 f2 f3 : List ℚ → ℚ} {srcs macds : List ℚ} {s : MACD} (k : Candle ℚ)
    (hi : Inv f1 f2 f3 srcs macds s) :
    let x := k.source s.cfg.source
    let macd := f1 (srcs ++ [x]) - f2 (srcs ++ [x])
    ∃ v s', s.vals k none = .ok (v, s') ∧ v.map VExp.value = [macd, f3 (macds ++ [macd])] ∧
      Inv f1 f2 f3 (srcs ++ [x]) (macds ++ [macd]) s' ∧ s'.cfg = s.cfg := by
  intro x macd
  obtain ⟨a, ha, ra⟩ := hi.r1.step x
  obtain ⟨b, hb, rb⟩ := hi.r2.step x
  obtain ⟨c, hc, rc⟩ := hi.r3.step macd
  refine ⟨[.price macd (maK s.ma1 + maK s.ma2), .price (f3 (macds ++ [macd])) (2 * maK s.ma3 * (maK s.ma1 + maK s.ma2))],
    { s with ma1 := a, ma2 := b, ma3 := c }, ?_, ?_, ⟨ra, rb, rc⟩, rfl⟩
  · simp only [vals, maNext, bind, Except.bind, fb, x, ha, hb, hc, macd, pure, Except.pure]
  · simp [VExp.value, VExp.price]

/-- C06: the two signals are the crossing rule applied to (MACD, signal line) and (MACD, 0) -/
theorem sigs_spec (s : MACD) (k : Candle ℚ) (macd sig : ℚ) :
    (s.sigs k [macd, sig]).1 =
      [ Action.ofI8 ((if crossAboveRule s.cross1.up.last_delta (macd - sig) then 1 else 0) -
                     (if crossUnderRule s.cross1.down.last_delta (macd - sig) then 1 else 0)),
        Action.ofI8 ((if crossAboveRule s.cross2.up.last_delta (macd - 0) then 1 else 0) -
                     (if crossUnderRule s.cross2.down.last_delta (macd - 0) then 1 else 0)) ] ∧
    (s.sigs k [macd, sig]).2.cross1.up.last_delta = macd - sig ∧
    (s.sigs k [macd, sig]).2.cross1.down.last_delta = macd - sig ∧
    (s.sigs k [macd, sig]).2.cross2.up.last_delta = macd - 0 ∧
    (s.sigs k [macd, sig]).2.cross2.down.last_delta = macd - 0 := by
  obtain ⟨h1, h2, h3⟩ := Cross.next_def s.cross1 (macd, sig)
  obtain ⟨g1, g2, g3⟩ := Cross.next_def s.cross2 (macd, 0)
  simp only [sigs, List.getD_cons_zero, List.getD_cons_succ]
  exact ⟨by rw [h1, g1], h2, h3, g2, g3⟩

end MACD

/-! ### Donchian channel / price channel: the bounds are the extremes of the last `period` highs / lows -/
instance : FloatLike ℚ ℚ where
  num := id
  lt_iff _ _ := Iff.rfl
  le_iff _ _ := Iff.rfl
  bitEq_refl a := by simp [BitEq.bitEq]
  bitEq_num a b h := by simpa [BitEq.bitEq] using h

namespace Channel

structure Inv (P : Nat) (highs lows : List ℚ) (s : Channel) : Prop where
  hi : Highest.Inv P s.highest
  lo : Lowest.Inv P s.lowest
  whi : Window.toList s.highest.window = lastN s.period highs
  wlo : Window.toList s.lowest.window = lastN s.period lows
  lhi : s.period ≤ highs.length
  llo : s.period ≤ lows.length
  pos : 0 < s.period

theorem tail_lastN_snoc {α : Type} (n : Nat) (l : List α) (x : α) (hn : 0 < n) (hl : n ≤ l.length) :
    (lastN n l).tail ++ [x] = lastN n (l ++ [x]) := (lastN_snoc x hn hl).symm

theorem mem_lastN_snoc {α : Type} (n : Nat) (l : List α) (x : α) (hn : 0 < n) (hl : n ≤ l.length) :
    x ∈ lastN n (l ++ [x]) := by
  rw [lastN_snoc x hn hl]; simp

/-- one step: `hi` is a maximal element of the last `period` highs (the current one included),
    `lo` a minimal element of the last `period` lows -/
theorem hl_spec {P : Nat} {highs lows : List ℚ} {s : Channel} (k : Candle ℚ) (h : Inv P highs lows s) :
    ∃ hi lo s', s.hl k = .ok (hi, lo, s') ∧ Inv P (highs ++ [k.high]) (lows ++ [k.low]) s' ∧
      IsMaxOf hi (lastN s.period (highs ++ [k.high])) ∧ IsMinOf lo (lastN s.period (lows ++ [k.low])) ∧
      s'.period = s.period ∧ s'.sigma = s.sigma := by
  obtain ⟨o1, h1, hn1, hinv1, ho1, hw1⟩ := Highest.next_spec k.high h.hi
  obtain ⟨o2, l1, hn2, hinv2, ho2, hw2⟩ := Lowest.next_spec k.low h.lo
  have e1 : Window.toList h1.window = lastN s.period (highs ++ [k.high]) := by
    rw [hw1, h.whi]; exact tail_lastN_snoc _ _ _ h.pos h.lhi
  have e2 : Window.toList l1.window = lastN s.period (lows ++ [k.low]) := by
    rw [hw2, h.wlo]; exact tail_lastN_snoc _ _ _ h.pos h.llo
  refine ⟨o1, o2, { s with highest := h1, lowest := l1 }, ?_, ⟨hinv1, hinv2, e1, e2, ?_, ?_, h.pos⟩, ?_, ?_, rfl, rfl⟩
  · simp only [hl, bind, Except.bind, hn1, hn2, pure, Except.pure]
  · simp only [List.length_append, List.length_singleton]; have := h.lhi; omega
  · simp only [List.length_append, List.length_singleton]; have := h.llo; omega
  · rw [ho1, ← e1]; exact hinv1.isMax
  · rw [ho2, ← e2]; exact hinv2.isMin

/-- C12: the channel contains the candle it has just consumed -/
theorem contains {P : Nat} {highs lows : List ℚ} {s : Channel} (k : Candle ℚ) (h : Inv P highs lows s) :
    ∃ hi lo s', s.hl k = .ok (hi, lo, s') ∧ k.high ≤ hi ∧ lo ≤ k.low := by
  obtain ⟨hi, lo, s', hn, _, hmax, hmin, _, _⟩ := hl_spec k h
  refine ⟨hi, lo, s', hn, ?_, ?_⟩
  · exact hmax.2 _ (mem_lastN_snoc _ _ _ h.pos h.lhi)
  · exact hmin.2 _ (mem_lastN_snoc _ _ _ h.pos h.llo)

end Channel
end Yata.Ind
