import YataProofs.Indicators.Ichi
import YataProofs.Runner
namespace Yata.Ind
open Yata

/-- Ichimoku over whole candle streams: from the constructor no step panics, and every step returns four values -/
theorem Ichi.run_ok {P : Nat} (c : IchiCfg) (k0 : Candle ℚ) (h1 : 0 < c.l1) (h12 : c.l1 < c.l2) (h23 : c.l2 < c.l3)
    (h3 : c.l3 ≤ P - 1) (hm0 : 0 < c.m) (hm : c.m < P) (cs : List (Candle ℚ)) :
    ∃ s0 outs s', Ichi.init P c k0 = .ok s0 ∧ runM Ichi.vals s0 cs = .ok (outs, s') ∧ outs.length = cs.length ∧
      ∀ i (hi : i < outs.length), (outs[i]).length = 4 := by
  obtain ⟨s0, h0, hc, hinv⟩ := Ichi.init_inv (P := P) c k0 h1 h12 h23 h3 hm0 hm
  obtain ⟨os, s', hr, _, hlen, hout⟩ := runM_invariant Ichi.vals
    (fun _ s => ∃ highs lows as bs, Ichi.Inv P highs lows as bs s)
    (fun _ o => o.length = 4)
    (by
      rintro h s k ⟨highs, lows, as, bs, hi⟩
      obtain ⟨a, e, b, f, d, g, sa, sb, s1, hv, _, _, _, _, _, _, _, _, hi', _⟩ := Ichi.vals_spec k hi
      exact ⟨_, s1, hv, ⟨_, _, _, _, hi'⟩, rfl⟩)
    cs [] s0 ⟨_, _, _, _, hinv⟩
  exact ⟨s0, os, s', h0, hr, hlen, hout⟩

end Yata.Ind
