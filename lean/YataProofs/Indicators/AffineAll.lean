import YataProofs.Indicators.RealisesEvery
import YataProofs.MALaws2
import YataProofs.SMMLaws
import YataProofs.VidyaLaws
namespace Yata.Ind
open Yata

theorem e1_affine (α a b v : ℚ) (xs : List ℚ) :
    e1 α (a * v + b) (xs.map fun x => a * x + b) = a * e1 α v xs + b := emaRec_affine α a b v xs

theorem e2_affine (α a b v : ℚ) (xs : List ℚ) :
    e2 α (a * v + b) (xs.map fun x => a * x + b) = a * e2 α v xs + b := by
  unfold e2
  rw [series_map (e1 α v) (e1 α (a * v + b)) (fun x => a * x + b) xs (fun p => e1_affine α a b v p)]
  exact emaRec_affine α a b v _

theorem e3_affine (α a b v : ℚ) (xs : List ℚ) :
    e3 α (a * v + b) (xs.map fun x => a * x + b) = a * e3 α v xs + b := by
  unfold e3
  rw [series_map (e2 α v) (e2 α (a * v + b)) (fun x => a * x + b) xs (fun p => e2_affine α a b v p)]
  exact emaRec_affine α a b v _

/-- **C15, every kind at once**: the documented formula of every kind of the configurable moving average commutes with
    every affine change of unit `x ↦ a·x + b`, `a ≠ 0` — construction value included — for every accepted length and
    every stream -/
theorem specOf_affine {P : Nat} (k : MAKind) (n : Nat) (hv : validLen P k n) (a b v : ℚ) (ha : a ≠ 0) (xs : List ℚ) :
    specOf k n (a * v + b) (xs.map fun x => a * x + b) = a * specOf k n v xs + b := by
  have hn0 : 0 < n := by cases k <;> simp only [validLen] at hv <;> omega
  cases k with
  | sma => exact sma_affine n hn0 a b v xs
  | wma => exact wma_affine n hn0 a b v xs
  | hma =>
    simp only [validLen] at hv
    exact hma_affine n (by omega) (Nat.sqrt_pos.mpr hn0) a b v xs
  | rma => exact emaRec_affine _ a b v xs
  | ema => exact emaRec_affine _ a b v xs
  | dma => exact e2_affine _ a b v xs
  | dema =>
    show 2 * e1 _ _ _ - e2 _ _ _ = a * (2 * e1 _ v xs - e2 _ v xs) + b
    rw [e1_affine, e2_affine]; ring
  | tma => exact e3_affine _ a b v xs
  | tema =>
    show 3 * (e1 _ _ _ - e2 _ _ _) + e3 _ _ _ = a * (3 * (e1 _ v xs - e2 _ v xs) + e3 _ v xs) + b
    rw [e1_affine, e2_affine, e3_affine]; ring
  | wsma => exact emaRec_affine _ a b v xs
  | smm => exact smm_affine n hn0 a b v ha xs
  | swma => simp only [validLen] at hv; exact swma_affine n hv.1 a b v xs
  | trima => exact trima_affine n hn0 a b v xs
  | linreg => exact linreg_affine n hn0 a b v xs
  | vidya => exact vidya_affine n a b v ha xs
end Yata.Ind
