import YataProofs.Indicators.Basic
import YataProofs.Runner
namespace Yata.Ind
open Yata

namespace SAR

/-- the whole run of the (total) step function -/
def run : SAR → List (Candle ℚ) → List (List VExp × Action) × SAR
  | s, [] => ([], s)
  | s, k :: ks => let r := s.next k; let rest := run r.2 ks; (r.1 :: rest.1, rest.2)

theorem run_length (s : SAR) (cs : List (Candle ℚ)) : (run s cs).1.length = cs.length := by
  induction cs generalizing s with
  | nil => rfl
  | cons k ks ih => simp [run, ih]

/-- **C12 over whole streams**: from the constructor, on every stream of candles with `low ≤ high`, at every step the
    returned trend is +1 or −1 and the returned SAR is on the far side of that step's candle: not above its low in an
    up-trend, not below its high in a down-trend -/
theorem run_side (a b : ℚ) (k0 : Candle ℚ) (s0 : SAR) (h0 : SAR.init a b k0 = .ok s0) (cs : List (Candle ℚ))
    (hv : ∀ k ∈ cs, k.low ≤ k.high) :
    ∀ i (hi : i < cs.length), ∃ sar trend,
      (((run s0 cs).1[i]'(by rw [run_length]; exact hi)).1.map VExp.value) = [sar, trend] ∧
      (trend = 1 ∨ trend = -1) ∧ (trend = 1 → sar ≤ cs[i].low) ∧ (trend = -1 → cs[i].high ≤ sar) := by
  have key : ∀ (cs : List (Candle ℚ)) (s : SAR), Inv s → (∀ k ∈ cs, k.low ≤ k.high) →
      ∀ i (hi : i < cs.length), ∃ sar trend,
        (((run s cs).1[i]'(by rw [run_length]; exact hi)).1.map VExp.value) = [sar, trend] ∧
        (trend = 1 ∨ trend = -1) ∧ (trend = 1 → sar ≤ cs[i].low) ∧ (trend = -1 → cs[i].high ≤ sar) := by
    intro cs
    induction cs with
    | nil => intro s _ _ i hi; simp at hi
    | cons k ks ih =>
      intro s hs hvs i hi
      have hk : k.low ≤ k.high := hvs k (by simp)
      cases i with
      | zero =>
        obtain ⟨t, up, dn⟩ := next_side s k hs hk (fun _ => trivial)
        refine ⟨(afterFlip s k).sar, ((afterFlip s k).trend : ℚ), ?_, ?_, ?_, ?_⟩
        · simp only [run, List.getElem_cons_zero]; exact next_values s k
        · rcases t with t | t
          · left; rw [t]; norm_num
          · right; rw [t]; norm_num
        · intro h
          simp only [List.getElem_cons_zero]
          apply up
          rcases t with t | t
          · exact t
          · rw [t] at h; norm_num at h
        · intro h
          simp only [List.getElem_cons_zero]
          apply dn
          rcases t with t | t
          · rw [t] at h; norm_num at h
          · exact t
      | succ j =>
        have := ih (s.next k).2 (next_inv s k hs hk).1 (fun x hx => hvs x (by simp [hx])) j (by simpa using hi)
        simpa [run] using this
  exact key cs s0 (init_inv a b k0 s0 h0) hv

/-- the states after the flip test of each step (they carry the returned SAR and trend) -/
def flips : SAR → List (Candle ℚ) → List SAR
  | _, [] => []
  | s, k :: ks => afterFlip s k :: flips (s.next k).2 ks

theorem flips_length (s : SAR) (cs : List (Candle ℚ)) : (flips s cs).length = cs.length := by
  induction cs generalizing s with
  | nil => rfl
  | cons k ks ih => simp [flips, ih]

/-- the documented rule of the only signal -/
def rule (prev trend : Int) : Action :=
  if prev = trend then Action.none else if trend = 1 then Action.buyAll else Action.sellAll

/-- **C06 over whole streams**: from the constructor, on every stream of candles with `low ≤ high`, the signal of step `i`
    fires exactly when the returned trend differs from the trend returned at step `i − 1` (from `0`, "no trend yet", at the
    first step), as a full buy for a new up-trend and a full sell for a new down-trend; the values are the SAR and trend of
    the flip state of that step -/
theorem run_signals (a b : ℚ) (k0 : Candle ℚ) (s0 : SAR) (h0 : SAR.init a b k0 = .ok s0) (cs : List (Candle ℚ))
    (hv : ∀ k ∈ cs, k.low ≤ k.high) :
    ∀ i (hi : i < cs.length),
      let o := (run s0 cs).1[i]'(by rw [run_length]; exact hi)
      let f := (flips s0 cs)[i]'(by rw [flips_length]; exact hi)
      o.1.map VExp.value = [f.sar, (f.trend : ℚ)] ∧
      o.2 = rule (if _h : i = 0 then 0 else ((flips s0 cs)[i - 1]'(by rw [flips_length]; omega)).trend) f.trend := by
  have key : ∀ (cs : List (Candle ℚ)) (s : SAR), Inv s → (∀ k ∈ cs, k.low ≤ k.high) →
      ∀ i (hi : i < cs.length),
        let o := (run s cs).1[i]'(by rw [run_length]; exact hi)
        let f := (flips s cs)[i]'(by rw [flips_length]; exact hi)
        o.1.map VExp.value = [f.sar, (f.trend : ℚ)] ∧
        o.2 = rule (if _h : i = 0 then s.prev_trend else ((flips s cs)[i - 1]'(by rw [flips_length]; omega)).trend) f.trend := by
    intro cs
    induction cs with
    | nil => intro s _ _ i hi; simp at hi
    | cons k ks ih =>
      intro s hs hvs i hi
      have hk : k.low ≤ k.high := hvs k (by simp)
      cases i with
      | zero =>
        simp only [run, flips, List.getElem_cons_zero, dite_true]
        exact ⟨next_values s k, by rw [next_signal s k hs hk]; rfl⟩
      | succ j =>
        obtain ⟨hinv', hprev⟩ := next_inv s k hs hk
        have := ih (s.next k).2 hinv' (fun x hx => hvs x (by simp [hx])) j (by simpa using hi)
        simp only [run, flips, List.getElem_cons_succ]
        refine ⟨this.1, ?_⟩
        rw [this.2]
        congr 1
        cases j with
        | zero => simp [hprev]
        | succ m => simp
  have hp0 : s0.prev_trend = 0 := by
    unfold SAR.init at h0
    split at h0
    · injection h0 with h0; subst h0; rfl
    · cases h0
  intro i hi
  have := key cs s0 (init_inv a b k0 s0 h0) hv i hi
  simpa [hp0] using this


end SAR
end Yata.Ind
