/-
  TrendStrengthIndex is a correlation coefficient: p² ≤ q (Cauchy–Schwarz between the centred positions 1..n and the
  centred window), so wherever the radicand q is positive the value p/√q is in [−1, 1] — the documented range.
-/
import YataProofs.Indicators.Irrational
import Mathlib.Tactic.Ring
import Mathlib.Tactic.Linarith
import Mathlib.Tactic.FieldSimp
namespace Yata.Ind
open Yata

/-- Cauchy–Schwarz for lists of pairs -/
theorem cauchy_list (l : List (ℚ × ℚ)) :
    ((l.map fun p => p.1 * p.2).sum) ^ 2 ≤ ((l.map fun p => p.1 * p.1).sum) * ((l.map fun p => p.2 * p.2).sum) ∧
    0 ≤ (l.map fun p => p.1 * p.1).sum ∧ 0 ≤ (l.map fun p => p.2 * p.2).sum := by
  induction l with
  | nil => simp
  | cons x t ih =>
    obtain ⟨hC, hA, hB⟩ := ih
    simp only [List.map_cons, List.sum_cons]
    set A := (t.map fun p => p.1 * p.1).sum
    set B := (t.map fun p => p.2 * p.2).sum
    set C := (t.map fun p => p.1 * p.2).sum
    obtain ⟨a, b⟩ := x
    simp only
    refine ⟨?_, by nlinarith [mul_self_nonneg a], by nlinarith [mul_self_nonneg b]⟩
    -- 2abC ≤ A b² + a² B
    have key : 2 * (a * b) * C ≤ A * (b * b) + (a * a) * B := by
      by_contra hlt
      push_neg at hlt
      have h0 : 0 ≤ A * (b * b) + a * a * B := by
        have := mul_nonneg hA (mul_self_nonneg b)
        have := mul_nonneg (mul_self_nonneg a) hB
        linarith
      have h1 : (A * (b * b) + a * a * B) ^ 2 < (2 * (a * b) * C) ^ 2 := by
        apply pow_lt_pow_left₀ hlt h0 (by norm_num)
      have h2 : (2 * (a * b) * C) ^ 2 ≤ 4 * (a * b) ^ 2 * (A * B) := by
        have := mul_le_mul_of_nonneg_left hC (by positivity : (0 : ℚ) ≤ 4 * (a * b) ^ 2)
        nlinarith
      have h3 : 4 * (a * b) ^ 2 * (A * B) ≤ (A * (b * b) + a * a * B) ^ 2 := by
        nlinarith [mul_self_nonneg (A * (b * b) - a * a * B)]
      linarith
    nlinarith

/-- positions j, j+1, … centred at c paired with the values centred at m -/
def centred (c m : ℚ) : Nat → List ℚ → List (ℚ × ℚ)
  | _, [] => []
  | j, x :: t => ((j : ℚ) - c, x - m) :: centred c m (j + 1) t

/-- Σ_{i<n} (j+i) and Σ_{i<n} (j+i)² -/
def S1 : Nat → Nat → ℚ
  | _, 0 => 0
  | j, n + 1 => (j : ℚ) + S1 (j + 1) n
def S2 : Nat → Nat → ℚ
  | _, 0 => 0
  | j, n + 1 => (j : ℚ) * j + S2 (j + 1) n

theorem S1_closed (j n : Nat) : S1 j n = n * j + n * (n - 1) / 2 := by
  induction n generalizing j with
  | zero => simp [S1]
  | succ n ih => simp only [S1, ih (j + 1)]; push_cast; ring

theorem S2_closed (j n : Nat) : S2 j n = n * j * j + j * n * (n - 1) + (n - 1) * n * (2 * n - 1) / 6 := by
  induction n generalizing j with
  | zero => simp [S2]
  | succ n ih => simp only [S2, ih (j + 1)]; push_cast; ring

theorem centred_ab (c m : ℚ) (j : Nat) (w : List ℚ) :
    ((centred c m j w).map fun p => p.1 * p.2).sum =
      Spec.rampSum j w - c * w.sum - m * (S1 j w.length - w.length * c) := by
  induction w generalizing j with
  | nil => simp [centred, Spec.rampSum, S1]
  | cons x t ih =>
    simp only [centred, List.map_cons, List.sum_cons, ih (j + 1), Spec.rampSum, List.length_cons, S1]
    push_cast; ring

theorem centred_aa (c m : ℚ) (j : Nat) (w : List ℚ) :
    ((centred c m j w).map fun p => p.1 * p.1).sum = S2 j w.length - 2 * c * S1 j w.length + w.length * c * c := by
  induction w generalizing j with
  | nil => simp [centred, S1, S2]
  | cons x t ih =>
    simp only [centred, List.map_cons, List.sum_cons, ih (j + 1), List.length_cons, S1, S2]
    push_cast; ring

theorem centred_bb (c m : ℚ) (j : Nat) (w : List ℚ) :
    ((centred c m j w).map fun p => p.2 * p.2).sum = (w.map fun x => x * x).sum - 2 * m * w.sum + w.length * m * m := by
  induction w generalizing j with
  | nil => simp [centred]
  | cons x t ih =>
    simp only [centred, List.map_cons, List.sum_cons, ih (j + 1), List.length_cons]
    push_cast; ring

/-- the correlation inequality for a window `w` of `n ≥ 1` values -/
theorem correlation_sq_le (w : List ℚ) (hn : 0 < w.length) :
    let n : ℚ := w.length
    let c : ℚ := (n + 1) / 2
    (Spec.rampSum 1 w - c * w.sum) ^ 2 ≤
      (n * (n + 1) * (n - 1) / 12) * ((w.map fun x => x * x).sum - (w.sum / n) * w.sum) := by
  intro n c
  have hn0 : (n : ℚ) ≠ 0 := by
    have : (0 : ℚ) < (w.length : ℚ) := by exact_mod_cast hn
    exact ne_of_gt this
  obtain ⟨h, _, _⟩ := cauchy_list (centred c (w.sum / n) 1 w)
  rw [centred_ab, centred_aa, centred_bb, S1_closed, S2_closed] at h
  have e1 : ((w.length : ℚ) * ((1 : Nat) : ℚ) + (w.length : ℚ) * ((w.length : ℚ) - 1) / 2 - (w.length : ℚ) * c) = 0 := by
    show n * ((1 : Nat) : ℚ) + n * (n - 1) / 2 - n * ((n + 1) / 2) = 0
    push_cast; ring
  rw [e1, mul_zero, sub_zero] at h
  have e2 : ((w.length : ℚ) * ((1 : Nat) : ℚ) * ((1 : Nat) : ℚ) + ((1 : Nat) : ℚ) * (w.length : ℚ) * ((w.length : ℚ) - 1) +
        ((w.length : ℚ) - 1) * (w.length : ℚ) * (2 * (w.length : ℚ) - 1) / 6 -
        2 * c * ((w.length : ℚ) * ((1 : Nat) : ℚ) + (w.length : ℚ) * ((w.length : ℚ) - 1) / 2) + (w.length : ℚ) * c * c) =
      n * (n + 1) * (n - 1) / 12 := by
    show n * ((1 : Nat) : ℚ) * ((1 : Nat) : ℚ) + ((1 : Nat) : ℚ) * n * (n - 1) + (n - 1) * n * (2 * n - 1) / 6 -
        2 * ((n + 1) / 2) * (n * ((1 : Nat) : ℚ) + n * (n - 1) / 2) + n * ((n + 1) / 2) * ((n + 1) / 2) = _
    push_cast; ring
  rw [e2] at h
  have e3 : (w.map fun x => x * x).sum - 2 * (w.sum / n) * w.sum + (w.length : ℚ) * (w.sum / n) * (w.sum / n) =
      (w.map fun x => x * x).sum - (w.sum / n) * w.sum := by
    show _ - 2 * (w.sum / n) * w.sum + n * (w.sum / n) * (w.sum / n) = _
    field_simp; ring
  rw [e3] at h
  exact h


theorem cast_tri (n : Nat) : (((n * (n + 1) / 2 : Nat)) : ℚ) = (n : ℚ) * ((n : ℚ) + 1) / 2 := by
  have : 2 * (n * (n + 1) / 2) = n * (n + 1) := Nat.mul_div_cancel' (Nat.even_mul_succ_self n).two_dvd
  have h := congrArg (fun t : Nat => (t : ℚ)) this
  push_cast at h
  linarith

namespace TSInd

/-- the constructor's constants: Σi and Σ(i − ī)² for i = 1..period -/
def Consts (s : TSInd) : Prop :=
  s.sx = (s.period : ℚ) * ((s.period : ℚ) + 1) / 2 ∧
  s.k = (s.period : ℚ) * ((s.period : ℚ) + 1) * ((s.period : ℚ) - 1) / 12

theorem init_inv {P period ro : Nat} (zone : ℚ) (source : Source) (src : ℚ) (s : TSInd)
    (h : TSInd.init P period zone ro source src = .ok s) :
    Inv P (List.replicate period src) s ∧ Consts s ∧ s.period = period ∧ 1 < period := by
  unfold TSInd.init at h
  split at h
  · rename_i hc
    simp only [Bool.and_eq_true, decide_eq_true_eq] at hc
    obtain ⟨⟨⟨⟨⟨hp1, hpP⟩, _⟩, _⟩, _⟩, _⟩ := hc
    obtain ⟨w, hw, ht⟩ := Tracks.new (P := P) (n := period) src (by omega)
    obtain ⟨wm, hwm, hwinv⟩ := WMA.new_spec (K := ℚ) (P := P) (n := period) src (by omega) (by omega)
    have hh : history period src [] = List.replicate period src := by simp [history]
    rw [hh] at ht hwinv
    obtain ⟨rv, hrv⟩ : ∃ rv, ReversalSignal.new P 1 2 (0 : ℚ) = .ok rv := by
      cases hr : ReversalSignal.new P 1 2 (0 : ℚ) with
      | ok rv => exact ⟨rv, rfl⟩
      | err e => simp [winNew, hw, hwm, hr, Res.bind, Res.ofExcept] at h
      | panic e => simp [winNew, hw, hwm, hr, Res.bind, Res.ofExcept] at h
    simp only [winNew, hw, hwm, hrv, Res.bind, Res.ofExcept] at h
    cases h
    have hl : lastN period (List.replicate period src) = List.replicate period src := by unfold lastN; simp
    refine ⟨⟨by show 0 < period; omega, ht, hwinv, ?_, ?_⟩, ⟨?_, ?_⟩, rfl, hp1⟩
    · show src * (period : ℚ) = _
      rw [hl, sum_replicate_field]; ring
    · show src * src * (period : ℚ) = _
      rw [hl, List.map_replicate, sum_replicate_field]; ring
    · show (((period + 1) * period / 2 : Nat) : ℚ) = _
      rw [Nat.mul_comm (period + 1) period, cast_tri]
    · show (((((period + 1) * period / 2) * (2 * period + 1) : Nat)) : ℚ) / 3 -
          ((((period + 1) * ((period + 1) * period / 2) : Nat)) : ℚ) * half = _
      rw [Nat.mul_comm (period + 1) period]
      push_cast
      rw [cast_tri]
      unfold half
      ring
  · cases h

/-- C12 (documented range [−1, 1]): from an invariant state with the constructor's constants, `p² ≤ q`: wherever the
    radicand is positive the value `p/√q` has square ≤ 1 -/
theorem vals_sq_le {P : Nat} {srcs : List ℚ} {s : TSInd} (src : ℚ) (h : Inv P srcs s) (hc : Consts s) :
    ∃ p q κn κd s', s.vals src = .ok ([.sqrtQuot p q κn κd], s') ∧ p ^ 2 ≤ q ∧ Inv P (srcs ++ [src]) s' ∧ Consts s' := by
  obtain ⟨s', hv, hinv, hsx, hk, hper⟩ := vals_spec src h
  refine ⟨_, _, _, _, s', hv, ?_, hinv, by unfold Consts; rw [hsx, hk, hper]; exact hc⟩
  have hlen : (lastN s.period (srcs ++ [src])).length = s.period :=
    lastN_length (by simp only [List.length_append, List.length_singleton]; have := h.win.len; omega)
  have hcs := correlation_sq_le (lastN s.period (srcs ++ [src])) (by rw [hlen]; exact h.pos)
  simp only [hlen] at hcs
  have hn0 : (s.period : ℚ) ≠ 0 := by
    have : (0 : ℚ) < (s.period : ℚ) := by exact_mod_cast h.pos
    exact ne_of_gt this
  have hn1 : (s.period : ℚ) + 1 ≠ 0 := by
    have : (0 : ℚ) ≤ (s.period : ℚ) := by exact_mod_cast Nat.zero_le _
    linarith
  rw [hc.2]
  refine le_trans (le_of_eq ?_) hcs
  rw [cast_tri, hc.1]
  congr 1
  field_simp

end TSInd
end Yata.Ind
