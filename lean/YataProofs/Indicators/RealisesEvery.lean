import YataProofs.Indicators.RealisesAll
import YataProofs.SMM
import YataProps.C04
import YataProofs.Indicators.Realises2
namespace Yata.Ind
open Yata

theorem smm_realises {P n : Nat} (v : ℚ) (hn0 : 0 < n) (hn : n ≤ P - 1) :
    ∃ m, MA.init P { kind := .smm, length := n } v = .ok m ∧ Realises (fun h => Spec.smm n v h) m [] := by
  obtain ⟨s0, hnew, hinv0, htl0, hh0, hm0⟩ := SMM.new_spec (β := ℚ) (P := P) v hn0 hn
  refine ⟨.smm s0, by simp [MA.init, hnew, Res.map, Res.bind], ?_⟩
  refine ⟨fun h m => ∃ s, m = .smm s ∧ SMM.Inv P s ∧ Window.toList s.window = lastN n (history n v h) ∧
      s.half = n / 2 ∧ s.half_m1 = n / 2 - (if n % 2 = 0 then 1 else 0),
    ⟨s0, rfl, hinv0, by rw [htl0, lastN_history_nil], hh0, hm0⟩, ?_⟩
  rintro h m x ⟨s, rfl, hi, ht, h1, h2⟩
  obtain ⟨s1, hst, hi1, ht1, hh1, hm1⟩ := SMM.step_spec x hi
  have hl : n ≤ (history n v h).length := by simp [history]
  have e : Window.toList s1.window = lastN n (history n v (h ++ [x])) := by
    rw [ht1, ht, history_snoc, lastN_snoc x hn0 hl]
  have hlen : s1.slice.length = n := by
    rw [SMM.slice_length hi1, ← toList_length_inv hi1.winv, e, lastN_length (by simp [history])]
  have hslice := SMM.slice_eq_sort hi1
  rw [e] at hslice
  have ha : n / 2 < s1.slice.length := by rw [hlen]; exact Nat.div_lt_self hn0 (by norm_num)
  have hb : n / 2 - (if n % 2 = 0 then 1 else 0) < s1.slice.length := by omega
  have hmid : s1.mid = .ok (s1.slice[n / 2], s1.slice[n / 2 - (if n % 2 = 0 then 1 else 0)]) := by
    unfold SMM.mid
    rw [hh1, hm1, h1, h2, List.getElem?_eq_getElem ha, List.getElem?_eq_getElem hb]
  refine ⟨.smm s1, ?_, s1, rfl, hi1, e, by rw [hh1, h1], by rw [hm1, h2]⟩
  simp only [MAInst.next, hst, hmid]
  congr 2
  -- the median of the spec is the half-sum of the same two positions of the same sorted list
  unfold Spec.smm Spec.win Spec.median Spec.sort
  have hwl : (lastN n (history n v (h ++ [x]))).length = n := lastN_length (by simp [history])
  rw [hwl, ← hslice]
  have hidx : (if n % 2 = 0 then n / 2 - 1 else n / 2) = n / 2 - (if n % 2 = 0 then 1 else 0) := by split <;> omega
  dsimp only
  rw [hidx, List.getElem?_eq_getElem ha, List.getElem?_eq_getElem hb]
  simp [MAInst.half2]


/-- the documented formula of each kind, as a function of the inputs fed after construction with `v` -/
def specOf (k : MAKind) (n : Nat) (v : ℚ) : List ℚ → ℚ :=
  let a : ℚ := ((2 : Nat) : ℚ) / ((n + 1 : Nat) : ℚ)
  match k with
  | .sma => fun h => Spec.mean n (lastN n (history n v h))
  | .wma => Spec.wma n v
  | .hma => Spec.hma n v
  | .rma => Spec.emaRec (1 / (n : ℚ)) v
  | .ema => Spec.emaRec a v
  | .dma => e2 a v
  | .dema => fun h => 2 * e1 a v h - e2 a v h
  | .tma => e3 a v
  | .tema => fun h => 3 * (e1 a v h - e2 a v h) + e3 a v h
  | .wsma => Spec.emaRec (1 / (n : ℚ)) v
  | .smm => Spec.smm n v
  | .swma => Spec.swma n v
  | .trima => Spec.trima n v
  | .linreg => Spec.linreg n v
  | .vidya => Spec.vidya n v

/-- lengths for which the kind's constructor succeeds and its formula is the documented one -/
def validLen (P : Nat) (k : MAKind) (n : Nat) : Prop :=
  match k with
  | .hma | .linreg | .swma => 2 ≤ n ∧ n ≤ P - 1
  | .wsma => 0 < n ∧ n ≤ P / 2
  | .rma => 0 < n
  | _ => 0 < n ∧ n ≤ P - 1

/-- C05: EVERY kind of the configurable moving average realises its documented formula, for ever -/
theorem every_kind_realises {P : Nat} (k : MAKind) (n : Nat) (v : ℚ) (h : validLen P k n) :
    ∃ m, MA.init P { kind := k, length := n } v = .ok m ∧ Realises (specOf k n v) m [] := by
  cases k <;> simp only [validLen] at h <;> simp only [specOf]
  · exact sma_realises v h.1 h.2
  · exact wma_realises v h.1 h.2
  · exact hma_realises v h.1 h.2
  · exact rma_realises v h
  · exact ema_realises v h.1 h.2
  · exact dma_realises v h.1 h.2
  · exact dema_realises v h.1 h.2
  · exact tma_realises v h.1 h.2
  · exact tema_realises v h.1 h.2
  · exact wsma_realises v h.1 h.2
  · exact smm_realises v h.1 h.2
  · exact swma_realises v h.1 h.2
  · exact trima_realises v h.1 h.2
  · exact linreg_realises v h.1 h.2
  · exact vidya_realises v h.1 h.2


/-- MACD, any three kinds and lengths its `validate` and the three constructors accept: the constructor establishes the
    invariant of `MACD.vals_spec` with the documented formulas of the three kinds — so value 0 is
    `spec₁(sources) − spec₂(sources)` and value 1 is `spec₃` of the history of value 0, over every candle stream -/
theorem MACD.init_every_kind {P : Nat} (c : MACDCfg) (k : Candle ℚ) (hv : MACD.validate c = true)
    (h1 : validLen P c.ma1.kind c.ma1.length) (h2 : validLen P c.ma2.kind c.ma2.length)
    (h3 : validLen P c.signal.kind c.signal.length) :
    ∃ s, MACD.init P c k = .ok s ∧ s.cfg = c ∧
      MACD.Inv (specOf c.ma1.kind c.ma1.length (k.source c.source)) (specOf c.ma2.kind c.ma2.length (k.source c.source))
        (specOf c.signal.kind c.signal.length 0) [] [] s := by
  obtain ⟨a, ha, ra⟩ := every_kind_realises (P := P) c.ma1.kind c.ma1.length (k.source c.source) h1
  obtain ⟨b, hb, rb⟩ := every_kind_realises (P := P) c.ma2.kind c.ma2.length (k.source c.source) h2
  obtain ⟨d, hd, rd⟩ := every_kind_realises (P := P) c.signal.kind c.signal.length 0 h3
  refine ⟨{ cfg := c, ma1 := a, ma2 := b, ma3 := d, cross1 := Cross.default, cross2 := Cross.default }, ?_, rfl, ⟨ra, rb, rd⟩⟩
  have e1 : c.ma1 = { kind := c.ma1.kind, length := c.ma1.length } := rfl
  have e2 : c.ma2 = { kind := c.ma2.kind, length := c.ma2.length } := rfl
  have e3 : c.signal = { kind := c.signal.kind, length := c.signal.length } := rfl
  unfold MACD.init
  rw [if_pos hv]
  simp only
  rw [e1, ha, e2, hb, e3, hd]
  rfl

end Yata.Ind
