/-
  Envelopes, Klinger volume oscillator, TrueStrengthIndex / SMIErgodic: value steps from invariant states (C05).
-/
import YataProofs.Indicators.History
import YataProofs.Numeric.TSI
import YataModel.Indicators2
namespace Yata.Ind
open Yata

namespace Env
theorem vals_spec {f : List ℚ → ℚ} {srcs : List ℚ} {s : Env} (k : Candle ℚ) (h : Realises f s.ma srcs) :
    let x := k.source s.cfg.source
    ∃ v s', s.vals k = .ok (v, s') ∧
      v.map VExp.value = [f (srcs ++ [x]) * s.k_high, f (srcs ++ [x]) * s.k_low, k.source s.cfg.source2] ∧
      Realises f s'.ma (srcs ++ [x]) ∧ s'.cfg = s.cfg ∧ s'.k_high = s.k_high ∧ s'.k_low = s.k_low := by
  intro x
  obtain ⟨m, hm, rm⟩ := h.step x
  refine ⟨[.price (f (srcs ++ [x]) * s.k_high) (2 * maK s.ma), .price (f (srcs ++ [x]) * s.k_low) (2 * maK s.ma),
    .exact (k.source s.cfg.source2)], { s with ma := m }, ?_, ?_, rm, rfl, rfl, rfl⟩
  · simp only [vals, maNext, bind, Except.bind, x, hm, pure, Except.pure]
  · simp [VExp.value, VExp.price]
end Env

namespace Klinger
/-- histories: the signed volumes fed to the two averages, and the oscillator values fed to the signal line -/
structure Inv (f1 f2 f3 : List ℚ → ℚ) (vols kos : List ℚ) (s : Klinger) : Prop where
  r1 : Realises f1 s.ma1 vols
  r2 : Realises f2 s.ma2 vols
  r3 : Realises f3 s.ma3 kos

theorem vals_spec {f1 f2 f3 : List ℚ → ℚ} {vols kos : List ℚ} {s : Klinger} (k : Candle ℚ) (tp : ℚ)
    (h : Inv f1 f2 f3 vols kos s) :
    let vol := (signi (tp - s.last_tp) : ℚ) * k.volume
    let ko := f1 (vols ++ [vol]) - f2 (vols ++ [vol])
    ∃ v s', s.vals k tp none = .ok (v, s') ∧ v.map VExp.value = [ko, f3 (kos ++ [ko])] ∧
      Inv f1 f2 f3 (vols ++ [vol]) (kos ++ [ko]) s' ∧ s'.last_tp = tp := by
  intro vol ko
  obtain ⟨a, ha, ra⟩ := h.r1.step vol
  obtain ⟨b, hb, rb⟩ := h.r2.step vol
  obtain ⟨c, hc, rc⟩ := h.r3.step ko
  refine ⟨[.vol ko (maK s.ma1 + maK s.ma2), .vol (f3 (kos ++ [ko])) (2 * maK s.ma3 * (maK s.ma1 + maK s.ma2))],
    { s with ma1 := a, ma2 := b, ma3 := c, last_tp := tp }, ?_, ?_, ⟨ra, rb, rc⟩, rfl⟩
  · simp only [vals, maNext, bind, Except.bind, fb, vol, ko, ha, hb, hc, pure, Except.pure]
  · simp [VExp.value, VExp.vol]
end Klinger

namespace TSIx
/-- the TSI method after the sources `srcs`, the smoothing average after the TSI values `ts` -/
structure Inv (aL aS v0 : ℚ) (g : List ℚ → ℚ) (srcs ts : List ℚ) (s : TSIx) : Prop where
  tsi : TSI.Inv aL aS v0 srcs s.tsi
  r : Realises g s.smooth ts

theorem vals_spec {aL aS v0 : ℚ} {g : List ℚ → ℚ} {srcs ts : List ℚ} {s : TSIx} (k : Candle ℚ) (smi : Bool)
    (h : Inv aL aS v0 g srcs ts s) :
    let x := k.source s.cfg.source
    let ch := Spec.changes v0 (srcs ++ [x])
    let num := Spec.emaRec aS 0 (Spec.series (Spec.emaRec aL 0) ch)
    let den := Spec.emaRec aS 0 (Spec.series (Spec.emaRec aL 0) (ch.map sabs))
    let t := if 0 < den then num / den else 0
    ∃ s', s.vals k none smi = .ok
        ((if smi then [.quot num den 2 2 .price [] (some 0), .unit (g (ts ++ [t])) (2 * maK s.smooth),
                       .unit (t - g (ts ++ [t])) (4 * maK s.smooth)]
          else [.quot num den 2 2 .price [] (some 0), .unit (g (ts ++ [t])) (2 * maK s.smooth)]), s') ∧
      Inv aL aS v0 g (srcs ++ [x]) (ts ++ [t]) s' ∧ s'.cfg = s.cfg := by
  intro x ch num den t
  obtain ⟨hinv, _⟩ := TSI.next_spec x h.tsi
  have e12 : (s.tsi.next x).2.ema12.peek = num := by rw [hinv.e12]; rfl
  have e22 : (s.tsi.next x).2.ema22.peek = den := by rw [hinv.e22]; rfl
  obtain ⟨m, hm, rm⟩ := h.r.step t
  refine ⟨{ s with tsi := (s.tsi.next x).2, smooth := m }, ?_, ⟨hinv, rm⟩, rfl⟩
  simp only [vals, maNext, bind, Except.bind, fb, x, e12, e22, pure, Except.pure]
  erw [hm]
  cases smi <;> rfl
end TSIx

end Yata.Ind
