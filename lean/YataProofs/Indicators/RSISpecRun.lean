import YataProofs.Indicators.RSIRun
namespace Yata.Ind
open Yata
namespace RSI

/-- the gains / losses fed to the two averages along a stream of sources, starting from the previous source `p` -/
def gains : ℚ → List ℚ → List ℚ
  | _, [] => []
  | p, x :: xs => smax (x - p) 0 :: gains x xs
def losses : ℚ → List ℚ → List ℚ
  | _, [] => []
  | p, x :: xs => smin (x - p) 0 :: losses x xs

theorem lastOr_cons' (p a : ℚ) (t : List ℚ) : lastOr p (a :: t) = lastOr a t := by
  unfold lastOr
  rw [List.getLast_cons (by simp)]

theorem gains_snoc (p : ℚ) (xs : List ℚ) (x : ℚ) :
    gains p (xs ++ [x]) = gains p xs ++ [smax (x - lastOr p xs) 0] := by
  induction xs generalizing p with
  | nil => simp [gains, lastOr]
  | cons a t ih => simp [gains, ih, lastOr_cons']
theorem losses_snoc (p : ℚ) (xs : List ℚ) (x : ℚ) :
    losses p (xs ++ [x]) = losses p xs ++ [smin (x - lastOr p xs) 0] := by
  induction xs generalizing p with
  | nil => simp [losses, lastOr]
  | cons a t ih => simp [losses, ih, lastOr_cons']

/-- the documented value after the sources `srcs` (first source `p0` from the constructor's candle) -/
def valueOf (c : RSICfg) (p0 : ℚ) (srcs : List ℚ) : ℚ :=
  let pos := specOf c.ma.kind c.ma.length 0 (gains p0 srcs)
  let neg := -(specOf c.ma.kind c.ma.length 0 (losses p0 srcs))
  if pos + neg = 0 then half else qclamp (pos / (pos + neg)) 0 1

/-- **C05 over whole streams, every kind**: from the constructor, at every step the value is the documented
    `pos / (pos + neg)` (clamped to [0, 1]; 1/2 when both averages vanish) of the documented averages of the gains and the
    losses of the sources so far -/
theorem run_spec {P : Nat} (c : RSICfg) (k0 : Candle ℚ) (hv : RSI.validate c = true)
    (h1 : validLen P c.ma.kind c.ma.length) (cs : List (Candle ℚ)) :
    ∃ s0 outs s', RSI.init P c k0 = .ok s0 ∧ runM RSI.vals s0 cs = .ok (outs, s') ∧ outs.length = cs.length ∧
      ∀ i (hi : i < outs.length), ∃ v, outs[i] = [v] ∧
        v.value = valueOf c (k0.source c.source) ((cs.take (i + 1)).map fun k => k.source c.source) := by
  obtain ⟨a, ha, ra⟩ := every_kind_realises (P := P) c.ma.kind c.ma.length 0 h1
  have e1 : c.ma = { kind := c.ma.kind, length := c.ma.length } := rfl
  set s0 : RSI := { cfg := c, previous_input := k0.source c.source, posma := a, negma := a, cross_upper := Cross.new (half, 1 - c.zone), cross_lower := Cross.new (half, c.zone) } with hs0
  have h0 : RSI.init P c k0 = .ok s0 := by
    unfold RSI.init
    rw [if_pos hv, e1, ha]
    rfl
  set p0 := k0.source c.source with hp0
  obtain ⟨os, s', hr, _, hlen, hout⟩ := runM_invariant RSI.vals
    (fun h s => s.cfg = c ∧ s.previous_input = lastOr p0 (h.map fun k => k.source c.source) ∧
      Realises (specOf c.ma.kind c.ma.length 0) s.posma (gains p0 (h.map fun k => k.source c.source)) ∧
      Realises (specOf c.ma.kind c.ma.length 0) s.negma (losses p0 (h.map fun k => k.source c.source)))
    (fun h o => ∃ v, o = [v] ∧ v.value = valueOf c p0 (h.map fun k => k.source c.source))
    (by
      rintro h s k ⟨hc, hprev, rp, rn⟩
      obtain ⟨v, s1, hvv, hval, _, _, rp', rn', hprev', hc'⟩ := vals_spec k rp rn
      rw [hc, hprev] at hval rp' rn'
      rw [hc] at hprev'
      refine ⟨_, s1, hvv, ⟨by rw [hc', hc], ?_, ?_, ?_⟩, v, rfl, ?_⟩
      · rw [hprev', List.map_append, List.map_cons, List.map_nil, lastOr_snoc]
      · rw [List.map_append, List.map_cons, List.map_nil, gains_snoc]; exact rp'
      · rw [List.map_append, List.map_cons, List.map_nil, losses_snoc]; exact rn'
      · rw [hval]
        simp only [valueOf, List.map_append, List.map_cons, List.map_nil, gains_snoc, losses_snoc])
    cs [] s0 ⟨rfl, by simp [lastOr, hs0], by simpa [gains] using ra, by simpa [losses] using ra⟩
  refine ⟨s0, os, s', h0, hr, hlen, fun i hi => ?_⟩
  simpa using hout i hi

end RSI
end Yata.Ind
