import YataProofs.Indicators.More
import YataProofs.Indicators.MFIRange
namespace Yata.Ind
open Yata

namespace Channel

/-- PriceChannelStrategy over whole streams of candles with low ≤ high, from its constructor (0 < sigma): no step panics and
    upper ≥ lower at every step; Donchian likewise lowest ≤ middle ≤ highest -/
theorem order_run {P n : Nat} (σ : ℚ) (hσ : 0 < σ) (k0 : Candle ℚ) (hn1 : 1 < n) (hn : n ≤ P - 1)
    (cs : List (Candle ℚ)) (hcs : ∀ k ∈ cs, k.low ≤ k.high) :
    ∃ s0, Channel.init P n σ true k0 = .ok s0 ∧
      (∃ outs s', runM (fun s k => Channel.priceChannelVals s k) s0 cs = .ok (outs, s') ∧ outs.length = cs.length ∧
        ∀ o ∈ outs, ∃ up lo, o.map VExp.value = [up, lo] ∧ lo ≤ up) ∧
      (∃ outs s', runM (fun s k => Channel.donchianVals s k) s0 cs = .ok (outs, s') ∧ outs.length = cs.length ∧
        ∀ o ∈ outs, ∃ lo mid hi, o.map VExp.value = [lo, mid, hi] ∧ lo ≤ mid ∧ mid ≤ hi) := by
  obtain ⟨s0, h0, hp, hs, hinv⟩ := init_inv (P := P) σ k0 hn1 hn
  refine ⟨s0, h0, ?_, ?_⟩
  · obtain ⟨os, s', hr, _, hlen, hout⟩ := MFI.runM_invariant_on (fun s k => Channel.priceChannelVals s k)
      (fun k : Candle ℚ => k.low ≤ k.high)
      (fun _ s => s.sigma = σ ∧ ∃ highs lows, Inv P highs lows s)
      (fun o => ∃ up lo, o.map VExp.value = [up, lo] ∧ lo ≤ up)
      (by
        rintro _ s k hk ⟨hsg, highs, lows, hi⟩
        obtain ⟨hiV, lo, s1, hhl, hi1, hmax, hmin, _, hs1⟩ := hl_spec k hi
        obtain ⟨hiV', lo', s1', hhl', c1, c2⟩ := contains k hi
        rw [hhl] at hhl'
        have e := Except.ok.inj hhl'
        have e1 : hiV = hiV' := (Prod.mk.inj e).1
        have e2 : lo = lo' := (Prod.mk.inj (Prod.mk.inj e).2).1
        subst e1 e2
        have hle : lo ≤ hiV := by linarith
        refine ⟨[.price ((hiV - (hiV + lo) * half) * s.sigma + (hiV + lo) * half) 2,
                 .price ((hiV - (hiV + lo) * half) * (-s.sigma) + (hiV + lo) * half) 2], s1, ?_,
          ⟨by rw [hs1, hsg], _, _, hi1⟩, _, _, rfl, ?_⟩
        · simp only [priceChannelVals, hhl, bind, Except.bind, pure, Except.pure]
        · simp only [VExp.value, VExp.price]
          rw [hsg]
          unfold half
          nlinarith)
      cs [] s0 hcs ⟨hs, _, _, hinv⟩
    exact ⟨os, s', hr, hlen, hout⟩
  · obtain ⟨os, s', hr, _, hlen, hout⟩ := MFI.runM_invariant_on (fun s k => Channel.donchianVals s k)
      (fun k : Candle ℚ => k.low ≤ k.high)
      (fun _ s => ∃ highs lows, Inv P highs lows s)
      (fun o => ∃ lo mid hi, o.map VExp.value = [lo, mid, hi] ∧ lo ≤ mid ∧ mid ≤ hi)
      (by
        rintro _ s k hk ⟨highs, lows, hi⟩
        obtain ⟨hiV, lo, s1, hhl, hi1, _, _, _, _⟩ := hl_spec k hi
        obtain ⟨hiV', lo', s1', hhl', c1, c2⟩ := contains k hi
        rw [hhl] at hhl'
        have e := Except.ok.inj hhl'
        have e1 : hiV = hiV' := (Prod.mk.inj e).1
        have e2 : lo = lo' := (Prod.mk.inj (Prod.mk.inj e).2).1
        subst e1 e2
        have hle : lo ≤ hiV := by linarith
        refine ⟨[.exact lo, .price ((hiV + lo) * half) 1, .exact hiV], s1, ?_, ⟨_, _, hi1⟩, lo, (hiV + lo) * half, hiV, ?_, ?_, ?_⟩
        · simp only [donchianVals, hhl, bind, Except.bind, pure, Except.pure]
        · simp [VExp.value, VExp.price]
        · unfold half; linarith
        · unfold half; linarith)
      cs [] s0 hcs ⟨_, _, hinv⟩
    exact ⟨os, s', hr, hlen, hout⟩

end Channel
end Yata.Ind
