/-
  Every moving-average kind realises its from-scratch specification (C02 / C03 / C04 run theorems lifted to the
  configurable average `MAInst`): a run theorem "for every stream, output i = f (first i+1 inputs)" makes the initial
  instance realise `f`.
-/
import YataProofs.Indicators.History
import YataProofs.Runner
import YataProps.C02
import YataProps.C03
namespace Yata.Ind
open Yata

/-- from a run-level specification to `Realises` -/
theorem realises_of_run (m0 : M) (f : List ℚ → ℚ)
    (hrun : ∀ xs : List ℚ, ∃ outs s', runM MAInst.next m0 xs = .ok (outs, s') ∧ outs.length = xs.length ∧
      ∀ i (hi : i < outs.length), outs[i] = f (xs.take (i + 1))) :
    Realises f m0 [] := by
  refine ⟨fun h m => ∃ outs, runM MAInst.next m0 h = .ok (outs, m), ⟨[], rfl⟩, ?_⟩
  rintro h m x ⟨outs, hr⟩
  obtain ⟨outs2, s2, hr2, hlen2, hout2⟩ := hrun (h ++ [x])
  rw [runM_append, hr] at hr2
  simp only [runM] at hr2
  cases hn : MAInst.next m x with
  | error e => simp [hn] at hr2
  | ok p =>
    obtain ⟨o, m'⟩ := p
    simp only [hn] at hr2
    have heq : outs ++ [o] = outs2 ∧ m' = s2 := by
      have := Except.ok.inj hr2
      exact ⟨(Prod.mk.inj this).1, (Prod.mk.inj this).2⟩
    have hl : outs.length = h.length := runM_length _ _ _ hr
    have ho : o = f (h ++ [x]) := by
      have hi : h.length < outs2.length := by rw [hlen2]; simp
      have := hout2 h.length hi
      rw [List.take_of_length_le (by simp)] at this
      rw [← this]
      have e : outs2[h.length] = (outs ++ [o])[h.length]'(by simp [hl]) := by
        congr 1
        · exact heq.1.symm
      rw [e, List.getElem_append_right (by omega)]
      simp [hl]
    refine ⟨m', by rw [ho], outs ++ [o], ?_⟩
    rw [runM_append, hr]
    simp [runM, hn]

/-- lifting a method's own run to the configurable average -/
theorem runM_lift {σ : Type} (next : σ → ℚ → Except Panic (ℚ × σ)) (inj : σ → M)
    (hstep : ∀ s x, MAInst.next (inj s) x = (next s x).map fun p => (p.1, inj p.2)) (s : σ) (xs : List ℚ) :
    runM MAInst.next (inj s) xs = (runM next s xs).map fun p => (p.1, inj p.2) := by
  induction xs generalizing s with
  | nil => rfl
  | cons x t ih =>
    simp only [runM, hstep]
    cases hn : next s x with
    | error e => rfl
    | ok p =>
      simp only [Except.map]
      rw [ih p.2]
      cases hr : runM next p.2 t with
      | error e => rfl
      | ok q => rfl


/-! ### the window kinds through their C02 run theorems -/
theorem trima_realises {P n : Nat} (v : ℚ) (hn0 : 0 < n) (hn : n ≤ P - 1) :
    ∃ m, MA.init P { kind := .trima, length := n } v = .ok m ∧ Realises (fun h => Spec.trima n v h) m [] := by
  obtain ⟨s0, _, _, h0, _⟩ := Yata.C02.C02_trima (K := ℚ) (P := P) v hn0 hn []
  refine ⟨.trima s0, by simp [MA.init, h0, Res.map, Res.bind], realises_of_run _ _ (fun xs => ?_)⟩
  obtain ⟨s0', outs, s', h0', hr, hl, ho⟩ := Yata.C02.C02_trima (K := ℚ) (P := P) v hn0 hn xs
  have : s0' = s0 := by rw [h0] at h0'; exact (Res.ok.inj h0').symm
  subst this
  refine ⟨outs, .trima s', ?_, hl, ho⟩
  rw [runM_lift TRIMA.next MAInst.trima (fun s x => by cases h : s.next x <;> simp [MAInst.next, h, Except.map]), hr]
  rfl

theorem hma_realises {P n : Nat} (v : ℚ) (hn2 : 2 ≤ n) (hn : n ≤ P - 1) :
    ∃ m, MA.init P { kind := .hma, length := n } v = .ok m ∧ Realises (fun h => Spec.hma n v h) m [] := by
  obtain ⟨s0, _, _, h0, _⟩ := Yata.C02.C02_hma (K := ℚ) (P := P) v hn2 hn []
  refine ⟨.hma s0, by simp [MA.init, h0, Res.map, Res.bind], realises_of_run _ _ (fun xs => ?_)⟩
  obtain ⟨s0', outs, s', h0', hr, hl, ho⟩ := Yata.C02.C02_hma (K := ℚ) (P := P) v hn2 hn xs
  have : s0' = s0 := by rw [h0] at h0'; exact (Res.ok.inj h0').symm
  subst this
  refine ⟨outs, .hma s', ?_, hl, ho⟩
  rw [runM_lift HMA.next MAInst.hma (fun s x => by cases h : s.next x <;> simp [MAInst.next, h, Except.map]), hr]
  rfl

theorem linreg_realises {P n : Nat} (v : ℚ) (hn2 : 2 ≤ n) (hn : n ≤ P - 1) :
    ∃ m, MA.init P { kind := .linreg, length := n } v = .ok m ∧ Realises (fun h => Spec.linreg n v h) m [] := by
  obtain ⟨s0, _, _, h0, _⟩ := Yata.C02.C02_linreg (K := ℚ) (P := P) v hn2 hn []
  refine ⟨.linreg s0, by simp [MA.init, h0, Res.map, Res.bind], realises_of_run _ _ (fun xs => ?_)⟩
  obtain ⟨s0', outs, s', h0', hr, hl, ho⟩ := Yata.C02.C02_linreg (K := ℚ) (P := P) v hn2 hn xs
  have : s0' = s0 := by rw [h0] at h0'; exact (Res.ok.inj h0').symm
  subst this
  refine ⟨outs, .linreg s', ?_, hl, ho⟩
  rw [runM_lift LinReg.next MAInst.linreg (fun s x => by cases h : s.next x <;> simp [MAInst.next, h, Except.map]), hr]
  rfl

theorem swma_realises {P n : Nat} (v : ℚ) (hn2 : 2 ≤ n) (hn : n ≤ P - 1) :
    ∃ m, MA.init P { kind := .swma, length := n } v = .ok m ∧ Realises (fun h => Spec.swma n v h) m [] := by
  obtain ⟨s0, _, _, h0, _⟩ := Yata.C02.C02_swma (K := ℚ) (P := P) v hn2 hn []
  refine ⟨.swma s0, by simp [MA.init, h0, Res.map, Res.bind], realises_of_run _ _ (fun xs => ?_)⟩
  obtain ⟨s0', outs, s', h0', hr, hl, ho⟩ := Yata.C02.C02_swma (K := ℚ) (P := P) v hn2 hn xs
  have : s0' = s0 := by rw [h0] at h0'; exact (Res.ok.inj h0').symm
  subst this
  refine ⟨outs, .swma s', ?_, hl, ho⟩
  rw [runM_lift SWMA.next MAInst.swma (fun s x => by cases h : s.next x <;> simp [MAInst.next, h, Except.map]), hr]
  rfl

/-! ### the exponential family through the C03 run theorems -/
theorem dma_realises {P n : Nat} (v : ℚ) (hn0 : 0 < n) (hn : n ≤ P - 1) :
    ∃ m, MA.init P { kind := .dma, length := n } v = .ok m ∧
      Realises (fun h => e2 (((2 : Nat) : ℚ) / ((n + 1 : Nat) : ℚ)) v h) m [] := by
  have he := EMA.new_ok (K := ℚ) (P := P) v hn0 hn
  have hnP : ¬ (n = 0 ∨ n = P) := by omega
  generalize ((2 : Nat) : ℚ) / ((n + 1 : Nat) : ℚ) = a at he ⊢
  refine ⟨.dma { ema := ⟨a, v⟩, dma := ⟨a, v⟩ }, by simp [MA.init, DMA.new, hnP, he, Res.map, Res.bind],
    realises_of_run _ _ (fun xs => ?_)⟩
  obtain ⟨outs, s', hr, hl, ho⟩ := DMA.run_spec a v xs
  refine ⟨outs, .dma s', ?_, hl, ho⟩
  rw [runM_lift (liftNext DMA.next) MAInst.dma (fun s x => by simp [MAInst.next, liftNext, Except.map]), hr]
  rfl

theorem tma_realises {P n : Nat} (v : ℚ) (hn0 : 0 < n) (hn : n ≤ P - 1) :
    ∃ m, MA.init P { kind := .tma, length := n } v = .ok m ∧
      Realises (fun h => e3 (((2 : Nat) : ℚ) / ((n + 1 : Nat) : ℚ)) v h) m [] := by
  have he := EMA.new_ok (K := ℚ) (P := P) v hn0 hn
  have hnP : ¬ (n = 0 ∨ n = P) := by omega
  generalize ((2 : Nat) : ℚ) / ((n + 1 : Nat) : ℚ) = a at he ⊢
  refine ⟨.tma { dma := { ema := ⟨a, v⟩, dma := ⟨a, v⟩ }, tma := ⟨a, v⟩ },
    by simp [MA.init, TMA.new, DMA.new, hnP, he, Res.map, Res.bind], realises_of_run _ _ (fun xs => ?_)⟩
  obtain ⟨outs, s', hr, hl, ho⟩ := TMA.run_spec a v xs
  refine ⟨outs, .tma s', ?_, hl, ho⟩
  rw [runM_lift (liftNext TMA.next) MAInst.tma (fun s x => by simp [MAInst.next, liftNext, Except.map]), hr]
  rfl


theorem dema_realises {P n : Nat} (v : ℚ) (hn0 : 0 < n) (hn : n ≤ P - 1) :
    ∃ m, MA.init P { kind := .dema, length := n } v = .ok m ∧
      Realises (fun h => 2 * e1 (((2 : Nat) : ℚ) / ((n + 1 : Nat) : ℚ)) v h - e2 (((2 : Nat) : ℚ) / ((n + 1 : Nat) : ℚ)) v h) m [] := by
  have he := EMA.new_ok (K := ℚ) (P := P) v hn0 hn
  have hnP : ¬ (n = 0 ∨ n = P) := by omega
  generalize ((2 : Nat) : ℚ) / ((n + 1 : Nat) : ℚ) = a at he ⊢
  refine ⟨.dema { ema := ⟨a, v⟩, dma := ⟨a, v⟩ }, by simp [MA.init, DEMA.new, hnP, he, Res.map, Res.bind],
    realises_of_run _ _ (fun xs => ?_)⟩
  obtain ⟨outs, s', hr, hl, ho⟩ := DEMA.run_spec a v xs
  refine ⟨outs, .dema s', ?_, hl, ho⟩
  rw [runM_lift (liftNext DEMA.next) MAInst.dema (fun s x => by simp [MAInst.next, liftNext, Except.map]), hr]
  rfl

theorem tema_realises {P n : Nat} (v : ℚ) (hn0 : 0 < n) (hn : n ≤ P - 1) :
    ∃ m, MA.init P { kind := .tema, length := n } v = .ok m ∧
      Realises (fun h => 3 * (e1 (((2 : Nat) : ℚ) / ((n + 1 : Nat) : ℚ)) v h - e2 (((2 : Nat) : ℚ) / ((n + 1 : Nat) : ℚ)) v h) +
        e3 (((2 : Nat) : ℚ) / ((n + 1 : Nat) : ℚ)) v h) m [] := by
  have he := EMA.new_ok (K := ℚ) (P := P) v hn0 hn
  have hnP : ¬ (n = 0 ∨ n = P) := by omega
  generalize ((2 : Nat) : ℚ) / ((n + 1 : Nat) : ℚ) = a at he ⊢
  refine ⟨.tema { ema := ⟨a, v⟩, dma := ⟨a, v⟩, tma := ⟨a, v⟩ }, by simp [MA.init, TEMA.new, hnP, he, Res.map, Res.bind],
    realises_of_run _ _ (fun xs => ?_)⟩
  obtain ⟨outs, s', hr, hl, ho⟩ := TEMA.run_spec a v xs
  refine ⟨outs, .tema s', ?_, hl, ho⟩
  rw [runM_lift (liftNext TEMA.next) MAInst.tema (fun s x => by simp [MAInst.next, liftNext, Except.map]), hr]
  rfl

theorem wsma_realises {P n : Nat} (v : ℚ) (hn0 : 0 < n) (hn : n ≤ P / 2) :
    ∃ m, MA.init P { kind := .wsma, length := n } v = .ok m ∧ Realises (fun h => Spec.emaRec (1 / (n : ℚ)) v h) m [] := by
  have hs := WSMA.new_ok (K := ℚ) (P := P) v hn0 hn
  refine ⟨.wsma { ema := { alpha := 1 / (n : ℚ), value := v } }, by simp [MA.init, hs, Res.map, Res.bind], ?_⟩
  refine ⟨fun h m => m = .wsma { ema := { alpha := 1 / (n : ℚ), value := Spec.emaRec (1 / (n : ℚ)) v h } },
    by simp [Spec.emaRec], ?_⟩
  rintro h m x rfl
  refine ⟨_, ?_, rfl⟩
  simp [MAInst.next, WSMA.next, EMA.next, emaRec_append]

theorem vidya_realises {P n : Nat} (v : ℚ) (hn0 : 0 < n) (hn : n ≤ P - 1) :
    ∃ m, MA.init P { kind := .vidya, length := n } v = .ok m ∧ Realises (fun h => Spec.vidya n v h) m [] := by
  obtain ⟨s0, _, _, h0, _⟩ := Yata.C03.C03_vidya (K := ℚ) (P := P) v hn0 hn []
  refine ⟨.vidya s0, by simp [MA.init, h0, Res.map, Res.bind], realises_of_run _ _ (fun xs => ?_)⟩
  obtain ⟨s0', outs, s', h0', hr, hl, ho⟩ := Yata.C03.C03_vidya (K := ℚ) (P := P) v hn0 hn xs
  have : s0' = s0 := by rw [h0] at h0'; exact (Res.ok.inj h0').symm
  subst this
  refine ⟨outs, .vidya s', ?_, hl, ho⟩
  rw [runM_lift Vidya.next MAInst.vidya (fun s x => by cases h : s.next x <;> simp [MAInst.next, h, Except.map]), hr]
  rfl

end Yata.Ind
