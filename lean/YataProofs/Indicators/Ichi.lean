/-
  Ichimoku cloud over whole histories: tenkan / kijun are the mid-points of the highest high and lowest low of the last
  l1 / l2 candles, span A is the mean of the two and span B the mid-point over l3 candles, both as they were `m` steps ago.
-/
import YataProofs.Indicators.History
namespace Yata.Ind
open Yata

/-- a Highest / Lowest pair of length `n` that has consumed the highs / lows so far -/
structure HLInv (P n : Nat) (highs lows : List ℚ) (h : Highest ℚ) (l : Lowest ℚ) : Prop where
  hi : Highest.Inv P h
  lo : Lowest.Inv P l
  whi : Window.toList h.window = lastN n highs
  wlo : Window.toList l.window = lastN n lows
  lhi : n ≤ highs.length
  llo : n ≤ lows.length
  pos : 0 < n

theorem HLInv.step {P n : Nat} {highs lows : List ℚ} {h : Highest ℚ} {l : Lowest ℚ} (i : HLInv P n highs lows h l)
    (x y : ℚ) :
    ∃ a b h' l', h.next x = .ok (a, h') ∧ l.next y = .ok (b, l') ∧ HLInv P n (highs ++ [x]) (lows ++ [y]) h' l' ∧
      IsMaxOf a (lastN n (highs ++ [x])) ∧ IsMinOf b (lastN n (lows ++ [y])) := by
  obtain ⟨o1, h1, hn1, hinv1, ho1, hw1⟩ := Highest.next_spec x i.hi
  obtain ⟨o2, l1, hn2, hinv2, ho2, hw2⟩ := Lowest.next_spec y i.lo
  have e1 : Window.toList h1.window = lastN n (highs ++ [x]) := by
    rw [hw1, i.whi]; exact Channel.tail_lastN_snoc _ _ _ i.pos i.lhi
  have e2 : Window.toList l1.window = lastN n (lows ++ [y]) := by
    rw [hw2, i.wlo]; exact Channel.tail_lastN_snoc _ _ _ i.pos i.llo
  refine ⟨o1, o2, h1, l1, hn1, hn2, ⟨hinv1, hinv2, e1, e2, ?_, ?_, i.pos⟩, ?_, ?_⟩
  · simp only [List.length_append, List.length_singleton]; have := i.lhi; omega
  · simp only [List.length_append, List.length_singleton]; have := i.llo; omega
  · rw [ho1, ← e1]; exact hinv1.isMax
  · rw [ho2, ← e2]; exact hinv2.isMin

namespace Ichi

/-- `as` / `bs`: the undelayed span values formed so far (after `m` copies of the first candle's hl2) -/
structure Inv (P : Nat) (highs lows as bs : List ℚ) (s : Ichi) : Prop where
  p1 : HLInv P s.cfg.l1 highs lows s.h1 s.lo1
  p2 : HLInv P s.cfg.l2 highs lows s.h2 s.lo2
  p3 : HLInv P s.cfg.l3 highs lows s.h3 s.lo3
  t1 : Tracks P s.cfg.m s.w1 as
  t2 : Tracks P s.cfg.m s.w2 bs
  mpos : 0 < s.cfg.m

theorem vals_spec {P : Nat} {highs lows as bs : List ℚ} {s : Ichi} (k : Candle ℚ) (h : Inv P highs lows as bs s) :
    ∃ a e b f d g spanA spanB s',
      s.vals k = .ok ([.price ((a + e) * half) 1, .price ((b + f) * half) 1, .price spanA 1, .price spanB 1], s') ∧
      IsMaxOf a (lastN s.cfg.l1 (highs ++ [k.high])) ∧ IsMinOf e (lastN s.cfg.l1 (lows ++ [k.low])) ∧
      IsMaxOf b (lastN s.cfg.l2 (highs ++ [k.high])) ∧ IsMinOf f (lastN s.cfg.l2 (lows ++ [k.low])) ∧
      IsMaxOf d (lastN s.cfg.l3 (highs ++ [k.high])) ∧ IsMinOf g (lastN s.cfg.l3 (lows ++ [k.low])) ∧
      -- the spans returned now are the ones formed `m` steps ago
      (lastN s.cfg.m as).head? = some spanA ∧ (lastN s.cfg.m bs).head? = some spanB ∧
      Inv P (highs ++ [k.high]) (lows ++ [k.low]) (as ++ [((a + e) * half + (b + f) * half) * half])
        (bs ++ [(d + g) * half]) s' ∧ s'.cfg = s.cfg := by
  obtain ⟨a, e, h1, l1, ha, he, i1, ma, me⟩ := h.p1.step k.high k.low
  obtain ⟨b, f, h2, l2, hb, hf, i2, mb, mf⟩ := h.p2.step k.high k.low
  obtain ⟨d, g, h3, l3, hd, hg, i3, md, mg⟩ := h.p3.step k.high k.low
  obtain ⟨sa, w1, hw1, t1, hsa⟩ := h.t1.push h.mpos (((a + e) * half + (b + f) * half) * half)
  obtain ⟨sb, w2, hw2, t2, hsb⟩ := h.t2.push h.mpos ((d + g) * half)
  refine ⟨a, e, b, f, d, g, sa, sb,
    { s with h1 := h1, h2 := h2, h3 := h3, lo1 := l1, lo2 := l2, lo3 := l3, w1 := w1, w2 := w2 }, ?_,
    ma, me, mb, mf, md, mg, hsa, hsb, ⟨i1, i2, i3, t1, t2, h.mpos⟩, rfl⟩
  simp only [vals, bind, Except.bind, ha, he, hb, hf, hd, hg, hw1, hw2, pure, Except.pure]

/-- the element returned by a window of length `m` is the one appended `m` steps earlier -/
theorem delayed {α : Type} (m : Nat) (l : List α) (hm : 0 < m) (hl : m ≤ l.length) :
    (lastN m l).head? = l[l.length - m]? := by
  unfold lastN; rw [List.head?_drop]

end Ichi

theorem HLInv.new {P n L : Nat} (x y : ℚ) (hn0 : 0 < n) (hn : n ≤ P - 1) (hL : n ≤ L) :
    ∃ h l, Highest.new P n x = .ok h ∧ Lowest.new P n y = .ok l ∧
      HLInv P n (List.replicate L x) (List.replicate L y) h l := by
  obtain ⟨h, hh, hinv, hw⟩ := Highest.new_spec (β := ℚ) (P := P) x hn0 hn
  obtain ⟨l, hl, linv, lw⟩ := Lowest.new_spec (β := ℚ) (P := P) y hn0 hn
  have e : ∀ z : ℚ, lastN n (List.replicate L z) = List.replicate n z := by
    intro z; unfold lastN; simp; omega
  exact ⟨h, l, hh, hl, hinv, linv, by rw [hw, e], by rw [lw, e], by simpa using hL, by simpa using hL, hn0⟩

namespace Ichi
/-- the constructor establishes the invariant (prehistory: `l3` copies of the first candle's high / low, `m` copies of
    its hl2 in both delay lines) -/
theorem init_inv {P : Nat} (c : IchiCfg) (k : Candle ℚ) (h1 : 0 < c.l1) (h12 : c.l1 < c.l2) (h23 : c.l2 < c.l3)
    (h3 : c.l3 ≤ P - 1) (hm0 : 0 < c.m) (hm : c.m < P) :
    ∃ s, Ichi.init P c k = .ok s ∧ s.cfg = c ∧
      Inv P (List.replicate c.l3 k.high) (List.replicate c.l3 k.low) (List.replicate c.m k.hl2) (List.replicate c.m k.hl2) s := by
  obtain ⟨a, e, ha, he, i1⟩ := HLInv.new (P := P) (n := c.l1) (L := c.l3) k.high k.low h1 (by omega) (by omega)
  obtain ⟨b, f, hb, hf, i2⟩ := HLInv.new (P := P) (n := c.l2) (L := c.l3) k.high k.low (by omega) (by omega) (by omega)
  obtain ⟨d, g, hd, hg, i3⟩ := HLInv.new (P := P) (n := c.l3) (L := c.l3) k.high k.low (by omega) h3 (le_refl _)
  obtain ⟨w, hw, ht⟩ := Tracks.new (P := P) (n := c.m) k.hl2 (by omega)
  have hh : history c.m k.hl2 [] = List.replicate c.m k.hl2 := by simp [history]
  rw [hh] at ht
  refine ⟨{ cfg := c, h1 := a, h2 := b, h3 := d, lo1 := e, lo2 := f, lo3 := g, w1 := w, w2 := w,
            cross1 := Cross.default, cross2 := Cross.default }, ?_, rfl, ⟨i1, i2, i3, ht, ht, hm0⟩⟩
  have hv : Ichi.validate P c = true := by simp [Ichi.validate]; omega
  simp [Ichi.init, hv, ha, he, hb, hf, hd, hg, winNew, hw, Res.bind, Res.ofExcept]
end Ichi

end Yata.Ind
