/-
  Chaikin money flow: the numerator is the sum of CLV·volume and the denominator the sum of the volumes of the same
  last `size` candles; for valid candles (low ≤ close ≤ high, volume ≥ 0) |numerator| ≤ denominator, so the value is
  in [−1, 1] wherever the total volume is not zero.
-/
import YataProofs.Numeric.Composite
import YataProofs.Indicators.Basic
namespace Yata.Ind
open Yata

def goodCandle (c : Candle ℚ) : Prop := c.low ≤ c.close ∧ c.close ≤ c.high ∧ 0 ≤ c.volume

theorem abs_sum_le (l : List (Candle ℚ)) (h : ∀ c ∈ l, goodCandle c) :
    |(l.map fun c => c.clv * c.volume).sum| ≤ (l.map fun c => c.volume).sum := by
  induction l with
  | nil => simp
  | cons a t ih =>
    simp only [List.map_cons, List.sum_cons]
    have ha := h a (by simp)
    have hr := Candle.clv_range a ha.1 ha.2.1
    have h1 : |a.clv * a.volume| ≤ a.volume := by
      rw [abs_mul, abs_of_nonneg ha.2.2]
      have : |a.clv| ≤ 1 := abs_le.mpr hr
      nlinarith [ha.2.2]
    calc |a.clv * a.volume + (t.map fun c => c.clv * c.volume).sum|
        ≤ |a.clv * a.volume| + |(t.map fun c => c.clv * c.volume).sum| := abs_add_le _ _
      _ ≤ a.volume + (t.map fun c => c.volume).sum := add_le_add h1 (ih (fun c hc => h c (by simp [hc])))

namespace CMF

/-- `hist`: the first candle `size` times, then everything fed -/
structure Inv (P : Nat) (hist : List (Candle ℚ)) (s : CMF) : Prop where
  pos : 0 < s.size
  at_ : Tracks P s.size s.adi.window (hist.map fun c => c.clv * c.volume)
  asum : s.adi.cmf_sum = ((lastN s.size hist).map fun c => c.clv * c.volume).sum
  vt : Tracks P s.size s.window (hist.map fun c => c.volume)
  vsum : s.vol_sum = ((lastN s.size hist).map fun c => c.volume).sum
  good : ∀ c ∈ hist, goodCandle c

theorem lastN_map' {β : Type} (f : Candle ℚ → β) (n : Nat) (l : List (Candle ℚ)) : lastN n (l.map f) = (lastN n l).map f := by
  unfold lastN; simp [List.map_drop]

/-- one step: invariant kept, |numerator| ≤ denominator, value in [−1,1] when the total volume is not zero -/
theorem vals_spec {P : Nat} {hist : List (Candle ℚ)} {s : CMF} (k : Candle ℚ) (h : Inv P hist s) (hk : goodCandle k) :
    ∃ num den s', s.vals k = .ok ([.quot num den (s.size : ℚ) (s.size : ℚ) .vol [] none], s') ∧
      Inv P (hist ++ [k]) s' ∧ s'.size = s.size ∧
      num = ((lastN s.size (hist ++ [k])).map fun c => c.clv * c.volume).sum ∧
      den = ((lastN s.size (hist ++ [k])).map fun c => c.volume).sum ∧
      |num| ≤ den ∧ (den ≠ 0 → -1 ≤ num / den ∧ num / den ≤ 1) := by
  obtain ⟨olda, aw, hpa, hta, hheada⟩ := h.at_.push h.pos (k.clv * k.volume)
  obtain ⟨oldv, vw, hpv, htv, hheadv⟩ := h.vt.push h.pos k.volume
  have hlen : s.size ≤ hist.length := by simpa using h.at_.len
  rw [lastN_map'] at hheada hheadv
  have hne : s.adi.window.isEmpty = false := by
    have h1 := h.at_.inv.size_eq
    have h2 := h.at_.size
    have := h.pos
    cases hb : s.adi.window.buf with
    | nil => simp [hb] at *; omega
    | cons a l => simp [Window.isEmpty, hb]
  have hA : ((lastN s.size (hist ++ [k])).map fun c => c.clv * c.volume).sum = s.adi.cmf_sum + k.clv * k.volume - olda := by
    rw [lastN_snoc k h.pos hlen, List.map_append, List.map_tail]
    have := sum_map_tail_snoc' (fun y : ℚ => y) ((lastN s.size hist).map fun c => c.clv * c.volume) olda (k.clv * k.volume) hheada
    simp only [List.map_id'] at this
    simp only [List.map_cons, List.map_nil]
    rw [this, h.asum]; ring
  have hV : ((lastN s.size (hist ++ [k])).map fun c => c.volume).sum = s.vol_sum + (k.volume - oldv) := by
    rw [lastN_snoc k h.pos hlen, List.map_append, List.map_tail]
    have := sum_map_tail_snoc' (fun y : ℚ => y) ((lastN s.size hist).map fun c => c.volume) oldv k.volume hheadv
    simp only [List.map_id'] at this
    simp only [List.map_cons, List.map_nil]
    rw [this, h.vsum]
  have hgood : ∀ c ∈ hist ++ [k], goodCandle c := by
    intro c hc
    rcases List.mem_append.mp hc with hc | hc
    · exact h.good c hc
    · simp at hc; rw [hc]; exact hk
  have hle : |s.adi.cmf_sum + k.clv * k.volume - olda| ≤ s.vol_sum + (k.volume - oldv) := by
    rw [← hA, ← hV]
    exact abs_sum_le _ (fun c hc => hgood c (List.mem_of_mem_drop hc))
  refine ⟨s.adi.cmf_sum + k.clv * k.volume - olda, s.vol_sum + (k.volume - oldv),
    { s with adi := { cmf_sum := s.adi.cmf_sum + k.clv * k.volume - olda, window := aw }, vol_sum := s.vol_sum + (k.volume - oldv), window := vw },
    ?_, ⟨h.pos, by simpa [List.map_append] using hta, hA.symm, by simpa [List.map_append] using htv, hV.symm, hgood⟩, rfl,
    hA.symm, hV.symm, hle, ?_⟩
  · simp only [CMF.vals, ADI.next, hne, hpa, hpv, bind, Except.bind, pure, Except.pure]
    simp
  · intro hden
    have hpos : 0 < s.vol_sum + (k.volume - oldv) :=
      lt_of_le_of_ne (le_trans (abs_nonneg _) hle) (Ne.symm hden)
    have := abs_le.mp hle
    constructor
    · rw [le_div_iff₀ hpos]; linarith [this.1]
    · rw [div_le_one hpos]; exact this.2

end CMF
end Yata.Ind
