import YataProofs.Indicators.Tier2b
import YataProofs.Indicators.HullAll
import YataProofs.Indicators.RealisesEvery
import YataProofs.Indicators.MFIRange
namespace Yata.Ind
open Yata
namespace Env

/-- **Envelopes over whole streams**, from the constructor, every accepted configuration whose average cannot overshoot:
    on every stream of candles whose source price is not negative no step panics and the upper bound is not below the lower
    bound (the bounds are `ma·(1 ± k)`, `k > 0`, and the average of non-negative prices is not negative) -/
theorem run_order {P : Nat} (c : EnvCfg) (k0 : Candle ℚ) (hv : Env.validate c = true)
    (h1 : validLen P c.ma.kind c.ma.length) (sm : smoothKind c.ma.kind = true) (hk0 : 0 ≤ k0.source c.source)
    (cs : List (Candle ℚ)) (hcs : ∀ k ∈ cs, 0 ≤ k.source c.source) :
    ∃ s0 outs s', Env.init P c k0 = .ok s0 ∧ runM Env.vals s0 cs = .ok (outs, s') ∧ outs.length = cs.length ∧
      ∀ o ∈ outs, ∃ up lo src2, o.map VExp.value = [up, lo, src2] ∧ lo ≤ up := by
  obtain ⟨m, hm, rm⟩ := every_kind_realises (P := P) c.ma.kind c.ma.length (k0.source c.source) h1
  have hull := hullFn_of_kind (P := P) c.ma.kind c.ma.length (k0.source c.source) sm h1
  have e1 : c.ma = { kind := c.ma.kind, length := c.ma.length } := rfl
  have hk : 0 < c.k := by
    unfold Env.validate at hv
    simp only [Bool.and_eq_true, decide_eq_true_eq] at hv
    exact hv.1
  set s0 : Env := { cfg := c, ma := m, k_high := 1 + c.k, k_low := 1 - c.k } with hs0
  have h0 : Env.init P c k0 = .ok s0 := by
    unfold Env.init
    rw [if_pos hv, e1, hm]
    rfl
  obtain ⟨os, s', hr, _, hlen, hout⟩ := MFI.runM_invariant_on Env.vals (fun k => 0 ≤ k.source c.source)
    (fun _ s => ∃ srcs, Realises (specOf c.ma.kind c.ma.length (k0.source c.source)) s.ma srcs ∧ s.cfg = c ∧
      s.k_high = 1 + c.k ∧ s.k_low = 1 - c.k ∧ ∀ x ∈ srcs, (0 : ℚ) ≤ x)
    (fun o => ∃ up lo src2, o.map VExp.value = [up, lo, src2] ∧ lo ≤ up)
    (by
      rintro _ s k hkk ⟨srcs, r, hc, hh, hl, hnn⟩
      obtain ⟨v, s1, hvv, hval, r', hc', hh', hl'⟩ := vals_spec k r
      rw [hc] at hval r'
      have hall : ∀ x ∈ srcs ++ [k.source c.source], (0 : ℚ) ≤ x := by
        intro x hx
        rcases List.mem_append.mp hx with hx | hx
        · exact hnn x hx
        · simp only [List.mem_singleton] at hx; subst hx; exact hkk
      -- the average of non-negative prices is not negative: hull between 0 and any upper bound of the data
      obtain ⟨ub, hub⟩ : ∃ ub : ℚ, ∀ x ∈ k0.source c.source :: (srcs ++ [k.source c.source]), x ≤ ub := by
        refine ⟨((k0.source c.source :: (srcs ++ [k.source c.source])).map (fun x => |x|)).sum, ?_⟩
        intro x hx
        have : |x| ≤ ((k0.source c.source :: (srcs ++ [k.source c.source])).map (fun x => |x|)).sum :=
          List.single_le_sum (by intro y hy; obtain ⟨z, _, rfl⟩ := List.mem_map.mp hy; exact abs_nonneg z) _
            (List.mem_map.mpr ⟨x, hx, rfl⟩)
        exact le_trans (le_abs_self x) this
      have hv0 := (hull (srcs ++ [k.source c.source]) 0 ub (by
        intro x hx
        refine ⟨?_, hub x hx⟩
        rcases List.mem_cons.mp hx with rfl | hx
        · exact hk0
        · exact hall x hx)).1
      refine ⟨v, s1, hvv, ⟨_, r', by rw [hc', hc], by rw [hh', hh], by rw [hl', hl], hall⟩, _, _, _, hval, ?_⟩
      rw [hh, hl]
      nlinarith)
    cs [] s0 hcs ⟨[], rm, rfl, rfl, rfl, by simp⟩
  exact ⟨s0, os, s', h0, hr, hlen, hout⟩

end Env
end Yata.Ind
