import YataProofs.Indicators.CMFRange
import YataProofs.Indicators.MFIRange
namespace Yata.Ind
open Yata

namespace CMF

theorem init_inv {P size : Nat} (k : Candle ℚ) (hk : goodCandle k) (s : CMF) (h : CMF.init P size k = .ok s) :
    Inv P (List.replicate size k) s ∧ s.size = size := by
  unfold CMF.init at h
  split at h
  · rename_i hc
    simp only [Bool.and_eq_true, decide_eq_true_eq] at hc
    obtain ⟨h1, hP⟩ := hc
    have hn0 : size ≠ 0 := by omega
    have hnP : size ≠ P := by omega
    obtain ⟨w1, hw1, ht1⟩ := Tracks.new (P := P) (n := size) (k.clv * k.volume) (by omega)
    obtain ⟨w2, hw2, ht2⟩ := Tracks.new (P := P) (n := size) k.volume (by omega)
    have hadi : ADI.new P size k = .ok { cmf_sum := k.clv * k.volume * (size : ℚ), window := w1 } := by
      simp [ADI.new, hnP, Nat.pos_of_ne_zero hn0, winNew, hw1, Res.ofExcept, Res.bind]
    simp only [hadi, winNew, hw2, Res.ofExcept, Res.bind] at h
    cases h
    have hh1 : history size (k.clv * k.volume) [] = (List.replicate size k).map fun c => c.clv * c.volume := by
      simp [history]
    have hh2 : history size k.volume [] = (List.replicate size k).map fun c => c.volume := by simp [history]
    rw [hh1] at ht1
    rw [hh2] at ht2
    have hl : lastN size (List.replicate size k) = List.replicate size k := by unfold lastN; simp
    refine ⟨⟨by show 0 < size; omega, ht1, ?_, ht2, ?_, ?_⟩, rfl⟩
    · show k.clv * k.volume * (size : ℚ) = _
      rw [hl, List.map_replicate, sum_replicate_field]; ring
    · show k.volume * (size : ℚ) = _
      rw [hl, List.map_replicate, sum_replicate_field]; ring
    · intro c hc; rw [(List.mem_replicate.mp hc).2]; exact hk
  · cases h

/-- Chaikin money flow over whole streams of candles with low ≤ close ≤ high and volume ≥ 0: no step panics, and at
    every step |Σ CLV·volume| ≤ Σ volume over the window: the value is in [−1, 1] wherever the total volume is not zero -/
theorem run_range {P size : Nat} (k0 : Candle ℚ) (hk0 : goodCandle k0) (s0 : CMF) (h0 : CMF.init P size k0 = .ok s0)
    (cs : List (Candle ℚ)) (hg : ∀ c ∈ cs, goodCandle c) :
    ∃ outs s', runM CMF.vals s0 cs = .ok (outs, s') ∧ outs.length = cs.length ∧
      ∀ o ∈ outs, ∃ num den κ1 κ2, o = [.quot num den κ1 κ2 .vol [] none] ∧ |num| ≤ den ∧
        (den ≠ 0 → -1 ≤ num / den ∧ num / den ≤ 1) := by
  obtain ⟨hinv, _⟩ := init_inv k0 hk0 s0 h0
  obtain ⟨os, s', hr, _, hlen, hout⟩ := MFI.runM_invariant_on CMF.vals goodCandle
    (fun H s => Inv P (List.replicate size k0 ++ H) s)
    (fun o => ∃ num den κ1 κ2, o = [.quot num den κ1 κ2 .vol [] none] ∧ |num| ≤ den ∧ (den ≠ 0 → -1 ≤ num / den ∧ num / den ≤ 1))
    (by
      intro H s x hx hi
      obtain ⟨num, den, s', hv, hi', _, _, _, hle, hr⟩ := vals_spec x hi hx
      exact ⟨_, s', hv, by rw [← List.append_assoc]; exact hi', num, den, _, _, rfl, hle, hr⟩)
    cs [] s0 hg (by simpa using hinv)
  exact ⟨os, s', hr, hlen, hout⟩

end CMF
end Yata.Ind
