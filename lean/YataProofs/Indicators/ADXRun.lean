import YataProofs.Indicators.ADX
import YataProofs.Indicators.HullAll
import YataProofs.Indicators.RealisesEvery
import YataProofs.Runner
namespace Yata.Ind
open Yata

namespace ADX

/-- the constructor establishes the invariant of `vals_spec` with the documented formulas of the two kinds -/
theorem init_every_kind {P : Nat} (m1 m2 : MA) (period1 : Nat) (zone : ℚ) (k : Candle ℚ) (s0 : ADX)
    (h1 : validLen P m1.kind m1.length) (h2 : validLen P m2.kind m2.length)
    (h0 : ADX.init P m1 m2 period1 zone k = .ok s0) :
    Inv P period1 (specOf m1.kind m1.length (k.trClose k.close)) (specOf m1.kind m1.length 0) (specOf m1.kind m1.length 0)
      (specOf m2.kind m2.length 0) (history period1 k []) [] [] [] [] s0 := by
  obtain ⟨t, ht, rt⟩ := every_kind_realises (P := P) m1.kind m1.length (k.trClose k.close) h1
  obtain ⟨p, hp, rp⟩ := every_kind_realises (P := P) m1.kind m1.length 0 h1
  obtain ⟨a, ha, ra⟩ := every_kind_realises (P := P) m2.kind m2.length 0 h2
  have e1 : m1 = { kind := m1.kind, length := m1.length } := rfl
  have e2 : m2 = { kind := m2.kind, length := m2.length } := rfl
  unfold ADX.init at h0
  split at h0
  · rename_i hc
    simp only [Bool.and_eq_true, decide_eq_true_eq, MA.period, ge_iff_le] at hc
    obtain ⟨⟨⟨⟨⟨⟨⟨⟨_, hm1P⟩, _⟩, _⟩, _⟩, _⟩, hp1⟩, hp1m⟩, _⟩ := hc
    have hm1P' : m1.length < P := of_decide_eq_true hm1P
    have hp1m' : period1 < m1.length := of_decide_eq_true hp1m
    obtain ⟨w, hw, tw⟩ := Tracks.new (P := P) k (n := period1) (by omega)
    rw [hw] at h0
    simp only [Res.ofExcept] at h0
    rw [e1, ht, hp, e2, ha] at h0
    simp only [Res.bind] at h0
    cases h0
    exact ⟨by omega, tw, rt, rp, rp, ra⟩
  · cases h0

end ADX
end Yata.Ind

namespace Yata.Ind
open Yata
namespace ADX

/-- one step of the instance on exact candles (the flag "averaged true range vanished" dropped) -/
def step (s : ADX) (k : Candle ℚ) : Except Panic (List VExp × ADX) :=
  match s.vals k none with
  | .ok (v, s', _) => .ok (v, s')
  | .error e => .error e

/-- **ADX stays in [0, 1]** over whole candle streams, from its constructor, for every accepted configuration whose
    final average cannot overshoot (`smoothKind`: every kind but HMA, DEMA, TEMA, LinReg) and ANY kind of the first one:
    no step panics and value 0 is in [0, 1] at every step.  No assumption on the candles: the input of the final average
    is in [0, 1] whatever the directional quotients are (`tOf_range`), which is what the `fix:` guard `s <= 0` / clamp buys -/
theorem run_range {P : Nat} (m1 m2 : MA) (period1 : Nat) (zone : ℚ) (k0 : Candle ℚ) (s0 : ADX)
    (h1 : validLen P m1.kind m1.length) (h2 : validLen P m2.kind m2.length) (hs : smoothKind m2.kind = true)
    (h0 : ADX.init P m1 m2 period1 zone k0 = .ok s0) (cs : List (Candle ℚ)) :
    ∃ outs s', runM ADX.step s0 cs = .ok (outs, s') ∧ outs.length = cs.length ∧
      ∀ i (hi : i < outs.length), ∃ a p m, (outs[i]).map VExp.value = [a, p, m] ∧ 0 ≤ a ∧ a ≤ 1 := by
  have hull := hullFn_of_kind (P := P) m2.kind m2.length 0 hs h2
  obtain ⟨os, s', hr, _, hlen, hout⟩ := runM_invariant ADX.step
    (fun _ s => ∃ hc trs pdms mdms ts, Inv P period1 (specOf m1.kind m1.length (k0.trClose k0.close)) (specOf m1.kind m1.length 0)
      (specOf m1.kind m1.length 0) (specOf m2.kind m2.length 0) hc trs pdms mdms ts s ∧ ∀ t ∈ ts, (0 : ℚ) ≤ t ∧ t ≤ 1)
    (fun _ o => ∃ a p m, o.map VExp.value = [a, p, m] ∧ 0 ≤ a ∧ a ≤ 1)
    (by
      rintro _ s k ⟨hc, trs, pdms, mdms, ts, hi, hts⟩
      obtain ⟨prev, _, hz, hnz⟩ := vals_spec k hi
      have key : ∀ t : ℚ, 0 ≤ t → t ≤ 1 → (∀ x ∈ ts ++ [t], (0 : ℚ) ≤ x ∧ x ≤ 1) ∧
          0 ≤ specOf m2.kind m2.length 0 (ts ++ [t]) ∧ specOf m2.kind m2.length 0 (ts ++ [t]) ≤ 1 := by
        intro t t0 t1
        have hall : ∀ x ∈ ts ++ [t], (0 : ℚ) ≤ x ∧ x ≤ 1 := by
          intro x hx
          rcases List.mem_append.mp hx with hx | hx
          · exact hts x hx
          · simp only [List.mem_singleton] at hx; subst hx; exact ⟨t0, t1⟩
        refine ⟨hall, hull (ts ++ [t]) 0 1 ?_⟩
        intro x hx
        rcases List.mem_cons.mp hx with rfl | hx
        · exact ⟨le_refl _, by norm_num⟩
        · exact hall x hx
      by_cases htr : specOf m1.kind m1.length (k0.trClose k0.close) (trs ++ [k.trClose s.prev_close]) = 0
      · obtain ⟨v, s1, hv, hval, _, hi1⟩ := hz htr
        obtain ⟨hall, a0, a1⟩ := key 0 (le_refl _) (by norm_num)
        exact ⟨v, s1, by simp [step, hv], ⟨_, _, _, _, _, hi1, hall⟩, _, _, _, hval, a0, a1⟩
      · obtain ⟨v, s1, hv, hval, _, hi1⟩ := hnz htr
        obtain ⟨t0, t1⟩ := tOf_range
          (specOf m1.kind m1.length 0 (pdms ++ [pdm k prev]) / specOf m1.kind m1.length (k0.trClose k0.close) (trs ++ [k.trClose s.prev_close]))
          (specOf m1.kind m1.length 0 (mdms ++ [mdm k prev]) / specOf m1.kind m1.length (k0.trClose k0.close) (trs ++ [k.trClose s.prev_close]))
        obtain ⟨hall, a0, a1⟩ := key _ t0 t1
        exact ⟨v, s1, by simp [step, hv], ⟨_, _, _, _, _, hi1, hall⟩, _, _, _, hval, a0, a1⟩)
    cs [] s0 ⟨_, _, _, _, _, init_every_kind m1 m2 period1 zone k0 s0 h1 h2 h0, by simp⟩
  exact ⟨os, s', hr, hlen, fun i hi => hout i hi⟩

/-- ADX from its constructor, EVERY pair of kinds: no step of any candle stream panics -/
theorem run_ok {P : Nat} (m1 m2 : MA) (period1 : Nat) (zone : ℚ) (k0 : Candle ℚ) (s0 : ADX)
    (h1 : validLen P m1.kind m1.length) (h2 : validLen P m2.kind m2.length)
    (h0 : ADX.init P m1 m2 period1 zone k0 = .ok s0) (cs : List (Candle ℚ)) :
    ∃ outs s', runM ADX.step s0 cs = .ok (outs, s') ∧ outs.length = cs.length := by
  obtain ⟨os, s', hr, _, hlen, _⟩ := runM_invariant ADX.step
    (fun _ s => ∃ hc trs pdms mdms ts, Inv P period1 (specOf m1.kind m1.length (k0.trClose k0.close)) (specOf m1.kind m1.length 0)
      (specOf m1.kind m1.length 0) (specOf m2.kind m2.length 0) hc trs pdms mdms ts s)
    (fun _ _ => True)
    (by
      rintro _ s k ⟨hc, trs, pdms, mdms, ts, hi⟩
      obtain ⟨prev, _, hz, hnz⟩ := vals_spec k hi
      by_cases htr : specOf m1.kind m1.length (k0.trClose k0.close) (trs ++ [k.trClose s.prev_close]) = 0
      · obtain ⟨v, s1, hv, _, _, hi1⟩ := hz htr
        exact ⟨v, s1, by simp [ADX.step, hv], ⟨_, _, _, _, _, hi1⟩, trivial⟩
      · obtain ⟨v, s1, hv, _, _, hi1⟩ := hnz htr
        exact ⟨v, s1, by simp [ADX.step, hv], ⟨_, _, _, _, _, hi1⟩, trivial⟩)
    cs [] s0 ⟨_, _, _, _, _, init_every_kind m1 m2 period1 zone k0 s0 h1 h2 h0⟩
  exact ⟨os, s', hr, hlen⟩


end ADX
end Yata.Ind
