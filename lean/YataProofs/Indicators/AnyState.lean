import YataProofs.Indicators.More
import YataProofs.Indicators.MFIRange
namespace Yata.Ind
open Yata

/-- **CMO from any state**: whatever the two running sums hold (no invariant assumed — rounding residue of either sign
    is the case in point), a step that does not panic returns a value of [−1, 1] -/
theorem CMO.vals_any_state (s : CMO) (k : Candle ℚ) (vs : List VExp) (s' : CMO) (h : s.vals k = .ok (vs, s')) :
    ∃ v, vs = [v] ∧ -1 ≤ v.value ∧ v.value ≤ 1 := by
  unfold CMO.vals at h
  simp only [bind, Except.bind] at h
  split at h
  · cases h
  · split at h
    · cases h
    · simp only [pure, Except.pure, Except.ok.injEq, Prod.mk.injEq] at h
      obtain ⟨hv, _⟩ := h
      refine ⟨_, hv.symm, ?_⟩
      exact cquot_range _ _ _ _ _ _ 0 (-1) 1 (by norm_num) (by constructor <;> norm_num)

/-- **MoneyFlowIndex from any state**: whatever the two running flows hold, a step that does not panic returns
    `[1 − zone, value, zone]` with the value in [0, 1] -/
theorem MFI.vals_any_state (s : MFI) (k : Candle ℚ) (vs : List VExp) (s' : MFI) (h : s.vals k = .ok (vs, s')) :
    ∃ v, vs = [.exact (1 - s.zone), v, .exact s.zone] ∧ 0 ≤ v.value ∧ v.value ≤ 1 := by
  unfold MFI.vals at h
  simp only [bind, Except.bind] at h
  split at h
  · cases h
  · simp only [pure, Except.pure, Except.ok.injEq, Prod.mk.injEq] at h
    obtain ⟨hv, _⟩ := h
    refine ⟨_, hv.symm, ?_⟩
    exact cquot_range _ _ _ _ _ _ half 0 1 (by norm_num) (by unfold half; constructor <;> norm_num)

/-- **RSI from any state and any pair of averages** (no `Realises`, no assumption on the kinds) -/
theorem RSI.vals_any_state (s : RSI) (k : Candle ℚ) (vs : List VExp) (s' : RSI) (h : s.vals k = .ok (vs, s')) :
    ∃ v, vs = [v] ∧ 0 ≤ v.value ∧ v.value ≤ 1 := by
  unfold RSI.vals at h
  simp only [bind, Except.bind] at h
  split at h
  · cases h
  · split at h
    · cases h
    · simp only [pure, Except.pure, Except.ok.injEq, Prod.mk.injEq] at h
      obtain ⟨hv, _⟩ := h
      refine ⟨_, hv.symm, ?_⟩
      exact cquot_range _ _ _ _ _ _ half 0 1 (by norm_num) (by unfold half; constructor <;> norm_num)

end Yata.Ind
