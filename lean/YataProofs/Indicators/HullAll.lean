/-
  Every non-overshooting kind of the configurable average preserves the hull of its inputs (C15), stated for the
  realised functions `specOf`; with `every_kind_realises` this makes the range invariants of C12 (Stochastic, RSI)
  available for every such configuration.
-/
import YataProofs.Indicators.RealisesEvery
import YataProofs.VidyaLaws
import YataProofs.SMMLaws
namespace Yata.Ind
open Yata

theorem e2_hull (a v : ℚ) (h0 : 0 ≤ a) (h1 : a ≤ 1) (xs : List ℚ) (lo hi : ℚ) (h : ∀ x ∈ v :: xs, lo ≤ x ∧ x ≤ hi) :
    lo ≤ e2 a v xs ∧ e2 a v xs ≤ hi := by
  unfold e2
  apply emaRec_hull a v _ lo hi h0 h1
  intro x hx
  rcases List.mem_cons.mp hx with rfl | hx
  · exact h _ (by simp)
  · obtain ⟨i, rfl⟩ := series_mem (e1 a v) xs x hx
    exact emaRec_hull a v _ lo hi h0 h1 (fun y hy => by
      rcases List.mem_cons.mp hy with rfl | hy
      · exact h _ (by simp)
      · exact h y (by simp [List.mem_of_mem_take hy]))

theorem e3_hull (a v : ℚ) (h0 : 0 ≤ a) (h1 : a ≤ 1) (xs : List ℚ) (lo hi : ℚ) (h : ∀ x ∈ v :: xs, lo ≤ x ∧ x ≤ hi) :
    lo ≤ e3 a v xs ∧ e3 a v xs ≤ hi := by
  unfold e3
  apply emaRec_hull a v _ lo hi h0 h1
  intro x hx
  rcases List.mem_cons.mp hx with rfl | hx
  · exact h _ (by simp)
  · obtain ⟨i, rfl⟩ := series_mem (e2 a v) xs x hx
    exact e2_hull a v h0 h1 _ lo hi (fun y hy => by
      rcases List.mem_cons.mp hy with rfl | hy
      · exact h _ (by simp)
      · exact h y (by simp [List.mem_of_mem_take hy]))

/-- the kinds whose weights are non-negative (all but HMA, DEMA, TEMA, LinReg) -/
def smoothKind : MAKind → Bool
  | .hma | .dema | .tema | .linreg => false
  | _ => true

theorem hullFn_of_kind {P : Nat} (k : MAKind) (n : Nat) (v : ℚ) (hk : smoothKind k = true) (hv : validLen P k n) :
    HullFn v (specOf k n v) := by
  intro xs lo hi h
  have hn0 : 0 < n := by
    cases k <;> simp only [validLen] at hv <;> omega
  obtain ⟨a0, a1, r0, r1⟩ := ema_alpha_range (K := ℚ) n hn0
  cases k with
  | sma => exact sma_hull n hn0 v xs lo hi h
  | wma => exact wma_hull n hn0 v xs lo hi h
  | hma => simp [smoothKind] at hk
  | rma => exact emaRec_hull _ v xs lo hi r0 r1 h
  | ema => exact emaRec_hull _ v xs lo hi a0 a1 h
  | dma => exact e2_hull _ v a0 a1 xs lo hi h
  | dema => simp [smoothKind] at hk
  | tma => exact e3_hull _ v a0 a1 xs lo hi h
  | tema => simp [smoothKind] at hk
  | wsma => exact emaRec_hull _ v xs lo hi r0 r1 h
  | smm => exact smm_hull n hn0 v xs lo hi h
  | swma => exact swma_hull n (by simp only [validLen] at hv; exact hv.1) v xs lo hi h
  | trima => exact trima_hull n hn0 v xs lo hi h
  | linreg => simp [smoothKind] at hk
  | vidya => exact vidya_hull n hn0 v xs lo hi h

end Yata.Ind
