/-
  Second-tier indicators, value steps from invariant states (C05): compositions of realised averages with delay
  windows and running window sums.
-/
import YataProofs.Indicators.History
import YataProofs.Numeric.Common
import YataProofs.Numeric.Composite
import YataModel.Indicators2
namespace Yata.Ind
open Yata

/-! ### Awesome oscillator: slow average minus fast average of the source -/
namespace AO
structure Inv (f1 f2 : List ℚ → ℚ) (srcs : List ℚ) (s : AO) : Prop where
  r1 : Realises f1 s.ma1 srcs
  r2 : Realises f2 s.ma2 srcs

theorem vals_spec {f1 f2 : List ℚ → ℚ} {srcs : List ℚ} {s : AO} (k : Candle ℚ) (h : Inv f1 f2 srcs s) :
    let x := k.source s.cfg.source
    ∃ v s', s.vals k = .ok (v, s') ∧ v.map VExp.value = [f2 (srcs ++ [x]) - f1 (srcs ++ [x])] ∧
      Inv f1 f2 (srcs ++ [x]) s' ∧ s'.cfg = s.cfg := by
  intro x
  obtain ⟨a, ha, ra⟩ := h.r1.step x
  obtain ⟨b, hb, rb⟩ := h.r2.step x
  refine ⟨[.price (f2 (srcs ++ [x]) - f1 (srcs ++ [x])) (maK s.ma1 + maK s.ma2)], { s with ma1 := a, ma2 := b }, ?_, ?_, ⟨ra, rb⟩, rfl⟩
  · simp only [vals, maNext, bind, Except.bind, x, ha, hb, pure, Except.pure]
  · simp [VExp.value, VExp.price]
end AO

/-! ### Detrended price oscillator: the source `period/2 + 1` steps ago minus the average now -/
namespace DPO
structure Inv (P n : Nat) (f : List ℚ → ℚ) (srcs : List ℚ) (s : DPO) : Prop where
  pos : 0 < n
  r : Realises f s.sma srcs
  win : Tracks P n s.window srcs

theorem vals_spec {P n : Nat} {f : List ℚ → ℚ} {srcs : List ℚ} {s : DPO} (k : Candle ℚ) (h : Inv P n f srcs s) :
    let x := k.source s.source
    ∃ left v s', (lastN n srcs).head? = some left ∧ s.vals k = .ok (v, s') ∧
      v.map VExp.value = [left - f (srcs ++ [x])] ∧ Inv P n f (srcs ++ [x]) s' := by
  intro x
  obtain ⟨m, hm, rm⟩ := h.r.step x
  obtain ⟨left, w', hw, tw, hl⟩ := h.win.push h.pos x
  refine ⟨left, [.price (left - f (srcs ++ [x])) (1 + maK s.sma)], { s with sma := m, window := w' }, hl, ?_, ?_, ⟨h.pos, rm, tw⟩⟩
  · simp only [vals, maNext, bind, Except.bind, x, hm, hw, pure, Except.pure]
  · simp [VExp.value, VExp.price]
end DPO

/-! ### Ease of movement: the average of (mid-point move against the candle `period2` back) · range / volume -/
namespace EoM
def raw (k prev : Candle ℚ) : ℚ :=
  if k.volume = 0 then 0 else ((k.high - prev.high) + (k.low - prev.low)) * half * (k.high - k.low) / k.volume

structure Inv (P n : Nat) (f : List ℚ → ℚ) (cs : List (Candle ℚ)) (raws : List ℚ) (s : EoM) : Prop where
  pos : 0 < n
  r : Realises f s.m1 raws
  win : Tracks P n s.w cs

theorem vals_spec {P n : Nat} {f : List ℚ → ℚ} {cs : List (Candle ℚ)} {raws : List ℚ} {s : EoM} (k : Candle ℚ)
    (h : Inv P n f cs raws s) :
    ∃ prev v s', (lastN n cs).head? = some prev ∧ s.vals k = .ok (v, s') ∧
      v.map VExp.value = [f (raws ++ [raw k prev])] ∧ Inv P n f (cs ++ [k]) (raws ++ [raw k prev]) s' := by
  obtain ⟨prev, w', hw, tw, hl⟩ := h.win.push h.pos k
  obtain ⟨m, hm, rm⟩ := h.r.step (raw k prev)
  refine ⟨prev, [.approx (f (raws ++ [raw k prev])) (4 * maK s.m1) (.abs (rmax s.mag (rabs (raw k prev))))],
    { s with m1 := m, w := w', mag := rmax s.mag (rabs (raw k prev)) }, hl, ?_, ?_, ⟨h.pos, rm, tw⟩⟩
  · have e : (if (k.volume == 0) = true then (0 : ℚ) else ((k.high - prev.high) + (k.low - prev.low)) * half * (k.high - k.low) / k.volume) = raw k prev := by
      unfold raw; by_cases hz : k.volume = 0 <;> simp [hz]
    simp only [vals, hw, bind, Except.bind, maNext, pure, Except.pure]
    erw [e, hm]
  · simp [VExp.value]
end EoM

/-! ### Elder's force index: the average of (source change over `period2` candles) · (volume of those candles) -/
namespace EFI
structure Inv (P n : Nat) (f : List ℚ → ℚ) (cs : List (Candle ℚ)) (raws : List ℚ) (s : EFI) : Prop where
  pos : 0 < n
  r : Realises f s.ma raws
  win : Tracks P n s.window cs
  vol : s.vol_sum = ((lastN n cs).map fun c => c.volume).sum

theorem vals_spec {P n : Nat} {f : List ℚ → ℚ} {cs : List (Candle ℚ)} {raws : List ℚ} {s : EFI} (k : Candle ℚ)
    (h : Inv P n f cs raws s) :
    let vs := ((lastN n (cs ++ [k])).map fun c => c.volume).sum
    ∃ left v s', (lastN n cs).head? = some left ∧ s.vals k = .ok (v, s') ∧
      (let r := (k.source s.source - left.source s.source) * vs
       v.map VExp.value = [f (raws ++ [r])] ∧ Inv P n f (cs ++ [k]) (raws ++ [r]) s') := by
  intro vs
  obtain ⟨left, w', hw, tw, hl⟩ := h.win.push h.pos k
  have hvs : s.vol_sum + (k.volume - left.volume) = vs := by
    show _ = ((lastN n (cs ++ [k])).map fun c => c.volume).sum
    rw [lastN_snoc k h.pos h.win.len, sum_map_tail_snoc' (fun c : Candle ℚ => c.volume) _ left k hl, h.vol]
  obtain ⟨m, hm, rm⟩ := h.r.step ((k.source s.source - left.source s.source) * vs)
  refine ⟨left, [.approx (f (raws ++ [(k.source s.source - left.source s.source) * vs])) (4 * maK s.ma)
      (.abs (rmax s.mag (rmax (rabs ((k.source s.source - left.source s.source) * vs)) (rabs (k.source s.source) * rabs vs))))],
    { s with ma := m, window := w', vol_sum := vs,
             mag := rmax s.mag (rmax (rabs ((k.source s.source - left.source s.source) * vs)) (rabs (k.source s.source) * rabs vs)) },
    hl, ?_, ?_, ⟨h.pos, rm, tw, rfl⟩⟩
  · simp only [vals, hw, bind, Except.bind, maNext, hvs, hm, pure, Except.pure]
  · simp [VExp.value]
end EFI

end Yata.Ind
