import YataProofs.Indicators.HullAll
import YataProofs.Indicators.StochRange
import YataProofs.Indicators.MFIRange
namespace Yata.Ind
open Yata

namespace Stoch

/-- the constructor establishes the invariant, for every pair of kinds whose constructors accept the lengths -/
theorem init_inv_every_kind {P : Nat} (c : StochCfg) (k : Candle ℚ) (hv : Stoch.validate c = true) (hp : c.period ≤ P - 1)
    (h1 : validLen P c.ma.kind c.ma.length) (h2 : validLen P c.signal.kind c.signal.length) :
    let kr0 := Stoch.kRows k.close k.high k.low
    ∃ s, Stoch.init P c k = .ok s ∧ s.cfg = c ∧
      Inv P (specOf c.ma.kind c.ma.length kr0) (specOf c.signal.kind c.signal.length kr0)
        (List.replicate c.period k.high) (List.replicate c.period k.low) [] [] s := by
  intro kr0
  have hper : 1 < c.period := by
    simp only [Stoch.validate, Bool.and_eq_true, decide_eq_true_eq] at hv
    exact hv.1.1
  obtain ⟨h, hh, hinv, hw⟩ := Highest.new_spec (β := ℚ) (P := P) k.high (by omega) hp
  obtain ⟨l, hl, linv, lw⟩ := Lowest.new_spec (β := ℚ) (P := P) k.low (by omega) hp
  obtain ⟨a, ha, ra⟩ := every_kind_realises (P := P) c.ma.kind c.ma.length kr0 h1
  obtain ⟨b, hb, rb⟩ := every_kind_realises (P := P) c.signal.kind c.signal.length kr0 h2
  have e1 : c.ma = { kind := c.ma.kind, length := c.ma.length } := rfl
  have e2 : c.signal = { kind := c.signal.kind, length := c.signal.length } := rfl
  refine ⟨{ cfg := c, upper_zone := 1 - c.zone, highest := h, lowest := l, ma1 := a, ma2 := b,
            cross_over := Cross.default, cross_above1 := ⟨0⟩, cross_under1 := ⟨0⟩, cross_above2 := ⟨0⟩, cross_under2 := ⟨0⟩ },
    ?_, rfl, ⟨hinv, linv, ?_, ?_, by simp, by simp, by show 0 < c.period; omega, ra, rb⟩⟩
  · unfold Stoch.init
    rw [if_pos hv]
    simp only
    rw [hh, hl, e1, ha, e2, hb]
    rfl
  · show Window.toList h.window = lastN c.period (List.replicate c.period k.high)
    rw [hw]; unfold lastN; simp
  · show Window.toList l.window = lastN c.period (List.replicate c.period k.low)
    rw [lw]; unfold lastN; simp

/-- C12 over whole streams: Stochastic oscillator, any two non-overshooting kinds, every stream of candles with
    low ≤ close ≤ high (the first one too): no step panics and both lines are in [0, 1] at every step -/
theorem run_range {P : Nat} (c : StochCfg) (k0 : Candle ℚ) (hv : Stoch.validate c = true) (hp : c.period ≤ P - 1)
    (h1 : validLen P c.ma.kind c.ma.length) (h2 : validLen P c.signal.kind c.signal.length)
    (s1 : smoothKind c.ma.kind = true) (s2 : smoothKind c.signal.kind = true)
    (hk0 : k0.low ≤ k0.close ∧ k0.close ≤ k0.high) (cs : List (Candle ℚ)) (hcs : ∀ k ∈ cs, k.low ≤ k.close ∧ k.close ≤ k.high) :
    ∃ s0 outs s', Stoch.init P c k0 = .ok s0 ∧ runM (fun s k => s.vals k none) s0 cs = .ok (outs, s') ∧ outs.length = cs.length ∧
      ∀ o ∈ outs, ∃ v1 v2, o = [v1, v2] ∧ 0 ≤ v1.value ∧ v1.value ≤ 1 ∧ 0 ≤ v2.value ∧ v2.value ≤ 1 := by
  obtain ⟨s0, h0, _, hinv⟩ := init_inv_every_kind (P := P) c k0 hv hp h1 h2
  set kr0 := Stoch.kRows k0.close k0.high k0.low with hkr
  have hkr0 : 0 ≤ kr0 ∧ kr0 ≤ 1 := kRows_range k0.close k0.high k0.low hk0.1 hk0.2
  have hg1 := hullFn_of_kind (P := P) c.ma.kind c.ma.length kr0 s1 h1
  have hg2 := hullFn_of_kind (P := P) c.signal.kind c.signal.length kr0 s2 h2
  obtain ⟨os, s', hr, _, hlen, hout⟩ := MFI.runM_invariant_on (fun s k => s.vals k none)
    (fun k : Candle ℚ => k.low ≤ k.close ∧ k.close ≤ k.high)
    (fun _ s => ∃ highs lows krs f1s, Inv P (specOf c.ma.kind c.ma.length kr0) (specOf c.signal.kind c.signal.length kr0)
      highs lows krs f1s s ∧ In01 krs ∧ In01 f1s)
    (fun o => ∃ v1 v2, o = [v1, v2] ∧ 0 ≤ v1.value ∧ v1.value ≤ 1 ∧ 0 ≤ v2.value ∧ v2.value ≤ 1)
    (by
      rintro _ s k hk ⟨highs, lows, krs, f1s, hi, hkk, hff⟩
      obtain ⟨v1, v2, kr, s1', hvv, a1, a2, b1, b2, hi', hk', hf'⟩ := range_step k kr0 hi hkr0 hg1 hg2 hkk hff hk.1 hk.2
      exact ⟨_, s1', hvv, ⟨_, _, _, _, hi', hk', hf'⟩, v1, v2, rfl, a1, a2, b1, b2⟩)
    cs [] s0 hcs ⟨_, _, _, _, hinv, fun x hx => by simp at hx, fun x hx => by simp at hx⟩
  exact ⟨s0, os, s', h0, hr, hlen, hout⟩

end Stoch
end Yata.Ind
