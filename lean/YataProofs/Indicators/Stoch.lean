/-
  Stochastic oscillator over whole histories: %K-rows is (close − lowest low)/(highest high − lowest low) of the last
  `period` candles (½ when the range is empty), the two lines are the configured averages of it, stacked.
-/
import YataProofs.Indicators.History
namespace Yata.Ind
open Yata

namespace Stoch

structure Inv (P : Nat) (g1 g2 : List ℚ → ℚ) (highs lows krs f1s : List ℚ) (s : Stoch) : Prop where
  hi : Highest.Inv P s.highest
  lo : Lowest.Inv P s.lowest
  whi : Window.toList s.highest.window = lastN s.cfg.period highs
  wlo : Window.toList s.lowest.window = lastN s.cfg.period lows
  lhi : s.cfg.period ≤ highs.length
  llo : s.cfg.period ≤ lows.length
  pos : 0 < s.cfg.period
  r1 : Realises g1 s.ma1 krs
  r2 : Realises g2 s.ma2 f1s

/-- C05: one step returns `[g1 (k-rows history), g2 (first-line history)]`, where the new k-row is formed from a maximal
    element of the last `period` highs and a minimal element of the last `period` lows, and the invariant is kept -/
theorem vals_spec {P : Nat} {g1 g2 : List ℚ → ℚ} {highs lows krs f1s : List ℚ} {s : Stoch} (k : Candle ℚ)
    (h : Inv P g1 g2 highs lows krs f1s s) :
    ∃ hi lo v s', s.vals k none = .ok (v, s') ∧
      IsMaxOf hi (lastN s.cfg.period (highs ++ [k.high])) ∧ IsMinOf lo (lastN s.cfg.period (lows ++ [k.low])) ∧
      (let kr := Stoch.kRows k.close hi lo
       let f1 := g1 (krs ++ [kr])
       v.map VExp.value = [f1, g2 (f1s ++ [f1])] ∧
       Inv P g1 g2 (highs ++ [k.high]) (lows ++ [k.low]) (krs ++ [kr]) (f1s ++ [f1]) s') ∧ s'.cfg = s.cfg := by
  obtain ⟨o1, h1, hn1, hinv1, ho1, hw1⟩ := Highest.next_spec k.high h.hi
  obtain ⟨o2, l1, hn2, hinv2, ho2, hw2⟩ := Lowest.next_spec k.low h.lo
  have e1 : Window.toList h1.window = lastN s.cfg.period (highs ++ [k.high]) := by
    rw [hw1, h.whi]; exact Channel.tail_lastN_snoc _ _ _ h.pos h.lhi
  have e2 : Window.toList l1.window = lastN s.cfg.period (lows ++ [k.low]) := by
    rw [hw2, h.wlo]; exact Channel.tail_lastN_snoc _ _ _ h.pos h.llo
  obtain ⟨a, ha, ra⟩ := h.r1.step (Stoch.kRows k.close o1 o2)
  obtain ⟨b, hb, rb⟩ := h.r2.step (g1 (krs ++ [Stoch.kRows k.close o1 o2]))
  refine ⟨o1, o2, [.unit (g1 (krs ++ [Stoch.kRows k.close o1 o2])) (maK s.ma1), .unit (g2 (f1s ++ [g1 (krs ++ [Stoch.kRows k.close o1 o2])])) (maK s.ma2 * (1 + maK s.ma1))],
    { s with highest := h1, lowest := l1, ma1 := a, ma2 := b }, ?_, ?_, ?_, ⟨?_, ⟨hinv1, hinv2, e1, e2, ?_, ?_, h.pos, ra, rb⟩⟩, rfl⟩
  · simp only [vals, maNext, bind, Except.bind, fb, hn1, hn2, ha, hb, pure, Except.pure]
  · rw [ho1, ← e1]; exact hinv1.isMax
  · rw [ho2, ← e2]; exact hinv2.isMin
  · simp [VExp.value, VExp.unit]
  · simp only [List.length_append, List.length_singleton]; have := h.lhi; omega
  · simp only [List.length_append, List.length_singleton]; have := h.llo; omega

/-- C12: for a candle with low ≤ close ≤ high the k-row formed at that step is in [0, 1] — in every invariant state -/
theorem kr_range {P : Nat} {g1 g2 : List ℚ → ℚ} {highs lows krs f1s : List ℚ} {s : Stoch} (k : Candle ℚ)
    (h : Inv P g1 g2 highs lows krs f1s s) (hl : k.low ≤ k.close) (hh : k.close ≤ k.high)
    {hi lo : ℚ} (hmax : IsMaxOf hi (lastN s.cfg.period (highs ++ [k.high])))
    (hmin : IsMinOf lo (lastN s.cfg.period (lows ++ [k.low]))) :
    0 ≤ Stoch.kRows k.close hi lo ∧ Stoch.kRows k.close hi lo ≤ 1 := by
  have a := hmax.2 _ (Channel.mem_lastN_snoc _ _ _ h.pos h.lhi)
  have b := hmin.2 _ (Channel.mem_lastN_snoc _ _ _ h.pos h.llo)
  exact kRows_range k.close hi lo (le_trans b hl) (le_trans hh a)

end Stoch
end Yata.Ind
