import YataProofs.Indicators.RealisesEvery
import YataProofs.Runner
namespace Yata.Ind
open Yata

namespace MACD

/-- the MACD line after the candles `cs`: spec₁ − spec₂ of the sources -/
def line (c : MACDCfg) (k0 : Candle ℚ) (cs : List (Candle ℚ)) : ℚ :=
  let srcs := cs.map fun k => k.source c.source
  specOf c.ma1.kind c.ma1.length (k0.source c.source) srcs - specOf c.ma2.kind c.ma2.length (k0.source c.source) srcs

/-- C05 over whole streams, for EVERY configuration accepted by `validate` and the three constructors: at every step value 0 is
    the difference of the two documented averages of the sources so far, and value 1 the documented signal average (seeded
    with 0) of the history of value 0 -/
theorem run_spec {P : Nat} (c : MACDCfg) (k0 : Candle ℚ) (hv : MACD.validate c = true)
    (h1 : validLen P c.ma1.kind c.ma1.length) (h2 : validLen P c.ma2.kind c.ma2.length)
    (h3 : validLen P c.signal.kind c.signal.length) (cs : List (Candle ℚ)) :
    ∃ s0 outs s', MACD.init P c k0 = .ok s0 ∧ runM (fun s k => s.vals k none) s0 cs = .ok (outs, s') ∧ outs.length = cs.length ∧
      ∀ i (hi : i < outs.length),
        (outs[i]).map VExp.value =
          [line c k0 (cs.take (i + 1)),
           specOf c.signal.kind c.signal.length 0 ((List.range (i + 1)).map fun j => line c k0 (cs.take (j + 1)))] := by
  obtain ⟨s0, h0, hc0, hinv⟩ := MACD.init_every_kind (P := P) c k0 hv h1 h2 h3
  obtain ⟨os, s', hr, _, hlen, hout⟩ := runM_invariant (fun (s : MACD) k => s.vals k none)
    (fun h s => s.cfg = c ∧
      MACD.Inv (specOf c.ma1.kind c.ma1.length (k0.source c.source)) (specOf c.ma2.kind c.ma2.length (k0.source c.source))
        (specOf c.signal.kind c.signal.length 0) (h.map fun k => k.source c.source)
        ((List.range h.length).map fun j => line c k0 (h.take (j + 1))) s)
    (fun h o => o.map VExp.value =
      [line c k0 h, specOf c.signal.kind c.signal.length 0 ((List.range h.length).map fun j => line c k0 (h.take (j + 1)))])
    (by
      rintro h s k ⟨hc, hi⟩
      obtain ⟨v, s1, hvv, hval, hi', hc'⟩ := MACD.vals_spec k hi
      rw [hc] at hval hi'
      have hline : specOf c.ma1.kind c.ma1.length (k0.source c.source) (List.map (fun k => k.source c.source) h ++ [k.source c.source]) -
          specOf c.ma2.kind c.ma2.length (k0.source c.source) (List.map (fun k => k.source c.source) h ++ [k.source c.source]) =
          line c k0 (h ++ [k]) := by
        simp [line, List.map_append]
      have hrange : (List.range (h ++ [k]).length).map (fun j => line c k0 ((h ++ [k]).take (j + 1))) =
          ((List.range h.length).map fun j => line c k0 (h.take (j + 1))) ++ [line c k0 (h ++ [k])] := by
        rw [List.length_append, List.length_singleton, List.range_succ, List.map_append]
        congr 1
        · apply List.map_congr_left
          intro j hj
          rw [List.take_append_of_le_length (by have := List.mem_range.mp hj; omega)]
        · simp only [List.map_cons, List.map_nil]
          rw [List.take_of_length_le (by simp)]
      rw [hline] at hval hi'
      refine ⟨v, s1, hvv, ⟨by rw [hc', hc], ?_⟩, ?_⟩
      · rw [List.map_append, hrange]; exact hi'
      · rw [hval, hrange])
    cs [] s0 ⟨hc0, by simpa using hinv⟩
  refine ⟨s0, os, s', h0, hr, hlen, fun i hi => ?_⟩
  have := hout i hi
  simp only [List.nil_append] at this
  rw [this]
  have hl : (cs.take (i + 1)).length = i + 1 := by
    rw [List.length_take]; have : i < cs.length := by rw [← hlen]; exact hi
    omega
  rw [hl]
  congr 3
  apply List.map_congr_left
  intro j hj
  rw [List.take_take]
  have hj' := List.mem_range.mp hj
  have : min (j + 1) (i + 1) = j + 1 := by omega
  rw [this]

end MACD
end Yata.Ind
