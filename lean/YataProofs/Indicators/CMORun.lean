import YataProofs.Indicators.More
import YataProofs.Runner
namespace Yata.Ind
open Yata

namespace CMO

theorem init_inv {P : Nat} (c : CMOCfg) (k : Candle ℚ) (s : CMO) (h : CMO.init P c k = .ok s) : Inv P s := by
  unfold CMO.init at h
  split at h
  · rename_i hc
    simp only [Bool.and_eq_true, decide_eq_true_eq] at hc
    obtain ⟨⟨⟨_, _⟩, hp1⟩, hpP⟩ := hc
    have hP : 1 ≤ P - 1 := by omega
    obtain ⟨w1, hw1, i1, t1, z1⟩ := Window.new_ok (P := P) (k.source c.source) (size := 1) (by omega)
    obtain ⟨w2, hw2, i2, t2, z2⟩ := Window.new_ok (P := P) (0 : ℚ) (size := c.period) (by omega)
    have hm : Momentum.new P 1 (k.source c.source) = .ok { window := w1 } := by
      have h1P : ¬ (1 = P) := by omega
      simp [Momentum.new, h1P, winNew, hw1, Res.ofExcept, Res.bind]
    simp only [hm, winNew, hw2, Res.ofExcept, Res.bind] at h
    cases h
    refine ⟨i2, by show 0 < w2.size; omega, i1, by show 0 < w1.size; omega, ?_, ?_⟩
    · show (0 : ℚ) = ((Window.toList w2).map posPart).sum
      rw [t2]
      have : ∀ n : Nat, ((List.replicate n (0 : ℚ)).map posPart).sum = 0 := by
        intro n; induction n with
        | zero => rfl
        | succ m ih => simp only [List.replicate_succ, List.map_cons, List.sum_cons, ih]; simp [posPart, CMO.posNeg]
      exact (this _).symm
    · show (0 : ℚ) = ((Window.toList w2).map negPart).sum
      rw [t2]
      have : ∀ n : Nat, ((List.replicate n (0 : ℚ)).map negPart).sum = 0 := by
        intro n; induction n with
        | zero => rfl
        | succ m ih => simp only [List.replicate_succ, List.map_cons, List.sum_cons, ih]; simp [negPart, CMO.posNeg]
      exact (this _).symm
  · cases h

/-- Chande momentum oscillator over whole candle streams, from its constructor: no step panics and the value is in [−1, 1]
    at every step -/
theorem run_range {P : Nat} (c : CMOCfg) (k0 : Candle ℚ) (s0 : CMO) (h0 : CMO.init P c k0 = .ok s0) (cs : List (Candle ℚ)) :
    ∃ outs s', runM CMO.vals s0 cs = .ok (outs, s') ∧ outs.length = cs.length ∧
      ∀ i (hi : i < outs.length), ∃ v, outs[i] = [v] ∧ -1 ≤ v.value ∧ v.value ≤ 1 := by
  obtain ⟨os, s', hr, _, hlen, hout⟩ := runM_invariant CMO.vals (fun _ s => Inv P s)
    (fun _ o => ∃ v, o = [v] ∧ -1 ≤ v.value ∧ v.value ≤ 1)
    (by
      rintro _ s k hi
      obtain ⟨v, s1, hv, hi1, _, _, _, a, b⟩ := vals_spec k hi
      exact ⟨_, s1, hv, hi1, v, rfl, a, b⟩)
    cs [] s0 (init_inv c k0 s0 h0)
  exact ⟨os, s', hr, hlen, hout⟩

end CMO
end Yata.Ind
