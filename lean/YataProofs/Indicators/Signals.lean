/-
  Signal rules of the indicator models as compositions of the crossing rule (C14) with `Action`
  conversions / subtraction (C16).
-/
import YataProofs.Indicators.Basic
namespace Yata.Ind
open Yata

/-- a crossing detector pair that remembers one difference -/
def Synced (c : Cross ℚ) : Prop := c.up.last_delta = c.down.last_delta

theorem synced_default : Synced (Cross.default : Cross ℚ) := rfl
theorem synced_new (v : ℚ × ℚ) : Synced (Cross.new v) := rfl
theorem synced_next (c : Cross ℚ) (v : ℚ × ℚ) : Synced (c.next v).2 := rfl

theorem ofI8_analog_sub (u d : Bool) (h : ¬ (u = true ∧ d = true)) :
    (Action.ofI8 ((if u then 1 else 0) - (if d then 1 else 0))).analog = (if u then 1 else 0) - (if d then 1 else 0) := by
  cases u <;> cases d <;> simp [Action.ofI8, Action.analog, Action.buyAll, Action.sellAll, Action.BOUND] at h ⊢

/-- the analog value of a `Cross` step: +1 on an upward crossing, −1 on a downward one, else 0 -/
theorem cross_analog (c : Cross ℚ) (hs : Synced c) (v : ℚ × ℚ) :
    (c.next v).1.analog =
      (if crossAboveRule c.up.last_delta (v.1 - v.2) then 1 else 0) - (if crossUnderRule c.up.last_delta (v.1 - v.2) then 1 else 0) := by
  obtain ⟨h1, _, _⟩ := Cross.next_def c v
  rw [h1, ← hs]
  exact ofI8_analog_sub _ _ (cross_rules_exclusive _ _)

theorem analog_neg_iff (c : Cross ℚ) (hs : Synced c) (v : ℚ × ℚ) :
    ((c.next v).1.analog < 0) ↔ crossUnderRule c.up.last_delta (v.1 - v.2) = true := by
  rw [cross_analog c hs v]
  have hx := cross_rules_exclusive c.up.last_delta (v.1 - v.2)
  cases h1 : crossAboveRule c.up.last_delta (v.1 - v.2) <;> cases h2 : crossUnderRule c.up.last_delta (v.1 - v.2) <;>
    simp [h1, h2] at hx ⊢

theorem analog_pos_iff (c : Cross ℚ) (hs : Synced c) (v : ℚ × ℚ) :
    ((c.next v).1.analog > 0) ↔ crossAboveRule c.up.last_delta (v.1 - v.2) = true := by
  rw [cross_analog c hs v]
  have hx := cross_rules_exclusive c.up.last_delta (v.1 - v.2)
  cases h1 : crossAboveRule c.up.last_delta (v.1 - v.2) <;> cases h2 : crossUnderRule c.up.last_delta (v.1 - v.2) <;>
    simp [h1, h2] at hx ⊢

theorem sgn_congr {p : Prop} [Decidable p] {q : Bool} (h : p ↔ q = true) : sgn (decide p) = sgn q := by
  cases q <;> simp [sgn, h]

/-- RSI (and, with its own slot and thresholds, the money-flow index): signal 1 buys when the value falls into
    the lower zone and sells when it rises into the upper zone; signal 2 buys when the value leaves the lower zone
    upwards and sells when it leaves the upper zone downwards -/
theorem RSI.sigs_spec (s : RSI) (hl : Synced s.cross_lower) (hu : Synced s.cross_upper) (value : ℚ) :
    let dL := s.cross_lower.up.last_delta
    let dU := s.cross_upper.up.last_delta
    let lo := value - s.cfg.zone
    let up := value - (1 - s.cfg.zone)
    (s.sigs [value]).1 =
      [ Action.ofI8 (sgn (crossUnderRule dL lo) - sgn (crossAboveRule dU up)),
        Action.ofI8 (sgn (crossAboveRule dL lo) - sgn (crossUnderRule dU up)) ] ∧
    Synced (s.sigs [value]).2.cross_lower ∧ Synced (s.sigs [value]).2.cross_upper ∧
    (s.sigs [value]).2.cross_lower.up.last_delta = lo ∧ (s.sigs [value]).2.cross_upper.up.last_delta = up := by
  intro dL dU lo up
  have a1 := analog_neg_iff s.cross_lower hl (value, s.cfg.zone)
  have a2 := analog_pos_iff s.cross_lower hl (value, s.cfg.zone)
  have b1 := analog_neg_iff s.cross_upper hu (value, 1 - s.cfg.zone)
  have b2 := analog_pos_iff s.cross_upper hu (value, 1 - s.cfg.zone)
  refine ⟨?_, rfl, rfl, rfl, rfl⟩
  simp only [RSI.sigs, List.getD_cons_zero, id]
  rw [sgn_congr a1, sgn_congr a2, sgn_congr b1, sgn_congr b2]

theorem MFI.sigs_spec (s : MFI) (hl : Synced s.cross_lower) (hu : Synced s.cross_upper) (upper value lower : ℚ) :
    let dL := s.cross_lower.up.last_delta
    let dU := s.cross_upper.up.last_delta
    let lo := value - s.zone
    let up := value - (1 - s.zone)
    (s.sigs [upper, value, lower]).1 =
      [ Action.ofI8 (sgn (crossUnderRule dL lo) - sgn (crossAboveRule dU up)),
        Action.ofI8 (sgn (crossAboveRule dL lo) - sgn (crossUnderRule dU up)) ] ∧
    Synced (s.sigs [upper, value, lower]).2.cross_lower ∧ Synced (s.sigs [upper, value, lower]).2.cross_upper := by
  intro dL dU lo up
  have a1 := analog_neg_iff s.cross_lower hl (value, s.zone)
  have a2 := analog_pos_iff s.cross_lower hl (value, s.zone)
  have b1 := analog_neg_iff s.cross_upper hu (value, 1 - s.zone)
  have b2 := analog_pos_iff s.cross_upper hu (value, 1 - s.zone)
  refine ⟨?_, rfl, rfl⟩
  simp only [MFI.sigs, List.getD_cons_zero, List.getD_cons_succ, id]
  rw [sgn_congr a1, sgn_congr a2, sgn_congr b1, sgn_congr b2]

/-- Chaikin money flow: the crossing of the zero line -/
theorem CMF.sigs_spec (s : CMF) (v : ℚ) :
    (s.sigs [v]).1 =
      [ Action.ofI8 ((if crossAboveRule s.cross_over.up.last_delta (v - 0) then 1 else 0) -
                     (if crossUnderRule s.cross_over.down.last_delta (v - 0) then 1 else 0)) ] := by
  obtain ⟨h1, _, _⟩ := Cross.next_def s.cross_over (v, 0)
  simp only [CMF.sigs, List.getD_cons_zero]
  rw [h1]

/-- Chande momentum: (falls under −zone) minus (rises above +zone), as an `Action` difference -/
theorem CMO.sigs_spec (s : CMO) (v : ℚ) :
    (s.sigs [v]).1 =
      [ Action.sub (if crossUnderRule s.cross_under.last_delta (v - -s.cfg.zone) then Action.buyAll else Action.none)
                   (if crossAboveRule s.cross_above.last_delta (v - s.cfg.zone) then Action.buyAll else Action.none) ] ∧
    (s.sigs [v]).2.cross_under.last_delta = v - -s.cfg.zone ∧ (s.sigs [v]).2.cross_above.last_delta = v - s.cfg.zone := by
  obtain ⟨h1, h2⟩ := CrossUnder.next_def s.cross_under (v, -s.cfg.zone)
  obtain ⟨g1, g2⟩ := CrossAbove.next_def s.cross_above (v, s.cfg.zone)
  refine ⟨?_, h2, g2⟩
  simp only [CMO.sigs, List.getD_cons_zero]
  rw [h1, g1]

/-- Keltner channel: (source falls under the lower band) minus (source rises above the upper band) -/
theorem Keltner.sigs_spec (s : Keltner) (src upper lower : ℚ) :
    (s.sigs [src, upper, lower]).1 =
      [ Action.sub (if crossUnderRule s.cross_under.last_delta (src - lower) then Action.buyAll else Action.none)
                   (if crossAboveRule s.cross_above.last_delta (src - upper) then Action.buyAll else Action.none) ] := by
  obtain ⟨h1, _⟩ := CrossUnder.next_def s.cross_under (src, lower)
  obtain ⟨g1, _⟩ := CrossAbove.next_def s.cross_above (src, upper)
  simp only [Keltner.sigs, List.getD_cons_zero, List.getD_cons_succ]
  rw [h1, g1]

/-- Stochastic: both lines against the two zones (rise above the lower zone minus fall under the upper zone), and
    the crossing of the two lines -/
theorem Stoch.sigs_spec (s : Stoch) (f1 f2 : ℚ) :
    (s.sigs [f1, f2]).1 =
      [ Action.sub (if crossAboveRule s.cross_above1.last_delta (f1 - s.cfg.zone) then Action.buyAll else Action.none)
                   (if crossUnderRule s.cross_under1.last_delta (f1 - s.upper_zone) then Action.buyAll else Action.none),
        Action.sub (if crossAboveRule s.cross_above2.last_delta (f2 - s.cfg.zone) then Action.buyAll else Action.none)
                   (if crossUnderRule s.cross_under2.last_delta (f2 - s.upper_zone) then Action.buyAll else Action.none),
        Action.ofI8 ((if crossAboveRule s.cross_over.up.last_delta (f1 - f2) then 1 else 0) -
                     (if crossUnderRule s.cross_over.down.last_delta (f1 - f2) then 1 else 0)) ] := by
  obtain ⟨a1, _⟩ := CrossAbove.next_def s.cross_above1 (f1, s.cfg.zone)
  obtain ⟨u1, _⟩ := CrossUnder.next_def s.cross_under1 (f1, s.upper_zone)
  obtain ⟨a2, _⟩ := CrossAbove.next_def s.cross_above2 (f2, s.cfg.zone)
  obtain ⟨u2, _⟩ := CrossUnder.next_def s.cross_under2 (f2, s.upper_zone)
  obtain ⟨c1, _, _⟩ := Cross.next_def s.cross_over (f1, f2)
  simp only [Stoch.sigs, List.getD_cons_zero, List.getD_cons_succ]
  rw [a1, u1, a2, u2, c1]

end Yata.Ind
