import YataProofs.Indicators.More
import YataProofs.Indicators.Basic
import YataProofs.Runner
namespace Yata.Ind
open Yata

namespace Aroon

/-- state-machine shape of `vals`: output = the two values -/
def valsR (P : Nat) (s : Aroon) (k : Candle ℚ) : Except Panic (List VExp × Aroon) :=
  match Aroon.vals P s k with
  | .error e => .error e
  | .ok (v, _, s') => .ok (v, s')

/-- Aroon over whole candle streams, from its constructor: no step panics; both values are in [0, 1] at every step -/
theorem run_range {P : Nat} (c : AroonCfg) (k0 : Candle ℚ) (hv : Aroon.validate P c = true) (cs : List (Candle ℚ)) :
    ∃ s0 outs s', Aroon.init P c k0 = .ok s0 ∧ runM (valsR P) s0 cs = .ok (outs, s') ∧ outs.length = cs.length ∧
      ∀ i (hi : i < outs.length), ∃ up dn, (outs[i]).map VExp.value = [up, dn] ∧ 0 ≤ up ∧ up ≤ 1 ∧ 0 ≤ dn ∧ dn ≤ 1 := by
  have hvv := hv
  simp only [Aroon.validate, Bool.and_eq_true, decide_eq_true_eq] at hv
  obtain ⟨⟨⟨⟨⟨_, _⟩, hp1⟩, hpP⟩, _⟩, _⟩ := hv
  obtain ⟨l, hl, il, _⟩ := LowestIndex.new_spec (β := ℚ) (P := P) k0.low (by omega : 0 < c.period) (by omega)
  obtain ⟨h, hh, ih, _⟩ := HighestIndex.new_spec (β := ℚ) (P := P) k0.high (by omega : 0 < c.period) (by omega)
  set s0 : Aroon := { cfg := c, lowest_index := l, highest_index := h, cross := Cross.default, uptrend := 0, downtrend := 0 } with hs0
  have h0 : Aroon.init P c k0 = .ok s0 := by
    unfold Aroon.init
    rw [if_pos hvv, hl, hh]
    rfl
  obtain ⟨os, s', hr, _, hlen, hout⟩ := runM_invariant (valsR P)
    (fun _ s => s.cfg = c ∧ HighestIndex.Inv P s.highest_index ∧ LowestIndex.Inv P s.lowest_index)
    (fun _ o => ∃ up dn, o.map VExp.value = [up, dn] ∧ 0 ≤ up ∧ up ≤ 1 ∧ 0 ≤ dn ∧ dn ≤ 1)
    (by
      rintro _ s k ⟨hc, i1, i2⟩
      obtain ⟨v, hi, li, s1, hvs, hval, j1, j2, _, _, _, _, hc1⟩ := Aroon.vals_spec k i1 i2
      have hp : 0 < s.cfg.period := by rw [hc]; omega
      have r1 := aroon_value_range s.cfg.period hi hp
      have r2 := aroon_value_range s.cfg.period li hp
      exact ⟨v, s1, by simp only [valsR, hvs], ⟨by rw [hc1, hc], j1, j2⟩, _, _, hval, r1.1, r1.2, r2.1, r2.2⟩)
    cs [] s0 ⟨rfl, ih, il⟩
  exact ⟨s0, os, s', h0, hr, hlen, hout⟩

end Aroon
end Yata.Ind
