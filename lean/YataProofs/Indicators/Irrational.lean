/-
  TrendStrengthIndex / FisherTransform: the rational parts of the two indicators with irrational values.
-/
import YataProofs.Indicators.History
import YataProofs.Numeric.Common
import YataProofs.Numeric.WMA
import YataProofs.Numeric.Composite
import YataModel.Indicators3
namespace Yata.Ind
open Yata

/-! ### clamp -/
theorem clampQ_range (b x : ℚ) (hb : 0 ≤ b) : -b ≤ clampQ b x ∧ clampQ b x ≤ b := by
  unfold clampQ
  split
  · constructor <;> linarith
  · split
    · constructor <;> linarith
    · constructor <;> linarith

theorem clampQ_id (b x : ℚ) (h1 : -b ≤ x) (h2 : x ≤ b) : clampQ b x = x := by
  unfold clampQ
  rw [if_neg (by linarith), if_neg (by linarith)]

theorem clampQ_mono (b x y : ℚ) (hb : 0 ≤ b) (h : x ≤ y) : clampQ b x ≤ clampQ b y := by
  unfold clampQ
  split_ifs <;> linarith

namespace Fisher
/-- the argument of `atanh` is inside [−bound, bound] ⊂ (−1, 1) -/
theorem xOf_range (b src hi lo : ℚ) (hb : 0 ≤ b) : -b ≤ Fisher.xOf b src hi lo ∧ Fisher.xOf b src hi lo ≤ b :=
  clampQ_range b _ hb

/-- unclamped, it is the position of the source between the extremes mapped to [−1, 1] -/
theorem xOf_unclamped (b src hi lo : ℚ) (hlo : lo ≤ src) (hhi : src ≤ hi) (hne : lo < hi) :
    -1 ≤ (src - lo) / (hi - lo) * 2 + (-1) ∧ (src - lo) / (hi - lo) * 2 + (-1) ≤ 1 := by
  have hd : 0 < hi - lo := by linarith
  have h0 : 0 ≤ (src - lo) / (hi - lo) := div_nonneg (by linarith) (le_of_lt hd)
  have h1 : (src - lo) / (hi - lo) ≤ 1 := by rw [div_le_one hd]; linarith
  constructor <;> linarith

structure Inv (P : Nat) (g : List ℚ → ℚ) (srcs cums : List ℚ) (s : Fisher) : Prop where
  hi : Highest.Inv P s.highest
  lo : Lowest.Inv P s.lowest
  whi : Window.toList s.highest.window = lastN s.period1 srcs
  wlo : Window.toList s.lowest.window = lastN s.period1 srcs
  len : s.period1 ≤ srcs.length
  pos : 0 < s.period1
  r : Realises g s.ma1 cums
  prev : s.prev_value = cums.getLastD 0

/-- C05: one step from an invariant state.  `hi` / `lo` are a greatest / least element of the last `period1` sources;
    the transform is 0 on an empty range and `atanhQ` of the clamped position otherwise; the first value is
    `prev/2 + transform`, the second the realised average of the history of first values -/
theorem vals_spec {P : Nat} {g : List ℚ → ℚ} {srcs cums : List ℚ} {s : Fisher} (src : ℚ) (h : Inv P g srcs cums s) :
    ∃ hi lo v s', s.vals src none = .ok (v, s') ∧
      IsMaxOf hi (lastN s.period1 (srcs ++ [src])) ∧ IsMinOf lo (lastN s.period1 (srcs ++ [src])) ∧
      (let ft := if hi = lo then 0 else atanhQ (Fisher.xOf s.bound src hi lo)
       let cum := cums.getLastD 0 * half + ft
       v.map VExp.value = [cum, g (cums ++ [cum])] ∧ Inv P g (srcs ++ [src]) (cums ++ [cum]) s') := by
  obtain ⟨o1, h1, hn1, hinv1, ho1, hw1⟩ := Highest.next_spec src h.hi
  obtain ⟨o2, l1, hn2, hinv2, ho2, hw2⟩ := Lowest.next_spec src h.lo
  have e1 : Window.toList h1.window = lastN s.period1 (srcs ++ [src]) := by
    rw [hw1, h.whi]; exact Channel.tail_lastN_snoc _ _ _ h.pos h.len
  have e2 : Window.toList l1.window = lastN s.period1 (srcs ++ [src]) := by
    rw [hw2, h.wlo]; exact Channel.tail_lastN_snoc _ _ _ h.pos h.len
  set ft : ℚ := if o1 = o2 then 0 else atanhQ (Fisher.xOf s.bound src o1 o2) with hft
  obtain ⟨m, hm, rm⟩ := h.r.step (cums.getLastD 0 * half + ft)
  refine ⟨o1, o2, [.approx (cums.getLastD 0 * half + ft) 1 (.abs 8), .approx (g (cums ++ [cums.getLastD 0 * half + ft])) (maK s.ma1) (.abs 8)],
    { s with highest := h1, lowest := l1, ma1 := m, prev_value := cums.getLastD 0 * half + ft }, ?_, ?_, ?_, ?_, ?_⟩
  · have eb : (if (o1 == o2) = true then (0 : ℚ) else atanhQ (Fisher.xOf s.bound src o1 o2)) = ft := by
      rw [hft]; by_cases hq : o1 = o2 <;> simp [hq]
    simp only [vals, maNext, bind, Except.bind, fb, hn1, hn2, pure, Except.pure, h.prev, eb, hm]
  · rw [ho1, ← e1]; exact hinv1.isMax
  · rw [ho2, ← e2]; exact hinv2.isMin
  · simp only [List.map_cons, List.map_nil, VExp.value]
    rfl
  · refine ⟨hinv1, hinv2, e1, e2, ?_, h.pos, rm, ?_⟩
    · simp only [List.length_append, List.length_singleton]; have := h.len; omega
    · show cums.getLastD 0 * half + ft = (cums ++ [cums.getLastD 0 * half + ft]).getLastD 0
      rw [List.getLastD_concat]

end Fisher

namespace TSInd

/-- the running sums are the sums of the window and of its squares; the window holds the last `period` sources -/
structure Inv (P : Nat) (srcs : List ℚ) (s : TSInd) : Prop where
  pos : 0 < s.period
  win : Tracks P s.period s.window srcs
  wma : WMA.Inv P s.period srcs s.wma
  sy : s.sy = (lastN s.period srcs).sum
  sy2 : s.sy2 = ((lastN s.period srcs).map fun x => x * x).sum


/-- C05: one step from an invariant state returns `p / sqrt q` with
    `p = (WMA − mean)·Σi` and `q = k·(Σx² − mean·Σx)` of the last `period` sources, and keeps the invariant -/
theorem vals_spec {P : Nat} {srcs : List ℚ} {s : TSInd} (src : ℚ) (h : Inv P srcs s) :
    let w := lastN s.period (srcs ++ [src])
    let sy := w.sum
    let sy2 := (w.map fun x => x * x).sum
    let sma := sy / (s.period : ℚ)
    let wma := Spec.rampSum 1 w / ((s.period * (s.period + 1) / 2 : Nat) : ℚ)
    ∃ s', s.vals src = .ok ([.sqrtQuot ((wma - sma) * s.sx) (s.k * (sy2 - sma * sy)) (2 * s.sx) (2 * s.k * (s.period : ℚ))], s') ∧
      Inv P (srcs ++ [src]) s' ∧ s'.sx = s.sx ∧ s'.k = s.k ∧ s'.period = s.period := by
  intro w sy sy2 sma wma
  obtain ⟨past, w', hp, tw, hhead⟩ := h.win.push h.pos src
  obtain ⟨wv, wm, hwn, hwinv, hwv⟩ := WMA.next_spec src h.pos h.wma
  have hw : w = (lastN s.period srcs).tail ++ [src] := lastN_snoc src h.pos h.win.len
  have e1 : s.sy + (src - past) = sy := by
    show _ = w.sum
    have := sum_map_tail_snoc' (fun x : ℚ => x) (lastN s.period srcs) past src hhead
    simp only [List.map_id'] at this
    rw [hw, this, h.sy]
  have e2 : s.sy2 + (src * src - past * past) = sy2 := by
    show _ = (w.map fun x => x * x).sum
    rw [hw, sum_map_tail_snoc' (fun x : ℚ => x * x) (lastN s.period srcs) past src hhead, h.sy2]
  refine ⟨{ s with window := w', sy := sy, sy2 := sy2, wma := wm }, ?_, ⟨h.pos, tw, hwinv, rfl, rfl⟩, rfl, rfl, rfl⟩
  simp only [vals, hp, hwn, bind, Except.bind, pure, Except.pure, e1, e2, hwv]
  rfl

end TSInd
end Yata.Ind
