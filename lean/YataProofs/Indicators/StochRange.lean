/-
  C12: the stochastic oscillator's two lines stay in [0, 1] in every reachable state, for every averaging kind that
  preserves the hull of its inputs (C15: all kinds but HMA, DEMA, TEMA, LinReg); RSI likewise.
-/
import YataProofs.Indicators.Stoch
import YataProofs.MALaws
import YataProofs.Indicators.More
namespace Yata.Ind
open Yata

/-- the realised average never leaves the interval spanned by its construction value and its inputs -/
def HullFn (v0 : ℚ) (f : List ℚ → ℚ) : Prop :=
  ∀ (xs : List ℚ) (lo hi : ℚ), (∀ x ∈ v0 :: xs, lo ≤ x ∧ x ≤ hi) → lo ≤ f xs ∧ f xs ≤ hi

theorem hullFn_sma (n : Nat) (hn : 0 < n) (v : ℚ) :
    HullFn v (fun h => Spec.mean n (lastN n (history n v h))) :=
  fun xs lo hi h => sma_hull n hn v xs lo hi h

theorem hullFn_ema (a v : ℚ) (h0 : 0 ≤ a) (h1 : a ≤ 1) : HullFn v (fun h => Spec.emaRec a v h) :=
  fun xs lo hi h => emaRec_hull a v xs lo hi h0 h1 h

namespace Stoch

def In01 (l : List ℚ) : Prop := ∀ x ∈ l, 0 ≤ x ∧ x ≤ 1

theorem in01_snoc {l : List ℚ} {x : ℚ} (h : In01 l) (hx : 0 ≤ x ∧ x ≤ 1) : In01 (l ++ [x]) := by
  intro y hy
  rcases List.mem_append.mp hy with hy | hy
  · exact h y hy
  · simp at hy; rw [hy]; exact hx

/-- one step keeps both lines in [0, 1] -/
theorem range_step {P : Nat} {g1 g2 : List ℚ → ℚ} {highs lows krs f1s : List ℚ} {s : Stoch} (k : Candle ℚ) (v0 : ℚ)
    (h : Inv P g1 g2 highs lows krs f1s s) (hv0 : 0 ≤ v0 ∧ v0 ≤ 1) (hg1 : HullFn v0 g1) (hg2 : HullFn v0 g2)
    (hk : In01 krs) (hf : In01 f1s) (hl : k.low ≤ k.close) (hh : k.close ≤ k.high) :
    ∃ v1 v2 kr s', s.vals k none = .ok ([v1, v2], s') ∧
      0 ≤ v1.value ∧ v1.value ≤ 1 ∧ 0 ≤ v2.value ∧ v2.value ≤ 1 ∧
      Inv P g1 g2 (highs ++ [k.high]) (lows ++ [k.low]) (krs ++ [kr]) (f1s ++ [v1.value]) s' ∧
      In01 (krs ++ [kr]) ∧ In01 (f1s ++ [v1.value]) := by
  obtain ⟨hi, lo, v, s', hv, hmax, hmin, hrest, _⟩ := vals_spec k h
  obtain ⟨hval, hinv⟩ := hrest
  have hkr := kr_range k h hl hh hmax hmin
  have hk' := in01_snoc hk hkr
  have hall : ∀ (l : List ℚ), In01 l → ∀ x ∈ v0 :: l, (0 : ℚ) ≤ x ∧ x ≤ 1 := by
    intro l hl' x hx
    rcases List.mem_cons.mp hx with rfl | hx
    · exact hv0
    · exact hl' x hx
  have r1 := hg1 (krs ++ [Stoch.kRows k.close hi lo]) 0 1 (hall _ hk')
  have hf' := in01_snoc hf r1
  have r2 := hg2 (f1s ++ [g1 (krs ++ [Stoch.kRows k.close hi lo])]) 0 1 (hall _ hf')
  -- v has exactly two entries with these values
  have hlen : v.length = 2 := by have := congrArg List.length hval; simpa using this
  rcases v with _ | ⟨a, _ | ⟨b, _ | ⟨c, t⟩⟩⟩
  · simp at hlen
  · simp at hlen
  · simp only [List.map_cons, List.map_nil, List.cons.injEq, and_true] at hval
    obtain ⟨ha, hb⟩ := hval
    refine ⟨a, b, Stoch.kRows k.close hi lo, s', hv, ?_, ?_, ?_, ?_, ?_, hk', ?_⟩
    · rw [ha]; exact r1.1
    · rw [ha]; exact r1.2
    · rw [hb]; exact r2.1
    · rw [hb]; exact r2.2
    · rw [ha]; exact hinv
    · rw [ha]; exact hf'
  · simp at hlen

end Stoch

/-! ### RSI: gains ≥ 0 and losses ≤ 0 are averaged by hull-preserving kinds, so `pos ≥ 0`, `neg ≥ 0`, value ∈ [0, 1] -/
theorem le_foldr_max (l : List ℚ) : ∀ x ∈ l, x ≤ l.foldr max 0 := by
  induction l with
  | nil => intro x hx; simp at hx
  | cons a t ih =>
    intro x hx
    rcases List.mem_cons.mp hx with rfl | hx
    · exact le_max_left _ _
    · exact le_trans (ih x hx) (le_max_right _ _)

theorem foldr_min_le (l : List ℚ) : ∀ x ∈ l, l.foldr min 0 ≤ x := by
  induction l with
  | nil => intro x hx; simp at hx
  | cons a t ih =>
    intro x hx
    rcases List.mem_cons.mp hx with rfl | hx
    · exact min_le_left _ _
    · exact le_trans (min_le_right _ _) (ih x hx)

theorem HullFn.nonneg {v0 : ℚ} {f : List ℚ → ℚ} (h : HullFn v0 f) (xs : List ℚ) (hx : ∀ x ∈ v0 :: xs, 0 ≤ x) : 0 ≤ f xs :=
  (h xs 0 ((v0 :: xs).foldr max 0) (fun x hxm => ⟨hx x hxm, le_foldr_max _ x hxm⟩)).1

theorem HullFn.nonpos {v0 : ℚ} {f : List ℚ → ℚ} (h : HullFn v0 f) (xs : List ℚ) (hx : ∀ x ∈ v0 :: xs, x ≤ 0) : f xs ≤ 0 :=
  (h xs ((v0 :: xs).foldr min 0) 0 (fun x hxm => ⟨foldr_min_le _ x hxm, hx x hxm⟩)).2

namespace RSI
/-- one step from a state whose gain / loss histories have the right signs: the value is in [0, 1] and the histories keep
    their signs (both averages are constructed with 0) -/
theorem range_step {fp fn : List ℚ → ℚ} {gains losses : List ℚ} {s : RSI} (k : Candle ℚ)
    (hp : Realises fp s.posma gains) (hn : Realises fn s.negma losses) (hfp : HullFn 0 fp) (hfn : HullFn 0 fn)
    (hg : ∀ x ∈ gains, 0 ≤ x) (hl : ∀ x ∈ losses, x ≤ 0) :
    ∃ v s' g l, s.vals k = .ok ([v], s') ∧ 0 ≤ v.value ∧ v.value ≤ 1 ∧
      Realises fp s'.posma (gains ++ [g]) ∧ Realises fn s'.negma (losses ++ [l]) ∧
      (∀ x ∈ gains ++ [g], 0 ≤ x) ∧ (∀ x ∈ losses ++ [l], x ≤ 0) := by
  obtain ⟨v, s', hv, hval, v0, v1, r1, r2, _, _⟩ := vals_spec k hp hn
  set g := smax (k.source s.cfg.source - s.previous_input) 0 with hgd
  set l := smin (k.source s.cfg.source - s.previous_input) 0 with hld
  have hg0 : 0 ≤ g := by rw [hgd]; unfold smax; split <;> linarith
  have hl0 : l ≤ 0 := by rw [hld]; unfold smin; split <;> linarith
  have hg' : ∀ x ∈ gains ++ [g], 0 ≤ x := by
    intro x hx; rcases List.mem_append.mp hx with hx | hx
    · exact hg x hx
    · simp at hx; rw [hx]; exact hg0
  have hl' : ∀ x ∈ losses ++ [l], x ≤ 0 := by
    intro x hx; rcases List.mem_append.mp hx with hx | hx
    · exact hl x hx
    · simp at hx; rw [hx]; exact hl0
  have hpos : 0 ≤ fp (gains ++ [g]) := hfp.nonneg _ (fun x hx => by
    rcases List.mem_cons.mp hx with rfl | hx
    · exact le_refl _
    · exact hg' x hx)
  have hneg : 0 ≤ -(fn (losses ++ [l])) := by
    have := hfn.nonpos (losses ++ [l]) (fun x hx => by
      rcases List.mem_cons.mp hx with rfl | hx
      · exact le_refl _
      · exact hl' x hx)
    linarith
  exact ⟨v, s', g, l, hv, v0, v1, r1, r2, hg', hl'⟩
end RSI

end Yata.Ind
