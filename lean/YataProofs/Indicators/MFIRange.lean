/-
  Money-flow index: the positive / negative money flows are running sums over the last `period` candles of the
  per-candle flows (volume when the typical price rose / fell against the previous candle), hence non-negative, hence
  the value `pmf/(pmf+nmf)` (½ when there is no negative flow) is in [0, 1] — for every reachable state.
-/
import YataProofs.Indicators.Basic
import YataProofs.Numeric.Common
import YataProofs.Numeric.Composite
namespace Yata.Ind
open Yata

namespace MFI

/-- per-candle flows of the history `H` (each candle against its predecessor, the first against `c0`) -/
def flows (c0 : Candle ℚ) : List (Candle ℚ) → List (ℚ × ℚ)
  | [] => []
  | c :: t => MFI.tfunc c c0 :: flows c t

def lastC (c0 : Candle ℚ) (H : List (Candle ℚ)) : Candle ℚ := (c0 :: H).getLast (by simp)

theorem lastC_snoc (c0 : Candle ℚ) (H : List (Candle ℚ)) (k : Candle ℚ) : lastC c0 (H ++ [k]) = k := by
  unfold lastC
  have e : c0 :: (H ++ [k]) = (c0 :: H) ++ [k] := rfl
  simp only [e, List.getLast_concat]

theorem flows_snoc (c0 : Candle ℚ) (H : List (Candle ℚ)) (k : Candle ℚ) :
    flows c0 (H ++ [k]) = flows c0 H ++ [MFI.tfunc k (lastC c0 H)] := by
  induction H generalizing c0 with
  | nil => simp [flows, lastC]
  | cons a t ih =>
    simp only [List.cons_append, flows, ih a]
    have : lastC a t = lastC c0 (a :: t) := by unfold lastC; simp [List.getLast_cons]
    rw [this]

theorem flows_length (c0 : Candle ℚ) (H : List (Candle ℚ)) : (flows c0 H).length = H.length := by
  induction H generalizing c0 with
  | nil => rfl
  | cons a t ih => simp [flows, ih]

theorem tfunc_nonneg (c l : Candle ℚ) (hv : 0 ≤ c.volume) : 0 ≤ (MFI.tfunc c l).1 ∧ 0 ≤ (MFI.tfunc c l).2 := by
  unfold MFI.tfunc; dsimp only; constructor <;> split <;> first | exact hv | exact le_refl _

theorem flows_nonneg (c0 : Candle ℚ) (H : List (Candle ℚ)) (hv : ∀ c ∈ H, 0 ≤ c.volume) :
    ∀ p ∈ flows c0 H, 0 ≤ p.1 ∧ 0 ≤ p.2 := by
  induction H generalizing c0 with
  | nil => simp [flows]
  | cons a t ih =>
    intro p hp
    simp only [flows, List.mem_cons] at hp
    rcases hp with rfl | hp
    · exact tfunc_nonneg a c0 (hv a (by simp))
    · exact ih a (fun c hc => hv c (by simp [hc])) p hp

/-- the `j`-th flow is the flow of candle `j` against candle `j−1` -/
theorem flows_getElem? (c0 : Candle ℚ) (H : List (Candle ℚ)) (j : Nat) (hj : j < H.length) :
    (flows c0 H)[j]? = some (MFI.tfunc (H[j]) ((c0 :: H)[j]'(by simp; omega))) := by
  induction H generalizing c0 j with
  | nil => simp at hj
  | cons a t ih =>
    cases j with
    | zero => simp [flows]
    | succ k =>
      simp only [flows, List.getElem?_cons_succ, List.getElem_cons_succ]
      exact ih a k (by simpa using hj)

structure Inv (P : Nat) (c0 : Candle ℚ) (H : List (Candle ℚ)) (s : MFI) : Prop where
  pos : 0 < s.period
  tracks : Tracks P s.period s.window H
  prev : s.prev_candle = lastC c0 H
  /-- the candle just before the window (the first candle itself while the window still holds prehistory) -/
  lprev : s.last_prev_candle = (c0 :: H)[H.length - s.period]'(by simp; omega)
  pmf : s.pmf = ((lastN s.period (flows c0 H)).map Prod.fst).sum
  nmf : s.nmf = ((lastN s.period (flows c0 H)).map Prod.snd).sum
  vol : ∀ p ∈ flows c0 H, 0 ≤ p.1 ∧ 0 ≤ p.2

theorem sum_nonneg_map (f : ℚ × ℚ → ℚ) (l : List (ℚ × ℚ)) (h : ∀ p ∈ l, 0 ≤ f p) : 0 ≤ (l.map f).sum := by
  induction l with
  | nil => simp
  | cons a t ih =>
    simp only [List.map_cons, List.sum_cons]
    have := h a (by simp)
    have := ih (fun p hp => h p (by simp [hp]))
    linarith

theorem vals_spec {P : Nat} {c0 : Candle ℚ} {H : List (Candle ℚ)} {s : MFI} (k : Candle ℚ) (h : Inv P c0 H s)
    (hk : 0 ≤ k.volume) :
    ∃ v s', s.vals k = .ok ([.exact (1 - s.zone), v, .exact s.zone], s') ∧ Inv P c0 (H ++ [k]) s' ∧ s'.zone = s.zone ∧
      0 ≤ s'.pmf ∧ 0 ≤ s'.nmf ∧
      v.value = (if s'.nmf = 0 then half else s'.pmf / (s'.pmf + s'.nmf)) ∧ 0 ≤ v.value ∧ v.value ≤ 1 := by
  obtain ⟨old, w', hp, ht', hhead⟩ := h.tracks.push h.pos k
  have hlen : s.period ≤ H.length := h.tracks.len
  -- the evicted candle is the oldest of the window = candle number |H| − period
  have hidx : H.length - s.period < H.length := by have := h.pos; omega
  have hold : old = H[H.length - s.period] := by
    unfold lastN at hhead
    rw [List.head?_drop, List.getElem?_eq_getElem hidx] at hhead
    exact (Option.some.inj hhead).symm
  -- the flow that leaves the sums
  have hfl := flows_length c0 H
  have hleave : (lastN s.period (flows c0 H)).head? = some (MFI.tfunc old s.last_prev_candle) := by
    unfold lastN
    rw [List.head?_drop, hfl, flows_getElem? c0 H _ hidx, hold, h.lprev]
  have hfsn : lastN s.period (flows c0 (H ++ [k])) =
      (lastN s.period (flows c0 H)).tail ++ [MFI.tfunc k s.prev_candle] := by
    rw [flows_snoc, lastN_snoc _ h.pos (by rw [hfl]; exact hlen), h.prev]
  have hpm : ((lastN s.period (flows c0 (H ++ [k]))).map Prod.fst).sum =
      s.pmf + ((MFI.tfunc k s.prev_candle).1 - (MFI.tfunc old s.last_prev_candle).1) := by
    rw [hfsn, sum_map_tail_snoc' Prod.fst _ _ _ hleave, h.pmf]
  have hnm : ((lastN s.period (flows c0 (H ++ [k]))).map Prod.snd).sum =
      s.nmf + ((MFI.tfunc k s.prev_candle).2 - (MFI.tfunc old s.last_prev_candle).2) := by
    rw [hfsn, sum_map_tail_snoc' Prod.snd _ _ _ hleave, h.nmf]
  have hnn : ∀ p ∈ flows c0 (H ++ [k]), 0 ≤ p.1 ∧ 0 ≤ p.2 := by
    intro p hp
    rw [flows_snoc] at hp
    rcases List.mem_append.mp hp with hp | hp
    · exact h.vol p hp
    · simp only [List.mem_singleton] at hp; rw [hp]; exact tfunc_nonneg k _ hk
  have hp0 : 0 ≤ s.pmf + ((MFI.tfunc k s.prev_candle).1 - (MFI.tfunc old s.last_prev_candle).1) := by
    rw [← hpm]; exact sum_nonneg_map _ _ (fun p hp => (hnn p (List.mem_of_mem_drop hp)).1)
  have hn0 : 0 ≤ s.nmf + ((MFI.tfunc k s.prev_candle).2 - (MFI.tfunc old s.last_prev_candle).2) := by
    rw [← hnm]; exact sum_nonneg_map _ _ (fun p hp => (hnn p (List.mem_of_mem_drop hp)).2)
  set p' := s.pmf + ((MFI.tfunc k s.prev_candle).1 - (MFI.tfunc old s.last_prev_candle).1) with hp'
  set n' := s.nmf + ((MFI.tfunc k s.prev_candle).2 - (MFI.tfunc old s.last_prev_candle).2) with hn'
  have hr := mfi_range p' n' hp0 hn0
  have hval : (VExp.cquot p' (p' + n') (s.period : ℚ) (2 * (s.period : ℚ)) .vol [n'] (some half) 0 1).value =
      (if n' = 0 then half else p' / (p' + n')) := by
    rw [cquot_value]
    by_cases hz : n' = 0
    · simp [hz]
    · have hsum : p' + n' ≠ 0 := by
        have : 0 < n' := lt_of_le_of_ne hn0 (Ne.symm hz)
        linarith
      have hr' := hr
      simp only [hz, if_false] at hr'
      rw [if_neg (by simp [hsum, hz]), if_neg hz]
      exact qclamp_of_mem hr'.1 hr'.2
  refine ⟨.cquot p' (p' + n') (s.period : ℚ) (2 * (s.period : ℚ)) .vol [n'] (some half) 0 1,
    { s with window := w', last_prev_candle := old, prev_candle := k, pmf := p', nmf := n' }, ?_,
    ⟨h.pos, ht', (lastC_snoc c0 H k).symm, ?_, hpm.symm, hnm.symm, hnn⟩, rfl, hp0, hn0, hval, ?_, ?_⟩
  · simp only [MFI.vals, hp, bind, Except.bind, pure, Except.pure]
    rfl
  · show old = (c0 :: (H ++ [k]))[(H ++ [k]).length - s.period]'(by simp; omega)
    rw [hold]
    have e : (H ++ [k]).length - s.period = (H.length - s.period) + 1 := by simp; omega
    simp only [e, List.getElem_cons_succ]
    rw [List.getElem_append_left hidx]
  · rw [hval]; exact hr.1
  · rw [hval]; exact hr.2


theorem flows_replicate (k : Candle ℚ) (n : Nat) : flows k (List.replicate n k) = List.replicate n (0, 0) := by
  induction n with
  | zero => rfl
  | succ m ih =>
    simp only [List.replicate_succ, flows, ih]
    congr 1
    simp [MFI.tfunc]

/-- the constructor establishes the invariant: the window and the history are `period` copies of the first candle -/
theorem init_inv {P period : Nat} (zone : ℚ) (k : Candle ℚ) (s : MFI) (h : MFI.init P period zone k = .ok s) :
    Inv P k (List.replicate period k) s ∧ s.period = period ∧ s.zone = zone := by
  unfold MFI.init at h
  split at h
  · rename_i hc
    simp only [Bool.and_eq_true, decide_eq_true_eq] at hc
    obtain ⟨⟨⟨_, _⟩, hp0⟩, hpP⟩ := hc
    obtain ⟨w, hw, ht⟩ := Tracks.new (P := P) (n := period) k (by omega)
    rw [hw] at h
    simp only [Res.ofExcept, Res.bind] at h
    cases h
    have hh : history period k [] = List.replicate period k := by simp [history]
    rw [hh] at ht
    refine ⟨⟨hp0, ht, ?_, ?_, ?_, ?_, ?_⟩, rfl, rfl⟩
    · unfold lastC
      cases period with
      | zero => rfl
      | succ m => simp [List.getLast_cons, List.getLast_replicate]
    · simp
    · simp [flows_replicate, lastN]
    · simp [flows_replicate, lastN]
    · intro p hp
      rw [flows_replicate] at hp
      rw [(List.mem_replicate.mp hp).2]
      exact ⟨le_refl _, le_refl _⟩
  · cases h


/-- `runM_invariant` for steps that need a hypothesis on each input -/
theorem runM_invariant_on {σ ι ο : Type} (next : σ → ι → Except Panic (ο × σ)) (Good : ι → Prop)
    (Inv : List ι → σ → Prop) (Out : ο → Prop)
    (hstep : ∀ h s x, Good x → Inv h s → ∃ o s', next s x = .ok (o, s') ∧ Inv (h ++ [x]) s' ∧ Out o) :
    ∀ (xs : List ι) (h : List ι) (s : σ), (∀ x ∈ xs, Good x) → Inv h s →
      ∃ os s', runM next s xs = .ok (os, s') ∧ Inv (h ++ xs) s' ∧ os.length = xs.length ∧ ∀ o ∈ os, Out o := by
  intro xs
  induction xs with
  | nil => intro h s _ hinv; exact ⟨[], s, rfl, by simpa using hinv, rfl, by simp⟩
  | cons x xs ih =>
    intro h s hg hinv
    obtain ⟨o, s1, hn, hinv1, hout⟩ := hstep h s x (hg x (by simp)) hinv
    obtain ⟨os, s2, hr, hinv2, hlen, houts⟩ := ih (h ++ [x]) s1 (fun y hy => hg y (by simp [hy])) hinv1
    refine ⟨o :: os, s2, by simp [runM, hn, hr], by simpa using hinv2, by simp [hlen], ?_⟩
    intro o' ho'
    rcases List.mem_cons.mp ho' with rfl | ho'
    · exact hout
    · exact houts o' ho'

/-- MFI over whole candle streams: from the constructor, for every stream of candles with non-negative volume, no step
    panics, the bounds are `1 − zone` and `zone`, and the value is in [0, 1] at every step -/
theorem run_range {P period : Nat} (zone : ℚ) (c0 : Candle ℚ) (s0 : MFI) (h0 : MFI.init P period zone c0 = .ok s0)
    (cs : List (Candle ℚ)) (hv : ∀ c ∈ cs, 0 ≤ c.volume) :
    ∃ outs s', runM MFI.vals s0 cs = .ok (outs, s') ∧ outs.length = cs.length ∧
      ∀ o ∈ outs, ∃ v, o = [.exact (1 - zone), v, .exact zone] ∧ 0 ≤ v.value ∧ v.value ≤ 1 := by
  obtain ⟨hinv, _, hz⟩ := init_inv zone c0 s0 h0
  obtain ⟨os, s', hr, _, hlen, hout⟩ := runM_invariant_on MFI.vals (fun c => 0 ≤ c.volume)
    (fun H s => Inv P c0 (List.replicate period c0 ++ H) s ∧ s.zone = zone)
    (fun o => ∃ v, o = [.exact (1 - zone), v, .exact zone] ∧ 0 ≤ v.value ∧ v.value ≤ 1)
    (by
      intro H s x hx ⟨hi, hzz⟩
      obtain ⟨v, s', hv, hi', hz', _, _, _, h1, h2⟩ := vals_spec x hi hx
      exact ⟨_, s', hv, ⟨by rw [← List.append_assoc]; exact hi', by rw [hz', hzz]⟩, v, by rw [hzz], h1, h2⟩)
    cs [] s0 hv ⟨by simpa using hinv, hz⟩
  exact ⟨os, s', hr, hlen, hout⟩

end MFI
end Yata.Ind
