import YataProofs.Indicators.RSISpecRun
import YataProofs.Indicators.AffineAll
namespace Yata.Ind
open Yata
namespace RSI

theorem smax_scale (a d : ℚ) (ha : 0 < a) : smax (a * d) 0 = a * smax d 0 := by
  unfold smax
  by_cases h : d < 0
  · have : a * d < 0 := mul_neg_of_pos_of_neg ha h
    simp [h, this]
  · have : ¬ a * d < 0 := by
      push Not at h ⊢
      exact mul_nonneg ha.le h
    simp [h, this]

theorem smin_scale (a d : ℚ) (ha : 0 < a) : smin (a * d) 0 = a * smin d 0 := by
  unfold smin
  by_cases h : 0 < d
  · have : 0 < a * d := mul_pos ha h
    simp [h, this]
  · have : ¬ 0 < a * d := by
      push Not at h ⊢
      exact mul_nonpos_of_nonneg_of_nonpos ha.le h
    simp [h, this]

theorem gains_scale (a : ℚ) (ha : 0 < a) (p : ℚ) (xs : List ℚ) :
    gains (a * p) (xs.map fun x => a * x) = (gains p xs).map fun x => a * x := by
  induction xs generalizing p with
  | nil => rfl
  | cons x t ih =>
    simp only [List.map_cons, gains, ih]
    rw [← mul_sub, smax_scale a _ ha]

theorem losses_scale (a : ℚ) (ha : 0 < a) (p : ℚ) (xs : List ℚ) :
    losses (a * p) (xs.map fun x => a * x) = (losses p xs).map fun x => a * x := by
  induction xs generalizing p with
  | nil => rfl
  | cons x t ih =>
    simp only [List.map_cons, losses, ih]
    rw [← mul_sub, smin_scale a _ ha]

/-- **RSI does not depend on the unit of the prices** (the model-level counterpart of the exact scale law of the long
    indicator suite): for every kind of average and every positive factor, the documented value of the rescaled stream is the
    documented value of the stream -/
theorem valueOf_scale {P : Nat} (c : RSICfg) (h1 : validLen P c.ma.kind c.ma.length) (a : ℚ) (ha : 0 < a) (p0 : ℚ)
    (srcs : List ℚ) : valueOf c (a * p0) (srcs.map fun x => a * x) = valueOf c p0 srcs := by
  have hsp : ∀ l : List ℚ, specOf c.ma.kind c.ma.length 0 (l.map fun x => a * x) = a * specOf c.ma.kind c.ma.length 0 l := by
    intro l
    have := specOf_affine (P := P) c.ma.kind c.ma.length h1 a 0 0 (ne_of_gt ha) l
    simpa using this
  unfold valueOf
  simp only [gains_scale a ha, losses_scale a ha, hsp]
  set pos := specOf c.ma.kind c.ma.length 0 (gains p0 srcs)
  set neg := specOf c.ma.kind c.ma.length 0 (losses p0 srcs)
  have e : a * pos + -(a * neg) = a * (pos + -neg) := by ring
  rw [e]
  by_cases hz : pos + -neg = 0
  · simp [hz]
  · have : a * (pos + -neg) ≠ 0 := mul_ne_zero (ne_of_gt ha) hz
    rw [if_neg this, if_neg hz, mul_div_mul_left _ _ (ne_of_gt ha)]

end RSI
end Yata.Ind
