import YataProofs.Indicators.HullAll
import YataProofs.Indicators.StochRange
import YataProofs.Runner
namespace Yata.Ind
open Yata

namespace RSI

/-- C12 over whole streams: RSI with any non-overshooting kind, from its constructor, on every candle stream: no step
    panics and the value is in [0, 1] at every step -/
theorem run_range {P : Nat} (c : RSICfg) (k0 : Candle ℚ) (hv : RSI.validate c = true)
    (h1 : validLen P c.ma.kind c.ma.length) (s1 : smoothKind c.ma.kind = true) (cs : List (Candle ℚ)) :
    ∃ s0 outs s', RSI.init P c k0 = .ok s0 ∧ runM RSI.vals s0 cs = .ok (outs, s') ∧ outs.length = cs.length ∧
      ∀ i (hi : i < outs.length), ∃ v, outs[i] = [v] ∧ 0 ≤ v.value ∧ v.value ≤ 1 := by
  obtain ⟨a, ha, ra⟩ := every_kind_realises (P := P) c.ma.kind c.ma.length 0 h1
  have hg := hullFn_of_kind (P := P) c.ma.kind c.ma.length 0 s1 h1
  have e1 : c.ma = { kind := c.ma.kind, length := c.ma.length } := rfl
  set s0 : RSI := { cfg := c, previous_input := k0.source c.source, posma := a, negma := a, cross_upper := Cross.new (half, 1 - c.zone), cross_lower := Cross.new (half, c.zone) } with hs0
  have h0 : RSI.init P c k0 = .ok s0 := by
    unfold RSI.init
    rw [if_pos hv, e1, ha]
    rfl
  obtain ⟨os, s', hr, _, hlen, hout⟩ := runM_invariant RSI.vals
    (fun _ s => ∃ gains losses, Realises (specOf c.ma.kind c.ma.length 0) s.posma gains ∧
      Realises (specOf c.ma.kind c.ma.length 0) s.negma losses ∧ (∀ x ∈ gains, 0 ≤ x) ∧ (∀ x ∈ losses, x ≤ 0))
    (fun _ o => ∃ v, o = [v] ∧ 0 ≤ v.value ∧ v.value ≤ 1)
    (by
      rintro _ s k ⟨gains, losses, rp, rn, hgn, hls⟩
      obtain ⟨v, s1', g, l, hvv, a1, a2, rp', rn', hg', hl'⟩ := range_step k rp rn hg hg hgn hls
      exact ⟨_, s1', hvv, ⟨_, _, rp', rn', hg', hl'⟩, v, rfl, a1, a2⟩)
    cs [] s0 ⟨[], [], ra, ra, fun x hx => by simp at hx, fun x hx => by simp at hx⟩
  exact ⟨s0, os, s', h0, hr, hlen, hout⟩

/-- C12 over whole streams after the `fix:` that clamps the quotient: RSI with EVERY kind of moving average (the
    overshooting ones included: HMA, DEMA, TEMA, LinReg), from its constructor, on every candle stream: no step panics and
    the value is in [0, 1] at every step -/
theorem run_range_every_kind {P : Nat} (c : RSICfg) (k0 : Candle ℚ) (hv : RSI.validate c = true)
    (h1 : validLen P c.ma.kind c.ma.length) (cs : List (Candle ℚ)) :
    ∃ s0 outs s', RSI.init P c k0 = .ok s0 ∧ runM RSI.vals s0 cs = .ok (outs, s') ∧ outs.length = cs.length ∧
      ∀ i (hi : i < outs.length), ∃ v, outs[i] = [v] ∧ 0 ≤ v.value ∧ v.value ≤ 1 := by
  obtain ⟨a, ha, ra⟩ := every_kind_realises (P := P) c.ma.kind c.ma.length 0 h1
  have e1 : c.ma = { kind := c.ma.kind, length := c.ma.length } := rfl
  set s0 : RSI := { cfg := c, previous_input := k0.source c.source, posma := a, negma := a, cross_upper := Cross.new (half, 1 - c.zone), cross_lower := Cross.new (half, c.zone) } with hs0
  have h0 : RSI.init P c k0 = .ok s0 := by
    unfold RSI.init
    rw [if_pos hv, e1, ha]
    rfl
  obtain ⟨os, s', hr, _, hlen, hout⟩ := runM_invariant RSI.vals
    (fun _ s => ∃ gains losses, Realises (specOf c.ma.kind c.ma.length 0) s.posma gains ∧
      Realises (specOf c.ma.kind c.ma.length 0) s.negma losses)
    (fun _ o => ∃ v, o = [v] ∧ 0 ≤ v.value ∧ v.value ≤ 1)
    (by
      rintro _ s k ⟨gains, losses, rp, rn⟩
      obtain ⟨v, s1', hvv, _, a1, a2, rp', rn', _, _⟩ := vals_spec k rp rn
      exact ⟨_, s1', hvv, ⟨_, _, rp', rn'⟩, v, rfl, a1, a2⟩)
    cs [] s0 ⟨[], [], ra, ra⟩
  exact ⟨s0, os, s', h0, hr, hlen, hout⟩

end RSI
end Yata.Ind
