/-
  More indicator theorems: reachable-state lifts (Donchian from `init`), Chande momentum running sums,
  Aroon trend counters, RSI / Stochastic composition.
-/
import YataProofs.Indicators.History
import YataProofs.MALaws
import YataProofs.SelectionIndex
import YataProofs.Numeric.StDev
namespace Yata.Ind
open Yata

/-! ### Donchian / price channel from `init` -/
namespace Channel

theorem init_inv {P n : Nat} (σ : ℚ) (k : Candle ℚ) (hn1 : 1 < n) (hn : n ≤ P - 1) :
    ∃ s, Channel.init P n σ true k = .ok s ∧ s.period = n ∧ s.sigma = σ ∧
      Inv P (List.replicate n k.high) (List.replicate n k.low) s := by
  obtain ⟨h, hh, hinv, hw⟩ := Highest.new_spec (β := ℚ) (P := P) k.high (by omega) hn
  obtain ⟨l, hl, linv, lw⟩ := Lowest.new_spec (β := ℚ) (P := P) k.low (by omega) hn
  refine ⟨{ period := n, sigma := σ, highest := h, lowest := l }, ?_, rfl, rfl, ?_⟩
  · simp [Channel.init, hh, hl, Res.bind]
  · refine ⟨hinv, linv, ?_, ?_, by simp, by simp, by show 0 < n; omega⟩
    · show Window.toList h.window = lastN n (List.replicate n k.high)
      rw [hw]; unfold lastN; simp
    · show Window.toList l.window = lastN n (List.replicate n k.low)
      rw [lw]; unfold lastN; simp

/-- C05 (Donchian, every stream): at every step the bounds are extreme elements of the last `n` highs /
    lows of the history `n copies of the first candle ++ candles so far`, and the middle is their mean -/
theorem donchian_run {P n : Nat} (k0 : Candle ℚ) (hn1 : 1 < n) (hn : n ≤ P - 1) (cs : List (Candle ℚ)) :
    ∃ s0 outs s', Channel.init P n 1 true k0 = .ok s0 ∧
      runM (fun s k => Channel.donchianVals s k) s0 cs = .ok (outs, s') ∧ outs.length = cs.length ∧
      ∀ i (hi : i < outs.length), ∃ lo hiV,
        outs[i].map VExp.value = [lo, (hiV + lo) * half, hiV] ∧
        IsMaxOf hiV (lastN n (List.replicate n k0.high ++ (cs.take (i + 1)).map (·.high))) ∧
        IsMinOf lo (lastN n (List.replicate n k0.low ++ (cs.take (i + 1)).map (·.low))) := by
  obtain ⟨s0, h0, hp, _, hinv⟩ := init_inv (P := P) 1 k0 hn1 hn
  obtain ⟨os, s', hr, _, hlen, houts⟩ :=
    runM_invariant (fun s k => Channel.donchianVals s k)
      (fun h s => s.period = n ∧
        Inv P (List.replicate n k0.high ++ h.map (·.high)) (List.replicate n k0.low ++ h.map (·.low)) s)
      (fun h o => ∃ lo hiV, o.map VExp.value = [lo, (hiV + lo) * half, hiV] ∧
        IsMaxOf hiV (lastN n (List.replicate n k0.high ++ h.map (·.high))) ∧
        IsMinOf lo (lastN n (List.replicate n k0.low ++ h.map (·.low))))
      (by
        rintro h s k ⟨hper, hi⟩
        obtain ⟨hiV, lo, s1, hn1, hi1, hmax, hmin, hp1, _⟩ := hl_spec k hi
        refine ⟨[.exact lo, .price ((hiV + lo) * half) 1, .exact hiV], s1, ?_, ⟨by rw [hp1, hper], ?_⟩, lo, hiV, ?_, ?_, ?_⟩
        · simp only [donchianVals, bind, Except.bind, hn1, pure, Except.pure]
        · simpa [List.map_append, List.append_assoc] using hi1
        · simp [VExp.value, VExp.price]
        · simpa [List.map_append, List.append_assoc, hper] using hmax
        · simpa [List.map_append, List.append_assoc, hper] using hmin)
      cs [] s0 ⟨hp, by simpa using hinv⟩
  refine ⟨s0, os, s', h0, hr, hlen, ?_⟩
  intro i hi
  simpa using houts i hi

end Channel

/-! ### Chande momentum oscillator: the running sums are the sums of the positive / negative parts
    of the changes in the window, hence non-negative, hence the value is in [−1, 1] -/
namespace CMO

def posPart (c : ℚ) : ℚ := (CMO.posNeg c).1
def negPart (c : ℚ) : ℚ := (CMO.posNeg c).2

theorem posPart_nonneg (c : ℚ) : 0 ≤ posPart c := by
  unfold posPart CMO.posNeg; dsimp only; split <;> linarith
theorem negPart_nonneg (c : ℚ) : 0 ≤ negPart c := by
  unfold negPart CMO.posNeg; dsimp only; split <;> linarith

structure Inv (P : Nat) (s : CMO) : Prop where
  winv : Window.Inv P s.window
  wpos : 0 < s.window.size
  cinv : Window.Inv P s.change.window
  cpos : 0 < s.change.window.size
  psum : s.pos_sum = ((Window.toList s.window).map posPart).sum
  nsum : s.neg_sum = ((Window.toList s.window).map negPart).sum

theorem sum_map_nonneg (f : ℚ → ℚ) (hf : ∀ c, 0 ≤ f c) (l : List ℚ) : 0 ≤ (l.map f).sum := by
  induction l with
  | nil => simp
  | cons a t ih => simp only [List.map_cons, List.sum_cons]; linarith [hf a]

theorem sum_map_tail_snoc (f : ℚ → ℚ) (l : List ℚ) (old x : ℚ) (h : l.head? = some old) :
    ((l.tail ++ [x]).map f).sum = (l.map f).sum + (f x - f old) := by
  cases l with
  | nil => simp at h
  | cons a t =>
    simp only [List.head?_cons, Option.some.injEq] at h
    subst h
    simp only [List.tail_cons, List.map_append, List.map_cons, List.map_nil, List.sum_append, List.sum_cons,
      List.sum_nil]
    ring

/-- one step from an invariant state: no panic, invariant kept, sums non-negative, value in [−1,1] -/
theorem vals_spec {P : Nat} {s : CMO} (k : Candle ℚ) (h : Inv P s) :
    ∃ v s', s.vals k = .ok ([v], s') ∧ Inv P s' ∧ 0 ≤ s'.pos_sum ∧ 0 ≤ s'.neg_sum ∧
      v.value = (if s'.pos_sum + s'.neg_sum = 0 then 0 else (s'.pos_sum - s'.neg_sum) / (s'.pos_sum + s'.neg_sum)) ∧
      -1 ≤ v.value ∧ v.value ≤ 1 := by
  obtain ⟨prev, cw, hcp, cinv', csz, _, _⟩ := Window.push_spec (k.source s.cfg.source) h.cinv h.cpos
  obtain ⟨old, w', hp, winv', wsz, hhead, htl⟩ := Window.push_spec (k.source s.cfg.source - prev) h.winv h.wpos
  have hps : s.pos_sum + (posPart (k.source s.cfg.source - prev) - posPart old) = ((Window.toList w').map posPart).sum := by
    rw [htl, sum_map_tail_snoc posPart _ old _ hhead, h.psum]
  have hns : s.neg_sum + (negPart (k.source s.cfg.source - prev) - negPart old) = ((Window.toList w').map negPart).sum := by
    rw [htl, sum_map_tail_snoc negPart _ old _ hhead, h.nsum]
  have hp0 : 0 ≤ s.pos_sum + (posPart (k.source s.cfg.source - prev) - posPart old) := by rw [hps]; exact sum_map_nonneg _ posPart_nonneg _
  have hn0 : 0 ≤ s.neg_sum + (negPart (k.source s.cfg.source - prev) - negPart old) := by rw [hns]; exact sum_map_nonneg _ negPart_nonneg _
  let p := s.pos_sum + (posPart (k.source s.cfg.source - prev) - posPart old)
  let n := s.neg_sum + (negPart (k.source s.cfg.source - prev) - negPart old)
  let s' : CMO := { s with pos_sum := p, neg_sum := n, change := { window := cw }, window := w' }
  have hr := diff_ratio_range p n hp0 hn0
  have hv : (VExp.cquot (p - n) (p + n) (4 * (s.cfg.period : ℚ)) (4 * (s.cfg.period : ℚ)) .price [] (some 0) (-1) 1).value =
      (if p + n = 0 then 0 else (p - n) / (p + n)) := by
    rw [cquot_value]
    by_cases hz : p + n = 0
    · simp [hz]
    · have hr' := hr
      simp only [hz, if_false] at hr'
      simp only [beq_iff_eq, hz, List.any_nil, Bool.or_false, Bool.false_eq_true, if_false]
      exact qclamp_of_mem hr'.1 hr'.2
  refine ⟨.cquot (p - n) (p + n) (4 * (s.cfg.period : ℚ)) (4 * (s.cfg.period : ℚ)) .price [] (some 0) (-1) 1, s', ?_,
    ⟨winv', by show 0 < w'.size; rw [wsz]; exact h.wpos, cinv', by show 0 < cw.size; rw [csz]; exact h.cpos, hps, hns⟩, hp0, hn0, hv, ?_, ?_⟩
  · simp only [CMO.vals, Momentum.next, hcp, bind, Except.bind, hp, pure, Except.pure]
    rfl
  · rw [hv]; exact hr.1
  · rw [hv]; exact hr.2

end CMO

/-! ### Aroon: trend counters and signals -/
namespace Aroon

theorem counter_step (c : Int) (a b : Bool) :
    (c + 1) * sgn a * sgn b = if a && b then c + 1 else 0 := by
  cases a <;> cases b <;> simp [sgn]

/-- C06: the counters count consecutive steps inside the zones, the trend strength is their difference
    over `over_zone_period`, the edge signal fires on a fresh extreme (age 0), the trend signal is the
    crossing of the two Aroon lines -/
theorem sigs_spec (s : Aroon) (up dn : ℚ) (idx : Nat × Nat) :
    let z := s.cfg.signal_zone
    let r := s.sigs [up, dn] idx
    let ut := if decide (1 - z ≤ up) && decide (dn ≤ z) then s.uptrend + 1 else 0
    let dt := if decide (1 - z ≤ dn) && decide (up ≤ z) then s.downtrend + 1 else 0
    r.2.uptrend = ut ∧ r.2.downtrend = dt ∧
    r.1.2.2 = ((ut - dt : Int) : ℚ) / (s.cfg.over_zone_period : ℚ) ∧
    r.1.2.1 = Action.ofI8 (sgn (idx.1 == 0) - sgn (idx.2 == 0)) ∧
    r.1.1 = (s.cross.next (up, dn)).1 := by
  refine ⟨?_, ?_, ?_, ?_, ?_⟩ <;> simp [Aroon.sigs, counter_step]

end Aroon

/-- C05 (Aroon values): from invariant trackers one step returns `(period − age)/period` of the newest highest
    high and of the newest lowest low of the last `period` candles; the trackers stay invariant -/
theorem Aroon.vals_spec {P : Nat} {s : Aroon} (k : Candle ℚ)
    (hh : HighestIndex.Inv P s.highest_index) (hl : LowestIndex.Inv P s.lowest_index) :
    ∃ v hi li s', Aroon.vals P s k = .ok (v, (hi, li), s') ∧
      v.map VExp.value = [((s.cfg.period - hi : Nat) : ℚ) / (s.cfg.period : ℚ), ((s.cfg.period - li : Nat) : ℚ) / (s.cfg.period : ℚ)] ∧
      HighestIndex.Inv P s'.highest_index ∧ LowestIndex.Inv P s'.lowest_index ∧
      hi = s'.highest_index.index ∧ li = s'.lowest_index.index ∧
      Window.toList s'.highest_index.window = (Window.toList s.highest_index.window).tail ++ [k.high] ∧
      Window.toList s'.lowest_index.window = (Window.toList s.lowest_index.window).tail ++ [k.low] ∧ s'.cfg = s.cfg := by
  obtain ⟨hi, h1, hn1, hinv1, ho1, hw1⟩ := HighestIndex.next_spec k.high hh
  obtain ⟨li, l1, hn2, hinv2, ho2, hw2⟩ := LowestIndex.next_spec k.low hl
  refine ⟨[.unit (((s.cfg.period - hi : Nat) : ℚ) / (s.cfg.period : ℚ)) 1, .unit (((s.cfg.period - li : Nat) : ℚ) / (s.cfg.period : ℚ)) 1],
    hi, li, { s with highest_index := h1, lowest_index := l1 }, ?_, ?_, hinv1, hinv2, ho1, ho2, hw1, hw2, rfl⟩
  · simp only [Aroon.vals, bind, Except.bind, hn1, hn2, pure, Except.pure]
  · simp [VExp.value, VExp.unit]

/-- C05 (Bollinger): the centre is the mean and the variance under the bands is the sample variance of the last
    `avg_size` source values; the bands are `centre ± sigma·sqrt(variance)` -/
theorem BB.step_spec {P : Nat} {hist : List ℚ} {s : BB} (k : Candle ℚ) (hn : 2 ≤ s.cfg.avg_size)
    (hm : SMA.Inv P s.cfg.avg_size hist s.ma) (hd : StDev.Inv P s.cfg.avg_size hist s.st_dev) :
    let n := s.cfg.avg_size
    let w := lastN n (hist ++ [k.source s.cfg.source])
    ∃ s', s.step k = .ok (Spec.mean n w, (w.map fun x => (x - Spec.mean n w) * (x - Spec.mean n w)).sum / ((n - 1 : Nat) : ℚ), s') ∧
      SMA.Inv P n (hist ++ [k.source s.cfg.source]) s'.ma ∧ StDev.Inv P n (hist ++ [k.source s.cfg.source]) s'.st_dev ∧
      s'.cfg = s.cfg := by
  intro n w
  obtain ⟨o1, m1, hn1, hi1, ho1⟩ := SMA.next_spec (k.source s.cfg.source) (by omega) hm
  obtain ⟨o2, d1, hn2, hi2, ho2⟩ := StDev.next_spec (k.source s.cfg.source) hn hd
  refine ⟨{ s with ma := m1, st_dev := d1 }, ?_, hi1, hi2, rfl⟩
  simp only [BB.step, bind, Except.bind, hn1, hn2, pure, Except.pure]
  rw [ho1, ho2, StDev.peekVar_eq hn hi2]

/-! ### RSI: value formula and range for an average that keeps non-negative inputs non-negative -/
namespace RSI

theorem vals_spec {fp fn : List ℚ → ℚ} {gains losses : List ℚ} {s : RSI} (k : Candle ℚ)
    (hp : Realises fp s.posma gains) (hn : Realises fn s.negma losses) :
    let src := k.source s.cfg.source
    let g := smax (src - s.previous_input) 0
    let l := smin (src - s.previous_input) 0
    let pos := fp (gains ++ [g])
    let neg := -(fn (losses ++ [l]))
    ∃ v s', s.vals k = .ok ([v], s') ∧
      v.value = (if pos + neg = 0 then half else qclamp (pos / (pos + neg)) 0 1) ∧ 0 ≤ v.value ∧ v.value ≤ 1 ∧
      Realises fp s'.posma (gains ++ [g]) ∧ Realises fn s'.negma (losses ++ [l]) ∧
      s'.previous_input = src ∧ s'.cfg = s.cfg := by
  intro src g l pos neg
  obtain ⟨a, ha, ra⟩ := hp.step g
  obtain ⟨b, hb, rb⟩ := hn.step l
  have hrange := cquot_range pos (pos + neg) (maK s.posma) (2 * maK s.posma) .price [] half 0 1 (by norm_num)
    (by unfold half; constructor <;> norm_num)
  refine ⟨.cquot pos (pos + neg) (maK s.posma) (2 * maK s.posma) .price [] (some half) 0 1,
    { s with previous_input := src, posma := a, negma := b }, ?_, ?_, hrange.1, hrange.2, ra, rb, rfl, rfl⟩
  · simp only [RSI.vals, maNext, bind, Except.bind, ha, hb, pure, Except.pure, src, g, l, pos, neg]
    simp [mul_comm]
  · simp [VExp.value]

/-- for non-negative averages the clamp does nothing -/
theorem value_unclamped (pos neg : ℚ) (h1 : 0 ≤ pos) (h2 : 0 ≤ neg) (hz : pos + neg ≠ 0) :
    qclamp (pos / (pos + neg)) 0 1 = pos / (pos + neg) := by
  have hpos : 0 < pos + neg := lt_of_le_of_ne (by linarith) (Ne.symm hz)
  exact qclamp_of_mem (div_nonneg h1 hpos.le) (by rw [div_le_one hpos]; linarith)

/-- C12: with non-negative `pos` and `neg` the value is in [0,1] -/
theorem value_range (pos neg : ℚ) (h1 : 0 ≤ pos) (h2 : 0 ≤ neg) :
    0 ≤ (if pos + neg = 0 then half else pos / (pos + neg)) ∧ (if pos + neg = 0 then half else pos / (pos + neg)) ≤ 1 := by
  have := ratio_range pos neg h1 h2
  simpa [VExp.value] using this

end RSI

end Yata.Ind
