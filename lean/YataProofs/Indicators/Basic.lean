/-
  Indicator models (YataModel/Indicators.lean) in exact rational arithmetic:
  one-step facts that need no history — value formulas behind their guards, ranges of the quotients,
  the stateless signal rules, the Parabolic SAR flip rule and side invariant.
-/
import YataProofs.Candle
import YataProofs.Cross
import YataModel.Indicators
import Mathlib.Algebra.Order.Field.Rat
import Mathlib.Algebra.Order.Ring.Rat
import Mathlib.Tactic.Positivity
import Mathlib.Tactic.NormNum
import Mathlib.Tactic.Linarith
import Mathlib.Tactic.FieldSimp
import Mathlib.Tactic.SplitIfs
namespace Yata.Ind
open Yata

/-! ### quotients behind exact guards -/

/-- `pos/(pos+neg)` with the `0.5` guard (RSI) stays in [0,1] when both averages are non-negative -/
theorem ratio_range (p n : ℚ) (hp : 0 ≤ p) (hn : 0 ≤ n) :
    0 ≤ (VExp.quot p (p + n) 1 2 .price [] (some half)).value ∧
    (VExp.quot p (p + n) 1 2 .price [] (some half)).value ≤ 1 := by
  unfold VExp.value
  by_cases h : p + n = 0
  · simp [h, half]; norm_num
  · have hpos : 0 < p + n := lt_of_le_of_ne (by linarith) (Ne.symm h)
    simp only [beq_iff_eq, h, List.any_nil, Bool.or_false, ↓reduceIte]
    constructor
    · positivity
    · rw [div_le_one hpos]; linarith

/-- the value does not depend on the allowance annotations -/
theorem quot_value (n d κn κd : ℚ) (sc : Scale) (g : List ℚ) (alt : Option ℚ) :
    (VExp.quot n d κn κd sc g alt).value = if d == 0 || g.any (· == 0) then alt.getD 0 else n / d := rfl

/-- the code's `.clamp(lo, hi)` keeps a value of the range as it is … -/
theorem qclamp_of_mem {x lo hi : ℚ} (h1 : lo ≤ x) (h2 : x ≤ hi) : qclamp x lo hi = x := by
  unfold qclamp
  rw [if_neg (not_lt.mpr h1), if_neg (not_lt.mpr h2)]

/-- … and puts every other value on the nearer end: the result is in the range whatever the operand is -/
theorem qclamp_range (x : ℚ) {lo hi : ℚ} (h : lo ≤ hi) : lo ≤ qclamp x lo hi ∧ qclamp x lo hi ≤ hi := by
  unfold qclamp
  split
  · exact ⟨le_refl _, h⟩
  · split
    · exact ⟨h, le_refl _⟩
    · rename_i a b; exact ⟨not_lt.mp a, not_lt.mp b⟩

theorem cquot_value (n d κn κd : ℚ) (sc : Scale) (g : List ℚ) (alt : Option ℚ) (lo hi : ℚ) :
    (VExp.cquot n d κn κd sc g alt lo hi).value = if d == 0 || g.any (· == 0) then alt.getD 0 else qclamp (n / d) lo hi := rfl

/-- a clamped quotient is in its range for ALL operands (rounding residue of either sign included), provided the value
    returned by the guard is -/
theorem cquot_range (n d κn κd : ℚ) (sc : Scale) (g : List ℚ) (a lo hi : ℚ) (h : lo ≤ hi) (ha : lo ≤ a ∧ a ≤ hi) :
    lo ≤ (VExp.cquot n d κn κd sc g (some a) lo hi).value ∧ (VExp.cquot n d κn κd sc g (some a) lo hi).value ≤ hi := by
  rw [cquot_value]
  split
  · simpa using ha
  · exact qclamp_range _ h

/-- `(p−n)/(p+n)` with the `0` guard (CMO) stays in [−1,1] for non-negative sums -/
theorem diff_ratio_range (p n : ℚ) (hp : 0 ≤ p) (hn : 0 ≤ n) :
    -1 ≤ (if p + n = 0 then 0 else (p - n) / (p + n)) ∧ (if p + n = 0 then 0 else (p - n) / (p + n)) ≤ 1 := by
  by_cases h : p + n = 0
  · simp [h]
  · have hpos : 0 < p + n := lt_of_le_of_ne (by linarith) (Ne.symm h)
    simp only [h, ↓reduceIte]
    constructor
    · rw [le_div_iff₀ hpos]; linarith
    · rw [div_le_one hpos]; linarith

/-- money-flow index value `pmf/(pmf+nmf)` (`1/2` when there is no negative flow): in [0,1] -/
theorem mfi_range (p n : ℚ) (hp : 0 ≤ p) (hn : 0 ≤ n) :
    0 ≤ (if n = 0 then half else p / (p + n)) ∧ (if n = 0 then half else p / (p + n)) ≤ 1 := by
  by_cases h : n = 0
  · simp [h, half]; norm_num
  · have hpos : 0 < p + n := by
      have : 0 < n := lt_of_le_of_ne hn (Ne.symm h)
      linarith
    simp only [h, ↓reduceIte]
    constructor
    · positivity
    · rw [div_le_one hpos]; linarith

/-- `1 − 1/(1 + pmf/nmf)`, the expression in the source, is `pmf/(pmf+nmf)` -/
theorem mfi_formula (p n : ℚ) (hp : 0 ≤ p) (hn : 0 < n) : 1 - 1 / (1 + p / n) = p / (p + n) := by
  have h1 : n ≠ 0 := ne_of_gt hn
  have h2 : p + n ≠ 0 := by positivity
  have h3 : 1 + p / n ≠ 0 := by positivity
  field_simp
  ring

/-- raw stochastic `%K`: inside [0,1] whenever the close lies inside the channel -/
theorem kRows_range (close hi lo : ℚ) (h1 : lo ≤ close) (h2 : close ≤ hi) :
    0 ≤ Stoch.kRows close hi lo ∧ Stoch.kRows close hi lo ≤ 1 := by
  unfold Stoch.kRows
  by_cases h : hi = lo
  · simp [h, half]; norm_num
  · have hpos : 0 < hi - lo := by
      have : lo ≤ hi := le_trans h1 h2
      have : lo ≠ hi := fun e => h e.symm
      have : lo < hi := lt_of_le_of_ne ‹lo ≤ hi› this
      linarith
    simp only [beq_iff_eq, h, ↓reduceIte]
    constructor
    · apply div_nonneg <;> linarith
    · rw [div_le_one hpos]; linarith

/-- Aroon values `(period − age)/period` are in [0,1] -/
theorem aroon_value_range (p age : Nat) (hp : 0 < p) :
    (0 : ℚ) ≤ ((p - age : Nat) : ℚ) / (p : ℚ) ∧ ((p - age : Nat) : ℚ) / (p : ℚ) ≤ 1 := by
  have hpq : (0 : ℚ) < (p : ℚ) := by exact_mod_cast hp
  constructor
  · positivity
  · rw [div_le_one hpq]
    exact_mod_cast Nat.sub_le p age

/-! ### stateless signal rules -/

theorem ofI8_sgn_sub (a b : Bool) :
    Action.ofI8 (sgn a - sgn b) =
      if a && !b then Action.buyAll else if b && !a then Action.sellAll else Action.none := by
  cases a <;> cases b <;> simp [sgn, Action.ofI8]

/-- Donchian: buy iff the high touches the upper bound and the low does not touch the lower one,
    sell in the mirrored case, nothing when both or neither touch -/
theorem donchian_signal (k : Candle ℚ) (lo mid hi : ℚ) :
    Channel.donchianSig k [lo, mid, hi] =
      if hi ≤ k.high ∧ ¬ k.low ≤ lo then Action.buyAll
      else if k.low ≤ lo ∧ ¬ hi ≤ k.high then Action.sellAll else Action.none := by
  unfold Channel.donchianSig
  rw [ofI8_sgn_sub]
  simp only [List.getD_cons_succ, List.getD_cons_zero, Bool.and_eq_true, decide_eq_true_eq,
    Bool.not_eq_true', decide_eq_false_iff_not]

theorem priceChannel_signal (k : Candle ℚ) (up lo : ℚ) :
    Channel.priceChannelSig k [up, lo] =
      if up ≤ k.high ∧ ¬ k.low ≤ lo then Action.buyAll
      else if k.low ≤ lo ∧ ¬ up ≤ k.high then Action.sellAll else Action.none := by
  unfold Channel.priceChannelSig
  rw [ofI8_sgn_sub]
  simp only [List.getD_cons_succ, List.getD_cons_zero, Bool.and_eq_true, decide_eq_true_eq,
    Bool.not_eq_true', decide_eq_false_iff_not]

/-- Envelopes: buy below the lower envelope, sell above the upper one -/
theorem envelopes_signal (up lo src2 : ℚ) :
    Env.sig [up, lo, src2] =
      if src2 < lo ∧ ¬ up < src2 then Action.buyAll
      else if up < src2 ∧ ¬ src2 < lo then Action.sellAll else Action.none := by
  unfold Env.sig
  rw [ofI8_sgn_sub]
  simp only [List.getD_cons_succ, List.getD_cons_zero, Bool.and_eq_true, decide_eq_true_eq,
    Bool.not_eq_true', decide_eq_false_iff_not]

/-! ### Parabolic SAR -/
namespace SAR

/-- the trend is always `+1` or `−1` -/
def Inv (s : SAR) : Prop := s.trend = 1 ∨ s.trend = -1

theorem init_inv (a b : ℚ) (k : Candle ℚ) (s : SAR) (h : SAR.init a b k = .ok s) : Inv s := by
  unfold SAR.init at h
  split at h
  · injection h with h; subst h; exact Or.inl rfl
  · cases h

/-- the state after the flip test of `next` (first half of the function) -/
def afterFlip (s : SAR) (k : Candle ℚ) : SAR :=
  if s.trend > 0 then
    let s' := if s.high < k.high then { s with high := k.high, trend_inc := s.trend_inc + 1 } else s
    if k.low < s'.sar then { s' with trend := -s'.trend, low := k.low, trend_inc := 1, sar := s'.high } else s'
  else if s.trend < 0 then
    let s' := if k.low < s.low then { s with low := k.low, trend_inc := s.trend_inc + 1 } else s
    if s'.sar < k.high then { s' with trend := -s'.trend, high := k.high, trend_inc := 1, sar := s'.low } else s'
  else s

theorem next_values (s : SAR) (k : Candle ℚ) :
    ((s.next k).1.1.map VExp.value) = [(afterFlip s k).sar, ((afterFlip s k).trend : ℚ)] := by
  simp only [SAR.next, afterFlip, List.map_cons, List.map_nil, VExp.value, VExp.price]

/-- C12: the returned SAR is on the far side of the candle: not above the low in an up-trend, not
    below the high in a down-trend; and the trend stays ±1 -/
theorem next_side (s : SAR) (k : Candle ℚ) (hi : Inv s) (hv : k.low ≤ k.high) (hh : s.low ≤ s.high → True) :
    let a := afterFlip s k
    (a.trend = 1 ∨ a.trend = -1) ∧
    (a.trend = 1 → a.sar ≤ k.low) ∧ (a.trend = -1 → k.high ≤ a.sar) := by
  intro a
  rcases hi with h1 | h1
  · -- up-trend before the step
    have ht : s.trend > 0 := by omega
    by_cases hhigh : s.high < k.high
    · by_cases hflip : k.low < s.sar
      · have ha : a = { s with high := k.high, trend_inc := 1, trend := -s.trend, low := k.low, sar := k.high } := by
          simp [a, afterFlip, ht, hhigh, hflip]
        rw [ha]
        simp [h1]
      · have ha : a = { s with high := k.high, trend_inc := s.trend_inc + 1 } := by
          simp [a, afterFlip, ht, hhigh, hflip]
        rw [ha]
        refine ⟨Or.inl h1, fun _ => not_lt.mp hflip, fun h => by simp [h1] at h⟩
    · by_cases hflip : k.low < s.sar
      · have ha : a = { s with trend := -s.trend, low := k.low, trend_inc := 1, sar := s.high } := by
          simp [a, afterFlip, ht, hhigh, hflip]
        rw [ha]
        refine ⟨Or.inr (by simp [h1]), fun h => by simp [h1] at h, fun _ => not_lt.mp hhigh⟩
      · have ha : a = s := by simp [a, afterFlip, ht, hhigh, hflip]
        rw [ha]
        refine ⟨Or.inl h1, fun _ => not_lt.mp hflip, fun h => by omega⟩
  · have ht : ¬ s.trend > 0 := by omega
    have ht' : s.trend < 0 := by omega
    by_cases hlow : k.low < s.low
    · by_cases hflip : s.sar < k.high
      · have ha : a = { s with low := k.low, trend_inc := 1, trend := -s.trend, high := k.high, sar := k.low } := by
          simp [a, afterFlip, ht, ht', hlow, hflip]
        rw [ha]
        simp [h1]
      · have ha : a = { s with low := k.low, trend_inc := s.trend_inc + 1 } := by
          simp [a, afterFlip, ht, ht', hlow, hflip]
        rw [ha]
        refine ⟨Or.inr h1, fun h => by simp [h1] at h, fun _ => not_lt.mp hflip⟩
    · by_cases hflip : s.sar < k.high
      · have ha : a = { s with trend := -s.trend, high := k.high, trend_inc := 1, sar := s.low } := by
          simp [a, afterFlip, ht, ht', hlow, hflip]
        rw [ha]
        refine ⟨Or.inl (by simp [h1]), fun _ => not_lt.mp hlow, fun h => by simp [h1] at h⟩
      · have ha : a = s := by simp [a, afterFlip, ht, ht', hlow, hflip]
        rw [ha]
        refine ⟨Or.inr h1, fun h => by omega, fun _ => not_lt.mp hflip⟩

/-- the invariant is preserved, and the next state remembers the returned trend -/
theorem next_inv (s : SAR) (k : Candle ℚ) (hi : Inv s) (hv : k.low ≤ k.high) :
    Inv (s.next k).2 ∧ (s.next k).2.prev_trend = (afterFlip s k).trend := by
  have h := (next_side s k hi hv (fun _ => trivial)).1
  constructor
  · show (s.next k).2.trend = 1 ∨ (s.next k).2.trend = -1
    simpa [SAR.next, afterFlip] using h
  · simp [SAR.next, afterFlip]

/-- C06: the signal fires exactly when the returned trend differs from the previously returned one,
    in the direction of the new trend -/
theorem next_signal (s : SAR) (k : Candle ℚ) (hi : Inv s) (hv : k.low ≤ k.high) :
    (s.next k).1.2 =
      if s.prev_trend = (afterFlip s k).trend then Action.none
      else if (afterFlip s k).trend = 1 then Action.buyAll else Action.sellAll := by
  have h := (next_side s k hi hv (fun _ => trivial)).1
  have e : (s.next k).1.2 =
      Action.ofI8 ((if (afterFlip s k).prev_trend ≠ (afterFlip s k).trend then 1 else 0) * (afterFlip s k).trend) := by
    simp [SAR.next, afterFlip]
  have hp : (afterFlip s k).prev_trend = s.prev_trend := by
    simp only [afterFlip]
    split_ifs <;> rfl
  rw [e, hp]
  by_cases heq : s.prev_trend = (afterFlip s k).trend
  · simp [heq, Action.ofI8]
  · rcases h with h | h
    · rw [h] at heq ⊢; simp [heq, Action.ofI8]
    · rw [h] at heq ⊢; simp [heq, Action.ofI8]

end SAR

/-! ### dispersion measures -/

theorem stdev_var_nonneg (s : StDev ℚ) : 0 ≤ s.peekVar := by
  unfold StDev.peekVar
  rw [sabs_eq_abs]
  exact abs_nonneg _

/-- Bollinger: the model's band half-width is `sigma·sqrt(var)` with `var ≥ 0`, so for `sigma > 0`
    upper ≥ middle ≥ lower -/
theorem bb_var_nonneg (s : BB) (k : Candle ℚ) (mid var : ℚ) (s' : BB) (h : s.step k = .ok (mid, var, s')) : 0 ≤ var := by
  unfold BB.step at h
  simp only [bind, Except.bind] at h
  split at h
  · cases h
  · rename_i a ha
    split at h
    · cases h
    · rename_i b hb
      simp only [pure, Except.pure, Except.ok.injEq, Prod.mk.injEq] at h
      obtain ⟨_, hvar, _⟩ := h
      rw [← hvar]
      unfold StDev.next at hb
      split at hb
      · cases hb
      · simp only [Except.ok.injEq] at hb
        rw [← hb]
        exact stdev_var_nonneg _

theorem tr_nonneg (c : Candle ℚ) (p : ℚ) (h : c.low ≤ c.high) : 0 ≤ c.trClose p := by
  unfold Candle.trClose
  rw [smax_eq_max, smin_eq_min]
  have : min c.low p ≤ max c.high p := le_trans (min_le_left _ _) (le_trans h (le_max_left _ _))
  linarith

end Yata.Ind
