/-
  Average directional index over whole histories: the averaged true range, the averaged directional movements against the
  candle `period1` steps back, their quotients, and the average of |+DI − −DI| / (+DI + −DI).
-/
import YataProofs.Indicators.History
import YataProofs.Numeric.Common
import YataModel.Indicators2
namespace Yata.Ind
open Yata

namespace ADX

/-- histories: candles consumed, true ranges fed, directional movements fed (not fed while the averaged true range is
    zero), and the inputs of the final average -/
structure Inv (P n : Nat) (gT gP gM gA : List ℚ → ℚ) (cs : List (Candle ℚ)) (trs pdms mdms ts : List ℚ) (s : ADX) : Prop where
  pos : 0 < n
  win : Tracks P n s.window cs
  rT : Realises gT s.tr_ma trs
  rP : Realises gP s.plus_di pdms
  rM : Realises gM s.minus_di mdms
  rA : Realises gA s.ma2 ts

/-- directional movements of candle `k` against the earlier candle `prev` -/
def pdm (k prev : Candle ℚ) : ℚ :=
  if prev.low - k.low < k.high - prev.high ∧ 0 < k.high - prev.high then k.high - prev.high else 0
def mdm (k prev : Candle ℚ) : ℚ :=
  if k.high - prev.high < prev.low - k.low ∧ 0 < prev.low - k.low then prev.low - k.low else 0

/-- the input of the final average as the code computes it (after the `fix:` that guards `s <= 0` and clamps to 1) -/
def tOf (plus minus : ℚ) : ℚ := if plus + minus ≤ 0 then 0 else min (|plus - minus| / (plus + minus)) 1

/-- whatever the two quotients are (rounding residue of either sign included) the final average is fed a value of [0, 1] -/
theorem tOf_range (plus minus : ℚ) : 0 ≤ tOf plus minus ∧ tOf plus minus ≤ 1 := by
  unfold tOf
  split
  · exact ⟨le_refl _, by norm_num⟩
  · rename_i h
    push_neg at h
    exact ⟨le_min (div_nonneg (abs_nonneg _) h.le) (by norm_num), min_le_right _ _⟩

/-- for non-negative quotients (the exact ones are) the guard and the clamp change nothing: it is the textbook
    |+DI − −DI| / (+DI + −DI), 0 when both vanish -/
theorem tOf_nonneg {plus minus : ℚ} (hp : 0 ≤ plus) (hm : 0 ≤ minus) :
    tOf plus minus = if plus + minus = 0 then 0 else |plus - minus| / (plus + minus) := by
  unfold tOf
  by_cases hz : plus + minus = 0
  · simp [hz]
  · have hpos : 0 < plus + minus := lt_of_le_of_ne (by linarith) (Ne.symm hz)
    rw [if_neg (not_le.mpr hpos), if_neg hz, min_eq_left]
    rw [div_le_one hpos, abs_le]
    constructor <;> linarith

theorem vals_spec {P n : Nat} {gT gP gM gA : List ℚ → ℚ} {cs : List (Candle ℚ)} {trs pdms mdms ts : List ℚ} {s : ADX}
    (k : Candle ℚ) (h : Inv P n gT gP gM gA cs trs pdms mdms ts s) :
    ∃ prev, (lastN n cs).head? = some prev ∧
    let trs' := trs ++ [k.trClose s.prev_close]
    let tr := gT trs'
    (tr = 0 →
      ∃ v s', s.vals k none = .ok (v, s', true) ∧ v.map VExp.value = [gA (ts ++ [0]), 0, 0] ∧
        s'.prev_close = s.prev_close ∧ Inv P n gT gP gM gA (cs ++ [k]) trs' pdms mdms (ts ++ [0]) s') ∧
    (tr ≠ 0 →
      let pv := gP (pdms ++ [pdm k prev])
      let mv := gM (mdms ++ [mdm k prev])
      let plus := pv / tr
      let minus := mv / tr
      let t := tOf plus minus
      ∃ v s', s.vals k none = .ok (v, s', false) ∧ v.map VExp.value = [gA (ts ++ [t]), plus, minus] ∧
        s'.prev_close = k.close ∧
        Inv P n gT gP gM gA (cs ++ [k]) trs' (pdms ++ [pdm k prev]) (mdms ++ [mdm k prev]) (ts ++ [t]) s') := by
  obtain ⟨prev, w', hw, tw, hprev⟩ := h.win.push h.pos k
  refine ⟨prev, hprev, ?_⟩
  intro trs' tr
  obtain ⟨tm, htm, rtm⟩ := h.rT.step (k.trClose s.prev_close)
  constructor
  · intro h0
    obtain ⟨a, ha, ra⟩ := h.rA.step 0
    refine ⟨[.approx (gA (ts ++ [0])) (2 * maK s.ma2) (.abs s.mag), .exact 0, .exact 0], { s with window := w', tr_ma := tm, ma2 := a }, ?_, ?_,
      rfl, ⟨h.pos, tw, rtm, h.rP, h.rM, ra⟩⟩
    · have e : (gT (trs ++ [k.trClose s.prev_close]) == 0) = true := by simpa using h0
      simp only [vals, hw, maNext, htm, bind, Except.bind, e, if_true, ha, pure, Except.pure]
    · simp [VExp.value, VExp.unit]
  · intro h0 pv mv plus minus t
    obtain ⟨p, hp, rp⟩ := h.rP.step (pdm k prev)
    obtain ⟨m, hm, rm⟩ := h.rM.step (mdm k prev)
    obtain ⟨a, ha, ra⟩ := h.rA.step t
    refine ⟨[.approx (gA (ts ++ [t])) (2 * maK s.ma2) (.abs (rmax s.mag (rabs t))), .quot pv tr (maK s.tr_ma) (maK s.tr_ma) .price [] none,
             .quot mv tr (maK s.tr_ma) (maK s.tr_ma) .price [] none],
      { s with window := w', prev_close := k.close, tr_ma := tm, plus_di := p, minus_di := m, ma2 := a, mag := rmax s.mag (rabs t) }, ?_, ?_,
      rfl, ⟨h.pos, tw, rtm, rp, rm, ra⟩⟩
    · have e : (gT (trs ++ [k.trClose s.prev_close]) == 0) = false := by simpa using h0
      have et : (if pv / tr + mv / tr ≤ 0 then 0 else rmin (rabs (pv / tr - mv / tr) / (pv / tr + mv / tr)) 1) = t := by
        show _ = tOf plus minus
        unfold tOf
        by_cases hz : plus + minus ≤ 0
        · have : pv / tr + mv / tr ≤ 0 := hz
          simp [hz, this]
        · have : ¬ pv / tr + mv / tr ≤ 0 := hz
          rw [if_neg hz, if_neg this]
          have hab : rabs (pv / tr - mv / tr) = |pv / tr - mv / tr| := by
            unfold rabs
            split
            · rw [abs_of_neg (by assumption)]
            · rw [abs_of_nonneg (by linarith)]
          rw [hab]
          unfold rmin
          show _ = min (|pv / tr - mv / tr| / (pv / tr + mv / tr)) 1
          split
          · rw [min_eq_right (le_of_lt (by assumption))]
          · rw [min_eq_left (by linarith)]
      simp only [vals, hw, maNext, htm, bind, Except.bind, e, fb, pure, Except.pure]
      simp only [pdm, mdm] at hp hm
      simp only [Bool.false_eq_true, if_false, hp, hm]
      simp only [t, plus, minus, pv, mv, tr, trs', pdm, mdm] at et ha
      erw [et, ha]
      rfl
    · simp [VExp.value, VExp.unit, h0]
      exact ⟨rfl, rfl⟩

end ADX
end Yata.Ind
