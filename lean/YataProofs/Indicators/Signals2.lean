/-
  Signal rules (C06) of further indicators, as statements about the model's `sigs` applied to a value list:
  Ichimoku, TrueStrengthIndex, SMIErgodic, RelativeVigorIndex, WoodiesCCI, CommodityChannelIndex, MomentumIndex,
  AverageDirectionalIndex, and the single zero / signal-line crossings (Chaikin oscillator, EoM, EFI, Klinger, KST).
-/
import YataProofs.Indicators.Signals
import YataModel.Indicators2
namespace Yata.Ind
open Yata

/-- the signed crossing value of a `Cross` step as a pair of rule bits -/
def crossI (prev cur : ℚ) : Int := (if crossAboveRule prev cur then 1 else 0) - (if crossUnderRule prev cur then 1 else 0)

theorem cross_next_ofI8 (c : Cross ℚ) (hs : Synced c) (v : ℚ × ℚ) :
    (c.next v).1 = Action.ofI8 (crossI c.up.last_delta (v.1 - v.2)) := by
  obtain ⟨h1, _, _⟩ := Cross.next_def c v
  rw [h1, ← hs]; rfl

/-! ### single crossings -/
theorem ChaikinOsc.sigs_spec (s : ChaikinOsc) (hs : Synced s.cross_over) (v : ℚ) :
    (s.sigs [v]).1 = [Action.ofI8 (crossI s.cross_over.up.last_delta (v - 0))] ∧ Synced (s.sigs [v]).2.cross_over :=
  ⟨by simp only [ChaikinOsc.sigs, List.getD_cons_zero]; rw [cross_next_ofI8 _ hs], rfl⟩

theorem EoM.sigs_spec (s : EoM) (hs : Synced s.cross) (v : ℚ) :
    (s.sigs [v]).1 = [Action.ofI8 (crossI s.cross.up.last_delta (v - 0))] ∧ Synced (s.sigs [v]).2.cross :=
  ⟨by simp only [EoM.sigs, List.getD_cons_zero]; rw [cross_next_ofI8 _ hs], rfl⟩

theorem EFI.sigs_spec (s : EFI) (hs : Synced s.cross_over) (v : ℚ) :
    (s.sigs [v]).1 = [Action.ofI8 (crossI s.cross_over.up.last_delta (v - 0))] ∧ Synced (s.sigs [v]).2.cross_over :=
  ⟨by simp only [EFI.sigs, List.getD_cons_zero]; rw [cross_next_ofI8 _ hs], rfl⟩

theorem KST.sigs_spec (s : KST) (hs : Synced s.cross) (kst sl : ℚ) :
    (s.sigs [kst, sl]).1 = [Action.ofI8 (crossI s.cross.up.last_delta (kst - sl))] ∧ Synced (s.sigs [kst, sl]).2.cross :=
  ⟨by simp only [KST.sigs, List.getD_cons_zero, List.getD_cons_succ]; rw [cross_next_ofI8 _ hs], rfl⟩

theorem Klinger.sigs_spec (s : Klinger) (h1 : Synced s.cross1) (h2 : Synced s.cross2) (ko sl : ℚ) :
    (s.sigs [ko, sl]).1 = [Action.ofI8 (crossI s.cross1.up.last_delta (ko - 0)),
                           Action.ofI8 (crossI s.cross2.up.last_delta (ko - sl))] ∧
    Synced (s.sigs [ko, sl]).2.cross1 ∧ Synced (s.sigs [ko, sl]).2.cross2 :=
  ⟨by simp only [Klinger.sigs, List.getD_cons_zero, List.getD_cons_succ]; rw [cross_next_ofI8 _ h1, cross_next_ofI8 _ h2], rfl, rfl⟩

/-! ### TrueStrengthIndex: zone signal, zero crossing, signal-line crossing -/
theorem TSIx.sigsTSI_spec (s : TSIx) (h1 : Synced s.cross1) (h2 : Synced s.cross2) (tsi sig : ℚ) :
    (s.sigsTSI [tsi, sig]).1 =
      [ Action.sub (if crossUnderRule s.cross_under.last_delta (tsi - -s.cfg.zone) then Action.buyAll else Action.none)
                   (if crossAboveRule s.cross_above.last_delta (tsi - s.cfg.zone) then Action.buyAll else Action.none),
        Action.ofI8 (crossI s.cross1.up.last_delta (tsi - 0)),
        Action.ofI8 (crossI s.cross2.up.last_delta (tsi - sig)) ] := by
  simp only [TSIx.sigsTSI, List.getD_cons_zero, List.getD_cons_succ]
  rw [cross_next_ofI8 _ h1, cross_next_ofI8 _ h2, (CrossUnder.next_def s.cross_under (tsi, -s.cfg.zone)).1,
    (CrossAbove.next_def s.cross_above (tsi, s.cfg.zone)).1]

/-- SMIErgodic: buy when the TSI crosses its signal line upwards while the signal line is below −zone, sell when it
    crosses downwards while the signal line is above +zone -/
theorem TSIx.sigsSMI_spec (s : TSIx) (h1 : Synced s.cross1) (tsi sig : ℚ) :
    (s.sigsSMI [tsi, sig]).1 =
      [ Action.ofI8 (sgn (crossAboveRule s.cross1.up.last_delta (tsi - sig) && decide (sig < -s.cfg.zone)) -
                     sgn (crossUnderRule s.cross1.up.last_delta (tsi - sig) && decide (s.cfg.zone < sig))) ] := by
  have a := analog_pos_iff s.cross1 h1 (tsi, sig)
  have b := analog_neg_iff s.cross1 h1 (tsi, sig)
  simp only [TSIx.sigsSMI, List.getD_cons_zero, List.getD_cons_succ]
  have e1 : decide ((s.cross1.next (tsi, sig)).1.analog > 0) = crossAboveRule s.cross1.up.last_delta (tsi - sig) := by
    cases h : crossAboveRule s.cross1.up.last_delta (tsi - sig) <;> simp [a, h]
  have e2 : decide ((s.cross1.next (tsi, sig)).1.analog < 0) = crossUnderRule s.cross1.up.last_delta (tsi - sig) := by
    cases h : crossUnderRule s.cross1.up.last_delta (tsi - sig) <;> simp [b, h]
  rw [e1, e2]

/-! ### RelativeVigorIndex (as coded; the documentation states the opposite sign for signal 2 — DESIGN §7.1) -/
theorem RVI.sigs_spec (s : RVI) (hs : Synced s.cross) (rvi sig : ℚ) :
    (s.sigs [rvi, sig]).1 =
      [ Action.ofI8 (crossI s.cross.up.last_delta (rvi - sig)),
        Action.ofI8 (sgn (crossUnderRule s.cross.up.last_delta (rvi - sig) && decide (s.zone < rvi) && decide (s.zone < sig)) -
                     sgn (crossAboveRule s.cross.up.last_delta (rvi - sig) && decide (rvi < -s.zone) && decide (sig < -s.zone))) ] := by
  have a := analog_pos_iff s.cross hs (rvi, sig)
  have b := analog_neg_iff s.cross hs (rvi, sig)
  have c := cross_analog s.cross hs (rvi, sig)
  simp only [RVI.sigs, List.getD_cons_zero, List.getD_cons_succ]
  have e1 : decide ((s.cross.next (rvi, sig)).1.analog > 0) = crossAboveRule s.cross.up.last_delta (rvi - sig) := by
    cases h : crossAboveRule s.cross.up.last_delta (rvi - sig) <;> simp [a, h]
  have e2 : decide ((s.cross.next (rvi, sig)).1.analog < 0) = crossUnderRule s.cross.up.last_delta (rvi - sig) := by
    cases h : crossUnderRule s.cross.up.last_delta (rvi - sig) <;> simp [b, h]
  rw [e1, e2, c]
  rfl

/-! ### MomentumIndex, ADX: stateless rules -/
theorem MomIdx.sig_spec (a b : ℚ) :
    MomIdx.sig [a, b] = (if 0 < a ∧ 0 < b then Action.buyAll else if a < 0 ∧ b < 0 then Action.sellAll else Action.none) := by
  simp only [MomIdx.sig, List.getD_cons_zero, List.getD_cons_succ]
  by_cases h1 : 0 < a <;> by_cases h2 : 0 < b <;> by_cases h3 : a < 0 <;> by_cases h4 : b < 0 <;>
    simp [h1, h2, h3, h4, sgn, Action.ofI8] <;> linarith

theorem ADX.sigs_spec (s : ADX) (adx plus minus : ℚ) :
    (s.sigs [adx, plus, minus]) =
      ((if s.zone < adx then (if minus < plus then Action.buyAll else if plus < minus then Action.sellAll else Action.none)
        else Action.none), plus - minus) := by
  simp only [ADX.sigs, List.getD_cons_zero, List.getD_cons_succ]
  by_cases h1 : s.zone < adx <;> by_cases h2 : minus < plus <;> by_cases h3 : plus < minus <;>
    simp [h1, h2, h3, sgn, Action.ofI8] <;> linarith

/-! ### CommodityChannelIndex: enters a zone from inside, not repeated in the same direction -/
theorem CCIInd.sigs_spec (s : CCIInd) (cci : ℚ) :
    let t : Int := sgn (decide (cci < -s.zone) && decide (-s.zone ≤ s.last_cci)) - sgn (decide (s.zone < cci) && decide (s.last_cci ≤ s.zone))
    (s.sigs [cci]).1 = [Action.ofI8 ((if t ≠ 0 ∧ s.last_signal ≠ t then 1 else 0) * t)] ∧
    (s.sigs [cci]).2.last_cci = cci ∧ (s.sigs [cci]).2.last_signal = (if t ≠ 0 ∧ s.last_signal ≠ t then 1 else 0) * t := by
  intro t
  exact ⟨rfl, rfl, rfl⟩

/-! ### WoodiesCCI: the documented rule — the trend CCI has kept its sign for `s1_lag` bars since it crossed zero -/
theorem Woodies.sigs_spec (s : Woodies) (hs : Synced s.s1_cross) (turbo trend : ℚ) :
    let cr := crossI s.s1_cross.up.last_delta (trend - 0)
    let cnt : Int := if cr = 0 then s.s1_count + signi trend else cr
    (s.sigs [turbo, trend]).1 = [Action.ofI8 ((if cnt.natAbs = s.s1_lag then 1 else 0) * Int.sign cnt)] ∧
    (s.sigs [turbo, trend]).2.s1_count = cnt := by
  intro cr cnt
  have c := cross_analog s.s1_cross hs (trend, 0)
  simp only [Woodies.sigs, List.getD_cons_zero, List.getD_cons_succ]
  rw [c]
  exact ⟨rfl, rfl⟩

/-- the counter is the signed number of consecutive bars on one side: it is reset to ±1 by a crossing and then grows by
    the sign of the trend CCI -/
theorem Woodies.count_step (s : Woodies) (hs : Synced s.s1_cross) (turbo trend : ℚ) :
    (crossAboveRule s.s1_cross.up.last_delta (trend - 0) = true → (s.sigs [turbo, trend]).2.s1_count = 1) ∧
    (crossUnderRule s.s1_cross.up.last_delta (trend - 0) = true → (s.sigs [turbo, trend]).2.s1_count = -1) ∧
    (crossAboveRule s.s1_cross.up.last_delta (trend - 0) = false → crossUnderRule s.s1_cross.up.last_delta (trend - 0) = false →
      (s.sigs [turbo, trend]).2.s1_count = s.s1_count + signi trend) := by
  obtain ⟨_, h2⟩ := Woodies.sigs_spec s hs turbo trend
  have hx := cross_rules_exclusive s.s1_cross.up.last_delta (trend - 0)
  refine ⟨fun ha => ?_, fun hu => ?_, fun ha hu => ?_⟩
  · have hu : crossUnderRule s.s1_cross.up.last_delta (trend - 0) = false := by
      cases h : crossUnderRule s.s1_cross.up.last_delta (trend - 0); rfl; exact absurd ⟨ha, h⟩ hx
    have hc : crossI s.s1_cross.up.last_delta (trend - 0) = 1 := by unfold crossI; rw [ha, hu]; rfl
    rw [h2, hc]; rfl
  · have ha : crossAboveRule s.s1_cross.up.last_delta (trend - 0) = false := by
      cases h : crossAboveRule s.s1_cross.up.last_delta (trend - 0); rfl; exact absurd ⟨h, hu⟩ hx
    have hc : crossI s.s1_cross.up.last_delta (trend - 0) = -1 := by unfold crossI; rw [ha, hu]; rfl
    rw [h2, hc]; rfl
  · have hc : crossI s.s1_cross.up.last_delta (trend - 0) = 0 := by unfold crossI; rw [ha, hu]; rfl
    rw [h2, hc]; rfl

/-! ### Ichimoku: both signals need the price beyond the cloud of the matching colour -/
theorem Ichi.sigs_spec (s : Ichi) (h1 : Synced s.cross1) (h2 : Synced s.cross2) (src tenkan kijun a b : ℚ) :
    let above := decide (a < src) && decide (b < src) && decide (b < a)
    let below := decide (src < a) && decide (src < b) && decide (a < b)
    (s.sigs src [tenkan, kijun, a, b]).1 =
      [ Action.ofI8 (sgn (above && crossAboveRule s.cross1.up.last_delta (tenkan - kijun)) -
                     sgn (below && crossUnderRule s.cross1.up.last_delta (tenkan - kijun))),
        Action.ofI8 (sgn (above && crossAboveRule s.cross2.up.last_delta (src - kijun)) -
                     sgn (below && crossUnderRule s.cross2.up.last_delta (src - kijun))) ] := by
  intro above below
  have hx1 := cross_rules_exclusive s.cross1.up.last_delta (tenkan - kijun)
  have hx2 := cross_rules_exclusive s.cross2.up.last_delta (src - kijun)
  have e1 := cross_next_ofI8 s.cross1 h1 (tenkan, kijun)
  have e2 := cross_next_ofI8 s.cross2 h2 (src, kijun)
  simp only [Ichi.sigs, List.getD_cons_zero, List.getD_cons_succ]
  rw [e1, e2]
  -- `ofI8 (crossI …) == buyAll` iff the upward rule holds, `== sellAll` iff the downward one
  have key : ∀ p c : ℚ, ¬ (crossAboveRule p c = true ∧ crossUnderRule p c = true) →
      ((Action.ofI8 (crossI p c) == Action.buyAll) = crossAboveRule p c) ∧
      ((Action.ofI8 (crossI p c) == Action.sellAll) = crossUnderRule p c) := by
    intro p c hx
    cases ha : crossAboveRule p c <;> cases hu : crossUnderRule p c <;>
      simp [crossI, ha, hu, Action.ofI8, Action.buyAll, Action.sellAll] at hx ⊢ <;> decide
  rw [(key _ _ hx1).1, (key _ _ hx1).2, (key _ _ hx2).1, (key _ _ hx2).2]

end Yata.Ind
