import YataProofs.Indicators.Tier2b
import YataProofs.Indicators.HullAll
import YataProofs.Indicators.RealisesEvery
import YataProofs.Numeric.TSIRange
import YataProofs.Runner
import YataProofs.Indicators.MFIRange
namespace Yata
variable {K : Type} [Field K] [LinearOrder K] [IsStrictOrderedRing K]

/-- |double smoothing of the changes| ≤ double smoothing of the absolute changes (for smoothing constants of [0, 1]) -/
theorem tsi_num_le_den (aL aS : K) (aL0 : 0 ≤ aL) (aL1 : aL ≤ 1) (aS0 : 0 ≤ aS) (aS1 : aS ≤ 1) (ch : List K) :
    |Spec.emaRec aS 0 (Spec.series (Spec.emaRec aL 0) ch)| ≤
      Spec.emaRec aS 0 (Spec.series (Spec.emaRec aL 0) (ch.map sabs)) := by
  have hinner : ∀ i ∈ List.range ch.length,
      |Spec.emaRec aL 0 (ch.take (i + 1))| ≤ Spec.emaRec aL 0 ((ch.map sabs).take (i + 1)) := by
    intro i _
    have := emaRec_dom aL aL0 aL1 (ch.take (i + 1)) (fun x => x) sabs 0 0 (by simp)
      (fun x _ => by rw [sabs_eq_abs])
    simpa [List.map_take] using this
  have houter := emaRec_dom aS aS0 aS1 (List.range ch.length)
    (fun i => Spec.emaRec aL 0 (ch.take (i + 1))) (fun i => Spec.emaRec aL 0 ((ch.map sabs).take (i + 1))) 0 0 (by simp) hinner
  simpa [Spec.series] using houter

/-- the guarded quotient of two quantities with |num| ≤ den is in [−1, 1] -/
theorem guarded_quot_range (num den : K) (h : |num| ≤ den) :
    -1 ≤ (if 0 < den then num / den else 0) ∧ (if 0 < den then num / den else 0) ≤ 1 := by
  split
  · rename_i hd
    have := abs_le.mp h
    exact ⟨by rw [le_div_iff₀ hd]; linarith [this.1], by rw [div_le_one hd]; exact this.2⟩
  · constructor <;> norm_num

end Yata

namespace Yata.Ind
open Yata
namespace TSIx

/-- **TrueStrengthIndex / SMIErgodic over whole streams**, from the constructor, every accepted configuration whose
    smoothing average cannot overshoot: no step panics, the TSI value is in [−1, 1] at every step and so is its signal line -/
theorem run_range {P : Nat} (c : TSIxCfg) (smooth : MA) (ok : Bool) (k0 : Candle ℚ) (s0 : TSIx) (smi : Bool)
    (h0 : TSIx.init P c smooth ok k0 = .ok s0)
    (hs : validLen P smooth.kind smooth.length) (sm : smoothKind smooth.kind = true) (cs : List (Candle ℚ)) :
    ∃ outs s', runM (fun s k => s.vals k none smi) s0 cs = .ok (outs, s') ∧ outs.length = cs.length ∧
      ∀ o ∈ outs, ∃ v0 v1 rest, o = v0 :: v1 :: rest ∧ -1 ≤ v0.value ∧ v0.value ≤ 1 ∧ -1 ≤ v1.value ∧ v1.value ≤ 1 := by
  unfold TSIx.init at h0
  split at h0
  swap
  · cases h0
  rename_i hc
  simp only [Bool.and_eq_true, decide_eq_true_eq] at hc
  obtain ⟨⟨⟨⟨⟨⟨⟨_, hp2⟩, hp21⟩, hp1⟩, _⟩, _⟩, _⟩, _⟩ := hc
  have hp2' : c.period2 > 1 := hp2
  have hp21' : c.period2 ≤ c.period1 := hp21
  have hp1' : c.period1 < P := hp1
  obtain ⟨t, ht, hti⟩ := TSI.new_spec (K := ℚ) (P := P) (short := c.period2) (long := c.period1) (k0.source c.source)
    (by omega) (by omega) (by omega) (by omega)
  obtain ⟨m, hm, rm⟩ := every_kind_realises (P := P) smooth.kind smooth.length 0 hs
  have e1 : smooth = { kind := smooth.kind, length := smooth.length } := rfl
  rw [ht] at h0
  rw [e1, hm] at h0
  simp only [Res.bind] at h0
  injection h0 with h0
  set aL : ℚ := ((2 : Nat) : ℚ) / ((c.period1 + 1 : Nat) : ℚ) with haL
  set aS : ℚ := ((2 : Nat) : ℚ) / ((c.period2 + 1 : Nat) : ℚ) with haS
  obtain ⟨aL0, aL1, _, _⟩ := ema_alpha_range (K := ℚ) c.period1 (by omega)
  obtain ⟨aS0, aS1, _, _⟩ := ema_alpha_range (K := ℚ) c.period2 (by omega)
  have hull := hullFn_of_kind (P := P) smooth.kind smooth.length 0 sm hs
  obtain ⟨os, s', hr, _, hlen, hout⟩ := Yata.Ind.MFI.runM_invariant_on (fun (s : TSIx) k => s.vals k none smi) (fun _ => True)
    (fun _ s => ∃ srcs ts, Inv aL aS (k0.source c.source) (specOf smooth.kind smooth.length 0) srcs ts s ∧
      ∀ x ∈ ts, (-1 : ℚ) ≤ x ∧ x ≤ 1)
    (fun o => ∃ v0 v1 rest, o = v0 :: v1 :: rest ∧ -1 ≤ v0.value ∧ v0.value ≤ 1 ∧ -1 ≤ v1.value ∧ v1.value ≤ 1)
    (by
      rintro _ s k _ ⟨srcs, ts, hi, hts⟩
      obtain ⟨s1, hv, hi1, _⟩ := vals_spec k smi hi
      set ch := Spec.changes (k0.source c.source) (srcs ++ [k.source s.cfg.source]) with hch
      set num := Spec.emaRec aS 0 (Spec.series (Spec.emaRec aL 0) ch) with hnum
      set den := Spec.emaRec aS 0 (Spec.series (Spec.emaRec aL 0) (ch.map sabs)) with hden
      have hnd : |num| ≤ den := tsi_num_le_den aL aS aL0 aL1 aS0 aS1 ch
      have hd0 : 0 ≤ den := le_trans (abs_nonneg _) hnd
      have ht := guarded_quot_range num den hnd
      set t : ℚ := if 0 < den then num / den else 0 with htdef
      have hq : (VExp.quot num den 2 2 .price [] (some 0)).value = t := by
        simp only [VExp.value, List.any_nil, Bool.or_false, beq_iff_eq, Option.getD_some]
        by_cases hz : den = 0
        · simp [hz, htdef]
        · have : 0 < den := lt_of_le_of_ne hd0 (Ne.symm hz)
          simp [hz, htdef, this]
      have hall : ∀ x ∈ ts ++ [t], (-1 : ℚ) ≤ x ∧ x ≤ 1 := by
        intro x hx
        rcases List.mem_append.mp hx with hx | hx
        · exact hts x hx
        · simp only [List.mem_singleton] at hx; subst hx; exact ht
      have hg := hull (ts ++ [t]) (-1) 1 (by
        intro x hx
        rcases List.mem_cons.mp hx with rfl | hx
        · constructor <;> norm_num
        · exact hall x hx)
      refine ⟨_, s1, hv, ⟨_, _, hi1, hall⟩, ?_⟩
      cases smi
      · exact ⟨_, _, [], rfl, by rw [hq]; exact ht.1, by rw [hq]; exact ht.2, by simpa [VExp.value, VExp.unit] using hg.1,
          by simpa [VExp.value, VExp.unit] using hg.2⟩
      · exact ⟨_, _, _, rfl, by rw [hq]; exact ht.1, by rw [hq]; exact ht.2, by simpa [VExp.value, VExp.unit] using hg.1,
          by simpa [VExp.value, VExp.unit] using hg.2⟩)
    cs [] s0 (fun _ _ => trivial) ⟨[], [], by rw [← h0]; exact ⟨hti, rm⟩, by simp⟩
  exact ⟨os, s', hr, hlen, hout⟩

end TSIx
end Yata.Ind
