/-
  Keltner channel: the band half-width is sigma times a simple average of true ranges, which are never
  negative for candles with low ≤ high; hence upper ≥ lower from every invariant state.
-/
import YataProofs.Indicators.More
import YataProofs.Numeric.LinVol
namespace Yata.Ind
open Yata

theorem mean_nonneg (n : Nat) (l : List ℚ) (h : ∀ y ∈ l, 0 ≤ y) : 0 ≤ Spec.mean n l := by
  unfold Spec.mean
  apply div_nonneg (sum_nonneg_of_forall l h)
  exact_mod_cast Nat.zero_le n

namespace Keltner

/-- `trs`: the true ranges fed so far (after the `n` copies of `high − low` of the first candle) -/
structure Inv (P : Nat) (hist : List ℚ) (s : Keltner) : Prop where
  sma : SMA.Inv P s.cfg.ma.length hist s.sma
  nonneg : ∀ y ∈ hist, 0 ≤ y
  sigma : 0 < s.cfg.sigma
  pos : 0 < s.cfg.ma.length

theorem vals_order {P : Nat} {hist : List ℚ} {s : Keltner} (k : Candle ℚ) (h : Inv P hist s) (hv : k.low ≤ k.high)
    (m : M) (x : ℚ) (hm : s.ma.next (k.source s.cfg.source) = .ok (x, m)) :
    ∃ src up lo s', s.vals k = .ok ([src, up, lo], s') ∧ lo.value ≤ up.value ∧
      Inv P (hist ++ [k.trClose s.prev_close]) s' := by
  obtain ⟨atr, a, hn, hinv, hatr⟩ := SMA.next_spec (k.trClose s.prev_close) h.pos h.sma
  have htr : 0 ≤ k.trClose s.prev_close := tr_nonneg k _ hv
  have hall : ∀ y ∈ hist ++ [k.trClose s.prev_close], 0 ≤ y := by
    intro y hy
    rcases List.mem_append.mp hy with hy | hy
    · exact h.nonneg y hy
    · simp at hy; rw [hy]; exact htr
  have hatr0 : 0 ≤ atr := by
    rw [hatr]
    apply mean_nonneg
    intro y hy
    exact hall y (List.mem_of_mem_drop hy)
  refine ⟨.exact (k.source s.cfg.source),
    .price (atr * s.cfg.sigma + x) (maK s.ma + 2 * Keltner.vals.ratAbsI s.cfg.sigma),
    .price (atr * (-s.cfg.sigma) + x) (maK s.ma + 2 * Keltner.vals.ratAbsI s.cfg.sigma),
    { s with prev_close := k.close, ma := m, sma := a }, ?_, ?_, ⟨hinv, hall, h.sigma, h.pos⟩⟩
  · simp only [Keltner.vals, maNext, bind, Except.bind, hm, hn, pure, Except.pure]
  · simp only [VExp.value, VExp.price]
    have := h.sigma
    nlinarith

/-- C05: with the configured average realising `f` on the sources so far, the step returns
    `[source, f(sources) + σ·mean(last n true ranges), f(sources) − σ·mean(last n true ranges)]` -/
theorem vals_spec {P : Nat} {f : List ℚ → ℚ} {srcs hist : List ℚ} {s : Keltner} (k : Candle ℚ) (h : Inv P hist s)
    (hr : Realises f s.ma srcs) (hv : k.low ≤ k.high) :
    let x := k.source s.cfg.source
    let trs := hist ++ [k.trClose s.prev_close]
    let atr := Spec.mean s.cfg.ma.length (lastN s.cfg.ma.length trs)
    ∃ v s', s.vals k = .ok (v, s') ∧
      v.map VExp.value = [x, atr * s.cfg.sigma + f (srcs ++ [x]), atr * (-s.cfg.sigma) + f (srcs ++ [x])] ∧
      Inv P trs s' ∧ Realises f s'.ma (srcs ++ [x]) ∧ s'.prev_close = k.close ∧ s'.cfg = s.cfg := by
  intro x trs atr
  obtain ⟨m, hm, rm⟩ := hr.step x
  obtain ⟨atr', a, hn, hinv, hatr⟩ := SMA.next_spec (k.trClose s.prev_close) h.pos h.sma
  have htr : 0 ≤ k.trClose s.prev_close := tr_nonneg k _ hv
  have hall : ∀ y ∈ hist ++ [k.trClose s.prev_close], 0 ≤ y := by
    intro y hy
    rcases List.mem_append.mp hy with hy | hy
    · exact h.nonneg y hy
    · simp at hy; rw [hy]; exact htr
  refine ⟨[.exact x, .price (atr' * s.cfg.sigma + f (srcs ++ [x])) (maK s.ma + 2 * Keltner.vals.ratAbsI s.cfg.sigma),
    .price (atr' * (-s.cfg.sigma) + f (srcs ++ [x])) (maK s.ma + 2 * Keltner.vals.ratAbsI s.cfg.sigma)],
    { s with prev_close := k.close, ma := m, sma := a }, ?_, ?_, ⟨hinv, hall, h.sigma, h.pos⟩, rm, rfl, rfl⟩
  · simp only [Keltner.vals, maNext, bind, Except.bind, x, hm, hn, pure, Except.pure]
  · simp only [List.map_cons, List.map_nil, VExp.value, VExp.price, hatr]
    rfl

end Keltner
end Yata.Ind
