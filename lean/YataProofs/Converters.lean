/-
  Time-series converters: CollapseTimeframe, HeikinAshi (any linear ordered field), Renko (ℚ).
-/
import YataProofs.Candle
import YataProofs.Runner
import YataProofs.Numeric.Common
import YataModel.Methods.Candles
import YataModel.Methods.Renko
import Mathlib.Algebra.Order.Ring.Rat
import Mathlib.Tactic.Positivity
import Mathlib.Tactic.NormNum
namespace Yata
variable {K : Type} [Field K] [LinearOrder K] [IsStrictOrderedRing K]

/-! ## CollapseTimeframe -/

/-- aggregate of a (possibly empty) run of candles -/
def aggregate : List (Candle K) → Option (Candle K)
  | [] => none
  | x :: xs => some (xs.foldl Candle.add x)

theorem aggregate_snoc (l : List (Candle K)) (x : Candle K) :
    aggregate (l ++ [x]) = some (CollapseTimeframe.accumulate (aggregate l) x) := by
  cases l with
  | nil => rfl
  | cons a t => simp [aggregate, CollapseTimeframe.accumulate, List.foldl_append]

namespace CollapseTimeframe

/-- after the inputs `h`: `index` candles are pending, they are the last `index` inputs -/
structure Inv (p : Nat) (h : List (Candle K)) (s : CollapseTimeframe K) : Prop where
  period : s.period = p
  lt : s.index < p
  len : ∃ q, h.length = q * p + s.index
  cur : s.current = aggregate (lastN s.index h)

theorem new_spec (p : Nat) (hp : 0 < p) (c : Candle K) :
    ∃ s, CollapseTimeframe.new p c = .ok s ∧ Inv p [] s := by
  refine ⟨{ current := none, index := 0, period := p }, by simp [CollapseTimeframe.new, Nat.pos_iff_ne_zero.mp hp],
    rfl, hp, ⟨0, by simp⟩, by simp [lastN, aggregate]⟩

theorem new_zero (c : Candle K) : CollapseTimeframe.new 0 c = .err .wrongMethodParameters := rfl

theorem lastN_succ_snoc {α : Type} (k : Nat) (h : List α) (x : α) (hk : k ≤ h.length) :
    lastN (k + 1) (h ++ [x]) = lastN k h ++ [x] := by
  unfold lastN
  have : (h ++ [x]).length - (k + 1) = h.length - k := by simp
  rw [this, List.drop_append_of_le_length (by omega)]

/-- one step: emits exactly when the number of inputs becomes a multiple of the period, and then
    the aggregate of the last `period` inputs -/
theorem next_spec {p : Nat} {h : List (Candle K)} {s : CollapseTimeframe K} (x : Candle K) (hi : Inv p h s) :
    Inv p (h ++ [x]) (s.next x).2 ∧
    (s.next x).1 = (if p ∣ (h ++ [x]).length then aggregate (lastN p (h ++ [x])) else none) := by
  obtain ⟨hper, hlt, ⟨q, hlen⟩, hcur⟩ := hi
  have hk : s.index ≤ h.length := by omega
  have hcur' : some (accumulate s.current x) = aggregate (lastN (s.index + 1) (h ++ [x])) := by
    rw [lastN_succ_snoc _ _ _ hk, aggregate_snoc, hcur]
  have hl : (h ++ [x]).length = q * p + s.index + 1 := by simp [hlen]
  by_cases he : s.index + 1 = s.period
  · -- emission
    have hdvd : p ∣ (h ++ [x]).length := by
      refine ⟨q + 1, ?_⟩
      rw [hl, Nat.mul_comm p (q + 1), Nat.add_mul]; omega
    have hn : s.next x = (some (accumulate s.current x), { s with current := none, index := 0 }) := by
      simp [CollapseTimeframe.next, he]
    rw [hn]
    refine ⟨⟨hper, ?_, ⟨q + 1, ?_⟩, ?_⟩, ?_⟩
    · show 0 < p; omega
    · show (h ++ [x]).length = (q + 1) * p + 0
      rw [hl, Nat.add_mul]; omega
    · show none = aggregate (lastN 0 (h ++ [x]))
      simp [lastN, aggregate]
    · show some (accumulate s.current x) = _
      rw [if_pos hdvd, hcur']; congr 2; omega
  · have hnd : ¬ p ∣ (h ++ [x]).length := by
      rw [hl]
      rintro ⟨k, hk'⟩
      have h1 : s.index + 1 < p := by omega
      have : (q * p + s.index + 1) % p = s.index + 1 := by
        rw [Nat.add_assoc, Nat.mul_comm, Nat.mul_add_mod, Nat.mod_eq_of_lt h1]
      rw [hk', Nat.mul_mod_right] at this
      omega
    have hn : s.next x = (none, { s with current := some (accumulate s.current x), index := s.index + 1 }) := by
      simp [CollapseTimeframe.next, he]
    rw [hn]
    refine ⟨⟨hper, ?_, ⟨q, ?_⟩, ?_⟩, ?_⟩
    · show s.index + 1 < p; omega
    · show (h ++ [x]).length = q * p + (s.index + 1)
      rw [hl]; omega
    · exact hcur'
    · show none = _
      rw [if_neg hnd]

end CollapseTimeframe

/-! ## HeikinAshi -/
namespace HeikinAshi

/-- a valid candle in, a valid candle out — as long as the carried open is positive, which the
    recursion itself preserves -/
theorem next_valid (s : HeikinAshi K) (c : Candle K) (hs : 0 < s.next_open)
    (hv : c.validateFinite = true) :
    (s.next c).1.validateFinite = true ∧ 0 < (s.next c).2.next_open ∧ (s.next c).1.volume = c.volume := by
  rw [Candle.validateFinite_iff] at hv ⊢
  obtain ⟨h1, h2, h3, h4, h5, h6, h7, h8, h9⟩ := hv
  have hoc : c.low ≤ c.ohlc4 ∧ c.ohlc4 ≤ c.high ∧ 0 < c.ohlc4 := by
    have e : c.ohlc4 = (c.high + c.low + c.close + c.open_) / 4 := (Candle.formulas c).2.2.1
    rw [e]
    refine ⟨?_, ?_, by positivity⟩
    · rw [le_div_iff₀ (by norm_num)]; linarith
    · rw [div_le_iff₀ (by norm_num)]; linarith
  simp only [HeikinAshi.next, smax_eq_max, smin_eq_min]
  refine ⟨⟨min_le_right _ _, le_max_right _ _, ?_, ?_, hs, ?_, ?_, hoc.2.2, h9⟩, ?_, trivial⟩
  · exact le_trans (min_le_left _ _) hoc.1
  · exact le_trans hoc.2.1 (le_max_left _ _)
  · exact lt_of_lt_of_le hs (le_max_right _ _)
  · exact lt_min h7 hs
  · have : (0 : K) < s.next_open + c.ohlc4 := by linarith [hoc.2.2]
    have h2' : (0 : K) < 1 / ((2 : ℕ) : K) := by positivity
    exact mul_pos this h2'

theorem new_pos (c : Candle K) (hv : c.validateFinite = true) : 0 < (HeikinAshi.new c).next_open := by
  rw [Candle.validateFinite_iff] at hv
  obtain ⟨h1, h2, h3, h4, h5, h6, h7, h8, h9⟩ := hv
  have e : c.ohlc4 = (c.high + c.low + c.close + c.open_) / 4 := (Candle.formulas c).2.2.1
  simp only [HeikinAshi.new, e]; positivity

end HeikinAshi

/-! ## Renko (exact rational arithmetic) -/
namespace Renko

structure Inv (s : Renko) : Prop where
  b_pos : 0 < s.brick_size
  b_lt : s.brick_size < 1
  ll_pos : 0 < s.last_block_lower
  le : s.last_block_lower ≤ s.last_block_upper
  nu : s.next_block_upper = s.last_block_upper * (1 + s.brick_size)
  nl : s.next_block_lower = s.last_block_lower * (1 - s.brick_size)

theorem truncNat_ge_one {q : ℚ} (h : 1 ≤ q) : 1 ≤ truncNat q := by
  unfold truncNat
  have : (1 : ℤ) ≤ q.floor := Rat.le_floor_iff.mpr (by exact_mod_cast h)
  omega

theorem truncNat_le {q : ℚ} (h : 0 ≤ q) : ((truncNat q : ℕ) : ℚ) ≤ q := by
  unfold truncNat
  have h0 : (0 : ℤ) ≤ q.floor := Rat.le_floor_iff.mpr (by exact_mod_cast h)
  have : ((q.floor.toNat : ℕ) : ℤ) = q.floor := Int.toNat_of_nonneg h0
  calc ((q.floor.toNat : ℕ) : ℚ) = ((q.floor.toNat : ℤ) : ℚ) := by norm_cast
    _ = (q.floor : ℚ) := by rw [this]
    _ ≤ q := Rat.floor_le q

theorem lt_truncNat_add_one (q : ℚ) (h : 0 ≤ q) : q < ((truncNat q : ℕ) : ℚ) + 1 := by
  unfold truncNat
  have h0 : (0 : ℤ) ≤ q.floor := Rat.le_floor_iff.mpr (by exact_mod_cast h)
  have e : ((q.floor.toNat : ℕ) : ℤ) = q.floor := Int.toNat_of_nonneg h0
  have : q.floor < q.floor + 1 := by omega
  have := Rat.floor_lt_iff.mp this
  calc q < ((q.floor + 1 : ℤ) : ℚ) := this
    _ = ((q.floor.toNat : ℕ) : ℚ) + 1 := by push_cast; rw [← e]; norm_cast

/-- rising branch: reaching the boundary means at least one whole brick in exact arithmetic (the
    `.max(1)` guard is only ever needed against rounding); the new state is consistent and no
    further brick is pending at this price -/
theorem next_up (s : Renko) (c : Candle ℚ) (h : Inv s) (hv : s.next_block_upper ≤ c.source s.src) :
    ∃ o, (s.next c).1 = some o ∧
      1 ≤ truncNat ((c.source s.src - s.last_block_upper) / s.last_block_upper / s.brick_size) ∧
      o.len = truncNat ((c.source s.src - s.last_block_upper) / s.last_block_upper / s.brick_size) ∧
      o.base_line = s.last_block_upper ∧ o.brick_size = s.brick_size ∧
      Inv (s.next c).2 ∧ (s.next c).2.volume = 0 ∧
      c.source s.src < (s.next c).2.next_block_upper ∧
      o.totalVolume = s.volume + c.volume := by
  obtain ⟨hb, hb1, hll, hle, hnu, hnl⟩ := h
  have hlu : 0 < s.last_block_upper := lt_of_lt_of_le hll hle
  set value := c.source s.src with hvalue
  set q := (value - s.last_block_upper) / s.last_block_upper / s.brick_size with hq
  have hq1 : 1 ≤ q := by
    rw [hq, le_div_iff₀ hb, le_div_iff₀ hlu]
    rw [hnu] at hv; nlinarith
  have hq0 : 0 ≤ q := by linarith
  have hlen1 := truncNat_ge_one hq1
  have hmax : max (truncNat q) 1 = truncNat q := max_eq_left hlen1
  have hL : (1 : ℚ) ≤ (truncNat q : ℚ) := by exact_mod_cast hlen1
  have hLq := truncNat_le hq0
  have hLq1 := lt_truncNat_add_one q hq0
  have hval : value = s.last_block_upper * (1 + s.brick_size * q) := by
    rw [hq]; field_simp; ring
  have hcast : (((truncNat q - 1 : ℕ)) : ℚ) = (truncNat q : ℚ) - 1 := by
    rw [Nat.cast_sub hlen1]; simp
  have hn : s.next c =
      (some { len := truncNat q, brick_size := s.brick_size, base_line := s.last_block_upper,
              block_volume := (s.volume + c.volume) / (truncNat q : ℚ) },
       { s with last_block_upper := s.last_block_upper * (1 + s.brick_size * (truncNat q : ℚ)),
                last_block_lower := s.last_block_upper * (1 + s.brick_size * ((truncNat q - 1 : ℕ) : ℚ)),
                next_block_upper := s.last_block_upper * (1 + s.brick_size * (truncNat q : ℚ)) * (1 + s.brick_size),
                next_block_lower := s.last_block_upper * (1 + s.brick_size * ((truncNat q - 1 : ℕ) : ℚ)) * (1 - s.brick_size),
                volume := 0 }) := by
    unfold Renko.next
    simp only [← hvalue, hv, ↓reduceIte, ← hq, hmax]
  rw [hn]
  refine ⟨_, rfl, hlen1, rfl, rfl, rfl, ⟨hb, hb1, ?_, ?_, rfl, rfl⟩, rfl, ?_, ?_⟩
  · show 0 < s.last_block_upper * (1 + s.brick_size * ((truncNat q - 1 : ℕ) : ℚ))
    rw [hcast]; apply mul_pos hlu; nlinarith
  · show s.last_block_upper * (1 + s.brick_size * ((truncNat q - 1 : ℕ) : ℚ)) ≤
      s.last_block_upper * (1 + s.brick_size * (truncNat q : ℚ))
    rw [hcast]; apply mul_le_mul_of_nonneg_left _ (le_of_lt hlu); nlinarith
  · show value < s.last_block_upper * (1 + s.brick_size * (truncNat q : ℚ)) * (1 + s.brick_size)
    rw [hval, mul_assoc]
    apply mul_lt_mul_of_pos_left _ hlu
    nlinarith [mul_pos hb hb, mul_pos (mul_pos hb hb) (lt_of_lt_of_le one_pos hL)]
  · show (s.volume + c.volume) / (truncNat q : ℚ) * ((truncNat q : ℕ) : ℚ) = s.volume + c.volume
    have : (truncNat q : ℚ) ≠ 0 := by linarith
    field_simp

/-- falling branch (mirror of `next_up`): reaching the lower boundary means at least one whole brick; the bricks hang
    below the old lower bound, the stored bounds are those of the last emitted brick (`upper = base·(1 − size·(len−1))`,
    `lower = base·(1 − size·len)`), the price has fallen through all of them, the state stays consistent -/
theorem next_down (s : Renko) (c : Candle ℚ) (h : Inv s) (hnu' : ¬ s.next_block_upper ≤ c.source s.src)
    (hv : c.source s.src ≤ s.next_block_lower) (hpos : 0 < c.source s.src) :
    ∃ o, (s.next c).1 = some o ∧
      1 ≤ truncNat ((s.last_block_lower - c.source s.src) / s.last_block_lower / s.brick_size) ∧
      o.len = truncNat ((s.last_block_lower - c.source s.src) / s.last_block_lower / s.brick_size) ∧
      o.base_line = s.last_block_lower ∧ o.brick_size = -s.brick_size ∧
      (s.next c).2.last_block_upper = s.last_block_lower * (1 - s.brick_size * ((o.len - 1 : ℕ) : ℚ)) ∧
      (s.next c).2.last_block_lower = s.last_block_lower * (1 - s.brick_size * (o.len : ℚ)) ∧
      c.source s.src ≤ (s.next c).2.last_block_lower ∧
      Inv (s.next c).2 ∧ (s.next c).2.volume = 0 ∧
      o.totalVolume = s.volume + c.volume := by
  obtain ⟨hb, hb1, hll, hle, hnu, hnl⟩ := h
  set value := c.source s.src with hvalue
  set q := (s.last_block_lower - value) / s.last_block_lower / s.brick_size with hq
  have hq1 : 1 ≤ q := by
    rw [hq, le_div_iff₀ hb, le_div_iff₀ hll]
    rw [hnl] at hv; nlinarith
  have hq0 : 0 ≤ q := by linarith
  have hlen1 := truncNat_ge_one hq1
  have hmax : max (truncNat q) 1 = truncNat q := max_eq_left hlen1
  have hL : (1 : ℚ) ≤ (truncNat q : ℚ) := by exact_mod_cast hlen1
  have hLq := truncNat_le hq0
  have hval : value = s.last_block_lower * (1 - s.brick_size * q) := by
    rw [hq]; field_simp; ring
  have hcast : (((truncNat q - 1 : ℕ)) : ℚ) = (truncNat q : ℚ) - 1 := by
    rw [Nat.cast_sub hlen1]; simp
  -- the new lower bound is still above the (positive) price
  have hge : value ≤ s.last_block_lower * (1 - s.brick_size * (truncNat q : ℚ)) := by
    rw [hval]; apply mul_le_mul_of_nonneg_left _ (le_of_lt hll); nlinarith
  have hn : s.next c =
      (some { len := truncNat q, brick_size := -s.brick_size, base_line := s.last_block_lower,
              block_volume := (s.volume + c.volume) / (truncNat q : ℚ) },
       { s with last_block_upper := s.last_block_lower * (1 - s.brick_size * ((truncNat q - 1 : ℕ) : ℚ)),
                last_block_lower := s.last_block_lower * (1 - s.brick_size * (truncNat q : ℚ)),
                next_block_upper := s.last_block_lower * (1 - s.brick_size * ((truncNat q - 1 : ℕ) : ℚ)) * (1 + s.brick_size),
                next_block_lower := s.last_block_lower * (1 - s.brick_size * (truncNat q : ℚ)) * (1 - s.brick_size),
                volume := 0 }) := by
    unfold Renko.next
    simp only [← hvalue, hnu', hv, ↓reduceIte, ← hq, hmax]
  rw [hn]
  refine ⟨_, rfl, hlen1, rfl, rfl, rfl, rfl, rfl, hge, ⟨hb, hb1, ?_, ?_, rfl, rfl⟩, rfl, ?_⟩
  · show 0 < s.last_block_lower * (1 - s.brick_size * (truncNat q : ℚ))
    exact lt_of_lt_of_le hpos hge
  · show s.last_block_lower * (1 - s.brick_size * (truncNat q : ℚ)) ≤
      s.last_block_lower * (1 - s.brick_size * ((truncNat q - 1 : ℕ) : ℚ))
    rw [hcast]; apply mul_le_mul_of_nonneg_left _ (le_of_lt hll); nlinarith
  · show (s.volume + c.volume) / (truncNat q : ℚ) * ((truncNat q : ℕ) : ℚ) = s.volume + c.volume
    have : (truncNat q : ℚ) ≠ 0 := by linarith
    field_simp

/-- the emitted blocks: `len` of them, contiguous, each of relative size `brick` w.r.t. the base
    line, one direction, equal volumes adding up to the consumed volume -/
theorem blocks_spec (o : RenkoOut) (hlen : 1 ≤ o.len) :
    o.blocks.length = o.len ∧
    (∀ j, j + 1 < o.len → (o.block j).close = (o.block (j + 1)).open_) ∧
    (∀ j, (o.block j).close - (o.block j).open_ = o.brick_size * o.base_line) ∧
    (∀ j, (o.block j).volume = o.block_volume) ∧
    (o.blocks.map (·.volume)).sum = o.totalVolume ∧
    (o.block 0).open_ = o.base_line := by
  refine ⟨by simp [RenkoOut.blocks], ?_, ?_, fun _ => rfl, ?_, by simp [RenkoOut.block]⟩
  · intro j _; simp [RenkoOut.block]
  · intro j; simp only [RenkoOut.block]; push_cast; ring
  · simp only [RenkoOut.blocks, List.map_map, RenkoOut.totalVolume]
    have : (fun b : RenkoBlock => b.volume) ∘ o.block = fun _ => o.block_volume := rfl
    rw [this]
    simp [List.sum_replicate, mul_comm]

end Renko
end Yata
