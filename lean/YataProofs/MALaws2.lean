/-
  C15 for the remaining linear kinds: weighted means with arbitrary (Conv) / triangular (SWMA) weights, volume weights
  (VWMA), the composite TRIMA (SMA of SMA) and HMA (WMA of 2·WMA − WMA): affine equivariance, superposition, and — for
  non-negative weights — containment in the hull of the values.
-/
import YataProofs.MALaws
namespace Yata
variable {K : Type} [Field K] [LinearOrder K] [IsStrictOrderedRing K]

/-- Σ xᵢ·wᵢ -/
def wsum (l ws : List K) : K := (List.zipWith (fun x w => x * w) l ws).sum

theorem wsum_affine (a b : K) (l ws : List K) (h : l.length = ws.length) :
    wsum (l.map fun x => a * x + b) ws = a * wsum l ws + b * ws.sum := by
  unfold wsum
  induction l generalizing ws with
  | nil => cases ws <;> simp_all
  | cons x t ih =>
    cases ws with
    | nil => simp at h
    | cons w u =>
      simp only [List.map_cons, List.zipWith_cons_cons, List.sum_cons, ih u (by simpa using h)]
      ring

theorem wsum_add (l m ws : List K) (h : l.length = m.length) :
    wsum (List.zipWith (· + ·) l m) ws = wsum l ws + wsum m ws := by
  unfold wsum
  induction l generalizing m ws with
  | nil => cases m <;> simp_all
  | cons x t ih =>
    cases m with
    | nil => simp at h
    | cons y u =>
      cases ws with
      | nil => simp
      | cons w v =>
        simp only [List.zipWith_cons_cons, List.sum_cons, ih u v (by simpa using h)]
        ring

theorem wsum_bounds (lo hi : K) (l ws : List K) (h : l.length = ws.length) (hx : ∀ x ∈ l, lo ≤ x ∧ x ≤ hi)
    (hw : ∀ w ∈ ws, 0 ≤ w) : lo * ws.sum ≤ wsum l ws ∧ wsum l ws ≤ hi * ws.sum := by
  unfold wsum
  induction l generalizing ws with
  | nil => cases ws <;> simp_all
  | cons x t ih =>
    cases ws with
    | nil => simp at h
    | cons w u =>
      have hx0 := hx x (by simp)
      have hw0 := hw w (by simp)
      have := ih u (by simpa using h) (fun y hy => hx y (by simp [hy])) (fun y hy => hw y (by simp [hy]))
      simp only [List.zipWith_cons_cons, List.sum_cons]
      constructor <;> nlinarith [this.1, this.2, mul_le_mul_of_nonneg_right hx0.1 hw0, mul_le_mul_of_nonneg_right hx0.2 hw0]

/-! ### Conv -/
theorem conv_eq (ws : List K) (v : K) (xs : List K) :
    Spec.conv ws v xs = wsum (lastN ws.length (history ws.length v xs)) ws / ws.sum := rfl

theorem conv_affine (ws : List K) (hs : ws.sum ≠ 0) (a b v : K) (xs : List K) :
    Spec.conv ws (a * v + b) (xs.map fun x => a * x + b) = a * Spec.conv ws v xs + b := by
  rw [conv_eq, conv_eq, win_map (fun x => a * x + b), wsum_affine a b _ _ (win_length _ _ _)]
  field_simp

theorem conv_superposition (ws : List K) (v w : K) (xs ys : List K) (h : xs.length = ys.length) :
    Spec.conv ws (v + w) (List.zipWith (· + ·) xs ys) = Spec.conv ws v xs + Spec.conv ws w ys := by
  rw [conv_eq, conv_eq, conv_eq, win_zipWith (· + ·) _ v w xs ys h,
    wsum_add _ _ _ (by rw [win_length, win_length]), add_div]

theorem mem_win {α : Type} (n : Nat) (v : α) (xs : List α) (x : α) (h : x ∈ lastN n (history n v xs)) : x ∈ v :: xs := by
  have := List.mem_of_mem_drop h
  simp only [history, List.mem_append, List.mem_replicate] at this
  rcases this with ⟨_, rfl⟩ | hx
  · simp
  · simp [hx]

theorem conv_hull (ws : List K) (hw : ∀ w ∈ ws, 0 ≤ w) (hs : 0 < ws.sum) (v : K) (xs : List K) (lo hi : K)
    (h : ∀ x ∈ v :: xs, lo ≤ x ∧ x ≤ hi) : lo ≤ Spec.conv ws v xs ∧ Spec.conv ws v xs ≤ hi := by
  rw [conv_eq]
  have := wsum_bounds lo hi _ ws (win_length _ v xs) (fun x hx => h x (mem_win _ _ _ _ hx)) hw
  constructor
  · rw [le_div_iff₀ hs]; exact this.1
  · rw [div_le_iff₀ hs]; exact this.2

/-! ### VWMA: affine in the price for fixed volumes -/
theorem vwma_affine (n : Nat) (a b : K) (v : K × K) (xs : List (K × K))
    (hs : ((lastN n (history n v xs)).map fun p => p.2).sum ≠ 0) :
    Spec.vwma n (a * v.1 + b, v.2) (xs.map fun p => (a * p.1 + b, p.2)) = a * Spec.vwma n v xs + b := by
  unfold Spec.vwma
  have hw := win_map (fun p : K × K => (a * p.1 + b, p.2)) n v xs
  rw [hw]
  simp only [List.map_map]
  have e2 : ((fun p : K × K => p.2) ∘ fun p : K × K => (a * p.1 + b, p.2)) = fun p => p.2 := rfl
  rw [e2]
  set l := lastN n (history n v xs)
  have e1 : (l.map ((fun p : K × K => p.1 * p.2) ∘ fun p : K × K => (a * p.1 + b, p.2))).sum =
      a * (l.map fun p => p.1 * p.2).sum + b * (l.map fun p => p.2).sum := by
    induction l with
    | nil => simp
    | cons p t ih => simp only [List.map_cons, List.sum_cons, Function.comp, ih]; ring
  rw [e1]
  field_simp

theorem pv_bounds (lo hi : K) (l : List (K × K)) (hmem : ∀ p ∈ l, lo ≤ p.1 ∧ p.1 ≤ hi ∧ 0 ≤ p.2) :
    lo * (l.map fun p => p.2).sum ≤ (l.map fun p => p.1 * p.2).sum ∧
      (l.map fun p => p.1 * p.2).sum ≤ hi * (l.map fun p => p.2).sum := by
  induction l with
  | nil => simp
  | cons p t ih =>
    have h0 := hmem p (by simp)
    have := ih (fun q hq => hmem q (by simp [hq]))
    simp only [List.map_cons, List.sum_cons]
    constructor <;> nlinarith [this.1, this.2, mul_le_mul_of_nonneg_right h0.1 h0.2.2, mul_le_mul_of_nonneg_right h0.2.1 h0.2.2]

theorem vwma_hull (n : Nat) (v : K × K) (xs : List (K × K)) (lo hi : K)
    (hp : ∀ p ∈ v :: xs, lo ≤ p.1 ∧ p.1 ≤ hi ∧ 0 ≤ p.2)
    (hs : 0 < ((lastN n (history n v xs)).map fun p => p.2).sum) :
    lo ≤ Spec.vwma n v xs ∧ Spec.vwma n v xs ≤ hi := by
  unfold Spec.vwma
  have key := pv_bounds lo hi (lastN n (history n v xs)) (fun p h => hp p (mem_win _ _ _ _ h))
  constructor
  · rw [le_div_iff₀ hs]; exact key.1
  · rw [div_le_iff₀ hs]; exact key.2

/-! ### series of a pointwise-compatible function -/
theorem series_map (f g : List K → K) (φ : K → K) (xs : List K)
    (h : ∀ p : List K, g (p.map φ) = φ (f p)) : Spec.series g (xs.map φ) = (Spec.series f xs).map φ := by
  unfold Spec.series
  simp only [List.length_map, List.map_map]
  apply List.map_congr_left
  intro i _
  simp only [Function.comp, ← List.map_take, h]

theorem series_zipWith (f g k : List K → K) (xs ys : List K) (hl : xs.length = ys.length)
    (h : ∀ p q : List K, p.length = q.length → k (List.zipWith (· + ·) p q) = f p + g q) :
    Spec.series k (List.zipWith (· + ·) xs ys) = List.zipWith (· + ·) (Spec.series f xs) (Spec.series g ys) := by
  unfold Spec.series
  apply List.ext_getElem
  · simp [hl]
  · intro i h1 h2
    simp only [List.getElem_map, List.getElem_range, List.getElem_zipWith, List.take_zipWith]
    exact h _ _ (by simp [hl])

theorem series_length (f : List K → K) (xs : List K) : (Spec.series f xs).length = xs.length := by
  simp [Spec.series]

theorem series_mem (f : List K → K) (xs : List K) :
    ∀ y ∈ Spec.series f xs, ∃ i, y = f (xs.take (i + 1)) := by
  intro y hy
  simp only [Spec.series, List.mem_map] at hy
  obtain ⟨i, _, rfl⟩ := hy
  exact ⟨i, rfl⟩

/-! ### TRIMA = SMA of the SMA series -/
theorem trima_affine (n : Nat) (hn : 0 < n) (a b v : K) (xs : List K) :
    Spec.trima n (a * v + b) (xs.map fun x => a * x + b) = a * Spec.trima n v xs + b := by
  unfold Spec.trima
  rw [series_map (Spec.sma n v) (Spec.sma n (a * v + b)) (fun x => a * x + b) xs
    (fun p => sma_affine n hn a b v p)]
  exact sma_affine n hn a b v _

theorem trima_superposition (n : Nat) (hn : 0 < n) (v w : K) (xs ys : List K) (h : xs.length = ys.length) :
    Spec.trima n (v + w) (List.zipWith (· + ·) xs ys) = Spec.trima n v xs + Spec.trima n w ys := by
  unfold Spec.trima
  rw [series_zipWith (Spec.sma n v) (Spec.sma n w) (Spec.sma n (v + w)) xs ys h
    (fun p q hpq => sma_superposition n hn v w p q hpq)]
  exact sma_superposition n hn v w _ _ (by rw [series_length, series_length, h])

theorem trima_hull (n : Nat) (hn : 0 < n) (v : K) (xs : List K) (lo hi : K)
    (h : ∀ x ∈ v :: xs, lo ≤ x ∧ x ≤ hi) : lo ≤ Spec.trima n v xs ∧ Spec.trima n v xs ≤ hi := by
  unfold Spec.trima
  apply sma_hull n hn v _ lo hi
  intro x hx
  rcases List.mem_cons.mp hx with rfl | hx
  · exact h _ (by simp)
  · obtain ⟨i, rfl⟩ := series_mem (Spec.sma n v) xs x hx
    -- every prefix lies in the hull too
    apply sma_hull n hn v _ lo hi
    intro y hy
    rcases List.mem_cons.mp hy with rfl | hy
    · exact h _ (by simp)
    · exact h y (by simp [List.mem_of_mem_take hy])


/-! ### HMA = WMA(√n) of 2·WMA(n/2) − WMA(n): linear, not range-preserving (it overshoots by design) -/
theorem hma_affine (n : Nat) (h2 : 0 < n / 2) (hs : 0 < Nat.sqrt n) (a b v : K) (xs : List K) :
    Spec.hma n (a * v + b) (xs.map fun x => a * x + b) = a * Spec.hma n v xs + b := by
  have hn : 0 < n := by omega
  unfold Spec.hma
  rw [series_map (fun p => ((2 : Nat) : K) * Spec.wma (n / 2) v p - Spec.wma n v p)
    (fun p => ((2 : Nat) : K) * Spec.wma (n / 2) (a * v + b) p - Spec.wma n (a * v + b) p) (fun x => a * x + b) xs
    (fun p => by
      simp only [wma_affine (n / 2) h2 a b v p, wma_affine n hn a b v p]
      push_cast; ring)]
  exact wma_affine _ hs a b v _

theorem hma_superposition (n : Nat) (h2 : 0 < n / 2) (hs : 0 < Nat.sqrt n) (v w : K) (xs ys : List K)
    (h : xs.length = ys.length) :
    Spec.hma n (v + w) (List.zipWith (· + ·) xs ys) = Spec.hma n v xs + Spec.hma n w ys := by
  have hn : 0 < n := by omega
  unfold Spec.hma
  rw [series_zipWith (fun p => ((2 : Nat) : K) * Spec.wma (n / 2) v p - Spec.wma n v p)
    (fun p => ((2 : Nat) : K) * Spec.wma (n / 2) w p - Spec.wma n w p)
    (fun p => ((2 : Nat) : K) * Spec.wma (n / 2) (v + w) p - Spec.wma n (v + w) p) xs ys h
    (fun p q hpq => by
      simp only [wma_superposition (n / 2) h2 v w p q hpq, wma_superposition n hn v w p q hpq]
      ring)]
  exact wma_superposition _ hs v w _ _ (by rw [series_length, series_length, h])

/-! ### index-weighted means (SWMA) -/
theorem zipIdx_wsum (w : Nat → K) (l : List K) (k : Nat) :
    ((l.zipIdx k).map fun p => w p.2 * p.1).sum = wsum l ((List.range' k l.length).map w) := by
  unfold wsum
  induction l generalizing k with
  | nil => simp
  | cons x t ih =>
    simp only [List.zipIdx_cons, List.map_cons, List.sum_cons, List.length_cons, List.range'_succ,
      List.zipWith_cons_cons, ih (k + 1)]
    ring

theorem weighted_eq (w : Nat → K) (l : List K) :
    Spec.weighted w l = wsum l ((List.range l.length).map w) / ((List.range l.length).map w).sum := by
  unfold Spec.weighted
  rw [zipIdx_wsum w l 0, List.range_eq_range']

theorem weighted_affine (w : Nat → K) (l : List K) (hs : ((List.range l.length).map w).sum ≠ 0) (a b : K) :
    Spec.weighted w (l.map fun x => a * x + b) = a * Spec.weighted w l + b := by
  rw [weighted_eq, weighted_eq, List.length_map, wsum_affine a b _ _ (by simp)]
  field_simp

theorem weighted_add (w : Nat → K) (l m : List K) (h : l.length = m.length) :
    Spec.weighted w (List.zipWith (· + ·) l m) = Spec.weighted w l + Spec.weighted w m := by
  rw [weighted_eq, weighted_eq, weighted_eq, List.length_zipWith, ← h, Nat.min_self, wsum_add _ _ _ h, add_div]

theorem weighted_hull (w : Nat → K) (l : List K) (hw : ∀ i, 0 ≤ w i) (hs : 0 < ((List.range l.length).map w).sum)
    (lo hi : K) (h : ∀ x ∈ l, lo ≤ x ∧ x ≤ hi) : lo ≤ Spec.weighted w l ∧ Spec.weighted w l ≤ hi := by
  rw [weighted_eq]
  have := wsum_bounds lo hi l ((List.range l.length).map w) (by simp) h
    (fun y hy => by simp only [List.mem_map] at hy; obtain ⟨i, _, rfl⟩ := hy; exact hw i)
  constructor
  · rw [le_div_iff₀ hs]; exact this.1
  · rw [div_le_iff₀ hs]; exact this.2

/-- the triangular weights of SWMA are positive on the window, so their sum is -/
theorem swma_weights_pos (n : Nat) (hn : 0 < n) :
    (0 : K) < ((List.range n).map fun i => ((min (i + 1) (n - i) : Nat) : K)).sum := by
  cases n with
  | zero => omega
  | succ m =>
    rw [List.range_succ_eq_map, List.map_cons, List.sum_cons]
    have h1 : (0 : K) < ((min (0 + 1) (m + 1 - 0) : Nat) : K) := by
      have : 0 < min (0 + 1) (m + 1 - 0) := by omega
      exact_mod_cast this
    have h2 : (0 : K) ≤ ((List.map Nat.succ (List.range m)).map fun i => ((min (i + 1) (m + 1 - i) : Nat) : K)).sum := by
      have gen : ∀ l : List K, (∀ x ∈ l, 0 ≤ x) → 0 ≤ l.sum := by
        intro l hl
        induction l with
        | nil => simp
        | cons a t ih =>
          simp only [List.sum_cons]
          have := hl a (by simp)
          have := ih (fun x hx => hl x (by simp [hx]))
          linarith
      apply gen
      intro x hx
      simp only [List.mem_map] at hx
      obtain ⟨i, _, rfl⟩ := hx
      exact Nat.cast_nonneg _
    linarith

theorem swma_affine (n : Nat) (hn : 2 ≤ n) (a b v : K) (xs : List K) :
    Spec.swma n (a * v + b) (xs.map fun x => a * x + b) = a * Spec.swma n v xs + b := by
  unfold Spec.swma
  rw [if_neg (by omega), if_neg (by omega)]
  show Spec.weighted _ (lastN n (history n (a * v + b) (xs.map fun x => a * x + b))) = _
  rw [win_map (fun x => a * x + b)]
  apply weighted_affine
  rw [win_length]
  exact ne_of_gt (swma_weights_pos n (by omega))

theorem swma_superposition (n : Nat) (hn : 2 ≤ n) (v w : K) (xs ys : List K) (h : xs.length = ys.length) :
    Spec.swma n (v + w) (List.zipWith (· + ·) xs ys) = Spec.swma n v xs + Spec.swma n w ys := by
  unfold Spec.swma
  rw [if_neg (by omega), if_neg (by omega), if_neg (by omega)]
  show Spec.weighted _ (lastN n (history n (v + w) (List.zipWith (· + ·) xs ys))) = _
  rw [win_zipWith (· + ·) n v w xs ys h]
  exact weighted_add _ _ _ (by rw [win_length, win_length])

theorem swma_hull (n : Nat) (hn : 2 ≤ n) (v : K) (xs : List K) (lo hi : K)
    (h : ∀ x ∈ v :: xs, lo ≤ x ∧ x ≤ hi) : lo ≤ Spec.swma n v xs ∧ Spec.swma n v xs ≤ hi := by
  unfold Spec.swma
  rw [if_neg (by omega)]
  apply weighted_hull
  · intro i; exact Nat.cast_nonneg _
  · show 0 < ((List.range (lastN n (history n v xs)).length).map _).sum
    rw [win_length]; exact swma_weights_pos n (by omega)
  · intro x hx; exact h x (mem_win _ _ _ _ hx)


/-! ### LinReg: the least-squares value at the newest point is linear in the data (not range-preserving) -/
theorem range_sum_cast (n : Nat) : (((List.range n).sum : Nat) : K) * 2 = (n : K) * ((n : K) - 1) := by
  induction n with
  | zero => simp
  | succ m ih =>
    rw [List.range_succ, List.sum_append]
    simp only [List.sum_cons, List.sum_nil]
    push_cast
    linear_combination ih

theorem abscissa_sum (n : Nat) :
    ((List.range' 0 n).map fun i : Nat => ((i : Nat) : K) - ((n - 1 : Nat) : K)).sum = -(((List.range n).sum : Nat) : K) := by
  have gen : ∀ (m : Nat) (c : K), ((List.range' 0 m).map fun i : Nat => ((i : Nat) : K) - c).sum =
      (((List.range m).sum : Nat) : K) - (m : K) * c := by
    intro m c
    induction m with
    | zero => simp
    | succ k ih =>
      rw [List.range'_concat, List.map_append, List.sum_append, ih, List.range_succ, List.sum_append]
      simp only [List.map_cons, List.map_nil, List.sum_cons, List.sum_nil, Nat.zero_add, Nat.one_mul]
      push_cast; ring
  rw [gen n]
  have h2 := range_sum_cast (K := K) n
  cases n with
  | zero => simp
  | succ k =>
    have : ((k + 1 - 1 : Nat) : K) = ((k + 1 : Nat) : K) - 1 := by push_cast; simp
    rw [this]
    linear_combination h2

theorem linreg_affine (n : Nat) (hn : 0 < n) (a b v : K) (xs : List K) :
    Spec.linreg n (a * v + b) (xs.map fun x => a * x + b) = a * Spec.linreg n v xs + b := by
  unfold Spec.linreg
  simp only
  show (_ : K) = _
  have hw : Spec.win n (a * v + b) (xs.map fun x => a * x + b) = (Spec.win n v xs).map fun x => a * x + b :=
    win_map (fun x => a * x + b) n v xs
  rw [hw]
  set l := Spec.win n v xs with hl
  have hlen : l.length = n := win_length n v xs
  have hn0 : (n : K) ≠ 0 := by exact_mod_cast (Nat.pos_iff_ne_zero.mp hn)
  have e1 : (l.map fun x => a * x + b).sum = a * l.sum + (n : K) * b := by rw [sum_map_affine, hlen]
  have e2 : (((l.map fun x => a * x + b).zipIdx).map fun p => (((p.2 : Nat) : K) - ((n - 1 : Nat) : K)) * p.1).sum =
      a * ((l.zipIdx).map fun p => (((p.2 : Nat) : K) - ((n - 1 : Nat) : K)) * p.1).sum +
        b * -(((List.range n).sum : Nat) : K) := by
    rw [zipIdx_wsum (fun i => ((i : Nat) : K) - ((n - 1 : Nat) : K)) _ 0,
      zipIdx_wsum (fun i => ((i : Nat) : K) - ((n - 1 : Nat) : K)) l 0, List.length_map,
      wsum_affine a b l _ (by simp), hlen, abscissa_sum]
  rw [e1, e2]
  field_simp
  ring

end Yata
