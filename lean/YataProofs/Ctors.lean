/-
  Constructors are total over the whole parameter domain: for every value `0 ≤ length ≤ P` of
  PeriodType (`P = PeriodType::MAX ≥ 2`) `new` returns `Ok` or `Err`, never a panic / overflow, and it
  returns `Err` on the documented too-small lengths and on `PeriodType::MAX`.
-/
import YataModel
import Mathlib.Data.Nat.Sqrt
set_option linter.unusedSectionVars false
namespace Yata
variable {α : Type}
variable [Zero α] [One α] [Add α] [Sub α] [Mul α] [Div α] [Neg α] [NatCast α]
variable [LT α] [DecidableLT α] [LE α] [DecidableLE α]

def Res.noPanic {β : Type} : Res β → Prop
  | .panic _ => False
  | _ => True

def Res.isErr {β : Type} : Res β → Prop
  | .err _ => True
  | _ => False

theorem winNew_ok {P n : Nat} (v : α) (h : n ≤ P - 1) : ∃ w, winNew P n v = .ok w := by
  simp [winNew, Window.new, h, Res.ofExcept]

theorem winNew'_ok {β : Type} {P n : Nat} (v : β) (h : n ≤ P - 1) : ∃ w, Res.ofExcept (Window.new P n v) = .ok w := by
  simp [Window.new, h, Res.ofExcept]

/-- generic shape: a guard that rejects 0 (and possibly 1) and P, then only a window allocation -/
theorem noPanic_of_guard {β : Type} {P n : Nat} (r : Res β) (hP : 2 ≤ P) (hn : n ≤ P)
    (hbad : n = 0 ∨ n = P → r.isErr) (hgood : 0 < n → n ≤ P - 1 → r.noPanic) : r.noPanic := by
  by_cases h : n = 0 ∨ n = P
  · have := hbad h
    cases r <;> simp_all [Res.isErr, Res.noPanic]
  · exact hgood (by omega) (by omega)

section
variable (P : Nat) (hP : 2 ≤ P) (n : Nat) (hn : n ≤ P) (v : α)
include hP hn

theorem SMA.new_total : (SMA.new P n v).noPanic ∧ (n = 0 ∨ n = P → (SMA.new P n v).isErr) := by
  refine ⟨?_, fun h => by simp [SMA.new, h, Res.isErr]⟩
  by_cases h : n = 0 ∨ n = P
  · simp [SMA.new, h, Res.noPanic]
  · obtain ⟨w, hw⟩ := winNew_ok (P := P) v (by omega : n ≤ P - 1)
    simp [SMA.new, h, hw, Res.bind, Res.noPanic]

theorem WMA.new_total : (WMA.new P n v).noPanic ∧ (n = 0 ∨ n = P → (WMA.new P n v).isErr) := by
  refine ⟨?_, fun h => by simp [WMA.new, h, Res.isErr]⟩
  by_cases h : n = 0 ∨ n = P
  · simp [WMA.new, h, Res.noPanic]
  · obtain ⟨w, hw⟩ := winNew_ok (P := P) v (by omega : n ≤ P - 1)
    simp [WMA.new, h, hw, Res.bind, Res.noPanic]

theorem EMA.new_total : (EMA.new P n v).noPanic ∧ (n = 0 ∨ n = P → (EMA.new P n v).isErr) := by
  refine ⟨?_, fun h => by simp [EMA.new, h, Res.isErr]⟩
  by_cases h : n = 0 ∨ n = P
  · simp [EMA.new, h, Res.noPanic]
  · have : n + 1 ≤ P := by omega
    simp [EMA.new, h, chkAdd, this, Res.noPanic]

theorem EMA.new_ok_of (h : ¬ (n = 0 ∨ n = P)) : ∃ e, EMA.new P n v = .ok e := by
  have : n + 1 ≤ P := by omega
  exact ⟨{ alpha := ((2 : Nat) : α) / ((n + 1 : Nat) : α), value := v }, by simp [EMA.new, h, chkAdd, this]⟩

theorem DMA.new_total : (DMA.new P n v).noPanic ∧ (n = 0 ∨ n = P → (DMA.new P n v).isErr) := by
  refine ⟨?_, fun h => by simp [DMA.new, h, Res.isErr]⟩
  by_cases h : n = 0 ∨ n = P
  · simp [DMA.new, h, Res.noPanic]
  · obtain ⟨e, he⟩ := EMA.new_ok_of P hP n hn v h
    simp [DMA.new, h, he, Res.bind, Res.noPanic]

theorem TMA.new_total : (TMA.new P n v).noPanic ∧ (n = 0 ∨ n = P → (TMA.new P n v).isErr) := by
  refine ⟨?_, fun h => by simp [TMA.new, h, Res.isErr]⟩
  by_cases h : n = 0 ∨ n = P
  · simp [TMA.new, h, Res.noPanic]
  · obtain ⟨e, he⟩ := EMA.new_ok_of P hP n hn v h
    simp [TMA.new, DMA.new, h, he, Res.bind, Res.noPanic]

theorem DEMA.new_total : (DEMA.new P n v).noPanic ∧ (n = 0 ∨ n = P → (DEMA.new P n v).isErr) := by
  refine ⟨?_, fun h => by simp [DEMA.new, h, Res.isErr]⟩
  by_cases h : n = 0 ∨ n = P
  · simp [DEMA.new, h, Res.noPanic]
  · obtain ⟨e, he⟩ := EMA.new_ok_of P hP n hn v h
    simp [DEMA.new, h, he, Res.bind, Res.noPanic]

theorem TEMA.new_total : (TEMA.new P n v).noPanic ∧ (n = 0 ∨ n = P → (TEMA.new P n v).isErr) := by
  refine ⟨?_, fun h => by simp [TEMA.new, h, Res.isErr]⟩
  by_cases h : n = 0 ∨ n = P
  · simp [TEMA.new, h, Res.noPanic]
  · obtain ⟨e, he⟩ := EMA.new_ok_of P hP n hn v h
    simp [TEMA.new, h, he, Res.bind, Res.noPanic]

theorem RMA.new_total : (RMA.new P n v).noPanic ∧ (n = 0 → (RMA.new P n v).isErr) := by
  refine ⟨?_, fun h => by simp [RMA.new, h, Res.isErr]⟩
  by_cases h : n = 0 <;> simp [RMA.new, h, Res.noPanic]

/-- WSMA: `0` and everything above `PeriodType::MAX / 2` is rejected; `2n − 1` never overflows -/
theorem WSMA.new_total : (WSMA.new P n v).noPanic ∧ (n = 0 ∨ n > P / 2 → (WSMA.new P n v).isErr) := by
  refine ⟨?_, ?_⟩
  · unfold WSMA.new
    by_cases h1 : n > P / 2
    · simp [h1, Res.noPanic]
    · by_cases h0 : n = 0
      · simp [h0, Res.noPanic]
      · have h2 : n * 2 ≤ P := by omega
        have h3 : 1 ≤ n * 2 := by omega
        simp only [h1, ↓reduceIte, h0, chkMul, h2, chkSub, h3]
        have := (EMA.new_total P hP (n * 2 - 1) (by omega) v).1
        cases he : EMA.new P (n * 2 - 1) v <;> simp_all [Res.bind, Res.noPanic]
  · rintro (h | h)
    · by_cases h1 : n > P / 2 <;> simp [WSMA.new, h, h1, Res.isErr]
    · simp [WSMA.new, h, Res.isErr]

theorem SWMA.new_total : (SWMA.new P n v).noPanic ∧ (n = 0 ∨ n = P → (SWMA.new P n v).isErr) := by
  refine ⟨?_, fun h => by simp [SWMA.new, h, Res.isErr]⟩
  by_cases h : n = 0 ∨ n = P
  · simp [SWMA.new, h, Res.noPanic]
  · have h1 : n + 1 ≤ P := by omega
    obtain ⟨lw, hl⟩ := winNew_ok (P := P) v (by omega : (n + 1) / 2 ≤ P - 1)
    obtain ⟨rw, hr⟩ := winNew_ok (P := P) v (by omega : n / 2 ≤ P - 1)
    simp [SWMA.new, h, chkAdd, h1, hl, hr, Res.bind, Res.noPanic]

theorem TRIMA.new_total : (TRIMA.new P n v).noPanic ∧ (n = 0 ∨ n = P → (TRIMA.new P n v).isErr) := by
  refine ⟨?_, fun h => by simp [TRIMA.new, SMA.new, h, Res.bind, Res.isErr]⟩
  by_cases h : n = 0 ∨ n = P
  · simp [TRIMA.new, SMA.new, h, Res.bind, Res.noPanic]
  · obtain ⟨w, hw⟩ := winNew_ok (P := P) v (by omega : n ≤ P - 1)
    simp [TRIMA.new, SMA.new, h, hw, Res.bind, Res.noPanic]

theorem LinReg.new_total : (LinReg.new P n v).noPanic ∧ (n = 0 ∨ n = 1 ∨ n = P → (LinReg.new P n v).isErr) := by
  refine ⟨?_, fun h => by simp [LinReg.new, h, Res.isErr]⟩
  by_cases h : n = 0 ∨ n = 1 ∨ n = P
  · simp [LinReg.new, h, Res.noPanic]
  · obtain ⟨w, hw⟩ := winNew_ok (P := P) v (by omega : n ≤ P - 1)
    simp [LinReg.new, h, hw, Res.bind, Res.noPanic]

theorem StDev.new_total : (StDev.new P n v).noPanic ∧ (n = 0 ∨ n = 1 ∨ n = P → (StDev.new P n v).isErr) := by
  refine ⟨?_, fun h => by simp [StDev.new, h, Res.isErr]⟩
  by_cases h : n = 0 ∨ n = 1 ∨ n = P
  · simp [StDev.new, h, Res.noPanic]
  · obtain ⟨w, hw⟩ := winNew_ok (P := P) v (by omega : n ≤ P - 1)
    simp [StDev.new, h, hw, Res.bind, Res.noPanic]

theorem Integral.new_total : (Integral.new P n v).noPanic ∧ (n = P → (Integral.new P n v).isErr) := by
  refine ⟨?_, fun h => by simp [Integral.new, h, Res.isErr]⟩
  by_cases h : n = P
  · simp [Integral.new, h, Res.noPanic]
  · obtain ⟨w, hw⟩ := winNew_ok (P := P) v (by omega : n ≤ P - 1)
    simp [Integral.new, h, hw, Res.bind, Res.noPanic]

theorem Derivative.new_total : (Derivative.new P n v).noPanic ∧ (n = 0 ∨ n = P → (Derivative.new P n v).isErr) := by
  refine ⟨?_, fun h => by simp [Derivative.new, h, Res.isErr]⟩
  by_cases h : n = 0 ∨ n = P
  · simp [Derivative.new, h, Res.noPanic]
  · obtain ⟨w, hw⟩ := winNew_ok (P := P) v (by omega : n ≤ P - 1)
    simp [Derivative.new, h, hw, Res.bind, Res.noPanic]

theorem Momentum.new_total : (Momentum.new P n v).noPanic ∧ (n = 0 ∨ n = P → (Momentum.new P n v).isErr) := by
  refine ⟨?_, fun h => by simp [Momentum.new, h, Res.isErr]⟩
  by_cases h : n = 0 ∨ n = P
  · simp [Momentum.new, h, Res.noPanic]
  · obtain ⟨w, hw⟩ := winNew_ok (P := P) v (by omega : n ≤ P - 1)
    simp [Momentum.new, h, hw, Res.bind, Res.noPanic]

theorem RateOfChange.new_total : (RateOfChange.new P n v).noPanic ∧ (n = 0 ∨ n = P → (RateOfChange.new P n v).isErr) := by
  refine ⟨?_, fun h => by simp [RateOfChange.new, h, Res.isErr]⟩
  by_cases h : n = 0 ∨ n = P
  · simp [RateOfChange.new, h, Res.noPanic]
  · obtain ⟨w, hw⟩ := winNew_ok (P := P) v (by omega : n ≤ P - 1)
    simp [RateOfChange.new, h, hw, Res.bind, Res.noPanic]

theorem LinearVolatility.new_total :
    (LinearVolatility.new P n v).noPanic ∧ (n = 0 ∨ n = P → (LinearVolatility.new P n v).isErr) := by
  refine ⟨?_, fun h => by simp [LinearVolatility.new, h, Res.isErr]⟩
  by_cases h : n = 0 ∨ n = P
  · simp [LinearVolatility.new, h, Res.noPanic]
  · obtain ⟨w, hw⟩ := winNew_ok (P := P) (0 : α) (by omega : n ≤ P - 1)
    simp [LinearVolatility.new, h, hw, Res.bind, Res.noPanic]

theorem Vidya.new_total [DecidableEq α] : (Vidya.new P n v).noPanic ∧ (n = 0 ∨ n = P → (Vidya.new P n v).isErr) := by
  refine ⟨?_, fun h => by simp [Vidya.new, h, Res.isErr]⟩
  by_cases h : n = 0 ∨ n = P
  · simp [Vidya.new, h, Res.noPanic]
  · obtain ⟨w, hw⟩ := winNew_ok (P := P) (0 : α) (by omega : n ≤ P - 1)
    simp [Vidya.new, h, hw, Res.bind, Res.noPanic]

end

/-- HMA: lengths 0, 1 and MAX rejected; the three inner WMAs get lengths n/2 ≥ 1, n and ⌊√n⌋ ≥ 1 -/
theorem HMA.new_total (P : Nat) (hP : 2 ≤ P) (n : Nat) (hn : n ≤ P) (v : α) :
    (HMA.new P n v).noPanic ∧ (n = 0 ∨ n = 1 ∨ n = P → (HMA.new P n v).isErr) := by
  refine ⟨?_, fun h => by simp [HMA.new, h, Res.isErr]⟩
  by_cases h : n = 0 ∨ n = 1 ∨ n = P
  · simp [HMA.new, h, Res.noPanic]
  · have h1 := (WMA.new_total P hP (n / 2) (by omega) v).1
    have h2 := (WMA.new_total P hP n hn v).1
    have hs : Nat.sqrt n ≤ n := Nat.sqrt_le_self n
    have h3 := (WMA.new_total P hP (Nat.sqrt n) (by omega) v).1
    simp only [HMA.new, h, ↓reduceIte]
    cases ha : WMA.new P (n / 2) v <;> cases hb : WMA.new P n v <;> cases hc : WMA.new P (Nat.sqrt n) v <;>
      simp_all [Res.bind, Res.noPanic]

/-- two-parameter methods: every pair (left, right) of PeriodType values -/
theorem UpperReversalSignal.new_total [Zero α] (P : Nat) (hP : 2 ≤ P) (l r : Nat) (hl : l ≤ P) (hr : r ≤ P) (v : α) :
    (UpperReversalSignal.new P l r v).noPanic := by
  unfold UpperReversalSignal.new
  by_cases h : l = 0 ∨ r = 0 ∨ satAdd P l r ≥ P - 1
  · rw [if_pos h]; trivial
  · rw [if_neg h]
    have hs : ¬ (satAdd P l r ≥ P - 1) := fun hh => h (Or.inr (Or.inr hh))
    unfold satAdd at hs
    have h1 : l + r ≤ P := by
      by_contra hc; simp [hc] at hs
    simp only [h1, ↓reduceIte] at hs
    have h2 : l + r + 1 ≤ P := by omega
    obtain ⟨w, hw⟩ := winNew'_ok (P := P) v (by omega : l + r + 1 ≤ P - 1)
    simp [chkAdd, h1, h2, hw, Res.bind, Res.noPanic]

theorem LowerReversalSignal.new_total [Zero α] (P : Nat) (hP : 2 ≤ P) (l r : Nat) (hl : l ≤ P) (hr : r ≤ P) (v : α) :
    (LowerReversalSignal.new P l r v).noPanic := by
  unfold LowerReversalSignal.new
  by_cases h : l = 0 ∨ r = 0 ∨ satAdd P l r ≥ P - 1
  · rw [if_pos h]; trivial
  · rw [if_neg h]
    have hs : ¬ (satAdd P l r ≥ P - 1) := fun hh => h (Or.inr (Or.inr hh))
    unfold satAdd at hs
    have h1 : l + r ≤ P := by
      by_contra hc; simp [hc] at hs
    simp only [h1, ↓reduceIte] at hs
    have h2 : l + r + 1 ≤ P := by omega
    obtain ⟨w, hw⟩ := winNew'_ok (P := P) v (by omega : l + r + 1 ≤ P - 1)
    simp [chkAdd, h1, h2, hw, Res.bind, Res.noPanic]

theorem TSI.new_total (P : Nat) (hP : 2 ≤ P) (s l : Nat) (hs : s ≤ P) (hl : l ≤ P) (v : α) :
    (TSI.new P s l v).noPanic := by
  have h1 := (EMA.new_total P hP l hl (0 : α)).1
  have h2 := (EMA.new_total P hP s hs (0 : α)).1
  unfold TSI.new
  cases ha : EMA.new P l (0 : α) <;> cases hb : EMA.new P s (0 : α) <;> simp_all [Res.bind, Res.noPanic]

/-- Conv: the weight vector must have between 1 and MAX − 1 entries -/
theorem Conv.new_total (P : Nat) (hP : 2 ≤ P) (ws : List α) (v : α) :
    (Conv.new P ws v).noPanic ∧ (ws.length = 0 ∨ ws.length ≥ P → (Conv.new P ws v).isErr) := by
  refine ⟨?_, fun h => ?_⟩
  · by_cases h : 1 ≤ ws.length ∧ ws.length ≤ P - 1
    · obtain ⟨w, hw⟩ := winNew_ok (P := P) v h.2
      simp [Conv.new, h, hw, Res.bind, Res.noPanic]
    · simp [Conv.new, h, Res.noPanic]
  · have : ¬ (1 ≤ ws.length ∧ ws.length ≤ P - 1) := by omega
    simp [Conv.new, this, Res.isErr]

end Yata
