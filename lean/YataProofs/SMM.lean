/-
  SMM: the sorted slice is a sorted permutation of the window, whatever the stream; the reported
  middle elements are therefore the median(s) of the last `n` values.
  The order is the total order of the bit patterns (`total_cmp`): `tcmp = compare` of a linear order.
-/
import YataProofs.Selection
import YataProofs.SelectionIndex
import Mathlib.Order.Defs.LinearOrder
import Mathlib.Order.Compare
import Mathlib.Data.List.Sort
import Mathlib.Data.List.Perm.Basic
import Mathlib.Tactic.Linarith
import Mathlib.Data.List.Basic
import YataProofs.Numeric.Common
import Mathlib.Tactic.NormNum
namespace Yata
variable {β : Type} [LinearOrder β] [TotalCmp β]

/-- `total_cmp` is the comparison of a total order on the representation -/
class TotalLike (β : Type) [LinearOrder β] [TotalCmp β] : Prop where
  tcmp_eq : ∀ a b : β, tcmp a b = compare a b

variable [TotalLike β]
open TotalLike

theorem tcmp_eq_iff (a b : β) : tcmp a b = .eq ↔ a = b := by rw [tcmp_eq]; exact compare_eq_iff_eq
theorem tcmp_lt_iff (a b : β) : tcmp a b = .lt ↔ a < b := by rw [tcmp_eq]; exact compare_lt_iff_lt
theorem tcmp_gt_iff (a b : β) : tcmp a b = .gt ↔ b < a := by rw [tcmp_eq]; exact compare_gt_iff_gt

/-! ### binary search for an element that is present -/

theorem findIndex_spec (fuel : Nat) (value : β) (l : List β) (padding : Nat)
    (hs : l.Pairwise (· ≤ ·)) (hm : value ∈ l) (hf : l.length ≤ fuel) :
    ∃ j, findIndex fuel value l padding = padding + j ∧ l[j]? = some value := by
  induction fuel generalizing l padding with
  | zero =>
    have : l = [] := List.eq_nil_of_length_eq_zero (by omega)
    rw [this] at hm; simp at hm
  | succ fuel ih =>
    unfold findIndex
    by_cases h2 : l.length < 2
    · simp only [h2, ↓reduceIte]
      match l, hm with
      | [a], hm =>
        simp at hm
        exact ⟨0, by simp, by simp [hm]⟩
    · simp only [h2, ↓reduceIte]
      have hhalf : l.length / 2 < l.length := by omega
      have hget : l[l.length / 2]? = some l[l.length / 2] := List.getElem?_eq_getElem hhalf
      simp only [hget]
      set half := l.length / 2 with hhalfdef
      set h := l[half] with hh
      cases hc : tcmp value h with
      | eq =>
        simp only
        have := (tcmp_eq_iff value h).mp hc
        exact ⟨half, rfl, by rw [hget, this]⟩
      | gt =>
        simp only
        have hlt : h < value := (tcmp_gt_iff value h).mp hc
        -- value lies strictly after position `half`
        have hmem : value ∈ l.drop (half + 1) := by
          obtain ⟨i, hi, hiv⟩ := List.getElem_of_mem hm
          by_contra hnot
          have hile : i ≤ half := by
            by_contra hgt
            apply hnot
            have : i = (half + 1) + (i - (half + 1)) := by omega
            rw [List.mem_iff_getElem]
            refine ⟨i - (half + 1), by simp; omega, ?_⟩
            simp only [List.getElem_drop]
            rw [← hiv]; congr 1; omega
          have : l[i] ≤ l[half] := by
            rcases Nat.lt_or_eq_of_le hile with hlt' | heq
            · exact List.pairwise_iff_getElem.mp hs i half hi hhalf hlt'
            · subst heq; exact le_refl _
          rw [hiv] at this
          exact absurd hlt (not_lt.mpr this)
        obtain ⟨j, hj, hjv⟩ := ih (l.drop (half + 1)) (padding + half + 1)
          (List.Pairwise.sublist (List.drop_sublist _ _) hs) hmem (by simp; omega)
        refine ⟨half + 1 + j, by rw [hj]; omega, ?_⟩
        rw [List.getElem?_drop] at hjv
        exact hjv
      | lt =>
        simp only
        have hlt : value < h := (tcmp_lt_iff value h).mp hc
        have hmem : value ∈ l.take half := by
          obtain ⟨i, hi, hiv⟩ := List.getElem_of_mem hm
          have hilt : i < half := by
            by_contra hge
            have hge' : half ≤ i := by omega
            have : l[half] ≤ l[i] := by
              rcases Nat.lt_or_eq_of_le hge' with hlt' | heq
              · exact List.pairwise_iff_getElem.mp hs half i hhalf hi hlt'
              · subst heq; exact le_refl _
            rw [hiv] at this
            exact absurd hlt (not_lt.mpr this)
          rw [List.mem_iff_getElem]
          exact ⟨i, by simp; omega, by simp [hiv]⟩
        obtain ⟨j, hj, hjv⟩ := ih (l.take half) padding
          (List.Pairwise.sublist (List.take_sublist _ _) hs) hmem (by simp; omega)
        refine ⟨j, hj, ?_⟩
        rw [List.getElem?_take] at hjv
        split at hjv
        · exact hjv
        · cases hjv

/-! ### binary search for the insertion point -/

/-- inserting `value` at position `p` keeps `l` sorted -/
def InsertPos (l : List β) (value : β) (p : Nat) : Prop :=
  p ≤ l.length ∧ (∀ j (hj : j < l.length), j < p → l[j] ≤ value) ∧ (∀ j (hj : j < l.length), p ≤ j → value ≤ l[j])

theorem sorted_le (l : List β) (hs : l.Pairwise (· ≤ ·)) (i j : Nat) (hi : i < l.length) (hj : j < l.length) (hij : i ≤ j) :
    l[i] ≤ l[j] := by
  rcases Nat.lt_or_eq_of_le hij with hlt | heq
  · exact List.pairwise_iff_getElem.mp hs i j hi hj hlt
  · subst heq; exact le_refl _

theorem findInsertIndex_spec (fuel : Nat) (value : β) (l : List β) (padding : Nat)
    (hs : l.Pairwise (· ≤ ·)) (hf : l.length ≤ fuel) :
    ∃ p, findInsertIndex fuel value l padding = padding + p ∧ InsertPos l value p := by
  induction fuel generalizing l padding with
  | zero =>
    have : l = [] := List.eq_nil_of_length_eq_zero (by omega)
    subst this
    exact ⟨0, by simp [findInsertIndex], by simp [InsertPos]⟩
  | succ fuel ih =>
    unfold findInsertIndex
    by_cases he : l.isEmpty
    · have : l = [] := List.isEmpty_iff.mp he
      subst this
      exact ⟨0, by simp, by simp [InsertPos]⟩
    · simp only [he, Bool.false_eq_true, ↓reduceIte]
      have hpos : 0 < l.length := by
        cases l with
        | nil => simp at he
        | cons a t => simp
      have hhalf : l.length / 2 < l.length := by omega
      have hget : l[l.length / 2]? = some l[l.length / 2] := List.getElem?_eq_getElem hhalf
      simp only [hget]
      set half := l.length / 2 with hhalfdef
      set h := l[half] with hh
      cases hc : tcmp value h with
      | eq =>
        simp only
        have hv := (tcmp_eq_iff value h).mp hc
        refine ⟨half, rfl, by omega, ?_, ?_⟩
        · intro j hj hjp; rw [hv]; exact sorted_le l hs j half hj hhalf (by omega)
        · intro j hj hjp; rw [hv]; exact sorted_le l hs half j hhalf hj hjp
      | gt =>
        simp only
        have hlt : h < value := (tcmp_gt_iff value h).mp hc
        obtain ⟨p, hp, hp1, hp2, hp3⟩ := ih (l.drop (half + 1)) (padding + half + 1)
          (List.Pairwise.sublist (List.drop_sublist _ _) hs) (by simp; omega)
        have hdl : (l.drop (half + 1)).length = l.length - (half + 1) := by simp
        refine ⟨half + 1 + p, by rw [hp]; omega, by omega, ?_, ?_⟩
        · intro j hj hjp
          by_cases hjh : j ≤ half
          · exact le_of_lt (lt_of_le_of_lt (sorted_le l hs j half hj hhalf hjh) hlt)
          · have := hp2 (j - (half + 1)) (by omega) (by omega)
            simp only [List.getElem_drop] at this
            have e : half + 1 + (j - (half + 1)) = j := by omega
            simpa [e] using this
        · intro j hj hjp
          have := hp3 (j - (half + 1)) (by omega) (by omega)
          simp only [List.getElem_drop] at this
          have e : half + 1 + (j - (half + 1)) = j := by omega
          simpa [e] using this
      | lt =>
        simp only
        have hlt : value < h := (tcmp_lt_iff value h).mp hc
        obtain ⟨p, hp, hp1, hp2, hp3⟩ := ih (l.take half) padding
          (List.Pairwise.sublist (List.take_sublist _ _) hs) (by simp; omega)
        have htl : (l.take half).length = half := by simp; omega
        refine ⟨p, hp, by omega, ?_, ?_⟩
        · intro j hj hjp
          have := hp2 j (by omega) hjp
          simpa using this
        · intro j hj hjp
          by_cases hjh : j < half
          · have := hp3 j (by omega) hjp
            simpa using this
          · exact le_of_lt (lt_of_lt_of_le hlt (sorted_le l hs half j hhalf hj (by omega)))


/-! ### the in-place update of the sorted slice -/
section Moved
variable {β : Type}
theorem split3 (l : List β) (i j : Nat) (hij : i < j) (hj : j < l.length) :
    ∃ P o M x S, l = P ++ o :: (M ++ x :: S) ∧ P.length = i ∧ M.length = j - i - 1 := by
  refine ⟨l.take i, l[i], (l.drop (i + 1)).take (j - i - 1), l[j], l.drop (j + 1), ?_, by simp; omega, by simp; omega⟩
  have h1 : l = l.take i ++ l.drop i := (List.take_append_drop i l).symm
  have h2 : l.drop i = l[i] :: l.drop (i + 1) := by rw [List.drop_eq_getElem_cons (by omega)]
  have h3 : l.drop (i + 1) = (l.drop (i + 1)).take (j - i - 1) ++ (l.drop (i + 1)).drop (j - i - 1) :=
    (List.take_append_drop _ _).symm
  have h4 : (l.drop (i + 1)).drop (j - i - 1) = l.drop j := by
    rw [List.drop_drop]; congr 1; omega
  have h5 : l.drop j = l[j] :: l.drop (j + 1) := by rw [List.drop_eq_getElem_cons (by omega)]
  conv_lhs => rw [h1, h2, h3, h4, h5]

/-- the slice update when the new value goes to the right of the evicted one -/
theorem moved_gt (l : List β) (old index : Nat) (v : β) (h1 : old < index) (h2 : index < l.length) :
    (copyWithin l (old + 1) (index + 1) old).set index v =
      (l.eraseIdx old).take index ++ v :: (l.eraseIdx old).drop index := by
  obtain ⟨P, o, M, x, S, rfl, hP, hM⟩ := split3 l old index h1 h2
  have hidx : index = P.length + (M.length + 1) := by omega
  subst hP
  subst hidx
  have e1 : (P ++ o :: (M ++ x :: S)).eraseIdx P.length = P ++ (M ++ x :: S) := by
    rw [List.eraseIdx_append_of_length_le (le_refl _)]; simp
  have e2 : copyWithin (P ++ o :: (M ++ x :: S)) (P.length + 1) (P.length + (M.length + 1) + 1) P.length =
      P ++ (M ++ [x]) ++ (x :: S) := by
    unfold copyWithin
    have a1 : P.length + (M.length + 1) + 1 - (P.length + 1) = M.length + 1 := by omega
    have d1 : (P ++ o :: (M ++ x :: S)).drop (P.length + 1) = M ++ x :: S := by simp
    have t1 : (M ++ x :: S).take (M.length + 1) = M ++ [x] := by rw [List.take_length_add_append]; simp
    have t0 : (P ++ o :: (M ++ x :: S)).take P.length = P := by simp
    rw [a1, d1, t1, t0]
    dsimp only
    have ln : (M ++ [x]).length = M.length + 1 := by simp
    rw [ln]
    have d2 : (P ++ o :: (M ++ x :: S)).drop (P.length + (M.length + 1)) = x :: S := by
      rw [List.drop_length_add_append]
      show (o :: (M ++ x :: S)).drop (M.length + 1) = x :: S
      simp
    rw [d2]
  rw [e1, e2]
  have s1 : (P ++ (M ++ [x]) ++ x :: S).set (P.length + (M.length + 1)) v = P ++ (M ++ [x]) ++ v :: S := by simp
  have t2 : (P ++ (M ++ x :: S)).take (P.length + (M.length + 1)) = P ++ (M ++ [x]) := by
    rw [List.take_length_add_append, List.take_length_add_append]; simp
  have d3 : (P ++ (M ++ x :: S)).drop (P.length + (M.length + 1)) = S := by
    rw [List.drop_length_add_append, List.drop_length_add_append]; simp
  rw [s1, t2, d3]

/-- … to the left of the evicted one -/
theorem moved_lt (l : List β) (old index : Nat) (v : β) (h1 : index < old) (h2 : old < l.length) :
    (copyWithin l index old (index + 1)).set index v =
      (l.eraseIdx old).take index ++ v :: (l.eraseIdx old).drop index := by
  obtain ⟨P, x, M, o, S, rfl, hP, hM⟩ := split3 l index old h1 h2
  have hidx : old = P.length + (M.length + 1) := by omega
  subst hP
  subst hidx
  have e1 : (P ++ x :: (M ++ o :: S)).eraseIdx (P.length + (M.length + 1)) = P ++ x :: (M ++ S) := by
    rw [List.eraseIdx_append_of_length_le (by omega)]
    have : P.length + (M.length + 1) - P.length = M.length + 1 := by omega
    rw [this]
    show P ++ x :: (M ++ o :: S).eraseIdx M.length = _
    rw [List.eraseIdx_append_of_length_le (le_refl _)]; simp
  have e2 : copyWithin (P ++ x :: (M ++ o :: S)) P.length (P.length + (M.length + 1)) (P.length + 1) =
      (P ++ [x]) ++ (x :: M) ++ S := by
    unfold copyWithin
    have a1 : P.length + (M.length + 1) - P.length = M.length + 1 := by omega
    have d1 : (P ++ x :: (M ++ o :: S)).drop P.length = x :: (M ++ o :: S) := by simp
    have t1 : (x :: (M ++ o :: S)).take (M.length + 1) = x :: M := by simp
    have t0 : (P ++ x :: (M ++ o :: S)).take (P.length + 1) = P ++ [x] := by rw [List.take_length_add_append]; simp
    rw [a1, d1, t1, t0]
    dsimp only
    have ln : (x :: M).length = M.length + 1 := by simp
    rw [ln]
    have d2 : (P ++ x :: (M ++ o :: S)).drop (P.length + 1 + (M.length + 1)) = S := by
      have : P.length + 1 + (M.length + 1) = P.length + (M.length + 2) := by omega
      rw [this, List.drop_length_add_append]
      show (x :: (M ++ o :: S)).drop (M.length + 2) = S
      simp
    rw [d2]
  rw [e1, e2]
  have s1 : ((P ++ [x]) ++ (x :: M) ++ S).set P.length v = P ++ v :: (x :: M ++ S) := by simp
  have t2 : (P ++ x :: (M ++ S)).take P.length = P := by simp
  have d3 : (P ++ x :: (M ++ S)).drop P.length = x :: (M ++ S) := by simp
  rw [s1, t2, d3]
  simp

theorem moved_eq (l : List β) (index : Nat) (v : β) (h2 : index < l.length) :
    l.set index v = (l.eraseIdx index).take index ++ v :: (l.eraseIdx index).drop index := by
  have h1 : l = l.take index ++ l[index] :: l.drop (index + 1) := by
    conv_lhs => rw [← List.take_append_drop index l, List.drop_eq_getElem_cons h2]
  generalize hP : l.take index = P at h1
  generalize hS : l.drop (index + 1) = S at h1
  have hlen : P.length = index := by rw [← hP]; simp; omega
  generalize l[index] = o at h1
  subst h1
  subst hlen
  have e1 : (P ++ o :: S).eraseIdx P.length = P ++ S := by
    rw [List.eraseIdx_append_of_length_le (le_refl _)]; simp
  rw [e1]
  simp
end Moved


section SMMInv
variable {β : Type} [LinearOrder β] [TotalCmp β] [TotalLike β] {P : Nat}

/-- inserting at an insertion point keeps the list sorted -/
theorem sorted_insert (E : List β) (v : β) (p : Nat) (hs : E.Pairwise (· ≤ ·)) (hp : InsertPos E v p) :
    (E.take p ++ v :: E.drop p).Pairwise (· ≤ ·) := by
  obtain ⟨hle, hlo, hhi⟩ := hp
  rw [List.pairwise_append]
  refine ⟨List.Pairwise.sublist (List.take_sublist _ _) hs, ?_, ?_⟩
  · rw [List.pairwise_cons]
    refine ⟨?_, List.Pairwise.sublist (List.drop_sublist _ _) hs⟩
    intro b hb
    obtain ⟨k, hk, rfl⟩ := List.getElem_of_mem hb
    simp only [List.getElem_drop]
    simp only [List.length_drop] at hk
    exact hhi (p + k) (by omega) (by omega)
  · intro a ha b hb
    obtain ⟨i, hi, rfl⟩ := List.getElem_of_mem ha
    simp only [List.length_take] at hi
    have hai : (E.take p)[i] = E[i]'(by omega) := by simp
    rw [hai]
    have h1 : E[i]'(by omega) ≤ v := hlo i (by omega) (by omega)
    rcases List.mem_cons.mp hb with rfl | hb
    · exact h1
    · obtain ⟨k, hk, rfl⟩ := List.getElem_of_mem hb
      simp only [List.getElem_drop]
      simp only [List.length_drop] at hk
      exact le_trans h1 (hhi (p + k) (by omega) (by omega))

/-- the insertion point computed on the full slice, shifted past the erased position, is an insertion point of
    the slice without the evicted element -/
theorem insertPos_erase (l : List β) (v : β) (j p : Nat) (hj : j < l.length) (hp : InsertPos l v p) :
    InsertPos (l.eraseIdx j) v (p - (if j < p then 1 else 0)) := by
  obtain ⟨hle, hlo, hhi⟩ := hp
  have hlen : (l.eraseIdx j).length = l.length - 1 := List.length_eraseIdx_of_lt hj
  refine ⟨by split <;> omega, ?_, ?_⟩
  · intro k hk hkp
    rw [List.getElem_eraseIdx]
    split
    · exact hlo k (by omega) (by split at hkp <;> omega)
    · exact hlo (k + 1) (by omega) (by split at hkp <;> omega)
  · intro k hk hkp
    rw [List.getElem_eraseIdx]
    split
    · exact hhi k (by omega) (by split at hkp <;> omega)
    · exact hhi (k + 1) (by omega) (by split at hkp <;> omega)

namespace SMM

structure Inv (P : Nat) (s : SMM β) : Prop where
  winv : Window.Inv P s.window
  pos : 0 < s.window.size
  sorted : s.slice.Pairwise (· ≤ ·)
  perm : s.slice.Perm (Window.toList s.window)

theorem slice_length {s : SMM β} (h : Inv P s) : s.slice.length = s.window.size := by
  rw [h.perm.length_eq, toList_length_inv h.winv]

/-- one step: no panic, the slice stays the sorted arrangement of the window -/
theorem step_spec {s : SMM β} (value : β) (h : Inv P s) :
    ∃ s', s.step value = .ok s' ∧ Inv P s' ∧
      Window.toList s'.window = (Window.toList s.window).tail ++ [value] ∧ s'.half = s.half ∧ s'.half_m1 = s.half_m1 := by
  obtain ⟨old, w', hp, hinv', hsz, hhead, htl⟩ := Window.push_spec value h.winv h.pos
  have hn := slice_length h
  have holdmem : old ∈ s.slice := by
    rw [h.perm.mem_iff]
    exact List.mem_of_mem_head? hhead
  obtain ⟨j, hj, hjv⟩ := findIndex_spec (s.slice.length + 1) old s.slice 0 h.sorted holdmem (by omega)
  obtain ⟨p, hpp, hpos⟩ := findInsertIndex_spec (s.slice.length + 1) value s.slice 0 h.sorted (by omega)
  simp only [Nat.zero_add] at hj hpp
  have hjlt : j < s.slice.length := (List.getElem?_eq_some_iff.mp hjv).1
  have hjval : s.slice[j] = old := (List.getElem?_eq_some_iff.mp hjv).2
  have hple : p ≤ s.slice.length := hpos.1
  set index := p - (if j < p then 1 else 0) with hindex
  have hilt : index < s.slice.length := by rw [hindex]; split <;> omega
  have hE := insertPos_erase s.slice value j p hjlt hpos
  have hEs : (s.slice.eraseIdx j).Pairwise (· ≤ ·) := List.Pairwise.sublist (List.eraseIdx_sublist _ _) h.sorted
  -- the updated slice, whichever way the elements are shifted
  have hR : (if index > j then copyWithin s.slice (j + 1) (index + 1) j
             else if index < j then copyWithin s.slice index j (index + 1) else s.slice).set index value =
      (s.slice.eraseIdx j).take index ++ value :: (s.slice.eraseIdx j).drop index := by
    by_cases h1 : index > j
    · simp only [h1, ↓reduceIte]; exact moved_gt s.slice j index value h1 hilt
    · by_cases h2 : index < j
      · simp only [h1, h2, ↓reduceIte]; exact moved_lt s.slice j index value h2 hjlt
      · have hij : index = j := by omega
        rw [hij]
        simp only [gt_iff_lt, Nat.lt_irrefl, ↓reduceIte]
        exact moved_eq s.slice j value hjlt
  have hstep : s.step value = .ok { s with window := w', slice := (s.slice.eraseIdx j).take index ++ value :: (s.slice.eraseIdx j).drop index } := by
    unfold SMM.step
    simp only [hp, hj, hpp]
    have hc : ¬ (index ≥ s.slice.length ∨ j ≥ s.slice.length) := by omega
    rw [← hindex]
    simp only [hc, ↓reduceIte, hR]
  refine ⟨_, hstep, ⟨hinv', by show 0 < w'.size; omega, sorted_insert _ _ _ hEs hE, ?_⟩, htl, rfl, rfl⟩
  show ((s.slice.eraseIdx j).take index ++ value :: (s.slice.eraseIdx j).drop index).Perm (Window.toList w')
  rw [htl]
  have h1 : ((s.slice.eraseIdx j).take index ++ value :: (s.slice.eraseIdx j).drop index).Perm
      (value :: s.slice.eraseIdx j) := by
    refine List.perm_middle.trans ?_
    rw [List.take_append_drop]
  have h2 : (old :: s.slice.eraseIdx j).Perm s.slice := by
    rw [← hjval]; exact List.getElem_cons_eraseIdx_perm hjlt
  obtain ⟨a, t, hat⟩ := List.exists_cons_of_ne_nil (Window.toList_ne_nil h.winv h.pos)
  rw [hat] at hhead
  simp only [List.head?_cons, Option.some.injEq] at hhead
  subst hhead
  have h3 : (s.slice.eraseIdx j).Perm t := by
    have := h2.trans h.perm
    rw [hat] at this
    exact List.Perm.cons_inv this
  rw [hat, List.tail_cons]
  exact h1.trans ((List.Perm.cons value h3).trans (List.perm_append_singleton value t).symm)

theorem new_spec {n : Nat} (v : β) (hn0 : 0 < n) (hn : n ≤ P - 1) :
    ∃ s, SMM.new P n v = .ok s ∧ Inv P s ∧ Window.toList s.window = List.replicate n v ∧
      s.half = n / 2 ∧ s.half_m1 = n / 2 - (if n % 2 = 0 then 1 else 0) := by
  have hnP : n ≠ P := by omega
  obtain ⟨w, hw, hinv, htl, hsz⟩ := Window.new_ok (P := P) v hn
  refine ⟨{ half := n / 2, half_m1 := satSub (n / 2) (if n % 2 = 0 then 1 else 0), window := w, slice := List.replicate n v },
    by simp [SMM.new, Nat.pos_iff_ne_zero.mp hn0, hnP, hw, Res.ofExcept, Res.bind],
    ⟨hinv, by show 0 < w.size; omega, ?_, by show (List.replicate n v).Perm (Window.toList w); rw [htl]⟩, htl, rfl, ?_⟩
  · show (List.replicate n v).Pairwise (· ≤ ·)
    rw [List.pairwise_replicate]; right; exact le_refl v
  · show satSub (n / 2) (if n % 2 = 0 then 1 else 0) = _
    unfold satSub; split <;> omega

/-- the slice of an invariant state IS the ascending sort of the window -/
theorem slice_eq_sort {s : SMM β} (h : Inv P s) :
    s.slice = (Window.toList s.window).mergeSort (fun a b => decide (a ≤ b)) := by
  apply List.Perm.eq_of_pairwise' (r := (· ≤ ·)) h.sorted
  · have := List.pairwise_mergeSort (le := fun a b : β => decide (a ≤ b))
      (fun a b c hab hbc => by simp only [decide_eq_true_eq] at *; exact le_trans hab hbc)
      (fun a b => by simp only [Bool.or_eq_true, decide_eq_true_eq]; exact le_total a b) (Window.toList s.window)
    exact this.imp (fun h => by simpa using h)
  · exact h.perm.trans (List.mergeSort_perm _ _).symm

/-- every reachable state, every stream: after the inputs `xs` the slice is the ascending sort (total order of the
    bit patterns) of the last `n` values, and `mid` returns its two middle elements (the same one for odd `n`) -/
theorem run_spec {n : Nat} (v : β) (hn0 : 0 < n) (hn : n ≤ P - 1) (xs : List β) :
    ∃ s0 s', SMM.new P n v = .ok s0 ∧ (xs.foldlM (fun s x => SMM.step s x) s0 = .ok s') ∧
      s'.slice = (lastN n (history n v xs)).mergeSort (fun a b => decide (a ≤ b)) ∧
      s'.half = n / 2 ∧ s'.half_m1 = n / 2 - (if n % 2 = 0 then 1 else 0) ∧
      ∃ a b, s'.mid = .ok (a, b) ∧ s'.slice[n / 2]? = some a ∧ s'.slice[n / 2 - (if n % 2 = 0 then 1 else 0)]? = some b := by
  obtain ⟨s0, hnew, hinv0, htl0, hh0, hm0⟩ := new_spec (P := P) v hn0 hn
  have key : ∀ (xs : List β) (h : List β) (s : SMM β), Inv P s → Window.toList s.window = lastN n (history n v h) →
      n ≤ (history n v h).length → s.half = n / 2 → s.half_m1 = n / 2 - (if n % 2 = 0 then 1 else 0) →
      ∃ s', xs.foldlM (fun s x => SMM.step s x) s = .ok s' ∧ Inv P s' ∧
        Window.toList s'.window = lastN n (history n v (h ++ xs)) ∧ s'.half = n / 2 ∧
        s'.half_m1 = n / 2 - (if n % 2 = 0 then 1 else 0) := by
    intro xs
    induction xs with
    | nil => intro h s hi ht _ h1 h2; exact ⟨s, rfl, hi, by simpa using ht, h1, h2⟩
    | cons x t ih =>
      intro h s hi ht hl h1 h2
      obtain ⟨s1, hst, hi1, ht1, hh1, hm1⟩ := step_spec x hi
      have e : Window.toList s1.window = lastN n (history n v (h ++ [x])) := by
        rw [ht1, ht, history_snoc, lastN_snoc x hn0 hl]
      obtain ⟨s', hf, hi', ht', h1', h2'⟩ := ih (h ++ [x]) s1 hi1 e (by rw [history_snoc]; simp; omega)
        (by rw [hh1, h1]) (by rw [hm1, h2])
      refine ⟨s', ?_, hi', by simpa [List.append_assoc] using ht', h1', h2'⟩
      simp only [List.foldlM_cons, hst, bind, Except.bind]
      exact hf
  obtain ⟨s', hf, hi', ht', h1', h2'⟩ := key xs [] s0 hinv0 (by rw [htl0, lastN_history_nil]) (by simp [history]) hh0 hm0
  have hlen : s'.slice.length = n := by
    rw [slice_length hi', ← toList_length_inv hi'.winv, ht']
    simp only [List.nil_append]
    rw [lastN_length (by simp [history])]
  have hslice := slice_eq_sort hi'
  rw [ht'] at hslice
  simp only [List.nil_append] at hslice
  have ha : n / 2 < s'.slice.length := by rw [hlen]; exact Nat.div_lt_self hn0 (by norm_num)
  have hb : n / 2 - (if n % 2 = 0 then 1 else 0) < s'.slice.length := by omega
  refine ⟨s0, s', hnew, hf, hslice, h1', h2', s'.slice[n / 2], s'.slice[n / 2 - (if n % 2 = 0 then 1 else 0)], ?_,
    List.getElem?_eq_getElem ha, List.getElem?_eq_getElem hb⟩
  unfold SMM.mid
  rw [h1', h2', List.getElem?_eq_getElem ha, List.getElem?_eq_getElem hb]

end SMM
end SMMInv

end Yata
