/-
  C17 — Time-series converters keep the information they claim to keep.

  * CollapseTimeframe (any linear ordered field, any period ≥ 1, any stream): emits exactly when
    the number of inputs is a multiple of the period, and then the aggregate of the last `period`
    inputs; the aggregate has the first open, highest high, lowest low, last close and summed
    volume (`C17_aggregate`, shared with the batch `collapse_timeframe`, which the correspondence run
    compares with the streaming method on every generated stream).
  * HeikinAshi: follows its recursion (C03) and maps valid candles to valid candles.
  * Renko, in exact rational arithmetic: reaching the boundary means at least one whole brick (so the
    `.max(1)` guard of the repaired code only acts against floating-point rounding), the new state is
    consistent, no brick is left pending after a rising emission, and the emitted blocks are `len`
    contiguous bricks of equal size relative to the base line, one direction, carrying in total the
    volume consumed since the previous emission.  "Never panics on a boundary price" is a property of
    the floating-point code; it is covered by the correspondence run with prices on / one ulp around
    the boundaries read from the implementation's own state.  The falling branch is symmetric in the
    code; its theorem is not yet written (validated only).
-/
import YataProofs.Converters
import YataProofs.RenkoRun
import YataProofs.HARun
namespace Yata.C17
open Yata
variable {K : Type} [Field K] [LinearOrder K] [IsStrictOrderedRing K]

theorem C17_collapse_new (p : Nat) (c : Candle K) :
    (0 < p → ∃ s, CollapseTimeframe.new p c = .ok s ∧ CollapseTimeframe.Inv p [] s) ∧
    (CollapseTimeframe.new 0 c = .err .wrongMethodParameters) :=
  ⟨fun hp => CollapseTimeframe.new_spec p hp c, rfl⟩

/-- every reachable state: after the inputs `h ++ [x]` the output is the aggregate of the last
    `p` inputs exactly when `p` divides the number of inputs so far, otherwise nothing -/
theorem C17_collapse_step {p : Nat} {h : List (Candle K)} {s : CollapseTimeframe K} (x : Candle K)
    (hi : CollapseTimeframe.Inv p h s) :
    CollapseTimeframe.Inv p (h ++ [x]) (s.next x).2 ∧
    (s.next x).1 = (if p ∣ (h ++ [x]).length then aggregate (lastN p (h ++ [x])) else none) :=
  CollapseTimeframe.next_spec x hi

/-- over whole streams -/
theorem C17_collapse_run (p : Nat) (hp : 0 < p) (c0 : Candle K) (xs : List (Candle K)) :
    ∃ s0 outs s', CollapseTimeframe.new p c0 = .ok s0 ∧
      runM (liftNext CollapseTimeframe.next) s0 xs = .ok (outs, s') ∧ outs.length = xs.length ∧
      ∀ i (hi : i < outs.length),
        outs[i] = (if p ∣ (i + 1) then aggregate (lastN p (xs.take (i + 1))) else none) := by
  obtain ⟨s0, hn, hi0⟩ := CollapseTimeframe.new_spec p hp c0
  obtain ⟨os, s', hr, _, hlen, houts⟩ :=
    runM_invariant (liftNext CollapseTimeframe.next) (CollapseTimeframe.Inv p)
      (fun h o => o = (if p ∣ h.length then aggregate (lastN p h) else none))
      (by
        intro h s x hinv
        obtain ⟨h1, h2⟩ := CollapseTimeframe.next_spec x hinv
        exact ⟨_, _, rfl, h1, h2⟩)
      xs [] s0 hi0
  refine ⟨s0, os, s', hn, hr, hlen, ?_⟩
  intro i hi
  have := houts i hi
  simp only [List.nil_append] at this
  rw [this, List.length_take, Nat.min_eq_left (by omega)]

theorem C17_aggregate (x : Candle K) (xs : List (Candle K)) :
    let r := xs.foldl Candle.add x
    r.open_ = x.open_ ∧ r.close = ((x :: xs).getLast (by simp)).close ∧
    r.high = (xs.map (·.high)).foldl max x.high ∧ r.low = (xs.map (·.low)).foldl min x.low ∧
    r.volume = x.volume + (xs.map (·.volume)).sum := Candle.foldl_add x xs

theorem C17_heikin_ashi_valid (s : HeikinAshi K) (c : Candle K) (hs : 0 < s.next_open)
    (hv : c.validateFinite = true) :
    (s.next c).1.validateFinite = true ∧ 0 < (s.next c).2.next_open ∧ (s.next c).1.volume = c.volume :=
  HeikinAshi.next_valid s c hs hv

theorem C17_heikin_ashi_init (c : Candle K) (hv : c.validateFinite = true) : 0 < (HeikinAshi.new c).next_open :=
  HeikinAshi.new_pos c hv

theorem C17_renko_rising (s : Renko) (c : Candle ℚ) (h : Renko.Inv s) (hv : s.next_block_upper ≤ c.source s.src) :
    ∃ o, (s.next c).1 = some o ∧
      1 ≤ Renko.truncNat ((c.source s.src - s.last_block_upper) / s.last_block_upper / s.brick_size) ∧
      o.len = Renko.truncNat ((c.source s.src - s.last_block_upper) / s.last_block_upper / s.brick_size) ∧
      o.base_line = s.last_block_upper ∧ o.brick_size = s.brick_size ∧
      Renko.Inv (s.next c).2 ∧ (s.next c).2.volume = 0 ∧
      c.source s.src < (s.next c).2.next_block_upper ∧
      o.totalVolume = s.volume + c.volume := Renko.next_up s c h hv

theorem C17_renko_falling (s : Renko) (c : Candle ℚ) (h : Renko.Inv s) (hnu : ¬ s.next_block_upper ≤ c.source s.src)
    (hv : c.source s.src ≤ s.next_block_lower) (hpos : 0 < c.source s.src) :
    ∃ o, (s.next c).1 = some o ∧
      1 ≤ Renko.truncNat ((s.last_block_lower - c.source s.src) / s.last_block_lower / s.brick_size) ∧
      o.len = Renko.truncNat ((s.last_block_lower - c.source s.src) / s.last_block_lower / s.brick_size) ∧
      o.base_line = s.last_block_lower ∧ o.brick_size = -s.brick_size ∧
      (s.next c).2.last_block_upper = s.last_block_lower * (1 - s.brick_size * ((o.len - 1 : ℕ) : ℚ)) ∧
      (s.next c).2.last_block_lower = s.last_block_lower * (1 - s.brick_size * (o.len : ℚ)) ∧
      c.source s.src ≤ (s.next c).2.last_block_lower ∧
      Renko.Inv (s.next c).2 ∧ (s.next c).2.volume = 0 ∧
      o.totalVolume = s.volume + c.volume := Renko.next_down s c h hnu hv hpos

theorem C17_renko_blocks (o : RenkoOut) (hlen : 1 ≤ o.len) :
    o.blocks.length = o.len ∧
    (∀ j, j + 1 < o.len → (o.block j).close = (o.block (j + 1)).open_) ∧
    (∀ j, (o.block j).close - (o.block j).open_ = o.brick_size * o.base_line) ∧
    (∀ j, (o.block j).volume = o.block_volume) ∧
    (o.blocks.map (·.volume)).sum = o.totalVolume ∧
    (o.block 0).open_ = o.base_line := Renko.blocks_spec o hlen

/-- the aggregate view of a step's bricks closes where its last brick closes and opens where its first opens -/
theorem C17_renko_aggregate (o : RenkoOut) (h : 0 < o.len) :
    o.close = (o.block (o.len - 1)).close ∧ (o.block 0).open_ = o.base_line := by
  unfold RenkoOut.close RenkoOut.block
  have e : ((o.len - 1 + 1 : Nat)) = o.len := by omega
  simp only [e]
  constructor
  · ring
  · simp

/-! non-vacuity: a concrete Renko state (bricks of 1% around 100) satisfies the invariant and a
    price on the boundary satisfies the hypothesis of `C17_renko_rising` -/
example : Renko.Inv ⟨101, 99, 101 * (1 + 1 / 100), 99 * (1 - 1 / 100), 1 / 100, .close, 0⟩ ∧
    (101 * (1 + 1 / 100) : ℚ) ≤ (⟨0, 0, 0, 101 * (1 + 1 / 100), 1⟩ : Candle ℚ).source .close := by
  refine ⟨?_, by simp [Candle.source]⟩
  constructor <;> norm_num

/-- Renko over whole streams, from the constructor: on every stream of candles whose source price is positive the state
    stays consistent, every emitted output has at least one brick, and the volume of everything emitted plus the volume still
    pending equals the volume of all candles consumed -/
theorem C17_renko_run (eps brick : ℚ) (src : Source) (c0 : Candle ℚ) (s0 : Renko) (he : 0 < eps) (hc0 : 0 < c0.source src)
    (h0 : Renko.new eps brick src c0 = .ok s0) (cs : List (Candle ℚ)) (hcs : ∀ k ∈ cs, 0 < k.source src) :
    Renko.Inv (Renko.run s0 cs).2 ∧
    (∀ o ∈ (Renko.run s0 cs).1, ∀ r, o = some r → 1 ≤ r.len) ∧
    (((Renko.run s0 cs).1.map Renko.emitted).sum + (Renko.run s0 cs).2.volume = (cs.map (·.volume)).sum) :=
  Renko.run_spec eps brick src c0 s0 he hc0 h0 cs hcs

/-- one Renko step from a consistent state: an output is emitted exactly when the price has reached one of the two next
    boundaries (this includes a price exactly on a boundary), with at least one brick, and the volume balance holds -/
theorem C17_renko_step (s : Renko) (c : Candle ℚ) (h : Renko.Inv s) (hpos : 0 < c.source s.src) :
    Renko.Inv (s.next c).2 ∧ (s.next c).2.src = s.src ∧
    ((s.next c).1.isSome ↔ (s.next_block_upper ≤ c.source s.src ∨ c.source s.src ≤ s.next_block_lower)) ∧
    (∀ o, (s.next c).1 = some o → 1 ≤ o.len ∧ o.brick_size ≠ 0) ∧
    Renko.emitted (s.next c).1 + (s.next c).2.volume = s.volume + c.volume := Renko.next_step s c h hpos

/-- Heikin-Ashi over whole streams: started from a valid candle, on every stream of valid candles every output is a valid
    candle with its input's volume, closes at the input's ohlc4 and opens at the mean of the previous output's open and close -/
theorem C17_heikin_ashi_run (c0 : Candle K) (h0 : c0.validateFinite = true) (cs : List (Candle K))
    (hcs : ∀ c ∈ cs, c.validateFinite = true) :
    let outs := (HeikinAshi.run (HeikinAshi.new c0) cs).1
    outs.length = cs.length ∧
    (∀ i (hi : i < outs.length) (hj : i < cs.length), (outs[i]).validateFinite = true ∧ (outs[i]).volume = (cs[i]).volume ∧
      (outs[i]).close = (cs[i]).ohlc4) ∧
    (∀ i (hi : i + 1 < outs.length), (outs[i + 1]).open_ = ((outs[i]'(by omega)).open_ + (outs[i]'(by omega)).close) * (1 / ((2 : Nat) : K))) ∧
    (∀ (hi : 0 < outs.length), (outs[0]).open_ = c0.ohlc4) := HeikinAshi.run_valid c0 h0 cs hcs

end Yata.C17

#print axioms Yata.C17.C17_collapse_new
#print axioms Yata.C17.C17_collapse_step
#print axioms Yata.C17.C17_collapse_run
#print axioms Yata.C17.C17_aggregate
#print axioms Yata.C17.C17_heikin_ashi_valid
#print axioms Yata.C17.C17_heikin_ashi_init
#print axioms Yata.C17.C17_renko_rising
#print axioms Yata.C17.C17_renko_blocks
#print axioms Yata.C17.C17_renko_falling
#print axioms Yata.C17.C17_renko_aggregate
#print axioms Yata.C17.C17_renko_run
#print axioms Yata.C17.C17_renko_step
#print axioms Yata.C17.C17_heikin_ashi_run
