/-
  C16 — Action is a consistent signed-strength algebra.

  Model: `YataModel/Action.lean` (513 values, strengths ≤ 255 = `Action.WF`) and
  `YataModel/F64.lean` (binary64 bit patterns in Nat arithmetic: NaN test, `x*255.0` with
  round-to-nearest-even, `round()` half away from zero, saturating `as u8`, `k/255.0`).

  Proved: totality (Lean functions are total; every result is well-formed), NaN ↦ None,
  saturation, sign preservation, ratio ∈ [-1,1], from(ratio a) = a for all 513 actions at the
  bit level, negation is an involution negating the ratio, `a - b` has ratio
  clamp(ratio a − ratio b), analog/sign follow the sign of the ratio, equality is an
  equivalence relation.
  NOT provable because false of the code (see `C16_cmp_eq_inconsistent`): "the ordering is
  consistent with equality" — `Buy(0) == Sell(0)` but `Buy(0) < Sell(0)`; the partial statement
  excludes exactly that pair. Recorded in KNOWN_FINDINGS.txt.
  Monotonicity of the f64 conversion is proved on the bit level (`C16_monotone`: for every pair of non-NaN bit patterns
  in the order of the floats, −0.0 = +0.0) and for the rational model with any monotone rounding (`C16_monotone_model`);
  the f32 conversion is validated (thorough tier: every f32 bit pattern, monotone in-process).
-/
import YataProofs.Action
import YataProofs.ActMono
import YataProofs.StrMono
namespace Yata.C16
open Yata Yata.Action

theorem C16_total_wf (b : Nat) : (F64.toAction b).WF := F64.toAction_wf b

theorem C16_nan_is_none {b : Nat} (h : F64.isNaN b = true) : F64.toAction b = .none := F64.toAction_nan h

theorem C16_sign_preserved {b : Nat} (h : F64.isNaN b = false) :
    (F64.sign b = true → ∃ v, F64.toAction b = .sell v) ∧ (F64.sign b = false → ∃ v, F64.toAction b = .buy v) :=
  F64.toAction_sign h

theorem C16_saturates {b : Nat} (h : F64.isNaN b = false) (he : F64.expo b ≥ 1023) :
    F64.toAction b = if F64.sign b then Action.sellAll else Action.buyAll :=
  F64.toAction_saturates h he

theorem C16_from_i8 (v : Int) :
    (v = 0 → ofI8 v = .none) ∧ (v > 0 → ofI8 v = buyAll) ∧ (v < 0 → ofI8 v = sellAll) := ofI8_cases v

theorem C16_ratio_range {a : Action} (h : a.WF) : -1 ≤ a.ratio0 ∧ a.ratio0 ≤ 1 := ratio0_range h

/-- `from(ratio(a)) = a` through the real float operations, all 513 actions -/
theorem C16_from_ratio (a : Action) (h : a.WF) :
    (F64.ratioBits a).map F64.toAction = (match a with | .none => Option.none | a => some a) := F64.from_ratio a h

theorem C16_neg_involution (a : Action) : a.neg.neg = a ∧ a.neg.ratio0 = -a.ratio0 :=
  ⟨neg_neg a, ratio0_neg a⟩

theorem C16_sub_ratio {a b : Action} (ha : a.WF) (hb : b.WF) :
    (a.sub b).WF ∧ (a.sub b).ratio0 = clamp (a.ratio0 - b.ratio0) := ⟨sub_wf ha hb, ratio0_sub ha hb⟩

theorem C16_analog_sign (a : Action) :
    (a.analog = 1 ↔ 0 < a.ratio0) ∧ (a.analog = -1 ↔ a.ratio0 < 0) ∧ (a.analog = 0 ↔ a.ratio0 = 0) ∧
    a.sign = (if a = .none then Option.none else some a.analog) :=
  ⟨(analog_sign a).1, (analog_sign a).2.1, (analog_sign a).2.2, sign_eq a⟩

theorem C16_eq_equivalence :
    (∀ a : Action, a.eq a = true) ∧ (∀ a b : Action, a.eq b = true → b.eq a = true) ∧
    (∀ a b c : Action, a.eq b = true → b.eq c = true → a.eq c = true) :=
  ⟨eq_refl, fun _ _ => eq_symm, fun _ _ _ => eq_trans⟩

/-- the full consistency statement is false of the code: concrete witness -/
theorem C16_cmp_eq_inconsistent :
    (buy 0).eq (sell 0) = true ∧ (buy 0).cmp (sell 0) = .lt ∧
    (buy 0).cmp (buy 1) = .lt ∧ (buy 1).cmp none = .lt ∧ none.cmp (sell 0) = .lt :=
  cmp_eq_inconsistent_witness

theorem C16_cmp_consistent_partial {a b : Action} (h : a.eq b = true)
    (hz : ¬ ((a = buy 0 ∧ b = sell 0) ∨ (a = sell 0 ∧ b = buy 0))) : a.cmp b = .eq :=
  cmp_consistent_partial h hz

/-- monotone: a larger float never converts to an action of smaller ratio (bit level, all 2^64 − NaN patterns) -/
theorem C16_monotone (b1 b2 : Nat) (n1 : F64.isNaN b1 = false) (n2 : F64.isNaN b2 = false) (h : F64.le b1 b2) :
    (F64.toAction b1).ratio0 ≤ (F64.toAction b2).ratio0 := F64.toAction_mono b1 b2 n1 n2 h

/-- the same for the rational model of the conversion, with any monotone rounding of the product -/
theorem C16_monotone_model (rne : Rat → Rat) (hm : ∀ a b : ℚ, a ≤ b → rne a ≤ rne b) (q1 q2 : ℚ) (h : q1 ≤ q2) :
    (ofRatWith rne (decide (q1 < 0)) q1).ratio0 ≤ (ofRatWith rne (decide (q2 < 0)) q2).ratio0 :=
  ofRatWith_mono rne hm q1 q2 h

/-! non-vacuity -/
example : F64.le 0xbfe0000000000000 0x3fd0000000000000 := by   -- −0.5 ≤ 0.25
  have h1 : F64.sign 0xbfe0000000000000 = true := by decide +kernel
  have h2 : F64.sign 0x3fd0000000000000 = false := by decide +kernel
  simp only [F64.le, h1, h2]
example : (buy 5).WF ∧ (sell 3).WF ∧ (buy 5).sub (sell 3) = buy 8 := by decide
example : F64.toAction 0x3fe0000000000000 = buy 128 := by decide +kernel   -- 0.5 ↦ round(127.5) = 128

end Yata.C16

#print axioms Yata.C16.C16_total_wf
#print axioms Yata.C16.C16_nan_is_none
#print axioms Yata.C16.C16_sign_preserved
#print axioms Yata.C16.C16_saturates
#print axioms Yata.C16.C16_from_i8
#print axioms Yata.C16.C16_ratio_range
#print axioms Yata.C16.C16_from_ratio
#print axioms Yata.C16.C16_neg_involution
#print axioms Yata.C16.C16_sub_ratio
#print axioms Yata.C16.C16_analog_sign
#print axioms Yata.C16.C16_eq_equivalence
#print axioms Yata.C16.C16_cmp_eq_inconsistent
#print axioms Yata.C16.C16_cmp_consistent_partial
#print axioms Yata.C16.C16_monotone
#print axioms Yata.C16.C16_monotone_model
