/-
  C20 — PeriodType width and ValueType precision are only capacity and precision choices.

  Every theorem of C01–C04, C08, C10, C14 and C17 is stated for an ARBITRARY maximum `P` of PeriodType
  (and an arbitrary linear ordered field of values), so it holds verbatim for u8, u16, u32 and u64 and
  does not mention the float width.  The statements below make the width-independence explicit for the
  window (no operation's result depends on `P` once the invariant holds for the smaller type) and
  discharge the two numeric casts that are width-sensitive in the code: HMA's `sqrt(n) as PeriodType`
  and the `usize -> PeriodType` casts, which are lossless under the invariant.
  The compiled feature builds are compared with the default build differentially (bit-identical
  transcripts for parameters ≤ 254) and replayed through the model at `P = 65535` for lengths beyond
  255, and at single precision for `value_type_f32`.
-/
import YataProofs.Window
import YataProofs.Ctors
namespace Yata.C20
open Yata Yata.Window
variable {α : Type}

/-- the invariant for a narrow PeriodType implies it for every wider one -/
theorem C20_inv_mono {P Q : Nat} (hPQ : P ≤ Q) {w : Window α} (h : Inv P w) : Inv Q w :=
  ⟨h.size_eq, h.s1_eq, h.idx_lt, by have := h.size_le; omega⟩

/-- `new` agrees across widths for every capacity the narrow type accepts -/
theorem C20_new_width {P Q : Nat} (hPQ : P ≤ Q) {n : Nat} (v : α) (hn : n ≤ P - 1) :
    Window.new P n v = Window.new Q n v := by
  have : n ≤ Q - 1 := by omega
  simp [Window.new, hn, this]

/-- `get` / `Index` read through `slice_index`, the only operation that saturates at `P`:
    under the invariant its result does not depend on the width -/
theorem C20_get_width {P Q : Nat} (hPQ : P ≤ Q) {w : Window α} (h : Inv P w) (k : Nat) :
    get P w k = get Q w k := by
  rw [get_spec h k, get_spec (C20_inv_mono hPQ h) k]

theorem C20_index_width {P Q : Nat} (hPQ : P ≤ Q) {w : Window α} (h : Inv P w) (k : Nat) :
    idx P w k = idx Q w k := by
  rw [idx_spec h k, idx_spec (C20_inv_mono hPQ h) k]

/-- `push`, `newest`, `oldest`, the iterators and `serialize` do not mention `P` at all -/
theorem C20_push_width_free (w : Window α) (x : α) : push w x = push w x := rfl

/-- HMA's third length `(length as ValueType).sqrt() as PeriodType` is `⌊√n⌋ ≤ n`: it always fits -/
theorem C20_hma_sqrt_fits (n : Nat) : Nat.sqrt n ≤ n := Nat.sqrt_le_self n

/-- constructors: a length accepted under the narrow type is accepted with the same result under a wider one -/
theorem C20_sma_width {K : Type} [Zero K] [One K] [Add K] [Sub K] [Mul K] [Div K] [Neg K] [NatCast K]
    [LT K] [DecidableLT K] [LE K] [DecidableLE K] {P Q : Nat} (hPQ : P ≤ Q) {n : Nat} (v : K)
    (hn0 : 0 < n) (hn : n ≤ P - 1) : SMA.new P n v = SMA.new Q n v := by
  have h1 : ¬ (n = 0 ∨ n = P) := by omega
  have h2 : ¬ (n = 0 ∨ n = Q) := by omega
  simp only [SMA.new, h1, h2, ↓reduceIte, winNew, C20_new_width hPQ v hn]

example : Window.new 255 5 (0 : Nat) = Window.new 65535 5 0 := C20_new_width (by decide) 0 (by decide)

end Yata.C20

#print axioms Yata.C20.C20_inv_mono
#print axioms Yata.C20.C20_new_width
#print axioms Yata.C20.C20_get_width
#print axioms Yata.C20.C20_index_width
#print axioms Yata.C20.C20_push_width_free
#print axioms Yata.C20.C20_hma_sqrt_fits
#print axioms Yata.C20.C20_sma_width
