/-
  C12 — Documented value ranges and ordering invariants hold on every valid stream (exact arithmetic).

  * RSI value in [0,1] for non-negative averaged gains and losses; money-flow value in [0,1] for non-negative flows;
    `(P−N)/(P+N)` in [−1,1]; Chande momentum from every invariant state: the sums stay non-negative window sums, so the
    value stays in [−1,1] for ever (`C12_cmo`).
  * Raw stochastic %K in [0,1] whenever the close lies in the channel; Aroon values in [0,1].
  * Donchian / price channel (every reachable state): the channel contains the candle just consumed (`C12_channel_contains`).
  * Parabolic SAR (every reachable state, every candle with low ≤ high): the returned SAR is ≤ the low in an up-trend and
    ≥ the high in a down-trend (`C12_sar_side`).
  * Bollinger: the model's variance is ≥ 0 so for sigma > 0 upper ≥ middle ≥ lower; StDev² ≥ 0; true range ≥ 0; CLV in [−1,1].
  * Over WHOLE candle streams, from the constructor (no step panics; the bound holds at every step):
    Aroon [0,1] (`C12_aroon_run`); RSI [0,1] for every non-overshooting kind (`C12_rsi_run`); MoneyFlowIndex [0,1] for
    non-negative volumes (`C12_mfi_reachable`); Stochastic, both lines, [0,1] for every pair of non-overshooting kinds
    (`C12_stochastic_run`); Chande momentum [−1,1] (`C12_cmo_run`); Chaikin money flow [−1,1] wherever the window's volume is
    not zero (`C12_cmf_reachable`); TSI [−1,1] (`C12_tsi_range`); TrendStrengthIndex p² ≤ q (`C12_trend_strength_range`);
    Bollinger variance ≥ 0 hence upper ≥ middle ≥ lower (`C12_bollinger_run`); Keltner lower ≤ upper for every
    configuration (`C12_keltner_run`); Donchian contains the candle (`C12_channel_reachable`); LinearVolatility,
    MeanAbsDev ≥ 0 (`C12_linear_volatility_nonneg`, `C12_mean_abs_dev_nonneg`).
    "Non-overshooting kind": all but HMA, DEMA, TEMA, LinReg (`C12_every_smooth_kind_hull`, from the C15 hull theorems).
  The float side — rounding residue of either sign behind exact `== 0` guards — is what these theorems cannot see; the
  correspondence run tests the ranges strictly on the implementation's own values (see KNOWN_FINDINGS.txt).
    Price channel upper ≥ lower and Donchian lowest ≤ middle ≤ highest (`C12_channels_order_run`).
  Partial: the SMI signal line and Envelopes ordering for arbitrary kinds: run only.
-/
import YataProofs.Indicators.More
import YataProofs.Numeric.LinVol
import YataProofs.Indicators.Keltner
import YataProofs.Indicators.CMFRange
import YataProofs.Indicators.MFIRange
import YataProofs.Indicators.TSIndRange
import YataProofs.Indicators.StochRange
import YataProofs.Indicators.Realises2
import YataProofs.Indicators.CMFRun
import YataProofs.Indicators.StochRun
import YataProofs.Indicators.RSIRun
import YataProofs.Indicators.BBRun
import YataProofs.Indicators.KeltnerRun
import YataProofs.Indicators.CMORun
import YataProofs.Indicators.ADXRun
import YataProofs.Indicators.AnyState
import YataProofs.Indicators.SARRun
import YataProofs.Indicators.TSIxRun
import YataProofs.Indicators.EnvRun
import YataProofs.Indicators.AroonRun
import YataProofs.Indicators.PChanRun
import YataProofs.Numeric.TSIRange
import YataProofs.Numeric.MeanAbsDev
namespace Yata.C12
open Yata Yata.Ind

theorem C12_rsi_range (pos neg : ℚ) (h1 : 0 ≤ pos) (h2 : 0 ≤ neg) :
    0 ≤ (if pos + neg = 0 then half else pos / (pos + neg)) ∧ (if pos + neg = 0 then half else pos / (pos + neg)) ≤ 1 :=
  RSI.value_range pos neg h1 h2

theorem C12_mfi_range (p n : ℚ) (hp : 0 ≤ p) (hn : 0 ≤ n) :
    0 ≤ (if n = 0 then half else p / (p + n)) ∧ (if n = 0 then half else p / (p + n)) ≤ 1 := mfi_range p n hp hn

theorem C12_diff_ratio_range (p n : ℚ) (hp : 0 ≤ p) (hn : 0 ≤ n) :
    -1 ≤ (if p + n = 0 then 0 else (p - n) / (p + n)) ∧ (if p + n = 0 then 0 else (p - n) / (p + n)) ≤ 1 :=
  diff_ratio_range p n hp hn

theorem C12_cmo {P : Nat} {s : CMO} (k : Candle ℚ) (h : CMO.Inv P s) :
    ∃ v s', s.vals k = .ok ([v], s') ∧ CMO.Inv P s' ∧ 0 ≤ s'.pos_sum ∧ 0 ≤ s'.neg_sum ∧ -1 ≤ v.value ∧ v.value ≤ 1 := by
  obtain ⟨v, s', h1, h2, h3, h4, _, h6, h7⟩ := CMO.vals_spec k h
  exact ⟨v, s', h1, h2, h3, h4, h6, h7⟩

theorem C12_stoch_k_range (close hi lo : ℚ) (h1 : lo ≤ close) (h2 : close ≤ hi) :
    0 ≤ Stoch.kRows close hi lo ∧ Stoch.kRows close hi lo ≤ 1 := kRows_range close hi lo h1 h2

theorem C12_aroon_range (p age : Nat) (hp : 0 < p) :
    (0 : ℚ) ≤ ((p - age : Nat) : ℚ) / (p : ℚ) ∧ ((p - age : Nat) : ℚ) / (p : ℚ) ≤ 1 := aroon_value_range p age hp

theorem C12_channel_contains {P : Nat} {highs lows : List ℚ} {s : Channel} (k : Candle ℚ) (h : Channel.Inv P highs lows s) :
    ∃ hi lo s', s.hl k = .ok (hi, lo, s') ∧ k.high ≤ hi ∧ lo ≤ k.low := Channel.contains k h

theorem C12_channel_reachable {P n : Nat} (σ : ℚ) (k : Candle ℚ) (hn1 : 1 < n) (hn : n ≤ P - 1) :
    ∃ s, Channel.init P n σ true k = .ok s ∧ s.period = n ∧ s.sigma = σ ∧
      Channel.Inv P (List.replicate n k.high) (List.replicate n k.low) s := Channel.init_inv σ k hn1 hn

theorem C12_sar_side (s : SAR) (k : Candle ℚ) (hi : SAR.Inv s) (hv : k.low ≤ k.high) :
    let a := SAR.afterFlip s k
    (a.trend = 1 ∨ a.trend = -1) ∧ (a.trend = 1 → a.sar ≤ k.low) ∧ (a.trend = -1 → k.high ≤ a.sar) :=
  SAR.next_side s k hi hv (fun _ => trivial)

theorem C12_bollinger_var_nonneg (s : BB) (k : Candle ℚ) (mid var : ℚ) (s' : BB) (h : s.step k = .ok (mid, var, s')) :
    0 ≤ var := bb_var_nonneg s k mid var s' h

theorem C12_stdev_nonneg (s : StDev ℚ) : 0 ≤ s.peekVar := stdev_var_nonneg s

/-- LinearVolatility is never negative, on every stream, at every step (exact arithmetic) -/
theorem C12_linear_volatility_nonneg {P n : Nat} (v : ℚ) (hn0 : 0 < n) (hn : n ≤ P - 1) (xs : List ℚ) :
    ∃ s0 outs s', LinearVolatility.new P n v = .ok s0 ∧ runM LinearVolatility.next s0 xs = .ok (outs, s') ∧
      outs.length = xs.length ∧ ∀ i (hi : i < outs.length), 0 ≤ outs[i] := by
  obtain ⟨s0, os, s', h1, h2, h3, h4⟩ := LinearVolatility.spec (P := P) v hn0 hn xs
  exact ⟨s0, os, s', h1, h2, h3, fun i hi => (h4 i hi).2⟩

/-- Keltner channel: from every invariant state (true ranges of candles with low ≤ high, sigma > 0) the lower band is
    not above the upper band -/
theorem C12_keltner_order {P : Nat} {hist : List ℚ} {s : Keltner} (k : Candle ℚ) (h : Keltner.Inv P hist s) (hv : k.low ≤ k.high)
    (m : M) (x : ℚ) (hm : s.ma.next (k.source s.cfg.source) = .ok (x, m)) :
    ∃ src up lo s', s.vals k = .ok ([src, up, lo], s') ∧ lo.value ≤ up.value ∧
      Keltner.Inv P (hist ++ [k.trClose s.prev_close]) s' := Keltner.vals_order k h hv m x hm

/-- Envelopes: with a non-negative average and `k > 0` the lower envelope is not above the upper one -/
theorem C12_envelopes_order (v kk : ℚ) (hv : 0 ≤ v) (hk : 0 < kk) : v * (1 - kk) ≤ v * (1 + kk) := by nlinarith

/-- MeanAbsDev is never negative, on every stream -/
theorem C12_mean_abs_dev_nonneg {P n : Nat} (v : ℚ) (hn0 : 0 < n) (hn : n ≤ P - 1) (xs : List ℚ) :
    ∃ s0 outs s', MeanAbsDev.new P n v = .ok s0 ∧ runM MeanAbsDev.next s0 xs = .ok (outs, s') ∧
      outs.length = xs.length ∧ ∀ i (hi : i < outs.length), 0 ≤ outs[i] := by
  obtain ⟨s0, os, s', h1, h2, h3, h4⟩ := MeanAbsDev.spec (P := P) v hn0 hn xs
  exact ⟨s0, os, s', h1, h2, h3, fun i hi => (h4 i hi).2⟩

/-- TSI method (hence TrueStrengthIndex / SMIErgodic value 0): in [−1, 1] on every stream, at every step -/
theorem C12_tsi_range (short long : Nat) (hs : 0 < short) (hl : 0 < long) (v : ℚ) (xs : List ℚ) :
    -1 ≤ Spec.tsi short long v xs ∧ Spec.tsi short long v xs ≤ 1 := tsi_range short long hs hl v xs

/-- Chaikin money flow, every invariant state and every candle with low ≤ close ≤ high, volume ≥ 0: |Σ CLV·volume| ≤ Σ volume
    over the same window, so the value is in [−1, 1] wherever the total volume is not zero -/
theorem C12_cmf_range {P : Nat} {hist : List (Candle ℚ)} {s : CMF} (k : Candle ℚ) (h : CMF.Inv P hist s) (hk : goodCandle k) :
    ∃ num den s', s.vals k = .ok ([.quot num den (s.size : ℚ) (s.size : ℚ) .vol [] none], s') ∧
      CMF.Inv P (hist ++ [k]) s' ∧ s'.size = s.size ∧
      num = ((lastN s.size (hist ++ [k])).map fun c => c.clv * c.volume).sum ∧
      den = ((lastN s.size (hist ++ [k])).map fun c => c.volume).sum ∧
      |num| ≤ den ∧ (den ≠ 0 → -1 ≤ num / den ∧ num / den ≤ 1) := CMF.vals_spec k h hk

/-- Money-flow index over whole streams: from the constructor, for every stream of candles with non-negative volume, no
    step panics and the value is in [0, 1] at every step (the flows are sums of non-negative per-candle flows over the
    last `period` candles, which is the invariant) -/
theorem C12_mfi_reachable {P period : Nat} (zone : ℚ) (c0 : Candle ℚ) (s0 : MFI) (h0 : MFI.init P period zone c0 = .ok s0)
    (cs : List (Candle ℚ)) (hv : ∀ c ∈ cs, 0 ≤ c.volume) :
    ∃ outs s', runM MFI.vals s0 cs = .ok (outs, s') ∧ outs.length = cs.length ∧
      ∀ o ∈ outs, ∃ v, o = [.exact (1 - zone), v, .exact zone] ∧ 0 ≤ v.value ∧ v.value ≤ 1 :=
  MFI.run_range zone c0 s0 h0 cs hv

/-- TrendStrengthIndex (documented range [−1, 1]) over whole streams: from the constructor, at every step the value is
    `p/√q` with `p² ≤ q` (Cauchy–Schwarz between positions and window), so its square is at most 1 wherever the radicand
    is positive; no step panics -/
theorem C12_trend_strength_range {P period ro : Nat} (zone : ℚ) (source : Source) (src0 : ℚ) (s0 : TSInd)
    (h0 : TSInd.init P period zone ro source src0 = .ok s0) (xs : List ℚ) :
    ∃ outs s', runM TSInd.vals s0 xs = .ok (outs, s') ∧ outs.length = xs.length ∧
      ∀ i (hi : i < outs.length), ∃ p q κn κd, outs[i] = [.sqrtQuot p q κn κd] ∧ p ^ 2 ≤ q := by
  obtain ⟨hinv, hc, _, _⟩ := TSInd.init_inv zone source src0 s0 h0
  obtain ⟨os, s', hr, _, hlen, hout⟩ := runM_invariant TSInd.vals
    (fun h s => TSInd.Inv P (List.replicate period src0 ++ h) s ∧ TSInd.Consts s)
    (fun _ o => ∃ p q κn κd, o = [.sqrtQuot p q κn κd] ∧ p ^ 2 ≤ q)
    (by
      rintro h s x ⟨hi, hcs⟩
      obtain ⟨p, q, κn, κd, s', hv, hle, hi', hc'⟩ := TSInd.vals_sq_le x hi hcs
      exact ⟨_, s', hv, ⟨by rw [← List.append_assoc]; exact hi', hc'⟩, p, q, κn, κd, rfl, hle⟩)
    xs [] s0 ⟨by simpa using hinv, hc⟩
  exact ⟨os, s', hr, hlen, hout⟩

/-- Stochastic oscillator with hull-preserving averages (C15: every kind but HMA, DEMA, TEMA, LinReg; `C12_hull_kinds` gives
    the two default kinds): both lines in [0, 1] after every step from a state whose histories are in [0, 1] — an
    inductive invariant, so in every reachable state -/
theorem C12_stochastic_reachable {P : Nat} {g1 g2 : List ℚ → ℚ} {highs lows krs f1s : List ℚ} {s : Stoch} (k : Candle ℚ) (v0 : ℚ)
    (h : Stoch.Inv P g1 g2 highs lows krs f1s s) (hv0 : 0 ≤ v0 ∧ v0 ≤ 1) (hg1 : HullFn v0 g1) (hg2 : HullFn v0 g2)
    (hk : Stoch.In01 krs) (hf : Stoch.In01 f1s) (hl : k.low ≤ k.close) (hh : k.close ≤ k.high) :
    ∃ v1 v2 kr s', s.vals k none = .ok ([v1, v2], s') ∧
      0 ≤ v1.value ∧ v1.value ≤ 1 ∧ 0 ≤ v2.value ∧ v2.value ≤ 1 ∧
      Stoch.Inv P g1 g2 (highs ++ [k.high]) (lows ++ [k.low]) (krs ++ [kr]) (f1s ++ [v1.value]) s' ∧
      Stoch.In01 (krs ++ [kr]) ∧ Stoch.In01 (f1s ++ [v1.value]) := Stoch.range_step k v0 h hv0 hg1 hg2 hk hf hl hh

/-- RSI with hull-preserving averages: value in [0, 1] in every reachable state (gains ≥ 0, losses ≤ 0 is inductive) -/
theorem C12_rsi_reachable {fp fn : List ℚ → ℚ} {gains losses : List ℚ} {s : RSI} (k : Candle ℚ)
    (hp : Realises fp s.posma gains) (hn : Realises fn s.negma losses) (hfp : HullFn 0 fp) (hfn : HullFn 0 fn)
    (hg : ∀ x ∈ gains, 0 ≤ x) (hl : ∀ x ∈ losses, x ≤ 0) :
    ∃ v s' g l, s.vals k = .ok ([v], s') ∧ 0 ≤ v.value ∧ v.value ≤ 1 ∧
      Realises fp s'.posma (gains ++ [g]) ∧ Realises fn s'.negma (losses ++ [l]) ∧
      (∀ x ∈ gains ++ [g], 0 ≤ x) ∧ (∀ x ∈ losses ++ [l], x ≤ 0) := RSI.range_step k hp hn hfp hfn hg hl

/-- the realised SMA, EMA, WMA and RMA are hull-preserving (their realisation theorems are in C05) -/
theorem C12_hull_kinds (n : Nat) (hn : 0 < n) (v a : ℚ) (h0 : 0 ≤ a) (h1 : a ≤ 1) :
    HullFn v (fun h => Spec.mean n (lastN n (history n v h))) ∧ HullFn v (fun h => Spec.emaRec a v h) ∧
    HullFn v (fun h => Spec.wma n v h) ∧ HullFn v (fun h => Spec.emaRec (1 / (n : ℚ)) v h) :=
  ⟨hullFn_sma n hn v, hullFn_ema a v h0 h1, hullFn_wma n hn v, hullFn_rma n hn v⟩

/-- Chaikin money flow over whole streams, from its constructor: candles with low ≤ close ≤ high and volume ≥ 0 — no step
    panics, |Σ CLV·volume| ≤ Σ volume, value in [−1, 1] wherever the window's total volume is not zero -/
theorem C12_cmf_reachable {P size : Nat} (k0 : Candle ℚ) (hk0 : goodCandle k0) (s0 : CMF) (h0 : CMF.init P size k0 = .ok s0)
    (cs : List (Candle ℚ)) (hg : ∀ c ∈ cs, goodCandle c) :
    ∃ outs s', runM CMF.vals s0 cs = .ok (outs, s') ∧ outs.length = cs.length ∧
      ∀ o ∈ outs, ∃ num den κ1 κ2, o = [.quot num den κ1 κ2 .vol [] none] ∧ |num| ≤ den ∧
        (den ≠ 0 → -1 ≤ num / den ∧ num / den ≤ 1) := CMF.run_range k0 hk0 s0 h0 cs hg

/-- Stochastic oscillator over whole streams, from its constructor, for EVERY pair of non-overshooting kinds (all but HMA,
    DEMA, TEMA, LinReg) and lengths the constructors accept: on every stream of candles with low ≤ close ≤ high no step
    panics and both lines are in [0, 1] at every step -/
theorem C12_stochastic_run {P : Nat} (c : StochCfg) (k0 : Candle ℚ) (hv : Stoch.validate c = true) (hp : c.period ≤ P - 1)
    (h1 : validLen P c.ma.kind c.ma.length) (h2 : validLen P c.signal.kind c.signal.length)
    (s1 : smoothKind c.ma.kind = true) (s2 : smoothKind c.signal.kind = true)
    (hk0 : k0.low ≤ k0.close ∧ k0.close ≤ k0.high) (cs : List (Candle ℚ)) (hcs : ∀ k ∈ cs, k.low ≤ k.close ∧ k.close ≤ k.high) :
    ∃ s0 outs s', Stoch.init P c k0 = .ok s0 ∧ runM (fun s k => s.vals k none) s0 cs = .ok (outs, s') ∧ outs.length = cs.length ∧
      ∀ o ∈ outs, ∃ v1 v2, o = [v1, v2] ∧ 0 ≤ v1.value ∧ v1.value ≤ 1 ∧ 0 ≤ v2.value ∧ v2.value ≤ 1 :=
  Stoch.run_range c k0 hv hp h1 h2 s1 s2 hk0 cs hcs

/-- every non-overshooting kind preserves the hull of the values it is given (the realised formula of the kind) -/
theorem C12_every_smooth_kind_hull {P : Nat} (k : MAKind) (n : Nat) (v : ℚ) (hk : smoothKind k = true) (hv : validLen P k n) :
    HullFn v (specOf k n v) := hullFn_of_kind k n v hk hv

/-- RSI over whole streams, from its constructor, for every non-overshooting kind: on every candle stream no step panics and
    the value is in [0, 1] at every step -/
theorem C12_rsi_run {P : Nat} (c : RSICfg) (k0 : Candle ℚ) (hv : RSI.validate c = true)
    (h1 : validLen P c.ma.kind c.ma.length) (s1 : smoothKind c.ma.kind = true) (cs : List (Candle ℚ)) :
    ∃ s0 outs s', RSI.init P c k0 = .ok s0 ∧ runM RSI.vals s0 cs = .ok (outs, s') ∧ outs.length = cs.length ∧
      ∀ i (hi : i < outs.length), ∃ v, outs[i] = [v] ∧ 0 ≤ v.value ∧ v.value ≤ 1 := RSI.run_range c k0 hv h1 s1 cs

/-- … and, since the `fix:` that clamps the quotient (91f0f9b), for EVERY kind of average, the overshooting ones included -/
theorem C12_rsi_run_every_kind {P : Nat} (c : RSICfg) (k0 : Candle ℚ) (hv : RSI.validate c = true)
    (h1 : validLen P c.ma.kind c.ma.length) (cs : List (Candle ℚ)) :
    ∃ s0 outs s', RSI.init P c k0 = .ok s0 ∧ runM RSI.vals s0 cs = .ok (outs, s') ∧ outs.length = cs.length ∧
      ∀ i (hi : i < outs.length), ∃ v, outs[i] = [v] ∧ 0 ≤ v.value ∧ v.value ≤ 1 := RSI.run_range_every_kind c k0 hv h1 cs

/-- a quotient the code clamps (RSI, MoneyFlowIndex: [0, 1]; ChandeMomentumOscillator: [−1, 1]) is in its range for ALL
    operands — whatever rounding residue the running sums hold, the exact guard value included -/
theorem C12_clamped_quotient_range (n d κn κd : ℚ) (sc : Scale) (g : List ℚ) (a lo hi : ℚ) (h : lo ≤ hi) (ha : lo ≤ a ∧ a ≤ hi) :
    lo ≤ (VExp.cquot n d κn κd sc g (some a) lo hi).value ∧ (VExp.cquot n d κn κd sc g (some a) lo hi).value ≤ hi :=
  cquot_range n d κn κd sc g a lo hi h ha

/-- the three clamped oscillators from ANY state — no invariant on the running sums / flows / averages is assumed, so the
    statement covers every content rounding can leave in them: a step that does not panic returns a value of the documented range -/
theorem C12_cmo_any_state (s : CMO) (k : Candle ℚ) (vs : List VExp) (s' : CMO) (h : s.vals k = .ok (vs, s')) :
    ∃ v, vs = [v] ∧ -1 ≤ v.value ∧ v.value ≤ 1 := CMO.vals_any_state s k vs s' h

theorem C12_mfi_any_state (s : MFI) (k : Candle ℚ) (vs : List VExp) (s' : MFI) (h : s.vals k = .ok (vs, s')) :
    ∃ v, vs = [.exact (1 - s.zone), v, .exact s.zone] ∧ 0 ≤ v.value ∧ v.value ≤ 1 := MFI.vals_any_state s k vs s' h

theorem C12_rsi_any_state (s : RSI) (k : Candle ℚ) (vs : List VExp) (s' : RSI) (h : s.vals k = .ok (vs, s')) :
    ∃ v, vs = [v] ∧ 0 ≤ v.value ∧ v.value ≤ 1 := RSI.vals_any_state s k vs s' h

/-- Parabolic SAR over whole streams, from its constructor: on every stream of candles with low ≤ high the returned trend
    is ±1 and the returned SAR is on the far side of that step's candle at every step -/
theorem C12_sar_run (a b : ℚ) (k0 : Candle ℚ) (s0 : SAR) (h0 : SAR.init a b k0 = .ok s0) (cs : List (Candle ℚ))
    (hv : ∀ k ∈ cs, k.low ≤ k.high) :
    ∀ i (hi : i < cs.length), ∃ sar trend,
      (((SAR.run s0 cs).1[i]'(by rw [SAR.run_length]; exact hi)).1.map VExp.value) = [sar, trend] ∧
      (trend = 1 ∨ trend = -1) ∧ (trend = 1 → sar ≤ cs[i].low) ∧ (trend = -1 → cs[i].high ≤ sar) :=
  SAR.run_side a b k0 s0 h0 cs hv

/-- TrueStrengthIndex / SMIErgodic over whole streams, from the constructor, every accepted configuration whose smoothing
    average cannot overshoot: no step panics, TSI value and signal line in [−1, 1] at every step -/
theorem C12_tsi_indicator_run {P : Nat} (c : TSIxCfg) (smooth : MA) (ok : Bool) (k0 : Candle ℚ) (s0 : TSIx) (smi : Bool)
    (h0 : TSIx.init P c smooth ok k0 = .ok s0)
    (hs : validLen P smooth.kind smooth.length) (sm : smoothKind smooth.kind = true) (cs : List (Candle ℚ)) :
    ∃ outs s', runM (fun s k => s.vals k none smi) s0 cs = .ok (outs, s') ∧ outs.length = cs.length ∧
      ∀ o ∈ outs, ∃ v0 v1 rest, o = v0 :: v1 :: rest ∧ -1 ≤ v0.value ∧ v0.value ≤ 1 ∧ -1 ≤ v1.value ∧ v1.value ≤ 1 :=
  TSIx.run_range c smooth ok k0 s0 smi h0 hs sm cs

/-- Envelopes over whole streams, from the constructor, every non-overshooting kind: on every stream of candles with a
    non-negative source price no step panics and upper ≥ lower at every step -/
theorem C12_envelopes_run {P : Nat} (c : EnvCfg) (k0 : Candle ℚ) (hv : Env.validate c = true)
    (h1 : validLen P c.ma.kind c.ma.length) (sm : smoothKind c.ma.kind = true) (hk0 : 0 ≤ k0.source c.source)
    (cs : List (Candle ℚ)) (hcs : ∀ k ∈ cs, 0 ≤ k.source c.source) :
    ∃ s0 outs s', Env.init P c k0 = .ok s0 ∧ runM Env.vals s0 cs = .ok (outs, s') ∧ outs.length = cs.length ∧
      ∀ o ∈ outs, ∃ up lo src2, o.map VExp.value = [up, lo, src2] ∧ lo ≤ up :=
  Env.run_order c k0 hv h1 sm hk0 cs hcs

/-- Bollinger bands over whole streams, from the constructor: no step panics, the centre is the mean and the quantity under
    the square root is the sample variance of the last `avg_size` sources — non-negative at every step, hence
    upper ≥ middle ≥ lower (the bands are `middle ± sigma·sqrt(variance)`, sigma > 0) -/
theorem C12_bollinger_run {P : Nat} (c : BBCfg) (k0 : Candle ℚ) (hv : BB.validate P c = true) (cs : List (Candle ℚ)) :
    ∃ s0 outs s', BB.init P c k0 = .ok s0 ∧ runM BB.stepR s0 cs = .ok (outs, s') ∧ outs.length = cs.length ∧
      ∀ i (hi : i < outs.length),
        let w := lastN c.avg_size (history c.avg_size (k0.source c.source) ((cs.take (i + 1)).map fun k => k.source c.source))
        outs[i] = (Spec.mean c.avg_size w,
          (w.map fun x => (x - Spec.mean c.avg_size w) * (x - Spec.mean c.avg_size w)).sum / ((c.avg_size - 1 : Nat) : ℚ)) ∧
        0 ≤ (outs[i]).2 := BB.run_spec c k0 hv cs

/-- Keltner channel over whole streams (candles with low ≤ high), every accepted configuration of the middle average: no step
    panics and the lower band is never above the upper band -/
theorem C12_keltner_run {P : Nat} (c : KeltnerCfg) (k0 : Candle ℚ) (hv : Keltner.validate c = true)
    (h1 : validLen P c.ma.kind c.ma.length) (hp : c.ma.length ≤ P - 1) (hk0 : k0.low ≤ k0.high)
    (cs : List (Candle ℚ)) (hcs : ∀ k ∈ cs, k.low ≤ k.high) :
    ∃ s0 outs s', Keltner.init P c k0 = .ok s0 ∧ runM Keltner.vals s0 cs = .ok (outs, s') ∧ outs.length = cs.length ∧
      ∀ o ∈ outs, ∃ src up lo, o.map VExp.value = [src, up, lo] ∧ lo ≤ up := Keltner.run_spec c k0 hv h1 hp hk0 cs hcs

/-- Chande momentum oscillator over whole candle streams, from its constructor: no step panics, value in [−1, 1] at every step -/
theorem C12_cmo_run {P : Nat} (c : CMOCfg) (k0 : Candle ℚ) (s0 : CMO) (h0 : CMO.init P c k0 = .ok s0) (cs : List (Candle ℚ)) :
    ∃ outs s', runM CMO.vals s0 cs = .ok (outs, s') ∧ outs.length = cs.length ∧
      ∀ i (hi : i < outs.length), ∃ v, outs[i] = [v] ∧ -1 ≤ v.value ∧ v.value ≤ 1 := CMO.run_range c k0 s0 h0 cs

/-- ADX over whole candle streams, from its constructor, every accepted configuration whose final average cannot
    overshoot: no step panics and the ADX value is in [0, 1] at every step — with no assumption on the candles or on the
    sign of the directional quotients (the `fix:` in `adx()` made the input of the final average a value of [0, 1]
    whatever rounding residue the windowed averages hold: `C12_adx_input_unit`) -/
theorem C12_adx_run {P : Nat} (m1 m2 : MA) (period1 : Nat) (zone : ℚ) (k0 : Candle ℚ) (s0 : ADX)
    (h1 : validLen P m1.kind m1.length) (h2 : validLen P m2.kind m2.length) (hs : smoothKind m2.kind = true)
    (h0 : ADX.init P m1 m2 period1 zone k0 = .ok s0) (cs : List (Candle ℚ)) :
    ∃ outs s', runM ADX.step s0 cs = .ok (outs, s') ∧ outs.length = cs.length ∧
      ∀ i (hi : i < outs.length), ∃ a p m, (outs[i]).map VExp.value = [a, p, m] ∧ 0 ≤ a ∧ a ≤ 1 :=
  ADX.run_range m1 m2 period1 zone k0 s0 h1 h2 hs h0 cs

theorem C12_adx_input_unit (plus minus : ℚ) : 0 ≤ ADX.tOf plus minus ∧ ADX.tOf plus minus ≤ 1 := ADX.tOf_range plus minus

/-- Aroon over whole candle streams, from its constructor: no step panics, both values in [0, 1] at every step -/
theorem C12_aroon_run {P : Nat} (c : AroonCfg) (k0 : Candle ℚ) (hv : Aroon.validate P c = true) (cs : List (Candle ℚ)) :
    ∃ s0 outs s', Aroon.init P c k0 = .ok s0 ∧ runM (Aroon.valsR P) s0 cs = .ok (outs, s') ∧ outs.length = cs.length ∧
      ∀ i (hi : i < outs.length), ∃ up dn, (outs[i]).map VExp.value = [up, dn] ∧ 0 ≤ up ∧ up ≤ 1 ∧ 0 ≤ dn ∧ dn ≤ 1 :=
  Aroon.run_range c k0 hv cs

/-- Price channel and Donchian channel over whole streams of candles with low ≤ high, from the constructor: no step panics;
    price channel upper ≥ lower (sigma > 0), Donchian lowest ≤ middle ≤ highest, at every step -/
theorem C12_channels_order_run {P n : Nat} (σ : ℚ) (hσ : 0 < σ) (k0 : Candle ℚ) (hn1 : 1 < n) (hn : n ≤ P - 1)
    (cs : List (Candle ℚ)) (hcs : ∀ k ∈ cs, k.low ≤ k.high) :
    ∃ s0, Channel.init P n σ true k0 = .ok s0 ∧
      (∃ outs s', runM (fun s k => Channel.priceChannelVals s k) s0 cs = .ok (outs, s') ∧ outs.length = cs.length ∧
        ∀ o ∈ outs, ∃ up lo, o.map VExp.value = [up, lo] ∧ lo ≤ up) ∧
      (∃ outs s', runM (fun s k => Channel.donchianVals s k) s0 cs = .ok (outs, s') ∧ outs.length = cs.length ∧
        ∀ o ∈ outs, ∃ lo mid hi, o.map VExp.value = [lo, mid, hi] ∧ lo ≤ mid ∧ mid ≤ hi) :=
  Channel.order_run σ hσ k0 hn1 hn cs hcs

theorem C12_tr_nonneg (c : Candle ℚ) (p : ℚ) (h : c.low ≤ c.high) : 0 ≤ c.trClose p := tr_nonneg c p h

theorem C12_clv_range (c : Candle ℚ) (h1 : c.low ≤ c.close) (h2 : c.close ≤ c.high) : -1 ≤ c.clv ∧ c.clv ≤ 1 :=
  Candle.clv_range c h1 h2

/-! non-vacuity: the hypotheses of the range lemmas are met by a non-trivial state -/
example : (0 : ℚ) ≤ (if (3 : ℚ) + 1 = 0 then half else 3 / (3 + 1)) ∧ (if (3 : ℚ) + 1 = 0 then half else 3 / (3 + 1)) ≤ 1 :=
  RSI.value_range 3 1 (by norm_num) (by norm_num)

end Yata.C12

#print axioms Yata.C12.C12_rsi_range
#print axioms Yata.C12.C12_mfi_range
#print axioms Yata.C12.C12_diff_ratio_range
#print axioms Yata.C12.C12_cmo
#print axioms Yata.C12.C12_stoch_k_range
#print axioms Yata.C12.C12_aroon_range
#print axioms Yata.C12.C12_channel_contains
#print axioms Yata.C12.C12_channel_reachable
#print axioms Yata.C12.C12_sar_side
#print axioms Yata.C12.C12_bollinger_var_nonneg
#print axioms Yata.C12.C12_stdev_nonneg
#print axioms Yata.C12.C12_tr_nonneg
#print axioms Yata.C12.C12_clv_range
#print axioms Yata.C12.C12_linear_volatility_nonneg
#print axioms Yata.C12.C12_keltner_order
#print axioms Yata.C12.C12_envelopes_order
#print axioms Yata.C12.C12_mean_abs_dev_nonneg
#print axioms Yata.C12.C12_tsi_range
#print axioms Yata.C12.C12_cmf_range
#print axioms Yata.C12.C12_mfi_reachable
#print axioms Yata.C12.C12_trend_strength_range
#print axioms Yata.C12.C12_stochastic_reachable
#print axioms Yata.C12.C12_rsi_reachable
#print axioms Yata.C12.C12_hull_kinds
#print axioms Yata.C12.C12_cmf_reachable
#print axioms Yata.C12.C12_stochastic_run
#print axioms Yata.C12.C12_every_smooth_kind_hull
#print axioms Yata.C12.C12_rsi_run
#print axioms Yata.C12.C12_bollinger_run
#print axioms Yata.C12.C12_keltner_run
#print axioms Yata.C12.C12_cmo_run
#print axioms Yata.C12.C12_aroon_run
#print axioms Yata.C12.C12_channels_order_run
#print axioms Yata.C12.C12_adx_run
#print axioms Yata.C12.C12_adx_input_unit
#print axioms Yata.C12.C12_rsi_run_every_kind
#print axioms Yata.C12.C12_clamped_quotient_range
#print axioms Yata.C12.C12_cmo_any_state
#print axioms Yata.C12.C12_mfi_any_state
#print axioms Yata.C12.C12_rsi_any_state
#print axioms Yata.C12.C12_sar_run
#print axioms Yata.C12.C12_tsi_indicator_run
#print axioms Yata.C12.C12_envelopes_run
