/-
  C06 — Indicator signals fire exactly under their documented conditions.

  The model's `sigs` functions take the value list as an argument; the correspondence run applies them to the
  values the implementation returned, so these theorems describe exactly the rule that is enforced there.

  * MACD: signal 1 is the crossing rule on (MACD line, signal line), signal 2 on (MACD line, 0), with the detector
    remembering the previous difference (`C06_macd`); the crossing rule itself is C14.
  * Donchian, price channel, Envelopes: stateless band-touch rules as iff-style case distinctions.
  * Aroon: the two counters count consecutive steps with (up in the upper zone and down in the lower zone) resp. the
    mirrored condition and reset to 0 otherwise; the trend strength is their difference over `over_zone_period`; the edge
    signal fires on an extreme of age 0 (`C06_aroon`).
  * Parabolic SAR (every reachable state): the signal is silent iff the returned trend equals the previously returned one,
    and otherwise points in the direction of the new trend; the trend is always ±1 (`C06_sar_signal`, `C06_sar_inv`).
  * RSI and money-flow index (detector pairs remembering one difference — true of every reachable state): signal 1
    buys when the value falls into the lower zone and sells when it rises into the upper zone, signal 2 buys when it
    leaves the lower zone upwards and sells when it leaves the upper zone downwards (`C06_rsi`, `C06_mfi`).
  * Chaikin money flow: crossing of zero; Chande momentum, Keltner, Stochastic: differences of one-sided crossings of
    their zones / bands, Stochastic's third signal the crossing of its two lines (`C06_cmf`, `C06_cmo`, `C06_keltner`,
    `C06_stochastic`).
  * Ichimoku: both signals require the source beyond a cloud of the matching colour together with the tenkan/kijun
    resp. source/kijun crossing (`C06_ichimoku`); TrueStrengthIndex: zone signal, zero crossing, signal-line crossing
    (`C06_tsi`); SMIErgodic: crossing of the signal line while that line is beyond the zone (`C06_smi`);
    RelativeVigorIndex (`C06_rvi`, as coded — the documentation states the opposite sign of signal 2, DESIGN §7.1);
    WoodiesCCI: the signed bar counter is reset to ±1 by a zero crossing, grows by the sign of the trend CCI, and the signal
    fires with the counter's sign when it reaches `s1_lag` (`C06_woodies`, `C06_woodies_count` — the documented rule;
    the code was fixed to it); CommodityChannelIndex (`C06_cci`); MomentumIndex, ADX (stateless, `C06_momentum_index`,
    `C06_adx`); zero / signal-line crossings of ChaikinOscillator, EaseOfMovement, EldersForceIndex, Klinger, KnowSureThing
    (`C06_single_crossings`).
  Partial: Bollinger (proportional strength), AwesomeOscillator, Coppock, Trix, Hull, Kaufman, ChandeKrollStop, PivotReversal,
  TrendStrengthIndex, FisherTransform rules are not stated as theorems (validated by the run).
-/
import YataProofs.Indicators.More
import YataProofs.Indicators.Signals
import YataProofs.Indicators.Signals2
import YataProofs.Indicators.SARRun
namespace Yata.C06
open Yata Yata.Ind

theorem C06_macd (s : MACD) (k : Candle ℚ) (macd sig : ℚ) :
    (s.sigs k [macd, sig]).1 =
      [ Action.ofI8 ((if crossAboveRule s.cross1.up.last_delta (macd - sig) then 1 else 0) -
                     (if crossUnderRule s.cross1.down.last_delta (macd - sig) then 1 else 0)),
        Action.ofI8 ((if crossAboveRule s.cross2.up.last_delta (macd - 0) then 1 else 0) -
                     (if crossUnderRule s.cross2.down.last_delta (macd - 0) then 1 else 0)) ] ∧
    (s.sigs k [macd, sig]).2.cross1.up.last_delta = macd - sig ∧
    (s.sigs k [macd, sig]).2.cross1.down.last_delta = macd - sig ∧
    (s.sigs k [macd, sig]).2.cross2.up.last_delta = macd - 0 ∧
    (s.sigs k [macd, sig]).2.cross2.down.last_delta = macd - 0 := MACD.sigs_spec s k macd sig

theorem C06_donchian (k : Candle ℚ) (lo mid hi : ℚ) :
    Channel.donchianSig k [lo, mid, hi] =
      if hi ≤ k.high ∧ ¬ k.low ≤ lo then Action.buyAll
      else if k.low ≤ lo ∧ ¬ hi ≤ k.high then Action.sellAll else Action.none := donchian_signal k lo mid hi

theorem C06_price_channel (k : Candle ℚ) (up lo : ℚ) :
    Channel.priceChannelSig k [up, lo] =
      if up ≤ k.high ∧ ¬ k.low ≤ lo then Action.buyAll
      else if k.low ≤ lo ∧ ¬ up ≤ k.high then Action.sellAll else Action.none := priceChannel_signal k up lo

theorem C06_envelopes (up lo src2 : ℚ) :
    Env.sig [up, lo, src2] =
      if src2 < lo ∧ ¬ up < src2 then Action.buyAll
      else if up < src2 ∧ ¬ src2 < lo then Action.sellAll else Action.none := envelopes_signal up lo src2

theorem C06_aroon (s : Aroon) (up dn : ℚ) (idx : Nat × Nat) :
    let z := s.cfg.signal_zone
    let r := s.sigs [up, dn] idx
    let ut := if decide (1 - z ≤ up) && decide (dn ≤ z) then s.uptrend + 1 else 0
    let dt := if decide (1 - z ≤ dn) && decide (up ≤ z) then s.downtrend + 1 else 0
    r.2.uptrend = ut ∧ r.2.downtrend = dt ∧
    r.1.2.2 = ((ut - dt : Int) : ℚ) / (s.cfg.over_zone_period : ℚ) ∧
    r.1.2.1 = Action.ofI8 (sgn (idx.1 == 0) - sgn (idx.2 == 0)) ∧
    r.1.1 = (s.cross.next (up, dn)).1 := Aroon.sigs_spec s up dn idx

theorem C06_rsi (s : RSI) (hl : Synced s.cross_lower) (hu : Synced s.cross_upper) (value : ℚ) :
    let dL := s.cross_lower.up.last_delta
    let dU := s.cross_upper.up.last_delta
    let lo := value - s.cfg.zone
    let up := value - (1 - s.cfg.zone)
    (s.sigs [value]).1 =
      [ Action.ofI8 (sgn (crossUnderRule dL lo) - sgn (crossAboveRule dU up)),
        Action.ofI8 (sgn (crossAboveRule dL lo) - sgn (crossUnderRule dU up)) ] ∧
    Synced (s.sigs [value]).2.cross_lower ∧ Synced (s.sigs [value]).2.cross_upper ∧
    (s.sigs [value]).2.cross_lower.up.last_delta = lo ∧ (s.sigs [value]).2.cross_upper.up.last_delta = up :=
  RSI.sigs_spec s hl hu value

theorem C06_mfi (s : MFI) (hl : Synced s.cross_lower) (hu : Synced s.cross_upper) (upper value lower : ℚ) :
    let dL := s.cross_lower.up.last_delta
    let dU := s.cross_upper.up.last_delta
    let lo := value - s.zone
    let up := value - (1 - s.zone)
    (s.sigs [upper, value, lower]).1 =
      [ Action.ofI8 (sgn (crossUnderRule dL lo) - sgn (crossAboveRule dU up)),
        Action.ofI8 (sgn (crossAboveRule dL lo) - sgn (crossUnderRule dU up)) ] ∧
    Synced (s.sigs [upper, value, lower]).2.cross_lower ∧ Synced (s.sigs [upper, value, lower]).2.cross_upper :=
  MFI.sigs_spec s hl hu upper value lower

theorem C06_cmf (s : CMF) (v : ℚ) :
    (s.sigs [v]).1 =
      [ Action.ofI8 ((if crossAboveRule s.cross_over.up.last_delta (v - 0) then 1 else 0) -
                     (if crossUnderRule s.cross_over.down.last_delta (v - 0) then 1 else 0)) ] := CMF.sigs_spec s v

theorem C06_cmo (s : CMO) (v : ℚ) :
    (s.sigs [v]).1 =
      [ Action.sub (if crossUnderRule s.cross_under.last_delta (v - -s.cfg.zone) then Action.buyAll else Action.none)
                   (if crossAboveRule s.cross_above.last_delta (v - s.cfg.zone) then Action.buyAll else Action.none) ] ∧
    (s.sigs [v]).2.cross_under.last_delta = v - -s.cfg.zone ∧ (s.sigs [v]).2.cross_above.last_delta = v - s.cfg.zone :=
  CMO.sigs_spec s v

theorem C06_keltner (s : Keltner) (src upper lower : ℚ) :
    (s.sigs [src, upper, lower]).1 =
      [ Action.sub (if crossUnderRule s.cross_under.last_delta (src - lower) then Action.buyAll else Action.none)
                   (if crossAboveRule s.cross_above.last_delta (src - upper) then Action.buyAll else Action.none) ] :=
  Keltner.sigs_spec s src upper lower

theorem C06_stochastic (s : Stoch) (f1 f2 : ℚ) :
    (s.sigs [f1, f2]).1 =
      [ Action.sub (if crossAboveRule s.cross_above1.last_delta (f1 - s.cfg.zone) then Action.buyAll else Action.none)
                   (if crossUnderRule s.cross_under1.last_delta (f1 - s.upper_zone) then Action.buyAll else Action.none),
        Action.sub (if crossAboveRule s.cross_above2.last_delta (f2 - s.cfg.zone) then Action.buyAll else Action.none)
                   (if crossUnderRule s.cross_under2.last_delta (f2 - s.upper_zone) then Action.buyAll else Action.none),
        Action.ofI8 ((if crossAboveRule s.cross_over.up.last_delta (f1 - f2) then 1 else 0) -
                     (if crossUnderRule s.cross_over.down.last_delta (f1 - f2) then 1 else 0)) ] := Stoch.sigs_spec s f1 f2

theorem C06_sar_inv (a b : ℚ) (k0 : Candle ℚ) (s : SAR) (h : SAR.init a b k0 = .ok s) (k : Candle ℚ) (hv : k.low ≤ k.high) :
    SAR.Inv s ∧ SAR.Inv (s.next k).2 ∧ (s.next k).2.prev_trend = (SAR.afterFlip s k).trend :=
  ⟨SAR.init_inv a b k0 s h, (SAR.next_inv s k (SAR.init_inv a b k0 s h) hv).1, (SAR.next_inv s k (SAR.init_inv a b k0 s h) hv).2⟩

theorem C06_sar_signal (s : SAR) (k : Candle ℚ) (hi : SAR.Inv s) (hv : k.low ≤ k.high) :
    SAR.Inv (s.next k).2 ∧ (s.next k).2.prev_trend = (SAR.afterFlip s k).trend ∧
    (s.next k).1.2 =
      (if s.prev_trend = (SAR.afterFlip s k).trend then Action.none
       else if (SAR.afterFlip s k).trend = 1 then Action.buyAll else Action.sellAll) :=
  ⟨(SAR.next_inv s k hi hv).1, (SAR.next_inv s k hi hv).2, SAR.next_signal s k hi hv⟩

theorem C06_ichimoku (s : Ichi) (h1 : Synced s.cross1) (h2 : Synced s.cross2) (src tenkan kijun a b : ℚ) :
    let above := decide (a < src) && decide (b < src) && decide (b < a)
    let below := decide (src < a) && decide (src < b) && decide (a < b)
    (s.sigs src [tenkan, kijun, a, b]).1 =
      [ Action.ofI8 (sgn (above && crossAboveRule s.cross1.up.last_delta (tenkan - kijun)) -
                     sgn (below && crossUnderRule s.cross1.up.last_delta (tenkan - kijun))),
        Action.ofI8 (sgn (above && crossAboveRule s.cross2.up.last_delta (src - kijun)) -
                     sgn (below && crossUnderRule s.cross2.up.last_delta (src - kijun))) ] :=
  Ichi.sigs_spec s h1 h2 src tenkan kijun a b

theorem C06_tsi (s : TSIx) (h1 : Synced s.cross1) (h2 : Synced s.cross2) (tsi sig : ℚ) :
    (s.sigsTSI [tsi, sig]).1 =
      [ Action.sub (if crossUnderRule s.cross_under.last_delta (tsi - -s.cfg.zone) then Action.buyAll else Action.none)
                   (if crossAboveRule s.cross_above.last_delta (tsi - s.cfg.zone) then Action.buyAll else Action.none),
        Action.ofI8 (crossI s.cross1.up.last_delta (tsi - 0)),
        Action.ofI8 (crossI s.cross2.up.last_delta (tsi - sig)) ] := TSIx.sigsTSI_spec s h1 h2 tsi sig

theorem C06_smi (s : TSIx) (h1 : Synced s.cross1) (tsi sig : ℚ) :
    (s.sigsSMI [tsi, sig]).1 =
      [ Action.ofI8 (sgn (crossAboveRule s.cross1.up.last_delta (tsi - sig) && decide (sig < -s.cfg.zone)) -
                     sgn (crossUnderRule s.cross1.up.last_delta (tsi - sig) && decide (s.cfg.zone < sig))) ] :=
  TSIx.sigsSMI_spec s h1 tsi sig

theorem C06_rvi (s : RVI) (hs : Synced s.cross) (rvi sig : ℚ) :
    (s.sigs [rvi, sig]).1 =
      [ Action.ofI8 (crossI s.cross.up.last_delta (rvi - sig)),
        Action.ofI8 (sgn (crossUnderRule s.cross.up.last_delta (rvi - sig) && decide (s.zone < rvi) && decide (s.zone < sig)) -
                     sgn (crossAboveRule s.cross.up.last_delta (rvi - sig) && decide (rvi < -s.zone) && decide (sig < -s.zone))) ] :=
  RVI.sigs_spec s hs rvi sig

theorem C06_woodies (s : Woodies) (hs : Synced s.s1_cross) (turbo trend : ℚ) :
    let cr := crossI s.s1_cross.up.last_delta (trend - 0)
    let cnt : Int := if cr = 0 then s.s1_count + signi trend else cr
    (s.sigs [turbo, trend]).1 = [Action.ofI8 ((if cnt.natAbs = s.s1_lag then 1 else 0) * Int.sign cnt)] ∧
    (s.sigs [turbo, trend]).2.s1_count = cnt := Woodies.sigs_spec s hs turbo trend

theorem C06_woodies_count (s : Woodies) (hs : Synced s.s1_cross) (turbo trend : ℚ) :
    (crossAboveRule s.s1_cross.up.last_delta (trend - 0) = true → (s.sigs [turbo, trend]).2.s1_count = 1) ∧
    (crossUnderRule s.s1_cross.up.last_delta (trend - 0) = true → (s.sigs [turbo, trend]).2.s1_count = -1) ∧
    (crossAboveRule s.s1_cross.up.last_delta (trend - 0) = false → crossUnderRule s.s1_cross.up.last_delta (trend - 0) = false →
      (s.sigs [turbo, trend]).2.s1_count = s.s1_count + signi trend) := Woodies.count_step s hs turbo trend

theorem C06_cci (s : CCIInd) (cci : ℚ) :
    let t : Int := sgn (decide (cci < -s.zone) && decide (-s.zone ≤ s.last_cci)) - sgn (decide (s.zone < cci) && decide (s.last_cci ≤ s.zone))
    (s.sigs [cci]).1 = [Action.ofI8 ((if t ≠ 0 ∧ s.last_signal ≠ t then 1 else 0) * t)] ∧
    (s.sigs [cci]).2.last_cci = cci ∧ (s.sigs [cci]).2.last_signal = (if t ≠ 0 ∧ s.last_signal ≠ t then 1 else 0) * t :=
  CCIInd.sigs_spec s cci

theorem C06_momentum_index (a b : ℚ) :
    MomIdx.sig [a, b] = (if 0 < a ∧ 0 < b then Action.buyAll else if a < 0 ∧ b < 0 then Action.sellAll else Action.none) :=
  MomIdx.sig_spec a b

theorem C06_adx (s : ADX) (adx plus minus : ℚ) :
    (s.sigs [adx, plus, minus]) =
      ((if s.zone < adx then (if minus < plus then Action.buyAll else if plus < minus then Action.sellAll else Action.none)
        else Action.none), plus - minus) := ADX.sigs_spec s adx plus minus

theorem C06_single_crossings (v sl : ℚ) :
    (∀ s : ChaikinOsc, Synced s.cross_over → (s.sigs [v]).1 = [Action.ofI8 (crossI s.cross_over.up.last_delta (v - 0))]) ∧
    (∀ s : EoM, Synced s.cross → (s.sigs [v]).1 = [Action.ofI8 (crossI s.cross.up.last_delta (v - 0))]) ∧
    (∀ s : EFI, Synced s.cross_over → (s.sigs [v]).1 = [Action.ofI8 (crossI s.cross_over.up.last_delta (v - 0))]) ∧
    (∀ s : KST, Synced s.cross → (s.sigs [v, sl]).1 = [Action.ofI8 (crossI s.cross.up.last_delta (v - sl))]) ∧
    (∀ s : Klinger, Synced s.cross1 → Synced s.cross2 →
      (s.sigs [v, sl]).1 = [Action.ofI8 (crossI s.cross1.up.last_delta (v - 0)), Action.ofI8 (crossI s.cross2.up.last_delta (v - sl))]) :=
  ⟨fun s h => (ChaikinOsc.sigs_spec s h v).1, fun s h => (EoM.sigs_spec s h v).1, fun s h => (EFI.sigs_spec s h v).1,
   fun s h => (KST.sigs_spec s h v sl).1, fun s h1 h2 => (Klinger.sigs_spec s h1 h2 v sl).1⟩

/-! non-vacuity: a candle piercing the SAR of the initial up-trend flips it and sells -/
example : ((({ af_step := 1/50, af_max := 1/5, trend := 1, trend_inc := 1, low := 9, high := 11, sar := 9,
               prev_low := 9, prev_high := 11, prev_trend := 1 } : SAR).next
            { open_ := 10, high := 10, low := 8, close := 9, volume := 1 }).1.2) = Action.sellAll := by
  simp [SAR.next, Action.ofI8]
  norm_num

/-- Parabolic SAR over whole streams, from its constructor: the signal of step `i` fires exactly when the returned trend
    differs from the one returned at step `i − 1` (from 0, "no trend yet", at the first step): full buy for a new up-trend,
    full sell for a new down-trend -/
theorem C06_sar_run (a b : ℚ) (k0 : Candle ℚ) (s0 : SAR) (h0 : SAR.init a b k0 = .ok s0) (cs : List (Candle ℚ))
    (hv : ∀ k ∈ cs, k.low ≤ k.high) :
    ∀ i (hi : i < cs.length),
      let o := (SAR.run s0 cs).1[i]'(by rw [SAR.run_length]; exact hi)
      let f := (SAR.flips s0 cs)[i]'(by rw [SAR.flips_length]; exact hi)
      o.1.map VExp.value = [f.sar, (f.trend : ℚ)] ∧
      o.2 = SAR.rule (if _h : i = 0 then 0 else ((SAR.flips s0 cs)[i - 1]'(by rw [SAR.flips_length]; omega)).trend) f.trend :=
  SAR.run_signals a b k0 s0 h0 cs hv

end Yata.C06

#print axioms Yata.C06.C06_macd
#print axioms Yata.C06.C06_donchian
#print axioms Yata.C06.C06_price_channel
#print axioms Yata.C06.C06_envelopes
#print axioms Yata.C06.C06_aroon
#print axioms Yata.C06.C06_sar_inv
#print axioms Yata.C06.C06_sar_signal
#print axioms Yata.C06.C06_rsi
#print axioms Yata.C06.C06_mfi
#print axioms Yata.C06.C06_cmf
#print axioms Yata.C06.C06_cmo
#print axioms Yata.C06.C06_keltner
#print axioms Yata.C06.C06_stochastic
#print axioms Yata.C06.C06_ichimoku
#print axioms Yata.C06.C06_tsi
#print axioms Yata.C06.C06_smi
#print axioms Yata.C06.C06_rvi
#print axioms Yata.C06.C06_woodies
#print axioms Yata.C06.C06_woodies_count
#print axioms Yata.C06.C06_cci
#print axioms Yata.C06.C06_momentum_index
#print axioms Yata.C06.C06_adx
#print axioms Yata.C06.C06_single_crossings
#print axioms Yata.C06.C06_sar_run
