/-
  C05 — Indicator raw values equal the documented formulas.

  Statements are about the exact-arithmetic models of lean/YataModel/Indicators.lean (16 indicators,
  tied to src/indicators/*.rs by the `ind` correspondence run: every returned value at every step).

  * The configurable moving average `MA.init` / `MAInst.next` *realises* a history function:
    `Realises f m h` — after the inputs `h` the instance `m` answers `f (h ++ [x])` to every next input `x`,
    for ever (`C05_realises_run`).  Proved here for SMA, EMA (the kinds the indicators use by default), WMA and RMA (SMA: arithmetic mean
    of the last `n` values with the construction value as prehistory; EMA: the recurrence with α = 2/(n+1));
    the other kinds' machines are related to their formulas in C02/C03 and compose the same way.
  * EVERY kind realises its documented formula (`C05_every_kind_realises`: the C02/C03/C04 run theorems of all 15 kinds
    lifted to the configurable average), so the `Realises` hypotheses of the step theorems below can be discharged for
    every configuration; done for MACD from its constructor (`C05_macd_init_every_kind`) and over whole streams (`C05_macd_run`:
    for every accepted configuration, every candle stream, every step).
  * MACD (every stream, every pair of realised averages): value 0 is `f₁(sources) − f₂(sources)`, value 1 is
    `f₃` of the history of value 0 (`C05_macd_step`, an invariant step lifted over candle lists by `runM_invariant`).
  * Donchian channel, from `init`, over every candle list: the bounds are a greatest / least element of the last `n`
    highs / lows of `n copies of the first candle ++ candles so far`, the middle is their mean (`C05_donchian_run`).
  * RSI: `pos/(pos+neg)` (½ when both vanish) of the realised averages of gains and losses (`C05_rsi_step`).
  * Chande momentum: from an invariant state the running sums are the window sums of positive / negative parts and
    the value is `(P−N)/(P+N)` (0 when both vanish) (`C05_cmo_step`).
  * Aroon: `(period − age)/period` of the newest highest high / lowest low, the ages being characterised by
    `HighestIndex.Inv` (C04: newest maximal element) (`C05_aroon_step`).
  * Bollinger: centre = mean, variance under the bands = sample variance of the last `avg_size` sources, from
    invariant SMA / StDev states (`C05_bollinger_step`; the bands are centre ± sigma·sqrt(variance), sqrt not modelled).
  * Money-flow: the source's `1 − 1/(1 + pmf/nmf)` is `pmf/(pmf+nmf)` (`C05_mfi_formula`).
  * Parabolic SAR: the returned pair is the state after the flip test (`C05_sar_values`).
  * Stochastic: the k-row is `(close − lo)/(hi − lo)` (½ on an empty range) of a greatest high / least low of the last
    `period` candles, the two lines are the realised averages of it, stacked (`C05_stochastic_step`).
  * Keltner: `[source, f(sources) ± σ·mean(last n true ranges)]` (`C05_keltner_step`).
  * Ichimoku: tenkan / kijun are mid-points of the extremes over `l1` / `l2` candles, the spans are the mid-points formed
    `m` steps earlier, from the constructor's invariant (`C05_ichimoku_init`, `C05_ichimoku_step`).
  * Chaikin money flow: Σ CLV·volume / Σ volume over the last `size` candles (`C05_cmf_step`).
  * Money-flow index: the flows are the sums over the last `period` candles of the volumes of candles whose typical price
    rose / fell against the previous candle; value `pmf/(pmf+nmf)`, ½ without negative flow (`C05_mfi_step`, `C05_mfi_init`).
  * ADX: averaged true range; directional movements against the candle `period1` steps back averaged and divided by it;
    the index is the average of |+DI − −DI|/(+DI + −DI); nothing but the true-range average moves while it is zero
    (`C05_adx_step`).
  * TrendStrengthIndex: `p/sqrt q` with `p = (WMA − mean)·Σi`, `q = k·(Σx² − mean·Σx)` over the last `period` sources
    (`C05_trend_strength_step`); FisherTransform: `prev/2 + atanhQ(clamped position of the source in the window's range)`
    and the realised average of that (`C05_fisher_step`; `atanhQ` is the model's rational stand-in for atanh).
  * AwesomeOscillator `f₂(sources) − f₁(sources)`; DetrendedPriceOscillator `source n steps ago − f(sources)`;
    EaseOfMovement the realised average of `mid-point move · range / volume` (0 on zero volume) against the candle `period2`
    back; EldersForceIndex the realised average of `source change · window volume` (`C05_ao_step`, `C05_dpo_step`,
    `C05_eom_step`, `C05_efi_step`).
  * Envelopes `f(sources)·(1 ± k)` and the second source; KlingerVolumeOscillator `f₁ − f₂` of the signed volumes and the
    realised signal line; TrueStrengthIndex / SMIErgodic: the TSI quotient of the doubly smoothed changes (C03) and the
    realised smoothing of it (`C05_envelopes_step`, `C05_klinger_step`, `C05_tsi_step`).
  Partial: the remaining tier-2 indicators' value theorems over whole histories are not written (those
  models are validated by the correspondence run only); floats are outside.
-/
import YataProofs.Indicators.More
import YataProofs.Indicators.Stoch
import YataProofs.Indicators.Ichi
import YataProofs.Indicators.ADX
import YataProofs.Indicators.Keltner
import YataProofs.Indicators.CMFRange
import YataProofs.Indicators.MFIRange
import YataProofs.Indicators.Irrational
import YataProofs.Indicators.Tier2
import YataProofs.Indicators.Tier2b
import YataProofs.Indicators.Realises2
import YataProofs.Indicators.RealisesEvery
import YataProofs.Indicators.MACDRun
import YataProofs.Indicators.RSISpecRun
namespace Yata.C05
open Yata Yata.Ind

theorem C05_realises_run {f : List ℚ → ℚ} {m : M} {h : List ℚ} (hr : Realises f m h) (xs : List ℚ) :
    ∃ outs m', runM MAInst.next m xs = .ok (outs, m') ∧ Realises f m' (h ++ xs) ∧ outs.length = xs.length ∧
      ∀ i (hi : i < outs.length), outs[i] = f (h ++ xs.take (i + 1)) := hr.run xs

theorem C05_sma_realises {P n : Nat} (v : ℚ) (hn0 : 0 < n) (hn : n ≤ P - 1) :
    ∃ m, MA.init P { kind := .sma, length := n } v = .ok m ∧
      Realises (fun h => Spec.mean n (lastN n (history n v h))) m [] := sma_realises v hn0 hn

theorem C05_ema_realises {P n : Nat} (v : ℚ) (hn0 : 0 < n) (hn : n ≤ P - 1) :
    ∃ m, MA.init P { kind := .ema, length := n } v = .ok m ∧
      Realises (fun h => Spec.emaRec (((2 : Nat) : ℚ) / ((n + 1 : Nat) : ℚ)) v h) m [] := ema_realises v hn0 hn

theorem C05_macd_step {f1 f2 f3 : List ℚ → ℚ} {srcs macds : List ℚ} {s : MACD} (k : Candle ℚ)
    (hi : MACD.Inv f1 f2 f3 srcs macds s) :
    let x := k.source s.cfg.source
    let macd := f1 (srcs ++ [x]) - f2 (srcs ++ [x])
    ∃ v s', s.vals k none = .ok (v, s') ∧ v.map VExp.value = [macd, f3 (macds ++ [macd])] ∧
      MACD.Inv f1 f2 f3 (srcs ++ [x]) (macds ++ [macd]) s' ∧ s'.cfg = s.cfg := MACD.vals_spec k hi

theorem C05_donchian_run {P n : Nat} (k0 : Candle ℚ) (hn1 : 1 < n) (hn : n ≤ P - 1) (cs : List (Candle ℚ)) :
    ∃ s0 outs s', Channel.init P n 1 true k0 = .ok s0 ∧
      runM (fun s k => Channel.donchianVals s k) s0 cs = .ok (outs, s') ∧ outs.length = cs.length ∧
      ∀ i (hi : i < outs.length), ∃ lo hiV,
        outs[i].map VExp.value = [lo, (hiV + lo) * half, hiV] ∧
        IsMaxOf hiV (lastN n (List.replicate n k0.high ++ (cs.take (i + 1)).map (·.high))) ∧
        IsMinOf lo (lastN n (List.replicate n k0.low ++ (cs.take (i + 1)).map (·.low))) :=
  Channel.donchian_run k0 hn1 hn cs

theorem C05_rsi_step {fp fn : List ℚ → ℚ} {gains losses : List ℚ} {s : RSI} (k : Candle ℚ)
    (hp : Realises fp s.posma gains) (hn : Realises fn s.negma losses) :
    let src := k.source s.cfg.source
    let g := smax (src - s.previous_input) 0
    let l := smin (src - s.previous_input) 0
    let pos := fp (gains ++ [g])
    let neg := -(fn (losses ++ [l]))
    ∃ v s', s.vals k = .ok ([v], s') ∧
      v.value = (if pos + neg = 0 then half else qclamp (pos / (pos + neg)) 0 1) ∧ 0 ≤ v.value ∧ v.value ≤ 1 ∧
      Realises fp s'.posma (gains ++ [g]) ∧ Realises fn s'.negma (losses ++ [l]) ∧
      s'.previous_input = src ∧ s'.cfg = s.cfg := RSI.vals_spec k hp hn

/-- the clamp of the code (`fix:` 91f0f9b) does nothing for non-negative averages: the value is the documented pos / (pos + neg) -/
theorem C05_rsi_unclamped (pos neg : ℚ) (h1 : 0 ≤ pos) (h2 : 0 ≤ neg) (hz : pos + neg ≠ 0) :
    qclamp (pos / (pos + neg)) 0 1 = pos / (pos + neg) := RSI.value_unclamped pos neg h1 h2 hz

theorem C05_cmo_step {P : Nat} {s : CMO} (k : Candle ℚ) (h : CMO.Inv P s) :
    ∃ v s', s.vals k = .ok ([v], s') ∧ CMO.Inv P s' ∧ 0 ≤ s'.pos_sum ∧ 0 ≤ s'.neg_sum ∧
      v.value = (if s'.pos_sum + s'.neg_sum = 0 then 0 else (s'.pos_sum - s'.neg_sum) / (s'.pos_sum + s'.neg_sum)) ∧
      -1 ≤ v.value ∧ v.value ≤ 1 := CMO.vals_spec k h

theorem C05_aroon_step {P : Nat} {s : Aroon} (k : Candle ℚ)
    (hh : HighestIndex.Inv P s.highest_index) (hl : LowestIndex.Inv P s.lowest_index) :
    ∃ v hi li s', Aroon.vals P s k = .ok (v, (hi, li), s') ∧
      v.map VExp.value = [((s.cfg.period - hi : Nat) : ℚ) / (s.cfg.period : ℚ), ((s.cfg.period - li : Nat) : ℚ) / (s.cfg.period : ℚ)] ∧
      HighestIndex.Inv P s'.highest_index ∧ LowestIndex.Inv P s'.lowest_index ∧
      hi = s'.highest_index.index ∧ li = s'.lowest_index.index ∧
      Window.toList s'.highest_index.window = (Window.toList s.highest_index.window).tail ++ [k.high] ∧
      Window.toList s'.lowest_index.window = (Window.toList s.lowest_index.window).tail ++ [k.low] ∧ s'.cfg = s.cfg :=
  Aroon.vals_spec k hh hl

theorem C05_bollinger_step {P : Nat} {hist : List ℚ} {s : BB} (k : Candle ℚ) (hn : 2 ≤ s.cfg.avg_size)
    (hm : SMA.Inv P s.cfg.avg_size hist s.ma) (hd : StDev.Inv P s.cfg.avg_size hist s.st_dev) :
    let n := s.cfg.avg_size
    let w := lastN n (hist ++ [k.source s.cfg.source])
    ∃ s', s.step k = .ok (Spec.mean n w, (w.map fun x => (x - Spec.mean n w) * (x - Spec.mean n w)).sum / ((n - 1 : Nat) : ℚ), s') ∧
      SMA.Inv P n (hist ++ [k.source s.cfg.source]) s'.ma ∧ StDev.Inv P n (hist ++ [k.source s.cfg.source]) s'.st_dev ∧
      s'.cfg = s.cfg := BB.step_spec k hn hm hd

theorem C05_mfi_formula (p n : ℚ) (hp : 0 ≤ p) (hn : 0 < n) : 1 - 1 / (1 + p / n) = p / (p + n) := mfi_formula p n hp hn

theorem C05_sar_values (s : SAR) (k : Candle ℚ) :
    ((s.next k).1.1.map VExp.value) = [(SAR.afterFlip s k).sar, ((SAR.afterFlip s k).trend : ℚ)] := SAR.next_values s k

theorem C05_stochastic_step {P : Nat} {g1 g2 : List ℚ → ℚ} {highs lows krs f1s : List ℚ} {s : Stoch} (k : Candle ℚ)
    (h : Stoch.Inv P g1 g2 highs lows krs f1s s) :
    ∃ hi lo v s', s.vals k none = .ok (v, s') ∧
      IsMaxOf hi (lastN s.cfg.period (highs ++ [k.high])) ∧ IsMinOf lo (lastN s.cfg.period (lows ++ [k.low])) ∧
      (let kr := Stoch.kRows k.close hi lo
       let f1 := g1 (krs ++ [kr])
       v.map VExp.value = [f1, g2 (f1s ++ [f1])] ∧
       Stoch.Inv P g1 g2 (highs ++ [k.high]) (lows ++ [k.low]) (krs ++ [kr]) (f1s ++ [f1]) s') ∧ s'.cfg = s.cfg :=
  Stoch.vals_spec k h

theorem C05_keltner_step {P : Nat} {f : List ℚ → ℚ} {srcs hist : List ℚ} {s : Keltner} (k : Candle ℚ)
    (h : Keltner.Inv P hist s) (hr : Realises f s.ma srcs) (hv : k.low ≤ k.high) :
    let x := k.source s.cfg.source
    let trs := hist ++ [k.trClose s.prev_close]
    let atr := Spec.mean s.cfg.ma.length (lastN s.cfg.ma.length trs)
    ∃ v s', s.vals k = .ok (v, s') ∧
      v.map VExp.value = [x, atr * s.cfg.sigma + f (srcs ++ [x]), atr * (-s.cfg.sigma) + f (srcs ++ [x])] ∧
      Keltner.Inv P trs s' ∧ Realises f s'.ma (srcs ++ [x]) ∧ s'.prev_close = k.close ∧ s'.cfg = s.cfg :=
  Keltner.vals_spec k h hr hv

theorem C05_ichimoku_init {P : Nat} (c : IchiCfg) (k : Candle ℚ) (h1 : 0 < c.l1) (h12 : c.l1 < c.l2) (h23 : c.l2 < c.l3)
    (h3 : c.l3 ≤ P - 1) (hm0 : 0 < c.m) (hm : c.m < P) :
    ∃ s, Ichi.init P c k = .ok s ∧ s.cfg = c ∧
      Ichi.Inv P (List.replicate c.l3 k.high) (List.replicate c.l3 k.low) (List.replicate c.m k.hl2)
        (List.replicate c.m k.hl2) s := Ichi.init_inv c k h1 h12 h23 h3 hm0 hm

theorem C05_ichimoku_step {P : Nat} {highs lows as bs : List ℚ} {s : Ichi} (k : Candle ℚ) (h : Ichi.Inv P highs lows as bs s) :
    ∃ a e b f d g spanA spanB s',
      s.vals k = .ok ([.price ((a + e) * half) 1, .price ((b + f) * half) 1, .price spanA 1, .price spanB 1], s') ∧
      IsMaxOf a (lastN s.cfg.l1 (highs ++ [k.high])) ∧ IsMinOf e (lastN s.cfg.l1 (lows ++ [k.low])) ∧
      IsMaxOf b (lastN s.cfg.l2 (highs ++ [k.high])) ∧ IsMinOf f (lastN s.cfg.l2 (lows ++ [k.low])) ∧
      IsMaxOf d (lastN s.cfg.l3 (highs ++ [k.high])) ∧ IsMinOf g (lastN s.cfg.l3 (lows ++ [k.low])) ∧
      (lastN s.cfg.m as).head? = some spanA ∧ (lastN s.cfg.m bs).head? = some spanB ∧
      Ichi.Inv P (highs ++ [k.high]) (lows ++ [k.low]) (as ++ [((a + e) * half + (b + f) * half) * half])
        (bs ++ [(d + g) * half]) s' ∧ s'.cfg = s.cfg := Ichi.vals_spec k h

theorem C05_cmf_step {P : Nat} {hist : List (Candle ℚ)} {s : CMF} (k : Candle ℚ) (h : CMF.Inv P hist s) (hk : goodCandle k) :
    ∃ num den s', s.vals k = .ok ([.quot num den (s.size : ℚ) (s.size : ℚ) .vol [] none], s') ∧
      CMF.Inv P (hist ++ [k]) s' ∧ s'.size = s.size ∧
      num = ((lastN s.size (hist ++ [k])).map fun c => c.clv * c.volume).sum ∧
      den = ((lastN s.size (hist ++ [k])).map fun c => c.volume).sum := by
  obtain ⟨num, den, s', h1, h2, h3, h4, h5, _⟩ := CMF.vals_spec k h hk
  exact ⟨num, den, s', h1, h2, h3, h4, h5⟩

theorem C05_mfi_init {P period : Nat} (zone : ℚ) (k : Candle ℚ) (s : MFI) (h : MFI.init P period zone k = .ok s) :
    MFI.Inv P k (List.replicate period k) s ∧ s.period = period ∧ s.zone = zone := MFI.init_inv zone k s h

/-- `MFI.Inv` says `pmf` / `nmf` are the sums of `MFI.flows` over the last `period` candles -/
theorem C05_mfi_step {P : Nat} {c0 : Candle ℚ} {H : List (Candle ℚ)} {s : MFI} (k : Candle ℚ) (h : MFI.Inv P c0 H s)
    (hk : 0 ≤ k.volume) :
    ∃ v s', s.vals k = .ok ([.exact (1 - s.zone), v, .exact s.zone], s') ∧ MFI.Inv P c0 (H ++ [k]) s' ∧
      v.value = (if s'.nmf = 0 then half else s'.pmf / (s'.pmf + s'.nmf)) := by
  obtain ⟨v, s', h1, h2, _, _, _, h3, _⟩ := MFI.vals_spec k h hk
  exact ⟨v, s', h1, h2, h3⟩

theorem C05_adx_step {P n : Nat} {gT gP gM gA : List ℚ → ℚ} {cs : List (Candle ℚ)} {trs pdms mdms ts : List ℚ} {s : ADX}
    (k : Candle ℚ) (h : ADX.Inv P n gT gP gM gA cs trs pdms mdms ts s) :
    ∃ prev, (lastN n cs).head? = some prev ∧
    let trs' := trs ++ [k.trClose s.prev_close]
    let tr := gT trs'
    (tr = 0 →
      ∃ v s', s.vals k none = .ok (v, s', true) ∧ v.map VExp.value = [gA (ts ++ [0]), 0, 0] ∧
        s'.prev_close = s.prev_close ∧ ADX.Inv P n gT gP gM gA (cs ++ [k]) trs' pdms mdms (ts ++ [0]) s') ∧
    (tr ≠ 0 →
      let pv := gP (pdms ++ [ADX.pdm k prev])
      let mv := gM (mdms ++ [ADX.mdm k prev])
      let plus := pv / tr
      let minus := mv / tr
      let t := ADX.tOf plus minus
      ∃ v s', s.vals k none = .ok (v, s', false) ∧ v.map VExp.value = [gA (ts ++ [t]), plus, minus] ∧
        s'.prev_close = k.close ∧
        ADX.Inv P n gT gP gM gA (cs ++ [k]) trs' (pdms ++ [ADX.pdm k prev]) (mdms ++ [ADX.mdm k prev]) (ts ++ [t]) s') :=
  ADX.vals_spec k h

/-- the input of ADX's final average is the textbook |+DI − −DI| / (+DI + −DI) (0 when both vanish) whenever the two
    quotients are non-negative, as the exact ones are; the guard `s <= 0` and the clamp to 1 of the code only act on
    rounding residue -/
theorem C05_adx_t_textbook {plus minus : ℚ} (hp : 0 ≤ plus) (hm : 0 ≤ minus) :
    ADX.tOf plus minus = if plus + minus = 0 then 0 else |plus - minus| / (plus + minus) := ADX.tOf_nonneg hp hm

theorem C05_trend_strength_step {P : Nat} {srcs : List ℚ} {s : TSInd} (src : ℚ) (h : TSInd.Inv P srcs s) :
    let w := lastN s.period (srcs ++ [src])
    let sy := w.sum
    let sy2 := (w.map fun x => x * x).sum
    let sma := sy / (s.period : ℚ)
    let wma := Spec.rampSum 1 w / ((s.period * (s.period + 1) / 2 : Nat) : ℚ)
    ∃ s', s.vals src = .ok ([.sqrtQuot ((wma - sma) * s.sx) (s.k * (sy2 - sma * sy)) (2 * s.sx) (2 * s.k * (s.period : ℚ))], s') ∧
      TSInd.Inv P (srcs ++ [src]) s' ∧ s'.sx = s.sx ∧ s'.k = s.k ∧ s'.period = s.period := TSInd.vals_spec src h

theorem C05_fisher_step {P : Nat} {g : List ℚ → ℚ} {srcs cums : List ℚ} {s : Fisher} (src : ℚ) (h : Fisher.Inv P g srcs cums s) :
    ∃ hi lo v s', s.vals src none = .ok (v, s') ∧
      IsMaxOf hi (lastN s.period1 (srcs ++ [src])) ∧ IsMinOf lo (lastN s.period1 (srcs ++ [src])) ∧
      (let ft := if hi = lo then 0 else atanhQ (Fisher.xOf s.bound src hi lo)
       let cum := cums.getLastD 0 * half + ft
       v.map VExp.value = [cum, g (cums ++ [cum])] ∧ Fisher.Inv P g (srcs ++ [src]) (cums ++ [cum]) s') :=
  Fisher.vals_spec src h

/-- the argument of the transform never leaves [−bound, bound] -/
theorem C05_fisher_clamped (b src hi lo : ℚ) (hb : 0 ≤ b) : -b ≤ Fisher.xOf b src hi lo ∧ Fisher.xOf b src hi lo ≤ b :=
  Fisher.xOf_range b src hi lo hb

theorem C05_ao_step {f1 f2 : List ℚ → ℚ} {srcs : List ℚ} {s : AO} (k : Candle ℚ) (h : AO.Inv f1 f2 srcs s) :
    let x := k.source s.cfg.source
    ∃ v s', s.vals k = .ok (v, s') ∧ v.map VExp.value = [f2 (srcs ++ [x]) - f1 (srcs ++ [x])] ∧
      AO.Inv f1 f2 (srcs ++ [x]) s' ∧ s'.cfg = s.cfg := AO.vals_spec k h

theorem C05_dpo_step {P n : Nat} {f : List ℚ → ℚ} {srcs : List ℚ} {s : DPO} (k : Candle ℚ) (h : DPO.Inv P n f srcs s) :
    let x := k.source s.source
    ∃ left v s', (lastN n srcs).head? = some left ∧ s.vals k = .ok (v, s') ∧
      v.map VExp.value = [left - f (srcs ++ [x])] ∧ DPO.Inv P n f (srcs ++ [x]) s' := DPO.vals_spec k h

theorem C05_eom_step {P n : Nat} {f : List ℚ → ℚ} {cs : List (Candle ℚ)} {raws : List ℚ} {s : EoM} (k : Candle ℚ)
    (h : EoM.Inv P n f cs raws s) :
    ∃ prev v s', (lastN n cs).head? = some prev ∧ s.vals k = .ok (v, s') ∧
      v.map VExp.value = [f (raws ++ [EoM.raw k prev])] ∧ EoM.Inv P n f (cs ++ [k]) (raws ++ [EoM.raw k prev]) s' :=
  EoM.vals_spec k h

theorem C05_efi_step {P n : Nat} {f : List ℚ → ℚ} {cs : List (Candle ℚ)} {raws : List ℚ} {s : EFI} (k : Candle ℚ)
    (h : EFI.Inv P n f cs raws s) :
    let vs := ((lastN n (cs ++ [k])).map fun c => c.volume).sum
    ∃ left v s', (lastN n cs).head? = some left ∧ s.vals k = .ok (v, s') ∧
      (let r := (k.source s.source - left.source s.source) * vs
       v.map VExp.value = [f (raws ++ [r])] ∧ EFI.Inv P n f (cs ++ [k]) (raws ++ [r]) s') := EFI.vals_spec k h

theorem C05_envelopes_step {f : List ℚ → ℚ} {srcs : List ℚ} {s : Env} (k : Candle ℚ) (h : Realises f s.ma srcs) :
    let x := k.source s.cfg.source
    ∃ v s', s.vals k = .ok (v, s') ∧
      v.map VExp.value = [f (srcs ++ [x]) * s.k_high, f (srcs ++ [x]) * s.k_low, k.source s.cfg.source2] ∧
      Realises f s'.ma (srcs ++ [x]) ∧ s'.cfg = s.cfg ∧ s'.k_high = s.k_high ∧ s'.k_low = s.k_low := Env.vals_spec k h

theorem C05_klinger_step {f1 f2 f3 : List ℚ → ℚ} {vols kos : List ℚ} {s : Klinger} (k : Candle ℚ) (tp : ℚ)
    (h : Klinger.Inv f1 f2 f3 vols kos s) :
    let vol := (signi (tp - s.last_tp) : ℚ) * k.volume
    let ko := f1 (vols ++ [vol]) - f2 (vols ++ [vol])
    ∃ v s', s.vals k tp none = .ok (v, s') ∧ v.map VExp.value = [ko, f3 (kos ++ [ko])] ∧
      Klinger.Inv f1 f2 f3 (vols ++ [vol]) (kos ++ [ko]) s' ∧ s'.last_tp = tp := Klinger.vals_spec k tp h

theorem C05_tsi_step {aL aS v0 : ℚ} {g : List ℚ → ℚ} {srcs ts : List ℚ} {s : TSIx} (k : Candle ℚ) (smi : Bool)
    (h : TSIx.Inv aL aS v0 g srcs ts s) :
    let x := k.source s.cfg.source
    let ch := Spec.changes v0 (srcs ++ [x])
    let num := Spec.emaRec aS 0 (Spec.series (Spec.emaRec aL 0) ch)
    let den := Spec.emaRec aS 0 (Spec.series (Spec.emaRec aL 0) (ch.map sabs))
    let t := if 0 < den then num / den else 0
    ∃ s', s.vals k none smi = .ok
        ((if smi then [.quot num den 2 2 .price [] (some 0), .unit (g (ts ++ [t])) (2 * maK s.smooth),
                       .unit (t - g (ts ++ [t])) (4 * maK s.smooth)]
          else [.quot num den 2 2 .price [] (some 0), .unit (g (ts ++ [t])) (2 * maK s.smooth)]), s') ∧
      TSIx.Inv aL aS v0 g (srcs ++ [x]) (ts ++ [t]) s' ∧ s'.cfg = s.cfg := TSIx.vals_spec k smi h

theorem C05_wma_realises {P n : Nat} (v : ℚ) (hn0 : 0 < n) (hn : n ≤ P - 1) :
    ∃ m, MA.init P { kind := .wma, length := n } v = .ok m ∧ Realises (fun h => Spec.wma n v h) m [] :=
  wma_realises v hn0 hn

theorem C05_rma_realises {P n : Nat} (v : ℚ) (hn0 : 0 < n) :
    ∃ m, MA.init P { kind := .rma, length := n } v = .ok m ∧ Realises (fun h => Spec.emaRec (1 / (n : ℚ)) v h) m [] :=
  rma_realises v hn0

theorem C05_every_kind_realises {P : Nat} (k : MAKind) (n : Nat) (v : ℚ) (h : validLen P k n) :
    ∃ m, MA.init P { kind := k, length := n } v = .ok m ∧ Realises (specOf k n v) m [] := every_kind_realises k n v h

theorem C05_macd_init_every_kind {P : Nat} (c : MACDCfg) (k : Candle ℚ) (hv : MACD.validate c = true)
    (h1 : validLen P c.ma1.kind c.ma1.length) (h2 : validLen P c.ma2.kind c.ma2.length)
    (h3 : validLen P c.signal.kind c.signal.length) :
    ∃ s, MACD.init P c k = .ok s ∧ s.cfg = c ∧
      MACD.Inv (specOf c.ma1.kind c.ma1.length (k.source c.source)) (specOf c.ma2.kind c.ma2.length (k.source c.source))
        (specOf c.signal.kind c.signal.length 0) [] [] s := MACD.init_every_kind c k hv h1 h2 h3

/-- MACD over whole streams, every accepted configuration (any of the 15 kinds in each of the three slots): value 0 is the
    difference of the two documented averages of the sources so far, value 1 the documented signal average of the history
    of value 0 -/
theorem C05_macd_run {P : Nat} (c : MACDCfg) (k0 : Candle ℚ) (hv : MACD.validate c = true)
    (h1 : validLen P c.ma1.kind c.ma1.length) (h2 : validLen P c.ma2.kind c.ma2.length)
    (h3 : validLen P c.signal.kind c.signal.length) (cs : List (Candle ℚ)) :
    ∃ s0 outs s', MACD.init P c k0 = .ok s0 ∧ runM (fun s k => s.vals k none) s0 cs = .ok (outs, s') ∧ outs.length = cs.length ∧
      ∀ i (hi : i < outs.length),
        (outs[i]).map VExp.value =
          [MACD.line c k0 (cs.take (i + 1)),
           specOf c.signal.kind c.signal.length 0 ((List.range (i + 1)).map fun j => MACD.line c k0 (cs.take (j + 1)))] :=
  MACD.run_spec c k0 hv h1 h2 h3 cs

/-! non-vacuity: a reachable MACD state satisfies the invariant (both default averages are EMAs) -/
example : ∃ m, MA.init 255 { kind := .ema, length := 12 } (100 : ℚ) = .ok m ∧
    Realises (fun h => Spec.emaRec (((2 : Nat) : ℚ) / ((12 + 1 : Nat) : ℚ)) 100 h) m [] :=
  ema_realises 100 (by norm_num) (by norm_num)

/-- RSI over whole streams, EVERY kind of moving average, from the constructor: at every step the value is the documented
    pos / (pos + neg) — clamped to [0, 1] by the code, 1/2 when both averages vanish — of the documented averages
    (`specOf kind length 0`) of the gains and of the losses of the sources consumed so far -/
theorem C05_rsi_run {P : Nat} (c : RSICfg) (k0 : Candle ℚ) (hv : RSI.validate c = true)
    (h1 : validLen P c.ma.kind c.ma.length) (cs : List (Candle ℚ)) :
    ∃ s0 outs s', RSI.init P c k0 = .ok s0 ∧ runM RSI.vals s0 cs = .ok (outs, s') ∧ outs.length = cs.length ∧
      ∀ i (hi : i < outs.length), ∃ v, outs[i] = [v] ∧
        v.value = RSI.valueOf c (k0.source c.source) ((cs.take (i + 1)).map fun k => k.source c.source) :=
  RSI.run_spec c k0 hv h1 cs

end Yata.C05

#print axioms Yata.C05.C05_realises_run
#print axioms Yata.C05.C05_sma_realises
#print axioms Yata.C05.C05_ema_realises
#print axioms Yata.C05.C05_macd_step
#print axioms Yata.C05.C05_donchian_run
#print axioms Yata.C05.C05_rsi_step
#print axioms Yata.C05.C05_cmo_step
#print axioms Yata.C05.C05_mfi_formula
#print axioms Yata.C05.C05_sar_values
#print axioms Yata.C05.C05_aroon_step
#print axioms Yata.C05.C05_bollinger_step
#print axioms Yata.C05.C05_stochastic_step
#print axioms Yata.C05.C05_keltner_step
#print axioms Yata.C05.C05_ichimoku_init
#print axioms Yata.C05.C05_ichimoku_step
#print axioms Yata.C05.C05_cmf_step
#print axioms Yata.C05.C05_mfi_init
#print axioms Yata.C05.C05_mfi_step
#print axioms Yata.C05.C05_adx_step
#print axioms Yata.C05.C05_trend_strength_step
#print axioms Yata.C05.C05_fisher_step
#print axioms Yata.C05.C05_fisher_clamped
#print axioms Yata.C05.C05_ao_step
#print axioms Yata.C05.C05_dpo_step
#print axioms Yata.C05.C05_eom_step
#print axioms Yata.C05.C05_efi_step
#print axioms Yata.C05.C05_envelopes_step
#print axioms Yata.C05.C05_klinger_step
#print axioms Yata.C05.C05_tsi_step
#print axioms Yata.C05.C05_wma_realises
#print axioms Yata.C05.C05_rma_realises
#print axioms Yata.C05.C05_every_kind_realises
#print axioms Yata.C05.C05_macd_init_every_kind
#print axioms Yata.C05.C05_macd_run
#print axioms Yata.C05.C05_adx_t_textbook
#print axioms Yata.C05.C05_rsi_unclamped
#print axioms Yata.C05.C05_rsi_run
