/-
  C05 — Indicator raw values equal the documented formulas.

  Statements are about the exact-arithmetic models of lean/YataModel/Indicators.lean (16 indicators,
  tied to src/indicators/*.rs by the `ind` correspondence run: every returned value at every step).

  * The configurable moving average `MA.init` / `MAInst.next` *realises* a history function:
    `Realises f m h` — after the inputs `h` the instance `m` answers `f (h ++ [x])` to every next input `x`,
    for ever (`C05_realises_run`).  Proved here for the kinds the indicators use by default (SMA: arithmetic mean
    of the last `n` values with the construction value as prehistory; EMA: the recurrence with α = 2/(n+1));
    the other kinds' machines are related to their formulas in C02/C03 and compose the same way.
  * MACD (every stream, every pair of realised averages): value 0 is `f₁(sources) − f₂(sources)`, value 1 is
    `f₃` of the history of value 0 (`C05_macd_step`, an invariant step lifted over candle lists by `runM_invariant`).
  * Donchian channel, from `init`, over every candle list: the bounds are a greatest / least element of the last `n`
    highs / lows of `n copies of the first candle ++ candles so far`, the middle is their mean (`C05_donchian_run`).
  * RSI: `pos/(pos+neg)` (½ when both vanish) of the realised averages of gains and losses (`C05_rsi_step`).
  * Chande momentum: from an invariant state the running sums are the window sums of positive / negative parts and
    the value is `(P−N)/(P+N)` (0 when both vanish) (`C05_cmo_step`).
  * Aroon: `(period − age)/period` of the newest highest high / lowest low, the ages being characterised by
    `HighestIndex.Inv` (C04: newest maximal element) (`C05_aroon_step`).
  * Bollinger: centre = mean, variance under the bands = sample variance of the last `avg_size` sources, from
    invariant SMA / StDev states (`C05_bollinger_step`; the bands are centre ± sigma·sqrt(variance), sqrt not modelled).
  * Money-flow: the source's `1 − 1/(1 + pmf/nmf)` is `pmf/(pmf+nmf)` (`C05_mfi_formula`).
  * Parabolic SAR: the returned pair is the state after the flip test (`C05_sar_values`).
  Partial: Stochastic, Keltner, Envelopes, Ichimoku, CMF, TSI/SMI value theorems over whole
  histories are not written (those models are validated by the correspondence run only); floats are outside.
-/
import YataProofs.Indicators.More
namespace Yata.C05
open Yata Yata.Ind

theorem C05_realises_run {f : List ℚ → ℚ} {m : M} {h : List ℚ} (hr : Realises f m h) (xs : List ℚ) :
    ∃ outs m', runM MAInst.next m xs = .ok (outs, m') ∧ Realises f m' (h ++ xs) ∧ outs.length = xs.length ∧
      ∀ i (hi : i < outs.length), outs[i] = f (h ++ xs.take (i + 1)) := hr.run xs

theorem C05_sma_realises {P n : Nat} (v : ℚ) (hn0 : 0 < n) (hn : n ≤ P - 1) :
    ∃ m, MA.init P { kind := .sma, length := n } v = .ok m ∧
      Realises (fun h => Spec.mean n (lastN n (history n v h))) m [] := sma_realises v hn0 hn

theorem C05_ema_realises {P n : Nat} (v : ℚ) (hn0 : 0 < n) (hn : n ≤ P - 1) :
    ∃ m, MA.init P { kind := .ema, length := n } v = .ok m ∧
      Realises (fun h => Spec.emaRec (((2 : Nat) : ℚ) / ((n + 1 : Nat) : ℚ)) v h) m [] := ema_realises v hn0 hn

theorem C05_macd_step {f1 f2 f3 : List ℚ → ℚ} {srcs macds : List ℚ} {s : MACD} (k : Candle ℚ)
    (hi : MACD.Inv f1 f2 f3 srcs macds s) :
    let x := k.source s.cfg.source
    let macd := f1 (srcs ++ [x]) - f2 (srcs ++ [x])
    ∃ v s', s.vals k none = .ok (v, s') ∧ v.map VExp.value = [macd, f3 (macds ++ [macd])] ∧
      MACD.Inv f1 f2 f3 (srcs ++ [x]) (macds ++ [macd]) s' ∧ s'.cfg = s.cfg := MACD.vals_spec k hi

theorem C05_donchian_run {P n : Nat} (k0 : Candle ℚ) (hn1 : 1 < n) (hn : n ≤ P - 1) (cs : List (Candle ℚ)) :
    ∃ s0 outs s', Channel.init P n 1 true k0 = .ok s0 ∧
      runM (fun s k => Channel.donchianVals s k) s0 cs = .ok (outs, s') ∧ outs.length = cs.length ∧
      ∀ i (hi : i < outs.length), ∃ lo hiV,
        outs[i].map VExp.value = [lo, (hiV + lo) * half, hiV] ∧
        IsMaxOf hiV (lastN n (List.replicate n k0.high ++ (cs.take (i + 1)).map (·.high))) ∧
        IsMinOf lo (lastN n (List.replicate n k0.low ++ (cs.take (i + 1)).map (·.low))) :=
  Channel.donchian_run k0 hn1 hn cs

theorem C05_rsi_step {fp fn : List ℚ → ℚ} {gains losses : List ℚ} {s : RSI} (k : Candle ℚ)
    (hp : Realises fp s.posma gains) (hn : Realises fn s.negma losses) :
    let src := k.source s.cfg.source
    let g := smax (src - s.previous_input) 0
    let l := smin (src - s.previous_input) 0
    let pos := fp (gains ++ [g])
    let neg := -(fn (losses ++ [l]))
    ∃ v s', s.vals k = .ok ([v], s') ∧
      v.value = (if pos + neg = 0 then half else pos / (pos + neg)) ∧
      Realises fp s'.posma (gains ++ [g]) ∧ Realises fn s'.negma (losses ++ [l]) ∧
      s'.previous_input = src ∧ s'.cfg = s.cfg := RSI.vals_spec k hp hn

theorem C05_cmo_step {P : Nat} {s : CMO} (k : Candle ℚ) (h : CMO.Inv P s) :
    ∃ v s', s.vals k = .ok ([v], s') ∧ CMO.Inv P s' ∧ 0 ≤ s'.pos_sum ∧ 0 ≤ s'.neg_sum ∧
      v.value = (if s'.pos_sum + s'.neg_sum = 0 then 0 else (s'.pos_sum - s'.neg_sum) / (s'.pos_sum + s'.neg_sum)) ∧
      -1 ≤ v.value ∧ v.value ≤ 1 := CMO.vals_spec k h

theorem C05_aroon_step {P : Nat} {s : Aroon} (k : Candle ℚ)
    (hh : HighestIndex.Inv P s.highest_index) (hl : LowestIndex.Inv P s.lowest_index) :
    ∃ v hi li s', Aroon.vals P s k = .ok (v, (hi, li), s') ∧
      v.map VExp.value = [((s.cfg.period - hi : Nat) : ℚ) / (s.cfg.period : ℚ), ((s.cfg.period - li : Nat) : ℚ) / (s.cfg.period : ℚ)] ∧
      HighestIndex.Inv P s'.highest_index ∧ LowestIndex.Inv P s'.lowest_index ∧
      hi = s'.highest_index.index ∧ li = s'.lowest_index.index ∧
      Window.toList s'.highest_index.window = (Window.toList s.highest_index.window).tail ++ [k.high] ∧
      Window.toList s'.lowest_index.window = (Window.toList s.lowest_index.window).tail ++ [k.low] ∧ s'.cfg = s.cfg :=
  Aroon.vals_spec k hh hl

theorem C05_bollinger_step {P : Nat} {hist : List ℚ} {s : BB} (k : Candle ℚ) (hn : 2 ≤ s.cfg.avg_size)
    (hm : SMA.Inv P s.cfg.avg_size hist s.ma) (hd : StDev.Inv P s.cfg.avg_size hist s.st_dev) :
    let n := s.cfg.avg_size
    let w := lastN n (hist ++ [k.source s.cfg.source])
    ∃ s', s.step k = .ok (Spec.mean n w, (w.map fun x => (x - Spec.mean n w) * (x - Spec.mean n w)).sum / ((n - 1 : Nat) : ℚ), s') ∧
      SMA.Inv P n (hist ++ [k.source s.cfg.source]) s'.ma ∧ StDev.Inv P n (hist ++ [k.source s.cfg.source]) s'.st_dev ∧
      s'.cfg = s.cfg := BB.step_spec k hn hm hd

theorem C05_mfi_formula (p n : ℚ) (hp : 0 ≤ p) (hn : 0 < n) : 1 - 1 / (1 + p / n) = p / (p + n) := mfi_formula p n hp hn

theorem C05_sar_values (s : SAR) (k : Candle ℚ) :
    ((s.next k).1.1.map VExp.value) = [(SAR.afterFlip s k).sar, ((SAR.afterFlip s k).trend : ℚ)] := SAR.next_values s k

/-! non-vacuity: a reachable MACD state satisfies the invariant (both default averages are EMAs) -/
example : ∃ m, MA.init 255 { kind := .ema, length := 12 } (100 : ℚ) = .ok m ∧
    Realises (fun h => Spec.emaRec (((2 : Nat) : ℚ) / ((12 + 1 : Nat) : ℚ)) 100 h) m [] :=
  ema_realises 100 (by norm_num) (by norm_num)

end Yata.C05

#print axioms Yata.C05.C05_realises_run
#print axioms Yata.C05.C05_sma_realises
#print axioms Yata.C05.C05_ema_realises
#print axioms Yata.C05.C05_macd_step
#print axioms Yata.C05.C05_donchian_run
#print axioms Yata.C05.C05_rsi_step
#print axioms Yata.C05.C05_cmo_step
#print axioms Yata.C05.C05_mfi_formula
#print axioms Yata.C05.C05_sar_values
#print axioms Yata.C05.C05_aroon_step
#print axioms Yata.C05.C05_bollinger_step
