/-
  C18 — Candle helpers satisfy their textbook identities; text forms round-trip.

  Model: `YataModel/Candle.lean` (OHLCV default methods, `Candle + Candle`, `Source`),
  `YataModel/Text.lean` (`FromStr for Source`, `FromStr for MA`, Rust's unsigned-integer grammar).
  All arithmetic statements hold in every linear ordered field.  `validate`'s handling of NaN and
  infinities is not expressible in a field; it is modelled on classified bit patterns in the driver
  (`validateBits`) and compared exhaustively over the special-value classes by the correspondence run.
-/
import YataProofs.Candle
namespace Yata.C18
open Yata
variable {K : Type} [Field K] [LinearOrder K] [IsStrictOrderedRing K]

theorem C18_formulas (c : Candle K) :
    c.tp = (c.high + c.low + c.close) / 3 ∧ c.hl2 = (c.high + c.low) / 2 ∧
    c.ohlc4 = (c.high + c.low + c.close + c.open_) / 4 ∧ c.volumedPrice = (c.high + c.low + c.close) / 3 * c.volume :=
  Candle.formulas c

theorem C18_source (c : Candle K) :
    c.source .close = c.close ∧ c.source .open_ = c.open_ ∧ c.source .high = c.high ∧ c.source .low = c.low ∧
    c.source .hl2 = c.hl2 ∧ c.source .tp = c.tp ∧ c.source .volume = c.volume ∧
    c.source .volumedPrice = c.volumedPrice := Candle.source_eq c

theorem C18_clv (c : Candle K) :
    c.clv = (if c.high = c.low then 0 else ((c.close - c.low) - (c.high - c.close)) / (c.high - c.low)) ∧
    (c.low ≤ c.close → c.close ≤ c.high → -1 ≤ c.clv ∧ c.clv ≤ 1) :=
  ⟨Candle.clv_eq c, Candle.clv_range c⟩

/-- single-subtraction true range = max(high−low, |high−prev_close|, |low−prev_close|) whenever high ≥ low -/
theorem C18_true_range (c : Candle K) (p : K) (h : c.low ≤ c.high) :
    c.trClose p = max (max (c.high - c.low) |c.high - p|) |c.low - p| := Candle.trClose_eq c p h

/-- validate (finite fields): exactly the ordered, positive candles with non-negative volume -/
theorem C18_validate (c : Candle K) :
    c.validateFinite = true ↔
      (c.low ≤ c.open_ ∧ c.open_ ≤ c.high ∧ c.low ≤ c.close ∧ c.close ≤ c.high ∧
       0 < c.open_ ∧ 0 < c.high ∧ 0 < c.low ∧ 0 < c.close ∧ 0 ≤ c.volume) := Candle.validateFinite_iff c

theorem C18_add_assoc (a b c : Candle K) : (a.add b).add c = a.add (b.add c) := Candle.add_assoc a b c

/-- the aggregate of a non-empty sequence: first open, highest high, lowest low, last close, summed volume -/
theorem C18_aggregate (x : Candle K) (xs : List (Candle K)) :
    let r := xs.foldl Candle.add x
    r.open_ = x.open_ ∧ r.close = ((x :: xs).getLast (by simp)).close ∧
    r.high = (xs.map (·.high)).foldl max x.high ∧ r.low = (xs.map (·.low)).foldl min x.low ∧
    r.volume = x.volume + (xs.map (·.volume)).sum := Candle.foldl_add x xs

theorem C18_source_roundtrip : ∀ s ∈ Source.all, Text.parseSource s.toStr.toList = some s := Text.source_roundtrip

theorem C18_ma_roundtrip (k : MAKind) (n : Nat) (hn : n ≤ 255) :
    Text.parseMA 255 (k.name ++ '-' :: Text.natDigits n) = some { kind := k, length := n } :=
  Text.ma_roundtrip k n hn

theorem C18_ma_parse_form (P : Nat) (l : List Char) (m : MA) (h : Text.parseMA P l = some m) :
    ∃ a b, Text.splitOnce '-' l = some (a, b) ∧ MAKind.ofName a = some m.kind ∧ Text.parseUInt P b = some m.length :=
  Text.ma_parse_form P l m h

/-! non-vacuity -/
example : Text.parseMA 255 "ema-12".toList = some ⟨.ema, 12⟩ ∧ Text.parseMA 255 "ema-256".toList = none ∧
    Text.parseSource "  HLC3 ".toList = some .tp := by decide +kernel

end Yata.C18

#print axioms Yata.C18.C18_formulas
#print axioms Yata.C18.C18_source
#print axioms Yata.C18.C18_clv
#print axioms Yata.C18.C18_true_range
#print axioms Yata.C18.C18_validate
#print axioms Yata.C18.C18_add_assoc
#print axioms Yata.C18.C18_aggregate
#print axioms Yata.C18.C18_source_roundtrip
#print axioms Yata.C18.C18_ma_roundtrip
#print axioms Yata.C18.C18_ma_parse_form
