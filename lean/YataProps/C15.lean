/-
  C15 — Moving averages are averages: affine-equivariant, range-preserving, linear.

  Proved for the from-scratch specs (equal to the machines by C02/C03), in every linear ordered
  field, for every length, construction value and stream:
    * SMA, WMA and the exponential recurrence (EMA with α = 2/(n+1), RMA/WSMA with α = 1/n; DMA and
      TMA are its compositions) commute with every affine map x ↦ a·x + b (any sign of a);
    * they satisfy superposition;
    * they never leave the hull of the values given (construction value included) — for the
      recurrence because its smoothing constant lies in (0, 1];
    * constants are reproduced exactly (C08);
    * the weights are the documented profiles: SMA 1/n, WMA (i+1)/(n(n+1)/2) from the oldest
      (i.e. 2(n−age)/(n(n+1))), by definition of the specs.
  SWMA, TRIMA, HMA, LinReg, SMM, Vidya, VWMA, Conv: the same relations are checked on the real code
  (metamorphic run: x vs a·x+b, x,y vs x+y, hull, impulse response) and against their from-scratch
  specs by the method suite; theorems are not yet written for them.
-/
import YataProofs.MALaws
namespace Yata.C15
open Yata
variable {K : Type} [Field K] [LinearOrder K] [IsStrictOrderedRing K]

theorem C15_sma (n : Nat) (hn : 0 < n) (v : K) (xs : List K) :
    (∀ a b : K, Spec.sma n (a * v + b) (xs.map fun x => a * x + b) = a * Spec.sma n v xs + b) ∧
    (∀ (w : K) (ys : List K), xs.length = ys.length →
        Spec.sma n (v + w) (List.zipWith (· + ·) xs ys) = Spec.sma n v xs + Spec.sma n w ys) ∧
    (∀ lo hi : K, (∀ x ∈ v :: xs, lo ≤ x ∧ x ≤ hi) → lo ≤ Spec.sma n v xs ∧ Spec.sma n v xs ≤ hi) :=
  ⟨fun a b => sma_affine n hn a b v xs, fun w ys h => sma_superposition n hn v w xs ys h,
   fun lo hi h => sma_hull n hn v xs lo hi h⟩

theorem C15_wma (n : Nat) (hn : 0 < n) (v : K) (xs : List K) :
    (∀ a b : K, Spec.wma n (a * v + b) (xs.map fun x => a * x + b) = a * Spec.wma n v xs + b) ∧
    (∀ (w : K) (ys : List K), xs.length = ys.length →
        Spec.wma n (v + w) (List.zipWith (· + ·) xs ys) = Spec.wma n v xs + Spec.wma n w ys) ∧
    (∀ lo hi : K, (∀ x ∈ v :: xs, lo ≤ x ∧ x ≤ hi) → lo ≤ Spec.wma n v xs ∧ Spec.wma n v xs ≤ hi) :=
  ⟨fun a b => wma_affine n hn a b v xs, fun w ys h => wma_superposition n hn v w xs ys h,
   fun lo hi h => wma_hull n hn v xs lo hi h⟩

theorem C15_exponential (α v : K) (xs : List K) :
    (∀ a b : K, Spec.emaRec α (a * v + b) (xs.map fun x => a * x + b) = a * Spec.emaRec α v xs + b) ∧
    (∀ (w : K) (ys : List K), xs.length = ys.length →
        Spec.emaRec α (v + w) (List.zipWith (· + ·) xs ys) = Spec.emaRec α v xs + Spec.emaRec α w ys) ∧
    (0 ≤ α → α ≤ 1 → ∀ lo hi : K, (∀ x ∈ v :: xs, lo ≤ x ∧ x ≤ hi) →
        lo ≤ Spec.emaRec α v xs ∧ Spec.emaRec α v xs ≤ hi) :=
  ⟨fun a b => emaRec_affine α a b v xs, fun w ys h => emaRec_superposition α v w xs ys h,
   fun h0 h1 lo hi h => emaRec_hull α v xs lo hi h0 h1 h⟩

theorem C15_smoothing_in_unit_interval (n : Nat) (hn : 0 < n) :
    (0 : K) ≤ ((2 : Nat) : K) / ((n + 1 : Nat) : K) ∧ ((2 : Nat) : K) / ((n + 1 : Nat) : K) ≤ 1 ∧
    (0 : K) ≤ 1 / (n : K) ∧ (1 : K) / (n : K) ≤ 1 := ema_alpha_range n hn

theorem C15_constants (n k : Nat) (hn : 0 < n) (α v : K) :
    Spec.sma n v (List.replicate k v) = v ∧ Spec.wma n v (List.replicate k v) = v ∧
    Spec.emaRec α v (List.replicate k v) = v :=
  ⟨sma_constant n k hn v, wma_constant n k hn v, emaRec_constant α v k⟩

/-- WMA weight profile: impulse response of the spec — a unit value at age `j` (0 = newest) inside
    a zero window contributes `(n - j)/(n(n+1)/2) = 2(n−j)/(n(n+1))` -/
theorem C15_wma_impulse (n j : Nat) (hj : j < n) :
    Spec.rampSum 1 (List.replicate (n - 1 - j) (0 : K) ++ [1] ++ List.replicate j 0) = ((n - j : Nat) : K) := by
  rw [List.append_assoc, show ([1] : List K) ++ List.replicate j 0 = 1 :: List.replicate j 0 from rfl]
  have key : ∀ (k m : Nat) (l : List K), Spec.rampSum k (List.replicate m (0 : K) ++ l) = Spec.rampSum (k + m) l := by
    intro k m l
    induction m generalizing k with
    | zero => simp
    | succ m ih => simp only [List.replicate_succ, List.cons_append, Spec.rampSum, ih, mul_zero, zero_add]; congr 1; omega
  have z : ∀ (k m : Nat), Spec.rampSum k (List.replicate m (0 : K)) = 0 := by
    intro k m
    induction m generalizing k with
    | zero => rfl
    | succ m ih => simp [List.replicate_succ, Spec.rampSum, ih]
  rw [key, Spec.rampSum, z]
  have : 1 + (n - 1 - j) = n - j := by omega
  rw [this]; ring

example : Spec.wma 3 (0 : ℚ) [0, 0, 0, 1] = 1 / 2 ∧ Spec.wma 3 (0 : ℚ) [0, 0, 0, 1, 0] = 1 / 3 := by
  constructor <;> norm_num [Spec.wma, Spec.win, Spec.rampSum, lastN, history, List.replicate]

end Yata.C15

#print axioms Yata.C15.C15_sma
#print axioms Yata.C15.C15_wma
#print axioms Yata.C15.C15_exponential
#print axioms Yata.C15.C15_smoothing_in_unit_interval
#print axioms Yata.C15.C15_constants
#print axioms Yata.C15.C15_wma_impulse
